/-
  Event-queue monotonicity over `XQ` (C15, no fuel exhaustion): with all vertex points finite,
  the event queue stays strictly sorted by point, every event queued while the vertex with
  point `p` is handled lies strictly after `p`, hence every pass of `loop` removes at least one
  vertex from the set of vertices at or after the head of the queue.
-/
import Cav.Lemmas.GeomXQ
import Cav.Lemmas.SweepNSE
import Cav.Lemmas.SweepSetup

set_option linter.unusedSectionVars false
set_option linter.unusedVariables false

namespace Cav.SweepEvents
open Cav Num Cav.Geo Cav.Sweep Cav.SweepRun Cav.SweepHoare Cav.SweepFrame Cav.SweepNSE
  Cav.SweepSetup

/-! ### comparison of finite points through their rational coordinates -/

theorem cmp_lt_iff {p q : Pt XQ} (hp : Geo.Finite p) (hq : Geo.Finite q) :
    p.cmp q = .lt ↔ lexLt (toQ p) (toQ q) := by
  obtain ⟨a, b, rfl⟩ := hp; obtain ⟨c, d, rfl⟩ := hq
  exact Pt.cmp_fin_lt a b c d

theorem cmp_gt_iff {p q : Pt XQ} (hp : Geo.Finite p) (hq : Geo.Finite q) :
    p.cmp q = .gt ↔ lexLt (toQ q) (toQ p) := by
  obtain ⟨a, b, rfl⟩ := hp; obtain ⟨c, d, rfl⟩ := hq
  exact Pt.cmp_fin_gt a b c d

theorem cmp_eq_iff {p q : Pt XQ} (hp : Geo.Finite p) (hq : Geo.Finite q) :
    p.cmp q = .eq ↔ toQ p = toQ q := by
  obtain ⟨a, b, rfl⟩ := hp; obtain ⟨c, d, rfl⟩ := hq
  rw [Pt.cmp_fin_eq]; simp

theorem lexLt_irrefl (p : Rat × Rat) : ¬ lexLt p p := by unfold lexLt; simp

theorem lexLt_trans {p q r : Rat × Rat} (h1 : lexLt p q) (h2 : lexLt q r) : lexLt p r := by
  unfold lexLt at *
  rcases h1 with h1 | ⟨h1, h1'⟩ <;> rcases h2 with h2 | ⟨h2, h2'⟩
  · exact Or.inl (lt_trans h1 h2)
  · exact Or.inl (h2 ▸ h1)
  · exact Or.inl (h1 ▸ h2)
  · exact Or.inr ⟨h1.trans h2, lt_trans h1' h2'⟩

theorem lexLt_total (p q : Rat × Rat) : lexLt p q ∨ p = q ∨ lexLt q p := by
  obtain ⟨a, b⟩ := p
  obtain ⟨c, d⟩ := q
  unfold lexLt
  rcases lt_trichotomy a c with h | h | h
  · exact Or.inl (Or.inl h)
  · rcases lt_trichotomy b d with h' | h' | h'
    · exact Or.inl (Or.inr ⟨h, h'⟩)
    · exact Or.inr (Or.inl (by rw [h, h']))
    · exact Or.inr (Or.inr (Or.inr ⟨h.symm, h'⟩))
  · exact Or.inr (Or.inr (Or.inl h))

theorem eq_iff {p q : Pt XQ} (hp : Geo.Finite p) (hq : Geo.Finite q) :
    p.eq q = true ↔ toQ p = toQ q := by
  obtain ⟨a, b, rfl⟩ := hp; obtain ⟨c, d, rfl⟩ := hq
  rw [Pt.eq_fin]; simp

theorem lt_iff {p q : Pt XQ} (hp : Geo.Finite p) (hq : Geo.Finite q) :
    p.lt q = true ↔ lexLt (toQ p) (toQ q) := by
  rw [← cmp_lt_iff hp hq]; simp [Pt.lt]

theorem gt_iff {p q : Pt XQ} (hp : Geo.Finite p) (hq : Geo.Finite q) :
    p.gt q = true ↔ lexLt (toQ q) (toQ p) := by
  rw [← cmp_gt_iff hp hq]; simp [Pt.gt]

theorem ge_iff {p q : Pt XQ} (hp : Geo.Finite p) (hq : Geo.Finite q) :
    p.ge q = true ↔ ¬ lexLt (toQ p) (toQ q) := by
  rw [← cmp_lt_iff hp hq]; simp [Pt.ge]

/-- the larger neighbour of a `Bend` vertex lies after it -/
theorem bend_rlp_gt {p p1 p2 : Pt XQ} (hp : Geo.Finite p) (h1 : Geo.Finite p1) (h2 : Geo.Finite p2)
    (hb : fromTriplet p p1 p2 = some .bend) :
    lexLt (toQ p) (if p1.ge p2 then toQ p1 else toQ p2) := by
  unfold fromTriplet at hb
  have e1 := eq_iff hp h1
  have e2 := eq_iff hp h2
  have l1 := lt_iff hp h1
  have l2 := lt_iff hp h2
  have g1 := gt_iff hp h1
  have g2 := gt_iff hp h2
  have ge := ge_iff h1 h2
  have t1 := lexLt_total (toQ p) (toQ p1)
  have t2 := lexLt_total (toQ p) (toQ p2)
  have tr : ∀ {a b c : Rat × Rat}, lexLt a b → lexLt b c → lexLt a c := fun h h' => lexLt_trans h h'
  have irr := lexLt_irrefl
  cases hE1 : p.eq p1 <;> cases hE2 : p.eq p2 <;> cases hL1 : p.lt p1 <;> cases hL2 : p.lt p2 <;>
    cases hG1 : p.gt p1 <;> cases hG2 : p.gt p2 <;> cases hGE : p1.ge p2 <;>
    simp only [hE1, hE2, hL1, hL2, hG1, hG2, hGE] at hb e1 e2 l1 l2 g1 g2 ge ⊢ <;>
    simp at hb e1 e2 l1 l2 g1 g2 ge ⊢ <;> grind

/-- both neighbours of a `Start` vertex lie after it -/
theorem start_gt {p p1 p2 : Pt XQ} (hp : Geo.Finite p) (h1 : Geo.Finite p1) (h2 : Geo.Finite p2)
    (hb : fromTriplet p p1 p2 = some .start) :
    lexLt (toQ p) (toQ p1) ∧ lexLt (toQ p) (toQ p2) := by
  unfold fromTriplet at hb
  have l1 := lt_iff hp h1
  have l2 := lt_iff hp h2
  cases hE1 : p.eq p1 <;> cases hE2 : p.eq p2 <;> cases hL1 : p.lt p1 <;> cases hL2 : p.lt p2 <;>
    simp only [hE1, hE2, hL1, hL2] at hb l1 l2 <;> simp at hb l1 l2
  all_goals first | exact ⟨l1, l2⟩ | (split at hb <;> cases hb)

/-! ### the event queue -/

/-- the rational key of vertex `i` (junk out of range) -/
def keyOf (V : Array (Vtx XQ)) (i : Nat) : Rat × Rat :=
  match V[i]? with
  | some v => toQ v.p
  | none => (0, 0)

theorem keyOf_eq {V : Array (Vtx XQ)} {i : Nat} {v : Vtx XQ} (h : V[i]? = some v) :
    keyOf V i = toQ v.p := by
  unfold keyOf; rw [h]

/-- every vertex point is finite -/
def AllFin (V : Array (Vtx XQ)) : Prop :=
  ∀ (i : Nat) (v : Vtx XQ), V[i]? = some v → Geo.Finite v.p

/-- keys in range and strictly ascending points -/
def EvSorted (V : Array (Vtx XQ)) (evs : List (Nat × List Nat)) : Prop :=
  (∀ a ∈ evs, a.1 < V.size) ∧ evs.Pairwise (fun a b => lexLt (keyOf V a.1) (keyOf V b.1))

/-- every key of `l'` is `vi` or a key of `l` -/
def KeysSub (vi : Nat) (l l' : List (Nat × List Nat)) : Prop :=
  ∀ a ∈ l', a.1 = vi ∨ ∃ b ∈ l, b.1 = a.1

theorem eventsAdd_go_ok (V : Array (Vtx XQ)) (hfin : AllFin V) (vi ei : Nat) (v : Vtx XQ)
    (hv : V[vi]? = some v) :
    ∀ (l : List (Nat × List Nat)) (s : St XQ) (l' : List (Nat × List Nat)) (s' : St XQ),
      s.verts = V → (eventsAdd.go vi ei v.p l).run s = .ok (l', s') →
      s' = s ∧ KeysSub vi l l' ∧ (EvSorted V l → EvSorted V l') := by
  have hvi : vi < V.size := by
    rcases Nat.lt_or_ge vi V.size with h | h
    · exact h
    · rw [Array.getElem?_eq_none h] at hv; cases hv
  intro l
  induction l with
  | nil =>
    intro s l' s' hs h
    unfold eventsAdd.go at h
    cases h
    refine ⟨rfl, ?_, ?_⟩
    · intro a ha; simp at ha; left; rw [ha]
    · intro _
      exact ⟨by intro a ha; simp at ha; rw [ha]; exact hvi, List.pairwise_singleton _ _⟩
  | cons ke rest ih =>
    obtain ⟨k, es⟩ := ke
    intro s l' s' hs h
    unfold eventsAdd.go at h
    simp only [bind_ok, getVtx_ok] at h
    obtain ⟨kv, s1, ⟨hk, rfl⟩, h⟩ := h
    rw [hs] at hk
    have fv := hfin vi v hv
    have fk := hfin k kv hk
    split at h
    · -- lt
      rename_i hc
      cases h
      have hlt : lexLt (keyOf V vi) (keyOf V k) := by
        rw [keyOf_eq hv, keyOf_eq hk]; exact (cmp_lt_iff fv fk).mp hc
      refine ⟨rfl, ?_, ?_⟩
      · intro a ha
        rcases List.mem_cons.mp ha with rfl | ha
        · exact Or.inl rfl
        · exact Or.inr ⟨a, ha, rfl⟩
      · rintro ⟨hr, hp⟩
        refine ⟨?_, List.pairwise_cons.mpr ⟨?_, hp⟩⟩
        · intro a ha
          rcases List.mem_cons.mp ha with rfl | ha
          · exact hvi
          · exact hr a ha
        · intro b hb
          rcases List.mem_cons.mp hb with rfl | hb
          · exact hlt
          · exact lexLt_trans hlt ((List.pairwise_cons.mp hp).1 b hb)
    · -- eq
      cases h
      refine ⟨rfl, ?_, ?_⟩
      · intro a ha
        rcases List.mem_cons.mp ha with rfl | ha
        · exact Or.inr ⟨(k, es), List.mem_cons_self, rfl⟩
        · exact Or.inr ⟨a, List.mem_cons_of_mem _ ha, rfl⟩
      · rintro ⟨hr, hp⟩
        refine ⟨?_, ?_⟩
        · intro a ha
          rcases List.mem_cons.mp ha with rfl | ha
          · exact hr (k, es) List.mem_cons_self
          · exact hr a (List.mem_cons_of_mem _ ha)
        · exact List.pairwise_cons.mpr ⟨(List.pairwise_cons.mp hp).1, (List.pairwise_cons.mp hp).2⟩
    · -- gt
      rename_i hc
      simp only [bind_ok, run_pure, Except.ok.injEq, Prod.mk.injEq] at h
      obtain ⟨r', s2, hgo, rfl, rfl⟩ := h
      obtain ⟨rfl, hsub, hsorted⟩ := ih s1 r' s2 hs hgo
      have hgt : lexLt (keyOf V k) (keyOf V vi) := by
        rw [keyOf_eq hv, keyOf_eq hk]; exact (cmp_gt_iff fv fk).mp hc
      refine ⟨rfl, ?_, ?_⟩
      · intro a ha
        rcases List.mem_cons.mp ha with rfl | ha
        · exact Or.inr ⟨(k, es), List.mem_cons_self, rfl⟩
        · rcases hsub a ha with h1 | ⟨b, hb, hbe⟩
          · exact Or.inl h1
          · exact Or.inr ⟨b, List.mem_cons_of_mem _ hb, hbe⟩
      · rintro ⟨hr, hp⟩
        obtain ⟨hhead, htail⟩ := List.pairwise_cons.mp hp
        obtain ⟨hr', hp'⟩ := hsorted ⟨fun a ha => hr a (List.mem_cons_of_mem _ ha), htail⟩
        refine ⟨?_, List.pairwise_cons.mpr ⟨?_, hp'⟩⟩
        · intro a ha
          rcases List.mem_cons.mp ha with rfl | ha
          · exact hr (k, es) List.mem_cons_self
          · exact hr' a ha
        · intro a ha
          rcases hsub a ha with h1 | ⟨b, hb, hbe⟩
          · rw [h1]; exact hgt
          · rw [← hbe]; exact hhead b hb


/-- invariant of the handlers while the vertex with key `lo` is being handled: the vertex ring
    is `V`, the queue is strictly sorted and every queued vertex lies strictly after `lo` -/
def EvInv (V : Array (Vtx XQ)) (lo : Rat × Rat) (s : St XQ) : Prop :=
  s.verts = V ∧ EvSorted V s.events ∧ ∀ a ∈ s.events, lexLt lo (keyOf V a.1)

theorem veInv_evInv (V : Array (Vtx XQ)) (lo : Rat × Rat) : VEInv (EvInv V lo) := by
  intro s s' hv he h
  unfold EvInv at *
  rw [hv, he]; exact h

variable {V : Array (Vtx XQ)} {lo : Rat × Rat}

/-- reading a vertex returns the entry of `V` -/
theorem getVtx_ev (i : Nat) :
    Pres (EvInv V lo) HandlerErr (fun v => V[i]? = some v) (getVtx i : SM XQ _) := by
  apply Pres.intro
  intro s hs
  rw [run_getVtx]
  cases h : s.verts[i]? with
  | none => exact True.intro
  | some v => exact ⟨hs, by rw [← hs.1]; exact h⟩

/-- queueing a vertex that lies after `lo` keeps the invariant -/
theorem eventsAdd_ev (hfin : AllFin V) (vi ei : Nat) (hgt : lexLt lo (keyOf V vi)) :
    Pres (EvInv V lo) HandlerErr (fun _ => True) (eventsAdd vi ei : SM XQ _) := by
  apply Pres.intro
  intro s hs
  obtain ⟨hV, hsorted, hlo⟩ := hs
  unfold eventsAdd
  rw [run_bind, run_get]
  simp only
  rw [run_bind, run_getVtx]
  cases hv : s.verts[vi]? with
  | none => exact True.intro
  | some v =>
    simp only
    rw [run_bind]
    cases hgo : (eventsAdd.go vi ei v.p s.events).run s with
    | error e =>
      have := (eventsAdd_go_nse vi ei v.p s.events).err (s := s) True.intro hgo
      exact this
    | ok r =>
      obtain ⟨l', s1⟩ := r
      obtain ⟨rfl, hsub, hsort'⟩ := eventsAdd_go_ok V hfin vi ei v (by rw [← hV]; exact hv) s.events s l' s1 hV hgo
      simp only [run_modify]
      refine ⟨⟨hV, hsort' hsorted, ?_⟩, True.intro⟩
      intro a ha
      rcases hsub a ha with h1 | ⟨b, hb, hbe⟩
      · rw [h1]; exact hgt
      · rw [← hbe]; exact hlo b hb


/-- side goals `lexLt lo (keyOf V (if c then … else …).k)` -/
macro "ev_pick" : tactic =>
  `(tactic| (have hh := ‹(if _ then _ else _) = (_, _, _, _)›
             split at hh <;> cases hh <;> assumption))
macro_rules | `(tactic| pres_side) => `(tactic| ev_pick)

theorem handleEnd_ev (hI : VEInv (EvInv V lo)) (hE : PanicOk (HandlerErr : SErr XQ → Prop))
    (p : Pt XQ) (r : List Nat) :
    Pres (EvInv V lo) HandlerErr (fun _ => True) (handleEnd p r) := by
  unfold handleEnd; pres_auto

theorem handleStart_ev (hI : VEInv (EvInv V lo)) (hE : PanicOk (HandlerErr : SErr XQ → Prop))
    (hfin : AllFin V) (p : Pt XQ) (lp1 lp2 : Nat)
    (h1 : lexLt lo (keyOf V lp1)) (h2 : lexLt lo (keyOf V lp2)) :
    Pres (EvInv V lo) HandlerErr (fun _ => True) (handleStart p lp1 lp2) := by
  unfold handleStart; pres_auto


macro "ev_rlp" : tactic =>
  `(tactic| exact $(Lean.mkIdent `hrlp) _ _ (by assumption) (by assumption))
macro_rules | `(tactic| pres_side) => `(tactic| ev_rlp)

theorem handleBend_ev (hI : VEInv (EvInv V lo)) (hE : PanicOk (HandlerErr : SErr XQ → Prop))
    (hfin : AllFin V) (p : Pt XQ) (lp1 lp2 : Nat) (r : List Nat)
    (hrlp : ∀ v1 v2 : Vtx XQ, V[lp1]? = some v1 → V[lp2]? = some v2 →
      lexLt lo (keyOf V (if v1.p.ge v2.p then lp1 else lp2))) :
    Pres (EvInv V lo) HandlerErr (fun _ => True) (handleBend p lp1 lp2 r) := by
  unfold handleBend; pres_auto


theorem panicOk_handlerErr' : PanicOk (HandlerErr : SErr XQ → Prop) := fun _ => True.intro

/-- one pass of `handleNext`: afterwards the queue is sorted and lies strictly after the point
    of the vertex that was handled -/
theorem handleNext_ok (hfin : AllFin V) {s s' : St XQ} (hV : s.verts = V)
    (hsorted : EvSorted V s.events) {lp : Nat} {r : List Nat} {rest : List (Nat × List Nat)}
    (hev : s.events = (lp, r) :: rest) (h : (handleNext : SM XQ Unit).run s = .ok ((), s')) :
    EvInv V (keyOf V lp) s' := by
  unfold handleNext at h
  simp only [bind_ok, run_get, Except.ok.injEq, Prod.mk.injEq] at h
  obtain ⟨s0, s1, ⟨rfl, rfl⟩, h⟩ := h
  rw [hev] at h
  simp only [bind_ok, getVtx_ok] at h
  obtain ⟨v, s2, ⟨hv, rfl⟩, v1, s3, ⟨hv1, rfl⟩, v2, s4, ⟨hv2, rfl⟩, h⟩ := h
  rw [hV] at hv hv1 hv2
  have fv := hfin _ _ hv
  have fv1 := hfin _ _ hv1
  have fv2 := hfin _ _ hv2
  have hI := veInv_evInv V (keyOf V lp)
  have hE := panicOk_handlerErr'
  -- the state after popping the head satisfies the handler invariant
  have hinv : EvInv V (keyOf V lp) { s4 with events := rest } := by
    obtain ⟨hr, hp⟩ := hsorted
    rw [hev] at hr hp
    refine ⟨hV, ⟨fun a ha => hr a (List.mem_cons_of_mem _ ha), (List.pairwise_cons.mp hp).2⟩, ?_⟩
    intro a ha
    exact (List.pairwise_cons.mp hp).1 a ha
  cases hft : fromTriplet v.p v1.p v2.p with
  | none =>
    rw [hft] at h
    simp only [bind_ok, run_throw, reduceCtorEq, false_and, exists_false] at h
  | some t =>
    rw [hft] at h
    simp only [bind_ok, run_pure, run_set, Except.ok.injEq, Prod.mk.injEq] at h
    obtain ⟨t', s5, ⟨rfl, rfl⟩, u, s6, ⟨-, rfl⟩, h⟩ := h
    have kv : keyOf V lp = toQ v.p := keyOf_eq hv
    cases t with
    | start =>
      obtain ⟨g1, g2⟩ := start_gt fv fv1 fv2 hft
      have := handleStart_ev hI hE hfin v.p v.prev v.next
        (by rw [kv, keyOf_eq hv1]; exact g1) (by rw [kv, keyOf_eq hv2]; exact g2)
      exact (this.ok hinv h).1
    | end_ =>
      exact ((handleEnd_ev hI hE v.p r).ok hinv h).1
    | bend =>
      have := handleBend_ev hI hE hfin v.p v.prev v.next r (by
        intro w1 w2 hw1 hw2
        rw [hv1] at hw1; rw [hv2] at hw2
        cases hw1; cases hw2
        have := bend_rlp_gt fv fv1 fv2 hft
        rw [kv]
        split
        · rename_i hge; simp only [hge, if_true] at this; rw [keyOf_eq hv1]; exact this
        · rename_i hge; simp only [hge] at this; rw [keyOf_eq hv2]; exact this)
      exact (this.ok hinv h).1


/-! ### the fuel of `loop` suffices -/

theorem countP_lt_countP {β : Type} (P Q : β → Bool) (l : List β)
    (himp : ∀ x ∈ l, P x = true → Q x = true) (hex : ∃ x ∈ l, Q x = true ∧ P x = false) :
    l.countP P < l.countP Q := by
  induction l with
  | nil => obtain ⟨x, hx, _⟩ := hex; cases hx
  | cons a t ih =>
    have hle : t.countP P ≤ t.countP Q := by
      apply List.countP_mono_left
      intro x hx; exact himp x (List.mem_cons_of_mem _ hx)
    obtain ⟨x, hx, hq, hp⟩ := hex
    rcases List.mem_cons.mp hx with rfl | hx
    · rw [List.countP_cons_of_neg (by simp [hp]), List.countP_cons_of_pos hq]
      omega
    · have := ih (fun y hy => himp y (List.mem_cons_of_mem _ hy)) ⟨x, hx, hq, hp⟩
      cases hpa : P a with
      | true =>
        rw [List.countP_cons_of_pos hpa, List.countP_cons_of_pos (himp a List.mem_cons_self hpa)]
        omega
      | false =>
        rw [List.countP_cons_of_neg (by simp [hpa])]
        cases hqa : Q a with
        | true => rw [List.countP_cons_of_pos hqa]; omega
        | false => rw [List.countP_cons_of_neg (by simp [hqa])]; exact this

/-- number of vertices strictly after vertex `k` -/
def rank (V : Array (Vtx XQ)) (k : Nat) : Nat :=
  (List.range V.size).countP (fun i => decide (lexLt (keyOf V k) (keyOf V i)))

theorem rank_lt_size {k : Nat} (hk : k < V.size) : rank V k < V.size := by
  unfold rank
  have h1 : (List.range V.size).countP (fun i => decide (lexLt (keyOf V k) (keyOf V i))) <
      (List.range V.size).countP (fun _ => true) := by
    apply countP_lt_countP
    · intro x _ _; rfl
    · exact ⟨k, List.mem_range.mpr hk, rfl, by simpa using lexLt_irrefl _⟩
  simpa using h1

theorem rank_lt_rank {k k' : Nat} (hk' : k' < V.size) (h : lexLt (keyOf V k) (keyOf V k')) :
    rank V k' < rank V k := by
  unfold rank
  apply countP_lt_countP
  · intro x _ hx
    simp only [decide_eq_true_eq] at hx ⊢
    exact lexLt_trans h hx
  · exact ⟨k', List.mem_range.mpr hk', by simpa using h, by simpa using lexLt_irrefl _⟩

/-- fuel demanded by a queue: one pass for the final emptiness test, and for a non-empty queue
    one more than the number of vertices after its head, plus one -/
def need (V : Array (Vtx XQ)) : List (Nat × List Nat) → Nat
  | [] => 1
  | (k, _) :: _ => rank V k + 2

theorem need_le_size {evs : List (Nat × List Nat)} (h : EvSorted V evs) : need V evs ≤ V.size + 1 := by
  cases evs with
  | nil => simp [need]
  | cons a t =>
    obtain ⟨k, r⟩ := a
    have : rank V k < V.size := rank_lt_size (h.1 (k, r) List.mem_cons_self)
    simp only [need]; omega

/-- **no fuel exhaustion**: from a state with finite vertex points and a sorted queue, `loop`
    with at least `need` fuel never fails with `.oof` -/
theorem loop_no_oof (hfin : AllFin V) :
    ∀ (fuel : Nat) (s : St XQ), s.verts = V → EvSorted V s.events → need V s.events ≤ fuel →
      (loop fuel : SM XQ Unit).run s ≠ .error .oof := by
  intro fuel
  induction fuel with
  | zero =>
    intro s _ _ hn
    cases hev : s.events with
    | nil => rw [hev] at hn; simp [need] at hn
    | cons a t => obtain ⟨k, r⟩ := a; rw [hev] at hn; simp [need] at hn
  | succ fuel ih =>
    intro s hV hsorted hn
    unfold loop
    rw [run_bind, run_get]
    simp only
    cases hev : s.events with
    | nil =>
      simp only [List.isEmpty_nil, if_true]
      intro hc; cases hc
    | cons a t =>
      obtain ⟨k, r⟩ := a
      simp only [List.isEmpty_cons, Bool.false_eq_true, if_false]
      rw [run_bind]
      cases hh : (handleNext : SM XQ Unit).run s with
      | error e =>
        simp only
        have := (handleNext_nse (α := XQ)).err (s := s) True.intro hh
        intro hc
        cases hc
        exact this
      | ok r1 =>
        obtain ⟨u, s1⟩ := r1
        simp only
        obtain ⟨hV1, hs1, hgt⟩ := handleNext_ok hfin hV hsorted hev hh
        apply ih s1 hV1 hs1
        rw [hev] at hn
        simp only [need] at hn
        cases hev1 : s1.events with
        | nil => simp only [need]; omega
        | cons a1 t1 =>
          obtain ⟨k1, r1⟩ := a1
          simp only [need]
          have h1 : lexLt (keyOf V k) (keyOf V k1) := hgt (k1, r1) (by rw [hev1]; exact List.mem_cons_self)
          have h2 : k1 < V.size := hs1.1 (k1, r1) (by rw [hev1]; exact List.mem_cons_self)
          have := rank_lt_rank h2 h1
          omega


/-! ### the set-up phase establishes the queue invariant -/

theorem eventsInsertStart_go_ok (V : Array (Vtx XQ)) (hfin : AllFin V) (vi : Nat) (v : Vtx XQ)
    (hv : V[vi]? = some v) :
    ∀ (l : List (Nat × List Nat)) (s : St XQ) (l' : List (Nat × List Nat)) (s' : St XQ),
      s.verts = V → (eventsInsertStart.go vi v.p l).run s = .ok (l', s') →
      s' = s ∧ KeysSub vi l l' ∧ (EvSorted V l → EvSorted V l') := by
  have hvi : vi < V.size := by
    rcases Nat.lt_or_ge vi V.size with h | h
    · exact h
    · rw [Array.getElem?_eq_none h] at hv; cases hv
  intro l
  induction l with
  | nil =>
    intro s l' s' hs h
    unfold eventsInsertStart.go at h
    cases h
    refine ⟨rfl, ?_, ?_⟩
    · intro a ha; simp at ha; left; rw [ha]
    · intro _
      exact ⟨by intro a ha; simp at ha; rw [ha]; exact hvi, List.pairwise_singleton _ _⟩
  | cons ke rest ih =>
    obtain ⟨k, es⟩ := ke
    intro s l' s' hs h
    unfold eventsInsertStart.go at h
    simp only [bind_ok, getVtx_ok] at h
    obtain ⟨kv, s1, ⟨hk, rfl⟩, h⟩ := h
    rw [hs] at hk
    have fv := hfin vi v hv
    have fk := hfin k kv hk
    split at h
    · -- lt
      rename_i hc
      cases h
      have hlt : lexLt (keyOf V vi) (keyOf V k) := by
        rw [keyOf_eq hv, keyOf_eq hk]; exact (cmp_lt_iff fv fk).mp hc
      refine ⟨rfl, ?_, ?_⟩
      · intro a ha
        rcases List.mem_cons.mp ha with rfl | ha
        · exact Or.inl rfl
        · exact Or.inr ⟨a, ha, rfl⟩
      · rintro ⟨hr, hp⟩
        refine ⟨?_, List.pairwise_cons.mpr ⟨?_, hp⟩⟩
        · intro a ha
          rcases List.mem_cons.mp ha with rfl | ha
          · exact hvi
          · exact hr a ha
        · intro b hb
          rcases List.mem_cons.mp hb with rfl | hb
          · exact hlt
          · exact lexLt_trans hlt ((List.pairwise_cons.mp hp).1 b hb)
    · -- eq
      cases h
      refine ⟨rfl, ?_, ?_⟩
      · intro a ha
        rcases List.mem_cons.mp ha with rfl | ha
        · exact Or.inr ⟨(k, es), List.mem_cons_self, rfl⟩
        · exact Or.inr ⟨a, List.mem_cons_of_mem _ ha, rfl⟩
      · rintro ⟨hr, hp⟩
        refine ⟨?_, ?_⟩
        · intro a ha
          rcases List.mem_cons.mp ha with rfl | ha
          · exact hr (k, es) List.mem_cons_self
          · exact hr a (List.mem_cons_of_mem _ ha)
        · exact List.pairwise_cons.mpr ⟨(List.pairwise_cons.mp hp).1, (List.pairwise_cons.mp hp).2⟩
    · -- gt
      rename_i hc
      simp only [bind_ok, run_pure, Except.ok.injEq, Prod.mk.injEq] at h
      obtain ⟨r', s2, hgo, rfl, rfl⟩ := h
      obtain ⟨rfl, hsub, hsorted⟩ := ih s1 r' s2 hs hgo
      have hgt : lexLt (keyOf V k) (keyOf V vi) := by
        rw [keyOf_eq hv, keyOf_eq hk]; exact (cmp_gt_iff fv fk).mp hc
      refine ⟨rfl, ?_, ?_⟩
      · intro a ha
        rcases List.mem_cons.mp ha with rfl | ha
        · exact Or.inr ⟨(k, es), List.mem_cons_self, rfl⟩
        · rcases hsub a ha with h1 | ⟨b, hb, hbe⟩
          · exact Or.inl h1
          · exact Or.inr ⟨b, List.mem_cons_of_mem _ hb, hbe⟩
      · rintro ⟨hr, hp⟩
        obtain ⟨hhead, htail⟩ := List.pairwise_cons.mp hp
        obtain ⟨hr', hp'⟩ := hsorted ⟨fun a ha => hr a (List.mem_cons_of_mem _ ha), htail⟩
        refine ⟨?_, List.pairwise_cons.mpr ⟨?_, hp'⟩⟩
        · intro a ha
          rcases List.mem_cons.mp ha with rfl | ha
          · exact hr (k, es) List.mem_cons_self
          · exact hr' a ha
        · intro a ha
          rcases hsub a ha with h1 | ⟨b, hb, hbe⟩
          · rw [h1]; exact hgt
          · rw [← hbe]; exact hhead b hb




/-- invariant of the set-up phase: finite vertex points, sorted queue -/
def SetupInv (s : St XQ) : Prop := AllFin s.verts ∧ EvSorted s.verts s.events

/-- error predicate of the set-up phase: anything but fuel exhaustion -/
def NotOof (e : SErr XQ) : Prop := e ≠ .oof

theorem HandlerErr.notOof {e : SErr XQ} (h : HandlerErr e) : NotOof e := by
  cases e <;> simp_all [HandlerErr, NotOof]

theorem eventsInsertStart_spec (vi : Nat) :
    Pres SetupInv NotOof (fun _ => True) (eventsInsertStart vi : SM XQ _) := by
  apply Pres.intro
  intro s hs
  obtain ⟨hfin, hsorted⟩ := hs
  unfold eventsInsertStart
  rw [run_bind, run_get]
  simp only
  rw [run_bind, run_getVtx]
  cases hv : s.verts[vi]? with
  | none => simp [NotOof]
  | some v =>
    simp only
    rw [run_bind]
    cases hgo : (eventsInsertStart.go vi v.p s.events).run s with
    | error e =>
      exact HandlerErr.notOof ((eventsInsertStart_go_nse vi v.p s.events).err (s := s) True.intro hgo)
    | ok r =>
      obtain ⟨l', s1⟩ := r
      obtain ⟨rfl, hsub, hsort'⟩ :=
        eventsInsertStart_go_ok s.verts hfin vi v hv s.events s l' s1 rfl hgo
      simp only [run_modify]
      exact ⟨⟨hfin, hsort' hsorted⟩, True.intro⟩

theorem finite_of_validPt {seen s' : List (Pt XQ)} {pt : Pt XQ} (h : validPt seen pt = .ok s') :
    Geo.Finite pt := by
  have := ((validPt_ok_iff seen s' pt).mp h).1
  rw [finite_iff]; unfold FinPt at this; simpa using this

theorem notOof_of_validPt {seen : List (Pt XQ)} {pt : Pt XQ} {e : SErr XQ}
    (h : validPt seen pt = .error e) : NotOof e := by
  rcases validPt_cases seen pt with h' | h' | h' <;> rw [h'] at h <;> cases h <;> simp [NotOof]

theorem keyOf_push {V : Array (Vtx XQ)} (w : Vtx XQ) {i : Nat} (hi : i < V.size) :
    keyOf (V.push w) i = keyOf V i := by
  unfold keyOf
  rw [Array.getElem?_push_lt hi, Array.getElem?_eq_getElem hi]

/-- pushing a finite vertex keeps the set-up invariant -/
theorem setupInv_push {s : St XQ} (hs : SetupInv s) (w : Vtx XQ) (hw : Geo.Finite w.p) :
    SetupInv { s with verts := s.verts.push w } := by
  obtain ⟨hfin, hr, hp⟩ := hs
  refine ⟨?_, ?_, ?_⟩
  · intro i v hv
    simp only at hv
    rcases Nat.lt_trichotomy i s.verts.size with h | h | h
    · rw [Array.getElem?_push_lt h] at hv
      exact hfin i v (by rw [Array.getElem?_eq_getElem h]; exact hv)
    · subst h
      rw [Array.getElem?_push_size] at hv
      cases hv; exact hw
    · rw [Array.getElem?_eq_none (by simp; omega)] at hv; cases hv
  · intro a ha
    have := hr a ha
    simp only [Array.size_push]; omega
  · simp only
    refine List.Pairwise.imp_of_mem ?_ hp
    intro a b ha hb hab
    rw [keyOf_push w (hr a ha), keyOf_push w (hr b hb)]
    exact hab


macro "sv_side" : tactic =>
  `(tactic| first
    | exact notOof_of_validPt (by assumption)
    | exact setupInv_push (by assumption) _ (finite_of_validPt (by assumption))
    | (intro hc; cases hc))
macro_rules | `(tactic| pres_side) => `(tactic| sv_side)

theorem setupBody_sv (poly : Array (Pt XQ)) (n base i : Nat) (seen : List (Pt XQ)) :
    Pres SetupInv NotOof (fun _ => True) (setupBody poly n base i seen) := by
  unfold setupBody; pres_auto_inline

/-- invariant rule for `forIn` over a list -/
theorem Pres.forIn_list {ι σ : Type} {I : St XQ → Prop} {E : SErr XQ → Prop}
    (f : ι → σ → SM XQ (ForInStep σ)) (hf : ∀ i b, Pres I E (fun _ => True) (f i b)) :
    ∀ (l : List ι) (b : σ), Pres I E (fun _ => True) (forIn l b f) := by
  intro l
  induction l with
  | nil => intro b; exact Pres.pure True.intro
  | cons i t ih =>
    intro b
    rw [List.forIn_cons]
    refine Pres.bind (hf i b) ?_
    intro r _
    cases r with
    | done b' => exact Pres.pure True.intro
    | yield b' => exact ih b'

theorem setupPolygon_sv (poly : Array (Pt XQ)) (seen : List (Pt XQ)) :
    Pres SetupInv NotOof (fun _ => True) (setupPolygon poly seen) := by
  apply Pres.intro
  intro s hs
  rw [setupPolygon_eq]
  by_cases hsz : poly.size < 3
  · simp only [hsz, if_true]
    intro hc; cases hc
  · simp only [hsz, if_false]
    have := Pres.forIn_list (setupBody poly poly.size s.verts.size)
      (fun i b => setupBody_sv poly poly.size s.verts.size i b) (List.range' 0 poly.size 1) seen
    cases hr : (forIn (List.range' 0 poly.size 1) seen
        (setupBody poly poly.size s.verts.size)).run s with
    | error e => exact this.err hs hr
    | ok r => exact this.ok hs hr

theorem polyBody_sv (poly : Array (Pt XQ)) (seen : List (Pt XQ)) :
    Pres SetupInv NotOof (fun _ => True) (polyBody poly seen) := by
  unfold polyBody
  exact Pres.bind (setupPolygon_sv poly seen) (fun _ _ => Pres.pure True.intro)

theorem setupInv_init : SetupInv (initSt : St XQ) := by
  refine ⟨?_, ?_, ?_⟩
  · intro i v hv; simp [initSt] at hv
  · intro a ha; simp [initSt] at ha
  · simp [initSt]

/-- **C15, no fuel exhaustion**: over `XQ` (finite or non-finite input coordinates) the model
    never reports that the fuel of the event loop ran out -/
theorem sweep_ne_oof (polys : List (Array (Pt XQ))) : sweep polys ≠ .error .oof := by
  unfold sweep
  rw [run_eq]
  have hsetup := Pres.forIn_list polyBody polyBody_sv polys ([] : List (Pt XQ))
  cases hr : (forIn polys ([] : List (Pt XQ)) polyBody).run (initSt : St XQ) with
  | error e =>
    have : NotOof e := hsetup.err setupInv_init hr
    simp only
    intro hc; cases hc; exact this rfl
  | ok r =>
    obtain ⟨seen, s1⟩ := r
    obtain ⟨⟨hfin, hsorted⟩, -⟩ := hsetup.ok setupInv_init hr
    simp only
    have := loop_no_oof hfin (s1.verts.size + 1) s1 rfl hsorted (need_le_size hsorted)
    cases hl : (loop (s1.verts.size + 1)).run s1 with
    | error e =>
      simp only
      intro hc; cases hc; exact this hl
    | ok r' => simp

end Cav.SweepEvents
