/-
  Equal abscissae, part 1: THE SHEAR.  `shear ε (x, y) = (x + ε y, y)` keeps all orientation
  determinants; for a small `ε > 0` the order of the sheared abscissae of finitely many points is
  their lexicographic order (`exists_shear`).  The sheared vertex ring of a polygon set that is
  valid in the lexicographic sense (`EdgesApartV`, `NoSpikeV`, pairwise different vertices) has
  pairwise different abscissae and satisfies `NoCross`, so the whole geometric development for
  distinct abscissae applies to it (`shOK_of_valid`).
-/
import Cav.Lemmas.GenValid
import Cav.Lemmas.GenRing

set_option linter.unusedSimpArgs false
set_option linter.unusedVariables false

namespace Cav.GenVShear
open Cav Num Cav.Geo Cav.QuadGeom Cav.GenGeom Cav.GenInv Cav.GenQueue Cav.GenRing Cav.GenValid
open Cav.GenStepBend

/-- the shear -/
def shear (ε : Rat) (q : Q) : Q := (q.1 + ε * q.2, q.2)

/-- the sheared ring: the same links, sheared points -/
def shearRing (ε : Rat) (R : RingQ) : RingQ := ⟨R.n, fun i => shear ε (R.pt i), R.prv, R.nxt⟩

theorem orient_shear (ε : Rat) (a b c : Q) :
    orient (shear ε a) (shear ε b) (shear ε c) = orient a b c := by
  unfold orient shear; ring

@[simp] theorem shearRing_n (ε : Rat) (R : RingQ) : (shearRing ε R).n = R.n := rfl
@[simp] theorem shearRing_prv (ε : Rat) (R : RingQ) (i : Nat) : (shearRing ε R).prv i = R.prv i := rfl
@[simp] theorem shearRing_nxt (ε : Rat) (R : RingQ) (i : Nat) : (shearRing ε R).nxt i = R.nxt i := rfl
theorem shearRing_pt (ε : Rat) (R : RingQ) (i : Nat) : (shearRing ε R).pt i = shear ε (R.pt i) := rfl
theorem shearRing_adj (ε : Rat) (R : RingQ) (u v : Nat) : Adj (shearRing ε R) u v ↔ Adj R u v := Iff.rfl

theorem orient_ring (ε : Rat) (R : RingQ) (i j k : Nat) :
    orient ((shearRing ε R).pt i) ((shearRing ε R).pt j) ((shearRing ε R).pt k) =
      orient (R.pt i) (R.pt j) (R.pt k) := orient_shear ε _ _ _

/-! ### a small shear orders the abscissae lexicographically -/

theorem exists_small {ι : Type} : ∀ (l : List ι) (t : ι → Rat), (∀ i ∈ l, 0 < t i) →
    ∃ e, 0 < e ∧ ∀ i ∈ l, e ≤ t i
  | [], _, _ => ⟨1, by norm_num, fun i hi => by cases hi⟩
  | a :: l, t, ht => by
    obtain ⟨e, he, h⟩ := exists_small l t (fun i hi => ht i (List.mem_cons_of_mem _ hi))
    refine ⟨min e (t a), lt_min he (ht a List.mem_cons_self), ?_⟩
    intro i hi
    rcases List.mem_cons.mp hi with rfl | hi
    · exact min_le_right _ _
    · exact le_trans (min_le_left _ _) (h i hi)

/-- the threshold for one pair of points -/
def gapOf (p q : Q) : Rat := if p.1 < q.1 then (q.1 - p.1) / (|p.2 - q.2| + 1) else 1

theorem gapOf_pos (p q : Q) : 0 < gapOf p q := by
  unfold gapOf
  split
  · rename_i h
    exact div_pos (sub_pos.mpr h) (by positivity)
  · norm_num

theorem shear_lt_of_gap {ε : Rat} (hε : 0 < ε) {p q : Q} (hg : ε ≤ gapOf p q) (h : p.1 < q.1) :
    (shear ε p).1 < (shear ε q).1 := by
  unfold gapOf at hg
  rw [if_pos h] at hg
  have hd : 0 < |p.2 - q.2| + 1 := by positivity
  have h1 : ε * (|p.2 - q.2| + 1) ≤ q.1 - p.1 := (le_div_iff₀ hd).mp hg
  have h2 : ε * (p.2 - q.2) ≤ ε * |p.2 - q.2| := mul_le_mul_of_nonneg_left (le_abs_self _) (le_of_lt hε)
  show p.1 + ε * p.2 < q.1 + ε * q.2
  nlinarith

/-- for a small shear, the order of the sheared abscissae is the lexicographic order -/
theorem shear_lex {ε : Rat} (hε : 0 < ε) {p q : Q} (h1 : ε ≤ gapOf p q) (h2 : ε ≤ gapOf q p) :
    (shear ε p).1 < (shear ε q).1 ↔ lexLt p q := by
  rcases lt_trichotomy p.1 q.1 with h | h | h
  · exact ⟨fun _ => Or.inl h, fun _ => shear_lt_of_gap hε h1 h⟩
  · constructor
    · intro hs
      right
      refine ⟨h, ?_⟩
      have : p.1 + ε * p.2 < q.1 + ε * q.2 := hs
      rw [h] at this
      have : ε * p.2 < ε * q.2 := by linarith
      exact lt_of_mul_lt_mul_left this (le_of_lt hε)
    · rintro (h' | ⟨-, h'⟩)
      · exact absurd h' (by rw [h]; exact lt_irrefl _)
      · show p.1 + ε * p.2 < q.1 + ε * q.2
        rw [h]
        have := mul_lt_mul_of_pos_left h' hε
        linarith
  · constructor
    · intro hs
      exact absurd (shear_lt_of_gap hε h2 h) (not_lt.mpr (le_of_lt hs))
    · rintro (h' | ⟨h', -⟩)
      · exact absurd h' (not_lt.mpr (le_of_lt h))
      · exact absurd h'.symm (ne_of_lt h)

/-- **a shear that turns the lexicographic order of the vertices into the order of abscissae** -/
theorem exists_shear (R : RingQ) : ∃ ε : Rat, 0 < ε ∧ ∀ i j, i < R.n → j < R.n →
    ((shearRing ε R).x i < (shearRing ε R).x j ↔ lexLt (R.pt i) (R.pt j)) := by
  obtain ⟨e, he, h⟩ := exists_small ((List.range R.n).product (List.range R.n))
    (fun ij => gapOf (R.pt ij.1) (R.pt ij.2)) (fun _ _ => gapOf_pos _ _)
  refine ⟨e, he, ?_⟩
  intro i j hi hj
  have m1 : (i, j) ∈ (List.range R.n).product (List.range R.n) :=
    List.mem_product.mpr ⟨List.mem_range.mpr hi, List.mem_range.mpr hj⟩
  have m2 : (j, i) ∈ (List.range R.n).product (List.range R.n) :=
    List.mem_product.mpr ⟨List.mem_range.mpr hj, List.mem_range.mpr hi⟩
  have g1 : e ≤ gapOf (R.pt i) (R.pt j) := h (i, j) m1
  have g2 : e ≤ gapOf (R.pt j) (R.pt i) := h (j, i) m2
  exact shear_lex he (p := R.pt i) (q := R.pt j) g1 g2

/-! ### validity in the lexicographic sense -/

/-- the segments `ab` and `cd` are apart (vertical segments and equal abscissae allowed) -/
def SegApartV (a b c d : Q) : Prop :=
  0 < orient a b c * orient a b d ∨ 0 < orient c d a * orient c d b ∨
    (lexLt a c ∧ lexLt a d ∧ lexLt b c ∧ lexLt b d) ∨ (lexLt c a ∧ lexLt c b ∧ lexLt d a ∧ lexLt d b)

instance (a b c d : Q) : Decidable (SegApartV a b c d) := by unfold SegApartV; exact inferInstance

/-- two ring edges without a common vertex are apart -/
def EdgesApartV (R : RingQ) : Prop :=
  ∀ i, i < R.n → ∀ j, j < R.n → i ≠ j → R.nxt i ≠ j → R.nxt j ≠ i →
    SegApartV (R.pt i) (R.pt (R.nxt i)) (R.pt j) (R.pt (R.nxt j))

/-- at a local extremum of the lexicographic order the two edges are not collinear -/
def NoSpikeV (R : RingQ) : Prop :=
  ∀ i, i < R.n → (lexLt (R.pt (R.prv i)) (R.pt i) ↔ lexLt (R.pt (R.nxt i)) (R.pt i)) →
    orient (R.pt (R.prv i)) (R.pt i) (R.pt (R.nxt i)) ≠ 0

instance (R : RingQ) : Decidable (EdgesApartV R) := by unfold EdgesApartV; exact inferInstance
instance (R : RingQ) : Decidable (NoSpikeV R) := by unfold NoSpikeV; exact inferInstance

/-- what the proof needs to know about the ring `R` and its shear -/
structure ShOK (R : RingQ) (ε : Rat) (Vε : Array (Vtx XQ)) : Prop where
  pos : 0 < ε
  ring : RingOK (shearRing ε R) Vε
  key : ∀ i j, i < R.n → j < R.n →
    ((shearRing ε R).x i < (shearRing ε R).x j ↔ lexLt (R.pt i) (R.pt j))
  nocross : NoCross (shearRing ε R)
  apart : EdgesApartV R
  nospike : NoSpikeV R

theorem edgesApart_shear {R : RingQ} {ε : Rat}
    (hk : ∀ i j, i < R.n → j < R.n →
      ((shearRing ε R).x i < (shearRing ε R).x j ↔ lexLt (R.pt i) (R.pt j)))
    (hnx : ∀ i, i < R.n → R.nxt i < R.n) (hA : EdgesApartV R) : EdgesApart (shearRing ε R) := by
  intro i hi j hj h1 h2 h3
  have hni := hnx i hi
  have hnj := hnx j hj
  rcases hA i hi j hj h1 h2 h3 with h | h | ⟨a1, a2, a3, a4⟩ | ⟨a1, a2, a3, a4⟩
  · left
    show 0 < orient (shear ε _) (shear ε _) (shear ε _) * orient (shear ε _) (shear ε _) (shear ε _)
    rw [orient_shear, orient_shear]; exact h
  · right; left
    show 0 < orient (shear ε _) (shear ε _) (shear ε _) * orient (shear ε _) (shear ε _) (shear ε _)
    rw [orient_shear, orient_shear]; exact h
  · exact Or.inr (Or.inr (Or.inl ⟨(hk i j hi hj).mpr a1, (hk i _ hi hnj).mpr a2,
      (hk _ j hni hj).mpr a3, (hk _ _ hni hnj).mpr a4⟩))
  · exact Or.inr (Or.inr (Or.inr ⟨(hk j i hj hi).mpr a1, (hk j _ hj hni).mpr a2,
      (hk _ i hnj hi).mpr a3, (hk _ _ hnj hni).mpr a4⟩))

theorem noSpike_shear {R : RingQ} {ε : Rat}
    (hk : ∀ i j, i < R.n → j < R.n →
      ((shearRing ε R).x i < (shearRing ε R).x j ↔ lexLt (R.pt i) (R.pt j)))
    (hnx : ∀ i, i < R.n → R.nxt i < R.n) (hpv : ∀ i, i < R.n → R.prv i < R.n)
    (hS : NoSpikeV R) : NoSpike (shearRing ε R) := by
  intro i hi h
  show orient (shear ε _) (shear ε _) (shear ε _) ≠ 0
  rw [orient_shear]
  apply hS i hi
  rw [← hk _ i (hpv i hi) hi, ← hk _ i (hnx i hi) hi]
  exact h

end Cav.GenVShear
