/-
  C03, corners are input vertices: every point stored in the node heap, every right end point of
  an edge and every corner of an emitted triangle is the point of some vertex of the (fixed)
  vertex ring.  Invariant `PVInv` of all programs of the sweep proper; any `Num` instance.
-/
import Cav.Lemmas.SweepNSE
import Cav.Lemmas.SweepSetup
import Cav.Lemmas.GeomXQ

set_option linter.unusedSectionVars false
set_option linter.unusedVariables false

namespace Cav.SweepCorners
open Cav Num Cav.Sweep Cav.SweepRun Cav.SweepHoare Cav.SweepFrame Cav.SweepNSE Cav.SweepSetup

variable {α : Type} [Num α]

/-- `p` is the point of some vertex of `V` -/
def IsV (V : Array (Vtx α)) (p : Pt α) : Prop := ∃ v ∈ V.toList, v.p = p

/-- all stored points are vertex points -/
structure PVInv (V : Array (Vtx α)) (s : St α) : Prop where
  verts : s.verts = V
  nodes : ∀ n ∈ s.nodes.toList, IsV V n.p
  edges : ∀ e ∈ s.edges.toList, IsV V e.rpt
  out : ∀ t ∈ s.out, ∃ p1 p2 p3, IsV V p1 ∧ IsV V p2 ∧ IsV V p3 ∧
    clockwiseSign p1 p2 p3 = .c ∧ t = sort3 p1 p2 p3

variable {V : Array (Vtx α)}

/-- the invariant only looks at `verts`, `nodes`, `edges`, `out` -/
theorem pv_congr (s s' : St α) (h1 : s'.verts = s.verts) (h2 : s'.nodes = s.nodes)
    (h3 : s'.edges = s.edges) (h4 : s'.out = s.out) (h : PVInv V s) : PVInv V s' :=
  ⟨h1 ▸ h.verts, h2 ▸ h.nodes, h3 ▸ h.edges, h4 ▸ h.out⟩

theorem mem_setIfInBounds {β : Type} {a : Array β} {i : Nat} {x y : β}
    (h : y ∈ (a.setIfInBounds i x).toList) : y = x ∨ y ∈ a.toList := by
  rw [Array.mem_toList_iff] at h ⊢
  rcases Array.mem_iff_getElem.mp h with ⟨j, hj, rfl⟩
  have hj' : j < a.size := by simpa using hj
  rw [Array.getElem_setIfInBounds hj']
  split
  · exact Or.inl rfl
  · exact Or.inr (Array.getElem_mem hj')

/-- the error predicate used here: anything -/
abbrev AnyErr : SErr α → Prop := fun _ => True

theorem getNode_pv (i : Nat) :
    Pres (PVInv V) AnyErr (fun n => IsV V n.p) (getNode i : SM α _) := by
  apply Pres.intro; intro s hs
  rw [run_getNode]
  cases h : s.nodes[i]? with
  | none => trivial
  | some n => exact ⟨hs, hs.nodes n (Array.mem_toList_iff.mpr (Array.mem_of_getElem? h))⟩

theorem getEdge_pv (i : Nat) :
    Pres (PVInv V) AnyErr (fun e => IsV V e.rpt) (getEdge i : SM α _) := by
  apply Pres.intro; intro s hs
  unfold getEdge
  simp only [run_bind, run_get]
  cases h : s.edges[i]? with
  | none => trivial
  | some e => exact ⟨hs, hs.edges e (Array.mem_toList_iff.mpr (Array.mem_of_getElem? h))⟩

theorem getVtx_pv (i : Nat) :
    Pres (PVInv V) AnyErr (fun v => IsV V v.p) (getVtx i : SM α _) := by
  apply Pres.intro; intro s hs
  rw [run_getVtx]
  cases h : s.verts[i]? with
  | none => trivial
  | some v =>
    refine ⟨hs, v, ?_, rfl⟩
    rw [← hs.verts]
    exact Array.mem_toList_iff.mpr (Array.mem_of_getElem? h)

theorem getChain_pv (i : Nat) :
    Pres (PVInv V) AnyErr (fun _ => True) (getChain i : SM α _) := by
  apply Pres.intro; intro s hs
  unfold getChain
  simp only [run_bind, run_get]
  cases h : s.chains[i]? with
  | none => trivial
  | some e => exact ⟨hs, trivial⟩

theorem setNode_pv (i : Nat) (n : Node α) (hn : IsV V n.p) :
    Pres (PVInv V) AnyErr (fun _ => True) (setNode i n : SM α _) := by
  apply Pres.intro; intro s hs
  refine ⟨⟨hs.verts, ?_, hs.edges, hs.out⟩, trivial⟩
  intro m hm
  rcases mem_setIfInBounds hm with rfl | hm
  · exact hn
  · exact hs.nodes m hm

theorem setEdge_pv (i : Nat) (e : Edge α) (he : IsV V e.rpt) :
    Pres (PVInv V) AnyErr (fun _ => True) (setEdge i e : SM α _) := by
  apply Pres.intro; intro s hs
  refine ⟨⟨hs.verts, hs.nodes, ?_, hs.out⟩, trivial⟩
  intro m hm
  rcases mem_setIfInBounds hm with rfl | hm
  · exact he
  · exact hs.edges m hm

theorem setChain_pv (i : Nat) (c : Chain) :
    Pres (PVInv V) AnyErr (fun _ => True) (setChain i c : SM α _) := by
  apply Pres.intro; intro s hs
  exact ⟨⟨hs.verts, hs.nodes, hs.edges, hs.out⟩, trivial⟩

theorem newNode_pv (p : Pt α) (hp : IsV V p) :
    Pres (PVInv V) AnyErr (fun _ => True) (newNode p : SM α _) := by
  apply Pres.intro; intro s hs
  refine ⟨⟨hs.verts, ?_, hs.edges, hs.out⟩, trivial⟩
  intro m hm
  simp only [Array.toList_push, List.mem_append, List.mem_singleton] at hm
  rcases hm with hm | rfl
  · exact hs.nodes m hm
  · exact hp

theorem newEdge_pv (e : Edge α) (he : IsV V e.rpt) :
    Pres (PVInv V) AnyErr (fun _ => True) (newEdge e : SM α _) := by
  apply Pres.intro; intro s hs
  refine ⟨⟨hs.verts, hs.nodes, ?_, hs.out⟩, trivial⟩
  intro m hm
  simp only [Array.toList_push, List.mem_append, List.mem_singleton] at hm
  rcases hm with hm | rfl
  · exact hs.edges m hm
  · exact he

theorem newChainVal_pv (c : Chain) :
    Pres (PVInv V) AnyErr (fun _ => True) (newChainVal c : SM α _) := by
  apply Pres.intro; intro s hs
  exact ⟨⟨hs.verts, hs.nodes, hs.edges, hs.out⟩, trivial⟩

/-- `sort3` of vertex points consists of vertex points -/
theorem isV_sort3 {p1 p2 p3 : Pt α} (h1 : IsV V p1) (h2 : IsV V p2) (h3 : IsV V p3) :
    IsV V (sort3 p1 p2 p3).1 ∧ IsV V (sort3 p1 p2 p3).2.1 ∧ IsV V (sort3 p1 p2 p3).2.2 := by
  rcases Geo.sort3_cases p1 p2 p3 with h | h | h | h | h | h <;> rw [h] <;> exact ⟨‹_›, ‹_›, ‹_›⟩

theorem pv_out (s : St α) (p1 p2 p3 : Pt α) (h1 : IsV V p1) (h2 : IsV V p2) (h3 : IsV V p3)
    (hc : (clockwiseSign p1 p2 p3 == PSign.c) = true)
    (h : PVInv V s) : PVInv V { s with out := sort3 p1 p2 p3 :: s.out } := by
  refine ⟨h.verts, h.nodes, h.edges, ?_⟩
  intro t ht
  rcases List.mem_cons.mp ht with rfl | ht
  · exact ⟨p1, p2, p3, h1, h2, h3, eq_of_beq hc, rfl⟩
  · exact h.out t ht

macro "pv_side" : tactic =>
  `(tactic| first
    | (refine pv_congr _ _ ?_ ?_ ?_ ?_ (by assumption) <;> rfl)
    | (refine pv_out _ _ _ _ ?_ ?_ ?_ ?_ (by assumption) <;> assumption))
macro_rules | `(tactic| pres_side) => `(tactic| pv_side)

macro "pv_pick" : tactic =>
  `(tactic| (have hh := ‹(if _ then _ else _) = (_, _, _, _)›
             split at hh <;> cases hh <;> assumption))
macro_rules | `(tactic| pres_side) => `(tactic| pv_pick)

theorem chainNew_pv (p : Pt α) (hp : IsV V p) :
    Pres (PVInv V) AnyErr (fun _ => True) (chainNew p : SM α _) := by
  unfold chainNew; pres_auto

theorem edgeLpt_pv (e : Edge α) :
    Pres (PVInv V) AnyErr (fun p => IsV V p) (edgeLpt e : SM α _) := by
  unfold edgeLpt; pres_auto

theorem yAt_pv (e : Edge α) (x : α) (r : Bool) :
    Pres (PVInv V) AnyErr (fun _ => True) (yAt e x r : SM α _) := by
  unfold yAt; pres_auto

theorem edgeGrad_pv (e : Edge α) :
    Pres (PVInv V) AnyErr (fun _ => True) (edgeGrad e : SM α _) := by
  unfold edgeGrad; pres_auto

theorem tieGrad_pv (e : Edge α) :
    Pres (PVInv V) AnyErr (fun _ => True) (tieGrad e : SM α _) := by
  unfold tieGrad; pres_auto

theorem cmpEdge_pv (a b : Edge α) :
    Pres (PVInv V) AnyErr (fun _ => True) (cmpEdge a b : SM α _) := by
  unfold cmpEdge; pres_auto

theorem partialCmpEdge_pv (a b : Edge α) :
    Pres (PVInv V) AnyErr (fun _ => True) (partialCmpEdge a b : SM α _) := by
  unfold partialCmpEdge; pres_auto

theorem cmpAt_pv (a b : Edge α) (x : α) (r : Bool) :
    Pres (PVInv V) AnyErr (fun _ => True) (cmpAt a b x r : SM α _) := by
  unfold cmpAt; pres_auto

theorem willOverlapBot_pv (ei : Nat) (b : Bool) :
    Pres (PVInv V) AnyErr (fun _ => True) (willOverlapBot ei b : SM α _) := by
  unfold willOverlapBot; pres_auto

theorem willOverlapTop_pv (ei : Nat) (b : Bool) :
    Pres (PVInv V) AnyErr (fun _ => True) (willOverlapTop ei b : SM α _) := by
  unfold willOverlapTop; pres_auto

theorem searchPos_pv (key : Edge α) (l : List Nat) (i : Nat) :
    Pres (PVInv V) AnyErr (fun _ => True) (searchPos key l i : SM α _) := by
  induction l generalizing i with
  | nil => unfold searchPos; pres_auto
  | cons k ks ih => unfold searchPos; pres_auto

theorem noteMono_pv (key : Edge α) (l : List Nat) :
    Pres (PVInv V) AnyErr (fun _ => True) (noteMono key l : SM α _) := by
  apply Pres.intro; intro s hs
  exact ⟨⟨hs.verts, hs.nodes, hs.edges, hs.out⟩, trivial⟩

theorem search_pv (key : Edge α) (l : List Nat) :
    Pres (PVInv V) AnyErr (fun _ => True) (search key l : SM α _) := by
  unfold search; pres_auto

theorem activeInsert_pv (ei : Nat) :
    Pres (PVInv V) AnyErr (fun _ => True) (activeInsert ei : SM α _) := by
  unfold activeInsert; pres_auto

theorem activeRemove_pv (ei : Nat) :
    Pres (PVInv V) AnyErr (fun _ => True) (activeRemove ei : SM α _) := by
  unfold activeRemove; pres_auto

theorem nodeTriangulate_pv (from_ : Nat) (bw : Bool) (fuel : Nat) :
    Pres (PVInv V) AnyErr (fun _ => True) (nodeTriangulate from_ bw fuel : SM α _) := by
  induction fuel with
  | zero => unfold nodeTriangulate; pres_auto
  | succ fuel ih => unfold nodeTriangulate; pres_auto

theorem nodeFuel_pv :
    Pres (PVInv V) AnyErr (fun _ => True) (nodeFuel : SM α _) := by
  unfold nodeFuel; pres_auto

theorem backTriangulate_pv (c : Chain) (b : Bool) :
    Pres (PVInv V) AnyErr (fun _ => True) (backTriangulate c b : SM α _) := by
  unfold backTriangulate; pres_auto

theorem chainAppend_pv (c : Chain) (p : Pt α) (b : Bool) (hp : IsV V p) :
    Pres (PVInv V) AnyErr (fun _ => True) (chainAppend c p b : SM α _) := by
  unfold chainAppend; pres_auto

theorem chainSplit_pv (c : Chain) (p : Pt α) (hp : IsV V p) :
    Pres (PVInv V) AnyErr (fun _ => True) (chainSplit c p : SM α _) := by
  unfold chainSplit; pres_auto

theorem chainMerge_pv (b t : Chain) (p : Pt α) (hp : IsV V p) :
    Pres (PVInv V) AnyErr (fun _ => True) (chainMerge b t p : SM α _) := by
  unfold chainMerge; pres_auto

theorem eventsAdd_go_pv (vi ei : Nat) (p : Pt α) (l : List (Nat × List Nat)) :
    Pres (PVInv V) AnyErr (fun _ => True) (eventsAdd.go vi ei p l : SM α _) := by
  induction l with
  | nil => unfold eventsAdd.go; pres_auto
  | cons k ks ih => unfold eventsAdd.go; pres_auto

theorem eventsAdd_pv (vi ei : Nat) :
    Pres (PVInv V) AnyErr (fun _ => True) (eventsAdd vi ei : SM α _) := by
  unfold eventsAdd; pres_auto

theorem verticalIsCrossed_go_pv (skip : Option Nat) (p rp : Pt α) (l : List Nat) :
    Pres (PVInv V) AnyErr (fun _ => True) (verticalIsCrossed.go skip p rp l : SM α _) := by
  induction l with
  | nil => unfold verticalIsCrossed.go; pres_auto
  | cons k ks ih => unfold verticalIsCrossed.go; pres_auto

theorem verticalIsCrossed_pv (skip : Option Nat) (p rp : Pt α) :
    Pres (PVInv V) AnyErr (fun _ => True) (verticalIsCrossed skip p rp : SM α _) := by
  unfold verticalIsCrossed; pres_auto

theorem handleStart_pv (p : Pt α) (lp1 lp2 : Nat) (hp : IsV V p) :
    Pres (PVInv V) AnyErr (fun _ => True) (handleStart p lp1 lp2 : SM α _) := by
  unfold handleStart; pres_auto

theorem handleBend_pv (p : Pt α) (lp1 lp2 : Nat) (r : List Nat) (hp : IsV V p) :
    Pres (PVInv V) AnyErr (fun _ => True) (handleBend p lp1 lp2 r : SM α _) := by
  unfold handleBend; pres_auto

theorem handleEnd_pv (p : Pt α) (r : List Nat) (hp : IsV V p) :
    Pres (PVInv V) AnyErr (fun _ => True) (handleEnd p r : SM α _) := by
  unfold handleEnd; pres_auto

theorem handleNext_pv :
    Pres (PVInv V) AnyErr (fun _ => True) (handleNext : SM α _) := by
  unfold handleNext; pres_auto

theorem loop_pv (fuel : Nat) :
    Pres (PVInv V) AnyErr (fun _ => True) (loop fuel : SM α _) := by
  induction fuel with
  | zero => unfold loop; pres_auto
  | succ fuel ih => unfold loop; pres_auto


/-! ### the set-up phase: nothing but vertices, and every vertex point is an input point -/

/-- invariant of the set-up phase -/
structure SetupInvC (P : Pt α → Prop) (s : St α) : Prop where
  nodes : s.nodes = #[]
  edges : s.edges = #[]
  out : s.out = []
  verts : ∀ v ∈ s.verts.toList, P v.p

variable {P : Pt α → Prop}

theorem sc_congr (s s' : St α) (h1 : s'.verts = s.verts) (h2 : s'.nodes = s.nodes)
    (h3 : s'.edges = s.edges) (h4 : s'.out = s.out) (h : SetupInvC P s) : SetupInvC P s' :=
  ⟨h2 ▸ h.nodes, h3 ▸ h.edges, h4 ▸ h.out, h1 ▸ h.verts⟩

theorem sc_push (s : St α) (w : Vtx α) (hw : P w.p) (h : SetupInvC P s) :
    SetupInvC P { s with verts := s.verts.push w } := by
  refine ⟨h.nodes, h.edges, h.out, ?_⟩
  intro v hv
  simp only [Array.toList_push, List.mem_append, List.mem_singleton] at hv
  rcases hv with hv | rfl
  · exact h.verts v hv
  · exact hw

theorem getVtx_sc (i : Nat) :
    Pres (SetupInvC P) AnyErr (fun _ => True) (getVtx i : SM α _) := by
  apply Pres.intro; intro s hs
  rw [run_getVtx]
  cases h : s.verts[i]? with
  | none => trivial
  | some v => exact ⟨hs, trivial⟩

macro "sc_side" : tactic =>
  `(tactic| first
    | (refine sc_congr _ _ ?_ ?_ ?_ ?_ (by assumption) <;> rfl)
    | (refine sc_push _ _ ?_ (by assumption); assumption))
macro_rules | `(tactic| pres_side) => `(tactic| sc_side)

theorem eventsInsertStart_go_sc (vi : Nat) (p : Pt α) (l : List (Nat × List Nat)) :
    Pres (SetupInvC P) AnyErr (fun _ => True) (eventsInsertStart.go vi p l) := by
  induction l with
  | nil => unfold eventsInsertStart.go; pres_auto
  | cons k ks ih => unfold eventsInsertStart.go; pres_auto

theorem eventsInsertStart_sc (vi : Nat) :
    Pres (SetupInvC P) AnyErr (fun _ => True) (eventsInsertStart vi : SM α _) := by
  unfold eventsInsertStart; pres_auto

theorem setupBody_sc (poly : Array (Pt α)) (n base i : Nat) (seen : List (Pt α))
    (hP : P (poly.getD i dummyPt)) :
    Pres (SetupInvC P) AnyErr (fun _ => True) (setupBody poly n base i seen) := by
  unfold setupBody; pres_auto_inline


/-- invariant rule for `forIn` over a list, with membership -/
theorem Pres.forIn_list_mem {ι σ : Type} {I : St α → Prop} {E : SErr α → Prop}
    (f : ι → σ → SM α (ForInStep σ)) :
    ∀ (l : List ι), (∀ i ∈ l, ∀ b, Pres I E (fun _ => True) (f i b)) →
      ∀ b : σ, Pres I E (fun _ => True) (forIn l b f) := by
  intro l
  induction l with
  | nil => intro _ b; exact Pres.pure True.intro
  | cons i t ih =>
    intro hf b
    rw [List.forIn_cons]
    refine Pres.bind (hf i List.mem_cons_self b) ?_
    intro r _
    cases r with
    | done b' => exact Pres.pure True.intro
    | yield b' => exact ih (fun j hj => hf j (List.mem_cons_of_mem _ hj)) b'

theorem setupPolygon_sc (poly : Array (Pt α)) (seen : List (Pt α))
    (hP : ∀ p ∈ poly.toList, P p) :
    Pres (SetupInvC P) AnyErr (fun _ => True) (setupPolygon poly seen) := by
  apply Pres.intro
  intro s hs
  rw [setupPolygon_eq]
  by_cases hsz : poly.size < 3
  · simp only [hsz, if_true]
    trivial
  · simp only [hsz, if_false]
    have := Pres.forIn_list_mem (I := SetupInvC P) (E := AnyErr)
      (setupBody poly poly.size s.verts.size) (List.range' 0 poly.size 1)
      (by
        intro i hi b
        apply setupBody_sc
        have hi' : i < poly.size := by
          have := List.mem_range'_1.mp hi; omega
        apply hP
        simp [Array.getD, hi'])
      seen
    cases hr : (forIn (List.range' 0 poly.size 1) seen
        (setupBody poly poly.size s.verts.size)).run s with
    | error e => trivial
    | ok r => exact this.ok hs hr

theorem polyBody_sc (poly : Array (Pt α)) (seen : List (Pt α)) (hP : ∀ p ∈ poly.toList, P p) :
    Pres (SetupInvC P) AnyErr (fun _ => True) (polyBody poly seen) := by
  unfold polyBody
  exact Pres.bind (setupPolygon_sc poly seen hP) (fun _ _ => Pres.pure True.intro)

theorem setupInvC_init : SetupInvC P (initSt : St α) :=
  ⟨rfl, rfl, rfl, by intro v hv; simp [initSt] at hv⟩

/-- after the set-up phase the corner invariant holds for the vertex ring it built -/
theorem pvInv_of_setup {s : St α} (h : SetupInvC P s) : PVInv s.verts s :=
  ⟨rfl, by rw [h.nodes]; intro n hn; simp at hn, by rw [h.edges]; intro n hn; simp at hn,
    by rw [h.out]; intro n hn; simp at hn⟩

/-- **C03**: every triangle in the result of `sweep` is `sort3` of three input points on which
    `clockwiseSign` answered `C` (any `Num` instance) -/
theorem sweep_triangles {polys : List (Array (Pt α))} {tris : List (Pt α × Pt α × Pt α)}
    (h : sweep polys = .ok tris) :
    ∀ t ∈ tris, ∃ p1 p2 p3, p1 ∈ allPts polys ∧ p2 ∈ allPts polys ∧ p3 ∈ allPts polys ∧
      clockwiseSign p1 p2 p3 = .c ∧ t = sort3 p1 p2 p3 := by
  unfold sweep at h
  rw [run_eq] at h
  have hsetup := Pres.forIn_list_mem (I := SetupInvC (fun p => p ∈ allPts polys)) (E := AnyErr)
    polyBody polys
    (by
      intro poly hpoly b
      apply polyBody_sc
      intro p hp
      exact List.mem_flatMap.mpr ⟨poly, hpoly, hp⟩)
    ([] : List (Pt α))
  cases hr : (forIn polys ([] : List (Pt α)) polyBody).run (initSt : St α) with
  | error e => rw [hr] at h; cases h
  | ok r =>
    obtain ⟨seen, s1⟩ := r
    rw [hr] at h
    simp only at h
    have hsc := (hsetup.ok setupInvC_init hr).1
    have hpv := pvInv_of_setup hsc
    cases hl : (loop (s1.verts.size + 1)).run s1 with
    | error e => rw [hl] at h; cases h
    | ok r' =>
      obtain ⟨u, s2⟩ := r'
      rw [hl] at h
      simp only [Except.ok.injEq] at h
      subst h
      have hpv2 := ((loop_pv (V := s1.verts) (s1.verts.size + 1)).ok hpv hl).1
      intro t ht
      obtain ⟨p1, p2, p3, h1, h2, h3, hc, ht'⟩ := hpv2.out t (List.mem_reverse.mp ht)
      have conv : ∀ p, IsV s1.verts p → p ∈ allPts polys := by
        rintro p ⟨v, hv, rfl⟩
        exact hsc.verts v hv
      exact ⟨p1, p2, p3, conv _ h1, conv _ h2, conv _ h3, hc, ht'⟩

/-- every corner of every triangle in the result of `sweep` is one of the input points -/
theorem sweep_corners {polys : List (Array (Pt α))} {tris : List (Pt α × Pt α × Pt α)}
    (h : sweep polys = .ok tris) :
    ∀ t ∈ tris, t.1 ∈ allPts polys ∧ t.2.1 ∈ allPts polys ∧ t.2.2 ∈ allPts polys := by
  intro t ht
  obtain ⟨p1, p2, p3, h1, h2, h3, -, rfl⟩ := sweep_triangles h t ht
  rcases Geo.sort3_cases p1 p2 p3 with h | h | h | h | h | h <;> rw [h] <;> exact ⟨‹_›, ‹_›, ‹_›⟩

end Cav.SweepCorners
