/-
  The event chains of `QuadEvents*.lean` instantiated at finite points `q1 … q4` with increasing
  abscissae: every geometric hypothesis is discharged from the signs of the orientation
  determinants `orient qi qj qk` (lemmas of `QuadGeom.lean`).
-/
import Cav.Lemmas.QuadGeom
import Cav.Lemmas.QuadEventsO
import Cav.Lemmas.QuadEventsA
import Cav.Lemmas.QuadEventsZ

set_option linter.unusedSimpArgs false
set_option linter.unusedVariables false

namespace Cav.QuadFlows
open Cav Num Cav.Geo Cav.Sweep Cav.TriRun Cav.QuadRun Cav.QuadGeom Cav.QuadEvents

/-- order facts between the abscissae -/
macro "xord" : tactic =>
  `(tactic| first | assumption | exact le_of_lt (by assumption) | exact le_rfl)

/-- sign of an orientation determinant from the sign of a permuted one -/
macro "osgn" : tactic => `(tactic| (simp only [orient] at *; linarith))

theorem run_Oa (ori : Bool) (V : Array (Vtx XQ)) (i1 i2 i3 i4 : Nat) (q1 q2 q3 q4 : Rat × Rat)
    (h1 : V[i1]? = some ⟨Fq q1, (nb ori i2 i3).1, (nb ori i2 i3).2⟩)
    (h2 : V[i2]? = some ⟨Fq q2, (nb ori i4 i1).1, (nb ori i4 i1).2⟩)
    (h3 : V[i3]? = some ⟨Fq q3, (nb ori i1 i4).1, (nb ori i1 i4).2⟩)
    (h4 : V[i4]? = some ⟨Fq q4, (nb ori i3 i2).1, (nb ori i3 i2).2⟩)
    (h12 : q1.1 < q2.1) (h23 : q2.1 < q3.1) (h34 : q3.1 < q4.1)
    (s123 : 0 < orient q1 q2 q3) (s234 : orient q2 q3 q4 < 0) :
    ∃ s', Runs (stQ V [(i1, [])]) (.ok ((), s')) (loop 5) ∧
      s'.out = [sort3 (Fq q2) (Fq q3) (Fq q4), sort3 (Fq q2) (Fq q1) (Fq q3)] ∧ s'.mono = true := by
  have h13 := lt_trans h12 h23
  have h24 := lt_trans h23 h34
  have h14 := lt_trans h13 h34
  exact flow_Oa ori V i1 i2 i3 i4 (Fq q1) (Fq q2) (Fq q3) (Fq q4) h1 h2 h3 h4
    (ord4_fin q1 q2 q3 q4 h12 h23 h34)
    (cmpE_fanL0_lt q1 q2 q3 (by xord) (by xord) (by osgn))
    (cmpE_fanL0_gt q1 q3 q2 (by xord) (by xord) (by osgn))
    (cmpAt_otherEnd_lt q2 q4 q1 q3 (by xord) (by xord) (by xord) (by xord) (by osgn))
    (cw_c q2 q1 q3 (by osgn))
    (ofLt_right_false q3 q2 q4 (by xord) (by xord))
    (ofGe_gradR_true q2 q3 q4 (by xord) (by xord) (by osgn))
    (cmpE_ptOther_lt q2 q4 q3 q4 (by xord) (by xord) (by xord) (by xord) (by osgn))
    (cw_c q2 q3 q4 (by osgn))

theorem run_Ob (ori : Bool) (V : Array (Vtx XQ)) (i1 i2 i3 i4 : Nat) (q1 q2 q3 q4 : Rat × Rat)
    (h1 : V[i1]? = some ⟨Fq q1, (nb ori i2 i3).1, (nb ori i2 i3).2⟩)
    (h2 : V[i2]? = some ⟨Fq q2, (nb ori i4 i1).1, (nb ori i4 i1).2⟩)
    (h3 : V[i3]? = some ⟨Fq q3, (nb ori i1 i4).1, (nb ori i1 i4).2⟩)
    (h4 : V[i4]? = some ⟨Fq q4, (nb ori i3 i2).1, (nb ori i3 i2).2⟩)
    (h12 : q1.1 < q2.1) (h23 : q2.1 < q3.1) (h34 : q3.1 < q4.1)
    (s123 : orient q1 q2 q3 < 0) (s234 : 0 < orient q2 q3 q4) :
    ∃ s', Runs (stQ V [(i1, [])]) (.ok ((), s')) (loop 5) ∧
      s'.out = [sort3 (Fq q3) (Fq q2) (Fq q4), sort3 (Fq q3) (Fq q1) (Fq q2)] ∧ s'.mono = true := by
  have h13 := lt_trans h12 h23
  have h24 := lt_trans h23 h34
  have h14 := lt_trans h13 h34
  exact flow_Ob ori V i1 i2 i3 i4 (Fq q1) (Fq q2) (Fq q3) (Fq q4) h1 h2 h3 h4
    (ord4_fin q1 q2 q3 q4 h12 h23 h34)
    (cmpE_fanL0_lt q1 q3 q2 (by xord) (by xord) (by osgn))
    (cmpE_fanL0_gt q1 q2 q3 (by xord) (by xord) (by osgn))
    (cmpAt_otherEnd_gt q2 q4 q1 q3 (by xord) (by xord) (by xord) (by xord) (by osgn))
    (cw_c q3 q1 q2 (by osgn))
    (ofGt_right_false q3 q2 q4 (by xord) (by xord))
    (ofGe_gradR_false q2 q3 q4 (by xord) (by xord) (by osgn))
    (cmpE_ptKey_lt q3 q4 q2 q4 (by xord) (by xord) (by xord) (by xord) (by osgn))
    (cw_c q3 q2 q4 (by osgn))

theorem run_At (ori : Bool) (V : Array (Vtx XQ)) (i1 i2 i3 i4 : Nat) (q1 q2 q3 q4 : Rat × Rat)
    (h1 : V[i1]? = some ⟨Fq q1, (nb ori i4 i2).1, (nb ori i4 i2).2⟩)
    (h2 : V[i2]? = some ⟨Fq q2, (nb ori i1 i3).1, (nb ori i1 i3).2⟩)
    (h3 : V[i3]? = some ⟨Fq q3, (nb ori i2 i4).1, (nb ori i2 i4).2⟩)
    (h4 : V[i4]? = some ⟨Fq q4, (nb ori i3 i1).1, (nb ori i3 i1).2⟩)
    (h12 : q1.1 < q2.1) (h23 : q2.1 < q3.1) (h34 : q3.1 < q4.1)
    (s124 : orient q1 q2 q4 < 0) (s134 : orient q1 q3 q4 < 0) (s123 : orient q1 q2 q3 < 0) :
    ∃ s', Runs (stQ V [(i1, [])]) (.ok ((), s')) (loop 5) ∧
      s'.out = [sort3 (Fq q1) (Fq q3) (Fq q4), sort3 (Fq q1) (Fq q2) (Fq q3)] ∧ s'.mono = true := by
  have h13 := lt_trans h12 h23
  have h24 := lt_trans h23 h34
  have h14 := lt_trans h13 h34
  exact flow_At ori V i1 i2 i3 i4 (Fq q1) (Fq q2) (Fq q3) (Fq q4) h1 h2 h3 h4
    (ord4_fin q1 q2 q3 q4 h12 h23 h34)
    (cmpE_fanL0_lt q1 q4 q2 (by xord) (by xord) (by osgn))
    (cmpE_fanL0_gt q1 q2 q4 (by xord) (by xord) (by osgn))
    (cmpAt_keyEnd_gt q2 q3 q1 q4 (by xord) (by xord) (by xord) (by xord) (by osgn))
    (cw_c q1 q2 q3 (by osgn))
    (ofLt_right_false q3 q1 q4 (by xord) (by xord))
    (ofGe_gradR_true q1 q3 q4 (by xord) (by xord) (by osgn))
    (cmpE_ptOther_lt q1 q4 q3 q4 (by xord) (by xord) (by xord) (by xord) (by osgn))
    (cw_c q1 q3 q4 (by osgn))

theorem run_Atr (ori : Bool) (V : Array (Vtx XQ)) (i1 i2 i3 i4 : Nat) (q1 q2 q3 q4 : Rat × Rat)
    (h1 : V[i1]? = some ⟨Fq q1, (nb ori i4 i2).1, (nb ori i4 i2).2⟩)
    (h2 : V[i2]? = some ⟨Fq q2, (nb ori i1 i3).1, (nb ori i1 i3).2⟩)
    (h3 : V[i3]? = some ⟨Fq q3, (nb ori i2 i4).1, (nb ori i2 i4).2⟩)
    (h4 : V[i4]? = some ⟨Fq q4, (nb ori i3 i1).1, (nb ori i3 i1).2⟩)
    (h12 : q1.1 < q2.1) (h23 : q2.1 < q3.1) (h34 : q3.1 < q4.1)
    (s124 : orient q1 q2 q4 < 0) (s134 : orient q1 q3 q4 < 0) (s123 : 0 < orient q1 q2 q3) (s234 : orient q2 q3 q4 < 0) :
    ∃ s', Runs (stQ V [(i1, [])]) (.ok ((), s')) (loop 5) ∧
      s'.out = [sort3 (Fq q1) (Fq q2) (Fq q4), sort3 (Fq q2) (Fq q3) (Fq q4)] ∧ s'.mono = true := by
  have h13 := lt_trans h12 h23
  have h24 := lt_trans h23 h34
  have h14 := lt_trans h13 h34
  exact flow_Atr ori V i1 i2 i3 i4 (Fq q1) (Fq q2) (Fq q3) (Fq q4) h1 h2 h3 h4
    (ord4_fin q1 q2 q3 q4 h12 h23 h34)
    (cmpE_fanL0_lt q1 q4 q2 (by xord) (by xord) (by osgn))
    (cmpE_fanL0_gt q1 q2 q4 (by xord) (by xord) (by osgn))
    (cmpAt_keyEnd_gt q2 q3 q1 q4 (by xord) (by xord) (by xord) (by xord) (by osgn))
    (cw_cc q1 q2 q3 (by osgn))
    (ofLt_right_false q3 q1 q4 (by xord) (by xord))
    (ofGe_gradR_true q1 q3 q4 (by xord) (by xord) (by osgn))
    (cmpE_ptOther_lt q1 q4 q3 q4 (by xord) (by xord) (by xord) (by xord) (by osgn))
    (cw_c q2 q3 q4 (by osgn))
    (cw_c q1 q2 q4 (by osgn))

theorem run_Ab (ori : Bool) (V : Array (Vtx XQ)) (i1 i2 i3 i4 : Nat) (q1 q2 q3 q4 : Rat × Rat)
    (h1 : V[i1]? = some ⟨Fq q1, (nb ori i4 i2).1, (nb ori i4 i2).2⟩)
    (h2 : V[i2]? = some ⟨Fq q2, (nb ori i1 i3).1, (nb ori i1 i3).2⟩)
    (h3 : V[i3]? = some ⟨Fq q3, (nb ori i2 i4).1, (nb ori i2 i4).2⟩)
    (h4 : V[i4]? = some ⟨Fq q4, (nb ori i3 i1).1, (nb ori i3 i1).2⟩)
    (h12 : q1.1 < q2.1) (h23 : q2.1 < q3.1) (h34 : q3.1 < q4.1)
    (s124 : 0 < orient q1 q2 q4) (s134 : 0 < orient q1 q3 q4) (s123 : 0 < orient q1 q2 q3) :
    ∃ s', Runs (stQ V [(i1, [])]) (.ok ((), s')) (loop 5) ∧
      s'.out = [sort3 (Fq q3) (Fq q1) (Fq q4), sort3 (Fq q3) (Fq q2) (Fq q1)] ∧ s'.mono = true := by
  have h13 := lt_trans h12 h23
  have h24 := lt_trans h23 h34
  have h14 := lt_trans h13 h34
  exact flow_Ab ori V i1 i2 i3 i4 (Fq q1) (Fq q2) (Fq q3) (Fq q4) h1 h2 h3 h4
    (ord4_fin q1 q2 q3 q4 h12 h23 h34)
    (cmpE_fanL0_lt q1 q2 q4 (by xord) (by xord) (by osgn))
    (cmpE_fanL0_gt q1 q4 q2 (by xord) (by xord) (by osgn))
    (cmpAt_keyEnd_lt q2 q3 q1 q4 (by xord) (by xord) (by xord) (by xord) (by osgn))
    (cw_c q3 q2 q1 (by osgn))
    (ofGt_right_false q3 q1 q4 (by xord) (by xord))
    (ofGe_gradR_false q1 q3 q4 (by xord) (by xord) (by osgn))
    (cmpE_ptKey_lt q3 q4 q1 q4 (by xord) (by xord) (by xord) (by xord) (by osgn))
    (cw_c q3 q1 q4 (by osgn))

theorem run_Abr (ori : Bool) (V : Array (Vtx XQ)) (i1 i2 i3 i4 : Nat) (q1 q2 q3 q4 : Rat × Rat)
    (h1 : V[i1]? = some ⟨Fq q1, (nb ori i4 i2).1, (nb ori i4 i2).2⟩)
    (h2 : V[i2]? = some ⟨Fq q2, (nb ori i1 i3).1, (nb ori i1 i3).2⟩)
    (h3 : V[i3]? = some ⟨Fq q3, (nb ori i2 i4).1, (nb ori i2 i4).2⟩)
    (h4 : V[i4]? = some ⟨Fq q4, (nb ori i3 i1).1, (nb ori i3 i1).2⟩)
    (h12 : q1.1 < q2.1) (h23 : q2.1 < q3.1) (h34 : q3.1 < q4.1)
    (s124 : 0 < orient q1 q2 q4) (s134 : 0 < orient q1 q3 q4) (s123 : orient q1 q2 q3 < 0) (s234 : 0 < orient q2 q3 q4) :
    ∃ s', Runs (stQ V [(i1, [])]) (.ok ((), s')) (loop 5) ∧
      s'.out = [sort3 (Fq q3) (Fq q2) (Fq q4), sort3 (Fq q2) (Fq q1) (Fq q4)] ∧ s'.mono = true := by
  have h13 := lt_trans h12 h23
  have h24 := lt_trans h23 h34
  have h14 := lt_trans h13 h34
  exact flow_Abr ori V i1 i2 i3 i4 (Fq q1) (Fq q2) (Fq q3) (Fq q4) h1 h2 h3 h4
    (ord4_fin q1 q2 q3 q4 h12 h23 h34)
    (cmpE_fanL0_lt q1 q2 q4 (by xord) (by xord) (by osgn))
    (cmpE_fanL0_gt q1 q4 q2 (by xord) (by xord) (by osgn))
    (cmpAt_keyEnd_lt q2 q3 q1 q4 (by xord) (by xord) (by xord) (by xord) (by osgn))
    (cw_cc q3 q2 q1 (by osgn))
    (ofGt_right_false q3 q1 q4 (by xord) (by xord))
    (ofGe_gradR_false q1 q3 q4 (by xord) (by xord) (by osgn))
    (cmpE_ptKey_lt q3 q4 q1 q4 (by xord) (by xord) (by xord) (by xord) (by osgn))
    (cw_c q2 q1 q4 (by osgn))
    (cw_c q3 q2 q4 (by osgn))

theorem run_Zia (ori : Bool) (V : Array (Vtx XQ)) (i1 i2 i3 i4 : Nat) (q1 q2 q3 q4 : Rat × Rat)
    (h1 : V[i1]? = some ⟨Fq q1, (nb ori i4 i3).1, (nb ori i4 i3).2⟩)
    (h2 : V[i2]? = some ⟨Fq q2, (nb ori i3 i4).1, (nb ori i3 i4).2⟩)
    (h3 : V[i3]? = some ⟨Fq q3, (nb ori i1 i2).1, (nb ori i1 i2).2⟩)
    (h4 : V[i4]? = some ⟨Fq q4, (nb ori i2 i1).1, (nb ori i2 i1).2⟩)
    (h12 : q1.1 < q2.1) (h23 : q2.1 < q3.1) (h34 : q3.1 < q4.1)
    (s134 : orient q1 q3 q4 < 0) (s124 : orient q1 q2 q4 < 0) (s123 : 0 < orient q1 q2 q3) (s234 : orient q2 q3 q4 < 0) :
    ∃ s', Runs (stQ V [(i1, []), (i2, [])]) (.ok ((), s')) (loop 5) ∧
      s'.out = [sort3 (Fq q1) (Fq q2) (Fq q4), sort3 (Fq q2) (Fq q1) (Fq q3)] ∧ s'.mono = true := by
  have h13 := lt_trans h12 h23
  have h24 := lt_trans h23 h34
  have h14 := lt_trans h13 h34
  exact flow_Zia ori V i1 i2 i3 i4 (Fq q1) (Fq q2) (Fq q3) (Fq q4) h1 h2 h3 h4
    (ord4_fin q1 q2 q3 q4 h12 h23 h34)
    (cmpE_fanL0_lt q1 q4 q3 (by xord) (by xord) (by osgn))
    (cmpE_fanL0_gt q1 q3 q4 (by xord) (by xord) (by osgn))
    (cmpE_fanL0_lt q2 q4 q3 (by xord) (by xord) (by osgn))
    (cmpE_fanL0_gt q2 q3 q4 (by xord) (by xord) (by osgn))
    (cmpE_ptKey_gt q2 q4 q1 q4 (by xord) (by xord) (by xord) (by xord) (by osgn))
    (cmpE_ptKey_lt q2 q4 q1 q3 (by xord) (by xord) (by xord) (by xord) (by osgn))
    (cmpE_ptKey_gt q2 q3 q1 q4 (by xord) (by xord) (by xord) (by xord) (by osgn))
    (cmpE_ptKey_lt q2 q3 q1 q3 (by xord) (by xord) (by xord) (by xord) (by osgn))
    (cmpE_fanL_lt q1 q4 q3 q2.1 (by xord) (by xord) (by xord) (by osgn))
    (cmpE_fanL_gt q1 q3 q4 q2.1 (by xord) (by xord) (by xord) (by osgn))
    (partialCmp_fanL_lt q1 q4 q3 q2.1 (by xord) (by xord) (by xord) (by osgn))
    (ofLt_right_false q2 q1 q4 (by xord) (by xord))
    (ofGt_right_false q2 q1 q3 (by xord) (by xord))
    (ofGe_gradR_false q1 q2 q3 (by xord) (by xord) (by osgn))
    (cmpE_ptOther_gt q1 q3 q2 q4 (by xord) (by xord) (by xord) (by xord) (by osgn))
    (cw_c q2 q1 q3 (by osgn))
    (ofGe_gradR_true q1 q2 q4 (by xord) (by xord) (by osgn))
    (cmpE_fanR_lt q1 q2 q4 q3.1 (by xord) (by xord) (by xord) (by osgn))
    (cw_c q1 q2 q4 (by osgn))

theorem run_Zib (ori : Bool) (V : Array (Vtx XQ)) (i1 i2 i3 i4 : Nat) (q1 q2 q3 q4 : Rat × Rat)
    (h1 : V[i1]? = some ⟨Fq q1, (nb ori i4 i3).1, (nb ori i4 i3).2⟩)
    (h2 : V[i2]? = some ⟨Fq q2, (nb ori i3 i4).1, (nb ori i3 i4).2⟩)
    (h3 : V[i3]? = some ⟨Fq q3, (nb ori i1 i2).1, (nb ori i1 i2).2⟩)
    (h4 : V[i4]? = some ⟨Fq q4, (nb ori i2 i1).1, (nb ori i2 i1).2⟩)
    (h12 : q1.1 < q2.1) (h23 : q2.1 < q3.1) (h34 : q3.1 < q4.1)
    (s134 : 0 < orient q1 q3 q4) (s124 : 0 < orient q1 q2 q4) (s123 : orient q1 q2 q3 < 0) (s234 : 0 < orient q2 q3 q4) :
    ∃ s', Runs (stQ V [(i1, []), (i2, [])]) (.ok ((), s')) (loop 5) ∧
      s'.out = [sort3 (Fq q2) (Fq q1) (Fq q4), sort3 (Fq q1) (Fq q2) (Fq q3)] ∧ s'.mono = true := by
  have h13 := lt_trans h12 h23
  have h24 := lt_trans h23 h34
  have h14 := lt_trans h13 h34
  exact flow_Zib ori V i1 i2 i3 i4 (Fq q1) (Fq q2) (Fq q3) (Fq q4) h1 h2 h3 h4
    (ord4_fin q1 q2 q3 q4 h12 h23 h34)
    (cmpE_fanL0_lt q1 q3 q4 (by xord) (by xord) (by osgn))
    (cmpE_fanL0_gt q1 q4 q3 (by xord) (by xord) (by osgn))
    (cmpE_fanL0_lt q2 q3 q4 (by xord) (by xord) (by osgn))
    (cmpE_fanL0_gt q2 q4 q3 (by xord) (by xord) (by osgn))
    (cmpE_ptKey_gt q2 q3 q1 q3 (by xord) (by xord) (by xord) (by xord) (by osgn))
    (cmpE_ptKey_lt q2 q3 q1 q4 (by xord) (by xord) (by xord) (by xord) (by osgn))
    (cmpE_ptKey_gt q2 q4 q1 q3 (by xord) (by xord) (by xord) (by xord) (by osgn))
    (cmpE_ptKey_lt q2 q4 q1 q4 (by xord) (by xord) (by xord) (by xord) (by osgn))
    (cmpE_fanL_lt q1 q3 q4 q2.1 (by xord) (by xord) (by xord) (by osgn))
    (cmpE_fanL_gt q1 q4 q3 q2.1 (by xord) (by xord) (by xord) (by osgn))
    (partialCmp_fanL_lt q1 q3 q4 q2.1 (by xord) (by xord) (by xord) (by osgn))
    (ofLt_right_false q2 q1 q3 (by xord) (by xord))
    (ofGt_right_false q2 q1 q4 (by xord) (by xord))
    (ofGe_gradR_true q1 q2 q3 (by xord) (by xord) (by osgn))
    (cmpE_ptOther_lt q1 q3 q2 q3 (by xord) (by xord) (by xord) (by xord) (by osgn))
    (cmpE_ptOther_lt q1 q3 q2 q4 (by xord) (by xord) (by xord) (by xord) (by osgn))
    (cw_c q1 q2 q3 (by osgn))
    (ofGe_gradR_false q1 q2 q4 (by xord) (by xord) (by osgn))
    (cmpE_fanR_lt q2 q1 q4 q3.1 (by xord) (by xord) (by xord) (by osgn))
    (cw_c q2 q1 q4 (by osgn))

theorem run_Zab (ori : Bool) (V : Array (Vtx XQ)) (i1 i2 i3 i4 : Nat) (q1 q2 q3 q4 : Rat × Rat)
    (h1 : V[i1]? = some ⟨Fq q1, (nb ori i4 i3).1, (nb ori i4 i3).2⟩)
    (h2 : V[i2]? = some ⟨Fq q2, (nb ori i3 i4).1, (nb ori i3 i4).2⟩)
    (h3 : V[i3]? = some ⟨Fq q3, (nb ori i1 i2).1, (nb ori i1 i2).2⟩)
    (h4 : V[i4]? = some ⟨Fq q4, (nb ori i2 i1).1, (nb ori i2 i1).2⟩)
    (h12 : q1.1 < q2.1) (h23 : q2.1 < q3.1) (h34 : q3.1 < q4.1)
    (s134 : orient q1 q3 q4 < 0) (s123 : orient q1 q2 q3 < 0) (s234 : 0 < orient q2 q3 q4) (s124 : orient q1 q2 q4 < 0) :
    ∃ s', Runs (stQ V [(i1, []), (i2, [])]) (.ok ((), s')) (loop 5) ∧
      s'.out = [sort3 (Fq q1) (Fq q3) (Fq q4), sort3 (Fq q3) (Fq q2) (Fq q4)] ∧ s'.mono = true := by
  have h13 := lt_trans h12 h23
  have h24 := lt_trans h23 h34
  have h14 := lt_trans h13 h34
  exact flow_Zab ori V i1 i2 i3 i4 (Fq q1) (Fq q2) (Fq q3) (Fq q4) h1 h2 h3 h4
    (ord4_fin q1 q2 q3 q4 h12 h23 h34)
    (cmpE_fanL0_lt q1 q4 q3 (by xord) (by xord) (by osgn))
    (cmpE_fanL0_gt q1 q3 q4 (by xord) (by xord) (by osgn))
    (cmpE_fanL0_lt q2 q3 q4 (by xord) (by xord) (by osgn))
    (cmpE_fanL0_gt q2 q4 q3 (by xord) (by xord) (by osgn))
    (cmpE_ptKey_gt q2 q3 q1 q4 (by xord) (by xord) (by xord) (by xord) (by osgn))
    (cmpE_ptKey_gt q2 q3 q1 q3 (by xord) (by xord) (by xord) (by xord) (by osgn))
    (cmpE_ptKey_gt q2 q4 q1 q4 (by xord) (by xord) (by xord) (by xord) (by osgn))
    (cmpE_ptKey_gt q2 q4 q1 q3 (by xord) (by xord) (by xord) (by xord) (by osgn))
    (cmpE_fanL_gt q1 q3 q4 q2.1 (by xord) (by xord) (by xord) (by osgn))
    (ofLt_right_false q2 q1 q3 (by xord) (by xord))
    (ofGe_gradR_true q1 q2 q3 (by xord) (by xord) (by osgn))
    (cmpE_ptOther_lt q1 q3 q2 q3 (by xord) (by xord) (by xord) (by xord) (by osgn))
    (cmpE_ptOther_lt q1 q3 q2 q4 (by xord) (by xord) (by xord) (by xord) (by osgn))
    (ofGt_right_false q1 q2 q4 (by xord) (by xord))
    (ofGe_gradR_true q1 q2 q4 (by xord) (by xord) (by osgn))
    (cmpE_fanR_lt q1 q2 q4 q3.1 (by xord) (by xord) (by xord) (by osgn))
    (cw_c q3 q2 q4 (by osgn))
    (cw_c q1 q3 q4 (by osgn))

theorem run_Zbe (ori : Bool) (V : Array (Vtx XQ)) (i1 i2 i3 i4 : Nat) (q1 q2 q3 q4 : Rat × Rat)
    (h1 : V[i1]? = some ⟨Fq q1, (nb ori i4 i3).1, (nb ori i4 i3).2⟩)
    (h2 : V[i2]? = some ⟨Fq q2, (nb ori i3 i4).1, (nb ori i3 i4).2⟩)
    (h3 : V[i3]? = some ⟨Fq q3, (nb ori i1 i2).1, (nb ori i1 i2).2⟩)
    (h4 : V[i4]? = some ⟨Fq q4, (nb ori i2 i1).1, (nb ori i2 i1).2⟩)
    (h12 : q1.1 < q2.1) (h23 : q2.1 < q3.1) (h34 : q3.1 < q4.1)
    (s134 : 0 < orient q1 q3 q4) (s123 : 0 < orient q1 q2 q3) (s234 : orient q2 q3 q4 < 0) (s124 : 0 < orient q1 q2 q4) :
    ∃ s', Runs (stQ V [(i1, []), (i2, [])]) (.ok ((), s')) (loop 5) ∧
      s'.out = [sort3 (Fq q2) (Fq q3) (Fq q4), sort3 (Fq q3) (Fq q1) (Fq q4)] ∧ s'.mono = true := by
  have h13 := lt_trans h12 h23
  have h24 := lt_trans h23 h34
  have h14 := lt_trans h13 h34
  exact flow_Zbe ori V i1 i2 i3 i4 (Fq q1) (Fq q2) (Fq q3) (Fq q4) h1 h2 h3 h4
    (ord4_fin q1 q2 q3 q4 h12 h23 h34)
    (cmpE_fanL0_lt q1 q3 q4 (by xord) (by xord) (by osgn))
    (cmpE_fanL0_gt q1 q4 q3 (by xord) (by xord) (by osgn))
    (cmpE_fanL0_lt q2 q4 q3 (by xord) (by xord) (by osgn))
    (cmpE_fanL0_gt q2 q3 q4 (by xord) (by xord) (by osgn))
    (cmpE_ptKey_lt q2 q4 q1 q3 (by xord) (by xord) (by xord) (by xord) (by osgn))
    (cmpE_ptKey_lt q2 q4 q1 q4 (by xord) (by xord) (by xord) (by xord) (by osgn))
    (cmpE_ptKey_lt q2 q3 q1 q3 (by xord) (by xord) (by xord) (by xord) (by osgn))
    (cmpE_ptKey_lt q2 q3 q1 q4 (by xord) (by xord) (by xord) (by xord) (by osgn))
    (ofGt_right_false q2 q1 q3 (by xord) (by xord))
    (ofGe_gradR_false q1 q2 q3 (by xord) (by xord) (by osgn))
    (cmpE_ptOther_gt q1 q3 q2 q4 (by xord) (by xord) (by xord) (by xord) (by osgn))
    (cmpE_fanL_lt q1 q3 q4 q2.1 (by xord) (by xord) (by xord) (by osgn))
    (ofGt_right_false q2 q1 q4 (by xord) (by xord))
    (ofGe_gradR_false q1 q2 q4 (by xord) (by xord) (by osgn))
    (cmpE_fanR_lt q2 q1 q4 q3.1 (by xord) (by xord) (by xord) (by osgn))
    (cw_c q3 q1 q4 (by osgn))
    (cw_c q2 q3 q4 (by osgn))
end Cav.QuadFlows
