/-
  IEEE-style special-value laws of the `XQ` instance (`Cav/Inst/XQ.lean`) and their consequences
  for the 1-D quadrature model: NaN absorption through `unitRule` / `symRule` / `gkApprox`, the
  NaN invariant of `gk1dLoop`, and finiteness of a successful result.
-/
import Cav.Model.Quad
import Cav.Inst.XQ
import Cav.Thm.C10

open Cav Num
namespace Cav.XQLaws

/-! ### NaN -/

theorem isNaN_iff (x : XQ) : Num.isNaN x = true ↔ x = .nan := by
  cases x <;> simp [Num.isNaN]

theorem isNaN_false_iff (x : XQ) : Num.isNaN x = false ↔ x ≠ .nan := by
  cases x <;> simp [Num.isNaN]

@[simp] theorem nan_add (b : XQ) : (XQ.nan + b : XQ) = .nan := by cases b <;> rfl
@[simp] theorem add_nan (a : XQ) : (a + XQ.nan : XQ) = .nan := by cases a <;> rfl
@[simp] theorem neg_nan : (-XQ.nan : XQ) = .nan := rfl
@[simp] theorem nan_sub (b : XQ) : (XQ.nan - b : XQ) = .nan := by cases b <;> rfl
@[simp] theorem sub_nan (a : XQ) : (a - XQ.nan : XQ) = .nan := by cases a <;> rfl
@[simp] theorem nan_mul (b : XQ) : (XQ.nan * b : XQ) = .nan := by cases b <;> rfl
@[simp] theorem mul_nan (a : XQ) : (a * XQ.nan : XQ) = .nan := by cases a <;> rfl
@[simp] theorem nan_div (b : XQ) : (XQ.nan / b : XQ) = .nan := by cases b <;> rfl
@[simp] theorem div_nan (a : XQ) : (a / XQ.nan : XQ) = .nan := by cases a <;> rfl
@[simp] theorem abs_nan : Num.abs XQ.nan = XQ.nan := rfl

/-- `+` absorbs NaN -/
theorem isNaN_add {a b : XQ} (h : Num.isNaN a = true ∨ Num.isNaN b = true) :
    Num.isNaN (a + b) = true := by
  rcases h with h | h <;> rw [isNaN_iff] at h ⊢ <;> subst h <;> simp

/-- `-` absorbs NaN -/
theorem isNaN_sub {a b : XQ} (h : Num.isNaN a = true ∨ Num.isNaN b = true) :
    Num.isNaN (a - b) = true := by
  rcases h with h | h <;> rw [isNaN_iff] at h ⊢ <;> subst h <;> simp

/-- `*` absorbs NaN -/
theorem isNaN_mul {a b : XQ} (h : Num.isNaN a = true ∨ Num.isNaN b = true) :
    Num.isNaN (a * b) = true := by
  rcases h with h | h <;> rw [isNaN_iff] at h ⊢ <;> subst h <;> simp

/-- `/` absorbs NaN -/
theorem isNaN_div {a b : XQ} (h : Num.isNaN a = true ∨ Num.isNaN b = true) :
    Num.isNaN (a / b) = true := by
  rcases h with h | h <;> rw [isNaN_iff] at h ⊢ <;> subst h <;> simp

/-- unary minus preserves NaN-ness -/
theorem isNaN_neg (a : XQ) : Num.isNaN (-a) = Num.isNaN a := by cases a <;> rfl

/-- `abs` preserves NaN-ness -/
theorem isNaN_abs (a : XQ) : Num.isNaN (Num.abs a) = Num.isNaN a := by cases a <;> rfl

/-- every comparison with a NaN is false -/
theorem lt_nan_left (b : XQ) : Num.lt XQ.nan b = false := by cases b <;> rfl
theorem lt_nan_right (a : XQ) : Num.lt a XQ.nan = false := by cases a <;> rfl
theorem beq_nan_left (b : XQ) : Num.beq XQ.nan b = false := by cases b <;> rfl
theorem beq_nan_right (a : XQ) : Num.beq a XQ.nan = false := by cases a <;> rfl
theorem le_nan_left (b : XQ) : Num.le XQ.nan b = false := by cases b <;> rfl
theorem le_nan_right (a : XQ) : Num.le a XQ.nan = false := by cases a <;> rfl

theorem lt_of_isNaN {a b : XQ} (h : Num.isNaN a = true ∨ Num.isNaN b = true) :
    Num.lt a b = false := by
  rcases h with h | h <;> rw [isNaN_iff] at h <;> subst h
  · exact lt_nan_left b
  · exact lt_nan_right a

theorem beq_of_isNaN {a b : XQ} (h : Num.isNaN a = true ∨ Num.isNaN b = true) :
    Num.beq a b = false := by
  rcases h with h | h <;> rw [isNaN_iff] at h <;> subst h
  · exact beq_nan_left b
  · exact beq_nan_right a

theorem le_of_isNaN {a b : XQ} (h : Num.isNaN a = true ∨ Num.isNaN b = true) :
    Num.le a b = false := by
  rcases h with h | h <;> rw [isNaN_iff] at h <;> subst h
  · exact le_nan_left b
  · exact le_nan_right a

/-- the converse for `+`: a NaN sum of two non-NaN values is `∞ + (−∞)` -/
theorem add_eq_nan_iff (a b : XQ) :
    (a + b : XQ) = .nan ↔ a = .nan ∨ b = .nan ∨ (a = .pinf ∧ b = .ninf) ∨ (a = .ninf ∧ b = .pinf) := by
  cases a <;> cases b <;> simp [HAdd.hAdd, Add.add, XQ.add]

/-! ### NaN through the rules -/

theorem foldl_nan (f : XQ → XQ) (l : List (XQ × XQ)) :
    l.foldl (fun s nw => s + nw.2 * (f (-nw.1) + f nw.1)) XQ.nan = XQ.nan := by
  induction l with
  | nil => rfl
  | cons p ps ih => rw [List.foldl_cons, nan_add]; exact ih

theorem foldl_of_mem (f : XQ → XQ) (l : List (XQ × XQ)) (s : XQ)
    (h : ∃ x ∈ l.flatMap (fun nw => [-nw.1, nw.1]), f x = XQ.nan) :
    l.foldl (fun s nw => s + nw.2 * (f (-nw.1) + f nw.1)) s = XQ.nan := by
  induction l generalizing s with
  | nil => obtain ⟨x, hx, _⟩ := h; simp at hx
  | cons p ps ih =>
    obtain ⟨x, hx, hfx⟩ := h
    rw [List.foldl_cons]
    simp only [List.flatMap_cons, List.mem_append, List.mem_cons, List.not_mem_nil, or_false] at hx
    rcases hx with (rfl | rfl) | hx
    · rw [hfx, nan_add, mul_nan, add_nan]; exact foldl_nan f ps
    · rw [hfx, add_nan, mul_nan, add_nan]; exact foldl_nan f ps
    · exact ih _ ⟨x, hx, hfx⟩

/-- **a NaN sample makes the rule value NaN**: if `f` is NaN at one of the unit nodes the rule
    evaluates (`unitNodes rule`: `n0` when `n0 == 0`, else `−n`, `n` for each listed node) -/
theorem unitRule_nan (f : XQ → XQ) (rule : List (XQ × XQ))
    (h : ∃ x ∈ unitNodes rule, Num.isNaN (f x) = true) : Num.isNaN (unitRule f rule) = true := by
  obtain ⟨x, hx, hfx⟩ := h
  rw [isNaN_iff] at hfx ⊢
  cases rule with
  | nil => simp [unitNodes] at hx
  | cons p rest =>
    obtain ⟨n0, w0⟩ := p
    unfold unitNodes at hx
    unfold unitRule
    by_cases h0 : Num.beq n0 zero = true
    · simp only [h0, if_true] at hx ⊢
      rcases List.mem_cons.mp hx with rfl | hx
      · rw [hfx, mul_nan, add_nan]; exact foldl_nan f rest
      · exact foldl_of_mem f rest _ ⟨x, hx, hfx⟩
    · simp only [h0] at hx ⊢
      exact foldl_of_mem f _ _ ⟨x, hx, hfx⟩

theorem symRule_nan (f : XQ → XQ) (a b : XQ) (rule : List (XQ × XQ))
    (h : ∃ x ∈ (unitNodes rule).map (denorm a b), Num.isNaN (f x) = true) :
    Num.isNaN (symRule f a b rule) = true := by
  obtain ⟨x, hx, hfx⟩ := h
  obtain ⟨u, hu, rfl⟩ := List.mem_map.mp hx
  unfold symRule
  exact isNaN_mul (Or.inr (unitRule_nan (fun x => f (denorm a b x)) rule ⟨u, hu, hfx⟩))

/-- **a NaN sample makes the panel's estimate NaN** -/
theorem gkApprox_nan (f : XQ → XQ) (a b : XQ)
    (h : ∃ x ∈ panelAbscissae a b, Num.isNaN (f x) = true) :
    Num.isNaN (gkApprox f a b).2 = true := by
  obtain ⟨x, hx, hfx⟩ := h
  unfold panelAbscissae at hx
  rw [List.map_append, List.mem_append] at hx
  show Num.isNaN (Num.abs (symRule f a b Gen.g10 - symRule f a b Gen.k21)) = true
  rw [isNaN_abs]
  rcases hx with hx | hx
  · exact isNaN_sub (Or.inl (symRule_nan f a b _ ⟨x, hx, hfx⟩))
  · exact isNaN_sub (Or.inr (symRule_nan f a b _ ⟨x, hx, hfx⟩))

/-- … and its value too when the NaN sample is a Kronrod abscissa -/
theorem gkApprox_nan_val (f : XQ → XQ) (a b : XQ)
    (h : ∃ x ∈ (unitNodes (Gen.k21 (α := XQ))).map (denorm a b), Num.isNaN (f x) = true) :
    Num.isNaN (gkApprox f a b).1 = true := symRule_nan f a b _ h

/-! ### the NaN invariant of the loop -/

/-- **loop form of NaN honesty**, invariant stated explicitly: if in the current state "some
    already evaluated panel has a NaN estimate ⇒ `accu` is NaN", then a run whose trace contains a
    panel with NaN estimate never returns `ok`. -/
theorem gk1dLoop_nan_never_ok (f : XQ → XQ) (tol : XQ) :
    ∀ (fuel : Nat) (accu : XQ) (set : List (Panel XQ)) (tr : List (XQ × XQ)),
      ((∃ p ∈ tr, Num.isNaN (gkApprox f p.1 p.2).2 = true) → Num.isNaN accu = true) →
      (∃ p ∈ (gk1dLoop f tol fuel accu set tr).panels, Num.isNaN (gkApprox f p.1 p.2).2 = true) →
      ∀ v e, (gk1dLoop f tol fuel accu set tr).res ≠ .ok (v, e) := by
  intro fuel
  induction fuel with
  | zero => intro accu set tr _ _ v e h; simp [gk1dLoop] at h
  | succ n ih =>
    intro accu set tr inv hex v e
    unfold gk1dLoop at hex ⊢
    by_cases hn : Num.isNaN accu = true
    · simp [hn]
    · have hn' : Num.isNaN accu = false := by simpa using hn
      have hclean : ¬ ∃ p ∈ tr, Num.isNaN (gkApprox f p.1 p.2).2 = true := fun h => hn (inv h)
      by_cases hl : Num.lt accu tol = true
      · simp only [hn', hl, if_true, Bool.false_eq_true, if_false] at hex ⊢
        exfalso
        obtain ⟨p, hp, hpn⟩ := hex
        exact hclean ⟨p, List.mem_reverse.mp hp, hpn⟩
      · have hl' : Num.lt accu tol = false := by simpa using hl
        simp only [hn', hl', Bool.false_eq_true, if_false] at hex ⊢
        cases hs : set.getLast? with
        | none => simp
        | some iv =>
          simp only [hs] at hex ⊢
          by_cases hb : Num.bne iv.a iv.b = true
          · simp only [hb, if_true] at hex ⊢
            refine ih _ _ _ ?_ hex v e
            rintro ⟨p, hp, hpn⟩
            rw [isNaN_iff] at hpn ⊢
            rcases List.mem_cons.mp hp with rfl | hp
            · simp only at hpn; rw [hpn]; simp
            · rcases List.mem_cons.mp hp with rfl | hp
              · simp only at hpn; rw [hpn]; simp
              · exact absurd ⟨p, hp, (isNaN_iff _).mpr hpn⟩ hclean
          · have hb' : Num.bne iv.a iv.b = false := by simpa using hb
            simp only [hb', Bool.false_eq_true, if_false] at hex ⊢
            exact ih _ _ _ inv hex v e

/-- **NaN honesty, 1-D (estimate form)**: a run on non-coincident bounds that evaluated a panel
    whose estimate is NaN never reports success -/
theorem gk1d_nan_err_never_ok (f : XQ → XQ) (a b tol : XQ) (mi : Option Nat)
    (hab : Num.beq a b = false)
    (h : ∃ p ∈ (gk1d f a b tol mi).panels, Num.isNaN (gkApprox f p.1 p.2).2 = true) :
    ∀ v e, (gk1d f a b tol mi).res ≠ .ok (v, e) := by
  unfold gk1d at h ⊢
  simp only [hab, Bool.false_eq_true, if_false] at h ⊢
  refine gk1dLoop_nan_never_ok f tol _ _ _ _ ?_ h
  rintro ⟨p, hp, hpn⟩
  rw [List.mem_singleton.mp hp] at hpn
  exact hpn

/-! ### finiteness -/

/-- `x` is a finite value -/
def Fin (x : XQ) : Prop := ∃ q, x = .fin q

theorem isFinite_iff (x : XQ) : Num.isFinite x = true ↔ Fin x := by
  cases x <;> simp [Num.isFinite, Fin]

theorem Fin.not_nan {x : XQ} (h : Fin x) : Num.isNaN x = false := by
  obtain ⟨q, rfl⟩ := h; rfl

theorem fin_add_iff (a b : XQ) : Fin (a + b) ↔ Fin a ∧ Fin b := by
  cases a <;> cases b <;> simp [Fin, HAdd.hAdd, Add.add, XQ.add]

theorem fin_neg_iff (a : XQ) : Fin (-a) ↔ Fin a := by
  cases a <;> simp [Fin, Neg.neg, XQ.neg]

theorem fin_sub_iff (a b : XQ) : Fin (a - b) ↔ Fin a ∧ Fin b := by
  cases a <;> cases b <;> simp [Fin, HSub.hSub, Sub.sub, XQ.sub, XQ.add, XQ.neg]

theorem fin_abs_iff (a : XQ) : Fin (Num.abs a) ↔ Fin a := by
  cases a <;> simp [Fin, Num.abs, XQ.abs]

theorem abs_ne_ninf (a : XQ) : Num.abs a ≠ XQ.ninf := by
  cases a <;> simp [Num.abs, XQ.abs]

theorem add_ne_ninf {a b : XQ} (ha : a ≠ .ninf) (hb : b ≠ .ninf) : (a + b : XQ) ≠ .ninf := by
  cases a <;> cases b <;> simp_all [HAdd.hAdd, Add.add, XQ.add]

/-- `a − b = −∞` with `a ≠ −∞` forces `a` finite and `b = +∞` -/
theorem sub_eq_ninf {a b : XQ} (ha : a ≠ .ninf) (h : (a - b : XQ) = .ninf) : Fin a ∧ b = .pinf := by
  cases a <;> cases b <;> simp_all [Fin, HSub.hSub, Sub.sub, XQ.sub, XQ.add, XQ.neg]

theorem lt_true_cases {a b : XQ} (h : Num.lt a b = true) : Fin a ∨ a = .ninf := by
  cases a <;> cases b <;> simp_all [Fin, Num.lt, XQ.lt]

theorem fin_zero : Fin (Num.zero : XQ) := ⟨_, rfl⟩

/-! ### the sorted-list set, membership only (any instance) -/

theorem mem_setInsert {α : Type} [Num α] {p q : Panel α} {s : List (Panel α)}
    (h : q ∈ setInsert p s) : q = p ∨ q ∈ s := by
  induction s with
  | nil => simpa [setInsert] using h
  | cons k ks ih =>
    unfold setInsert at h
    cases hc : panelCmp p k <;> simp only [hc] at h
    · simpa using h
    · exact Or.inr h
    · rcases List.mem_cons.mp h with h | h
      · exact Or.inr (h ▸ List.mem_cons_self)
      · rcases ih h with h | h
        · exact Or.inl h
        · exact Or.inr (List.mem_cons_of_mem _ h)

theorem mem_setRemove {α : Type} [Num α] {p q : Panel α} {s : List (Panel α)}
    (h : q ∈ setRemove p s) : q ∈ s := by
  induction s with
  | nil => simp [setRemove] at h
  | cons k ks ih =>
    unfold setRemove at h
    cases hc : panelCmp p k <;> simp only [hc] at h
    · exact h
    · exact List.mem_cons_of_mem _ h
    · rcases List.mem_cons.mp h with h | h
      · exact h ▸ List.mem_cons_self
      · exact List.mem_cons_of_mem _ (ih h)

/-! ### a successful result is finite -/

theorem gkApprox_err_ne_ninf (f : XQ → XQ) (a b : XQ) : (gkApprox f a b).2 ≠ .ninf :=
  abs_ne_ninf _

theorem gkApprox_fin (f : XQ → XQ) (a b : XQ) (h : Fin (gkApprox f a b).2) :
    Fin (gkApprox f a b).1 := by
  have h1 : Fin (Num.abs (symRule f a b Gen.g10 - symRule f a b Gen.k21)) := h
  rw [fin_abs_iff, fin_sub_iff] at h1
  exact h1.2

theorem sumVals_fin (s0 : XQ) (s : List (Panel XQ)) (h0 : Fin s0) (hs : ∀ p ∈ s, Fin p.val) :
    Fin (sumVals s0 s) := by
  unfold sumVals
  induction s generalizing s0 with
  | nil => exact h0
  | cons p ps ih =>
    rw [List.foldl_cons]
    exact ih _ ((fin_add_iff _ _).mpr ⟨h0, hs p List.mem_cons_self⟩)
      (fun q hq => hs q (List.mem_cons_of_mem _ hq))

/-- invariant: `accu` is not `−∞`; stored estimates are not `−∞` and a finite estimate comes
    with a finite value; a finite `accu` means every stored estimate is finite -/
structure FinInv (accu : XQ) (set : List (Panel XQ)) : Prop where
  accu_ne : accu ≠ .ninf
  panel : ∀ p ∈ set, p.err ≠ .ninf ∧ (Fin p.err → Fin p.val)
  all_fin : Fin accu → ∀ p ∈ set, Fin p.err

theorem gk1dLoop_ok_finite (f : XQ → XQ) (tol : XQ) :
    ∀ (fuel : Nat) (accu : XQ) (set : List (Panel XQ)) (tr : List (XQ × XQ)) (v e : XQ),
      FinInv accu set → (gk1dLoop f tol fuel accu set tr).res = .ok (v, e) → Fin v ∧ Fin e := by
  intro fuel
  induction fuel with
  | zero => intro accu set tr v e _ h; simp [gk1dLoop] at h
  | succ n ih =>
    intro accu set tr v e inv h
    unfold gk1dLoop at h
    by_cases hn : Num.isNaN accu = true
    · simp [hn] at h
    · by_cases hl : Num.lt accu tol = true
      · simp [hn, hl] at h
        obtain ⟨rfl, rfl⟩ := h
        have hfa : Fin accu := (lt_true_cases hl).resolve_right inv.accu_ne
        refine ⟨sumVals_fin _ _ ((fin_neg_iff _).mpr fin_zero) ?_, hfa⟩
        intro p hp
        exact (inv.panel p hp).2 (inv.all_fin hfa p hp)
      · simp only [hn, hl] at h
        cases hs : set.getLast? with
        | none => simp [hs] at h
        | some iv =>
          simp only [hs] at h
          have hiv : iv ∈ set := List.mem_of_getLast? hs
          by_cases hb : Num.bne iv.a iv.b = true
          · simp only [hb] at h
            refine ih _ _ _ _ _ ?_ h
            generalize hm : (iv.a + iv.b) / two = m
            have hmem : ∀ p ∈ setRemove iv
                (setInsert ⟨(gkApprox f m iv.b).2, (gkApprox f m iv.b).1, m, iv.b⟩
                  (setInsert ⟨(gkApprox f iv.a m).2, (gkApprox f iv.a m).1, iv.a, m⟩ set)),
                p = ⟨(gkApprox f m iv.b).2, (gkApprox f m iv.b).1, m, iv.b⟩ ∨
                p = ⟨(gkApprox f iv.a m).2, (gkApprox f iv.a m).1, iv.a, m⟩ ∨ p ∈ set := by
              intro p hp
              rcases mem_setInsert (mem_setRemove hp) with h | h
              · exact Or.inl h
              · exact Or.inr (mem_setInsert h)
            refine ⟨?_, ?_, ?_⟩
            · intro hninf
              have h1 : (accu - iv.err : XQ) ≠ .ninf := by
                intro h2
                obtain ⟨hfa, hpinf⟩ := sub_eq_ninf inv.accu_ne h2
                obtain ⟨q, hq⟩ := inv.all_fin hfa iv hiv
                rw [hq] at hpinf
                exact XQ.noConfusion hpinf
              exact add_ne_ninf h1
                (add_ne_ninf (gkApprox_err_ne_ninf f _ _) (gkApprox_err_ne_ninf f _ _)) hninf
            · intro p hp
              rcases hmem p hp with rfl | rfl | hp
              · exact ⟨gkApprox_err_ne_ninf f _ _, gkApprox_fin f _ _⟩
              · exact ⟨gkApprox_err_ne_ninf f _ _, gkApprox_fin f _ _⟩
              · exact inv.panel p hp
            · intro hfin p hp
              rw [fin_add_iff, fin_sub_iff, fin_add_iff] at hfin
              rcases hmem p hp with rfl | rfl | hp
              · exact hfin.2.2
              · exact hfin.2.1
              · exact inv.all_fin hfin.1.1 p hp
          · simp only [hb] at h
            refine ih _ _ _ _ _ ⟨inv.accu_ne, ?_, ?_⟩ h
            · intro p hp; exact inv.panel p (mem_setRemove hp)
            · intro hfin p hp; exact inv.all_fin hfin p (mem_setRemove hp)

/-- **a successful 1-D result is finite** (every integrand, all bounds, every tolerance including
    `+∞`, every budget): both the value and the estimate are finite rationals -/
theorem gk1d_ok_finite (f : XQ → XQ) (a b tol : XQ) (mi : Option Nat) (v e : XQ)
    (h : (gk1d f a b tol mi).res = .ok (v, e)) : Fin v ∧ Fin e := by
  unfold gk1d at h
  by_cases hab : Num.beq a b = true
  · simp [hab] at h
    obtain ⟨rfl, rfl⟩ := h
    exact ⟨fin_zero, fin_zero⟩
  · simp only [hab] at h
    refine gk1dLoop_ok_finite f tol _ _ _ _ v e ⟨gkApprox_err_ne_ninf f a b, ?_, ?_⟩ h
    · intro p hp
      rw [List.mem_singleton.mp hp]
      exact ⟨gkApprox_err_ne_ninf f a b, gkApprox_fin f a b⟩
    · intro hfin p hp
      rw [List.mem_singleton.mp hp]
      exact hfin

end Cav.XQLaws
