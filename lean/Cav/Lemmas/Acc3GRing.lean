/-
  Additivity of the exact per-triangle integrals of a polynomial under the tiling produced by the
  sweep, for EVERY valid polygon set (`ValidSetV`: holes, islands, several components, vertical
  edges):

      `sum_exact_region : Σ_{tr ∈ T} triExactQ terms (triQ tr) = regionMoment terms polys`

  where `T` is the output of the model and `regionMoment` is defined from the polygons alone:
  `Σ_i (-1)^depth_i · polyMoment terms P_i`, `polyMoment terms P` the boundary sum
  `Σ_k ∫_{P_k}^{P_{k+1}} F dy` of the `x`-antiderivative `F` of the polynomial along the edges of
  `P` walked counter-clockwise (Green's formula; every edge integral is a closed-form rational
  number, `Acc3GEdge.omegaQ`).

  METHOD.  `Acc3GEdge.triExactQ_boundary`: the exact value of ONE triangle is `±` the sum of the edge
  weights `omegaQ` around it, so it is the measure `muW ω` of `GenOutInDefs.lean` for the
  antisymmetric edge weight `ω = omegaQ terms` and does not depend on the order of the corners
  (`triExactQ_perm`, `triExactQ_sq`).  The generic identity of the tiling proof
  (`GenOutInVLoop.ghostV_of_shOK`: `Σ muW ω t = areaW (sheared ring) ω` for EVERY antisymmetric `ω` —
  interior edges cancel) gives `sum_exact_ring`; `areaW_walk`, `areaW_polys`, `areaW_evenOdd`
  (the analogues of `areaR_walk`, `areaR_polys`, `areaR_evenOdd` of `C03General` for an arbitrary
  antisymmetric weight; `ccw_sign`, `shoelace_ne_zero`) evaluate the ring side polygon by polygon,
  and `areaW_shear` transports it from the sheared list to the original one.

  Degree 0: `regionMoment_const` (`k ·` signed even-odd area `/ 2`); degree ≤ 1: the edge weight in
  closed form, `omegaQ_affine` (first moments).
-/
import Cav.Lemmas.Acc3GEdge
import Cav.Thm.C03TilingV

set_option linter.unusedVariables false

namespace Cav.Acc3G
open Cav Num Cav.Geo Cav.Sweep Cav.QuadGeom Cav.CvxEvents Cav.MonoGeom Cav.Acc3
open Cav.GenInv Cav.GenRing Cav.GenVShear Cav.GenVAccept Cav.GenOutV Cav.GenOutIn Cav.GenOutInV
open Cav.C04GeneralV Cav.GenOutDefs Cav.GenOutCount Cav.GenOutVPoly Cav.CvxPoly
open Cav.GenValid Cav.CvxLoop
open Cav.GenOutPoly hiding Q
open Cav.Acc2 Cav.C01 Cav.C09Accuracy Cav.C07Accuracy

/-- the edge weight transported to the sheared picture -/
def omegaU (terms : List (Nat × Nat × Rat)) (ε : Rat) : W :=
  fun a b => omegaQ terms (unsh ε a) (unsh ε b)

theorem omegaU_as (terms : List (Nat × Nat × Rat)) (ε : Rat) : AS (omegaU terms ε) :=
  fun a b => omegaQ_swap terms _ _

theorem omegaQ_as (terms : List (Nat × Nat × Rat)) : AS (omegaQ terms) :=
  fun a b => omegaQ_swap terms _ _

/-- the exact value of a clockwise triangle does not depend on the order of its corners, and it is
    the measure `muW` of the triangle for the edge weight `omegaQ` -/
theorem triExactQ_perm (terms : List (Nat × Nat × Rat)) {a b c : Q} (h : orient a b c < 0) :
    triExactQ terms (a, b, c) = muW (omegaQ terms) (a, b, c) ∧
    triExactQ terms (a, c, b) = muW (omegaQ terms) (a, b, c) ∧
    triExactQ terms (b, a, c) = muW (omegaQ terms) (a, b, c) ∧
    triExactQ terms (b, c, a) = muW (omegaQ terms) (a, b, c) ∧
    triExactQ terms (c, a, b) = muW (omegaQ terms) (a, b, c) ∧
    triExactQ terms (c, b, a) = muW (omegaQ terms) (a, b, c) := by
  have o1 : orient a c b = - orient a b c := by unfold orient; ring
  have o2 : orient b a c = - orient a b c := by unfold orient; ring
  have o3 : orient b c a = orient a b c := by unfold orient; ring
  have o4 : orient c a b = orient a b c := by unfold orient; ring
  have o5 : orient c b a = - orient a b c := by unfold orient; ring
  have s1 := omegaQ_swap terms a b
  have s2 := omegaQ_swap terms b c
  have s3 := omegaQ_swap terms c a
  refine ⟨?_, ?_, ?_, ?_, ?_, ?_⟩
  · rw [(triExactQ_boundary terms (a, b, c)).2 h]; rfl
  · rw [(triExactQ_boundary terms (a, c, b)).1 (by show 0 < orient a c b; linarith)]
    simp only [triSum, muW]; linarith
  · rw [(triExactQ_boundary terms (b, a, c)).1 (by show 0 < orient b a c; linarith)]
    simp only [triSum, muW]; linarith
  · rw [(triExactQ_boundary terms (b, c, a)).2 (by show orient b c a < 0; linarith)]
    simp only [triSum, muW]; linarith
  · rw [(triExactQ_boundary terms (c, a, b)).2 (by show orient c a b < 0; linarith)]
    simp only [triSum, muW]; linarith
  · rw [(triExactQ_boundary terms (c, b, a)).1 (by show 0 < orient c b a; linarith)]
    simp only [triSum, muW]; linarith

/-- the exact value of an emitted (sorted) triangle of a clockwise ghost triple -/
theorem triExactQ_sq (terms : List (Nat × Nat × Rat)) {t : Q × Q × Q}
    (h : orient t.1 t.2.1 t.2.2 < 0) :
    triExactQ terms (triQ (GenOutIn.sq t)) = muW (omegaQ terms) t := by
  obtain ⟨a, b, c⟩ := t
  obtain ⟨h1, h2, h3, h4, h5, h6⟩ := triExactQ_perm terms h
  unfold GenOutIn.sq
  rcases Geo.sort3_cases (Fq a) (Fq b) (Fq c) with e | e | e | e | e | e <;> rw [e] <;>
    simp only [triQ, GenOutIn.toQ_Fq] <;> assumption


/-- the sum of the exact values over the output of the model is the signed weight of the sheared
    ring -/
theorem sum_exact_ring (polys : List (Array (Rat × Rat))) (h3 : ∀ p ∈ polys, 3 ≤ p.size)
    {ε : Rat} {Vε : Array (Vtx XQ)} (hSh : ShOK (ringOf polys) ε Vε)
    (terms : List (Nat × Nat × Rat)) :
    ∃ T, sweepMon (toInput polys) = .ok (T, true) ∧
      (T.map fun tr => triExactQ terms (triQ tr)).sum =
        areaW (shearRing ε (ringOf polys)) (omegaU terms ε) := by
  obtain ⟨Tg, hrun, hneg, hid⟩ := ghostV_of_shOK polys h3 hSh
  refine ⟨(Tg.map (sqU ε)).reverse, hrun, ?_⟩
  rw [← hid _ (omegaU_as terms ε), List.map_reverse, List.sum_reverse, List.map_map, muSum]
  congr 1
  apply List.map_congr_left
  intro t ht
  show triExactQ terms (triQ (sqU ε t)) = muW (omegaU terms ε) t
  rw [sqU_eq, triExactQ_sq terms (t := unshT ε t) (by
    show orient (unsh ε t.1) (unsh ε t.2.1) (unsh ε t.2.2) < 0
    rw [orient_unsh]; exact hneg t ht)]
  rfl

/-! ### the signed weight of a ring, polygon by polygon -/

section
variable {R : RingQ} {V : Array (Vtx XQ)}

/-- the two directions of one ring edge -/
theorem eAllW_pair (hR : RingOK R V) {w : W} (hw : AS w) {k : Nat} (hk : k < R.n) :
    eAllW R w k (R.nxt k) + eAllW R w (R.nxt k) k =
      walkSign R k * w (R.pt k) (R.pt (R.nxt k)) := by
  have hn := x_nxt_ne hR hk
  unfold eAllW walkSign eSignedW
  by_cases h : R.x k < R.x (R.nxt k)
  · rw [if_pos h, if_neg (not_lt.mpr (le_of_lt h)), if_pos h, add_zero]
  · have h' : R.x (R.nxt k) < R.x k := lt_of_le_of_ne (not_lt.mp h) hn
    rw [if_neg h, if_pos h', if_neg h, zero_add, hw (R.pt k)]
    by_cases ha : isLo R (R.nxt k) k
    · rw [if_pos ha, if_pos ha]; ring
    · rw [if_neg ha, if_neg ha]; ring

/-- `areaW` is the sum of `walkSign * w` over the walked ring edges -/
theorem areaW_walk (hR : RingOK R V) {w : W} (hw : AS w) :
    areaW R w = ((List.range R.n).map fun k =>
      walkSign R k * w (R.pt k) (R.pt (R.nxt k))).sum := by
  unfold areaW
  rw [sum_range_add (fun u => eAllW R w u (R.nxt u)) (fun u => eAllW R w u (R.prv u)) R.n,
    ← sum_range_perm (fun u => eAllW R w u (R.prv u)) R.nxt R.prv R.n hR.nxt_lt hR.prv_lt
      hR.prv_nxt hR.nxt_prv,
    ← sum_range_add]
  apply sum_range_congr
  intro k hk
  show eAllW R w k (R.nxt k) + eAllW R w (R.nxt k) (R.prv (R.nxt k)) = _
  rw [hR.prv_nxt k hk]
  exact eAllW_pair hR hw hk

end

/-- the sum of the weights of the edges of a polygon, in the order of the vertex list -/
def cycSum (w : W) (P : Array Q) : Rat :=
  ((List.range P.size).map fun i => w (P.getD i (0, 0)) (P.getD ((i + 1) % P.size) (0, 0))).sum

section
variable {polys : List (Array Q)}

theorem block_cycSum (h3 : ∀ p ∈ polys, 3 ≤ p.size)
    (hx : ((polys.flatMap Array.toList).map (·.1)).Nodup)
    (hc : ∀ v, v < (ringOf polys).n → Coh (ringOf polys) v) (w : W)
    {b : Nat} {P : Array Q} (h : (b, P) ∈ blocks 0 polys) {j : Nat} (hj : j < P.size) :
    ((List.range P.size).map fun i => walkSign (ringOf polys) (b + i) *
        w ((ringOf polys).pt (b + i)) ((ringOf polys).pt ((ringOf polys).nxt (b + i)))).sum =
      walkSign (ringOf polys) (b + j) * cycSum w P := by
  rw [cycSum, ← sum_range_mul_left]
  apply sum_range_congr
  intro i hi
  have hm : (i + 1) % P.size < P.size := Nat.mod_lt _ (by omega)
  rw [walkSign_block h3 hx hc h hi hj, block_nxt h hi, block_pt h hi, block_pt h hm]

theorem areaW_polys (h3 : ∀ p ∈ polys, 3 ≤ p.size)
    (hx : ((polys.flatMap Array.toList).map (·.1)).Nodup)
    (hc : ∀ v, v < (ringOf polys).n → Coh (ringOf polys) v) {w : W} (hw : AS w)
    (sel : Nat × Array Q → Nat) (hsel : ∀ bp ∈ blocks 0 polys, sel bp < bp.2.size) :
    areaW (ringOf polys) w = ((blocks 0 polys).map fun bp =>
      walkSign (ringOf polys) (bp.1 + sel bp) * cycSum w bp.2).sum := by
  rw [areaW_walk (ringOK polys h3 hx) hw,
    sum_blocks (fun k => walkSign (ringOf polys) k *
      w ((ringOf polys).pt k) ((ringOf polys).pt ((ringOf polys).nxt k))) polys]
  apply sum_map_congr
  intro bp hbp
  exact block_cycSum h3 hx hc w (b := bp.1) (P := bp.2) hbp (hsel bp hbp)

end

/-- a polygon of a valid set has non-zero shoelace area -/
theorem shoelace_ne_zero {polys : List (Array Q)} (hv : Cav.C04General.ValidSet polys) {P : Array Q}
    (hm : P ∈ polys) : shoelace P ≠ 0 := by
  intro h0
  have hv1 := GenOutSub.valid_single hv hm
  obtain ⟨T, -, hlen, hne, -, harea⟩ := Cav.C03General.general_output_full [P] hv1
  have h3P : 3 ≤ P.size := hv.1 P hm
  have hcnt : triCount [P] = if holeLike (ringOf [P]) 0 P then P.size + 2 else P.size - 2 := by
    simp [triCount, blocks]
  have hpos : 0 < T.length := by
    rw [hlen, hcnt]; split <;> omega
  have ha : evenOddArea2 [P] = 0 := by
    simp [evenOddArea2, evenOddSigned, blocks, h0]
  rw [ha] at harea
  cases T with
  | nil => simp at hpos
  | cons tr T =>
    have h1 : 0 < |orientPt tr.1 tr.2.1 tr.2.2| := abs_pos.mpr (hne tr List.mem_cons_self)
    have h2 : 0 ≤ Cav.C03General.absAreaSum T := Cav.C04Convex.areaSum_nonneg T
    have h3 : Cav.C03General.absAreaSum (tr :: T) =
        |orientPt tr.1 tr.2.1 tr.2.2| + Cav.C03General.absAreaSum T := by
      simp [Cav.C03General.absAreaSum]
    rw [h3] at harea
    linarith

/-- the sign of the walk through the leftmost vertex is the sign of the shoelace area -/
theorem ccw_sign {polys : List (Array Q)} (hv : Cav.C04General.ValidSet polys) {P : Array Q}
    (hm : P ∈ polys) :
    (if ccwAtLeft P then (1 : Rat) else -1) = if 0 < shoelace P then 1 else -1 := by
  have h := Cav.C03General.ccw_shoelace hv hm
  have hne := shoelace_ne_zero hv hm
  have habs : 0 < |shoelace P| := abs_pos.mpr hne
  by_cases hc : ccwAtLeft P
  · rw [if_pos hc] at h ⊢
    rw [one_mul] at h
    rw [if_pos (by rw [h]; exact habs)]
  · rw [if_neg hc] at h ⊢
    rw [if_neg (by intro hp; linarith)]

/-- **the signed weight of the vertex ring of a valid polygon set in general position**: every
    polygon contributes its boundary sum, walked counter-clockwise, with the sign `(-1)^depth` -/
theorem areaW_evenOdd (polys : List (Array Q)) (hv : Cav.C04General.ValidSet polys)
    (hcoh : ∀ v, v < (ringOf polys).n → Coh (ringOf polys) v) {w : W} (hw : AS w) :
    areaW (ringOf polys) w = ((blocks 0 polys).map fun bp =>
      (if holeLike (ringOf polys) bp.1 bp.2 then -1 else 1) *
        ((if 0 < shoelace bp.2 then 1 else -1) * cycSum w bp.2)).sum := by
  have hv' := hv
  obtain ⟨h3, hx, hA, hS⟩ := hv
  have hN := noCross_of (ringOK polys h3 hx) hA hS
  rw [areaW_polys h3 hx hcoh hw (fun bp => leftIdx bp.2) (by
    intro bp hbp
    exact leftIdx_lt (by have := h3 bp.2 (block_mem hbp); omega))]
  apply sum_map_congr
  rintro ⟨b, P⟩ hbp
  obtain ⟨hm, Cd, Cr, hb, hC⟩ := GenOutSub.blocks_decomp hbp
  subst hb
  have hlt : Cd.length + leftIdx P < (ringOf polys).n :=
    block_lt hbp (leftIdx_lt (by have := h3 P hm; omega))
  have hws := GenOutSub.walkSign_left h3 hx hN hC hm (hcoh _ hlt)
  simp only []
  rw [hws, ccw_sign hv' hm]
  unfold holeLike
  by_cases hlo : isLo (ringOf polys) (Cd.length + leftIdx P) (lowerNbr (ringOf polys) (Cd.length + leftIdx P))
  · simp only [hlo, if_true, not_true_eq_false, if_false]; ring
  · simp only [hlo, if_false, not_false_eq_true, if_true]; ring

/-! ### the region moment, defined from the polygons alone -/

/-- **the integral of the polynomial `terms` over the simple polygon `P`** by Green's formula: the
    boundary sum `Σ_k ∫_{P_k}^{P_{k+1}} F dy` (`F` the antiderivative in `x`) taken
    counter-clockwise (the sign of the shoelace area corrects the orientation of the vertex list) -/
def polyMoment (terms : List (Nat × Nat × Rat)) (P : Array Q) : Rat :=
  (if 0 < shoelace P then 1 else -1) * cycSum (omegaQ terms) P

/-- **the integral of the polynomial `terms` over the even-odd region of the polygon list**: outer
    polygons minus holes plus islands … (`holeLikeV`: parity of the nesting depth) -/
def regionMoment (terms : List (Nat × Nat × Rat)) (polys : List (Array Q)) : Rat :=
  ((blocks 0 polys).map fun bp =>
    (if holeLikeV (ringOf polys) bp.1 bp.2 then -1 else 1) * polyMoment terms bp.2).sum

theorem cycSum_shear (terms : List (Nat × Nat × Rat)) (ε : Rat) (P : Array Q) :
    cycSum (omegaU terms ε) (P.map (shear ε)) = cycSum (omegaQ terms) P := by
  unfold cycSum
  rw [Array.size_map]
  apply sum_range_congr
  intro i _
  rw [getD_map_shear, getD_map_shear]
  show omegaQ terms (unsh ε (shear ε _)) (unsh ε (shear ε _)) = _
  rw [unsh_shear, unsh_shear]

/-- the signed weight of the sheared ring for the transported edge weight is the region moment of
    the original polygon list -/
theorem areaW_shear (polys : List (Array Q)) (hv : ValidSetV polys) {ε : Rat} {Vε : Array (Vtx XQ)}
    (hSh : ShOK (ringOf polys) ε Vε)
    (hcoh : ∀ v, v < (ringOf polys).n → Coh (shearRing ε (ringOf polys)) v)
    (terms : List (Nat × Nat × Rat)) :
    areaW (shearRing ε (ringOf polys)) (omegaU terms ε) = regionMoment terms polys := by
  have hvε := Cav.C03GeneralV.validSet_shP hv hSh
  have hring := ringOf_shP ε polys
  have hcoh' : ∀ v, v < (ringOf (shP ε polys)).n → Coh (ringOf (shP ε polys)) v := by
    rw [hring]; exact hcoh
  have h := areaW_evenOdd (shP ε polys) hvε hcoh' (omegaU_as terms ε)
  rw [hring] at h
  rw [h, regionMoment, blocks_shP, List.map_map]
  apply sum_map_congr
  intro bp hbp
  have hbp' : (bp.1, bp.2) ∈ blocks 0 polys := hbp
  have h0 : 0 < bp.2.size := by have := hv.1 bp.2 (block_mem hbp'); omega
  show (if holeLike (shearRing ε (ringOf polys)) bp.1 (bp.2.map (shear ε)) then (-1 : Rat) else 1) *
      ((if 0 < shoelace (bp.2.map (shear ε)) then 1 else -1) *
        cycSum (omegaU terms ε) (bp.2.map (shear ε))) = _
  rw [shoelace_shear, cycSum_shear, if_congr (holeLike_shear hSh hbp' h0) rfl rfl]
  rfl

/-- **additivity of the exact values under the tiling by the sweep**: for every valid polygon set
    (holes, islands, vertical edges, …) the exact per-triangle integrals of a polynomial over the
    triangles of the sweep add up to the region moment, a quantity of the polygon list alone -/
theorem sum_exact_region (polys : List (Array Q)) (hv : ValidSetV polys)
    (terms : List (Nat × Nat × Rat)) :
    ∃ T, sweepMon (toInput polys) = .ok (T, true) ∧
      (T.map fun tr => triExactQ terms (triQ tr)).sum = regionMoment terms polys := by
  obtain ⟨ε, hSh⟩ := valid_shear polys hv
  obtain ⟨-, -, -, -, hcoh, -⟩ := Cav.C03GeneralV.general_output_V_geo polys hv hSh
  obtain ⟨T, hrun, hsum⟩ := sum_exact_ring polys hv.1 hSh terms
  exact ⟨T, hrun, by rw [hsum, areaW_shear polys hv hSh hcoh terms]⟩

/-! ### degree 0: the region moment of a constant is `k · area` -/

theorem omegaQ_const (k : Rat) (a b : Rat × Rat) :
    omegaQ [(0, 0, k)] a b = k * ((b.2 - a.2) * (a.1 + b.1) / 2) := by
  unfold omegaQ edgeInt
  rw [exactInt_eq_antiDeriv]
  simp [potTerms, edgePoly, linPow, polyMul, polyAdd, polyScale, polyMulX, antiDeriv, intAux,
    evalPoly_cons]
  ring

theorem succ_mod_perm (n : Nat) (hn : 0 < n) :
    (∀ i, i < n → (i + 1) % n < n) ∧ (∀ i, i < n → (i + n - 1) % n < n) ∧
    (∀ i, i < n → ((i + 1) % n + n - 1) % n = i) ∧ (∀ i, i < n → ((i + n - 1) % n + 1) % n = i) := by
  refine ⟨fun i _ => Nat.mod_lt _ hn, fun i _ => Nat.mod_lt _ hn, ?_, ?_⟩
  · intro i hi
    by_cases h : i + 1 < n
    · rw [Nat.mod_eq_of_lt h, show i + 1 + n - 1 = i + n by omega, Nat.add_mod_right,
        Nat.mod_eq_of_lt hi]
    · have : i + 1 = n := by omega
      rw [this, Nat.mod_self, Nat.zero_add, Nat.mod_eq_of_lt (by omega)]
      omega
  · intro i hi
    by_cases h : i = 0
    · subst h
      rw [Nat.zero_add, Nat.mod_eq_of_lt (show n - 1 < n by omega), show n - 1 + 1 = n by omega,
        Nat.mod_self]
    · rw [show i + n - 1 = (i - 1) + n by omega, Nat.add_mod_right,
        Nat.mod_eq_of_lt (show i - 1 < n by omega), show i - 1 + 1 = i by omega, Nat.mod_eq_of_lt hi]

theorem cycSum_const (k : Rat) (P : Array Q) :
    cycSum (omegaQ [(0, 0, k)]) P = k * (shoelace P / 2) := by
  by_cases hn : P.size = 0
  · simp [cycSum, shoelace, hn]
  have hn' : 0 < P.size := Nat.pos_of_ne_zero hn
  obtain ⟨p1, p2, p3, p4⟩ := succ_mod_perm P.size hn'
  have hperm := sum_range_perm (fun i => (P.getD i (0, 0)).1 * (P.getD i (0, 0)).2)
    (fun i => (i + 1) % P.size) (fun i => (i + P.size - 1) % P.size) P.size p1 p2 p3 p4
  rw [cycSum, shoelace_list]
  have e : ∀ i, omegaQ [(0, 0, k)] (P.getD i (0, 0)) (P.getD ((i + 1) % P.size) (0, 0)) =
      k / 2 * cross (P.getD i (0, 0)) (P.getD ((i + 1) % P.size) (0, 0)) +
        (k / 2 * ((P.getD ((i + 1) % P.size) (0, 0)).1 * (P.getD ((i + 1) % P.size) (0, 0)).2) +
          (- (k / 2)) * ((P.getD i (0, 0)).1 * (P.getD i (0, 0)).2)) := by
    intro i
    rw [omegaQ_const]
    unfold cross
    ring
  simp only [e]
  rw [sum_range_add, sum_range_add, sum_range_mul_left, sum_range_mul_left, sum_range_mul_left,
    hperm]
  ring

theorem polyMoment_const (k : Rat) (P : Array Q) :
    polyMoment [(0, 0, k)] P = k * (|shoelace P| / 2) := by
  rw [polyMoment, cycSum_const]
  by_cases h : 0 < shoelace P
  · rw [if_pos h, abs_of_pos h]; ring
  · rw [if_neg h, abs_of_nonpos (not_lt.mp h)]; ring

/-- **degree 0**: the region moment of the constant `k` is `k` times the (signed even-odd) area -/
theorem regionMoment_const (k : Rat) (polys : List (Array Q)) :
    regionMoment [(0, 0, k)] polys = k * (evenOddSignedV polys / 2) := by
  unfold regionMoment evenOddSignedV
  induction blocks 0 polys with
  | nil => simp
  | cons bp l ih =>
    rw [List.map_cons, List.sum_cons, List.map_cons, List.sum_cons, ih, polyMoment_const]
    ring

/-! ### degree ≤ 1: the edge weight in closed form (area and first moments) -/

theorem omegaQ_affine (p q r : Rat) (a b : Rat × Rat) :
    omegaQ (affTerms p q r) a b = (b.2 - a.2) * (p * ((a.1 + b.1) / 2) +
      q * ((a.1 ^ 2 + a.1 * b.1 + b.1 ^ 2) / 6) +
      r * ((2 * a.1 * a.2 + a.1 * b.2 + b.1 * a.2 + 2 * b.1 * b.2) / 6)) := by
  unfold omegaQ edgeInt
  rw [exactInt_eq_antiDeriv]
  congr 1
  simp [affTerms, potTerms, edgePoly, linPow, polyMul, polyAdd, polyScale, polyMulX, antiDeriv, intAux,
    evalPoly_cons]
  ring

end Cav.Acc3G
