/-
  Generic list / `Except` helpers for the display theorems (C07, C11–C14):

  * `mapE`, `bindListE`: the two accumulator loops (`pieces`, `ivs`) of `gen_display_cav` and
    `gen_display_rs` are these two combinators (`Disp2D.lean` proves that);
  * `ChainG`: "consecutive intervals from `a` to `b`" for an arbitrary carrier type
    (`C02.IsChain` is the same notion specialised to `Rat`);
  * `chainPairs` of a list `a :: mid ++ [b]` is such a chain.

  Nothing here uses a law of arithmetic.
-/
import Cav.Model.Disp2D

namespace Cav.DispL
open Cav

universe u
variable {ε β γ : Type}

/-- pointwise relation between two lists (core Lean has no `Forall2`) -/
inductive Forall2 (R : β → γ → Prop) : List β → List γ → Prop
  | nil : Forall2 R [] []
  | cons {a b l r} : R a b → Forall2 R l r → Forall2 R (a :: l) (b :: r)

theorem Forall2.length_eq {R : β → γ → Prop} {l : List β} {r : List γ} (h : Forall2 R l r) :
    l.length = r.length := by
  induction h with
  | nil => rfl
  | cons _ _ ih => simp [ih]

theorem Forall2.get {R : β → γ → Prop} {l : List β} {r : List γ} (h : Forall2 R l r) :
    ∀ i (hi : i < l.length) (hj : i < r.length), R l[i] r[i] := by
  induction h with
  | nil => intro i hi; simp at hi
  | cons h1 _ ih =>
    intro i hi hj
    cases i with
    | zero => exact h1
    | succ j => exact ih j (by simpa using hi) (by simpa using hj)

/-- sequential map with early exit (`?` in a `for` loop pushing to a vector) -/
def mapE (h : β → Except ε γ) : List β → Except ε (List γ)
  | [] => .ok []
  | x :: xs =>
    match h x with
    | .error e => .error e
    | .ok y =>
      match mapE h xs with
      | .error e => .error e
      | .ok ys => .ok (y :: ys)

/-- sequential flat-map with early exit -/
def bindListE (h : β → Except ε (List γ)) : List β → Except ε (List γ)
  | [] => .ok []
  | x :: xs =>
    match h x with
    | .error e => .error e
    | .ok y =>
      match bindListE h xs with
      | .error e => .error e
      | .ok ys => .ok (y ++ ys)

/-- prepend an accumulator to a successful result -/
def prependE (acc : List γ) : Except ε (List γ) → Except ε (List γ)
  | .error e => .error e
  | .ok r => .ok (acc ++ r)

@[simp] theorem prependE_ok (acc r : List γ) : prependE (ε := ε) acc (.ok r) = .ok (acc ++ r) := rfl
@[simp] theorem prependE_error (acc : List γ) (e : ε) : prependE acc (.error e) = .error e := rfl

theorem prependE_nil (r : Except ε (List γ)) : prependE [] r = r := by
  cases r <;> simp [prependE]

theorem prependE_prependE (a b : List γ) (r : Except ε (List γ)) :
    prependE a (prependE b r) = prependE (a ++ b) r := by
  cases r <;> simp [prependE]

theorem mapE_ok_iff (h : β → Except ε γ) (l : List β) (r : List γ) :
    mapE h l = .ok r ↔ Forall2 (fun x y => h x = .ok y) l r := by
  induction l generalizing r with
  | nil =>
    cases r with
    | nil => simp only [mapE, true_iff]; exact Forall2.nil
    | cons y ys =>
      simp only [mapE]
      constructor
      · intro h'; cases h'
      · intro h'; cases h'
  | cons x xs ih =>
    unfold mapE
    cases hx : h x with
    | error e =>
      simp only []
      constructor
      · intro h'; cases h'
      · intro h'
        cases h' with
        | cons h1 _ => rw [hx] at h1; cases h1
    | ok y =>
      simp only []
      cases hxs : mapE h xs with
      | error e =>
        simp only []
        constructor
        · intro h'; cases h'
        · intro h'
          cases h' with
          | cons h1 h2 => rw [(ih _).mpr h2] at hxs; cases hxs
      | ok ys =>
        simp only []
        constructor
        · intro h'
          cases h'
          exact Forall2.cons hx ((ih _).mp hxs)
        · intro h'
          cases h' with
          | cons h1 h2 =>
            rw [hx] at h1
            cases h1
            have := (ih _).mpr h2
            rw [hxs] at this
            cases this
            rfl

theorem mapE_cons_err1 {h : β → Except ε γ} {x : β} {xs : List β} {e : ε}
    (h1 : h x = .error e) : mapE h (x :: xs) = .error e := by
  simp [mapE, h1]

theorem mapE_cons_err2 {h : β → Except ε γ} {x : β} {xs : List β} {y : γ} {e : ε}
    (h1 : h x = .ok y) (h2 : mapE h xs = .error e) : mapE h (x :: xs) = .error e := by
  simp [mapE, h1, h2]

theorem mapE_cons_of_ok {h : β → Except ε γ} {x : β} {xs : List β} {y : γ} {ys : List γ}
    (h1 : h x = .ok y) (h2 : mapE h xs = .ok ys) : mapE h (x :: xs) = .ok (y :: ys) := by
  simp [mapE, h1, h2]

theorem mapE_length {h : β → Except ε γ} {l : List β} {r : List γ} (hr : mapE h l = .ok r) :
    r.length = l.length :=
  ((mapE_ok_iff h l r).mp hr).length_eq.symm

theorem mapE_mem {h : β → Except ε γ} {l : List β} {r : List γ} (hr : mapE h l = .ok r)
    {y : γ} (hy : y ∈ r) : ∃ x ∈ l, h x = .ok y := by
  have hf := (mapE_ok_iff h l r).mp hr
  clear hr
  induction hf with
  | nil => cases hy
  | cons h1 _ ih =>
    rcases List.mem_cons.mp hy with rfl | hy'
    · exact ⟨_, List.mem_cons_self, h1⟩
    · obtain ⟨x, hx, hxy⟩ := ih hy'
      exact ⟨x, List.mem_cons_of_mem _ hx, hxy⟩

/-- if every successful `h x = ok y` satisfies `p y = q x` then the mapped result is `l.map q` -/
theorem mapE_map_eq {δ : Type} {h : β → Except ε γ} {l : List β} {r : List γ}
    (hr : mapE h l = .ok r) (p : γ → δ) (q : β → δ)
    (hpq : ∀ x y, h x = .ok y → p y = q x) : r.map p = l.map q := by
  have hf := (mapE_ok_iff h l r).mp hr
  clear hr
  induction hf with
  | nil => rfl
  | cons h1 _ ih => simp [hpq _ _ h1, ih]

theorem bindListE_cons_ok {h : β → Except ε (List γ)} {x : β} {xs : List β} {r : List γ}
    (hr : bindListE h (x :: xs) = .ok r) :
    ∃ r1 r2, h x = .ok r1 ∧ bindListE h xs = .ok r2 ∧ r = r1 ++ r2 := by
  unfold bindListE at hr
  cases hx : h x with
  | error e => rw [hx] at hr; cases hr
  | ok r1 =>
    rw [hx] at hr
    simp only [] at hr
    cases hxs : bindListE h xs with
    | error e => rw [hxs] at hr; cases hr
    | ok r2 =>
      rw [hxs] at hr
      cases hr
      exact ⟨r1, r2, rfl, rfl, rfl⟩

theorem bindListE_cons_of_ok {h : β → Except ε (List γ)} {x : β} {xs : List β} {r1 r2 : List γ}
    (h1 : h x = .ok r1) (h2 : bindListE h xs = .ok r2) :
    bindListE h (x :: xs) = .ok (r1 ++ r2) := by
  simp [bindListE, h1, h2]

theorem bindListE_cons_err1 {h : β → Except ε (List γ)} {x : β} {xs : List β} {e : ε}
    (h1 : h x = .error e) : bindListE h (x :: xs) = .error e := by
  simp [bindListE, h1]

theorem bindListE_cons_err2 {h : β → Except ε (List γ)} {x : β} {xs : List β} {r1 : List γ} {e : ε}
    (h1 : h x = .ok r1) (h2 : bindListE h xs = .error e) : bindListE h (x :: xs) = .error e := by
  simp [bindListE, h1, h2]

theorem bindListE_singleton (h : β → Except ε (List γ)) (x : β) : bindListE h [x] = h x := by
  unfold bindListE
  cases h x <;> simp [bindListE]

/-- several inputs are handled independently: success on both parts gives the concatenation -/
theorem bindListE_append {h : β → Except ε (List γ)} {l1 l2 : List β} {r1 r2 : List γ}
    (h1 : bindListE h l1 = .ok r1) (h2 : bindListE h l2 = .ok r2) :
    bindListE h (l1 ++ l2) = .ok (r1 ++ r2) := by
  induction l1 generalizing r1 with
  | nil => simp [bindListE] at h1; subst h1; simpa using h2
  | cons x xs ih =>
    obtain ⟨ra, rb, hx, hxs, rfl⟩ := bindListE_cons_ok h1
    rw [List.cons_append, bindListE_cons_of_ok hx (ih hxs), List.append_assoc]

/-- conversely a successful run on `l1 ++ l2` splits into successful runs on the parts -/
theorem bindListE_append_ok {h : β → Except ε (List γ)} {l1 l2 : List β} {r : List γ}
    (hr : bindListE h (l1 ++ l2) = .ok r) :
    ∃ r1 r2, bindListE h l1 = .ok r1 ∧ bindListE h l2 = .ok r2 ∧ r = r1 ++ r2 := by
  induction l1 generalizing r with
  | nil => exact ⟨[], r, rfl, by simpa using hr, rfl⟩
  | cons x xs ih =>
    rw [List.cons_append] at hr
    obtain ⟨ra, rb, hx, hxs, rfl⟩ := bindListE_cons_ok hr
    obtain ⟨r1, r2, h1, h2, rfl⟩ := ih hxs
    exact ⟨ra ++ r1, r2, bindListE_cons_of_ok hx h1, h2, by simp⟩

theorem bindListE_mem {h : β → Except ε (List γ)} {l : List β} {r : List γ}
    (hr : bindListE h l = .ok r) {y : γ} (hy : y ∈ r) : ∃ x ∈ l, ∃ rx, h x = .ok rx ∧ y ∈ rx := by
  induction l generalizing r with
  | nil => simp [bindListE] at hr; subst hr; cases hy
  | cons x xs ih =>
    obtain ⟨ra, rb, hx, hxs, rfl⟩ := bindListE_cons_ok hr
    rcases List.mem_append.mp hy with hy' | hy'
    · exact ⟨x, List.mem_cons_self, ra, hx, hy'⟩
    · obtain ⟨x', hx', rx, hrx, hyx⟩ := ih hxs hy'
      exact ⟨x', List.mem_cons_of_mem _ hx', rx, hrx, hyx⟩

/-! ### chains over an arbitrary carrier -/

/-- `L` is a non-empty list of consecutive intervals from `a` to `b`
    (first piece starts at `a`, last ends at `b`, consecutive pieces share their end point) -/
def ChainG {α : Type} : α → α → List (α × α) → Prop
  | _, _, [] => False
  | a, b, [p] => p.1 = a ∧ p.2 = b
  | a, b, p :: q :: rest => p.1 = a ∧ ChainG p.2 b (q :: rest)

theorem ChainG.ne_nil {α : Type} {a b : α} {L : List (α × α)} (h : ChainG a b L) : L ≠ [] := by
  rintro rfl; exact h

theorem ChainG.head {α : Type} {a b : α} {L : List (α × α)} (h : ChainG a b L) :
    L.head?.map (·.1) = some a := by
  match L, h with
  | [p], h => simp [h.1]
  | p :: q :: rest, h => simp [h.1]

theorem ChainG.last {α : Type} {a b : α} {L : List (α × α)} (h : ChainG a b L) :
    L.getLast?.map (·.2) = some b := by
  induction L generalizing a with
  | nil => exact absurd h (by simp [ChainG])
  | cons p rest ih =>
    cases rest with
    | nil => simp [h.2]
    | cons q rest' =>
      have := ih h.2
      simpa [List.getLast?_cons_cons] using this

/-- consecutive pieces share their end point -/
theorem ChainG.consecutive {α : Type} {a b : α} {L : List (α × α)} (h : ChainG a b L) :
    ∀ i, (hi : i + 1 < L.length) → (L[i]'(Nat.lt_of_succ_lt hi)).2 = (L[i + 1]'hi).1 := by
  induction L generalizing a with
  | nil => intro i hi; simp at hi
  | cons p rest ih =>
    cases rest with
    | nil => intro i hi; simp at hi
    | cons q rest' =>
      intro i hi
      cases i with
      | zero =>
        have h2 := h.2
        cases rest' with
        | nil => exact h2.1.symm
        | cons _ _ => exact h2.1.symm
      | succ j =>
        have := ih h.2 j (by simpa using hi)
        simpa using this

theorem chainPairs_chainG {α : Type} (a b : α) (mid : List α) :
    ChainG a b (chainPairs (a :: mid ++ [b])) := by
  induction mid generalizing a with
  | nil => simp [chainPairs, ChainG]
  | cons m rest ih =>
    have h := ih m
    cases rest with
    | nil =>
      simp only [List.cons_append, List.nil_append, chainPairs, ChainG] at h ⊢
      simp
    | cons m' rest' =>
      simp only [List.cons_append, chainPairs] at h ⊢
      exact ⟨rfl, h⟩

theorem chainPairs_length {α : Type} (a b : α) (mid : List α) :
    (chainPairs (a :: mid ++ [b])).length = mid.length + 1 := by
  induction mid generalizing a with
  | nil => simp [chainPairs]
  | cons m rest ih =>
    have h := ih m
    simp only [List.cons_append, chainPairs, List.length_cons] at h ⊢
    omega

end Cav.DispL
