/-
  The body of `parseTerm` as non-recursive combinators, one-step unfolding equations for the
  seven mutually recursive parser functions, and FUEL MONOTONICITY: once a call does not run
  out of fuel, one more unit of fuel (hence any larger amount) gives the same result.
-/
import Cav.Model.Parse

namespace Cav.ParseLemmas
open Cav

/-! ### non-recursive bodies -/

/-- the `or_else` chain of `parse_term`, abstracted over the two recursive alternatives -/
def atomB (P F : List Char → R E) (ctx : Ctx) (s1 : List Char) : R E :=
  match P s1 with
  | .ok r t => .ok r t
  | .oof => .oof
  | .fail =>
    match parseConst s1 with
    | some (r, t) => .ok r t
    | none =>
      match F s1 with
      | .ok r t => .ok r t
      | .oof => .oof
      | .fail => parseVar ctx s1

/-- the exponent part of `parse_term`, abstracted over the recursive call -/
def powB (T : List Char → R E) (rest : List Char) (base : E) : R E :=
  match rest with
  | '^' :: r1 =>
    match T r1 with
    | .ok r2 ex => .ok r2 (.bin .pow base ex)
    | .oof => .oof
    | .fail => .ok rest base
  | '*' :: '*' :: r1 =>
    match lexI32 r1 with
    | some (r2, n) => .ok r2 (.powi base n)
    | none => .ok rest base
  | _ => .ok rest base

/-- atom followed by optional exponent -/
def powTermB (A : List Char → R E) (Pw : List Char → E → R E) (s1 : List Char) : R E :=
  match A s1 with
  | .fail => .fail
  | .oof => .oof
  | .ok rest base => Pw rest base

/-- `parse_term` over an abstract "power term" parser -/
def termB (Q : List Char → R E) (s : List Char) (allowNeg : Bool) : R E :=
  if !((negCount s).1 == 0 || (allowNeg && (negCount s).1 == 1)) then .fail
  else
    match Q (negCount s).2 with
    | .ok r t => if (negCount s).1 == 1 then .ok r (.un .neg t) else .ok r t
    | .fail => .fail
    | .oof => .oof

/-- the closing parenthesis of a function call -/
def funcClose (name : List Char) (x : R E) : R E :=
  match x with
  | .ok (')' :: r2) t =>
    .ok r2 (.un ((UFn.ofName (String.ofList name)).getD (.user (String.ofList name))) t)
  | .ok _ _ => .fail
  | .fail => .fail
  | .oof => .oof

/-- the argument of a function call -/
def funcArg (X : List Char → R E) (name r : List Char) : R E :=
  match r with
  | '(' :: r1 => funcClose name (X r1)
  | _ => .fail

/-- `parse_func` after `alpha1` -/
def funcNamed (X : List Char → R E) (ctx : Ctx) (name r : List Char) : R E :=
  match ctx.get (String.ofList name) with
  | some .uop => funcArg X name r
  | _ => .fail

/-- `parse_func` over an abstract expression parser -/
def funcB (X : List Char → R E) (ctx : Ctx) (s : List Char) : R E :=
  match alpha1 s with
  | none => .fail
  | some (name, r) => funcNamed X ctx name r

/-- the atom alternatives at fuel `f` -/
def atomF (f : Nat) (ctx : Ctx) : List Char → R E :=
  atomB (parseParenth f ctx) (parseFunc f ctx) ctx

/-- atom plus exponent at fuel `f` -/
def powF (f : Nat) (ctx : Ctx) : List Char → R E :=
  powTermB (atomF f ctx) (powB (fun r => parseTerm f ctx r true))

/-! ### one-step unfolding -/

theorem parseExpr_zero (ctx : Ctx) (s : List Char) : parseExpr 0 ctx s = .oof := rfl
theorem loopAdd_zero (ctx : Ctx) (s : List Char) (a : E) : loopAdd 0 ctx s a = .oof := rfl
theorem parseMul_zero (ctx : Ctx) (s : List Char) (a : Bool) : parseMul 0 ctx s a = .oof := rfl
theorem loopMul_zero (ctx : Ctx) (s : List Char) (a : E) : loopMul 0 ctx s a = .oof := rfl
theorem parseTerm_zero (ctx : Ctx) (s : List Char) (a : Bool) : parseTerm 0 ctx s a = .oof := rfl
theorem parseParenth_zero (ctx : Ctx) (s : List Char) : parseParenth 0 ctx s = .oof := rfl
theorem parseFunc_zero (ctx : Ctx) (s : List Char) : parseFunc 0 ctx s = .oof := rfl

theorem parseExpr_succ (f : Nat) (ctx : Ctx) (s : List Char) :
    parseExpr (f + 1) ctx s =
      match parseMul f ctx s true with
      | .ok rest t => loopAdd f ctx rest t
      | .fail => .fail
      | .oof => .oof := rfl

theorem loopAdd_succ (f : Nat) (ctx : Ctx) (s : List Char) (acc : E) :
    loopAdd (f + 1) ctx s acc =
      match s with
      | '+' :: rest =>
        match parseMul f ctx rest false with
        | .ok rest' t => loopAdd f ctx rest' (.bin .add acc t)
        | .fail => .fail
        | .oof => .oof
      | '-' :: rest =>
        match parseMul f ctx rest false with
        | .ok rest' t => loopAdd f ctx rest' (.bin .sub acc t)
        | .fail => .fail
        | .oof => .oof
      | _ => .ok s acc := rfl

theorem parseMul_succ (f : Nat) (ctx : Ctx) (s : List Char) (a : Bool) :
    parseMul (f + 1) ctx s a =
      match parseTerm f ctx s a with
      | .ok rest t => loopMul f ctx rest t
      | .fail => .fail
      | .oof => .oof := rfl

theorem loopMul_succ (f : Nat) (ctx : Ctx) (s : List Char) (acc : E) :
    loopMul (f + 1) ctx s acc =
      match s with
      | '*' :: rest =>
        match parseTerm f ctx rest true with
        | .ok rest' t => loopMul f ctx rest' (.bin .mul acc t)
        | .fail => .fail
        | .oof => .oof
      | '/' :: rest =>
        match parseTerm f ctx rest true with
        | .ok rest' t => loopMul f ctx rest' (.bin .div acc t)
        | .fail => .fail
        | .oof => .oof
      | _ => .ok s acc := rfl

theorem parseParenth_succ (f : Nat) (ctx : Ctx) (s : List Char) :
    parseParenth (f + 1) ctx s =
      match s with
      | '(' :: r =>
        match parseExpr f ctx r with
        | .ok (')' :: r2) t => .ok r2 t
        | .ok _ _ => .fail
        | .fail => .fail
        | .oof => .oof
      | _ => .fail := rfl

theorem parseFunc_succ (f : Nat) (ctx : Ctx) (s : List Char) :
    parseFunc (f + 1) ctx s =
      match alpha1 s with
      | none => .fail
      | some (name, r) =>
        match ctx.get (String.ofList name) with
        | some .uop =>
          match r with
          | '(' :: r1 =>
            match parseExpr f ctx r1 with
            | .ok (')' :: r2) t =>
              .ok r2 (.un ((UFn.ofName (String.ofList name)).getD (.user (String.ofList name))) t)
            | .ok _ _ => .fail
            | .fail => .fail
            | .oof => .oof
          | _ => .fail
        | _ => .fail := rfl

/-- whether a string starts with a given character -/
theorem head_case (a : Char) (s : List Char) : (∃ r, s = a :: r) ∨ (∀ r, s ≠ a :: r) := by
  cases s with
  | nil => right; intro _ h; cases h
  | cons c r =>
    by_cases h1 : c = a
    · left; exact ⟨r, by rw [h1]⟩
    · right; intro _ h; exact h1 (List.cons.inj h).1

/-- which of two given characters a string starts with, if any -/
theorem head_cases (a b : Char) (s : List Char) :
    (∃ r, s = a :: r) ∨ (∃ r, s = b :: r) ∨ ((∀ r, s ≠ a :: r) ∧ (∀ r, s ≠ b :: r)) := by
  rcases head_case a s with h | h
  · exact Or.inl h
  · rcases head_case b s with h' | h'
    · exact Or.inr (Or.inl h')
    · exact Or.inr (Or.inr ⟨h, h'⟩)

theorem loopAdd_plus (f : Nat) (ctx : Ctx) (rest : List Char) (acc : E) :
    loopAdd (f + 1) ctx ('+' :: rest) acc =
      match parseMul f ctx rest false with
      | .ok rest' t => loopAdd f ctx rest' (.bin .add acc t)
      | .fail => .fail
      | .oof => .oof := rfl

theorem loopAdd_minus (f : Nat) (ctx : Ctx) (rest : List Char) (acc : E) :
    loopAdd (f + 1) ctx ('-' :: rest) acc =
      match parseMul f ctx rest false with
      | .ok rest' t => loopAdd f ctx rest' (.bin .sub acc t)
      | .fail => .fail
      | .oof => .oof := rfl

theorem loopAdd_stop (f : Nat) (ctx : Ctx) (s : List Char) (acc : E)
    (h1 : ∀ r, s ≠ '+' :: r) (h2 : ∀ r, s ≠ '-' :: r) :
    loopAdd (f + 1) ctx s acc = .ok s acc := by
  rw [loopAdd_succ]
  split
  · exact absurd rfl (h1 _)
  · exact absurd rfl (h2 _)
  · rfl

theorem loopMul_star (f : Nat) (ctx : Ctx) (rest : List Char) (acc : E) :
    loopMul (f + 1) ctx ('*' :: rest) acc =
      match parseTerm f ctx rest true with
      | .ok rest' t => loopMul f ctx rest' (.bin .mul acc t)
      | .fail => .fail
      | .oof => .oof := rfl

theorem loopMul_slash (f : Nat) (ctx : Ctx) (rest : List Char) (acc : E) :
    loopMul (f + 1) ctx ('/' :: rest) acc =
      match parseTerm f ctx rest true with
      | .ok rest' t => loopMul f ctx rest' (.bin .div acc t)
      | .fail => .fail
      | .oof => .oof := rfl

theorem loopMul_stop (f : Nat) (ctx : Ctx) (s : List Char) (acc : E)
    (h1 : ∀ r, s ≠ '*' :: r) (h2 : ∀ r, s ≠ '/' :: r) :
    loopMul (f + 1) ctx s acc = .ok s acc := by
  rw [loopMul_succ]
  split
  · exact absurd rfl (h1 _)
  · exact absurd rfl (h2 _)
  · rfl

theorem parseParenth_open (f : Nat) (ctx : Ctx) (r : List Char) :
    parseParenth (f + 1) ctx ('(' :: r) =
      match parseExpr f ctx r with
      | .ok (')' :: r2) t => .ok r2 t
      | .ok _ _ => .fail
      | .fail => .fail
      | .oof => .oof := rfl

theorem parseParenth_other (f : Nat) (ctx : Ctx) (s : List Char) (h : ∀ r, s ≠ '(' :: r) :
    parseParenth (f + 1) ctx s = .fail := by
  rw [parseParenth_succ]
  split
  · exact absurd rfl (h _)
  · rfl

theorem powB_caret (T : List Char → R E) (r1 : List Char) (base : E) :
    powB T ('^' :: r1) base =
      match T r1 with
      | .ok r2 ex => .ok r2 (.bin .pow base ex)
      | .oof => .oof
      | .fail => .ok ('^' :: r1) base := rfl

theorem powB_starstar (T : List Char → R E) (r1 : List Char) (base : E) :
    powB T ('*' :: '*' :: r1) base =
      match lexI32 r1 with
      | some (r2, n) => .ok r2 (.powi base n)
      | none => .ok ('*' :: '*' :: r1) base := rfl

theorem powB_other (T : List Char → R E) (rest : List Char) (base : E)
    (h1 : ∀ r, rest ≠ '^' :: r) (h2 : ∀ r, rest ≠ '*' :: '*' :: r) :
    powB T rest base = .ok rest base := by
  unfold powB
  split
  · exact absurd rfl (h1 _)
  · exact absurd rfl (h2 _)
  · rfl

theorem parseFunc_succ' (f : Nat) (ctx : Ctx) (s : List Char) :
    parseFunc (f + 1) ctx s = funcB (parseExpr f ctx) ctx s := rfl

/-- `parse_term` with the control flow of the model, over abstract atom / exponent parsers -/
def termB0 (A : List Char → R E) (Pw : List Char → E → R E) (s : List Char) (allowNeg : Bool) : R E :=
  if !((negCount s).1 == 0 || (allowNeg && (negCount s).1 == 1)) then .fail
  else
    match A (negCount s).2 with
    | .fail => .fail
    | .oof => .oof
    | .ok rest base =>
      match Pw rest base with
      | .ok r t => if (negCount s).1 == 1 then .ok r (.un .neg t) else .ok r t
      | .fail => .fail
      | .oof => .oof

theorem parseTerm_succ0 (f : Nat) (ctx : Ctx) (s : List Char) (a : Bool) :
    parseTerm (f + 1) ctx s a = termB0 (atomF f ctx) (powB (fun r => parseTerm f ctx r true)) s a := rfl

theorem termB0_eq (A : List Char → R E) (Pw : List Char → E → R E) (s : List Char) (a : Bool) :
    termB0 A Pw s a = termB (powTermB A Pw) s a := by
  unfold termB0 termB powTermB
  split
  · rfl
  · cases A (negCount s).2 <;> rfl

theorem parseTerm_succ (f : Nat) (ctx : Ctx) (s : List Char) (a : Bool) :
    parseTerm (f + 1) ctx s a = termB (powF f ctx) s a := by
  rw [parseTerm_succ0, termB0_eq]; rfl

/-! ### fuel monotonicity -/

/-- information order on results: `oof` is below everything -/
def Le {β : Type} (a b : R β) : Prop := a ≠ .oof → b = a

theorem Le.of_eq {β : Type} {a b : R β} (h : b = a) : Le a b := fun _ => h

theorem atomB_mono {P P' F F' : List Char → R E} (ctx : Ctx)
    (hP : ∀ s, Le (P s) (P' s)) (hF : ∀ s, Le (F s) (F' s)) (s : List Char) :
    Le (atomB P F ctx s) (atomB P' F' ctx s) := by
  intro h
  unfold atomB at h ⊢
  have hp := hP s
  cases hps : P s with
  | oof => rw [hps] at h; exact absurd rfl h
  | ok r t => rw [hps] at hp; rw [hp (by simp)]
  | fail =>
    rw [hps] at hp h; rw [hp (by simp)]
    cases hl : parseConst s with
    | some v => rfl
    | none =>
      rw [hl] at h
      have hf := hF s
      cases hfs : F s with
      | oof => rw [hfs] at h; exact absurd rfl h
      | ok r t => rw [hfs] at hf; rw [hf (by simp)]
      | fail => rw [hfs] at hf; rw [hf (by simp)]

theorem powB_mono {T T' : List Char → R E} (hT : ∀ s, Le (T s) (T' s)) (rest : List Char) (base : E) :
    Le (powB T rest base) (powB T' rest base) := by
  intro h
  rcases head_case '^' rest with ⟨r1, rfl⟩ | h1
  · rw [powB_caret] at h ⊢; rw [powB_caret]
    have ht := hT r1
    cases hts : T r1 with
    | oof => rw [hts] at h; exact absurd rfl h
    | ok r t => rw [hts] at ht; rw [ht (by simp)]
    | fail => rw [hts] at ht; rw [ht (by simp)]
  · unfold powB
    split
    · exact absurd rfl (h1 _)
    · rfl
    · rfl

theorem funcArg_open (X : List Char → R E) (name r1 : List Char) :
    funcArg X name ('(' :: r1) = funcClose name (X r1) := rfl

theorem funcArg_other (X : List Char → R E) (name r : List Char) (h : ∀ r1, r ≠ '(' :: r1) :
    funcArg X name r = .fail := by
  unfold funcArg
  split
  · exact absurd rfl (h _)
  · rfl

theorem funcClose_mono (name : List Char) {x x' : R E} (h : Le x x') :
    Le (funcClose name x) (funcClose name x') := by
  intro hne
  cases x with
  | oof => exact absurd rfl hne
  | fail => rw [h (by simp)]
  | ok r t => rw [h (by simp)]

theorem funcB_mono {X X' : List Char → R E} (ctx : Ctx) (hX : ∀ s, Le (X s) (X' s)) (s : List Char) :
    Le (funcB X ctx s) (funcB X' ctx s) := by
  unfold funcB
  cases alpha1 s with
  | none => exact Le.of_eq rfl
  | some p =>
    obtain ⟨name, r⟩ := p
    show Le (funcNamed X ctx name r) (funcNamed X' ctx name r)
    unfold funcNamed
    split
    · rcases head_case '(' r with ⟨r1, rfl⟩ | h1
      · rw [funcArg_open, funcArg_open]
        exact funcClose_mono name (hX r1)
      · rw [funcArg_other _ _ _ h1, funcArg_other _ _ _ h1]; exact Le.of_eq rfl
    · exact Le.of_eq rfl

theorem powTermB_mono {A A' : List Char → R E} {Pw Pw' : List Char → E → R E}
    (hA : ∀ s, Le (A s) (A' s)) (hPw : ∀ r b, Le (Pw r b) (Pw' r b)) (s : List Char) :
    Le (powTermB A Pw s) (powTermB A' Pw' s) := by
  intro h
  unfold powTermB at h ⊢
  have ha := hA s
  cases has : A s with
  | oof => rw [has] at h; exact absurd rfl h
  | fail => rw [has] at ha; rw [ha (by simp)]
  | ok r t =>
    rw [has] at ha h; rw [ha (by simp)]
    exact hPw r t h

theorem termB_mono {Q Q' : List Char → R E} (hQ : ∀ s, Le (Q s) (Q' s)) (s : List Char) (a : Bool) :
    Le (termB Q s a) (termB Q' s a) := by
  intro h
  unfold termB at h ⊢
  split
  · rfl
  · rename_i hc
    rw [if_neg hc] at h
    have hq := hQ (negCount s).2
    cases hqs : Q (negCount s).2 with
    | oof => rw [hqs] at h; exact absurd rfl h
    | fail => rw [hqs] at hq; rw [hq (by simp)]
    | ok r t => rw [hqs] at hq; rw [hq (by simp)]

/-- all seven functions are monotone in the fuel (one step) -/
theorem mono_step (ctx : Ctx) : ∀ f : Nat,
    (∀ s, Le (parseExpr f ctx s) (parseExpr (f + 1) ctx s)) ∧
    (∀ s a, Le (loopAdd f ctx s a) (loopAdd (f + 1) ctx s a)) ∧
    (∀ s a, Le (parseMul f ctx s a) (parseMul (f + 1) ctx s a)) ∧
    (∀ s a, Le (loopMul f ctx s a) (loopMul (f + 1) ctx s a)) ∧
    (∀ s a, Le (parseTerm f ctx s a) (parseTerm (f + 1) ctx s a)) ∧
    (∀ s, Le (parseParenth f ctx s) (parseParenth (f + 1) ctx s)) ∧
    (∀ s, Le (parseFunc f ctx s) (parseFunc (f + 1) ctx s)) := by
  intro f
  induction f with
  | zero =>
    refine ⟨?_, ?_, ?_, ?_, ?_, ?_, ?_⟩ <;> intros <;> intro h <;> exact absurd rfl h
  | succ f ih =>
    obtain ⟨iE, iLA, iM, iLM, iT, iP, iF⟩ := ih
    refine ⟨?_, ?_, ?_, ?_, ?_, ?_, ?_⟩
    · -- parseExpr
      intro s h
      rw [parseExpr_succ f] at h; rw [parseExpr_succ (f + 1), parseExpr_succ f]
      have hm := iM s true
      cases hms : parseMul f ctx s true with
      | oof => rw [hms] at h; exact absurd rfl h
      | fail => rw [hms] at hm; rw [hm (by simp)]
      | ok r t => rw [hms] at hm h; rw [hm (by simp)]; exact iLA r t h
    · -- loopAdd
      intro s acc h
      rcases head_cases '+' '-' s with ⟨rest, rfl⟩ | ⟨rest, rfl⟩ | ⟨h1, h2⟩
      · rw [loopAdd_plus f] at h; rw [loopAdd_plus (f + 1), loopAdd_plus f]
        have hm := iM rest false
        cases hms : parseMul f ctx rest false with
        | oof => rw [hms] at h; exact absurd rfl h
        | fail => rw [hms] at hm; rw [hm (by simp)]
        | ok r t => rw [hms] at hm h; rw [hm (by simp)]; exact iLA r _ h
      · rw [loopAdd_minus f] at h; rw [loopAdd_minus (f + 1), loopAdd_minus f]
        have hm := iM rest false
        cases hms : parseMul f ctx rest false with
        | oof => rw [hms] at h; exact absurd rfl h
        | fail => rw [hms] at hm; rw [hm (by simp)]
        | ok r t => rw [hms] at hm h; rw [hm (by simp)]; exact iLA r _ h
      · rw [loopAdd_stop _ _ _ _ h1 h2, loopAdd_stop _ _ _ _ h1 h2]
    · -- parseMul
      intro s a h
      rw [parseMul_succ f] at h; rw [parseMul_succ (f + 1), parseMul_succ f]
      have hm := iT s a
      cases hms : parseTerm f ctx s a with
      | oof => rw [hms] at h; exact absurd rfl h
      | fail => rw [hms] at hm; rw [hm (by simp)]
      | ok r t => rw [hms] at hm h; rw [hm (by simp)]; exact iLM r t h
    · -- loopMul
      intro s acc h
      rcases head_cases '*' '/' s with ⟨rest, rfl⟩ | ⟨rest, rfl⟩ | ⟨h1, h2⟩
      · rw [loopMul_star f] at h; rw [loopMul_star (f + 1), loopMul_star f]
        have hm := iT rest true
        cases hms : parseTerm f ctx rest true with
        | oof => rw [hms] at h; exact absurd rfl h
        | fail => rw [hms] at hm; rw [hm (by simp)]
        | ok r t => rw [hms] at hm h; rw [hm (by simp)]; exact iLM r _ h
      · rw [loopMul_slash f] at h; rw [loopMul_slash (f + 1), loopMul_slash f]
        have hm := iT rest true
        cases hms : parseTerm f ctx rest true with
        | oof => rw [hms] at h; exact absurd rfl h
        | fail => rw [hms] at hm; rw [hm (by simp)]
        | ok r t => rw [hms] at hm h; rw [hm (by simp)]; exact iLM r _ h
      · rw [loopMul_stop _ _ _ _ h1 h2, loopMul_stop _ _ _ _ h1 h2]
    · -- parseTerm
      intro s a
      rw [parseTerm_succ, parseTerm_succ (f + 1)]
      apply termB_mono
      intro s1
      apply powTermB_mono
      · intro s2; exact atomB_mono ctx iP iF s2
      · intro r b; exact powB_mono (fun s2 => iT s2 true) r b
    · -- parseParenth
      intro s h
      rcases head_case '(' s with ⟨r, rfl⟩ | h1
      · rw [parseParenth_open f] at h; rw [parseParenth_open (f + 1), parseParenth_open f]
        have hm := iE r
        cases hms : parseExpr f ctx r with
        | oof => rw [hms] at h; exact absurd rfl h
        | fail => rw [hms] at hm; rw [hm (by simp)]
        | ok r t => rw [hms] at hm; rw [hm (by simp)]
      · rw [parseParenth_other _ _ _ h1, parseParenth_other _ _ _ h1]
    · -- parseFunc
      intro s
      rw [parseFunc_succ' f, parseFunc_succ' (f + 1)]
      exact funcB_mono ctx iE s

theorem Le.chain {β : Type} (X : Nat → R β) (h : ∀ f, Le (X f) (X (f + 1))) {f f' : Nat} (hle : f ≤ f') :
    Le (X f) (X f') := by
  induction hle with
  | refl => exact Le.of_eq rfl
  | step _ ih =>
    intro hne
    have h1 := ih hne
    rw [← h1]
    exact h _ (by rw [h1]; exact hne)

theorem parseExpr_mono (ctx : Ctx) (s : List Char) {f f' : Nat} (hle : f ≤ f')
    (h : parseExpr f ctx s ≠ .oof) : parseExpr f' ctx s = parseExpr f ctx s :=
  Le.chain (fun f => parseExpr f ctx s) (fun f => (mono_step ctx f).1 s) hle h

theorem loopAdd_mono (ctx : Ctx) (s : List Char) (acc : E) {f f' : Nat} (hle : f ≤ f')
    (h : loopAdd f ctx s acc ≠ .oof) : loopAdd f' ctx s acc = loopAdd f ctx s acc :=
  Le.chain (fun f => loopAdd f ctx s acc) (fun f => (mono_step ctx f).2.1 s acc) hle h

theorem parseMul_mono (ctx : Ctx) (s : List Char) (a : Bool) {f f' : Nat} (hle : f ≤ f')
    (h : parseMul f ctx s a ≠ .oof) : parseMul f' ctx s a = parseMul f ctx s a :=
  Le.chain (fun f => parseMul f ctx s a) (fun f => (mono_step ctx f).2.2.1 s a) hle h

theorem loopMul_mono (ctx : Ctx) (s : List Char) (acc : E) {f f' : Nat} (hle : f ≤ f')
    (h : loopMul f ctx s acc ≠ .oof) : loopMul f' ctx s acc = loopMul f ctx s acc :=
  Le.chain (fun f => loopMul f ctx s acc) (fun f => (mono_step ctx f).2.2.2.1 s acc) hle h

theorem parseTerm_mono (ctx : Ctx) (s : List Char) (a : Bool) {f f' : Nat} (hle : f ≤ f')
    (h : parseTerm f ctx s a ≠ .oof) : parseTerm f' ctx s a = parseTerm f ctx s a :=
  Le.chain (fun f => parseTerm f ctx s a) (fun f => (mono_step ctx f).2.2.2.2.1 s a) hle h

theorem parseParenth_mono (ctx : Ctx) (s : List Char) {f f' : Nat} (hle : f ≤ f')
    (h : parseParenth f ctx s ≠ .oof) : parseParenth f' ctx s = parseParenth f ctx s :=
  Le.chain (fun f => parseParenth f ctx s) (fun f => (mono_step ctx f).2.2.2.2.2.1 s) hle h

theorem parseFunc_mono (ctx : Ctx) (s : List Char) {f f' : Nat} (hle : f ≤ f')
    (h : parseFunc f ctx s ≠ .oof) : parseFunc f' ctx s = parseFunc f ctx s :=
  Le.chain (fun f => parseFunc f ctx s) (fun f => (mono_step ctx f).2.2.2.2.2.2 s) hle h

end Cav.ParseLemmas
