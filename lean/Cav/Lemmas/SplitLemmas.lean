/-
  Helper lemmas for `Cav/Thm/C13Split.lean`.

  Part A (every `Num α`): the body of one iteration of `splitLoop` as named functions, the
  unfolding equation `splitLoop_succ` (`rfl`), the end-shifted grid `shiftedGrid`, the generic
  invariant lemma `splitLoop_ok_inv`.
  Part B (`Rat`): `signVal`, `signum`, the point returned by `stepOff` stays in the cell, a Brent
  result stays in the cell.
  Part C: insertion sort.
  Part D (`Rat`): the clusters of `clusterRoots` as lists (`clusterGroups`).
-/
import Cav.Model.Split
import Cav.Thm.C11Brent

namespace Cav.SplitL
open Cav Num Gen

/-! ## Part A — structural -/
section Structural
variable {α : Type} [Num α]

/-- first test of the loop body: the left end of the cell is recorded as a root -/
def leftZero (f : AD α → AD α) (tol : α) (xv : Array α) (dfv : Array (α × α)) (i : Nat) : Bool :=
  !(Num.isFinite (dfv.getD (i - 1) (zero, zero)).2) ||
    (Num.beq (dfv.getD (i - 1) (zero, zero)).2 zero && !(isMonotonicSaddle f (xv.getD (i - 1) zero) tol))

/-- second test: the right end of the cell is recorded as a root (and the next cell skipped) -/
def rightZero (f : AD α → AD α) (tol : α) (xv : Array α) (dfv : Array (α × α)) (i : Nat) : Bool :=
  !(Num.isFinite (dfv.getD i (zero, zero)).2) ||
    (Num.beq (dfv.getD i (zero, zero)).2 zero && !(isMonotonicSaddle f (xv.getD i zero) tol))

/-- `(xl', ldfs')` -/
def cellL (f : AD α → AD α) (tol xSign : α) (xv : Array α) (dfv : Array (α × α)) (i : Nat) : α × α :=
  if Num.beq (dfv.getD (i - 1) (zero, zero)).2 zero then
    stepOff f tol (xv.getD (i - 1) zero) xSign (Num.abs (xv.getD i zero - xv.getD (i - 1) zero))
  else (xv.getD (i - 1) zero, (dfv.getD (i - 1) (zero, zero)).2)

/-- `(xr', rdfs')` -/
def cellR (f : AD α → AD α) (tol xSign : α) (xv : Array α) (dfv : Array (α × α)) (i : Nat) : α × α :=
  if Num.beq (dfv.getD i (zero, zero)).2 zero then
    stepOff f tol (xv.getD i zero) (-xSign) (Num.abs (xv.getD i zero - xv.getD (i - 1) zero))
  else (xv.getD i zero, (dfv.getD i (zero, zero)).2)

/-- one iteration of the model in terms of the named pieces (definitional) -/
theorem splitLoop_succ (f : AD α → AD α) (tol : α) (m : Nat) (xSign : α) (xv : Array α)
    (dfv : Array (α × α)) (fuel i : Nat) (roots : List α) :
    splitLoop f tol m xSign xv dfv (fuel + 1) i roots =
      if i < xv.size then
        if leftZero f tol xv dfv i then
          splitLoop f tol m xSign xv dfv fuel (i + 1) (xv.getD (i - 1) zero :: roots)
        else if rightZero f tol xv dfv i then
          splitLoop f tol m xSign xv dfv fuel (i + 2) (xv.getD i zero :: roots)
        else if Num.bne (signum (cellL f tol xSign xv dfv i).2) (signum (cellR f tol xSign xv dfv i).2) then
          match findRootBrent (cellL f tol xSign xv dfv i).1 (cellR f tol xSign xv dfv i).1
              (fun x => D1.df f x) tol m with
          | .ok r => splitLoop f tol m xSign xv dfv fuel (i + 1) (r :: roots)
          | .error e => .error (.root e)
        else splitLoop f tol m xSign xv dfv fuel (i + 1) roots
      else .ok roots.reverse := rfl

theorem splitLoop_zero (f : AD α → AD α) (tol : α) (m : Nat) (xSign : α) (xv : Array α)
    (dfv : Array (α × α)) (i : Nat) (roots : List α) :
    splitLoop f tol m xSign xv dfv 0 i roots = .ok roots.reverse := rfl

/-- the direction sign computed from the two ends of the ORIGINAL grid -/
def gridSign (xv : List α) : α :=
  signVal (xv.toArray.getD (xv.length - 1) zero - xv.toArray.getD 0 zero)

/-- the grid with its two ends moved inwards by `gridSign * tol` -/
def shiftedGrid (xv : List α) (tol : α) : Array α :=
  (xv.toArray.setIfInBounds 0 (xv.toArray.getD 0 zero + gridSign xv * tol)).setIfInBounds (xv.length - 1)
    ((xv.toArray.setIfInBounds 0 (xv.toArray.getD 0 zero + gridSign xv * tol)).getD (xv.length - 1) zero
      - gridSign xv * tol)

@[simp] theorem shiftedGrid_size (xv : List α) (tol : α) : (shiftedGrid xv tol).size = xv.length := by
  simp [shiftedGrid]

/-- `split_strictly_monotone` on a grid of at least two points is the loop on the shifted grid
    (definitional) -/
theorem splitStrictlyMonotone_eq (f : AD α → AD α) (xv : List α) (tol : α) (m : Nat)
    (h : ¬ xv.length < 2) :
    splitStrictlyMonotone f xv tol m =
      splitLoop f tol m (gridSign xv) (shiftedGrid xv tol)
        ((shiftedGrid xv tol).map (fun x => D1.fdf f x)) (xv.length + 1) 1 [] := by
  unfold splitStrictlyMonotone
  simp only [if_neg h]
  rfl

/-- If `P i roots` holds initially and is preserved by each of the four ways in which the loop
    continues, a successful result is `roots'.reverse` for some `P i' roots'`. -/
theorem splitLoop_ok_inv {f : AD α → AD α} {tol : α} {m : Nat} {xSign : α} {xv : Array α}
    {dfv : Array (α × α)} (P : Nat → List α → Prop)
    (h1 : ∀ i roots, P i roots → i < xv.size → P (i + 1) (xv.getD (i - 1) zero :: roots))
    (h2 : ∀ i roots, P i roots → i < xv.size → P (i + 2) (xv.getD i zero :: roots))
    (h3 : ∀ i roots r, P i roots → i < xv.size →
      findRootBrent (cellL f tol xSign xv dfv i).1 (cellR f tol xSign xv dfv i).1
        (fun x => D1.df f x) tol m = .ok r → P (i + 1) (r :: roots))
    (h4 : ∀ i roots, P i roots → i < xv.size → P (i + 1) roots) {res : List α} :
    ∀ (fuel i : Nat) (roots : List α), P i roots →
      splitLoop f tol m xSign xv dfv fuel i roots = .ok res →
      ∃ i' roots', P i' roots' ∧ res = roots'.reverse := by
  intro fuel
  induction fuel with
  | zero =>
    intro i roots hP h
    rw [splitLoop_zero] at h
    exact ⟨i, roots, hP, by cases h; rfl⟩
  | succ fuel ih =>
    intro i roots hP h
    rw [splitLoop_succ] at h
    by_cases hi : i < xv.size
    · rw [if_pos hi] at h
      by_cases c1 : leftZero f tol xv dfv i = true
      · rw [if_pos c1] at h
        exact ih _ _ (h1 i roots hP hi) h
      · rw [if_neg c1] at h
        by_cases c2 : rightZero f tol xv dfv i = true
        · rw [if_pos c2] at h
          exact ih _ _ (h2 i roots hP hi) h
        · rw [if_neg c2] at h
          by_cases c3 : Num.bne (signum (cellL f tol xSign xv dfv i).2)
              (signum (cellR f tol xSign xv dfv i).2) = true
          · rw [if_pos c3] at h
            cases hbr : findRootBrent (cellL f tol xSign xv dfv i).1 (cellR f tol xSign xv dfv i).1
                (fun x => D1.df f x) tol m with
            | ok r =>
              rw [hbr] at h
              exact ih _ _ (h3 i roots r hP hi hbr) h
            | error e =>
              rw [hbr] at h
              cases h
          · rw [if_neg c3] at h
            exact ih _ _ (h4 i roots hP hi) h
    · rw [if_neg hi] at h
      exact ⟨i, roots, hP, by cases h; rfl⟩

end Structural

/-! ## Part B — `Rat` -/
section RatFacts
open Cav.BrentL

theorem signVal_rat (x : Rat) : signVal x = if x < 0 then -1 else 1 := by
  unfold signVal
  simp only [Num.isNaN, Num.signBit, Bool.false_eq_true, if_false]
  by_cases h : x < 0
  · simp [h]
  · simp [h]

theorem signum_rat (x : Rat) : signum x = if x < 0 then -1 else 1 := by
  unfold signum
  simp only [Num.isNaN, Num.signBit, Bool.false_eq_true, if_false]
  by_cases h : x < 0
  · simp [h]
  · simp [h]

theorem signVal_pm (x : Rat) : signVal x = 1 ∨ signVal x = -1 := by
  rw [signVal_rat]; split
  · exact Or.inr rfl
  · exact Or.inl rfl

/-- the probe point of `stepOffLoop`: `x0 + dir * st` where `st` is the initial step or a doubled
    step with `0 < st < width` -/
theorem stepOffLoop_fst (f : AD Rat → AD Rat) (x0 dir width df : Rat) :
    ∀ (fuel : Nat) (step : Rat), ∃ st : Rat,
      (stepOffLoop f x0 dir width df fuel step).1 = x0 + dir * st ∧
      (st = step ∨ (0 < st ∧ st < width)) := by
  intro fuel
  induction fuel with
  | zero => intro step; exact ⟨step, rfl, Or.inl rfl⟩
  | succ fuel ih =>
    intro step
    simp only [stepOffLoop]
    split
    · rename_i hc
      simp only [Bool.and_eq_true, lt_iff, zero_eq, two_eq] at hc
      obtain ⟨st, e, hst⟩ := ih (step * 2)
      rw [two_eq]
      refine ⟨st, e, Or.inr ?_⟩
      rcases hst with rfl | h
      · constructor <;> linarith [hc.1.2, hc.2]
      · exact h
    · exact ⟨step, rfl, Or.inl rfl⟩

/-- `stepOff` returns the grid point itself, or a probe point -/
theorem stepOff_fst (f : AD Rat → AD Rat) (tol x0 dir width : Rat) :
    (stepOff f tol x0 dir width).1 = x0 ∨
    ∃ st : Rat, (stepOff f tol x0 dir width).1 = x0 + dir * st ∧ (st = tol ∨ (0 < st ∧ st < width)) := by
  have key : stepOff f tol x0 dir width =
      if unresolvedD (D1.f f (x0 + tol) - D1.f f (x0 - tol))
          (stepOffLoop f x0 dir width (D1.f f (x0 + tol) - D1.f f (x0 - tol)) 2200 tol).2 then
        (x0, if Num.bne (D1.f f (x0 + tol) - D1.f f (x0 - tol)) zero then
          signum (D1.f f (x0 + tol) - D1.f f (x0 - tol)) else one)
      else stepOffLoop f x0 dir width (D1.f f (x0 + tol) - D1.f f (x0 - tol)) 2200 tol := rfl
  obtain ⟨st, e, hst⟩ := stepOffLoop_fst f x0 dir width (D1.f f (x0 + tol) - D1.f f (x0 - tol)) 2200 tol
  rw [key]
  split
  · exact Or.inl rfl
  · exact Or.inr ⟨st, e, hst⟩

/-- oriented closed cell: `x` lies between `xl` and `xr` in the direction `σ` -/
def InCell (σ xl xr x : Rat) : Prop := σ * xl ≤ σ * x ∧ σ * x ≤ σ * xr

theorem stepOff_inCell_left {σ tol xl xr : Rat} (f : AD Rat → AD Rat) (hσ : σ = 1 ∨ σ = -1)
    (h0 : 0 ≤ tol) (hw : tol ≤ σ * (xr - xl)) :
    InCell σ xl xr (stepOff f tol xl σ |xr - xl|).1 := by
  have hwid : |xr - xl| = σ * (xr - xl) := by
    rcases hσ with rfl | rfl
    · rw [abs_of_nonneg (by linarith)]; ring
    · rw [abs_of_nonpos (by linarith)]; ring
  rcases stepOff_fst f tol xl σ |xr - xl| with e | ⟨st, e, hst⟩
  · rw [e]; exact ⟨le_refl _, by linarith⟩
  · rw [e]
    have hst' : 0 ≤ st ∧ st ≤ σ * (xr - xl) := by
      rcases hst with rfl | ⟨h1, h2⟩
      · exact ⟨h0, hw⟩
      · rw [hwid] at h2; exact ⟨le_of_lt h1, le_of_lt h2⟩
    have hσσ : σ * σ = 1 := by rcases hσ with rfl | rfl <;> norm_num
    unfold InCell
    have : σ * (xl + σ * st) = σ * xl + st := by
      have : σ * (xl + σ * st) = σ * xl + (σ * σ) * st := by ring
      rw [this, hσσ, one_mul]
    rw [this]
    constructor <;> linarith [hst'.1, hst'.2]

theorem stepOff_inCell_right {σ tol xl xr : Rat} (f : AD Rat → AD Rat) (hσ : σ = 1 ∨ σ = -1)
    (h0 : 0 ≤ tol) (hw : tol ≤ σ * (xr - xl)) :
    InCell σ xl xr (stepOff f tol xr (-σ) |xr - xl|).1 := by
  have hwid : |xr - xl| = σ * (xr - xl) := by
    rcases hσ with rfl | rfl
    · rw [abs_of_nonneg (by linarith)]; ring
    · rw [abs_of_nonpos (by linarith)]; ring
  rcases stepOff_fst f tol xr (-σ) |xr - xl| with e | ⟨st, e, hst⟩
  · rw [e]; exact ⟨by linarith, le_refl _⟩
  · rw [e]
    have hst' : 0 ≤ st ∧ st ≤ σ * (xr - xl) := by
      rcases hst with rfl | ⟨h1, h2⟩
      · exact ⟨h0, hw⟩
      · rw [hwid] at h2; exact ⟨le_of_lt h1, le_of_lt h2⟩
    have hσσ : σ * σ = 1 := by rcases hσ with rfl | rfl <;> norm_num
    unfold InCell
    have : σ * (xr + -σ * st) = σ * xr - st := by
      have : σ * (xr + -σ * st) = σ * xr - (σ * σ) * st := by ring
      rw [this, hσσ, one_mul]
    rw [this]
    constructor <;> linarith [hst'.1, hst'.2]

/-- both (possibly stepped-off) bracket ends lie in the cell -/
theorem cell_ends_inCell {σ tol : Rat} (f : AD Rat → AD Rat) (xv : Array Rat) (dfv : Array (Rat × Rat))
    (i : Nat) (hσ : σ = 1 ∨ σ = -1) (h0 : 0 ≤ tol)
    (hw : tol ≤ σ * (xv.getD i 0 - xv.getD (i - 1) 0)) :
    InCell σ (xv.getD (i - 1) 0) (xv.getD i 0) (cellL f tol σ xv dfv i).1 ∧
    InCell σ (xv.getD (i - 1) 0) (xv.getD i 0) (cellR f tol σ xv dfv i).1 := by
  have hle : σ * xv.getD (i - 1) 0 ≤ σ * xv.getD i 0 := by linarith
  constructor
  · unfold cellL
    split
    · rw [abs_eq]; exact stepOff_inCell_left f hσ h0 hw
    · exact ⟨le_refl _, hle⟩
  · unfold cellR
    split
    · rw [abs_eq]; exact stepOff_inCell_right f hσ h0 hw
    · exact ⟨hle, le_refl _⟩

/-- a point in the hull of two points of the cell lies in the cell -/
theorem inCell_of_hull {σ xl xr u v r : Rat} (hσ : σ = 1 ∨ σ = -1) (hu : InCell σ xl xr u)
    (hv : InCell σ xl xr v) (hr : min u v ≤ r ∧ r ≤ max u v) : InCell σ xl xr r := by
  unfold InCell at *
  obtain ⟨hr1, hr2⟩ := hr
  rcases le_total u v with huv | huv
  · rw [min_eq_left huv] at hr1; rw [max_eq_right huv] at hr2
    rcases hσ with rfl | rfl <;> constructor <;> linarith [hu.1, hu.2, hv.1, hv.2]
  · rw [min_eq_right huv] at hr1; rw [max_eq_left huv] at hr2
    rcases hσ with rfl | rfl <;> constructor <;> linarith [hu.1, hu.2, hv.1, hv.2]

/-- a Brent result for the cell lies in the cell (uses `C11.brent_in_hull`) -/
theorem brent_inCell {σ tol : Rat} (f : AD Rat → AD Rat) (xv : Array Rat) (dfv : Array (Rat × Rat))
    (i m : Nat) (r : Rat) (hσ : σ = 1 ∨ σ = -1) (h0 : 0 ≤ tol)
    (hw : tol ≤ σ * (xv.getD i 0 - xv.getD (i - 1) 0))
    (h : findRootBrent (cellL f tol σ xv dfv i).1 (cellR f tol σ xv dfv i).1 (fun x => D1.df f x) tol m
      = .ok r) :
    InCell σ (xv.getD (i - 1) 0) (xv.getD i 0) r := by
  obtain ⟨hl, hr⟩ := cell_ends_inCell f xv dfv i hσ h0 hw
  exact inCell_of_hull hσ hl hr (C11.brent_in_hull _ _ _ tol m r h)

end RatFacts
/-! ## Part C — insertion sort -/
section Sorting
variable {α : Type}

theorem insertSorted_perm (cmp : α → α → Ordering) (x : α) :
    ∀ l : List α, (insertSorted cmp x l).Perm (x :: l) := by
  intro l
  induction l with
  | nil => exact List.Perm.refl _
  | cons y ys ih =>
    unfold insertSorted
    split
    · exact List.Perm.refl _
    · exact ((List.Perm.cons y ih).trans (List.Perm.swap x y ys))

theorem foldl_insertSorted_perm (cmp : α → α → Ordering) :
    ∀ (l acc : List α), (l.foldl (fun acc x => insertSorted cmp x acc) acc).Perm (acc ++ l) := by
  intro l
  induction l with
  | nil => intro acc; simp
  | cons x l ih =>
    intro acc
    rw [List.foldl_cons]
    refine (ih _).trans ?_
    refine (List.Perm.append_right l (insertSorted_perm cmp x acc)).trans ?_
    exact (List.perm_middle (a := x) (l₁ := acc) (l₂ := l)).symm

/-- inserting into a list sorted by `key` keeps it sorted, for a comparator whose `.lt` is the
    strict order of the keys -/
theorem insertSorted_sorted {β : Type} [LinearOrder β] (cmp : α → α → Ordering) (key : α → β)
    (hcmp : ∀ p q, cmp p q = .lt ↔ key p < key q) (x : α) :
    ∀ l : List α, l.Pairwise (fun p q => key p ≤ key q) →
      (insertSorted cmp x l).Pairwise (fun p q => key p ≤ key q) := by
  intro l
  induction l with
  | nil => intro _; simp [insertSorted]
  | cons y ys ih =>
    intro hl
    rw [List.pairwise_cons] at hl
    obtain ⟨hy, hys⟩ := hl
    unfold insertSorted
    by_cases hc : cmp x y = .lt
    · have hxy : key x < key y := (hcmp x y).mp hc
      rw [if_pos (by simp [hc])]
      refine List.pairwise_cons.mpr ⟨?_, List.pairwise_cons.mpr ⟨hy, hys⟩⟩
      intro z hz
      rcases List.mem_cons.mp hz with rfl | hz
      · exact le_of_lt hxy
      · exact le_trans (le_of_lt hxy) (hy z hz)
    · have hyx : key y ≤ key x := not_lt.mp (fun h => hc ((hcmp x y).mpr h))
      rw [if_neg (by simpa using hc)]
      refine List.pairwise_cons.mpr ⟨?_, ih hys⟩
      intro z hz
      have hz' := (insertSorted_perm cmp x ys).mem_iff.mp hz
      rcases List.mem_cons.mp hz' with rfl | hz'
      · exact hyx
      · exact hy z hz'

theorem foldl_insertSorted_sorted {β : Type} [LinearOrder β] (cmp : α → α → Ordering) (key : α → β)
    (hcmp : ∀ p q, cmp p q = .lt ↔ key p < key q) :
    ∀ (l acc : List α), acc.Pairwise (fun p q => key p ≤ key q) →
      (l.foldl (fun acc x => insertSorted cmp x acc) acc).Pairwise (fun p q => key p ≤ key q) := by
  intro l
  induction l with
  | nil => intro acc h; exact h
  | cons x l ih =>
    intro acc h
    rw [List.foldl_cons]
    exact ih _ (insertSorted_sorted cmp key hcmp x acc h)

end Sorting

/-! ## Part D — the clusters of `clusterRoots` (`Rat`) -/
section Cluster
open Cav.BrentL

theorem foldl_add_rat (l : List Rat) : ∀ a : Rat, l.foldl (· + ·) a = a + l.sum := by
  induction l with
  | nil => intro a; simp
  | cons x l ih => intro a; rw [List.foldl_cons, ih, List.sum_cons]; ring

theorem sumF_rat (l : List Rat) : sumF l = l.sum := by
  unfold sumF
  rw [foldl_add_rat]
  simp

/-- arithmetic mean (`0` for the empty list: `0 / 0 = 0` over `Rat`) -/
def mean (l : List Rat) : Rat := l.sum / (l.length : Rat)

/-- `clusterRoots.go` collecting the clusters themselves instead of their means -/
def groupsGo (tol : Rat) (l : List Rat) : Nat → Nat → Nat → List (List Rat) → List (List Rat)
  | 0, _, li, acc => (l.drop li :: acc).reverse
  | fuel + 1, i, li, acc =>
    if i < l.length then
      if 2 * tol < |l.getD i 0 - l.getD li 0| then
        groupsGo tol l fuel (i + 1) i ((l.drop li).take (i - li) :: acc)
      else groupsGo tol l fuel (i + 1) li acc
    else (l.drop li :: acc).reverse

/-- the clusters formed by `clusterRoots tol m` for `m.toList = l` -/
def clusterGroups (tol : Rat) (l : List Rat) : List (List Rat) :=
  if l.length > 1 then groupsGo tol l (l.length + 1) 0 0 [] else l.map (fun x => [x])

theorem go_eq_map_mean (tol : Rat) (m : Array Rat) :
    ∀ (fuel i li : Nat) (accG : List (List Rat)), i ≤ m.size →
      clusterRoots.go tol m fuel i li (accG.map mean) = (groupsGo tol m.toList fuel i li accG).map mean := by
  have hlast : ∀ li, sumF (m.toList.drop li) / Num.ofNat (m.size - li) = mean (m.toList.drop li) := by
    intro li
    rw [sumF_rat, mean, ofNat_eq, List.length_drop, Array.length_toList]
  intro fuel
  induction fuel with
  | zero =>
    intro i li accG _
    simp only [clusterRoots.go, groupsGo, List.map_reverse, List.map_cons, hlast]
  | succ fuel ih =>
    intro i li accG hi
    rw [clusterRoots.go, groupsGo]
    simp only [Array.length_toList]
    by_cases h1 : i < m.size
    · rw [if_pos h1, if_pos h1]
      have hcond : Num.lt (two * tol) (Num.abs (m.getD i zero - m.getD li zero)) = true ↔
          2 * tol < |m.toList.getD i 0 - m.toList.getD li 0| := by
        rw [lt_iff, abs_eq, two_eq, zero_eq]
        simp [Array.getD_eq_getD_getElem?, List.getD_eq_getElem?_getD]
      by_cases h2 : 2 * tol < |m.toList.getD i 0 - m.toList.getD li 0|
      · rw [if_pos (hcond.mpr h2), if_pos h2]
        have hm : sumF ((m.toList.drop li).take (i - li)) / Num.ofNat (i - li)
            = mean ((m.toList.drop li).take (i - li)) := by
          rw [sumF_rat, mean, ofNat_eq, List.length_take, List.length_drop, Array.length_toList,
            Nat.min_eq_left (by omega)]
        rw [hm]
        exact ih (i + 1) i (_ :: accG) (by omega)
      · rw [if_neg (fun h => h2 (hcond.mp h)), if_neg h2]
        exact ih (i + 1) li accG (by omega)
    · rw [if_neg h1, if_neg h1]
      simp only [List.map_reverse, List.map_cons, hlast]

theorem mean_singleton (x : Rat) : mean [x] = x := by simp [mean]

/-- `clusterRoots` returns the means of the clusters -/
theorem clusterRoots_eq_map_mean (tol : Rat) (m : Array Rat) :
    clusterRoots tol m = (clusterGroups tol m.toList).map mean := by
  unfold clusterRoots clusterGroups
  simp only [Array.length_toList]
  by_cases h : m.size > 1
  · rw [if_pos h, if_pos h]
    exact go_eq_map_mean tol m (m.size + 1) 0 0 [] (Nat.zero_le _)
  · rw [if_neg h, if_neg h, List.map_map]
    have : (mean ∘ fun x : Rat => [x]) = id := by
      funext x; exact mean_singleton x
    rw [this, List.map_id]

/-- a non-empty cluster all of whose members are within `2·tol` of its first member -/
def GoodGroup (tol : Rat) (g : List Rat) : Prop :=
  g ≠ [] ∧ ∀ x ∈ g, |x - g.headD 0| ≤ 2 * tol

theorem take_drop_succ (l : List Rat) (li i : Nat) (h1 : li ≤ i) (h2 : i < l.length) :
    (l.drop li).take (i + 1 - li) = (l.drop li).take (i - li) ++ [l.getD i 0] := by
  have e : i + 1 - li = (i - li) + 1 := by omega
  rw [e, List.take_add_one, List.getElem?_drop]
  have e2 : li + (i - li) = i := by omega
  rw [e2, List.getD_eq_getElem?_getD, List.getElem?_eq_getElem h2]
  simp

theorem headD_take_drop (l : List Rat) (li k : Nat) (hk : 0 < k) :
    ((l.drop li).take k).headD 0 = l.getD li 0 := by
  rw [List.getD_eq_getElem?_getD]
  cases k with
  | zero => omega
  | succ k =>
    cases hd : l.drop li with
    | nil =>
      have : l.length ≤ li := by simpa using hd
      simp [List.getElem?_eq_none this]
    | cons y ys =>
      have : l[li]? = some y := by
        have := congrArg (fun t => t[0]?) hd
        simpa [List.getElem?_drop] using this
      simp [this]

theorem groupsGo_spec {tol : Rat} (h0 : 0 ≤ tol) (l : List Rat) :
    ∀ (fuel i li : Nat) (acc : List (List Rat)),
      li ≤ i → i ≤ l.length → li < l.length → l.length + 1 ≤ fuel + i →
      acc.reverse.flatten = l.take li →
      (∀ g ∈ acc, GoodGroup tol g) →
      (∀ x ∈ (l.drop li).take (i - li), |x - l.getD li 0| ≤ 2 * tol) →
      (groupsGo tol l fuel i li acc).flatten = l ∧ ∀ g ∈ groupsGo tol l fuel i li acc, GoodGroup tol g := by
  have hfinal : ∀ (i li : Nat) (acc : List (List Rat)), li < l.length → l.length ≤ i → i ≤ l.length →
      acc.reverse.flatten = l.take li → (∀ g ∈ acc, GoodGroup tol g) →
      (∀ x ∈ (l.drop li).take (i - li), |x - l.getD li 0| ≤ 2 * tol) →
      ((l.drop li :: acc).reverse).flatten = l ∧ ∀ g ∈ (l.drop li :: acc).reverse, GoodGroup tol g := by
    intro i li acc hli hi1 hi2 hfl hg hw
    constructor
    · rw [List.reverse_cons, List.flatten_append, hfl]
      simp
    · intro g hgm
      rw [List.mem_reverse, List.mem_cons] at hgm
      rcases hgm with rfl | hgm
      · have hi : i = l.length := le_antisymm hi2 hi1
        have hne : l.drop li ≠ [] := by
          intro h; have := congrArg List.length h; simp at this; omega
        have htake : (l.drop li).take (i - li) = l.drop li := by
          apply List.take_of_length_le; simp; omega
        rw [htake] at hw
        refine ⟨hne, fun x hx => ?_⟩
        have hh : (l.drop li).headD 0 = l.getD li 0 := by
          have := headD_take_drop l li (i - li) (by omega)
          rwa [htake] at this
        rw [hh]; exact hw x hx
      · exact hg g hgm
  intro fuel
  induction fuel with
  | zero =>
    intro i li acc h1 h2 h3 h4 hfl hg hw
    exfalso; omega
  | succ fuel ih =>
    intro i li acc h1 h2 h3 h4 hfl hg hw
    rw [groupsGo]
    by_cases hi : i < l.length
    · rw [if_pos hi]
      by_cases hc : 2 * tol < |l.getD i 0 - l.getD li 0|
      · rw [if_pos hc]
        have hlt : li < i := by
          rcases Nat.lt_or_ge li i with h | h
          · exact h
          · have : i = li := le_antisymm h h1
            subst this
            simp at hc
            linarith
        refine ih (i + 1) i _ (by omega) (by omega) hi (by omega) ?_ ?_ ?_
        · rw [List.reverse_cons, List.flatten_append, hfl]
          simp only [List.flatten_cons, List.flatten_nil, List.append_nil]
          have : li + (i - li) = i := by omega
          rw [← List.take_add, this]
        · intro g hgm
          rcases List.mem_cons.mp hgm with rfl | hgm
          · refine ⟨?_, fun x hx => ?_⟩
            · intro h
              have := congrArg List.length h
              simp at this
              omega
            · rw [headD_take_drop l li (i - li) (by omega)]
              exact hw x hx
          · exact hg g hgm
        · intro x hx
          have e : i + 1 - i = 0 + 1 := by omega
          have : (l.drop i).take (i + 1 - i) = [l.getD i 0] := by
            have := take_drop_succ l i i (le_refl _) hi
            simpa using this
          rw [this] at hx
          rw [List.mem_singleton.mp hx]
          simp; linarith
      · rw [if_neg hc]
        refine ih (i + 1) li acc (by omega) (by omega) h3 (by omega) hfl hg ?_
        intro x hx
        rw [take_drop_succ l li i h1 hi] at hx
        rcases List.mem_append.mp hx with hx | hx
        · exact hw x hx
        · rw [List.mem_singleton.mp hx]; exact not_lt.mp hc
    · rw [if_neg hi]
      exact hfinal i li acc h3 (not_lt.mp hi) h2 hfl hg hw

/-- the clusters partition the input in order; every cluster is non-empty and all of its members
    are within `2·tol` of its first member -/
theorem clusterGroups_spec {tol : Rat} (h0 : 0 ≤ tol) (l : List Rat) :
    (clusterGroups tol l).flatten = l ∧ ∀ g ∈ clusterGroups tol l, GoodGroup tol g := by
  unfold clusterGroups
  by_cases h : l.length > 1
  · rw [if_pos h]
    refine groupsGo_spec h0 l (l.length + 1) 0 0 [] (le_refl _) (Nat.zero_le _) (by omega) (by omega)
      (by simp) (by simp) (by simp)
  · rw [if_neg h]
    constructor
    · clear h
      induction l with
      | nil => rfl
      | cons x l ih => simpa using ih
    · intro g hg
      obtain ⟨x, -, rfl⟩ := List.mem_map.mp hg
      refine ⟨by simp, fun y hy => ?_⟩
      rw [List.mem_singleton.mp hy]
      simp; linarith

theorem length_le_of_nonempty (L : List (List Rat)) (h : ∀ g ∈ L, g ≠ []) :
    L.length ≤ L.flatten.length := by
  induction L with
  | nil => simp
  | cons g L ih =>
    have hg : 0 < g.length := List.length_pos_iff.mpr (h g (List.mem_cons_self))
    have := ih (fun g' hg' => h g' (List.mem_cons_of_mem _ hg'))
    simp only [List.length_cons, List.flatten_cons, List.length_append]
    omega

theorem sum_bounds (g : List Rat) (lo hi : Rat) (h : ∀ x ∈ g, lo ≤ x ∧ x ≤ hi) :
    lo * g.length ≤ g.sum ∧ g.sum ≤ hi * g.length := by
  induction g with
  | nil => simp
  | cons x g ih =>
    have hx := h x (List.mem_cons_self)
    have := ih (fun y hy => h y (List.mem_cons_of_mem _ hy))
    simp only [List.sum_cons, List.length_cons, Nat.cast_add, Nat.cast_one]
    constructor <;> nlinarith [this.1, this.2, hx.1, hx.2]

theorem mean_bounds (g : List Rat) (lo hi : Rat) (hne : g ≠ []) (h : ∀ x ∈ g, lo ≤ x ∧ x ≤ hi) :
    lo ≤ mean g ∧ mean g ≤ hi := by
  have hpos : (0 : Rat) < g.length := by
    have := List.length_pos_iff.mpr hne
    exact_mod_cast this
  obtain ⟨h1, h2⟩ := sum_bounds g lo hi h
  unfold mean
  constructor
  · rw [le_div_iff₀ hpos]; exact h1
  · rw [div_le_iff₀ hpos]; exact h2

end Cluster

end Cav.SplitL
