/-
  Helper lemmas for `Thm/C11Roots`: a variant of `SplitL.splitLoop_ok_inv` that also hands the
  two grid-point tests (`leftZero`, `rightZero`) to the invariant; over `Rat` these tests say that
  the derivative is EXACTLY zero at the recorded grid point.  Consequence
  (`split_roots_classified`): every split point is an exact zero of the derivative at an end of
  its cell, or a Brent result on a bracket inside its cell.
-/
import Cav.Thm.C13Split

namespace Cav.C11Roots
open Cav Num Gen Cav.SplitL Cav.BrentL Cav.C13Split

section Structural
variable {α : Type} [Num α]

/-- `SplitL.splitLoop_ok_inv` with the branch conditions of the two grid-point branches -/
theorem splitLoop_ok_inv_tests {f : AD α → AD α} {tol : α} {m : Nat} {xSign : α} {xv : Array α}
    {dfv : Array (α × α)} (P : Nat → List α → Prop)
    (h1 : ∀ i roots, P i roots → i < xv.size → leftZero f tol xv dfv i = true →
      P (i + 1) (xv.getD (i - 1) zero :: roots))
    (h2 : ∀ i roots, P i roots → i < xv.size → rightZero f tol xv dfv i = true →
      P (i + 2) (xv.getD i zero :: roots))
    (h3 : ∀ i roots r, P i roots → i < xv.size →
      findRootBrent (cellL f tol xSign xv dfv i).1 (cellR f tol xSign xv dfv i).1
        (fun x => D1.df f x) tol m = .ok r → P (i + 1) (r :: roots))
    (h4 : ∀ i roots, P i roots → i < xv.size → P (i + 1) roots) {res : List α} :
    ∀ (fuel i : Nat) (roots : List α), P i roots →
      splitLoop f tol m xSign xv dfv fuel i roots = .ok res →
      ∃ i' roots', P i' roots' ∧ res = roots'.reverse := by
  intro fuel
  induction fuel with
  | zero =>
    intro i roots hP h
    rw [splitLoop_zero] at h
    exact ⟨i, roots, hP, by cases h; rfl⟩
  | succ fuel ih =>
    intro i roots hP h
    rw [splitLoop_succ] at h
    by_cases hi : i < xv.size
    · rw [if_pos hi] at h
      by_cases c1 : leftZero f tol xv dfv i = true
      · rw [if_pos c1] at h
        exact ih _ _ (h1 i roots hP hi c1) h
      · rw [if_neg c1] at h
        by_cases c2 : rightZero f tol xv dfv i = true
        · rw [if_pos c2] at h
          exact ih _ _ (h2 i roots hP hi c2) h
        · rw [if_neg c2] at h
          by_cases c3 : Num.bne (signum (cellL f tol xSign xv dfv i).2)
              (signum (cellR f tol xSign xv dfv i).2) = true
          · rw [if_pos c3] at h
            cases hbr : findRootBrent (cellL f tol xSign xv dfv i).1 (cellR f tol xSign xv dfv i).1
                (fun x => D1.df f x) tol m with
            | ok r =>
              rw [hbr] at h
              exact ih _ _ (h3 i roots r hP hi hbr) h
            | error e =>
              rw [hbr] at h
              cases h
          · rw [if_neg c3] at h
            exact ih _ _ (h4 i roots hP hi) h
    · rw [if_neg hi] at h
      exact ⟨i, roots, hP, by cases h; rfl⟩

end Structural

/-- the table of derivatives of `splitStrictlyMonotone` at an index inside the grid -/
theorem dfv_getD (f : AD Rat → AD Rat) (X : Array Rat) (k : Nat) (hk : k < X.size) :
    ((X.map (fun x => D1.fdf f x)).getD k (zero, zero)).2 = D1.df f (X.getD k 0) := by
  simp [Array.getD_eq_getD_getElem?, hk]
  rfl

/-- over `Rat` the test `leftZero` means: the derivative at the left grid point is exactly `0`
    (and the point is not a monotone saddle) -/
theorem leftZero_rat (f : AD Rat → AD Rat) (tol : Rat) (X : Array Rat) (i : Nat)
    (hi : i - 1 < X.size) (h : leftZero f tol X (X.map (fun x => D1.fdf f x)) i = true) :
    D1.df f (X.getD (i - 1) 0) = 0 ∧ isMonotonicSaddle f (X.getD (i - 1) 0) tol = false := by
  unfold leftZero at h
  rw [dfv_getD f X (i - 1) hi] at h
  simp only [Num.isFinite, Bool.not_true, Bool.false_or, Bool.and_eq_true, beq_iff, zero_eq,
    Bool.not_eq_true'] at h
  exact h

theorem rightZero_rat (f : AD Rat → AD Rat) (tol : Rat) (X : Array Rat) (i : Nat)
    (hi : i < X.size) (h : rightZero f tol X (X.map (fun x => D1.fdf f x)) i = true) :
    D1.df f (X.getD i 0) = 0 ∧ isMonotonicSaddle f (X.getD i 0) tol = false := by
  unfold rightZero at h
  rw [dfv_getD f X i hi] at h
  simp only [Num.isFinite, Bool.not_true, Bool.false_or, Bool.and_eq_true, beq_iff, zero_eq,
    Bool.not_eq_true'] at h
  exact h

/-- **classification of the split points** (strengthens `C13Split.split_roots_in_cells`): under
    `CellHyp`, every returned split point `r` lies in a closed cell `i` of the shifted grid and
    * is an END of that cell at which the derivative is EXACTLY zero (and which failed the
      monotone-saddle test), or
    * is a successful Brent result for the derivative on a bracket `[u, v]` inside that cell. -/
theorem split_roots_classified (f : AD Rat → AD Rat) (xv : List Rat) (tol : Rat) (m : Nat)
    (res : List Rat) (hc : CellHyp xv tol) (h : splitStrictlyMonotone f xv tol m = .ok res) :
    ∀ r ∈ res, ∃ i, 1 ≤ i ∧ i < xv.length ∧
      InCell (gridSign xv) ((shiftedGrid xv tol).getD (i - 1) 0) ((shiftedGrid xv tol).getD i 0) r ∧
      ((D1.df f r = 0 ∧ isMonotonicSaddle f r tol = false ∧
          (r = (shiftedGrid xv tol).getD (i - 1) 0 ∨ r = (shiftedGrid xv tol).getD i 0)) ∨
       ∃ u v,
        InCell (gridSign xv) ((shiftedGrid xv tol).getD (i - 1) 0) ((shiftedGrid xv tol).getD i 0) u ∧
        InCell (gridSign xv) ((shiftedGrid xv tol).getD (i - 1) 0) ((shiftedGrid xv tol).getD i 0) v ∧
        findRootBrent u v (fun x => D1.df f x) tol m = .ok r) := by
  by_cases hn : xv.length < 2
  · rw [splitStrictlyMonotone_short f xv tol m hn] at h
    cases h; intro r hr; cases hr
  rw [splitStrictlyMonotone_eq f xv tol m hn] at h
  obtain ⟨h0, hcell⟩ := hc
  have hσ := gridSign_pm xv
  generalize hσd : gridSign xv = σ at *
  generalize hXd : shiftedGrid xv tol = X at *
  have hsz : X.size = xv.length := by rw [← hXd]; exact shiftedGrid_size xv tol
  have hstep : ∀ i, 1 ≤ i → i < xv.length → σ * X.getD (i - 1) 0 ≤ σ * X.getD i 0 := by
    intro i h1 h2
    have := hcell i h2 h1
    rw [mul_sub] at this
    linarith
  obtain ⟨i', roots', hP, rfl⟩ :=
    splitLoop_ok_inv_tests
      (fun j rs => 1 ≤ j ∧ ∀ r ∈ rs, ∃ i, 1 ≤ i ∧ i < xv.length ∧
        InCell σ (X.getD (i - 1) 0) (X.getD i 0) r ∧
        ((D1.df f r = 0 ∧ isMonotonicSaddle f r tol = false ∧
            (r = X.getD (i - 1) 0 ∨ r = X.getD i 0)) ∨
         ∃ u v, InCell σ (X.getD (i - 1) 0) (X.getD i 0) u ∧
          InCell σ (X.getD (i - 1) 0) (X.getD i 0) v ∧
          findRootBrent u v (fun x => D1.df f x) tol m = .ok r))
      (fun j rs hP hj hz => ⟨by omega, fun r hr => by
        rw [hsz] at hj
        rcases List.mem_cons.mp hr with rfl | hr
        · obtain ⟨hz0, hz1⟩ := leftZero_rat f tol X j (by omega) hz
          exact ⟨j, hP.1, hj, ⟨le_refl _, hstep j hP.1 hj⟩, Or.inl ⟨hz0, hz1, Or.inl rfl⟩⟩
        · exact hP.2 r hr⟩)
      (fun j rs hP hj hz => ⟨by omega, fun r hr => by
        rw [hsz] at hj
        rcases List.mem_cons.mp hr with rfl | hr
        · obtain ⟨hz0, hz1⟩ := rightZero_rat f tol X j (by omega) hz
          exact ⟨j, hP.1, hj, ⟨hstep j hP.1 hj, le_refl _⟩, Or.inl ⟨hz0, hz1, Or.inr rfl⟩⟩
        · exact hP.2 r hr⟩)
      (fun j rs r' hP hj hbr => ⟨by omega, fun r hr => by
        rw [hsz] at hj
        rcases List.mem_cons.mp hr with rfl | hr
        · have hw := hcell j hj hP.1
          obtain ⟨hl, hr'⟩ := cell_ends_inCell f X (X.map (fun x => D1.fdf f x)) j hσ h0 hw
          exact ⟨j, hP.1, hj, brent_inCell f _ _ j m r hσ h0 hw hbr, Or.inr ⟨_, _, hl, hr', hbr⟩⟩
        · exact hP.2 r hr⟩)
      (fun j rs hP hj => ⟨by omega, hP.2⟩)
      (xv.length + 1) 1 [] ⟨le_refl _, fun r hr => by cases hr⟩ h
  intro r hr
  exact hP.2 r (List.mem_reverse.mp hr)

end Cav.C11Roots
