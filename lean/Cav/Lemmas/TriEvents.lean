/-
  The three events of a single triangle, evaluated symbolically on the sweep model: the vertex
  ring `V` is abstract (only the look-ups at the leftmost `L`, middle `M` and rightmost `R`
  vertex are known), the points are abstract `Pt XQ` values, and every pure geometric test the
  model performs is a hypothesis (`FlowA`: the middle vertex is the right end of the bottom edge,
  `FlowB`: of the top edge).
-/
import Cav.Lemmas.TriRun
import Cav.Lemmas.SweepSetup

set_option linter.unusedSimpArgs false
set_option linter.unusedVariables false

namespace Cav.TriEvents
open Cav Num Cav.Sweep Cav.SweepRun Cav.TriRun Cav.SweepSetup

/-- the neighbours `(n1, n2)` of a ring vertex are `a` and `b` in some order -/
def Nbrs (n1 n2 a b : Nat) : Prop := (n1 = a ∧ n2 = b) ∨ (n1 = b ∧ n2 = a)

/-- state after the set-up loop -/
def st0 (V : Array (Vtx XQ)) (L : Nat) : St XQ :=
  { x := -(Num.inf : XQ), verts := V, nodes := #[], chains := #[], edges := #[], active := [],
    events := [(L, [])], out := [], mono := true }

/-- state after the Start event, flow A -/
def stA1 (V : Array (Vtx XQ)) (M R : Nat) (pL pM pR : Pt XQ) : St XQ :=
  { x := pL.x, verts := V, nodes := #[⟨pL, none, none⟩], chains := #[⟨0, 0, 0⟩],
    edges := #[⟨pM, 0, true, none, some 1⟩, ⟨pR, 0, false, some 0, none⟩], active := [0, 1],
    events := [(M, [0]), (R, [1])], out := [], mono := true }

/-- state after the Start event, flow B -/
def stB1 (V : Array (Vtx XQ)) (M R : Nat) (pL pM pR : Pt XQ) : St XQ :=
  { x := pL.x, verts := V, nodes := #[⟨pL, none, none⟩], chains := #[⟨0, 0, 0⟩],
    edges := #[⟨pR, 0, true, none, some 1⟩, ⟨pM, 0, false, some 0, none⟩], active := [0, 1],
    events := [(M, [1]), (R, [0])], out := [], mono := true }

/-- state after the Bend event, flow A -/
def stA2 (V : Array (Vtx XQ)) (R : Nat) (pL pM pR : Pt XQ) : St XQ :=
  { x := pM.x, verts := V, nodes := #[⟨pL, some 1, none⟩, ⟨pM, none, some 0⟩], chains := #[⟨1, 1, 0⟩],
    edges := #[⟨pR, 0, true, none, some 1⟩, ⟨pR, 0, false, some 0, none⟩], active := [0, 1],
    events := [(R, [1, 0])], out := [], mono := true }

/-- state after the Bend event, flow B -/
def stB2 (V : Array (Vtx XQ)) (R : Nat) (pL pM pR : Pt XQ) : St XQ :=
  { x := pM.x, verts := V, nodes := #[⟨pL, none, some 1⟩, ⟨pM, some 0, none⟩], chains := #[⟨1, 0, 1⟩],
    edges := #[⟨pR, 0, true, none, some 1⟩, ⟨pR, 0, false, some 0, none⟩], active := [0, 1],
    events := [(R, [0, 1])], out := [], mono := true }

/-- state after the End event, flow A -/
def stA3 (V : Array (Vtx XQ)) (pL pM pR : Pt XQ) : St XQ :=
  { x := pR.x, verts := V,
    nodes := #[⟨pL, some 1, some 2⟩, ⟨pM, none, some 2⟩, ⟨pR, some 1, none⟩], chains := #[⟨2, 1, 2⟩],
    edges := #[⟨pR, 0, true, none, some 1⟩, ⟨pR, 0, false, some 0, none⟩], active := [],
    events := [], out := [sort3 pM pL pR], mono := true }

/-- state after the End event, flow B -/
def stB3 (V : Array (Vtx XQ)) (pL pM pR : Pt XQ) : St XQ :=
  { x := pR.x, verts := V,
    nodes := #[⟨pL, none, some 2⟩, ⟨pM, some 0, some 2⟩, ⟨pR, some 0, none⟩], chains := #[⟨2, 0, 2⟩],
    edges := #[⟨pR, 0, true, none, some 1⟩, ⟨pR, 0, false, some 0, none⟩], active := [],
    events := [], out := [sort3 pL pM pR], mono := true }

section
variable (V : Array (Vtx XQ)) (L M R : Nat) (pL pM pR : Pt XQ) (l1 l2 m1 m2 r1 r2 : Nat)

theorem start_A
    (hL : V[L]? = some ⟨pL, l1, l2⟩) (hl : Nbrs l1 l2 M R)
    (hM : V[M]? = some ⟨pM, m1, m2⟩) (hR : V[R]? = some ⟨pR, r1, r2⟩)
    (hfin : Num.isFinite pL.x = true)
    (hs1 : fromTriplet pL pM pR = some .start) (hs2 : fromTriplet pL pR pM = some .start)
    (hc1 : cmpEdgeP pL pM pL pR pL.x = .lt) (hc2 : cmpEdgeP pL pR pL pM pL.x = .gt)
    (hMR : pM.cmp pR = .lt) (hRM : pR.cmp pM = .gt) :
    Runs (st0 V L) (.ok ((), stA1 V M R pL pM pR)) handleNext := by
  unfold st0 stA1 handleNext handleStart
  rcases hl with ⟨rfl, rfl⟩ | ⟨rfl, rfl⟩
  all_goals
    sm_eval [hL, hM, hR, hs1, hs2, run_cmpEdge, lpt?, lptD, hc1, hc2, hMR, hRM, hfin,
      verticalIsCrossed, verticalIsCrossed.go, eventsAdd, eventsAdd.go, search, searchPos, cmpAll,
      isMono, activeInsert]

theorem start_B
    (hL : V[L]? = some ⟨pL, l1, l2⟩) (hl : Nbrs l1 l2 M R)
    (hM : V[M]? = some ⟨pM, m1, m2⟩) (hR : V[R]? = some ⟨pR, r1, r2⟩)
    (hfin : Num.isFinite pL.x = true)
    (hs1 : fromTriplet pL pM pR = some .start) (hs2 : fromTriplet pL pR pM = some .start)
    (hc1 : cmpEdgeP pL pR pL pM pL.x = .lt) (hc2 : cmpEdgeP pL pM pL pR pL.x = .gt)
    (hMR : pM.cmp pR = .lt) (hRM : pR.cmp pM = .gt) :
    Runs (st0 V L) (.ok ((), stB1 V M R pL pM pR)) handleNext := by
  unfold st0 stB1 handleNext handleStart
  rcases hl with ⟨rfl, rfl⟩ | ⟨rfl, rfl⟩
  all_goals
    sm_eval [hL, hM, hR, hs1, hs2, run_cmpEdge, lpt?, lptD, hc1, hc2, hMR, hRM, hfin,
      verticalIsCrossed, verticalIsCrossed.go, eventsAdd, eventsAdd.go, search, searchPos, cmpAll,
      isMono, activeInsert]

theorem bend_A
    (hL : V[L]? = some ⟨pL, l1, l2⟩)
    (hM : V[M]? = some ⟨pM, m1, m2⟩) (hm : Nbrs m1 m2 L R) (hR : V[R]? = some ⟨pR, r1, r2⟩)
    (hfin : Num.isFinite pM.x = true)
    (hs1 : fromTriplet pM pL pR = some .bend) (hs2 : fromTriplet pM pR pL = some .bend)
    (hLR : pL.ge pR = false) (hRL : pR.ge pL = true)
    (hv : ofEq pR.x pM.x = true →
      ¬ (ofLt pM.y (yExtrap pL pR pM.x true) = true ∧ ofLt (yExtrap pL pR pM.x true) pR.y = true))
    (hxx : ofEq pR.x pR.x = true) (hRR : pR.cmp pR = .eq)
    (hwt : ofGt (yExtrap pM pR pR.x true) (yExtrap pL pR pR.x true) = false) :
    Runs (stA1 V M R pL pM pR) (.ok ((), stA2 V R pL pM pR)) handleNext := by
  unfold stA1 stA2 handleNext handleBend
  rcases hm with ⟨rfl, rfl⟩ | ⟨rfl, rfl⟩ <;> cases hx : ofEq pR.x pM.x
  all_goals
    have hv' : ofEq pR.x pM.x = true →
      ¬ (ofLt pM.y (yExtrap pL pR pM.x true) = true ∧ ofLt (yExtrap pL pR pM.x true) pR.y = true) := hv
    simp only [hx, forall_const, Bool.false_eq_true] at hv'
    sm_eval [hL, hM, hR, hs1, hs2, hLR, hRL, hfin, lpt?, lptD, hx, hv', run_yAt, hxx, hRR, hwt,
      willOverlapBot, willOverlapTop, chainAppend, backTriangulate, nodeTriangulate, nodeFuel,
      verticalIsCrossed, verticalIsCrossed.go, eventsAdd, eventsAdd.go]

theorem bend_B
    (hL : V[L]? = some ⟨pL, l1, l2⟩)
    (hM : V[M]? = some ⟨pM, m1, m2⟩) (hm : Nbrs m1 m2 L R) (hR : V[R]? = some ⟨pR, r1, r2⟩)
    (hfin : Num.isFinite pM.x = true)
    (hs1 : fromTriplet pM pL pR = some .bend) (hs2 : fromTriplet pM pR pL = some .bend)
    (hLR : pL.ge pR = false) (hRL : pR.ge pL = true)
    (hv : ofEq pR.x pM.x = true →
      ¬ (ofLt pM.y (yExtrap pL pR pM.x true) = true ∧ ofLt (yExtrap pL pR pM.x true) pR.y = true))
    (hxx : ofEq pR.x pR.x = true) (hRR : pR.cmp pR = .eq)
    (hwb : ofLt (yExtrap pM pR pR.x true) (yExtrap pL pR pR.x true) = false) :
    Runs (stB1 V M R pL pM pR) (.ok ((), stB2 V R pL pM pR)) handleNext := by
  unfold stB1 stB2 handleNext handleBend
  rcases hm with ⟨rfl, rfl⟩ | ⟨rfl, rfl⟩ <;> cases hx : ofEq pR.x pM.x
  all_goals
    have hv' : ofEq pR.x pM.x = true →
      ¬ (ofLt pM.y (yExtrap pL pR pM.x true) = true ∧ ofLt (yExtrap pL pR pM.x true) pR.y = true) := hv
    simp only [hx, forall_const, Bool.false_eq_true] at hv'
    sm_eval [hL, hM, hR, hs1, hs2, hLR, hRL, hfin, lpt?, lptD, hx, hv', run_yAt, hxx, hRR, hwb,
      willOverlapBot, willOverlapTop, chainAppend, backTriangulate, nodeTriangulate, nodeFuel,
      verticalIsCrossed, verticalIsCrossed.go, eventsAdd, eventsAdd.go]

theorem end_A
    (hL : V[L]? = some ⟨pL, l1, l2⟩) (hM : V[M]? = some ⟨pM, m1, m2⟩)
    (hR : V[R]? = some ⟨pR, r1, r2⟩) (hr : Nbrs r1 r2 L M)
    (hfin : Num.isFinite pM.x = true)
    (hs1 : fromTriplet pR pL pM = some .end_) (hs2 : fromTriplet pR pM pL = some .end_)
    (hg : ofGe (pL.grad pR) (pM.grad pR) = false)
    (hc1 : cmpEdgeP pM pR pM pR pM.x = .eq) (hc2 : cmpEdgeP pM pR pL pR pM.x = .lt)
    (hc3 : cmpEdgeP pL pR pL pR pM.x = .eq)
    (hcw : clockwiseSign pM pL pR = .c) :
    Runs (stA2 V R pL pM pR) (.ok ((), stA3 V pL pM pR)) handleNext := by
  unfold stA2 stA3 handleNext handleEnd
  rcases hr with ⟨rfl, rfl⟩ | ⟨rfl, rfl⟩
  all_goals
    sm_eval [hL, hM, hR, hs1, hs2, hfin, lpt?, lptD, hg, hc1, hc2, hc3, hcw, run_cmpEdge, run_edgeGrad,
      chainAppend, backTriangulate, nodeTriangulate, nodeFuel, activeRemove, search, searchPos, cmpAll,
      isMono]

theorem end_B
    (hL : V[L]? = some ⟨pL, l1, l2⟩) (hM : V[M]? = some ⟨pM, m1, m2⟩)
    (hR : V[R]? = some ⟨pR, r1, r2⟩) (hr : Nbrs r1 r2 L M)
    (hfin : Num.isFinite pM.x = true)
    (hs1 : fromTriplet pR pL pM = some .end_) (hs2 : fromTriplet pR pM pL = some .end_)
    (hg : ofGe (pL.grad pR) (pM.grad pR) = true)
    (hc1 : cmpEdgeP pL pR pL pR pM.x = .eq) (hc2 : cmpEdgeP pL pR pM pR pM.x = .lt)
    (hc3 : cmpEdgeP pM pR pM pR pM.x = .eq)
    (hcw : clockwiseSign pL pM pR = .c) :
    Runs (stB2 V R pL pM pR) (.ok ((), stB3 V pL pM pR)) handleNext := by
  unfold stB2 stB3 handleNext handleEnd
  rcases hr with ⟨rfl, rfl⟩ | ⟨rfl, rfl⟩
  all_goals
    sm_eval [hL, hM, hR, hs1, hs2, hfin, lpt?, lptD, hg, hc1, hc2, hc3, hcw, run_cmpEdge, run_edgeGrad,
      chainAppend, backTriangulate, nodeTriangulate, nodeFuel, activeRemove, search, searchPos, cmpAll,
      isMono]

end

/-! ### the set-up loop and the event loop -/

theorem sb_other (poly : Array (Pt XQ)) (n base i : Nat) (seen : List (Pt XQ)) (s : St XQ) (k : PType)
    (hv : validPt seen (poly.getD i dummyPt) = .ok (poly.getD i dummyPt :: seen))
    (hk : fromTriplet (poly.getD i dummyPt) (poly.getD ((i + n - 1) % n) dummyPt)
      (poly.getD ((i + 1) % n) dummyPt) = some k) (hne : k ≠ .start) :
    Runs s (.ok (.yield (poly.getD i dummyPt :: seen),
      { s with verts := s.verts.push ⟨poly.getD i dummyPt, base + (i + n - 1) % n, base + (i + 1) % n⟩ }))
      (setupBody poly n base i seen) := by
  unfold setupBody
  generalize poly.getD ((i + n - 1) % n) dummyPt = prevP at *
  generalize poly.getD ((i + 1) % n) dummyPt = nextP at *
  generalize poly.getD i dummyPt = pt at *
  cases k
  · exact absurd rfl hne
  all_goals
    sm_eval [hv, hk]

theorem sb_start (poly : Array (Pt XQ)) (n base i : Nat) (seen : List (Pt XQ)) (s : St XQ)
    (hv : validPt seen (poly.getD i dummyPt) = .ok (poly.getD i dummyPt :: seen))
    (hk : fromTriplet (poly.getD i dummyPt) (poly.getD ((i + n - 1) % n) dummyPt)
      (poly.getD ((i + 1) % n) dummyPt) = some .start)
    (hev : s.events = []) (hsz : s.verts.size = base + i) :
    Runs s (.ok (.yield (poly.getD i dummyPt :: seen),
      { s with verts := s.verts.push ⟨poly.getD i dummyPt, base + (i + n - 1) % n, base + (i + 1) % n⟩,
               events := [(base + i, [])] }))
      (setupBody poly n base i seen) := by
  unfold setupBody
  generalize poly.getD ((i + n - 1) % n) dummyPt = prevP at *
  generalize poly.getD ((i + 1) % n) dummyPt = nextP at *
  generalize poly.getD i dummyPt = pt at *
  sm_eval [hv, hk, hev, hsz, eventsInsertStart, eventsInsertStart.go]


theorem loop_succ_run (n : Nat) (s : St XQ) :
    (loop (n + 1)).run s =
      if s.events.isEmpty then .ok ((), s)
      else match (handleNext : SM XQ Unit).run s with
        | .ok (_, s1) => (loop n).run s1
        | .error e => .error e := by
  rw [loop]
  simp only [run_bind, run_get]
  cases h : s.events.isEmpty
  · simp only [Bool.false_eq_true, if_false, run_bind]
    cases (handleNext : SM XQ Unit).run s <;> rfl
  · simp only [if_true, run_pure]

/-- the vertex ring the set-up loop builds for the single polygon `#[A, B, C]` -/
def ring (A B C : Pt XQ) : Array (Vtx XQ) := #[⟨A, 2, 1⟩, ⟨B, 0, 2⟩, ⟨C, 1, 0⟩]

theorem setup_tri (A B C : Pt XQ) (L : Nat) (k0 k1 k2 : PType)
    (hv0 : validPt [] A = .ok [A]) (hv1 : validPt [A] B = .ok [B, A])
    (hv2 : validPt [B, A] C = .ok [C, B, A])
    (h0 : fromTriplet A C B = some k0) (h1 : fromTriplet B A C = some k1)
    (h2 : fromTriplet C B A = some k2)
    (hk : (L = 0 ∧ k0 = .start ∧ k1 ≠ .start ∧ k2 ≠ .start) ∨
      (L = 1 ∧ k0 ≠ .start ∧ k1 = .start ∧ k2 ≠ .start) ∨
      (L = 2 ∧ k0 ≠ .start ∧ k1 ≠ .start ∧ k2 = .start)) :
    (forIn [#[A, B, C]] ([] : List (Pt XQ)) polyBody).run (initSt : St XQ) =
      .ok ([C, B, A], st0 (ring A B C) L) := by
  rw [forIn_cons_run]
  have hb : (polyBody #[A, B, C] []).run (initSt : St XQ) =
      .ok (.yield [C, B, A], st0 (ring A B C) L) := by
    unfold polyBody
    rw [run_bind, setupPolygon_eq]
    have hr : List.range' 0 (#[A, B, C] : Array (Pt XQ)).size 1 = [0, 1, 2] := rfl
    rw [hr]
    simp only [List.size_toArray, List.length_cons, List.length_nil, Nat.reduceAdd, Nat.reduceLT,
      if_false]
    have g0 : (#[A, B, C] : Array (Pt XQ)).getD 0 dummyPt = A := rfl
    have g1 : (#[A, B, C] : Array (Pt XQ)).getD 1 dummyPt = B := rfl
    have g2 : (#[A, B, C] : Array (Pt XQ)).getD 2 dummyPt = C := rfl
    rcases hk with ⟨rfl, rfl, n1, n2⟩ | ⟨rfl, n0, rfl, n2⟩ | ⟨rfl, n0, n1, rfl⟩
    · rw [forIn_cons_run, (sb_start #[A, B, C] 3 (initSt : St XQ).verts.size 0 [] initSt hv0 h0 rfl rfl).run]
      simp only [g0]
      rw [forIn_cons_run, (sb_other #[A, B, C] 3 _ 1 _ _ k1 hv1 h1 n1).run]
      simp only [g1]
      rw [forIn_cons_run, (sb_other #[A, B, C] 3 _ 2 _ _ k2 hv2 h2 n2).run]
      simp only [g2]
      rw [forIn_nil_run]
      simp [initSt, st0, ring]
      rfl
    · rw [forIn_cons_run, (sb_other #[A, B, C] 3 (initSt : St XQ).verts.size 0 [] initSt k0 hv0 h0 n0).run]
      simp only [g0]
      rw [forIn_cons_run, (sb_start #[A, B, C] 3 _ 1 _ _ hv1 h1 rfl rfl).run]
      simp only [g1]
      rw [forIn_cons_run, (sb_other #[A, B, C] 3 _ 2 _ _ k2 hv2 h2 n2).run]
      simp only [g2]
      rw [forIn_nil_run]
      simp [initSt, st0, ring]
      rfl
    · rw [forIn_cons_run, (sb_other #[A, B, C] 3 (initSt : St XQ).verts.size 0 [] initSt k0 hv0 h0 n0).run]
      simp only [g0]
      rw [forIn_cons_run, (sb_other #[A, B, C] 3 _ 1 _ _ k1 hv1 h1 n1).run]
      simp only [g1]
      rw [forIn_cons_run, (sb_start #[A, B, C] 3 _ 2 _ _ hv2 h2 rfl rfl).run]
      simp only [g2]
      rw [forIn_nil_run]
      simp [initSt, st0, ring]
      rfl
  rw [hb]
  rfl


/-- the pure tests of the model that are common to both flows (`pL < pM < pR` lexicographically,
    finite abscissae) -/
structure FlowC (pL pM pR : Pt XQ) : Prop where
  finL : Num.isFinite pL.x = true
  finM : Num.isFinite pM.x = true
  sLMR : fromTriplet pL pM pR = some .start
  sLRM : fromTriplet pL pR pM = some .start
  bMLR : fromTriplet pM pL pR = some .bend
  bMRL : fromTriplet pM pR pL = some .bend
  eRLM : fromTriplet pR pL pM = some .end_
  eRML : fromTriplet pR pM pL = some .end_
  cMR : pM.cmp pR = .lt
  cRM : pR.cmp pM = .gt
  cRR : pR.cmp pR = .eq
  geLR : pL.ge pR = false
  geRL : pR.ge pL = true
  xRR : ofEq pR.x pR.x = true
  vcross : ofEq pR.x pM.x = true →
    ¬ (ofLt pM.y (yExtrap pL pR pM.x true) = true ∧ ofLt (yExtrap pL pR pM.x true) pR.y = true)

/-- flow A: the middle vertex is the right end point of the bottom edge -/
structure FlowA (pL pM pR : Pt XQ) : Prop extends FlowC pL pM pR where
  s1 : cmpEdgeP pL pM pL pR pL.x = .lt
  s2 : cmpEdgeP pL pR pL pM pL.x = .gt
  wt : ofGt (yExtrap pM pR pR.x true) (yExtrap pL pR pR.x true) = false
  g : ofGe (pL.grad pR) (pM.grad pR) = false
  r1 : cmpEdgeP pM pR pM pR pM.x = .eq
  r2 : cmpEdgeP pM pR pL pR pM.x = .lt
  r3 : cmpEdgeP pL pR pL pR pM.x = .eq
  cw : clockwiseSign pM pL pR = .c

/-- flow B: the middle vertex is the right end point of the top edge -/
structure FlowB (pL pM pR : Pt XQ) : Prop extends FlowC pL pM pR where
  s1 : cmpEdgeP pL pR pL pM pL.x = .lt
  s2 : cmpEdgeP pL pM pL pR pL.x = .gt
  wb : ofLt (yExtrap pM pR pR.x true) (yExtrap pL pR pR.x true) = false
  g : ofGe (pL.grad pR) (pM.grad pR) = true
  r1 : cmpEdgeP pL pR pL pR pM.x = .eq
  r2 : cmpEdgeP pL pR pM pR pM.x = .lt
  r3 : cmpEdgeP pM pR pM pR pM.x = .eq
  cw : clockwiseSign pL pM pR = .c

/-- the ring look-ups at the three vertices -/
structure RingAt (V : Array (Vtx XQ)) (L M R : Nat) (pL pM pR : Pt XQ) : Prop where
  hL : ∃ l1 l2, V[L]? = some ⟨pL, l1, l2⟩ ∧ Nbrs l1 l2 M R
  hM : ∃ m1 m2, V[M]? = some ⟨pM, m1, m2⟩ ∧ Nbrs m1 m2 L R
  hR : ∃ r1 r2, V[R]? = some ⟨pR, r1, r2⟩ ∧ Nbrs r1 r2 L M

theorem events_A {V : Array (Vtx XQ)} {L M R : Nat} {pL pM pR : Pt XQ}
    (hV : RingAt V L M R pL pM pR) (h : FlowA pL pM pR) :
    (loop 4).run (st0 V L) = .ok ((), stA3 V pL pM pR) := by
  obtain ⟨⟨l1, l2, hL, hl⟩, ⟨m1, m2, hM, hm⟩, ⟨r1, r2, hR, hr⟩⟩ := hV
  have e1 := (start_A V L M R pL pM pR l1 l2 m1 m2 r1 r2 hL hl hM hR h.finL h.sLMR h.sLRM h.s1 h.s2
    h.cMR h.cRM).run
  have e2 := (bend_A V L M R pL pM pR l1 l2 m1 m2 r1 r2 hL hM hm hR h.finM h.bMLR h.bMRL h.geLR h.geRL
    h.vcross h.xRR h.cRR h.wt).run
  have e3 := (end_A V L M R pL pM pR l1 l2 m1 m2 r1 r2 hL hM hR hr h.finM h.eRLM h.eRML h.g h.r1 h.r2
    h.r3 h.cw).run
  rw [loop_succ_run, show (st0 V L).events.isEmpty = false from rfl]
  simp only [Bool.false_eq_true, if_false, e1]
  rw [loop_succ_run, show (stA1 V M R pL pM pR).events.isEmpty = false from rfl]
  simp only [Bool.false_eq_true, if_false, e2]
  rw [loop_succ_run, show (stA2 V R pL pM pR).events.isEmpty = false from rfl]
  simp only [Bool.false_eq_true, if_false, e3]
  rw [loop_succ_run, show (stA3 V pL pM pR).events.isEmpty = true from rfl]
  simp only [if_true]

theorem events_B {V : Array (Vtx XQ)} {L M R : Nat} {pL pM pR : Pt XQ}
    (hV : RingAt V L M R pL pM pR) (h : FlowB pL pM pR) :
    (loop 4).run (st0 V L) = .ok ((), stB3 V pL pM pR) := by
  obtain ⟨⟨l1, l2, hL, hl⟩, ⟨m1, m2, hM, hm⟩, ⟨r1, r2, hR, hr⟩⟩ := hV
  have e1 := (start_B V L M R pL pM pR l1 l2 m1 m2 r1 r2 hL hl hM hR h.finL h.sLMR h.sLRM h.s1 h.s2
    h.cMR h.cRM).run
  have e2 := (bend_B V L M R pL pM pR l1 l2 m1 m2 r1 r2 hL hM hm hR h.finM h.bMLR h.bMRL h.geLR h.geRL
    h.vcross h.xRR h.cRR h.wb).run
  have e3 := (end_B V L M R pL pM pR l1 l2 m1 m2 r1 r2 hL hM hR hr h.finM h.eRLM h.eRML h.g h.r1 h.r2
    h.r3 h.cw).run
  rw [loop_succ_run, show (st0 V L).events.isEmpty = false from rfl]
  simp only [Bool.false_eq_true, if_false, e1]
  rw [loop_succ_run, show (stB1 V M R pL pM pR).events.isEmpty = false from rfl]
  simp only [Bool.false_eq_true, if_false, e2]
  rw [loop_succ_run, show (stB2 V R pL pM pR).events.isEmpty = false from rfl]
  simp only [Bool.false_eq_true, if_false, e3]
  rw [loop_succ_run, show (stB3 V pL pM pR).events.isEmpty = true from rfl]
  simp only [if_true]

/-- the hypotheses of `setup_tri` -/
structure SetupOk (A B C : Pt XQ) (L : Nat) : Prop where
  hv0 : validPt [] A = .ok [A]
  hv1 : validPt [A] B = .ok [B, A]
  hv2 : validPt [B, A] C = .ok [C, B, A]
  hk : ∃ k0 k1 k2, fromTriplet A C B = some k0 ∧ fromTriplet B A C = some k1 ∧
    fromTriplet C B A = some k2 ∧
    ((L = 0 ∧ k0 = .start ∧ k1 ≠ .start ∧ k2 ≠ .start) ∨
      (L = 1 ∧ k0 ≠ .start ∧ k1 = .start ∧ k2 ≠ .start) ∨
      (L = 2 ∧ k0 ≠ .start ∧ k1 ≠ .start ∧ k2 = .start))

theorem sweep_A {A B C : Pt XQ} {L M R : Nat} {pL pM pR : Pt XQ} (hs : SetupOk A B C L)
    (hV : RingAt (ring A B C) L M R pL pM pR) (h : FlowA pL pM pR) :
    sweepMon [#[A, B, C]] = .ok ([sort3 pM pL pR], true) ∧ sweep [#[A, B, C]] = .ok [sort3 pM pL pR] := by
  obtain ⟨hv0, hv1, hv2, k0, k1, k2, h0, h1, h2, hk⟩ := hs
  unfold sweepMon sweep
  rw [run_eq, setup_tri A B C L k0 k1 k2 hv0 hv1 hv2 h0 h1 h2 hk]
  simp only []
  rw [show (st0 (ring A B C) L).verts.size + 1 = 4 from rfl, events_A hV h]
  exact ⟨rfl, rfl⟩

theorem sweep_B {A B C : Pt XQ} {L M R : Nat} {pL pM pR : Pt XQ} (hs : SetupOk A B C L)
    (hV : RingAt (ring A B C) L M R pL pM pR) (h : FlowB pL pM pR) :
    sweepMon [#[A, B, C]] = .ok ([sort3 pL pM pR], true) ∧ sweep [#[A, B, C]] = .ok [sort3 pL pM pR] := by
  obtain ⟨hv0, hv1, hv2, k0, k1, k2, h0, h1, h2, hk⟩ := hs
  unfold sweepMon sweep
  rw [run_eq, setup_tri A B C L k0 k1 k2 hv0 hv1 hv2 h0 h1 h2 hk]
  simp only []
  rw [show (st0 (ring A B C) L).verts.size + 1 = 4 from rfl, events_B hV h]
  exact ⟨rfl, rfl⟩

end Cav.TriEvents
