/-
  Equal abscissae, part 16: acceptance with vertical edges allowed.
-/
import Cav.Lemmas.GenVStepW
import Cav.Lemmas.GenVAccept

set_option linter.unusedSimpArgs false
set_option linter.unusedVariables false

namespace Cav.GenVAccept
open Cav Num Cav.Geo Cav.Sweep Cav.SweepRun Cav.TriRun Cav.QuadRun Cav.QuadGeom Cav.TriEvents
open Cav.GenNodes Cav.SweepSetup Cav.GenGeom Cav.GenInv Cav.GenQueue Cav.GenRing Cav.GenSetup Cav.GenLoop
open Cav.GenAccept Cav.GenValid Cav.GenVShear Cav.GenVBridge Cav.GenVInv Cav.GenVStepW Cav.GenVSetup

variable {R : RingQ} {ε : Rat} {Vε : Array (Vtx XQ)}

/-- **the event loop from a state with `InvV`, vertical edges allowed** -/
theorem loopW_ok (hSh : ShOK R ε Vε) : ∀ (fuel : Nat) (s : St XQ) (xs X : Rat)
    (ivs : List IV), InvV R ε s xs X ivs → meas (shearRing ε R) xs < fuel →
    ∃ s', (loop fuel).run s = .ok ((), s') ∧ s'.mono = true
  | 0, _, _, _, _, _, h => by omega
  | fuel + 1, s, xs, X, ivs, hI, hf => by
    rw [loop_succ_run]
    cases hev : s.events with
    | nil => exact ⟨s, by simp, hI.mono⟩
    | cons ev rest =>
      obtain ⟨w, es⟩ := ev
      obtain ⟨s1, hrun, ivs', hI'⟩ := stepW hSh hI hev
      have hq := hI.q
      rw [hev] at hq
      have hwq := hq.gt (w, es) List.mem_cons_self
      have hm : meas (shearRing ε R) ((shearRing ε R).x w) < meas (shearRing ε R) xs := meas_lt hwq.1 hwq.2
      obtain ⟨s', hl, hmono⟩ := loopW_ok hSh fuel s1 _ _ ivs' hI' (by omega)
      refine ⟨s', ?_, hmono⟩
      simp only [List.isEmpty_cons, Bool.false_eq_true, if_false, hrun]
      exact hl

/-- **acceptance of a polygon list whose sheared ring is in order** -/
theorem acceptW_of_shOK (polys : List (Array Q)) (h3 : ∀ p ∈ polys, 3 ≤ p.size)
    (hSh : ShOK (ringOf polys) ε Vε) :
    ∃ T, sweepMon (polys.map (fun p => p.map Fq)) = .ok (T, true) := by
  obtain ⟨seen, evs, hset, hE⟩ := setupV_all polys h3 hSh
  obtain ⟨xs, hxs⟩ := exists_lt_all
    ((List.range (ringOf polys).n).map (shearRing ε (ringOf polys)).x)
  obtain ⟨X, hX⟩ := exists_lt_all ((List.range (ringOf polys).n).map (ringOf polys).x)
  have hI : InvV (ringOf polys) ε (stQ (vertsOf (cellsAll 0 polys)) evs) xs X [] :=
    invV_init hSh (vget_vertsOf polys) hE
      (fun v hv => hxs _ (List.mem_map.mpr ⟨v, List.mem_range.mpr hv, rfl⟩))
      (fun v hv => le_of_lt (hX _ (List.mem_map.mpr ⟨v, List.mem_range.mpr hv, rfl⟩)))
  obtain ⟨s', hl, hm⟩ := loopW_ok hSh ((ringOf polys).n + 1) _ xs X [] hI
    (Nat.lt_succ_of_le (meas_le xs))
  refine ⟨s'.out.reverse, ?_⟩
  unfold sweepMon
  rw [run_eq, hset]
  have hsz : (stQ (vertsOf (cellsAll 0 polys)) evs).verts.size = (ringOf polys).n := (vget_vertsOf polys).1
  simp only [hsz, hl, hm]

end Cav.GenVAccept
