/-
  Registration of edges in the event queue (towards "no index panic", C15 over `XQ`).
  `evLen evs w` is the number of edge ids registered for vertex `w` in the queue `evs`.
  Every program of the sweep except `eventsAdd` leaves the queue alone; `eventsAdd vi ei` adds
  one to `evLen · vi` and keeps every key.  A two-invariant variant `Pres2` of the calculus of
  `SweepHoare` (errors ignored) carries lower bounds on `evLen` through the handlers.
-/
import Cav.Lemmas.SweepEvents

set_option linter.unusedSectionVars false
set_option linter.unusedVariables false

namespace Cav.SweepReg
open Cav Num Cav.Geo Cav.Sweep Cav.SweepRun Cav.SweepHoare Cav.SweepFrame Cav.SweepEvents

variable {α : Type} {β γ : Type}

/-- from `I` to `J`, results satisfy `G`; errors are ignored -/
def Pres2 (I J : St α → Prop) (G : β → Prop) (m : SM α β) : Prop :=
  ∀ s, I s → ∀ b s', m.run s = .ok (b, s') → J s' ∧ G b

abbrev AnyE : SErr α → Prop := fun _ => True

variable {I J K : St α → Prop}

theorem Pres2.pure {G : β → Prop} {b : β} (hIJ : ∀ s, I s → J s) (h : G b) :
    Pres2 I J G (Pure.pure b : SM α β) := by
  intro s hs b' s' hr
  cases hr
  exact ⟨hIJ s hs, h⟩

theorem Pres2.throw {G : β → Prop} {e : SErr α} : Pres2 I J G (MonadExcept.throw e : SM α β) := by
  intro s hs b' s' hr
  cases hr

theorem Pres2.bind {G1 : β → Prop} {G : γ → Prop} {m : SM α β} {f : β → SM α γ}
    (hm : Pres2 I K G1 m) (hf : ∀ b, G1 b → Pres2 K J G (f b)) : Pres2 I J G (m >>= f) := by
  intro s hs c s' hr
  obtain ⟨b, s1, h1, h2⟩ := bind_ok.mp hr
  obtain ⟨hk, hg⟩ := hm s hs b s1 h1
  exact hf b hg s1 hk c s' h2

theorem Pres2.of_pres {G1 : β → Prop} {m : SM α β} (hm : Pres I AnyE G1 m) : Pres2 I I G1 m := by
  intro s hs b s' hr
  exact hm.ok hs hr

theorem Pres2.bind_fr {G1 : β → Prop} {G : γ → Prop} {m : SM α β} {f : β → SM α γ}
    (hm : Pres I AnyE G1 m) (hf : ∀ b, G1 b → Pres2 I J G (f b)) : Pres2 I J G (m >>= f) :=
  Pres2.bind (Pres2.of_pres hm) hf

theorem Pres2.bind_same {G : γ → Prop} {m : SM α β} {f : β → SM α γ}
    (hm : Pres2 I I (fun _ => True) m) (hf : ∀ b, True → Pres2 I J G (f b)) :
    Pres2 I J G (m >>= f) :=
  Pres2.bind hm hf

theorem Pres2.weaken {G1 G : β → Prop} {m : SM α β} (hm : Pres2 I K G1 m)
    (hKJ : ∀ s, K s → J s) (hG : ∀ b, G1 b → G b) : Pres2 I J G m := by
  intro s hs b s' hr
  obtain ⟨hk, hg⟩ := hm s hs b s' hr
  exact ⟨hKJ s' hk, hG b hg⟩

theorem Pres2.weaken_fr {G1 G : β → Prop} {m : SM α β} (hm : Pres I AnyE G1 m)
    (hIJ : ∀ s, I s → J s) (hG : ∀ b, G1 b → G b) : Pres2 I J G m :=
  Pres2.weaken (Pres2.of_pres hm) hIJ hG

theorem Pres2.pure_bind {G : γ → Prop} {a : β} {f : β → SM α γ}
    (h : Pres2 I J G (f a)) : Pres2 I J G (Pure.pure a >>= f) := by
  rwa [LawfulMonad.pure_bind]

theorem Pres2.throw_bind {G : γ → Prop} {e : SErr α} {f : β → SM α γ} :
    Pres2 I J G ((MonadExcept.throw e : SM α β) >>= f) := by
  intro s hs b s' hr
  rw [run_bind] at hr
  cases hr

theorem Pres2.ok {G : β → Prop} {m : SM α β} (h : Pres2 I J G m) {s s' : St α} {b : β} (hs : I s)
    (hr : m.run s = .ok (b, s')) : J s' ∧ G b := h s hs b s' hr

attribute [irreducible] Pres2

open Lean Meta Elab Tactic in
/-- succeeds iff the program of the goal is `pure … >>= _` resp. `throw … >>= _` -/
elab "guard_bind_head " which:ident : tactic => do
  let g ← getMainGoal
  let t := (← instantiateMVars (← g.getType)).consumeMData
  unless t.isApp do throwError "guard_bind_head: not an application"
  let prog := t.appArg!
  unless prog.getAppFn.isConstOf ``Bind.bind && prog.getAppNumArgs == 6 do
    throwError "guard_bind_head: not a bind"
  let m := prog.getAppArgs[4]!
  let ok := match which.getId.eraseMacroScopes with
    | `pure => m.getAppFn.isConstOf ``Pure.pure
    | `throw => m.getAppFn.isConstOf ``MonadExcept.throw || m.getAppFn.isConstOf ``throwThe
    | _ => false
  unless ok do throwError "guard_bind_head: other head"

open Lean Meta Elab Tactic in
/-- applies the lemma `f_lb` for the program `f args` of the goal -/
elab "lb_lookup" : tactic => do
  let g ← getMainGoal
  let t := (← instantiateMVars (← g.getType)).consumeMData
  unless t.isApp do throwError "lb_lookup: not an application"
  let prog := t.appArg!
  let .const c _ := prog.getAppFn | throwError "lb_lookup: no head constant"
  let base := c.replacePrefix `Cav.Sweep .anonymous
  if base == c then throwError "lb_lookup: not a model function"
  let str := (base.toString (escape := false)).replace "." "_"
  let id := mkIdent (Name.mkSimple (str ++ "_lb"))
  evalTactic (← `(tactic| (apply $id <;> first | assumption | pres_side)))

open Lean Meta Elab Tactic in
/-- closes the goal with a hypothesis `∀ args, Pres2 …` (join point) -/
elab "apply_p2_hyp" : tactic => do
  let g ← getMainGoal
  g.withContext do
    for ld in (← getLCtx) do
      if ld.isImplementationDetail then continue
      let isP ← forallTelescopeReducing ld.type fun _ body => do
        let body ← whnfR body
        return body.getAppFn.isConstOf ``Pres2
      if isP then
        let saved ← saveState
        try
          let gs ← g.apply ld.toExpr
          if gs.isEmpty then
            replaceMainGoal []
            return
          else
            restoreState saved
        catch _ =>
          restoreState saved
    throwError "apply_p2_hyp: no hypothesis applies"

/-- side conditions of `Pres2` goals; extensible -/
syntax "p2_side" : tactic
macro_rules | `(tactic| p2_side) => `(tactic| exact True.intro)
macro_rules | `(tactic| p2_side) => `(tactic| assumption)
macro_rules | `(tactic| p2_side) => `(tactic| exact fun _ h => h)

/-- a frame program: `get`, `modify` of fields other than `verts`/`events`, or a `_fr` lemma -/
syntax "fr_prim" : tactic
macro_rules | `(tactic| fr_prim) => `(tactic| pres_lookup)
macro "fr_modify" : tactic =>
  `(tactic| (refine Pres.modify (G := fun _ => True) ?_ True.intro; intro _ _; p2_side))
macro_rules | `(tactic| fr_prim) => `(tactic| fr_modify)
macro_rules | `(tactic| fr_prim) => `(tactic| exact Pres.get)

macro "p2_step" : tactic => `(tactic| first
  | jp_intro
  | (refine Pres2.pure ?_ ?_; (· p2_side); (· p2_side))
  | exact Pres2.throw
  | (guard_bind_head throw; exact Pres2.throw_bind)
  | (guard_bind_head pure; refine Pres2.pure_bind ?_)
  | apply_p2_hyp
  | (guard_bind; apply Pres2.bind; (· lb_lookup))
  | (guard_bind; apply Pres2.bind_fr; (· fr_prim))
  | (apply Pres2.weaken; (· lb_lookup); (· p2_side); (· intros; p2_side))
  | (apply Pres2.weaken_fr; (· fr_prim); (· p2_side); (· intros; p2_side))
  | (guard_bind; refine Pres2.bind_same ?_ ?_)
  | intro _
  | split)

macro "p2_auto" : tactic => `(tactic| repeat p2_step)

/-! ### number of registered edges -/

/-- number of edge ids registered for vertex `w` -/
def evLen : List (Nat × List Nat) → Nat → Nat
  | [], _ => 0
  | (k, es) :: r, w => (if k = w then es.length else 0) + evLen r w

theorem evLen_pos_mem {evs : List (Nat × List Nat)} {w : Nat} (h : 0 < evLen evs w) :
    ∃ a ∈ evs, a.1 = w := by
  induction evs with
  | nil => simp [evLen] at h
  | cons a r ih =>
    obtain ⟨k, es⟩ := a
    by_cases hk : k = w
    · exact ⟨(k, es), List.mem_cons_self, hk⟩
    · simp only [evLen, hk, if_false, Nat.zero_add] at h
      obtain ⟨a, ha, haw⟩ := ih h
      exact ⟨a, List.mem_cons_of_mem _ ha, haw⟩

theorem evLen_eq_zero {evs : List (Nat × List Nat)} {w : Nat} (h : ∀ a ∈ evs, a.1 ≠ w) :
    evLen evs w = 0 := by
  induction evs with
  | nil => rfl
  | cons a r ih =>
    obtain ⟨k, es⟩ := a
    have hk : k ≠ w := h (k, es) List.mem_cons_self
    simp only [evLen, hk, if_false, Nat.zero_add]
    exact ih (fun a ha => h a (List.mem_cons_of_mem _ ha))


/-! ### lower bounds on the registrations (over `XQ`, distinct finite vertex points) -/

/-- different vertices have different points -/
def Inj (V : Array (Vtx XQ)) : Prop :=
  ∀ (i j : Nat) (vi vj : Vtx XQ), V[i]? = some vi → V[j]? = some vj → toQ vi.p = toQ vj.p → i = j

/-- `c` plus one registration at `vi` -/
def bump (c : Nat → Nat) (vi : Nat) : Nat → Nat := fun w => c w + if w = vi then 1 else 0

/-- the vertex ring is `V`, vertex `w` has at least `c w` registered edges, every vertex of `ks`
    is in the queue -/
def Lb (V : Array (Vtx XQ)) (c : Nat → Nat) (ks : List Nat) (s : St XQ) : Prop :=
  s.verts = V ∧ (∀ w, c w ≤ evLen s.events w) ∧ ∀ k ∈ ks, ∃ a ∈ s.events, a.1 = k

variable {V : Array (Vtx XQ)} {c : Nat → Nat} {ks : List Nat}

theorem veInv_lb (V : Array (Vtx XQ)) (c : Nat → Nat) (ks : List Nat) : VEInv (Lb V c ks) := by
  intro s s' hv he h
  unfold Lb at *
  rw [hv, he]; exact h

theorem lb_swap {a b : Nat} {s : St XQ} (h : Lb V (bump (bump c b) a) ks s) :
    Lb V (bump (bump c a) b) ks s := by
  refine ⟨h.1, ?_, h.2.2⟩
  intro w
  have := h.2.1 w
  unfold bump at *
  omega

theorem eventsAdd_go_len (hfin : AllFin V) (hinj : Inj V) (vi ei : Nat) (v : Vtx XQ)
    (hv : V[vi]? = some v) :
    ∀ (l : List (Nat × List Nat)) (s : St XQ) (l' : List (Nat × List Nat)) (s' : St XQ),
      s.verts = V → (eventsAdd.go vi ei v.p l).run s = .ok (l', s') →
      (∀ w, evLen l' w = evLen l w + if w = vi then 1 else 0) ∧
        ∀ a ∈ l, ∃ a' ∈ l', a'.1 = a.1 := by
  intro l
  induction l with
  | nil =>
    intro s l' s' hs h
    unfold eventsAdd.go at h
    cases h
    refine ⟨?_, by intro a ha; cases ha⟩
    intro w
    by_cases hw : w = vi
    · subst hw; simp [evLen]
    · have : vi ≠ w := fun h => hw h.symm
      simp [evLen, hw, this]
  | cons ke rest ih =>
    obtain ⟨k, es⟩ := ke
    intro s l' s' hs h
    unfold eventsAdd.go at h
    simp only [bind_ok, getVtx_ok] at h
    obtain ⟨kv, s1, ⟨hk, rfl⟩, h⟩ := h
    rw [hs] at hk
    have fv := hfin vi v hv
    have fk := hfin k kv hk
    split at h
    · -- lt: new entry in front
      cases h
      refine ⟨?_, ?_⟩
      · intro w
        by_cases hw : w = vi
        · subst hw; simp [evLen]; omega
        · have : vi ≠ w := fun h => hw h.symm
          simp [evLen, hw, this]
      · intro a ha
        exact ⟨a, List.mem_cons_of_mem _ ha, rfl⟩
    · -- eq: same point, hence the same vertex
      rename_i hc
      cases h
      have hkv : vi = k := hinj vi k v kv hv hk ((cmp_eq_iff fv fk).mp hc)
      subst hkv
      refine ⟨?_, ?_⟩
      · intro w
        by_cases hw : w = vi
        · subst hw; simp [evLen]; omega
        · have : vi ≠ w := fun h => hw h.symm
          simp [evLen, hw, this]
      · intro a ha
        rcases List.mem_cons.mp ha with rfl | ha
        · exact ⟨_, List.mem_cons_self, rfl⟩
        · exact ⟨a, List.mem_cons_of_mem _ ha, rfl⟩
    · -- gt: further down
      rename_i hc
      simp only [bind_ok, run_pure, Except.ok.injEq, Prod.mk.injEq] at h
      obtain ⟨r', s2, hgo, rfl, rfl⟩ := h
      obtain ⟨hlen, hkeys⟩ := ih s1 r' s2 hs hgo
      have hne : k ≠ vi := by
        intro hkv
        subst hkv
        rw [hv] at hk; cases hk
        have := (cmp_gt_iff fv fv).mp hc
        exact lexLt_irrefl _ this
      refine ⟨?_, ?_⟩
      · intro w
        simp only [evLen]
        rw [hlen w]
        omega
      · intro a ha
        rcases List.mem_cons.mp ha with rfl | ha
        · exact ⟨_, List.mem_cons_self, rfl⟩
        · obtain ⟨a', ha', e⟩ := hkeys a ha
          exact ⟨a', List.mem_cons_of_mem _ ha', e⟩

theorem eventsAdd_lb (hfin : AllFin V) (hinj : Inj V) (vi ei : Nat) :
    Pres2 (Lb V c ks) (Lb V (bump c vi) ks) (fun _ => True) (eventsAdd vi ei : SM XQ _) := by
  unfold Pres2
  intro s hs b s' hr
  obtain ⟨hV, hlb, hks⟩ := hs
  unfold eventsAdd at hr
  simp only [bind_ok, run_get, Except.ok.injEq, Prod.mk.injEq, getVtx_ok, run_modify] at hr
  obtain ⟨s0, s1, ⟨e0, e1⟩, v, s2, ⟨hv, e2⟩, l', s3, hgo, -, e3⟩ := hr
  subst e0 e1 e2 e3
  rw [hV] at hv
  obtain ⟨hlen, hkeys⟩ := eventsAdd_go_len hfin hinj vi ei v hv _ _ _ _ hV hgo
  have hs3 := (eventsAdd_go_ok V hfin vi ei v hv _ _ l' s3 hV hgo).1
  subst hs3
  refine ⟨⟨hV, ?_, ?_⟩, trivial⟩
  · intro w
    simp only
    rw [hlen w]
    have := hlb w
    unfold bump
    omega
  · intro k hk
    obtain ⟨a, ha, e⟩ := hks k hk
    obtain ⟨a', ha', e'⟩ := hkeys a ha
    exact ⟨a', ha', e'.trans e⟩

theorem getVtx_lb (i : Nat) :
    Pres2 (Lb V c ks) (Lb V c ks) (fun v => V[i]? = some v) (getVtx i : SM XQ _) := by
  unfold Pres2
  intro s hs b s' hr
  obtain ⟨h, rfl⟩ := getVtx_ok.mp hr
  exact ⟨hs, by rw [← hs.1]; exact h⟩

macro_rules | `(tactic| pres_side) => `(tactic| exact veInv_lb _ _ _)
macro_rules | `(tactic| pres_side) => `(tactic| exact fun _ => True.intro)
macro_rules | `(tactic| p2_side) => `(tactic| exact veInv_lb _ _ _ _ _ rfl rfl (by assumption))


/-! ### the handlers -/

theorem handleEnd_lb (p : Pt XQ) (r : List Nat) :
    Pres2 (Lb V c ks) (Lb V c ks) (fun _ => True) (handleEnd p r) := by
  unfold handleEnd; p2_auto

/-- `(lpBot, lpTop)` is `(lp1, lp2)` or `(lp2, lp1)` -/
macro "lb_pick" : tactic =>
  `(tactic| (have hh := ‹(if _ then _ else _) = (_, _, _, _)›
             split at hh <;> cases hh <;> first | exact fun _ h => h | exact fun _ h => lb_swap h))
macro_rules | `(tactic| p2_side) => `(tactic| lb_pick)

theorem handleStart_lb (hfin : AllFin V) (hinj : Inj V) (p : Pt XQ) (lp1 lp2 : Nat) :
    Pres2 (Lb V c ks) (Lb V (bump (bump c lp1) lp2) ks) (fun _ => True)
      (handleStart p lp1 lp2) := by
  unfold handleStart; p2_auto

macro_rules | `(tactic| p2_side) => `(tactic| exact fun _ h => ⟨_, _, by assumption, by assumption, h⟩)

theorem handleBend_lb (hfin : AllFin V) (hinj : Inj V) (p : Pt XQ) (lp1 lp2 : Nat) (r : List Nat) :
    Pres2 (Lb V c ks)
      (fun s => ∃ v1 v2, V[lp1]? = some v1 ∧ V[lp2]? = some v2 ∧
        Lb V (bump c (if v1.p.ge v2.p then lp1 else lp2)) ks s) (fun _ => True)
      (handleBend p lp1 lp2 r) := by
  unfold handleBend; p2_auto

end Cav.SweepReg
