/-
  Concrete instances used by the `example`s of `Thm/C07`, `C11`–`C14` (non-vacuity of the
  hypotheses).  All facts are checked by kernel evaluation of the model over `Rat`
  (`decide +kernel`: no compiler, no extra axioms).

    f(x) = x,  c(y) = y²  ⇒  g(x) = x − x²,  g'(x) = 1 − 2x  vanishes at the grid point 1/2,
    so `[0,1]` is split into the two pieces `[0,1/2]`, `[1/2,1]`.
-/
import Cav.Model.Disp2D
import Cav.Inst.Rat

namespace Cav.DispEx
open Cav Num Gen

/-- `f(x) = x` -/
def idF : AD Rat → AD Rat := fun a => a
/-- `c(y) = y²` -/
def sqC : AD Rat → AD Rat := fun a => AD.mul a a
/-- `c(y) = y² + 7` -/
def sqC7 : AD Rat → AD Rat := fun a => AD.add (AD.mul a a) ⟨7, 0⟩
/-- `xRes = yRes = 2`, one intermediate curve, integration on -/
def cfgEx : Cfg2D Rat := ⟨true, 2, 2, 1, 20, 20, 1/100⟩
/-- the same without integration -/
def cfgExNoInt : Cfg2D Rat := ⟨false, 2, 2, 1, 20, 20, 1/100⟩

/-- end points of the displays of a run (`none` for a failed run) -/
def ends (r : Except DispErr (List (Disp2D Rat))) : Option (List (Rat × Rat)) :=
  match r with
  | .ok ds => some (ds.map fun d => (d.a, d.b))
  | .error _ => none

theorem ends_some {r : Except DispErr (List (Disp2D Rat))} {l : List (Rat × Rat)}
    (h : ends r = some l) : ∃ ds, r = .ok ds ∧ ds.map (fun d => (d.a, d.b)) = l := by
  cases r with
  | error e => cases h
  | ok ds => exact ⟨ds, rfl, by simpa [ends] using h⟩

theorem cav_run_ends : ends (genDisplayCav idF sqC [(0, 1)] cfgEx) = some [(0, 1/2), (1/2, 1)] := by
  decide +kernel

theorem cav_run_ends_noInt :
    ends (genDisplayCav idF sqC [(0, 1)] cfgExNoInt) = some [(0, 1/2), (1/2, 1)] := by
  decide +kernel

theorem cav_run_ends_two :
    ends (genDisplayCav idF sqC [(0, 1), (2, 3)] cfgExNoInt) =
      some [(0, 1/2), (1/2, 1), (2, 3)] := by
  decide +kernel

theorem cav_run_ends_second :
    ends (genDisplayCav idF sqC [(2, 3)] cfgExNoInt) = some [(2, 3)] := by
  decide +kernel

theorem rs_run_ends :
    ends (genDisplayRs idF (cavG idF sqC 0) [(0, 1)] cfgEx) = some [(0, 1/2), (1/2, 1)] := by
  decide +kernel

theorem rs_run_ends_second :
    ends (genDisplayRs idF (cavG idF sqC 0) [(2, 3)] cfgEx) = some [(2, 3)] := by
  decide +kernel

end Cav.DispEx
