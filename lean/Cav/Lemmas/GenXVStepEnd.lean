/-
  Failure side with equal abscissae, part 6: the End event under `XInvV` (closing and merging; the
  two edges ending in the vertex may be vertical): the structural checks of `handleEnd` pass
  (the searches run at the OLD sweep abscissa: order `ordM`); either the look-ahead test of the
  two edges that become neighbours is negative, the event succeeds and `XInvV` holds again, or
  the model stops with `.overlap .end_`.  (Merge of `xstep_end_*` and `stepW_end_*`.)
-/
import Cav.Lemmas.GenXVStepBend

set_option linter.unusedSimpArgs false
set_option linter.unusedVariables false

namespace Cav.GenXV
open Cav Num Cav.Geo Cav.Sweep Cav.TriRun Cav.QuadRun Cav.QuadGeom Cav.CvxFlows Cav.SweepOut
open Cav.GenNodes Cav.GenQuery Cav.GenGeom Cav.GenBend Cav.GenInv Cav.GenQueue Cav.GenOrder
open Cav.GenLinks Cav.GenStepBend Cav.GenStepEnd Cav.GenEnd Cav.TriGeom Cav.GenVShear Cav.GenVBridge
open Cav.GenVInv Cav.GenVHeap Cav.GenXGeom Cav.GenXFlat Cav.GenXFail Cav.GenXStep Cav.GenXVFail

variable {R : RingQ} {ε : Rat} {Vε : Array (Vtx XQ)}

/-- **the closing End keeps the invariant** -/
theorem xstepV_end_close (hSh : ShX R ε Vε) {s : St XQ} {xs X : Rat} {pre post : List IV} {iv : IV}
    (hX : XInvV R ε s xs X (pre ++ iv :: post))
    {w : Nat} {es : List Nat} {rest : List (Nat × List Nat)} (hev : s.events = (w, es) :: rest)
    (hx0 : (shearRing ε R).x (R.prv w) < (shearRing ε R).x w) (hx1 : (shearRing ε R).x (R.nxt w) < (shearRing ε R).x w)
    (hbr : iv.lo.rv = w) (htr : iv.hi.rv = w)
    (hes : es = [iv.lo.id, iv.hi.id] ∨ es = [iv.hi.id, iv.lo.id])
    (honly : ∀ a ∈ flatE (pre ++ iv :: post), a.rv = w → a = iv.lo ∨ a = iv.hi) :
    (∃ s', (handleNext : SM XQ Unit).run s = .ok ((), s') ∧
      ∃ ivs', XInvV R ε s' ((shearRing ε R).x w) (R.x w) ivs') ∨
      ∃ k, (handleNext : SM XQ Unit).run s = .error (.overlap k (Fq (R.pt w))) := by
  have hI := hX.inv
  have hR := hSh.ring
  have hq := hI.q
  rw [hev] at hq
  have hflat : flatE (pre ++ iv :: post) = flatE pre ++ iv.lo :: iv.hi :: flatE post := by simp
  have hwq := hq.gt (w, es) List.mem_cons_self
  have hwn : w < R.n := hwq.1
  have hnoright : ∀ v, v < R.n → Adj R w v → ¬ (shearRing ε R).x w < (shearRing ε R).x v := by
    intro v _ hadj
    rcases adj_cases hadj with h | h
    · rw [h]; exact not_lt.mpr (le_of_lt hx1)
    · rw [h]; exact not_lt.mpr (le_of_lt hx0)
  obtain ⟨g1, -, -, g4, g5, g6, g7⟩ := xend_flat hR (F1 := flatE pre) (F2 := flatE post)
    (bot := iv.lo) (top := iv.hi) (by rw [← hflat]; exact hI.span) (by rw [← hflat]; exact hI.sorted)
    (by rw [← hflat]; exact hX.tested) (by rw [← hflat]; exact hq) (by rw [← hflat]; exact hI.cross) hbr htr
    (by rw [← hflat]; exact honly) hnoright
  have hsx : s.x = .fin X := hI.sx (by simp)
  have hcpl := cpl_atX hSh hwn
  have hreach := reach_head hq
  have hadv := ordM_advance hSh hI.cpl hwn hwq.2 hI.span hI.sorted hX.tested (fun a ha => (hreach a ha).1)
    hq.uniq hX.ordM
  have hnd : (flatE pre ++ iv.lo :: iv.hi :: flatE post).Nodup := by
    rw [← hflat]; exact nodup_of_pairwise_below hI.sorted
  obtain ⟨hlohi, hothers⟩ := nodup_mid hnd
  have hlo_mem : iv.lo ∈ flatE (pre ++ iv :: post) := by rw [hflat]; simp
  have hhi_mem : iv.hi ∈ flatE (pre ++ iv :: post) := by rw [hflat]; simp
  have hidne : ∀ a ∈ flatE (pre ++ iv :: post), ∀ b ∈ flatE (pre ++ iv :: post), a ≠ b → a.id ≠ b.id :=
    fun a ha b hb hne e => hne (hq.idinj a ha b hb e)
  have hcine : ∀ j ∈ pre ++ post, j.ci ≠ iv.ci := by
    have := hI.cind
    rw [List.map_append, List.map_cons] at this
    intro j hj
    have hm : j.ci ∈ pre.map (·.ci) ++ post.map (·.ci) := by
      rw [← List.map_append]; exact List.mem_map_of_mem hj
    exact nodup_mid1 this _ hm
  obtain ⟨hc1, hc2, hc3⟩ := Linked.mid hI.lk
  have hc3' := hc3
  obtain ⟨c, hc, hrm, hh, ht⟩ := hc3
  obtain ⟨h, hnode⟩ := node_of_ptAt ht
  have hspb := hI.span iv.lo hlo_mem
  have hspt := hI.span iv.hi hhi_mem
  obtain ⟨g2, g3⟩ := gradsWX hSh hspb hspt hbr htr g1
  -- order of the list around the two edges
  have hP := hI.sorted
  rw [hflat, List.pairwise_append] at hP
  obtain ⟨hPpre, hPmid, hPcross⟩ := hP
  rw [List.pairwise_cons, List.pairwise_cons] at hPmid
  obtain ⟨hlo_above, hhi_above, hPpost⟩ := hPmid
  have hM := hX.ordM
  rw [hflat, List.pairwise_append] at hM
  obtain ⟨-, hMmid, hMcross⟩ := hM
  rw [List.pairwise_cons, List.pairwise_cons] at hMmid
  obtain ⟨hlo_aboveM, hhi_aboveM, -⟩ := hMmid
  -- cells
  have hb : s.edges[iv.lo.id]? = some ⟨Fq (R.pt w), iv.ci, true, lastHi pre none, some iv.hi.id⟩ := by
    have := hc1; unfold ECell at this; rw [hbr] at this; exact this
  have htc : s.edges[iv.hi.id]? = some ⟨Fq (R.pt w), iv.ci, false, some iv.lo.id, nxtLo post none⟩ := by
    have := hc2; unfold ECell at this; rw [htr] at this; exact this
  have hlb : lpt? s ⟨Fq (R.pt w), iv.ci, true, lastHi pre none, some iv.hi.id⟩ =
      some (Fq (R.pt iv.lo.lv)) := by
    have := lpt_lo hc1 hc3'; rw [hbr] at this; exact this
  have hlt : lpt? s ⟨Fq (R.pt w), iv.ci, false, some iv.lo.id, nxtLo post none⟩ =
      some (Fq (R.pt iv.hi.lv)) := by
    have := lpt_hi hc2 hc3'; rw [htr] at this; exact this
  have hact : s.active = (flatE pre).map (·.id) ++ iv.lo.id :: iv.hi.id :: (flatE post).map (·.id) := by
    rw [hI.act, hflat]; simp
  have hpremem : ∀ x ∈ flatE pre, x ∈ flatE (pre ++ iv :: post) := fun x hx => mem_flatE_append_left hx
  have hpostmem : ∀ x ∈ flatE post, x ∈ flatE (pre ++ iv :: post) := fun x hx => mem_flatE_append_right hx
  have hPb := cmpsX_below hSh hI.cpl hI.lk hsx (key := iv.lo) hpremem hI.span hspb
    (fun x hx => hMcross x hx _ List.mem_cons_self)
  have hPt := cmpsX_below hSh hI.cpl hI.lk hsx (key := iv.hi) hpremem hI.span hspt
    (fun x hx => hMcross x hx _ (List.mem_cons_of_mem _ List.mem_cons_self))
  have hQb := cmpsX_above hSh hI.cpl hI.lk hsx (key := iv.lo) hpostmem hI.span hspb
    (fun x hx => hlo_aboveM x (List.mem_cons_of_mem _ hx))
  have hQt := cmpsX_above hSh hI.cpl hI.lk hsx (key := iv.hi) hpostmem hI.span hspt
    (fun x hx => hhi_aboveM x hx)
  rw [hbr] at hPb hQb
  rw [htr] at hPt hQt
  have hbt : cmpEdgeP (Fq (R.pt iv.lo.lv)) (Fq (R.pt w)) (Fq (R.pt iv.hi.lv)) (Fq (R.pt w)) s.x = .lt := by
    have := (cmp_of_belowM (edge_lexX hSh hspb) (edge_lexX hSh hspt) (span_orig hI.cpl hspb).1 (span_orig hI.cpl hspb).2
      (span_orig hI.cpl hspt).1 (span_orig hI.cpl hspt).2 (hlo_aboveM iv.hi List.mem_cons_self)).1
    rw [hbr, htr] at this
    rw [hsx]; exact this
  -- partners
  have hbP : EndPartner s iv.lo.id iv.hi.id (lastHi pre none) := by
    rcases lastHi_cases pre none with ⟨-, e⟩ | ⟨pre', ivb, e1, e2⟩
    · exact Or.inl e
    · right
      have hivb : ivb ∈ pre ++ iv :: post := by rw [e1]; simp
      obtain ⟨_, _, -, hcb, -⟩ := Linked.mem hI.lk ivb hivb
      have hm : ivb.hi ∈ flatE pre := by rw [e1]; simp
      refine ⟨ivb.hi.id, _, e2, ?_, ?_, hcb⟩
      · exact hidne _ (hpremem _ hm) _ hlo_mem (hothers _ (List.mem_append_left _ hm)).1
      · exact hidne _ (hpremem _ hm) _ hhi_mem (hothers _ (List.mem_append_left _ hm)).2
  have htP : EndPartner s iv.lo.id iv.hi.id (nxtLo post none) := by
    rcases nxtLo_cases post none with ⟨-, e⟩ | ⟨ivt, post', e1, e2⟩
    · exact Or.inl e
    · right
      have hivt : ivt ∈ pre ++ iv :: post := by rw [e1]; simp
      obtain ⟨_, _, hct, -, -⟩ := Linked.mem hI.lk ivt hivt
      have hm : ivt.lo ∈ flatE post := by rw [e1]; simp
      refine ⟨ivt.lo.id, _, e2, ?_, ?_, hct⟩
      · exact hidne _ (hpostmem _ hm) _ hlo_mem (hothers _ (List.mem_append_right _ hm)).1
      · exact hidne _ (hpostmem _ hm) _ hhi_mem (hothers _ (List.mem_append_right _ hm)).2
  -- an upper edge of `pre` and a lower edge of `post` are different
  have hprepost : ∀ x ∈ flatE pre, ∀ y ∈ flatE post, x.id ≠ y.id := by
    intro x hx y hy
    apply hidne _ (hpremem _ hx) _ (hpostmem _ hy)
    rintro rfl
    rw [List.nodup_append] at hnd
    exact hnd.2.2 x hx x (List.mem_cons_of_mem _ (List.mem_cons_of_mem _ hy)) rfl
  have hbbtt : ∀ k, lastHi pre none = some k → nxtLo post none ≠ some k := by
    intro k h1 h2
    obtain ⟨pre', ivb, e1, rfl⟩ := lastHi_eq_some h1
    obtain ⟨ivt, post', e2, e3⟩ := nxtLo_eq_some h2
    exact hprepost ivb.hi (by rw [e1]; simp) ivt.lo (by rw [e2]; simp) e3
  -- the look-ahead test of the edges that become neighbours
  have hdec : (∀ pre' ivb ivt post', pre = pre' ++ [ivb] → post = ivt :: post' →
        wotP (Fq (R.pt ivb.hi.lv)) (Fq (R.pt ivb.hi.rv)) (Fq (R.pt ivt.lo.lv)) (Fq (R.pt ivt.lo.rv)) = false) ∨
      (∃ pre' ivb ivt post', pre = pre' ++ [ivb] ∧ post = ivt :: post' ∧
        wotP (Fq (R.pt ivb.hi.lv)) (Fq (R.pt ivb.hi.rv)) (Fq (R.pt ivt.lo.lv)) (Fq (R.pt ivt.lo.rv)) = true) := by
    rcases List.eq_nil_or_concat pre with e0 | ⟨pre', ivb, e1⟩
    · left; intro p1 b1 t1 q1 h1 _; rw [e0] at h1; simp at h1
    · rw [List.concat_eq_append] at e1
      cases hpost : post with
      | nil => left; intro p1 b1 t1 q1 _ h2; cases h2
      | cons ivt post' =>
        cases hv : wotP (Fq (R.pt ivb.hi.lv)) (Fq (R.pt ivb.hi.rv)) (Fq (R.pt ivt.lo.lv)) (Fq (R.pt ivt.lo.rv))
        · left
          intro p1 b1 t1 q1 h1 h2
          have hb1 : b1 = ivb := by
            have := congrArg List.getLast? (e1.symm.trans h1)
            simpa using this.symm
          cases h2
          rw [hb1]; exact hv
        · right
          exact ⟨pre', ivb, ivt, post', e1, rfl, hv⟩
  rcases hdec with hdecF | ⟨pre', ivb, ivt, post', e1, e2, hv⟩
  swap
  · right
    have hivb : ivb ∈ pre ++ iv :: post := by rw [e1]; simp
    have hivt : ivt ∈ pre ++ iv :: post := by rw [e2]; simp
    obtain ⟨_, _, -, hcb, hccb⟩ := Linked.mem hI.lk ivb hivb
    obtain ⟨_, _, hct, -, hcct⟩ := Linked.mem hI.lk ivt hivt
    have hmb : ivb.hi ∈ flatE pre := by rw [e1]; simp
    have hmt : ivt.lo ∈ flatE post := by rw [e2]; simp
    have eB : lastHi pre none = some ivb.hi.id := by rw [e1, lastHi_snoc]
    have eT : nxtLo post none = some ivt.lo.id := by rw [e2]; rfl
    rw [eB] at hb hlb
    rw [eT] at htc hlt
    unfold ECell at hcb hct
    exact ⟨_, end_fail_close s w iv.lo.id iv.hi.id (R.prv w) (R.nxt w) _ _ _ _ iv.ci iv.ci es rest
      (Fq (R.pt w)) (Fq (R.pt (R.prv w))) (Fq (R.pt (R.nxt w))) (Fq (R.pt iv.lo.lv)) (Fq (R.pt iv.hi.lv))
      (Fq (R.pt ivb.hi.lv)) (Fq (R.pt ivt.lo.lv)) c h ((flatE pre).map (·.id)) ((flatE post).map (·.id))
      _ _ ivb.hi.id ivt.lo.id hev hes (hI.vget.2 w hwn)
      (hI.vget.2 _ (hR.prv_lt w hwn)) (hI.vget.2 _ (hR.nxt_lt w hwn)) (endV_ftX hSh hwn hx0 hx1) hb htc
      (hidne _ hlo_mem _ hhi_mem hlohi) hlb hlt g2 g3 hI.mono hact hPb (TriGeom.cmpEdgeP_self _ _ _) hbt hQb hPt
      (TriGeom.cmpEdgeP_self _ _ _) hQt hc hI.nok hnode
      (hidne _ (hpremem _ hmb) _ hlo_mem (hothers _ (List.mem_append_left _ hmb)).1)
      (hidne _ (hpremem _ hmb) _ hhi_mem (hothers _ (List.mem_append_left _ hmb)).2)
      (hidne _ (hpostmem _ hmt) _ hlo_mem (hothers _ (List.mem_append_right _ hmt)).1)
      (hidne _ (hpostmem _ hmt) _ hhi_mem (hothers _ (List.mem_append_right _ hmt)).2)
      (hprepost _ hmb _ hmt) hcb hct (lpt_hi hcb hccb) (lpt_lo hct hcct)
      (hcine ivb (by rw [e1]; simp)) (hcine ivt (by rw [e2]; simp)) hv⟩
  have hwot : ∀ bb tt cbb ctt, lastHi pre none = some bb → nxtLo post none = some tt →
      s.edges[bb]? = some cbb → s.edges[tt]? = some ctt → ∃ lbb ltt,
      lpt? s cbb = some lbb ∧ lpt? s ctt = some ltt ∧ cbb.chain ≠ iv.ci ∧ ctt.chain ≠ iv.ci ∧
      wotP lbb cbb.rpt ltt ctt.rpt = false := by
    intro bb tt cbb ctt h1 h2 h3 h4
    obtain ⟨pre', ivb, e1, rfl⟩ := lastHi_eq_some h1
    obtain ⟨ivt, post', e2, rfl⟩ := nxtLo_eq_some h2
    have hivb : ivb ∈ pre ++ iv :: post := by rw [e1]; simp
    have hivt : ivt ∈ pre ++ iv :: post := by rw [e2]; simp
    obtain ⟨_, _, -, hcb, hccb⟩ := Linked.mem hI.lk ivb hivb
    obtain ⟨_, _, hct, -, hcct⟩ := Linked.mem hI.lk ivt hivt
    have l1 := lpt_hi hcb hccb
    have l2 := lpt_lo hct hcct
    unfold ECell at hcb hct
    rw [hcb] at h3; cases h3
    rw [hct] at h4; cases h4
    refine ⟨_, _, l1, l2, hcine ivb (by rw [e1]; simp), hcine ivt (by rw [e2]; simp), ?_⟩
    exact hdecF _ ivb ivt _ e1 e2
  obtain ⟨N2, out2, E', hrun, hN2, hsz2, hpt2, hE1, hE2, hE3, hE4⟩ := end_run_close s w iv.lo.id iv.hi.id
    (R.prv w) (R.nxt w) _ _ _ _ iv.ci iv.ci es rest (Fq (R.pt w)) (Fq (R.pt (R.prv w)))
    (Fq (R.pt (R.nxt w))) (Fq (R.pt iv.lo.lv)) (Fq (R.pt iv.hi.lv)) (lastHi pre none) (nxtLo post none)
    c h ((flatE pre).map (·.id)) ((flatE post).map (·.id)) hev hes (hI.vget.2 w hwn)
    (hI.vget.2 _ (hR.prv_lt w hwn)) (hI.vget.2 _ (hR.nxt_lt w hwn)) (endV_ftX hSh hwn hx0 hx1) hb htc
    (hidne _ hlo_mem _ hhi_mem hlohi) hlb hlt g2 g3 hI.mono hact hPb (TriGeom.cmpEdgeP_self _ _ _) hbt hQb hPt
    (TriGeom.cmpEdgeP_self _ _ _) hQt hc hI.nok hnode hbP htP hbbtt hwot
  refine Or.inl ⟨_, hrun, pre ++ post, ?inv, ?tst, ?ord⟩
  case ord =>
    rw [flatE_append]
    have := hadv
    rw [hflat] at this
    exact this.sublist (List.Sublist.append (List.Sublist.refl _)
      (List.Sublist.cons _ (List.Sublist.cons _ (List.Sublist.refl _))))
  case tst =>
    rw [flatE_append]
    refine tested_remove2 (by rw [← hflat]; exact hX.tested) ?_
    intro x y hx hy
    rcases List.eq_nil_or_concat pre with e0 | ⟨pre', ivb, e1⟩
    · rw [e0] at hx; cases hx
    · rw [List.concat_eq_append] at e1
      cases hpost : post with
      | nil => rw [hpost] at hy; cases hy
      | cons ivt post' =>
        have hx' : x = ivb.hi := by rw [e1] at hx; simpa using hx.symm
        have hy' : y = ivt.lo := by rw [hpost] at hy; simpa using hy.symm
        rw [hx', hy']
        exact wotX_decode hSh hcpl (g4 _ (by rw [e1]; simp)) (g4 _ (by rw [hpost]; simp))
          (hdecF _ ivb ivt _ e1 hpost)
  have hclt : iv.ci < s.chains.size := lt_of_get' hc
  -- frame of the edge array
  have hfr : ∀ x ∈ flatE pre ++ flatE post, lastHi pre none ≠ some x.id → nxtLo post none ≠ some x.id →
      E'[x.id]? = s.edges[x.id]? := fun x _ h1 h2 => hE2 x.id h1 h2
  have hlk := hI.lk
  rw [linked_append] at hlk
  obtain ⟨hlpre, -, -, -, hlpost⟩ := hlk
  refine ⟨hI.vget, hI.mono, fun _ => rfl, ?_, ?_, ?_, hN2, ?_, ?_, ?_, ?_, hcpl⟩
  · show (flatE pre).map (·.id) ++ (flatE post).map (·.id) = _
    simp
  · have := hI.cind
    rw [List.map_append, List.map_cons] at this
    rw [List.map_append]
    exact this.sublist (List.Sublist.append (List.Sublist.refl _) (List.Sublist.cons _ (List.Sublist.refl _)))
  · rw [linked_append]
    constructor
    · -- the in-intervals below
      refine Linked.set_above hlpre ?_ ?_ (by show s.nodes.size ≤ N2.size; omega) hpt2 ?_
      · intro j hj
        have hjm := mem_flatE_of hj
        refine ⟨hE2 _ ?_ ?_, Array.getElem?_setIfInBounds_ne (Ne.symm (hcine j (List.mem_append_left _ hj)))⟩
        · intro e
          obtain ⟨pre', ivb, e1, e2⟩ := lastHi_eq_some e
          exact Linked.lo_ne_hi hI.lk (j := j) (k := ivb) (List.mem_append_left _ hj)
            (by rw [e1]; simp) e2
        · intro e
          obtain ⟨ivt, post', e1, e2⟩ := nxtLo_eq_some e
          exact hprepost _ hjm.1 ivt.lo (by rw [e1]; simp) e2
      · intro j hj
        have hjpre : j ∈ pre := List.mem_of_mem_dropLast hj
        have hjm := mem_flatE_of hjpre
        refine hE2 _ ?_ ?_
        · intro e
          obtain ⟨pre', ivb, e1, e2⟩ := lastHi_eq_some e
          rw [e1, List.dropLast_concat] at hj
          have hndpre : (flatE pre' ++ ivb.lo :: ivb.hi :: ([] : List AE)).Nodup := by
            have := nodup_of_pairwise_below hPpre
            rw [e1] at this
            simpa using this
          have := (nodup_mid hndpre).2 j.hi (by simpa using (mem_flatE_of hj).2)
          apply this.2
          apply hq.idinj _ (hpremem _ hjm.2) _ (hpremem _ (by rw [e1]; simp)) e2
        · intro e
          obtain ⟨ivt, post', e1, e2⟩ := nxtLo_eq_some e
          exact hprepost _ hjm.2 ivt.lo (by rw [e1]; simp) e2
      · intro pre' ivb e1
        have hivb : ivb ∈ pre ++ iv :: post := by rw [e1]; simp
        obtain ⟨hcb⟩ : ECell s R ivb.hi ivb.ci false (some ivb.lo.id) (some iv.lo.id) ∧ True := by
          have := hlpre
          rw [e1, linked_append] at this
          exact ⟨this.2.2.1, trivial⟩
        have := hE3 ivb.hi.id _ (by rw [e1, lastHi_snoc]) hcb
        exact this
    · -- the in-intervals above
      refine Linked.set_below hlpost ?_ ?_ (by show s.nodes.size ≤ N2.size; omega) hpt2 ?_
      · intro j hj
        have hjm := mem_flatE_of hj
        refine ⟨hE2 _ ?_ ?_, Array.getElem?_setIfInBounds_ne (Ne.symm (hcine j (List.mem_append_right _ hj)))⟩
        · intro e
          obtain ⟨pre', ivb, e1, e2⟩ := lastHi_eq_some e
          exact hprepost ivb.hi (by rw [e1]; simp) _ hjm.2 e2.symm
        · intro e
          obtain ⟨ivt, post', e1, e2⟩ := nxtLo_eq_some e
          exact Linked.lo_ne_hi hI.lk (j := ivt) (k := j) (by rw [e1]; simp)
            (by simp [hj]) e2.symm
      · intro j hj
        have hjpost : j ∈ post := List.mem_of_mem_tail hj
        have hjm := mem_flatE_of hjpost
        refine hE2 _ ?_ ?_
        · intro e
          obtain ⟨pre', ivb, e1, e2⟩ := lastHi_eq_some e
          exact hprepost ivb.hi (by rw [e1]; simp) _ hjm.1 e2.symm
        · intro e
          obtain ⟨ivt, post', e1, e2⟩ := nxtLo_eq_some e
          rw [e1, List.tail_cons] at hj
          have hndpost : (([] : List AE) ++ ivt.lo :: ivt.hi :: flatE post').Nodup := by
            have := nodup_of_pairwise_below hPpost
            rw [e1] at this
            simpa using this
          have := (nodup_mid hndpost).2 j.lo (by simpa using (mem_flatE_of hj).1)
          apply this.1
          apply hq.idinj _ (hpostmem _ hjm.1) _ (hpostmem _ (by rw [e1]; simp)) e2
      · intro ivt post' e1
        have hct : ECell s R ivt.lo ivt.ci true (some iv.hi.id) (some ivt.hi.id) := by
          have := hlpost
          rw [e1] at this
          exact this.1
        have := hE4 ivt.lo.id _ (by rw [e1]; rfl) hct
        exact this
  · rw [flatE_append]; exact g4
  · rw [flatE_append]; exact g5
  · rw [flatE_append]; exact g6
  · rw [flatE_append]; exact g7


/-- **the merging End keeps the invariant** -/
theorem xstepV_end_merge (hSh : ShX R ε Vε) {s : St XQ} {xs X : Rat} {pre post : List IV} {iv1 iv2 : IV}
    (hX : XInvV R ε s xs X (pre ++ iv1 :: iv2 :: post))
    {w : Nat} {es : List Nat} {rest : List (Nat × List Nat)} (hev : s.events = (w, es) :: rest)
    (hx0 : (shearRing ε R).x (R.prv w) < (shearRing ε R).x w) (hx1 : (shearRing ε R).x (R.nxt w) < (shearRing ε R).x w)
    (hbr : iv1.hi.rv = w) (htr : iv2.lo.rv = w)
    (hes : es = [iv1.hi.id, iv2.lo.id] ∨ es = [iv2.lo.id, iv1.hi.id])
    (honly : ∀ a ∈ flatE (pre ++ iv1 :: iv2 :: post), a.rv = w → a = iv1.hi ∨ a = iv2.lo) :
    (∃ s', (handleNext : SM XQ Unit).run s = .ok ((), s') ∧
      ∃ ivs', XInvV R ε s' ((shearRing ε R).x w) (R.x w) ivs') ∨
      ∃ k, (handleNext : SM XQ Unit).run s = .error (.overlap k (Fq (R.pt w))) := by
  have hI := hX.inv
  have hR := hSh.ring
  have hq := hI.q
  rw [hev] at hq
  have hflat : flatE (pre ++ iv1 :: iv2 :: post) =
      (flatE pre ++ [iv1.lo]) ++ iv1.hi :: iv2.lo :: (iv2.hi :: flatE post) := by simp
  have hwq := hq.gt (w, es) List.mem_cons_self
  have hwn : w < R.n := hwq.1
  have hnoright : ∀ v, v < R.n → Adj R w v → ¬ (shearRing ε R).x w < (shearRing ε R).x v := by
    intro v _ hadj
    rcases adj_cases hadj with h | h
    · rw [h]; exact not_lt.mpr (le_of_lt hx1)
    · rw [h]; exact not_lt.mpr (le_of_lt hx0)
  obtain ⟨g1, -, -, g4, g5, g6, g7⟩ := xend_flat hR (F1 := flatE pre ++ [iv1.lo])
    (F2 := iv2.hi :: flatE post) (bot := iv1.hi) (top := iv2.lo)
    (by rw [← hflat]; exact hI.span) (by rw [← hflat]; exact hI.sorted)
    (by rw [← hflat]; exact hX.tested) (by rw [← hflat]; exact hq) (by rw [← hflat]; exact hI.cross) hbr htr
    (by rw [← hflat]; exact honly) hnoright
  have hsx : s.x = .fin X := hI.sx (by simp)
  have hcpl := cpl_atX hSh hwn
  have hreach := reach_head hq
  have hadv := ordM_advance hSh hI.cpl hwn hwq.2 hI.span hI.sorted hX.tested (fun a ha => (hreach a ha).1)
    hq.uniq hX.ordM
  have hnd : ((flatE pre ++ [iv1.lo]) ++ iv1.hi :: iv2.lo :: (iv2.hi :: flatE post)).Nodup := by
    rw [← hflat]; exact nodup_of_pairwise_below hI.sorted
  obtain ⟨hbt_ne, hothers⟩ := nodup_mid hnd
  have hmem : ∀ x, x ∈ (flatE pre ++ [iv1.lo]) ++ iv1.hi :: iv2.lo :: (iv2.hi :: flatE post) →
      x ∈ flatE (pre ++ iv1 :: iv2 :: post) := fun x hx => by rw [hflat]; exact hx
  have hb_mem : iv1.hi ∈ flatE (pre ++ iv1 :: iv2 :: post) := hmem _ (by simp)
  have ht_mem : iv2.lo ∈ flatE (pre ++ iv1 :: iv2 :: post) := hmem _ (by simp)
  have hbb_mem : iv1.lo ∈ flatE (pre ++ iv1 :: iv2 :: post) := hmem _ (by simp)
  have htt_mem : iv2.hi ∈ flatE (pre ++ iv1 :: iv2 :: post) := hmem _ (by simp)
  have hidne : ∀ a ∈ flatE (pre ++ iv1 :: iv2 :: post), ∀ b ∈ flatE (pre ++ iv1 :: iv2 :: post),
      a ≠ b → a.id ≠ b.id := fun a ha b hb hne e => hne (hq.idinj a ha b hb e)
  have hF1F2 : ∀ x ∈ (flatE pre ++ [iv1.lo]) ++ (iv2.hi :: flatE post),
      x ∈ flatE (pre ++ iv1 :: iv2 :: post) := by
    intro x hx
    apply hmem
    rcases List.mem_append.mp hx with h | h
    · exact List.mem_append_left _ h
    · exact List.mem_append_right _ (List.mem_cons_of_mem _ (List.mem_cons_of_mem _ h))
  -- the four cells
  have hlk := hI.lk
  rw [linked_append] at hlk
  obtain ⟨hlpre, ⟨c1lo, c1hi, cc1, c2lo, c2hi, cc2, hlpost⟩⟩ := hlk
  have cc1' := cc1
  have cc2' := cc2
  obtain ⟨cB, hcB, hrmB, hhB, htB⟩ := cc1
  obtain ⟨cT, hcT, hrmT, hhT, htT⟩ := cc2
  have hspb := hI.span iv1.hi hb_mem
  have hspt := hI.span iv2.lo ht_mem
  obtain ⟨g2, g3⟩ := gradsWX hSh hspb hspt hbr htr g1
  have hb : s.edges[iv1.hi.id]? = some ⟨Fq (R.pt w), iv1.ci, false, some iv1.lo.id, some iv2.lo.id⟩ := by
    have := c1hi; unfold ECell at this; rw [hbr] at this; exact this
  have htc : s.edges[iv2.lo.id]? = some ⟨Fq (R.pt w), iv2.ci, true, some iv1.hi.id, some iv2.hi.id⟩ := by
    have := c2lo; unfold ECell at this; rw [htr] at this; exact this
  have hlb : lpt? s ⟨Fq (R.pt w), iv1.ci, false, some iv1.lo.id, some iv2.lo.id⟩ =
      some (Fq (R.pt iv1.hi.lv)) := by
    have := lpt_hi c1hi cc1'; rw [hbr] at this; exact this
  have hlt : lpt? s ⟨Fq (R.pt w), iv2.ci, true, some iv1.hi.id, some iv2.hi.id⟩ =
      some (Fq (R.pt iv2.lo.lv)) := by
    have := lpt_lo c2lo cc2'; rw [htr] at this; exact this
  have hact : s.active = (flatE pre ++ [iv1.lo]).map (·.id) ++ iv1.hi.id :: iv2.lo.id ::
      (iv2.hi :: flatE post).map (·.id) := by
    rw [hI.act, hflat]; simp
  -- order
  have hP := hI.sorted
  rw [hflat, List.pairwise_append] at hP
  obtain ⟨-, hPmid, hPcross⟩ := hP
  rw [List.pairwise_cons, List.pairwise_cons] at hPmid
  obtain ⟨hb_above, ht_above, -⟩ := hPmid
  have hM := hX.ordM
  rw [hflat, List.pairwise_append] at hM
  obtain ⟨-, hMmid, hMcross⟩ := hM
  rw [List.pairwise_cons, List.pairwise_cons] at hMmid
  obtain ⟨hb_aboveM, ht_aboveM, -⟩ := hMmid
  have hF1mem : ∀ x ∈ flatE pre ++ [iv1.lo], x ∈ flatE (pre ++ iv1 :: iv2 :: post) :=
    fun x hx => hmem x (List.mem_append_left _ hx)
  have hF2mem : ∀ x ∈ iv2.hi :: flatE post, x ∈ flatE (pre ++ iv1 :: iv2 :: post) :=
    fun x hx => hmem x (List.mem_append_right _ (List.mem_cons_of_mem _ (List.mem_cons_of_mem _ hx)))
  have hPb := cmpsX_below hSh hI.cpl hI.lk hsx (key := iv1.hi) hF1mem hI.span hspb
    (fun x hx => hMcross x hx _ List.mem_cons_self)
  have hPt := cmpsX_below hSh hI.cpl hI.lk hsx (key := iv2.lo) hF1mem hI.span hspt
    (fun x hx => hMcross x hx _ (List.mem_cons_of_mem _ List.mem_cons_self))
  have hQb := cmpsX_above hSh hI.cpl hI.lk hsx (key := iv1.hi) hF2mem hI.span hspb
    (fun x hx => hb_aboveM x (List.mem_cons_of_mem _ hx))
  have hQt := cmpsX_above hSh hI.cpl hI.lk hsx (key := iv2.lo) hF2mem hI.span hspt
    (fun x hx => ht_aboveM x hx)
  rw [hbr] at hPb hQb
  rw [htr] at hPt hQt
  have hbt : cmpEdgeP (Fq (R.pt iv1.hi.lv)) (Fq (R.pt w)) (Fq (R.pt iv2.lo.lv)) (Fq (R.pt w)) s.x = .lt := by
    have := (cmp_of_belowM (edge_lexX hSh hspb) (edge_lexX hSh hspt) (span_orig hI.cpl hspb).1 (span_orig hI.cpl hspb).2
      (span_orig hI.cpl hspt).1 (span_orig hI.cpl hspt).2 (hb_aboveM iv2.lo List.mem_cons_self)).1
    rw [hbr, htr] at this
    rw [hsx]; exact this
  have hne1 := (hothers iv1.lo (by simp))
  have hne2 := (hothers iv2.hi (by simp))
  have hbbtt : iv1.lo ≠ iv2.hi := by
    intro e
    have := hnd
    rw [e] at this
    simp [List.nodup_append, List.nodup_cons] at this
  cases hv : wotP (Fq (R.pt iv1.lo.lv)) (Fq (R.pt iv1.lo.rv)) (Fq (R.pt iv2.hi.lv)) (Fq (R.pt iv2.hi.rv))
  swap
  · right
    exact ⟨_, end_fail_merge s w iv1.hi.id
      iv2.lo.id (R.prv w) (R.nxt w) _ _ _ _ iv1.ci iv2.ci es rest (Fq (R.pt w)) (Fq (R.pt (R.prv w)))
      (Fq (R.pt (R.nxt w))) (Fq (R.pt iv1.hi.lv)) (Fq (R.pt iv2.lo.lv)) (Fq (R.pt iv1.lo.lv))
      (Fq (R.pt iv2.hi.lv)) ((flatE pre ++ [iv1.lo]).map (·.id)) ((iv2.hi :: flatE post).map (·.id))
      ⟨Fq (R.pt iv1.lo.rv), iv1.ci, true, lastHi pre none, some iv1.hi.id⟩
      ⟨Fq (R.pt iv2.hi.rv), iv2.ci, false, some iv2.lo.id, nxtLo post none⟩
      iv1.lo.id iv2.hi.id cB cT hev hes (hI.vget.2 w hwn)
      (hI.vget.2 _ (hR.prv_lt w hwn)) (hI.vget.2 _ (hR.nxt_lt w hwn)) (endV_ftX hSh hwn hx0 hx1) hb htc
      (hidne _ hb_mem _ ht_mem hbt_ne) hlb hlt g2 g3 hI.mono hact hPb (TriGeom.cmpEdgeP_self _ _ _) hbt hQb hPt
      (TriGeom.cmpEdgeP_self _ _ _) hQt hcB hcT hI.nok
      (hidne _ hbb_mem _ hb_mem hne1.1) (hidne _ hbb_mem _ ht_mem hne1.2)
      (hidne _ htt_mem _ hb_mem hne2.1) (hidne _ htt_mem _ ht_mem hne2.2)
      (hidne _ hbb_mem _ htt_mem hbbtt) c1lo c2hi rfl rfl rfl rfl hhB htT hv⟩
  obtain ⟨N3, out3, E', hrun, hN3, hsz3, hpt3, hEsz, hEfr, hEbb, hEtt⟩ := end_run_merge s w iv1.hi.id
    iv2.lo.id (R.prv w) (R.nxt w) _ _ _ _ iv1.ci iv2.ci es rest (Fq (R.pt w)) (Fq (R.pt (R.prv w)))
    (Fq (R.pt (R.nxt w))) (Fq (R.pt iv1.hi.lv)) (Fq (R.pt iv2.lo.lv)) (Fq (R.pt iv1.lo.lv))
    (Fq (R.pt iv2.hi.lv)) ((flatE pre ++ [iv1.lo]).map (·.id)) ((iv2.hi :: flatE post).map (·.id))
    ⟨Fq (R.pt iv1.lo.rv), iv1.ci, true, lastHi pre none, some iv1.hi.id⟩
    ⟨Fq (R.pt iv2.hi.rv), iv2.ci, false, some iv2.lo.id, nxtLo post none⟩
    iv1.lo.id iv2.hi.id cB cT hev hes (hI.vget.2 w hwn)
    (hI.vget.2 _ (hR.prv_lt w hwn)) (hI.vget.2 _ (hR.nxt_lt w hwn)) (endV_ftX hSh hwn hx0 hx1) hb htc
    (hidne _ hb_mem _ ht_mem hbt_ne) hlb hlt g2 g3 hI.mono hact hPb (TriGeom.cmpEdgeP_self _ _ _) hbt hQb hPt
    (TriGeom.cmpEdgeP_self _ _ _) hQt hcB hcT hI.nok
    (hidne _ hbb_mem _ hb_mem hne1.1) (hidne _ hbb_mem _ ht_mem hne1.2)
    (hidne _ htt_mem _ hb_mem hne2.1) (hidne _ htt_mem _ ht_mem hne2.2)
    (hidne _ hbb_mem _ htt_mem hbbtt) c1lo c2hi rfl rfl rfl rfl hhB htT
    hv
  refine Or.inl ⟨_, hrun, pre ++ (⟨iv1.lo, iv2.hi, s.chains.size⟩ : IV) :: post, ?inv, ?tst, ?ord⟩
  case ord =>
    have hflat' : flatE (pre ++ (⟨iv1.lo, iv2.hi, s.chains.size⟩ : IV) :: post) =
        (flatE pre ++ [iv1.lo]) ++ (iv2.hi :: flatE post) := by simp
    rw [hflat']
    have := hadv
    rw [hflat] at this
    exact this.sublist (List.Sublist.append (List.Sublist.refl _)
      (List.Sublist.cons _ (List.Sublist.cons _ (List.Sublist.refl _))))
  case tst =>
    have hflat' : flatE (pre ++ (⟨iv1.lo, iv2.hi, s.chains.size⟩ : IV) :: post) =
        (flatE pre ++ [iv1.lo]) ++ (iv2.hi :: flatE post) := by simp
    rw [hflat']
    refine tested_remove2 (by rw [← hflat]; exact hX.tested) ?_
    intro x y hx hy
    have hx' : x = iv1.lo := by simpa using hx.symm
    have hy' : y = iv2.hi := by simpa using hy.symm
    rw [hx', hy']
    exact wotX_decode hSh hcpl (g4 _ (by simp)) (g4 _ (by simp)) hv
  have hflat' : flatE (pre ++ (⟨iv1.lo, iv2.hi, s.chains.size⟩ : IV) :: post) =
      (flatE pre ++ [iv1.lo]) ++ (iv2.hi :: flatE post) := by simp
  have hcilt : ∀ j ∈ pre ++ iv1 :: iv2 :: post, j.ci < s.chains.size := by
    intro j hj
    obtain ⟨_, _, -, -, ⟨c, hc, -⟩⟩ := Linked.mem hI.lk j hj
    exact lt_of_get' hc
  refine ⟨hI.vget, hI.mono, fun _ => rfl, ?_, ?_, ?_, hN3, ?_, ?_, ?_, ?_, hcpl⟩
  · show (flatE pre ++ [iv1.lo]).map (·.id) ++ (iv2.hi :: flatE post).map (·.id) = _
    rw [hflat']; simp
  · have := hI.cind
    rw [List.map_append, List.map_cons, List.map_cons] at this
    rw [List.map_append, List.map_cons]
    have hsub : (pre.map (·.ci) ++ post.map (·.ci)).Nodup :=
      this.sublist (List.Sublist.append (List.Sublist.refl _)
        (List.Sublist.cons _ (List.Sublist.cons _ (List.Sublist.refl _))))
    rw [List.nodup_append] at hsub ⊢
    refine ⟨hsub.1, ?_, ?_⟩
    · rw [List.nodup_cons]
      refine ⟨?_, hsub.2.1⟩
      intro hm
      obtain ⟨j, hj, e⟩ := List.mem_map.mp hm
      have := hcilt j (by simp [hj])
      have e' : j.ci = s.chains.size := e
      omega
    · intro a ha b hb
      rcases List.mem_cons.mp hb with rfl | hb
      · obtain ⟨j, hj, e⟩ := List.mem_map.mp ha
        have := hcilt j (by simp [hj])
        have e' : j.ci = a := e
        show a ≠ s.chains.size
        omega
      · exact hsub.2.2 a ha b hb
  · have hl' : Linked s R none (pre ++ ([iv1, iv2] ++ post)) none := by simpa using hI.lk
    show Linked _ R none (pre ++ ([(⟨iv1.lo, iv2.hi, s.chains.size⟩ : IV)] ++ post)) none
    refine Linked.splice (mid := [iv1, iv2]) hl' rfl rfl ?_
      (by show s.nodes.size ≤ N3.size; omega) hpt3 ?_
    · intro j hj
      have hj' : j ∈ pre ++ iv1 :: iv2 :: post := by
        rcases List.mem_append.mp hj with h | h
        · exact List.mem_append_left _ h
        · exact List.mem_append_right _ (List.mem_cons_of_mem _ (List.mem_cons_of_mem _ h))
      have hjm : j.lo ∈ flatE pre ++ flatE post ∧ j.hi ∈ flatE pre ++ flatE post := by
        have := mem_flatE_of hj
        rw [flatE_append] at this
        exact this
      have hjF : ∀ x ∈ flatE pre ++ flatE post, x ∈ (flatE pre ++ [iv1.lo]) ++ (iv2.hi :: flatE post) ∧
          x ≠ iv1.lo ∧ x ≠ iv2.hi := by
        intro x hx
        have hnd' := hnd
        simp only [List.append_assoc, List.cons_append, List.nil_append] at hnd'
        rw [List.nodup_append] at hnd'
        obtain ⟨-, h2, h3⟩ := hnd'
        simp only [List.nodup_cons, List.mem_cons, not_or] at h2
        rcases List.mem_append.mp hx with h | h
        · refine ⟨by simp [h], fun e => h3 x h _ List.mem_cons_self e,
            fun e => h3 x h _ (by simp) e⟩
        · refine ⟨by simp [h], ?_, ?_⟩
          · rintro rfl; exact h2.1.2.2.2 h
          · rintro rfl; exact h2.2.2.2.1 h
      obtain ⟨m1, n1, n2⟩ := hjF _ hjm.1
      obtain ⟨m2, n3, n4⟩ := hjF _ hjm.2
      refine ⟨hEfr _ ?_ ?_, hEfr _ ?_ ?_, ?_⟩
      · exact hidne _ (hF1F2 _ m1) _ hbb_mem n1
      · exact hidne _ (hF1F2 _ m1) _ htt_mem n2
      · exact hidne _ (hF1F2 _ m2) _ hbb_mem n3
      · exact hidne _ (hF1F2 _ m2) _ htt_mem n4
      · show (s.chains.push _)[j.ci]? = _
        rw [Array.getElem?_push_lt (hcilt j hj'), ← Array.getElem?_eq_getElem]
    · refine ⟨?_, ?_, ?_, trivial⟩
      · exact hEbb
      · exact hEtt
      · refine ⟨_, Array.getElem?_push_size, ?_, ?_, ?_⟩
        · show s.nodes.size < N3.size; omega
        · show ptAt N3 cB.head = _
          rw [hpt3 _ (ptAt_some_lt hhB)]; exact hhB
        · show ptAt N3 cT.tail = _
          rw [hpt3 _ (ptAt_some_lt htT)]; exact htT
  · rw [hflat']; exact g4
  · rw [hflat']; exact g5
  · rw [hflat']; exact g6
  · rw [hflat']; exact g7


/-- **the End event keeps the invariant** -/
theorem xstepV_end (hSh : ShX R ε Vε) {s : St XQ} {xs X : Rat} {ivs : List IV} (hX : XInvV R ε s xs X ivs)
    {w : Nat} {es : List Nat} {rest : List (Nat × List Nat)} (hev : s.events = (w, es) :: rest)
    (hx0 : (shearRing ε R).x (R.prv w) < (shearRing ε R).x w) (hx1 : (shearRing ε R).x (R.nxt w) < (shearRing ε R).x w) :
    (∃ s', (handleNext : SM XQ Unit).run s = .ok ((), s') ∧
      ∃ ivs', XInvV R ε s' ((shearRing ε R).x w) (R.x w) ivs') ∨
      ∃ k, (handleNext : SM XQ Unit).run s = .error (.overlap k (Fq (R.pt w))) := by
  have hI := hX.inv
  have hR := hSh.ring
  have hq := hI.q
  rw [hev] at hq
  obtain ⟨F1, bot, top, F2, hE, hbr, htr, hes, honly⟩ :=
    xend_es hR hI.span hI.sorted hX.tested hq hI.cross rfl rfl hx0 hx1
  have hbm : bot ∈ flatE ivs := by rw [hE]; simp
  obtain ⟨pre, iv, post, hivs, hcase⟩ := mem_flatE hbm
  subst hivs
  have hnd : (flatE (pre ++ iv :: post)).Nodup := nodup_of_pairwise_below hI.sorted
  rcases hcase with rfl | rfl
  · -- closing
    have hflat : flatE (pre ++ iv :: post) = flatE pre ++ iv.lo :: (iv.hi :: flatE post) := by simp
    obtain ⟨-, e2⟩ := nodup_split_unique (by rw [← hflat]; exact hnd) (hflat.symm.trans hE)
    simp only [List.cons.injEq] at e2
    obtain ⟨rfl, -⟩ := e2
    exact xstepV_end_close hSh hX hev hx0 hx1 hbr htr hes honly
  · -- merging
    have hflat : flatE (pre ++ iv :: post) = (flatE pre ++ [iv.lo]) ++ iv.hi :: flatE post := by simp
    obtain ⟨-, e2⟩ := nodup_split_unique (by rw [← hflat]; exact hnd) (hflat.symm.trans hE)
    cases post with
    | nil => simp at e2
    | cons iv2 post' =>
      simp only [flatE_cons, List.cons.injEq] at e2
      obtain ⟨rfl, -⟩ := e2
      exact xstepV_end_merge hSh hX hev hx0 hx1 hbr htr hes honly

end Cav.GenXV
