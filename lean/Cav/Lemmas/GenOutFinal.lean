/-
  Output of the sweep on general valid input, part 9: from the input polygons to the result of
  `sweepMon`: set-up, initial invariant, event loop.
-/
import Cav.Lemmas.GenOutLoop
import Cav.Lemmas.GenAccept

set_option linter.unusedVariables false
set_option linter.unusedSimpArgs false

namespace Cav.GenOutFinal
open Cav Num Cav.Geo Cav.Sweep Cav.SweepRun Cav.TriRun Cav.QuadRun Cav.QuadGeom Cav.CvxEvents Cav.CvxLoop
open Cav.GenNodes Cav.TriEvents Cav.SweepSetup Cav.GenInv Cav.GenQueue Cav.GenRing
open Cav.GenSetup Cav.GenLoop Cav.GenAccept Cav.GenOutDefs Cav.GenOutLoop
open Cav.GenGeom hiding Q

theorem areaSum_rev (l : List Tri) : areaSum l.reverse = areaSum l := by
  unfold areaSum
  rw [List.map_reverse, List.sum_reverse]

/-- **the output of the sweep on a polygon list that is valid in the sense of `NoCross`**, in
    terms of the vertex ring: number of triangles, total doubled area, coherence, and the rightmost
    vertex is a closing End vertex -/
theorem output_of_noCross (polys : List (Array (Rat × Rat))) (h3 : ∀ p ∈ polys, 3 ≤ p.size)
    (hx : ((polys.flatMap Array.toList).map (·.1)).Nodup) (hN : NoCross (ringOf polys)) :
    ∃ T, sweepMon (polys.map (fun p => p.map Fq)) = .ok (T, true) ∧
      T.length = triCountR (ringOf polys) ∧ areaSum T = areaR (ringOf polys) ∧
      (∀ v, v < (ringOf polys).n → Coh (ringOf polys) v) ∧
      (∀ v, v < (ringOf polys).n → (∀ u, u < (ringOf polys).n → (ringOf polys).x u ≤ (ringOf polys).x v) →
        vWeight (ringOf polys) v = 0) ∧
      ∀ tr ∈ T, 0 < triArea tr := by
  have hR := ringOK polys h3 hx
  obtain ⟨seen, evs, hset, hE⟩ := setup_all polys h3 hx
  obtain ⟨xs, hxs⟩ := exists_lt_all ((List.range (ringOf polys).n).map (ringOf polys).x)
  have hxs' : ∀ v, v < (ringOf polys).n → xs < (ringOf polys).x v :=
    fun v hv => hxs _ (List.mem_map.mpr ⟨v, List.mem_range.mpr hv, rfl⟩)
  have hI : Inv (ringOf polys) (stQ (vertsOf (cellsAll 0 polys)) evs) xs [] := inv_init hR hE hxs'
  obtain ⟨s', hl, hm, hlen, harea, hcoh, hfin, hpos⟩ := xloop hN ((ringOf polys).n + 1) _ xs [] _
    (xinv_init hR hI hxs') (Nat.lt_succ_of_le (meas_le xs))
  refine ⟨s'.out.reverse, ?_, by rw [List.length_reverse]; exact hlen,
    by rw [areaSum_rev]; exact harea, hcoh, hfin, fun tr h => hpos tr (List.mem_reverse.mp h)⟩
  unfold sweepMon
  rw [run_eq, hset]
  have hsz : (stQ (vertsOf (cellsAll 0 polys)) evs).verts.size = (ringOf polys).n := hR.size
  simp only [hsz, hl, hm]

end Cav.GenOutFinal
