/-
  Rejection of crossing input, vertical new edges (heap level), part 2: the Start event with a
  positive look-ahead test when the new edges may be vertical (`start_failV` and its four cases:
  copies of `GenXFailStart.lean` in which the two calls of `verticalIsCrossed` are executed by
  `run_vic`), and the Start event rejected by `verticalIsCrossed` on the top new edge
  (`start_vic`).
-/
import Cav.Lemmas.GenXVFail

set_option linter.unusedSimpArgs false
set_option linter.unusedVariables false
set_option linter.unusedSectionVars false

namespace Cav.GenXVFail
open Cav Num Cav.Sweep Cav.SweepRun Cav.TriRun Cav.QuadRun Cav.CvxHeap Cav.CvxEvents Cav.SweepOut
open Cav.GenNodes Cav.GenQuery Cav.GenActive Cav.GenBend Cav.SweepHeap Cav.TriEvents Cav.GenStart
open Cav.GenVHeap Cav.GenXFail

variable {α : Type} [Num α]

/-- `VicHit` for the state in which `handleStart` calls `verticalIsCrossed` -/
theorem vichit_of (s : St α) (P Q : List Nat) (L Rr : Nat → Pt α) (hact : s.active = P ++ Q)
    (hG : ∀ k ∈ P ++ Q, EG s k (L k) (Rr k)) (p rp : Pt α)
    (hv : ofEq rp.x p.x = true ∧ ∃ k ∈ P ++ Q,
      (ofLt p.y (yExtrap (L k) (Rr k) p.x true) && ofLt (yExtrap (L k) (Rr k) p.x true) rp.y) = true) :
    ∀ (s' : St α) {n : Node α} {c : Chain}, s'.nodes = s.nodes.push n → s'.chains = s.chains.push c →
      s'.edges = s.edges → s'.active = P ++ Q → VicHit s' none p rp := by
  intro s' n c hn hc he ha
  obtain ⟨hx, k, hk, ht⟩ := hv
  have hE : ∀ k ∈ P ++ Q, EG s' k (L k) (Rr k) := fun k hk =>
    start_eg s s' n c hn hc (fun k e hke => ⟨e, by rw [he]; exact hke, rfl, rfl, rfl⟩) (hG k hk)
  refine ⟨hx, ?_, k, by rw [ha]; exact hk, by simp, _, _, hE k hk, ht⟩
  intro k hk _
  rw [ha] at hk
  exact ⟨_, _, hE k hk⟩

set_option hygiene false in
/-- both partners exist: up to (and including) the look-ahead test of the bottom edge -/
macro "xstart_ss_commonV" : tactic => `(tactic| (
   start_preV
   simp (config := { zeta := false }) only [Bool.false_eq_true, if_false, hbbE, httE]
   sm_whnf
   sm_get
     exact fa_bb
   sm_by (run_search_found' cbb (L bb) (startSt s rest p pB pT lpB lpT (P ++ Q))
     (start_lpt_old s _ _ _ rfl rfl _ _ hbbl) hmS (P ++ Q) P' Q bb hPQ1
     (fun k hk => ⟨_, _, hS1 k (by rw [hP]; simp [hk]), by rw [hbbr]; exact hbbP k hk⟩)
     ⟨_, _, hS1 bb hbbm, by rw [hbbr]; exact hbbS⟩
     (fun k hk => ⟨_, _, hS1 k (List.mem_append_right _ hk), by rw [hbbr]; exact hbbQ k hk⟩))
   sm_bind
   sm_get
     exact fa_tt
   sm_by (run_search_found' ctt (L tt) (startSt s rest p pB pT lpB lpT (P ++ Q))
     (start_lpt_old s _ _ _ rfl rfl _ _ httl) hmS (P ++ Q) P Q' tt hPQ2
     (fun k hk => ⟨_, _, hS1 k (List.mem_append_left _ hk), by rw [httr]; exact httP k hk⟩)
     ⟨_, _, hS1 tt httm, by rw [httr]; exact httS⟩
     (fun k hk => ⟨_, _, hS1 k (by rw [hQ]; simp [hk]), by rw [httr]; exact httQ k hk⟩))
   sm_bind
   sm_cond [ebt]
   sm_get
     exact fa_bb
   sm_get
     exact fa_tt
   sm_by (run_partialCmpEdge' cbb ctt (startSt s rest p pB pT lpB lpT (P ++ Q)) (L bb) (L tt)
     (start_lpt_old s _ _ _ rfl rfl _ _ hbbl) (start_lpt_old s _ _ _ rfl rfl _ _ httl))
   have hx1 : (startSt s rest p pB pT lpB lpT (P ++ Q)).x = p.x := rfl
   sm_cond [hpc', hlen, hx1]
   unfold startSt
   -- linking
   sm_get
     exact startEdges_bot s.edges pB pT s.chains.size
   sm_get
     exact fa_bb
   sm_bind
   sm_get
     dsimp only
     lk_ne; exact fa_bb
   sm_bind
   sm_use (run_wob_some _ s.edges.size bb false ⟨pB, s.chains.size, !cbb.bofIn, some bb, some (s.edges.size + 1)⟩
     { cbb with tPart := some s.edges.size } p (L bb) ?h1 ?h2 ?h3 ?h4 ?h5 ?h6)
   case h1 => dsimp only; lk_ne; lk_self
   case h2 => rfl
   case h3 => omega
   case h4 => dsimp only; lk_self
   case h5 => exact start_lpt_new s p _ rfl rfl _ rfl
   case h6 => exact start_lpt_old s _ _ _ rfl rfl _ _ hbbl
   sm_whnf
   sm_cond [hwob']))

set_option hygiene false in
macro "xstart_ss_bV" : tactic => `(tactic| (
   xstart_ss_commonV
   exact Runs.final rfl))

set_option hygiene false in
macro "xstart_ss_tV" : tactic => `(tactic| (
   xstart_ss_commonV
   -- the top edge
   sm_get
     dsimp only
     lk_ne; lk_ne; exact startEdges_top s.edges pB pT s.chains.size
   sm_get
     dsimp only
     lk_ne; lk_ne; exact fa_tt
   sm_bind
   sm_get
     dsimp only
     lk_ne; lk_ne; lk_ne; exact fa_tt
   sm_bind
   sm_use (run_wot_some _ (s.edges.size + 1) tt false ⟨pT, s.chains.size, !ctt.bofIn, some s.edges.size, some tt⟩
     { ctt with bPart := some (s.edges.size + 1) } p (L tt) ?h1 ?h2 ?h3 ?h4 ?h5 ?h6)
   case h1 => dsimp only; lk_ne; lk_self
   case h2 => rfl
   case h3 => omega
   case h4 => dsimp only; lk_self
   case h5 => exact start_lpt_new s p _ rfl rfl _ rfl
   case h6 => exact start_lpt_old s _ _ _ rfl rfl _ _ httl
   sm_whnf
   sm_cond [hwot']
   exact Runs.final rfl))

set_option hygiene false in
macro "xstart_ns_tV" : tactic => `(tactic| (
   start_preV
   simp (config := { zeta := false }) only [Bool.false_eq_true, if_false, hbbE, httE]
   sm_whnf
   sm_steps
   sm_get
     exact fa_tt
   sm_by (run_search_found' ctt (L tt) (startSt s rest p pB pT lpB lpT (P ++ Q))
     (start_lpt_old s _ _ _ rfl rfl _ _ httl) hmS (P ++ Q) P Q' tt hPQ2
     (fun k hk => ⟨_, _, hS1 k (List.mem_append_left _ hk), by rw [httr]; exact httP k hk⟩)
     ⟨_, _, hS1 tt httm, by rw [httr]; exact httS⟩
     (fun k hk => ⟨_, _, hS1 k (by rw [hQ]; simp [hk]), by rw [httr]; exact httQ k hk⟩))
   sm_bind
   sm_cond [hlen0]
   unfold startSt
   sm_get
     exact startEdges_bot s.edges pB pT s.chains.size
   sm_bind
   sm_get
     dsimp only
     lk_ne; exact startEdges_top s.edges pB pT s.chains.size
   sm_get
     dsimp only
     lk_ne; exact fa_tt
   sm_bind
   sm_get
     dsimp only
     lk_ne; lk_ne; exact fa_tt
   sm_bind
   sm_use (run_wot_some _ (s.edges.size + 1) tt false ⟨pT, s.chains.size, !ctt.bofIn, some s.edges.size, some tt⟩
     { ctt with bPart := some (s.edges.size + 1) } p (L tt) ?h1 ?h2 ?h3 ?h4 ?h5 ?h6)
   case h1 => dsimp only; lk_ne; lk_self
   case h2 => rfl
   case h3 => omega
   case h4 => dsimp only; lk_self
   case h5 => exact start_lpt_new s p _ rfl rfl _ rfl
   case h6 => exact start_lpt_old s _ _ _ rfl rfl _ _ httl
   sm_whnf
   sm_cond [hwot']
   exact Runs.final rfl))

set_option hygiene false in
macro "xstart_sn_bV" : tactic => `(tactic| (
   start_preV
   simp (config := { zeta := false }) only [Bool.false_eq_true, if_false, hbbE, httE]
   sm_whnf
   sm_get
     exact fa_bb
   sm_by (run_search_found' cbb (L bb) (startSt s rest p pB pT lpB lpT (P ++ Q))
     (start_lpt_old s _ _ _ rfl rfl _ _ hbbl) hmS (P ++ Q) P' Q bb hPQ1
     (fun k hk => ⟨_, _, hS1 k (by rw [hP]; simp [hk]), by rw [hbbr]; exact hbbP k hk⟩)
     ⟨_, _, hS1 bb hbbm, by rw [hbbr]; exact hbbS⟩
     (fun k hk => ⟨_, _, hS1 k (List.mem_append_right _ hk), by rw [hbbr]; exact hbbQ k hk⟩))
   sm_bind
   sm_bind
   sm_cond [hlen1]
   unfold startSt
   sm_get
     exact startEdges_bot s.edges pB pT s.chains.size
   sm_get
     exact fa_bb
   sm_bind
   sm_get
     dsimp only
     lk_ne; exact fa_bb
   sm_bind
   sm_use (run_wob_some _ s.edges.size bb false ⟨pB, s.chains.size, !cbb.bofIn, some bb, some (s.edges.size + 1)⟩
     { cbb with tPart := some s.edges.size } p (L bb) ?h1 ?h2 ?h3 ?h4 ?h5 ?h6)
   case h1 => dsimp only; lk_ne; lk_self
   case h2 => rfl
   case h3 => omega
   case h4 => dsimp only; lk_self
   case h5 => exact start_lpt_new s p _ rfl rfl _ rfl
   case h6 => exact start_lpt_old s _ _ _ rfl rfl _ _ hbbl
   sm_whnf
   sm_cond [hwob']
   exact Runs.final rfl))

section
variable (s : St α) (vi lp1 lp2 lpB lpT a1 a2 a3 a4 : Nat) (es : List Nat)
  (rest : List (Nat × List Nat)) (p pB pT : Pt α) (P Q : List Nat) (L Rr : Nat → Pt α)

set_option maxHeartbeats 1000000 in
theorem start_fail_ss_bV (P' Q' : List Nat) (bb tt : Nat) (cbb ctt : Edge α)
    (hev : s.events = (vi, es) :: rest)
    (hv : s.verts[vi]? = some ⟨p, lp1, lp2⟩) (hn : Nbrs lp1 lp2 lpB lpT)
    (hB : s.verts[lpB]? = some ⟨pB, a1, a2⟩) (hT : s.verts[lpT]? = some ⟨pT, a3, a4⟩)
    (hs1 : fromTriplet p pB pT = some .start) (hs2 : fromTriplet p pT pB = some .start)
    (hvB : ofEq pB.x p.x = false ∨ ∀ k ∈ P ++ Q,
      (ofLt p.y (yExtrap (L k) (Rr k) p.x true) && ofLt (yExtrap (L k) (Rr k) p.x true) pB.y) = false)
    (hvT : ofEq pT.x p.x = false ∨ ∀ k ∈ P ++ Q,
      (ofLt p.y (yExtrap (L k) (Rr k) p.x true) && ofLt (yExtrap (L k) (Rr k) p.x true) pT.y) = false)
    (hc1 : cmpEdgeP p pB p pT p.x = .lt) (hc2 : cmpEdgeP p pT p pB p.x = .gt)
    (hevs : ∀ a ∈ rest, a.1 < s.verts.size)
    (hm : s.mono = true) (hP : P = P' ++ [bb]) (hQ : Q = tt :: Q') (hact : s.active = P ++ Q)
    (hG : ∀ k ∈ P ++ Q, EG s k (L k) (Rr k))
    (hPB : ∀ k ∈ P, cmpEdgeP p pB (L k) (Rr k) p.x = .gt)
    (hQB : ∀ k ∈ Q, cmpEdgeP p pB (L k) (Rr k) p.x = .lt)
    (hPT : ∀ k ∈ P, cmpEdgeP p pT (L k) (Rr k) p.x = .gt)
    (hQT : ∀ k ∈ Q, cmpEdgeP p pT (L k) (Rr k) p.x = .lt)
    (hbbc : s.edges[bb]? = some cbb) (httc : s.edges[tt]? = some ctt)
    (hbt : bb ≠ tt)
    (hbbP : ∀ k ∈ P', cmpEdgeP (L bb) (Rr bb) (L k) (Rr k) p.x = .gt)
    (hbbS : cmpEdgeP (L bb) (Rr bb) (L bb) (Rr bb) p.x = .eq)
    (hbbQ : ∀ k ∈ Q, cmpEdgeP (L bb) (Rr bb) (L k) (Rr k) p.x = .lt)
    (httP : ∀ k ∈ P, cmpEdgeP (L tt) (Rr tt) (L k) (Rr k) p.x = .gt)
    (httS : cmpEdgeP (L tt) (Rr tt) (L tt) (Rr tt) p.x = .eq)
    (httQ : ∀ k ∈ Q', cmpEdgeP (L tt) (Rr tt) (L k) (Rr k) p.x = .lt)
    (hpc : partialCmpEdgeP (L bb) (Rr bb) (L tt) (Rr tt) p.x = some .lt)
    (hwob : wobP p pB (L bb) (Rr bb) = true) :
    (handleNext : SM α Unit).run s = .error (.overlap .start p) := by
  rw [handleNext_run_cons hev]
  unfold nextBody
  show Runs s _ _
  have hvfB := vicfree_of s P Q L Rr hact hG p pB hvB
  have hvfT := vicfree_of s P Q L Rr hact hG p pT hvT
  -- facts
  have hbblt : bb < s.edges.size := lt_of_get' hbbc
  have httlt : tt < s.edges.size := lt_of_get' httc
  have hbbm : bb ∈ P ++ Q := by rw [hP]; simp
  have httm : tt ∈ P ++ Q := by rw [hQ]; simp
  obtain ⟨hbbl, hbbr⟩ : lpt? s cbb = some (L bb) ∧ cbb.rpt = Rr bb := by
    obtain ⟨e, he, h3, h4⟩ := hG bb hbbm
    rw [hbbc] at he; cases he; exact ⟨h3, h4⟩
  obtain ⟨httl, httr⟩ : lpt? s ctt = some (L tt) ∧ ctt.rpt = Rr tt := by
    obtain ⟨e, he, h3, h4⟩ := hG tt httm
    rw [httc] at he; cases he; exact ⟨h3, h4⟩
  have fa_bb : (startEdges s.edges pB pT s.chains.size)[bb]? = some cbb := by
    rw [startEdges_old _ _ _ _ hbblt]; exact hbbc
  have fa_tt : (startEdges s.edges pB pT s.chains.size)[tt]? = some ctt := by
    rw [startEdges_old _ _ _ _ httlt]; exact httc
  have hS1 : ∀ k ∈ P ++ Q, EG (startSt s rest p pB pT lpB lpT (P ++ Q)) k (L k) (Rr k) :=
    fun k hk => start_prefix_eg s lpB lpT rest p pB pT (P ++ Q) (hG k hk)
  have hS1PB : ∀ k ∈ P, ∃ l r, EG (startSt s rest p pB pT lpB lpT (P ++ Q)) k l r ∧
      cmpEdgeP p pB l r p.x = .gt := fun k hk => ⟨_, _, hS1 k (List.mem_append_left _ hk), hPB k hk⟩
  have hS1QB : ∀ k ∈ Q, ∃ l r, EG (startSt s rest p pB pT lpB lpT (P ++ Q)) k l r ∧
      cmpEdgeP p pB l r p.x = .lt := fun k hk => ⟨_, _, hS1 k (List.mem_append_right _ hk), hQB k hk⟩
  have hS1PT : ∀ k ∈ P, ∃ l r, EG (startSt s rest p pB pT lpB lpT (P ++ Q)) k l r ∧
      cmpEdgeP p pT l r p.x = .gt := fun k hk => ⟨_, _, hS1 k (List.mem_append_left _ hk), hPT k hk⟩
  have hS1QT : ∀ k ∈ Q, ∃ l r, EG (startSt s rest p pB pT lpB lpT (P ++ Q)) k l r ∧
      cmpEdgeP p pT l r p.x = .lt := fun k hk => ⟨_, _, hS1 k (List.mem_append_right _ hk), hQT k hk⟩
  have hmS : (startSt s rest p pB pT lpB lpT (P ++ Q)).mono = true := hm
  have hevs1 : ∀ a ∈ evAdd s.verts pB lpB s.edges.size rest, a.1 < s.verts.size := by
    intro a ha
    rcases evAdd_keys _ _ _ _ _ a ha with h | ⟨b, hb, h⟩
    · rw [h]; exact lt_of_get' hB
    · rw [← h]; exact hevs b hb
  have hbbE : (if (P.length == 0) = true then none else (P ++ Q)[P.length - 1]?) = some bb := by
    rw [getLast_of_pos, hP]; simp
  have httE : (P ++ Q)[P.length]? = some tt := by
    rw [head_of_append, hQ]; rfl
  have hPQ1 : P ++ Q = P' ++ bb :: Q := by rw [hP]; simp
  have hPQ2 : P ++ Q = P ++ tt :: Q' := by rw [hQ]
  have ebt : (bb == tt) = false := by simpa using hbt
  have hlen : P.length = P'.length + 1 := by rw [hP]; simp
  have hpc' : partialCmpEdgeP (L bb) cbb.rpt (L tt) ctt.rpt p.x = some .lt := by
    rw [hbbr, httr]; exact hpc
  have hwob' : wobP p pB (L bb) cbb.rpt = true := by rw [hbbr]; exact hwob
  have hv' : s.verts[vi]? = some ⟨p, lpB, lpT⟩ ∨ s.verts[vi]? = some ⟨p, lpT, lpB⟩ := by
    rcases hn with ⟨h1, h2⟩ | ⟨h1, h2⟩
    · left; rw [← h1, ← h2]; exact hv
    · right; rw [← h1, ← h2]; exact hv
  clear hv hn
  rcases hv' with hv | hv
  · start_head1
    xstart_ss_bV
  · start_head2
    xstart_ss_bV

set_option maxHeartbeats 1000000 in
theorem start_fail_ss_tV (P' Q' : List Nat) (bb tt : Nat) (cbb ctt : Edge α)
    (hev : s.events = (vi, es) :: rest)
    (hv : s.verts[vi]? = some ⟨p, lp1, lp2⟩) (hn : Nbrs lp1 lp2 lpB lpT)
    (hB : s.verts[lpB]? = some ⟨pB, a1, a2⟩) (hT : s.verts[lpT]? = some ⟨pT, a3, a4⟩)
    (hs1 : fromTriplet p pB pT = some .start) (hs2 : fromTriplet p pT pB = some .start)
    (hvB : ofEq pB.x p.x = false ∨ ∀ k ∈ P ++ Q,
      (ofLt p.y (yExtrap (L k) (Rr k) p.x true) && ofLt (yExtrap (L k) (Rr k) p.x true) pB.y) = false)
    (hvT : ofEq pT.x p.x = false ∨ ∀ k ∈ P ++ Q,
      (ofLt p.y (yExtrap (L k) (Rr k) p.x true) && ofLt (yExtrap (L k) (Rr k) p.x true) pT.y) = false)
    (hc1 : cmpEdgeP p pB p pT p.x = .lt) (hc2 : cmpEdgeP p pT p pB p.x = .gt)
    (hevs : ∀ a ∈ rest, a.1 < s.verts.size)
    (hm : s.mono = true) (hP : P = P' ++ [bb]) (hQ : Q = tt :: Q') (hact : s.active = P ++ Q)
    (hG : ∀ k ∈ P ++ Q, EG s k (L k) (Rr k))
    (hPB : ∀ k ∈ P, cmpEdgeP p pB (L k) (Rr k) p.x = .gt)
    (hQB : ∀ k ∈ Q, cmpEdgeP p pB (L k) (Rr k) p.x = .lt)
    (hPT : ∀ k ∈ P, cmpEdgeP p pT (L k) (Rr k) p.x = .gt)
    (hQT : ∀ k ∈ Q, cmpEdgeP p pT (L k) (Rr k) p.x = .lt)
    (hbbc : s.edges[bb]? = some cbb) (httc : s.edges[tt]? = some ctt)
    (hbt : bb ≠ tt)
    (hbbP : ∀ k ∈ P', cmpEdgeP (L bb) (Rr bb) (L k) (Rr k) p.x = .gt)
    (hbbS : cmpEdgeP (L bb) (Rr bb) (L bb) (Rr bb) p.x = .eq)
    (hbbQ : ∀ k ∈ Q, cmpEdgeP (L bb) (Rr bb) (L k) (Rr k) p.x = .lt)
    (httP : ∀ k ∈ P, cmpEdgeP (L tt) (Rr tt) (L k) (Rr k) p.x = .gt)
    (httS : cmpEdgeP (L tt) (Rr tt) (L tt) (Rr tt) p.x = .eq)
    (httQ : ∀ k ∈ Q', cmpEdgeP (L tt) (Rr tt) (L k) (Rr k) p.x = .lt)
    (hpc : partialCmpEdgeP (L bb) (Rr bb) (L tt) (Rr tt) p.x = some .lt)
    (hwob : wobP p pB (L bb) (Rr bb) = false) (hwot : wotP p pT (L tt) (Rr tt) = true) :
    (handleNext : SM α Unit).run s = .error (.overlap .start p) := by
  rw [handleNext_run_cons hev]
  unfold nextBody
  show Runs s _ _
  have hvfB := vicfree_of s P Q L Rr hact hG p pB hvB
  have hvfT := vicfree_of s P Q L Rr hact hG p pT hvT
  -- facts
  have hbblt : bb < s.edges.size := lt_of_get' hbbc
  have httlt : tt < s.edges.size := lt_of_get' httc
  have hbbm : bb ∈ P ++ Q := by rw [hP]; simp
  have httm : tt ∈ P ++ Q := by rw [hQ]; simp
  obtain ⟨hbbl, hbbr⟩ : lpt? s cbb = some (L bb) ∧ cbb.rpt = Rr bb := by
    obtain ⟨e, he, h3, h4⟩ := hG bb hbbm
    rw [hbbc] at he; cases he; exact ⟨h3, h4⟩
  obtain ⟨httl, httr⟩ : lpt? s ctt = some (L tt) ∧ ctt.rpt = Rr tt := by
    obtain ⟨e, he, h3, h4⟩ := hG tt httm
    rw [httc] at he; cases he; exact ⟨h3, h4⟩
  have fa_bb : (startEdges s.edges pB pT s.chains.size)[bb]? = some cbb := by
    rw [startEdges_old _ _ _ _ hbblt]; exact hbbc
  have fa_tt : (startEdges s.edges pB pT s.chains.size)[tt]? = some ctt := by
    rw [startEdges_old _ _ _ _ httlt]; exact httc
  have hS1 : ∀ k ∈ P ++ Q, EG (startSt s rest p pB pT lpB lpT (P ++ Q)) k (L k) (Rr k) :=
    fun k hk => start_prefix_eg s lpB lpT rest p pB pT (P ++ Q) (hG k hk)
  have hS1PB : ∀ k ∈ P, ∃ l r, EG (startSt s rest p pB pT lpB lpT (P ++ Q)) k l r ∧
      cmpEdgeP p pB l r p.x = .gt := fun k hk => ⟨_, _, hS1 k (List.mem_append_left _ hk), hPB k hk⟩
  have hS1QB : ∀ k ∈ Q, ∃ l r, EG (startSt s rest p pB pT lpB lpT (P ++ Q)) k l r ∧
      cmpEdgeP p pB l r p.x = .lt := fun k hk => ⟨_, _, hS1 k (List.mem_append_right _ hk), hQB k hk⟩
  have hS1PT : ∀ k ∈ P, ∃ l r, EG (startSt s rest p pB pT lpB lpT (P ++ Q)) k l r ∧
      cmpEdgeP p pT l r p.x = .gt := fun k hk => ⟨_, _, hS1 k (List.mem_append_left _ hk), hPT k hk⟩
  have hS1QT : ∀ k ∈ Q, ∃ l r, EG (startSt s rest p pB pT lpB lpT (P ++ Q)) k l r ∧
      cmpEdgeP p pT l r p.x = .lt := fun k hk => ⟨_, _, hS1 k (List.mem_append_right _ hk), hQT k hk⟩
  have hmS : (startSt s rest p pB pT lpB lpT (P ++ Q)).mono = true := hm
  have hevs1 : ∀ a ∈ evAdd s.verts pB lpB s.edges.size rest, a.1 < s.verts.size := by
    intro a ha
    rcases evAdd_keys _ _ _ _ _ a ha with h | ⟨b, hb, h⟩
    · rw [h]; exact lt_of_get' hB
    · rw [← h]; exact hevs b hb
  have hbbE : (if (P.length == 0) = true then none else (P ++ Q)[P.length - 1]?) = some bb := by
    rw [getLast_of_pos, hP]; simp
  have httE : (P ++ Q)[P.length]? = some tt := by
    rw [head_of_append, hQ]; rfl
  have hPQ1 : P ++ Q = P' ++ bb :: Q := by rw [hP]; simp
  have hPQ2 : P ++ Q = P ++ tt :: Q' := by rw [hQ]
  have ebt : (bb == tt) = false := by simpa using hbt
  have hlen : P.length = P'.length + 1 := by rw [hP]; simp
  have hpc' : partialCmpEdgeP (L bb) cbb.rpt (L tt) ctt.rpt p.x = some .lt := by
    rw [hbbr, httr]; exact hpc
  have hwob' : wobP p pB (L bb) cbb.rpt = false := by rw [hbbr]; exact hwob
  have hwot' : wotP p pT (L tt) ctt.rpt = true := by rw [httr]; exact hwot
  have hv' : s.verts[vi]? = some ⟨p, lpB, lpT⟩ ∨ s.verts[vi]? = some ⟨p, lpT, lpB⟩ := by
    rcases hn with ⟨h1, h2⟩ | ⟨h1, h2⟩
    · left; rw [← h1, ← h2]; exact hv
    · right; rw [← h1, ← h2]; exact hv
  clear hv hn
  rcases hv' with hv | hv
  · start_head1
    xstart_ss_tV
  · start_head2
    xstart_ss_tV

set_option maxHeartbeats 1000000 in
theorem start_fail_nsV (Q' : List Nat) (tt : Nat) (ctt : Edge α)
    (hev : s.events = (vi, es) :: rest)
    (hv : s.verts[vi]? = some ⟨p, lp1, lp2⟩) (hn : Nbrs lp1 lp2 lpB lpT)
    (hB : s.verts[lpB]? = some ⟨pB, a1, a2⟩) (hT : s.verts[lpT]? = some ⟨pT, a3, a4⟩)
    (hs1 : fromTriplet p pB pT = some .start) (hs2 : fromTriplet p pT pB = some .start)
    (hvB : ofEq pB.x p.x = false ∨ ∀ k ∈ P ++ Q,
      (ofLt p.y (yExtrap (L k) (Rr k) p.x true) && ofLt (yExtrap (L k) (Rr k) p.x true) pB.y) = false)
    (hvT : ofEq pT.x p.x = false ∨ ∀ k ∈ P ++ Q,
      (ofLt p.y (yExtrap (L k) (Rr k) p.x true) && ofLt (yExtrap (L k) (Rr k) p.x true) pT.y) = false)
    (hc1 : cmpEdgeP p pB p pT p.x = .lt) (hc2 : cmpEdgeP p pT p pB p.x = .gt)
    (hevs : ∀ a ∈ rest, a.1 < s.verts.size)
    (hm : s.mono = true) (hP : P = []) (hQ : Q = tt :: Q') (hact : s.active = P ++ Q)
    (hG : ∀ k ∈ P ++ Q, EG s k (L k) (Rr k))
    (hQB : ∀ k ∈ Q, cmpEdgeP p pB (L k) (Rr k) p.x = .lt)
    (hQT : ∀ k ∈ Q, cmpEdgeP p pT (L k) (Rr k) p.x = .lt)
    (httc : s.edges[tt]? = some ctt)
    (httP : ∀ k ∈ P, cmpEdgeP (L tt) (Rr tt) (L k) (Rr k) p.x = .gt)
    (httS : cmpEdgeP (L tt) (Rr tt) (L tt) (Rr tt) p.x = .eq)
    (httQ : ∀ k ∈ Q', cmpEdgeP (L tt) (Rr tt) (L k) (Rr k) p.x = .lt)
    (hwot : wotP p pT (L tt) (Rr tt) = true) :
    (handleNext : SM α Unit).run s = .error (.overlap .start p) := by
  rw [handleNext_run_cons hev]
  unfold nextBody
  show Runs s _ _
  have hvfB := vicfree_of s P Q L Rr hact hG p pB hvB
  have hvfT := vicfree_of s P Q L Rr hact hG p pT hvT
  have httlt : tt < s.edges.size := lt_of_get' httc
  have httm : tt ∈ P ++ Q := by rw [hQ]; simp
  obtain ⟨httl, httr⟩ : lpt? s ctt = some (L tt) ∧ ctt.rpt = Rr tt := by
    obtain ⟨e, he, h3, h4⟩ := hG tt httm
    rw [httc] at he; cases he; exact ⟨h3, h4⟩
  have fa_tt : (startEdges s.edges pB pT s.chains.size)[tt]? = some ctt := by
    rw [startEdges_old _ _ _ _ httlt]; exact httc
  have hS1 : ∀ k ∈ P ++ Q, EG (startSt s rest p pB pT lpB lpT (P ++ Q)) k (L k) (Rr k) :=
    fun k hk => start_prefix_eg s lpB lpT rest p pB pT (P ++ Q) (hG k hk)
  have hS1PB : ∀ k ∈ P, ∃ l r, EG (startSt s rest p pB pT lpB lpT (P ++ Q)) k l r ∧
      cmpEdgeP p pB l r p.x = .gt := by intro k hk; rw [hP] at hk; cases hk
  have hS1QB : ∀ k ∈ Q, ∃ l r, EG (startSt s rest p pB pT lpB lpT (P ++ Q)) k l r ∧
      cmpEdgeP p pB l r p.x = .lt := fun k hk => ⟨_, _, hS1 k (List.mem_append_right _ hk), hQB k hk⟩
  have hS1PT : ∀ k ∈ P, ∃ l r, EG (startSt s rest p pB pT lpB lpT (P ++ Q)) k l r ∧
      cmpEdgeP p pT l r p.x = .gt := by intro k hk; rw [hP] at hk; cases hk
  have hS1QT : ∀ k ∈ Q, ∃ l r, EG (startSt s rest p pB pT lpB lpT (P ++ Q)) k l r ∧
      cmpEdgeP p pT l r p.x = .lt := fun k hk => ⟨_, _, hS1 k (List.mem_append_right _ hk), hQT k hk⟩
  have hmS : (startSt s rest p pB pT lpB lpT (P ++ Q)).mono = true := hm
  have hevs1 : ∀ a ∈ evAdd s.verts pB lpB s.edges.size rest, a.1 < s.verts.size := by
    intro a ha
    rcases evAdd_keys _ _ _ _ _ a ha with h | ⟨b, hb, h⟩
    · rw [h]; exact lt_of_get' hB
    · rw [← h]; exact hevs b hb
  have hbbE : (if (P.length == 0) = true then none else (P ++ Q)[P.length - 1]?) = none := by
    rw [getLast_of_pos, hP]; rfl
  have httE : (P ++ Q)[P.length]? = some tt := by
    rw [head_of_append, hQ]; rfl
  have hPQ2 : P ++ Q = P ++ tt :: Q' := by rw [hQ]
  have hlen0 : ¬ (0 < P.length) := by rw [hP]; simp
  have hwot' : wotP p pT (L tt) ctt.rpt = true := by rw [httr]; exact hwot
  have hv' : s.verts[vi]? = some ⟨p, lpB, lpT⟩ ∨ s.verts[vi]? = some ⟨p, lpT, lpB⟩ := by
    rcases hn with ⟨h1, h2⟩ | ⟨h1, h2⟩
    · left; rw [← h1, ← h2]; exact hv
    · right; rw [← h1, ← h2]; exact hv
  clear hv hn
  rcases hv' with hv | hv
  · start_head1
    xstart_ns_tV
  · start_head2
    xstart_ns_tV


set_option maxHeartbeats 1000000 in
theorem start_fail_snV (P' : List Nat) (bb : Nat) (cbb : Edge α)
    (hev : s.events = (vi, es) :: rest)
    (hv : s.verts[vi]? = some ⟨p, lp1, lp2⟩) (hn : Nbrs lp1 lp2 lpB lpT)
    (hB : s.verts[lpB]? = some ⟨pB, a1, a2⟩) (hT : s.verts[lpT]? = some ⟨pT, a3, a4⟩)
    (hs1 : fromTriplet p pB pT = some .start) (hs2 : fromTriplet p pT pB = some .start)
    (hvB : ofEq pB.x p.x = false ∨ ∀ k ∈ P ++ Q,
      (ofLt p.y (yExtrap (L k) (Rr k) p.x true) && ofLt (yExtrap (L k) (Rr k) p.x true) pB.y) = false)
    (hvT : ofEq pT.x p.x = false ∨ ∀ k ∈ P ++ Q,
      (ofLt p.y (yExtrap (L k) (Rr k) p.x true) && ofLt (yExtrap (L k) (Rr k) p.x true) pT.y) = false)
    (hc1 : cmpEdgeP p pB p pT p.x = .lt) (hc2 : cmpEdgeP p pT p pB p.x = .gt)
    (hevs : ∀ a ∈ rest, a.1 < s.verts.size)
    (hm : s.mono = true) (hP : P = P' ++ [bb]) (hQ : Q = []) (hact : s.active = P ++ Q)
    (hG : ∀ k ∈ P ++ Q, EG s k (L k) (Rr k))
    (hPB : ∀ k ∈ P, cmpEdgeP p pB (L k) (Rr k) p.x = .gt)
    (hPT : ∀ k ∈ P, cmpEdgeP p pT (L k) (Rr k) p.x = .gt)
    (hbbc : s.edges[bb]? = some cbb)
    (hbbP : ∀ k ∈ P', cmpEdgeP (L bb) (Rr bb) (L k) (Rr k) p.x = .gt)
    (hbbS : cmpEdgeP (L bb) (Rr bb) (L bb) (Rr bb) p.x = .eq)
    (hbbQ : ∀ k ∈ Q, cmpEdgeP (L bb) (Rr bb) (L k) (Rr k) p.x = .lt)
    (hwob : wobP p pB (L bb) (Rr bb) = true) :
    (handleNext : SM α Unit).run s = .error (.overlap .start p) := by
  rw [handleNext_run_cons hev]
  unfold nextBody
  show Runs s _ _
  have hvfB := vicfree_of s P Q L Rr hact hG p pB hvB
  have hvfT := vicfree_of s P Q L Rr hact hG p pT hvT
  have hbblt : bb < s.edges.size := lt_of_get' hbbc
  have hbbm : bb ∈ P ++ Q := by rw [hP]; simp
  obtain ⟨hbbl, hbbr⟩ : lpt? s cbb = some (L bb) ∧ cbb.rpt = Rr bb := by
    obtain ⟨e, he, h3, h4⟩ := hG bb hbbm
    rw [hbbc] at he; cases he; exact ⟨h3, h4⟩
  have fa_bb : (startEdges s.edges pB pT s.chains.size)[bb]? = some cbb := by
    rw [startEdges_old _ _ _ _ hbblt]; exact hbbc
  have hS1 : ∀ k ∈ P ++ Q, EG (startSt s rest p pB pT lpB lpT (P ++ Q)) k (L k) (Rr k) :=
    fun k hk => start_prefix_eg s lpB lpT rest p pB pT (P ++ Q) (hG k hk)
  have hS1PB : ∀ k ∈ P, ∃ l r, EG (startSt s rest p pB pT lpB lpT (P ++ Q)) k l r ∧
      cmpEdgeP p pB l r p.x = .gt := fun k hk => ⟨_, _, hS1 k (List.mem_append_left _ hk), hPB k hk⟩
  have hS1QB : ∀ k ∈ Q, ∃ l r, EG (startSt s rest p pB pT lpB lpT (P ++ Q)) k l r ∧
      cmpEdgeP p pB l r p.x = .lt := by intro k hk; rw [hQ] at hk; cases hk
  have hS1PT : ∀ k ∈ P, ∃ l r, EG (startSt s rest p pB pT lpB lpT (P ++ Q)) k l r ∧
      cmpEdgeP p pT l r p.x = .gt := fun k hk => ⟨_, _, hS1 k (List.mem_append_left _ hk), hPT k hk⟩
  have hS1QT : ∀ k ∈ Q, ∃ l r, EG (startSt s rest p pB pT lpB lpT (P ++ Q)) k l r ∧
      cmpEdgeP p pT l r p.x = .lt := by intro k hk; rw [hQ] at hk; cases hk
  have hmS : (startSt s rest p pB pT lpB lpT (P ++ Q)).mono = true := hm
  have hevs1 : ∀ a ∈ evAdd s.verts pB lpB s.edges.size rest, a.1 < s.verts.size := by
    intro a ha
    rcases evAdd_keys _ _ _ _ _ a ha with h | ⟨b, hb, h⟩
    · rw [h]; exact lt_of_get' hB
    · rw [← h]; exact hevs b hb
  have hbbE : (if (P.length == 0) = true then none else (P ++ Q)[P.length - 1]?) = some bb := by
    rw [getLast_of_pos, hP]; simp
  have httE : (P ++ Q)[P.length]? = none := by
    rw [head_of_append, hQ]; rfl
  have hPQ1 : P ++ Q = P' ++ bb :: Q := by rw [hP]; simp
  have hlen1 : ¬ (P'.length + 1 < P.length + Q.length) := by rw [hP, hQ]; simp
  have hwob' : wobP p pB (L bb) cbb.rpt = true := by rw [hbbr]; exact hwob
  have hv' : s.verts[vi]? = some ⟨p, lpB, lpT⟩ ∨ s.verts[vi]? = some ⟨p, lpT, lpB⟩ := by
    rcases hn with ⟨h1, h2⟩ | ⟨h1, h2⟩
    · left; rw [← h1, ← h2]; exact hv
    · right; rw [← h1, ← h2]; exact hv
  clear hv hn
  rcases hv' with hv | hv
  · start_head1
    xstart_sn_bV
  · start_head2
    xstart_sn_bV

/-- **the Start event with a positive look-ahead test**, all cases -/
theorem start_failV
    (hev : s.events = (vi, es) :: rest)
    (hv : s.verts[vi]? = some ⟨p, lp1, lp2⟩) (hn : Nbrs lp1 lp2 lpB lpT)
    (hB : s.verts[lpB]? = some ⟨pB, a1, a2⟩) (hT : s.verts[lpT]? = some ⟨pT, a3, a4⟩)
    (hs1 : fromTriplet p pB pT = some .start) (hs2 : fromTriplet p pT pB = some .start)
    (hvB : ofEq pB.x p.x = false ∨ ∀ k ∈ P ++ Q,
      (ofLt p.y (yExtrap (L k) (Rr k) p.x true) && ofLt (yExtrap (L k) (Rr k) p.x true) pB.y) = false)
    (hvT : ofEq pT.x p.x = false ∨ ∀ k ∈ P ++ Q,
      (ofLt p.y (yExtrap (L k) (Rr k) p.x true) && ofLt (yExtrap (L k) (Rr k) p.x true) pT.y) = false)
    (hc1 : cmpEdgeP p pB p pT p.x = .lt) (hc2 : cmpEdgeP p pT p pB p.x = .gt)
    (hevs : ∀ a ∈ rest, a.1 < s.verts.size)
    (hm : s.mono = true) (hact : s.active = P ++ Q)
    (hG : ∀ k ∈ P ++ Q, EG s k (L k) (Rr k))
    (hPB : ∀ k ∈ P, cmpEdgeP p pB (L k) (Rr k) p.x = .gt)
    (hQB : ∀ k ∈ Q, cmpEdgeP p pB (L k) (Rr k) p.x = .lt)
    (hPT : ∀ k ∈ P, cmpEdgeP p pT (L k) (Rr k) p.x = .gt)
    (hQT : ∀ k ∈ Q, cmpEdgeP p pT (L k) (Rr k) p.x = .lt)
    (hpw : (P ++ Q).Pairwise (CmpLt L Rr p.x))
    (hself : ∀ k ∈ P ++ Q, cmpEdgeP (L k) (Rr k) (L k) (Rr k) p.x = .eq)
    (hpc : ∀ bb tt, P.getLast? = some bb → Q.head? = some tt → bb ≠ tt ∧
      partialCmpEdgeP (L bb) (Rr bb) (L tt) (Rr tt) p.x = some .lt)
    (hfail : (∃ bb, P.getLast? = some bb ∧ wobP p pB (L bb) (Rr bb) = true) ∨
      ((∀ bb, P.getLast? = some bb → wobP p pB (L bb) (Rr bb) = false) ∧
        ∃ tt, Q.head? = some tt ∧ wotP p pT (L tt) (Rr tt) = true)) :
    (handleNext : SM α Unit).run s = .error (.overlap .start p) := by
  have hcell : ∀ k ∈ P ++ Q, ∃ c, s.edges[k]? = some c := fun k hk => by
    obtain ⟨e, he, -⟩ := hG k hk; exact ⟨e, he⟩
  rcases List.eq_nil_or_concat P with hP | ⟨P', bb, hP⟩
  · -- nothing below: the upper test fails
    rcases hfail with ⟨bb, h1, -⟩ | ⟨-, tt, h2, hwot⟩
    · rw [hP] at h1; cases h1
    · cases Q with
      | nil => cases h2
      | cons tt' Q' =>
        cases h2
        obtain ⟨ctt, httc⟩ := hcell tt (by simp)
        have hpwQ : (tt :: Q').Pairwise (CmpLt L Rr p.x) := by
          rw [hP] at hpw; simpa using hpw
        refine start_fail_nsV s vi lp1 lp2 lpB lpT a1 a2 a3 a4 es rest p pB pT P (tt :: Q') L Rr Q' tt ctt
          hev hv hn hB hT hs1 hs2 hvB hvT hc1 hc2 hevs hm hP rfl hact hG hQB hQT httc ?_ ?_ ?_ hwot
        · intro k hk; rw [hP] at hk; cases hk
        · exact hself tt (by simp)
        · intro k hk
          exact ((List.pairwise_cons.mp hpwQ).1 k hk).1
  · rw [List.concat_eq_append] at hP
    have hlast : P.getLast? = some bb := by rw [hP]; simp
    obtain ⟨cbb, hbbc⟩ := hcell bb (by rw [hP]; simp)
    have hpw' : (P' ++ bb :: Q).Pairwise (CmpLt L Rr p.x) := by
      rw [hP] at hpw; simpa using hpw
    rw [List.pairwise_append] at hpw'
    obtain ⟨-, hpwbQ, hcross⟩ := hpw'
    have hbbP : ∀ k ∈ P', cmpEdgeP (L bb) (Rr bb) (L k) (Rr k) p.x = .gt :=
      fun k hk => (hcross k hk bb List.mem_cons_self).2
    have hbbQ : ∀ k ∈ Q, cmpEdgeP (L bb) (Rr bb) (L k) (Rr k) p.x = .lt :=
      fun k hk => ((List.pairwise_cons.mp hpwbQ).1 k hk).1
    have hbbS := hself bb (by rw [hP]; simp)
    cases Q with
    | nil =>
      rcases hfail with ⟨bb', h1, hwob⟩ | ⟨-, tt, h2, -⟩
      · rw [hlast] at h1; cases h1
        exact start_fail_snV s vi lp1 lp2 lpB lpT a1 a2 a3 a4 es rest p pB pT P [] L Rr P' bb cbb
          hev hv hn hB hT hs1 hs2 hvB hvT hc1 hc2 hevs hm hP rfl hact hG hPB hPT hbbc hbbP hbbS hbbQ hwob
      · cases h2
    | cons tt Q' =>
      obtain ⟨ctt, httc⟩ := hcell tt (by simp)
      obtain ⟨hbt, hpc'⟩ := hpc bb tt hlast rfl
      have httP : ∀ k ∈ P, cmpEdgeP (L tt) (Rr tt) (L k) (Rr k) p.x = .gt := by
        intro k hk
        rw [hP] at hk
        rcases List.mem_append.mp hk with hk | hk
        · exact (hcross k hk tt (by simp)).2
        · simp only [List.mem_singleton] at hk
          subst hk
          exact ((List.pairwise_cons.mp hpwbQ).1 tt List.mem_cons_self).2
      have httQ : ∀ k ∈ Q', cmpEdgeP (L tt) (Rr tt) (L k) (Rr k) p.x = .lt := by
        intro k hk
        have := (List.pairwise_cons.mp hpwbQ).2
        exact ((List.pairwise_cons.mp this).1 k hk).1
      rcases hfail with ⟨bb', h1, hwob⟩ | ⟨hwob, tt', h2, hwot⟩
      · rw [hlast] at h1; cases h1
        exact start_fail_ss_bV s vi lp1 lp2 lpB lpT a1 a2 a3 a4 es rest p pB pT P (tt :: Q') L Rr P' Q' bb tt
          cbb ctt hev hv hn hB hT hs1 hs2 hvB hvT hc1 hc2 hevs hm hP rfl hact hG hPB hQB hPT hQT hbbc httc
          hbt hbbP hbbS hbbQ httP (hself tt (by simp)) httQ hpc' hwob
      · cases h2
        exact start_fail_ss_tV s vi lp1 lp2 lpB lpT a1 a2 a3 a4 es rest p pB pT P (tt :: Q') L Rr P' Q' bb tt
          cbb ctt hev hv hn hB hT hs1 hs2 hvB hvT hc1 hc2 hevs hm hP rfl hact hG hPB hQB hPT hQT hbbc httc
          hbt hbbP hbbS hbbQ httP (hself tt (by simp)) httQ hpc' (hwob bb hlast) hwot
/-- **the Start event rejected by `verticalIsCrossed` on the top new edge** (the bottom new edge
    is not crossed) -/
theorem start_vic
    (hev : s.events = (vi, es) :: rest)
    (hv : s.verts[vi]? = some ⟨p, lp1, lp2⟩) (hn : Nbrs lp1 lp2 lpB lpT)
    (hB : s.verts[lpB]? = some ⟨pB, a1, a2⟩) (hT : s.verts[lpT]? = some ⟨pT, a3, a4⟩)
    (hs1 : fromTriplet p pB pT = some .start) (hs2 : fromTriplet p pT pB = some .start)
    (hvB : ofEq pB.x p.x = false ∨ ∀ k ∈ P ++ Q,
      (ofLt p.y (yExtrap (L k) (Rr k) p.x true) && ofLt (yExtrap (L k) (Rr k) p.x true) pB.y) = false)
    (hvT : ofEq pT.x p.x = true ∧ ∃ k ∈ P ++ Q,
      (ofLt p.y (yExtrap (L k) (Rr k) p.x true) && ofLt (yExtrap (L k) (Rr k) p.x true) pT.y) = true)
    (hc1 : cmpEdgeP p pB p pT p.x = .lt) (hc2 : cmpEdgeP p pT p pB p.x = .gt)
    (hact : s.active = P ++ Q)
    (hG : ∀ k ∈ P ++ Q, EG s k (L k) (Rr k)) :
    (handleNext : SM α Unit).run s = .error (.overlap .start p) := by
  rw [handleNext_run_cons hev]
  unfold nextBody
  show Runs s _ _
  have hvfB := vicfree_of s P Q L Rr hact hG p pB hvB
  have hvhT := vichit_of s P Q L Rr hact hG p pT hvT
  have hv' : s.verts[vi]? = some ⟨p, lpB, lpT⟩ ∨ s.verts[vi]? = some ⟨p, lpT, lpB⟩ := by
    rcases hn with ⟨h1, h2⟩ | ⟨h1, h2⟩
    · left; rw [← h1, ← h2]; exact hv
    · right; rw [← h1, ← h2]; exact hv
  clear hv hn
  rcases hv' with hv | hv
  · start_head1
    sm_steps [hc1, hB, hT]
    sm_use (run_vic _ none p pB ?h1)
    case h1 => exact hvfB _ rfl rfl rfl rfl
    sm_whnf
    sm_steps [hc1, hB, hT]
    sm_use (run_vic_hit _ none p pT ?h1)
    case h1 => exact hvhT _ rfl rfl rfl rfl
    sm_whnf
    sm_cond
    exact Runs.final rfl
  · start_head2
    sm_steps [hc1, hB, hT]
    sm_use (run_vic _ none p pB ?h1)
    case h1 => exact hvfB _ rfl rfl rfl rfl
    sm_whnf
    sm_steps [hc1, hB, hT]
    sm_use (run_vic_hit _ none p pT ?h1)
    case h1 => exact hvhT _ rfl rfl rfl rfl
    sm_whnf
    sm_cond
    exact Runs.final rfl

end

end Cav.GenXVFail
