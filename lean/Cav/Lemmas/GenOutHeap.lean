/-
  List-level (`Seg`) heap lemmas for the general sweep, part 1: splitting a chain at an arbitrary
  position (`seg_append`), the fan lemmas of `MonoChain.lean` with frame conditions
  (`fan_head_fr`, `fan_tail_fr`), and the fans of `nodeTriangulate` started at an inner node of a
  chain (`fwd_fan_mid`, `bwd_fan_mid`).
-/
import Cav.Lemmas.MonoChain
import Cav.Lemmas.GenNodes

set_option linter.unusedSimpArgs false
set_option linter.unusedVariables false
set_option linter.unusedSectionVars false

namespace Cav.GenOutHeap
open Cav Num Cav.Sweep Cav.SweepRun Cav.TriRun Cav.QuadRun Cav.CvxHeap Cav.MonoHeap

variable {α : Type} [Num α]

/-! ### (D0) splitting a chain -/

/-- index of the last element of a chain piece, or the link `a` in front of it -/
def lastOr : List (Nat × Pt α) → Option Nat → Option Nat
  | [], a => a
  | (i, _) :: r, _ => lastOr r (some i)

theorem lastOr_snoc : ∀ (l : List (Nat × Pt α)) (i : Nat) (p : Pt α) (a : Option Nat),
    lastOr (l ++ [(i, p)]) a = some i
  | [], _, _, _ => rfl
  | (j, _) :: r, i, p, _ => lastOr_snoc r i p (some j)

theorem lastOr_append : ∀ (l1 l2 : List (Nat × Pt α)) (a : Option Nat),
    lastOr (l1 ++ l2) a = lastOr l2 (lastOr l1 a)
  | [], _, _ => rfl
  | (j, _) :: r, l2, _ => lastOr_append r l2 (some j)

theorem lastOr_eq : ∀ (l : List (Nat × Pt α)) (a : Option Nat),
    lastOr l a = match l.getLast? with | some x => some x.1 | none => a
  | [], _ => rfl
  | [(i, _)], _ => rfl
  | (i, _) :: y :: r, _ => by
    rw [lastOr, lastOr_eq (y :: r) (some i), List.getLast?_cons_cons]
    cases h : (y :: r).getLast? with
    | none => simp at h
    | some x => rfl

theorem lastOr_of_getLast? {l : List (Nat × Pt α)} {i : Nat} (a : Option Nat)
    (h : some i = (l.getLast?).map Prod.fst) : lastOr l a = some i := by
  rw [lastOr_eq]
  cases hl : l.getLast? with
  | none => rw [hl] at h; cases h
  | some x => rw [hl] at h; simp only [Option.map_some, Option.some.injEq] at h; rw [h]

theorem nxtOf_of_head? {l : List (Nat × Pt α)} {i : Nat} (e : Option Nat)
    (h : some i = (l.head?).map Prod.fst) : nxtOf l e = some i := by
  cases l with
  | nil => cases h
  | cons hd tl =>
    obtain ⟨j, q⟩ := hd
    simp only [List.head?_cons, Option.map_some, Option.some.injEq] at h
    rw [h]; rfl

theorem nxtOf_append : ∀ (l1 l2 : List (Nat × Pt α)) (e : Option Nat),
    nxtOf (l1 ++ l2) e = nxtOf l1 (nxtOf l2 e)
  | [], _, _ => rfl
  | (_, _) :: _, _, _ => rfl

/-- a chain piece is linked iff its two halves are -/
theorem seg_append (N : Array (Node α)) : ∀ (l1 l2 : List (Nat × Pt α)) (a e : Option Nat),
    Seg N a (l1 ++ l2) e ↔ Seg N a l1 (nxtOf l2 e) ∧ Seg N (lastOr l1 a) l2 e
  | [], l2, a, e => by simp [Seg, lastOr]
  | (i, p) :: r, l2, a, e => by
    have ih := seg_append N r l2 (some i) e
    simp only [List.cons_append, Seg, nxtOf_append, lastOr, ih, and_assoc]

theorem segR_append (N : Array (Node α)) : ∀ (l1 l2 : List (Nat × Pt α)) (a e : Option Nat),
    SegR N a (l1 ++ l2) e ↔ SegR N a l1 (nxtOf l2 e) ∧ SegR N (lastOr l1 a) l2 e
  | [], l2, a, e => by simp [SegR, lastOr]
  | (i, p) :: r, l2, a, e => by
    have ih := segR_append N r l2 (some i) e
    simp only [List.cons_append, SegR, nxtOf_append, lastOr, ih, and_assoc]

/-- the cell of an inner element of a chain -/
theorem seg_mid_cell {N : Array (Node α)} {lx : List (Nat × Pt α)} {m : Nat} {pm : Pt α}
    {ly : List (Nat × Pt α)} {a e : Option Nat} (h : Seg N a (lx ++ (m, pm) :: ly) e) :
    N[m]? = some ⟨pm, lastOr lx a, nxtOf ly e⟩ :=
  ((seg_append N lx ((m, pm) :: ly) a e).mp h).2.1

/-! ### a duplicate-free list of indices below `n` has at most `n` elements -/

theorem nodup_length_le : ∀ (n : Nat) (l : List Nat), l.Nodup → (∀ x ∈ l, x < n) → l.length ≤ n
  | 0, l, _, h => by
    cases l with
    | nil => simp
    | cons x r => exact absurd (h x List.mem_cons_self) (Nat.not_lt_zero _)
  | n + 1, l, hnd, h => by
    by_cases hm : n ∈ l
    · have h1 := nodup_length_le n (l.erase n) (hnd.erase n) (by
        intro x hx
        rw [hnd.mem_erase_iff] at hx
        have := h x hx.2
        omega)
      rw [List.length_erase_of_mem hm] at h1
      omega
    · have h1 := nodup_length_le n l hnd (by
        intro x hx
        have := h x hx
        have : x ≠ n := fun e => hm (e ▸ hx)
        omega)
      omega

theorem nodup_reverse' (l : List Nat) : l.reverse.Nodup ↔ l.Nodup := by
  unfold List.Nodup
  rw [List.pairwise_reverse]
  constructor <;> intro h <;> exact h.imp (fun h => h.symm)

theorem nodup_app_ne {A B : List (Nat × Pt α)} (h : ((A ++ B).map Prod.fst).Nodup)
    {x y : Nat × Pt α} (hx : x ∈ A) (hy : y ∈ B) : x.1 ≠ y.1 := by
  rw [List.map_append, List.nodup_append] at h
  exact h.2.2 x.1 (List.mem_map.mpr ⟨x, hx, rfl⟩) y.1 (List.mem_map.mpr ⟨y, hy, rfl⟩)

theorem nodup_app_left {A B : List (Nat × Pt α)} (h : ((A ++ B).map Prod.fst).Nodup) :
    (A.map Prod.fst).Nodup := by
  rw [List.map_append, List.nodup_append] at h
  exact h.1

theorem nodup_app_right {A B : List (Nat × Pt α)} (h : ((A ++ B).map Prod.fst).Nodup) :
    (B.map Prod.fst).Nodup := by
  rw [List.map_append, List.nodup_append] at h
  exact h.2.1

/-- a fresh index may be inserted anywhere -/
theorem nodup_insert_mid {A B : List (Nat × Pt α)} (h : ((A ++ B).map Prod.fst).Nodup) (n : Nat)
    (q : Pt α) (hn : ∀ x ∈ A ++ B, x.1 ≠ n) : ((A ++ (n, q) :: B).map Prod.fst).Nodup := by
  rw [List.map_append, List.nodup_append] at h ⊢
  obtain ⟨hA, hB, hAB⟩ := h
  refine ⟨hA, ?_, ?_⟩
  · rw [List.map_cons, List.nodup_cons]
    refine ⟨?_, hB⟩
    intro hm
    rw [List.mem_map] at hm
    obtain ⟨x, hx, e⟩ := hm
    exact hn x (List.mem_append_right _ hx) e
  · intro a ha b hb
    rw [List.map_cons, List.mem_cons] at hb
    rcases hb with rfl | hb
    · rw [List.mem_map] at ha
      obtain ⟨x, hx, rfl⟩ := ha
      exact hn x (List.mem_append_left _ hx)
    · exact hAB a ha b hb

/-- an inner piece may be dropped -/
theorem nodup_drop_mid {A M C : List (Nat × Pt α)} (h : ((A ++ M ++ C).map Prod.fst).Nodup) :
    ((A ++ C).map Prod.fst).Nodup :=
  List.Nodup.sublist (((List.sublist_append_left A M).append (List.Sublist.refl C)).map _) h

theorem mem_of_getLast?_fst {l : List (Nat × Pt α)} {i : Nat}
    (h : some i = (l.getLast?).map Prod.fst) : ∃ x ∈ l, x.1 = i := by
  cases hl : l.getLast? with
  | none => rw [hl] at h; cases h
  | some x =>
    rw [hl] at h
    simp only [Option.map_some, Option.some.injEq] at h
    exact ⟨x, List.mem_of_getLast? hl, h.symm⟩

theorem mem_of_head?_fst {l : List (Nat × Pt α)} {i : Nat}
    (h : some i = (l.head?).map Prod.fst) : ∃ x ∈ l, x.1 = i := by
  cases l with
  | nil => cases h
  | cons hd tl =>
    simp only [List.head?_cons, Option.map_some, Option.some.injEq] at h
    exact ⟨hd, List.mem_cons_self, h.symm⟩

/-- the chain pieces of a heap are not longer than the heap -/
theorem Seg.length_le {N : Array (Node α)} {l : List (Nat × Pt α)} {a e : Option Nat}
    (h : Seg N a l e) (hnd : (l.map Prod.fst).Nodup) : l.length ≤ N.size := by
  have := nodup_length_le N.size (l.map Prod.fst) hnd (by
    intro x hx
    rw [List.mem_map] at hx
    obtain ⟨y, hy, rfl⟩ := hx
    exact Seg.lt h y hy)
  simpa using this

/-! ### (D1) prepend / append and fan, with frame -/

/-- `fan_head` with the frame: cells outside the old chain are untouched -/
theorem fan_head_fr {N : Array (Node α)} {iB : Nat} {pB : Pt α} {rest : List (Nat × Pt α)} (p : Pt α)
    (s1 : St α) (c : Chain)
    (hN : s1.nodes = appH N iB ⟨pB, none, nxtOf rest none⟩ p) (hc : c.head = N.size)
    (hs : Seg N none ((iB, pB) :: rest) none)
    (hnd : (((iB, pB) :: rest).map Prod.fst).Nodup)
    {mid : List (Nat × Pt α)} {g : Nat} {pg : Pt α} {rest' : List (Nat × Pt α)}
    (hsplit : (iB, pB) :: rest = mid ++ (g, pg) :: rest')
    (hfan : FanF p (mid.map Prod.snd ++ [pg])) (hstop : StopF p pg rest')
    (hlen : mid.length ≤ N.size + 3) :
    ∃ N', (backTriangulate c false).run s1 =
        .ok ((), { s1 with nodes := N', out := trisF p (mid.map Prod.snd ++ [pg]) ++ s1.out }) ∧
      Seg N' none ((N.size, p) :: (g, pg) :: rest') none ∧ N'.size = N.size + 1 ∧
      (∀ k, k < N.size → (∀ x ∈ (iB, pB) :: rest, x.1 ≠ k) → N'[k]? = N[k]?) := by
  have hseg := seg_appH p hs hnd
  have hlt := Seg.lt hs
  have hnd' : (((N.size, p) :: mid ++ (g, pg) :: rest').map Prod.fst).Nodup := by
    rw [List.cons_append, ← hsplit]
    simp only [List.map_cons, List.nodup_cons] at hnd ⊢
    refine ⟨?_, hnd⟩
    intro hmem
    rw [← List.map_cons (f := Prod.fst) (a := (iB, pB)), List.mem_map] at hmem
    obtain ⟨x, hx, hx'⟩ := hmem
    have := hlt x hx
    omega
  rw [hsplit] at hseg
  rw [← hN] at hseg
  obtain ⟨N', hrun, hseg', hsz, hfr⟩ := nt_fwd_fan mid s1 N.size p none g pg rest' (s1.nodes.size + 2)
    hseg hnd' hfan hstop (by rw [hN, size_appH]; omega)
  refine ⟨N', ?_, hseg', by rw [hsz, hN, size_appH], ?_⟩
  · rw [run_backTri]
    simp only [Bool.false_eq_true, if_false, hc]
    exact hrun
  · intro k hk hout
    rw [hsplit] at hout
    rw [hfr k (Nat.ne_of_lt hk) (fun x hx => hout x (by simp [hx]))
      (fun e => hout (g, pg) (by simp) e.symm), hN]
    exact appH_other N iB _ p k hk (fun e => hout (iB, pB) (by rw [← hsplit]; simp) e.symm)

/-- `fan_tail` with the frame: cells outside the old chain are untouched -/
theorem fan_tail_fr {N : Array (Node α)} {iT : Nat} {pT : Pt α} {rest : List (Nat × Pt α)} (p : Pt α)
    (s1 : St α) (c : Chain)
    (hN : s1.nodes = appT N iT ⟨pT, nxtOf rest none, none⟩ p) (hc : c.tail = N.size)
    (hs : SegR N none ((iT, pT) :: rest) none)
    (hnd : (((iT, pT) :: rest).map Prod.fst).Nodup)
    {mid : List (Nat × Pt α)} {g : Nat} {pg : Pt α} {rest' : List (Nat × Pt α)}
    (hsplit : (iT, pT) :: rest = mid ++ (g, pg) :: rest')
    (hfan : FanB p (mid.map Prod.snd ++ [pg])) (hstop : StopB p pg rest')
    (hlen : mid.length ≤ N.size + 3) :
    ∃ N', (backTriangulate c true).run s1 =
        .ok ((), { s1 with nodes := N', out := trisB p (mid.map Prod.snd ++ [pg]) ++ s1.out }) ∧
      SegR N' none ((N.size, p) :: (g, pg) :: rest') none ∧ N'.size = N.size + 1 ∧
      (∀ k, k < N.size → (∀ x ∈ (iT, pT) :: rest, x.1 ≠ k) → N'[k]? = N[k]?) := by
  have hseg := segR_appT p hs hnd
  have hlt := SegR.lt hs
  have hnd' : (((N.size, p) :: mid ++ (g, pg) :: rest').map Prod.fst).Nodup := by
    rw [List.cons_append, ← hsplit]
    simp only [List.map_cons, List.nodup_cons] at hnd ⊢
    refine ⟨?_, hnd⟩
    intro hmem
    rw [← List.map_cons (f := Prod.fst) (a := (iT, pT)), List.mem_map] at hmem
    obtain ⟨x, hx, hx'⟩ := hmem
    have := hlt x hx
    omega
  rw [hsplit] at hseg
  rw [← hN] at hseg
  obtain ⟨N', hrun, hseg', hsz, hfr⟩ := nt_bwd_fan mid s1 N.size p none g pg rest' (s1.nodes.size + 2)
    hseg hnd' hfan hstop (by rw [hN, size_appT]; omega)
  refine ⟨N', ?_, hseg', by rw [hsz, hN, size_appT], ?_⟩
  · rw [run_backTri]
    simp only [if_true, hc]
    exact hrun
  · intro k hk hout
    rw [hsplit] at hout
    rw [hfr k (Nat.ne_of_lt hk) (fun x hx => hout x (by simp [hx]))
      (fun e => hout (g, pg) (by simp) e.symm), hN]
    exact appT_other N iT _ p k hk (fun e => hout (iT, pT) (by rw [← hsplit]; simp) e.symm)

/-! ### fans from an inner node of a chain -/

/-- forward fan from the node `f` of the chain `pre ++ (f, pf) :: post`: the part `pre` in front of
    `f` is carried along -/
theorem fwd_fan_mid (s : St α) (pre : List (Nat × Pt α)) (f : Nat) (pf : Pt α)
    (post : List (Nat × Pt α)) (a : Option Nat)
    (hs : Seg s.nodes a (pre ++ (f, pf) :: post) none)
    (hnd : ((pre ++ (f, pf) :: post).map Prod.fst).Nodup)
    {mid : List (Nat × Pt α)} {g : Nat} {pg : Pt α} {rest : List (Nat × Pt α)}
    (hsplit : post = mid ++ (g, pg) :: rest)
    (hfan : FanF pf (mid.map Prod.snd ++ [pg])) (hstop : StopF pf pg rest)
    (fuel : Nat) (hfuel : mid.length ≤ fuel) :
    ∃ N', (nodeTriangulate f false fuel).run s =
        .ok ((), { s with nodes := N', out := trisF pf (mid.map Prod.snd ++ [pg]) ++ s.out }) ∧
      Seg N' a (pre ++ (f, pf) :: (g, pg) :: rest) none ∧ N'.size = s.nodes.size ∧
      (∀ k, k ≠ f → (∀ x ∈ mid, x.1 ≠ k) → k ≠ g → N'[k]? = s.nodes[k]?) := by
  subst hsplit
  obtain ⟨hpre, hpost⟩ := (seg_append _ pre _ a none).mp hs
  rw [List.map_append, List.nodup_append] at hnd
  obtain ⟨ndpre, ndpost, hdisj⟩ := hnd
  obtain ⟨N', hrun, hseg', hsz, hfr⟩ := nt_fwd_fan mid s f pf (lastOr pre a) g pg rest fuel
    hpost ndpost hfan hstop hfuel
  refine ⟨N', hrun, ?_, hsz, hfr⟩
  rw [seg_append]
  refine ⟨Seg.congr ?_ hpre, hseg'⟩
  intro i hi
  have hd := hdisj i hi
  apply hfr i
  · exact fun e => hd f (by simp) e
  · intro x hx e
    exact hd x.1 (by simp [List.mem_map]; exact Or.inr (Or.inl ⟨x.2, hx⟩)) e.symm
  · exact fun e => hd g (by simp) e

/-- backward fan from the node `f` of the chain `pre ++ (f, pf) :: post`: the part `post` behind
    `f` is carried along -/
theorem bwd_fan_mid (s : St α) (pre : List (Nat × Pt α)) (f : Nat) (pf : Pt α)
    (post : List (Nat × Pt α)) (e : Option Nat)
    (hs : Seg s.nodes none (pre ++ (f, pf) :: post) e)
    (hnd : ((pre ++ (f, pf) :: post).map Prod.fst).Nodup)
    {mid : List (Nat × Pt α)} {g : Nat} {pg : Pt α} {rest : List (Nat × Pt α)}
    (hsplit : pre.reverse = mid ++ (g, pg) :: rest)
    (hfan : FanB pf (mid.map Prod.snd ++ [pg])) (hstop : StopB pf pg rest)
    (fuel : Nat) (hfuel : mid.length ≤ fuel) :
    ∃ N', (nodeTriangulate f true fuel).run s =
        .ok ((), { s with nodes := N', out := trisB pf (mid.map Prod.snd ++ [pg]) ++ s.out }) ∧
      Seg N' none (rest.reverse ++ (g, pg) :: (f, pf) :: post) e ∧ N'.size = s.nodes.size ∧
      (∀ k, k ≠ f → (∀ x ∈ mid, x.1 ≠ k) → k ≠ g → N'[k]? = s.nodes[k]?) := by
  have hs' : Seg s.nodes none ((pre ++ [(f, pf)]) ++ post) e := by simpa using hs
  obtain ⟨hpre, hpost⟩ := (seg_append _ _ post none e).mp hs'
  rw [lastOr_snoc] at hpost
  rw [seg_iff_segR, List.reverse_append, List.reverse_singleton, List.singleton_append, hsplit] at hpre
  have hnd1 : (((pre ++ [(f, pf)]) ++ post).map Prod.fst).Nodup := by simpa using hnd
  rw [List.map_append, List.nodup_append] at hnd1
  obtain ⟨ndpre, ndpost, hdisj⟩ := hnd1
  have ndpre' : (((f, pf) :: mid ++ (g, pg) :: rest).map Prod.fst).Nodup := by
    have : ((pre ++ [(f, pf)]).map Prod.fst).reverse.Nodup := (nodup_reverse' _).mpr ndpre
    rw [← List.map_reverse, List.reverse_append, List.reverse_singleton, List.singleton_append,
      hsplit] at this
    exact this
  have hmem : ∀ x, x ∈ (f, pf) :: mid ++ (g, pg) :: rest → x ∈ pre ++ [(f, pf)] := by
    intro x hx
    have : x ∈ (pre ++ [(f, pf)]).reverse := by
      rw [List.reverse_append, List.reverse_singleton, List.singleton_append, hsplit]; exact hx
    exact List.mem_reverse.mp this
  obtain ⟨N', hrun, hseg', hsz, hfr⟩ := nt_bwd_fan mid s f pf (nxtOf post e) g pg rest fuel
    hpre ndpre' hfan hstop hfuel
  refine ⟨N', hrun, ?_, hsz, hfr⟩
  rw [segR_iff_seg] at hseg'
  have : rest.reverse ++ (g, pg) :: (f, pf) :: post = ((f, pf) :: (g, pg) :: rest).reverse ++ post := by
    simp
  rw [this, seg_append]
  refine ⟨hseg', ?_⟩
  have hl : lastOr ((f, pf) :: (g, pg) :: rest).reverse none = some f := by
    rw [List.reverse_cons, lastOr_snoc]
  rw [hl]
  refine Seg.congr ?_ hpost
  intro i hi
  have hd : ∀ x, x ∈ (f, pf) :: mid ++ (g, pg) :: rest → x.1 ≠ i := by
    intro x hx
    exact fun e => hdisj x.1 (List.mem_map.mpr ⟨x, hmem x hx, rfl⟩) i hi e
  apply hfr i
  · exact fun e => hd (f, pf) (by simp) e.symm
  · exact fun x hx => hd x (by simp [hx])
  · exact fun e => hd (g, pg) (by simp) e.symm

end Cav.GenOutHeap
