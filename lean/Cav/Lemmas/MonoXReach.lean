/-
  (X1) The prefix lemma `reach`: as long as the simplicity facts checked so far hold, the event
  loop reaches the state `(i, j)` with the monotone invariant `MInv`; (X2) `reject_B`, `reject_T`:
  if the look-ahead test of the next Bend fails, the loop stops with `.overlap .bend` at that Bend.
-/
import Cav.Lemmas.MonoXLoop

set_option linter.unusedSimpArgs false
set_option linter.unusedVariables false

namespace Cav.MonoXReach
open Cav Num Cav.Geo Cav.Sweep Cav.SweepRun Cav.TriRun Cav.QuadRun Cav.TriEvents Cav.QuadGeom
open Cav.CvxEvents Cav.CvxLoop Cav.MonoXConv Cav.MonoXLoop
open Cav.MonoStep (MInv)

/-- the sweep can stand between the vertices `b i`, `t j` (processed) and `b (i+1)`, `t (j+1)`
    (pending) -/
def Reach (mB mT : Nat) (b t : Nat → Rat × Rat) (i j : Nat) : Prop :=
  i < mB ∧ j < mT ∧ (b i).1 < (t (j + 1)).1 ∧ (t j).1 < (b (i + 1)).1

section
variable {V : Array (Vtx XQ)} {mB mT : Nat} {bi ti : Nat → Nat} {b t : Nat → Rat × Rat} {ξ : Rat}

theorem loop_fail {k : Nat} {s : St XQ} {e : SErr XQ} (h : Runs s (.error e) handleNext)
    (hne : s.events.isEmpty = false) : (loop (k + 1)).run s = .error e := by
  rw [loop_succ_run, hne, h.run]
  simp

/-- **the prefix lemma** -/
theorem reach (hC : MConvX V mB mT bi ti b t ξ) :
    ∀ (n i j : Nat), i + j = n → Reach mB mT b t i j → (b i).1 ≤ ξ → (t j).1 ≤ ξ →
    ∀ fuel, n + 1 ≤ fuel →
      ∃ s, (loop fuel).run (stQ V [(bi 0, [])]) = (loop (fuel - (n + 1))).run s ∧
        MInv V mB mT bi ti b t i j s := by
  intro n
  induction n with
  | zero =>
    intro i j hij hr g1 g2 fuel hf
    have hi : i = 0 := by omega
    have hj : j = 0 := by omega
    subst hi; subst hj
    obtain ⟨fuel, rfl⟩ : ∃ f, fuel = f + 1 := ⟨fuel - 1, by omega⟩
    obtain ⟨s', hrun, hinv⟩ := Cav.MonoXStep.stepS hC g1
    exact ⟨s', by rw [loop_step_run hrun rfl]; rfl, hinv⟩
  | succ n ih =>
    intro i j hij hr g1 g2 fuel hf
    obtain ⟨hi, hj, r1, r2⟩ := hr
    have hfu : fuel - (n + 1) = (fuel - (n + 1 + 1)) + 1 := by omega
    -- which vertex was processed last
    have hcase : (0 < i ∧ (t j).1 < (b i).1) ∨ (0 < j ∧ (b i).1 < (t j).1) := by
      rcases Nat.eq_zero_or_pos i with rfl | hi0
      · right
        refine ⟨by omega, ?_⟩
        rw [hC.p0]; exact hC.xT_lt 0 j (by omega) (by omega)
      · rcases Nat.eq_zero_or_pos j with rfl | hj0
        · left
          refine ⟨hi0, ?_⟩
          rw [← hC.p0]; exact hC.xB_lt 0 i hi0 (by omega)
        · rcases lt_trichotomy (b i).1 (t j).1 with h | h | h
          · exact Or.inr ⟨hj0, h⟩
          · exact absurd h (hC.xBT i j hi0 hi hj0 hj)
          · exact Or.inl ⟨hi0, h⟩
    rcases hcase with ⟨hi0, hc⟩ | ⟨hj0, hc⟩
    · obtain ⟨i', rfl⟩ : ∃ i', i = i' + 1 := ⟨i - 1, by omega⟩
      have hx := hC.xB i' (by omega)
      obtain ⟨s0, hrun0, hinv0⟩ := ih i' j (by omega) ⟨by omega, hj, by linarith, hc⟩
        (by linarith) g2 fuel (by omega)
      obtain ⟨s1, hrun1, hinv1⟩ := Cav.MonoXStep.stepB hC hi hj r1 g1 hinv0
      refine ⟨s1, ?_, hinv1⟩
      rw [hrun0, hfu, loop_step_run hrun1 hinv0.events_ne]
    · obtain ⟨j', rfl⟩ : ∃ j', j = j' + 1 := ⟨j - 1, by omega⟩
      have hx := hC.xT j' (by omega)
      obtain ⟨s0, hrun0, hinv0⟩ := ih i j' (by omega) ⟨hi, by omega, hc, by linarith⟩
        g1 (by linarith) fuel (by omega)
      obtain ⟨s1, hrun1, hinv1⟩ := Cav.MonoXStep.stepT hC hi hj r2 g2 hinv0
      refine ⟨s1, ?_, hinv1⟩
      rw [hrun0, hfu, loop_step_run hrun1 hinv0.events_ne]

/-- the loop stops at the Bend `b (i+1)` whose look-ahead test fails -/
theorem reject_B (hC : MConvX V mB mT bi ti b t ξ) {i j : Nat} (hr : Reach mB mT b t i j)
    (g1 : (b i).1 ≤ ξ) (g2 : (t j).1 ≤ ξ) (hlt : (b (i + 1)).1 < (t (j + 1)).1)
    (hbad : ((b (i + 2)).1 < (t (j + 1)).1 ∧ 0 < orient (t j) (t (j + 1)) (b (i + 2))) ∨
      ((t (j + 1)).1 < (b (i + 2)).1 ∧ orient (b (i + 1)) (b (i + 2)) (t (j + 1)) < 0))
    (fuel : Nat) (hf : i + j + 2 ≤ fuel) :
    (loop fuel).run (stQ V [(bi 0, [])]) = .error (.overlap .bend (Fq (b (i + 1)))) := by
  obtain ⟨s, hrun, hinv⟩ := reach hC (i + j) i j rfl hr g1 g2 fuel (by omega)
  have hi1 : i + 1 < mB := by
    rcases Nat.lt_or_ge (i + 1) mB with h | h
    · exact h
    · exfalso
      have e : i + 1 = mB := by have := hr.1; omega
      have := hC.xT_le_R (j + 1) (by have := hr.2.1; omega)
      rw [e] at hlt; linarith
  have hfu : fuel - (i + j + 1) = (fuel - (i + j + 2)) + 1 := by omega
  rw [hrun, hfu]
  exact loop_fail (failB hC hi1 hr.2.1 hlt hbad hinv) hinv.events_ne

/-- the loop stops at the Bend `t (j+1)` whose look-ahead test fails -/
theorem reject_T (hC : MConvX V mB mT bi ti b t ξ) {i j : Nat} (hr : Reach mB mT b t i j)
    (g1 : (b i).1 ≤ ξ) (g2 : (t j).1 ≤ ξ) (hlt : (t (j + 1)).1 < (b (i + 1)).1)
    (hbad : ((t (j + 2)).1 < (b (i + 1)).1 ∧ orient (b i) (b (i + 1)) (t (j + 2)) < 0) ∨
      ((b (i + 1)).1 < (t (j + 2)).1 ∧ 0 < orient (t (j + 1)) (t (j + 2)) (b (i + 1))))
    (fuel : Nat) (hf : i + j + 2 ≤ fuel) :
    (loop fuel).run (stQ V [(bi 0, [])]) = .error (.overlap .bend (Fq (t (j + 1)))) := by
  obtain ⟨s, hrun, hinv⟩ := reach hC (i + j) i j rfl hr g1 g2 fuel (by omega)
  have hj1 : j + 1 < mT := by
    rcases Nat.lt_or_ge (j + 1) mT with h | h
    · exact h
    · exfalso
      have e : j + 1 = mT := by have := hr.2.1; omega
      have := hC.xB_le_R (i + 1) (by have := hr.1; omega)
      rw [e, ← hC.pR] at hlt; linarith
  have hfu : fuel - (i + j + 1) = (fuel - (i + j + 2)) + 1 := by omega
  rw [hrun, hfu]
  exact loop_fail (failT hC hr.1 hj1 hlt hbad hinv) hinv.events_ne

end

end Cav.MonoXReach
