/-
  Helper definitions and lemmas for `Thm/C07Accuracy`: arithmetic on coefficient lists
  (`polyAdd`, `polyScale`, `polyMul`, `polySub`, `derivCoeffs`, `polyComp`), their values under
  `evalPoly` (rational argument) and `evalPolyR` (real argument), their lengths, and the
  derivative of `evalPolyR`.

  Coefficient lists are low degree first, as in `Lemmas/QuadPoly.lean`; the FORMAL degree of
  `cs` is `cs.length - 1` (trailing zeros count).
-/
import Cav.Lemmas.QuadPoly
import Mathlib.Analysis.Calculus.Deriv.Mul
import Mathlib.Analysis.Calculus.Deriv.Add

open Cav Num
namespace Cav.C07Accuracy
open Cav.C01

/-! ### coefficient-list arithmetic -/

/-- coefficientwise sum (the longer list wins) -/
def polyAdd : List Rat → List Rat → List Rat
  | [], q => q
  | p, [] => p
  | a :: p, b :: q => (a + b) :: polyAdd p q

/-- multiply every coefficient by `a` -/
def polyScale (a : Rat) (p : List Rat) : List Rat := p.map (fun c => a * c)

/-- multiply by `x` (the empty list stays empty) -/
def polyMulX : List Rat → List Rat
  | [] => []
  | c :: cs => 0 :: c :: cs

/-- product of two coefficient lists -/
def polyMul : List Rat → List Rat → List Rat
  | [], _ => []
  | a :: p, q => polyAdd (polyScale a q) (polyMulX (polyMul p q))

/-- difference -/
def polySub (p q : List Rat) : List Rat := polyAdd p (polyScale (-1) q)

/-- `[k·c₀, (k+1)·c₁, …]` -/
def derivAux : Nat → List Rat → List Rat
  | _, [] => []
  | k, c :: cs => ((k : Rat) * c) :: derivAux (k + 1) cs

/-- coefficients of the derivative: `[1·c₁, 2·c₂, 3·c₃, …]` -/
def derivCoeffs (cs : List Rat) : List Rat := derivAux 1 cs.tail

/-- coefficients of `x ↦ cs(p(x))` (Horner) -/
def polyComp : List Rat → List Rat → List Rat
  | [], _ => []
  | c :: cs, p => polyAdd [c] (polyMul p (polyComp cs p))

@[simp] theorem polyAdd_nil_left (q : List Rat) : polyAdd [] q = q := by
  cases q <;> rfl
@[simp] theorem polyAdd_nil_right (p : List Rat) : polyAdd p [] = p := by
  cases p <;> rfl
@[simp] theorem polyAdd_cons (a b : Rat) (p q : List Rat) :
    polyAdd (a :: p) (b :: q) = (a + b) :: polyAdd p q := rfl

/-! ### values at a rational argument -/

theorem evalPoly_polyAdd (p q : List Rat) (x : Rat) :
    evalPoly (polyAdd p q) x = evalPoly p x + evalPoly q x := by
  induction p generalizing q with
  | nil => simp
  | cons a p ih =>
    cases q with
    | nil => simp
    | cons b q => simp only [polyAdd_cons, evalPoly_cons, ih]; ring

theorem evalPoly_polyScale (a : Rat) (p : List Rat) (x : Rat) :
    evalPoly (polyScale a p) x = a * evalPoly p x := by
  induction p with
  | nil => simp [polyScale]
  | cons c p ih =>
    have : polyScale a (c :: p) = (a * c) :: polyScale a p := rfl
    rw [this, evalPoly_cons, evalPoly_cons, ih]; ring

theorem evalPoly_polyMulX (p : List Rat) (x : Rat) :
    evalPoly (polyMulX p) x = x * evalPoly p x := by
  cases p with
  | nil => simp [polyMulX]
  | cons c cs => simp [polyMulX]

theorem evalPoly_polyMul (p q : List Rat) (x : Rat) :
    evalPoly (polyMul p q) x = evalPoly p x * evalPoly q x := by
  induction p with
  | nil => simp [polyMul]
  | cons a p ih =>
    simp only [polyMul, evalPoly_polyAdd, evalPoly_polyScale, evalPoly_polyMulX, ih, evalPoly_cons]
    ring

theorem evalPoly_polySub (p q : List Rat) (x : Rat) :
    evalPoly (polySub p q) x = evalPoly p x - evalPoly q x := by
  rw [polySub, evalPoly_polyAdd, evalPoly_polyScale]; ring

theorem evalPoly_derivAux_succ (k : Nat) (cs : List Rat) (x : Rat) :
    evalPoly (derivAux (k + 1) cs) x = evalPoly (derivAux k cs) x + evalPoly cs x := by
  induction cs generalizing k with
  | nil => simp [derivAux]
  | cons c cs ih =>
    simp only [derivAux, evalPoly_cons, ih (k + 1), ih k]
    push_cast; ring

/-- Horner step of the derivative: `(c + x·q)' = q + x·q'` -/
theorem evalPoly_derivCoeffs_cons (c : Rat) (cs : List Rat) (x : Rat) :
    evalPoly (derivCoeffs (c :: cs)) x = evalPoly cs x + x * evalPoly (derivCoeffs cs) x := by
  cases cs with
  | nil => simp [derivCoeffs, derivAux]
  | cons q qs =>
    simp only [derivCoeffs, List.tail_cons, derivAux, evalPoly_cons, evalPoly_derivAux_succ]
    push_cast; ring

theorem evalPoly_polyComp (cs p : List Rat) (x : Rat) :
    evalPoly (polyComp cs p) x = evalPoly cs (evalPoly p x) := by
  induction cs with
  | nil => simp [polyComp]
  | cons c cs ih =>
    simp only [polyComp, evalPoly_polyAdd, evalPoly_polyMul, ih, evalPoly_cons, evalPoly_nil]
    ring

/-! ### lengths (formal degrees) -/

theorem polyAdd_length (p q : List Rat) : (polyAdd p q).length = max p.length q.length := by
  induction p generalizing q with
  | nil => simp
  | cons a p ih =>
    cases q with
    | nil => simp
    | cons b q => simp only [polyAdd_cons, List.length_cons, ih]; omega

@[simp] theorem polyScale_length (a : Rat) (p : List Rat) : (polyScale a p).length = p.length := by
  simp [polyScale]

theorem polyMulX_length (p : List Rat) : (polyMulX p).length = if p = [] then 0 else p.length + 1 := by
  cases p <;> simp [polyMulX]

theorem polyMul_nil_right (p : List Rat) : polyMul p [] = [] := by
  induction p with
  | nil => rfl
  | cons a p ih => simp [polyMul, ih, polyScale, polyMulX]

/-- the product of two non-empty lists has formal degree `deg p + deg q` -/
theorem polyMul_length (p q : List Rat) (hp : p ≠ []) (hq : q ≠ []) :
    (polyMul p q).length = p.length + q.length - 1 := by
  induction p with
  | nil => exact absurd rfl hp
  | cons a p ih =>
    have hq' : 0 < q.length := List.length_pos_iff.mpr hq
    by_cases hp' : p = []
    · subst hp'
      simp [polyMul, polyMulX]
    · have h1 := ih hp'
      have hp'' : 0 < p.length := List.length_pos_iff.mpr hp'
      have hne : polyMul p q ≠ [] := by
        intro h0; rw [h0] at h1; simp at h1; omega
      simp only [polyMul, polyAdd_length, polyScale_length, polyMulX_length, if_neg hne, h1,
        List.length_cons]
      omega

theorem polyMul_length_le (p q : List Rat) : (polyMul p q).length ≤ p.length + q.length - 1 := by
  by_cases hp : p = []
  · subst hp; simp [polyMul]
  · by_cases hq : q = []
    · subst hq; simp [polyMul_nil_right]
    · rw [polyMul_length p q hp hq]

theorem polySub_length (p q : List Rat) : (polySub p q).length = max p.length q.length := by
  simp [polySub, polyAdd_length]

theorem derivAux_length (k : Nat) (cs : List Rat) : (derivAux k cs).length = cs.length := by
  induction cs generalizing k with
  | nil => rfl
  | cons c cs ih => simp [derivAux, ih]

@[simp] theorem derivCoeffs_length (cs : List Rat) : (derivCoeffs cs).length = cs.length - 1 := by
  simp [derivCoeffs, derivAux_length]

/-- `deg (cs ∘ p) ≤ deg cs · deg p` -/
theorem polyComp_length_le (cs p : List Rat) :
    (polyComp cs p).length ≤ (cs.length - 1) * (p.length - 1) + 1 := by
  induction cs with
  | nil => simp [polyComp]
  | cons c cs ih =>
    have h1 := polyMul_length_le p (polyComp cs p)
    simp only [polyComp, polyAdd_length, List.length_cons, List.length_nil, Nat.add_sub_cancel]
    by_cases hcs : cs = []
    · subst hcs
      simp [polyComp, polyMul_nil_right]
    · have hpos : 0 < cs.length := List.length_pos_iff.mpr hcs
      have hE : cs.length * (p.length - 1) = (cs.length - 1) * (p.length - 1) + (p.length - 1) := by
        conv_lhs => rw [show cs.length = (cs.length - 1) + 1 by omega]
        rw [Nat.add_mul, Nat.one_mul]
      rw [hE]
      omega

/-! ### real arguments -/

/-- two continuous real functions that agree on `ℚ` agree everywhere -/
theorem eq_of_eq_on_rat {F G : ℝ → ℝ} (hF : Continuous F) (hG : Continuous G)
    (h : ∀ q : Rat, F (q : ℝ) = G (q : ℝ)) (t : ℝ) : F t = G t :=
  congrFun (Rat.denseRange_cast (𝕜 := ℝ) |>.equalizer hF hG (funext h)) t

theorem evalPolyR_nil (x : ℝ) : evalPolyR [] x = 0 := by simp [evalPolyR]

/-- Horner step for real arguments -/
theorem evalPolyR_cons (c : Rat) (cs : List Rat) (x : ℝ) :
    evalPolyR (c :: cs) x = (c : ℝ) + x * evalPolyR cs x := by
  unfold evalPolyR
  rw [List.length_cons, Finset.sum_range_succ', Finset.mul_sum]
  simp only [List.getD_cons_succ, List.getD_cons_zero, pow_zero, mul_one]
  rw [add_comm]
  congr 1
  apply Finset.sum_congr rfl
  intro k _
  rw [pow_succ]; ring

theorem evalPolyR_polyMul (p q : List Rat) (t : ℝ) :
    evalPolyR (polyMul p q) t = evalPolyR p t * evalPolyR q t := by
  refine eq_of_eq_on_rat (F := fun t => evalPolyR (polyMul p q) t)
    (G := fun t => evalPolyR p t * evalPolyR q t) (evalPolyR_continuous _)
    ((evalPolyR_continuous p).mul (evalPolyR_continuous q)) (fun r => ?_) t
  simp only [evalPolyR_cast, evalPoly_polyMul, Rat.cast_mul]

theorem evalPolyR_polySub (p q : List Rat) (t : ℝ) :
    evalPolyR (polySub p q) t = evalPolyR p t - evalPolyR q t := by
  refine eq_of_eq_on_rat (F := fun t => evalPolyR (polySub p q) t)
    (G := fun t => evalPolyR p t - evalPolyR q t) (evalPolyR_continuous _)
    ((evalPolyR_continuous p).sub (evalPolyR_continuous q)) (fun r => ?_) t
  simp only [evalPolyR_cast, evalPoly_polySub, Rat.cast_sub]

theorem evalPolyR_polyComp (cs p : List Rat) (t : ℝ) :
    evalPolyR (polyComp cs p) t = evalPolyR cs (evalPolyR p t) := by
  refine eq_of_eq_on_rat (F := fun t => evalPolyR (polyComp cs p) t)
    (G := fun t => evalPolyR cs (evalPolyR p t)) (evalPolyR_continuous _)
    ((evalPolyR_continuous cs).comp (evalPolyR_continuous p)) (fun r => ?_) t
  simp only [evalPolyR_cast, evalPoly_polyComp]

theorem evalPolyR_derivCoeffs_cons (c : Rat) (cs : List Rat) (t : ℝ) :
    evalPolyR (derivCoeffs (c :: cs)) t = evalPolyR cs t + t * evalPolyR (derivCoeffs cs) t := by
  refine eq_of_eq_on_rat (F := fun t => evalPolyR (derivCoeffs (c :: cs)) t)
    (G := fun t => evalPolyR cs t + t * evalPolyR (derivCoeffs cs) t) (evalPolyR_continuous _)
    ((evalPolyR_continuous cs).add (continuous_id.mul (evalPolyR_continuous _))) (fun r => ?_) t
  simp only [evalPolyR_cast, evalPoly_derivCoeffs_cons]
  push_cast; rfl

theorem evalPolyR_one (t : ℝ) : evalPolyR [1] t = 1 := by
  rw [evalPolyR_cons, evalPolyR_nil]; simp

/-- `derivCoeffs` is the derivative (Mathlib `HasDerivAt`, real argument) -/
theorem evalPolyR_hasDerivAt (cs : List Rat) (x : ℝ) :
    HasDerivAt (evalPolyR cs) (evalPolyR (derivCoeffs cs) x) x := by
  induction cs with
  | nil =>
    have h0 : evalPolyR [] = fun _ => (0 : ℝ) := funext evalPolyR_nil
    have h1 : evalPolyR (derivCoeffs []) x = 0 := evalPolyR_nil x
    rw [h0, h1]
    exact hasDerivAt_const x 0
  | cons c cs ih =>
    have h0 : evalPolyR (c :: cs) = fun x => (c : ℝ) + x * evalPolyR cs x :=
      funext (evalPolyR_cons c cs)
    rw [h0, evalPolyR_derivCoeffs_cons]
    have h2 := ((hasDerivAt_id x).mul ih).const_add (c : ℝ)
    simp only [id, one_mul] at h2
    exact h2

theorem deriv_evalPolyR (cs : List Rat) (x : ℝ) :
    deriv (evalPolyR cs) x = evalPolyR (derivCoeffs cs) x :=
  (evalPolyR_hasDerivAt cs x).deriv

end Cav.C07Accuracy
