/-
  Tiling by the emitted triangles WITHOUT the hypothesis of distinct abscissae, part 1: the
  additional invariant `GenFV` on top of `XInvV`.  As in `GenOutVDefs.lean` the ghost picture is
  the SHEARED one: the ghost triples `Tg` carry sheared points, the emitted triangles are the
  sorted versions of the UNSHEARED triples (`sqU ε`), and the generic identity
  `Σ muW ω t = wDoneW (shearRing ε R) ω xs + Σ pathSumW ω chain` is the one of `GenOutInDefs.lean`
  for the sheared ring.
-/
import Cav.Lemmas.GenOutInAlg
import Cav.Lemmas.GenOutVDefs

set_option linter.unusedVariables false
set_option linter.unusedSimpArgs false

namespace Cav.GenOutInV
open Cav Num Cav.Geo Cav.Sweep Cav.QuadGeom Cav.CvxEvents Cav.CvxLoop Cav.GenInv Cav.MonoGeom
open Cav.MonoHeap Cav.MonoFan
open Cav.GenOutShape Cav.GenOutDefs Cav.GenOutInv Cav.GenOutAux
open Cav.GenVShear Cav.GenVBridge Cav.GenVInv Cav.GenOutV Cav.GenOutIn

/-- the emitted (sorted) triangle of a ghost (sheared) triple: the heap carries the original
    points -/
def sqU (ε : Rat) (t : Q × Q × Q) : Tri := sort3 (FqU ε t.1) (FqU ε t.2.1) (FqU ε t.2.2)

/-- the unsheared triple -/
def unshT (ε : Rat) (t : Q × Q × Q) : Q × Q × Q := (unsh ε t.1, unsh ε t.2.1, unsh ε t.2.2)

theorem sqU_eq (ε : Rat) (t : Q × Q × Q) : sqU ε t = GenOutIn.sq (unshT ε t) := rfl

theorem trisF_mapU (ε : Rat) (u : Q) : ∀ (pts : List Q),
    trisF (FqU ε u) (pts.map (FqU ε)) = (trisFq u pts).map (sqU ε)
  | [] => rfl
  | [_] => rfl
  | q0 :: q1 :: r => by
    have ih := trisF_mapU ε u (q1 :: r)
    simp only [List.map_cons, trisF, trisFq, List.map_append, List.map_nil] at ih ⊢
    rw [ih]
    rfl

theorem trisB_mapU (ε : Rat) (u : Q) : ∀ (pts : List Q),
    trisB (FqU ε u) (pts.map (FqU ε)) = (trisBq u pts).map (sqU ε)
  | [] => rfl
  | [_] => rfl
  | q0 :: q1 :: r => by
    have ih := trisB_mapU ε u (q1 :: r)
    simp only [List.map_cons, trisB, trisBq, List.map_append, List.map_nil] at ih ⊢
    rw [ih]
    rfl

theorem hpU_ptsU (ε : Rat) (mid : List (Nat × Q)) (g : Nat × Q) :
    (hpU ε mid).map Prod.snd ++ [FqU ε g.2] = ((mid ++ [g]).map Prod.snd).map (FqU ε) := by
  rw [hpU_snd]; simp

theorem trisF_hpU_map {ε : Rat} (u : Q) (mid : List (Nat × Q)) (g : Nat × Q) :
    trisF (FqU ε u) ((hpU ε mid).map Prod.snd ++ [FqU ε g.2]) =
      (trisFq u ((mid ++ [g]).map Prod.snd)).map (sqU ε) := by
  rw [hpU_ptsU]; exact trisF_mapU ε u _

theorem trisB_hpU_map {ε : Rat} (u : Q) (mid : List (Nat × Q)) (g : Nat × Q) :
    trisB (FqU ε u) ((hpU ε mid).map Prod.snd ++ [FqU ε g.2]) =
      (trisBq u ((mid ++ [g]).map Prod.snd)).map (sqU ε) := by
  rw [hpU_ptsU]; exact trisB_mapU ε u _

/-- **the additional invariant**: ghost triples (sheared points) and the generic identity for the
    sheared ring -/
def GenFV (R : RingQ) (ε : Rat) (s : St XQ) (xs : Rat) (ivs : List IV) (G : Nat → CH) : Prop :=
  ∃ Tg : List (Q × Q × Q), s.out = Tg.map (sqU ε) ∧ (∀ t ∈ Tg, orient t.1 t.2.1 t.2.2 < 0) ∧
    ∀ w, AS w → muSum w Tg = wDoneW (shearRing ε R) w xs + pathTotW w G ivs

/-- the strengthened invariant with the generic identity, equal abscissae allowed -/
structure XInvTV (R : RingQ) (ε : Rat) (s : St XQ) (xs X : Rat) (ivs : List IV) (G : Nat → CH) :
    Prop where
  base : XInvV R ε s xs X ivs G
  gen : GenFV R ε s xs ivs G

end Cav.GenOutInV
