/-
  Output of the sweep on general valid input, part 2: the geometric quantities of `GenOutDefs`
  (`nBelow`, `vWeight`, `cnt`, `wDone`, ...) and the sweep invariant.

  * `below_asymm`: the order `Below` of the active edges is asymmetric;
  * `nBelow_eq`: the number of ring edges below an active edge `a` whose left end is at the sweep
    abscissa is the number of active edges stored before `a`;
  * `cnt_step`, `wDone_step`: the change of `cnt` / `wDone` when the sweep advances to the next
    vertex; `cnt_wDone_left`, `cnt_wDone_right`: their values before the first / after the last
    vertex;
  * `vWeight_bend`, `vWeight_start`, `vWeight_end`: the weight of a vertex by its kind.
-/
import Cav.Lemmas.GenOutDefs
import Cav.Lemmas.GenOrder

set_option linter.unusedSimpArgs false
set_option linter.unusedVariables false

namespace Cav.GenOutCount
open Cav Cav.Geo Cav.QuadGeom Cav.GenGeom Cav.GenInv Cav.CvxLoop Cav.GenOrder Cav.GenOutDefs

/-! ### (C0) asymmetry of `Below` -/

/-- `Below` only looks at the end points of the edges -/
theorem below_ids (R : RingQ) (xs : Rat) (a b : AE) (i j : Nat) :
    Below R xs ⟨i, a.lv, a.rv⟩ ⟨j, b.lv, b.rv⟩ ↔ Below R xs a b := Iff.rfl

theorem below_asymm {R : RingQ} {xs : Rat} {a b : AE} (hab : Below R xs a b) :
    ¬ Below R xs b a := by
  intro hba
  rcases hab with h1 | ⟨e1, x1, o1⟩
  · rcases hba with h2 | ⟨e2, x2, o2⟩
    · exact lt_asymm h1 h2
    · have xa : (R.pt a.lv).1 = xs := by rw [← e2]; exact x2
      have ya : lineY (R.pt a.lv) (R.pt a.rv) xs = (R.pt a.lv).2 := by
        rw [← xa]; exact lineY_left _ _
      have yb : lineY (R.pt b.lv) (R.pt b.rv) xs = (R.pt b.lv).2 := by
        have : (R.pt b.lv).1 = xs := x2
        rw [← this]; exact lineY_left _ _
      rw [ya, yb, e2] at h1
      exact lt_irrefl _ h1
  · rcases hba with h2 | ⟨e2, x2, o2⟩
    · have xb : (R.pt b.lv).1 = xs := by rw [← e1]; exact x1
      have ya : lineY (R.pt a.lv) (R.pt a.rv) xs = (R.pt a.lv).2 := by
        have : (R.pt a.lv).1 = xs := x1
        rw [← this]; exact lineY_left _ _
      have yb : lineY (R.pt b.lv) (R.pt b.rv) xs = (R.pt b.lv).2 := by
        rw [← xb]; exact lineY_left _ _
      rw [ya, yb, e1] at h2
      exact lt_irrefl _ h2
    · rw [e2] at o2
      have := orient_swap (R.pt a.lv) (R.pt a.rv) (R.pt b.rv)
      linarith

/-! ### (C1) counting the edges below an active edge -/

/-- the pairs counted by the double indicator sum, as a list -/
def pairsOf (nxt prv : Nat → Nat) (P : Nat → Nat → Prop) [∀ u v, Decidable (P u v)] (u : Nat) :
    List (Nat × Nat) :=
  (if P u (nxt u) then [(u, nxt u)] else []) ++ (if P u (prv u) then [(u, prv u)] else [])

theorem pairsOf_length (nxt prv : Nat → Nat) (P : Nat → Nat → Prop) [∀ u v, Decidable (P u v)]
    (u : Nat) :
    (pairsOf nxt prv P u).length =
      (if P u (nxt u) then 1 else 0) + (if P u (prv u) then 1 else 0) := by
  unfold pairsOf
  by_cases h1 : P u (nxt u) <;> by_cases h2 : P u (prv u) <;> simp [h1, h2]

theorem mem_pairsOf (nxt prv : Nat → Nat) (P : Nat → Nat → Prop) [∀ u v, Decidable (P u v)]
    (u : Nat) (p : Nat × Nat) :
    p ∈ pairsOf nxt prv P u ↔ p.1 = u ∧ (p.2 = nxt u ∨ p.2 = prv u) ∧ P u p.2 := by
  obtain ⟨p1, p2⟩ := p
  unfold pairsOf
  rw [List.mem_append]
  constructor
  · rintro (h | h)
    · by_cases h1 : P u (nxt u)
      · rw [if_pos h1] at h
        have := List.mem_singleton.mp h
        cases this
        exact ⟨rfl, Or.inl rfl, h1⟩
      · rw [if_neg h1] at h; cases h
    · by_cases h2 : P u (prv u)
      · rw [if_pos h2] at h
        have := List.mem_singleton.mp h
        cases this
        exact ⟨rfl, Or.inr rfl, h2⟩
      · rw [if_neg h2] at h; cases h
  · rintro ⟨e1, e2, hp⟩
    simp only at e1 e2 hp
    subst e1
    rcases e2 with e2 | e2
    · subst e2
      left; rw [if_pos hp]; exact List.mem_singleton.mpr rfl
    · subst e2
      right; rw [if_pos hp]; exact List.mem_singleton.mpr rfl

theorem pairsOf_nodup (nxt prv : Nat → Nat) (P : Nat → Nat → Prop) [∀ u v, Decidable (P u v)]
    (u : Nat) (hne : nxt u ≠ prv u) : (pairsOf nxt prv P u).Nodup := by
  unfold pairsOf
  by_cases h1 : P u (nxt u) <;> by_cases h2 : P u (prv u) <;> simp [h1, h2, hne]

/-- **double counting**: a duplicate-free list of pairs `(u', v')` that enumerates exactly the
    pairs with `u' < n`, `v'` one of the two neighbours of `u'`, and `P u' v'` has as many
    members as the double indicator sum says -/
theorem sum_ind_eq_length {n : Nat} {nxt prv : Nat → Nat} {P : Nat → Nat → Prop}
    [∀ u v, Decidable (P u v)] {L : List (Nat × Nat)} (hL : L.Nodup)
    (hmem : ∀ u' v', (u', v') ∈ L ↔ (u' < n ∧ (v' = nxt u' ∨ v' = prv u') ∧ P u' v'))
    (hne : ∀ u', u' < n → nxt u' ≠ prv u') :
    ((List.range n).map fun u' =>
      (if P u' (nxt u') then 1 else 0) + (if P u' (prv u') then 1 else 0)).sum = L.length := by
  have hlen : ((List.range n).flatMap (pairsOf nxt prv P)).length =
      ((List.range n).map fun u' =>
        (if P u' (nxt u') then 1 else 0) + (if P u' (prv u') then 1 else 0)).sum := by
    rw [List.length_flatMap]
    congr 1
    apply List.map_congr_left
    intro u _
    exact pairsOf_length nxt prv P u
  rw [← hlen]
  have hM : ((List.range n).flatMap (pairsOf nxt prv P)).Nodup := by
    rw [List.nodup_flatMap]
    refine ⟨fun u hu => pairsOf_nodup nxt prv P u (hne u (List.mem_range.mp hu)), ?_⟩
    have hr : (List.range n).Pairwise (· ≠ ·) := List.nodup_range
    refine hr.imp ?_
    intro u1 u2 h12
    show List.Disjoint (pairsOf nxt prv P u1) (pairsOf nxt prv P u2)
    intro p hp1 hp2
    have e1 := ((mem_pairsOf nxt prv P u1 p).mp hp1).1
    have e2 := ((mem_pairsOf nxt prv P u2 p).mp hp2).1
    exact h12 (e1.symm.trans e2)
  apply List.Perm.length_eq
  rw [List.perm_ext_iff_of_nodup hM hL]
  rintro ⟨u', v'⟩
  rw [hmem u' v', List.mem_flatMap]
  constructor
  · rintro ⟨u, hu, hp⟩
    obtain ⟨e1, e2, e3⟩ := (mem_pairsOf nxt prv P u _).mp hp
    simp only at e1 e2 e3
    subst e1
    exact ⟨List.mem_range.mp hu, e2, e3⟩
  · rintro ⟨hu, e2, e3⟩
    exact ⟨u', List.mem_range.mpr hu, (mem_pairsOf nxt prv P u' _).mpr ⟨rfl, e2, e3⟩⟩

/-- the ring edges below the active edge `a` (left end at the sweep abscissa) are the active
    edges stored before `a` -/
theorem ebelow_iff {R : RingQ} {V : Array (Vtx XQ)} (hR : RingOK R V) {x0 : Rat} {F1 F2 : List AE}
    {a : AE}
    (hS : ∀ b ∈ F1 ++ a :: F2, Span R x0 b) (hP : (F1 ++ a :: F2).Pairwise (Below R x0))
    (hC : Cross R x0 (F1 ++ a :: F2)) (hx : R.x a.lv = x0) (u' v' : Nat) :
    (u', v') ∈ F1.map (fun b => (b.lv, b.rv)) ↔
      (u' < R.n ∧ (v' = R.nxt u' ∨ v' = R.prv u') ∧ EBelow R a.lv a.rv u' v') := by
  obtain ⟨hP1, hP2, hP12⟩ := List.pairwise_append.mp hP
  have hPa : ∀ c ∈ F2, Below R x0 a c := (List.pairwise_cons.mp hP2).1
  constructor
  · intro hm
    obtain ⟨b, hb, e⟩ := List.mem_map.mp hm
    have e1 : b.lv = u' := congrArg Prod.fst e
    have e2 : b.rv = v' := congrArg Prod.snd e
    have sb := hS b (List.mem_append_left _ hb)
    have hba : Below R x0 b a := hP12 b hb a List.mem_cons_self
    subst e1; subst e2
    refine ⟨sb.lv_lt, ?_, ?_, ?_, ?_⟩
    · rcases sb.adj with h | h
      · exact Or.inl h.symm
      · exact Or.inr h.symm
    · rw [hx]; exact sb.le
    · rw [hx]; exact sb.gt
    · rw [hx]; exact hba
  · rintro ⟨hu, hv, h1, h2, h3⟩
    rw [hx] at h1 h2 h3
    have hvn : v' < R.n := by
      rcases hv with h | h
      · rw [h]; exact hR.nxt_lt u' hu
      · rw [h]; exact hR.prv_lt u' hu
    have hadj : Adj R u' v' := by
      rcases hv with h | h
      · exact Or.inl h.symm
      · exact Or.inr h.symm
    obtain ⟨b, hb, e1, e2⟩ := hC u' v' hu hvn hadj h1 h2
    have hba : Below R x0 b a := by
      rw [← below_ids R x0 b a 0 0, e1, e2]; exact h3
    rcases List.mem_append.mp hb with hb | hb
    · exact List.mem_map.mpr ⟨b, hb, by rw [e1, e2]⟩
    · exfalso
      rcases List.mem_cons.mp hb with hb | hb
      · rw [hb] at hba; exact below_irrefl x0 a hba
      · exact below_asymm (hPa b hb) hba

/-- **(C1)** the number of ring edges below an active edge with left end at the sweep abscissa
    is its position in the active list -/
theorem nBelow_eq {R : RingQ} {V : Array (Vtx XQ)} (hR : RingOK R V) {x0 : Rat} {F1 F2 : List AE}
    {a : AE}
    (hS : ∀ b ∈ F1 ++ a :: F2, Span R x0 b) (hP : (F1 ++ a :: F2).Pairwise (Below R x0))
    (hC : Cross R x0 (F1 ++ a :: F2))
    (hu : ∀ b ∈ F1 ++ a :: F2, ∀ c ∈ F1 ++ a :: F2, b.lv = c.lv → b.rv = c.rv → b = c)
    (hx : R.x a.lv = x0) : nBelow R a.lv a.rv = F1.length := by
  have hnd : F1.Nodup := by
    have h1 : F1.Pairwise (Below R x0) := (List.pairwise_append.mp hP).1
    refine h1.imp ?_
    intro b c hbc e
    rw [e] at hbc
    exact below_irrefl x0 c hbc
  have hL : (F1.map (fun b => (b.lv, b.rv))).Nodup := by
    refine List.Nodup.map_on ?_ hnd
    intro b hb c hc e
    exact hu b (List.mem_append_left _ hb) c (List.mem_append_left _ hc)
      (congrArg Prod.fst e) (congrArg Prod.snd e)
  have h := sum_ind_eq_length (n := R.n) (nxt := R.nxt) (prv := R.prv)
    (P := fun u' v' => EBelow R a.lv a.rv u' v') hL (ebelow_iff hR hS hP hC hx)
    (fun u' hu' => (hR.ne u' hu').symm)
  rw [List.length_map] at h
  exact h

/-! ### sums over `List.range` changing in one place -/

theorem sum_range_congr {α : Type} [AddCommMonoid α] (f g : Nat → α) (n : Nat)
    (h : ∀ v, v < n → f v = g v) : ((List.range n).map f).sum = ((List.range n).map g).sum := by
  congr 1
  apply List.map_congr_left
  intro v hv
  exact h v (List.mem_range.mp hv)

theorem sum_range_update {α : Type} [AddCommMonoid α] (f g : Nat → α) (c : α) (w : Nat) :
    ∀ n, w < n → (∀ v, v < n → v ≠ w → f v = g v) → f w = g w + c →
      ((List.range n).map f).sum = ((List.range n).map g).sum + c
  | 0, hw, _, _ => absurd hw (Nat.not_lt_zero _)
  | n + 1, hw, hfg, hc => by
    rw [List.range_succ, List.map_append, List.map_append, List.sum_append, List.sum_append]
    simp only [List.map_cons, List.map_nil, List.sum_cons, List.sum_nil, add_zero]
    by_cases e : w = n
    · subst e
      rw [sum_range_congr f g w (fun v hv => hfg v (Nat.lt_succ_of_lt hv) (Nat.ne_of_lt hv)), hc,
        add_assoc]
    · have hw' : w < n := by omega
      rw [sum_range_update f g c w n hw' (fun v hv => hfg v (Nat.lt_succ_of_lt hv)) hc,
        hfg n (Nat.lt_succ_self n) (fun h => e h.symm), add_right_comm]

/-! ### (C2), (C3) one step of the sweep -/

/-- between `xs` and the next vertex `w` there is no other vertex -/
theorem le_iff_of_gap {R : RingQ} {V : Array (Vtx XQ)} (hR : RingOK R V) {xs : Rat} {w : Nat}
    (hw : w < R.n) (hxs : xs < R.x w) (hgap : ∀ v, v < R.n → xs < R.x v → R.x w ≤ R.x v)
    {v : Nat} (hv : v < R.n) (hne : v ≠ w) : R.x v ≤ R.x w ↔ R.x v ≤ xs := by
  constructor
  · intro h
    by_contra hc
    have h2 := hgap v hv (not_le.mp hc)
    exact hne (hR.distinct v w hv hw (le_antisymm h h2))
  · intro h
    exact le_trans h (le_of_lt hxs)

/-- **(C2)** -/
theorem cnt_step {R : RingQ} {V : Array (Vtx XQ)} (hR : RingOK R V) {xs : Rat} {w : Nat}
    (hw : w < R.n) (hxs : xs < R.x w) (hgap : ∀ v, v < R.n → xs < R.x v → R.x w ≤ R.x v) :
    cnt R (R.x w) = cnt R xs + vWeight R w := by
  unfold cnt
  apply sum_range_update _ _ (vWeight R w) w R.n hw
  · intro v hv hne
    by_cases h : R.x v ≤ xs
    · rw [if_pos h, if_pos ((le_iff_of_gap hR hw hxs hgap hv hne).mpr h)]
    · rw [if_neg h, if_neg (fun h' => h ((le_iff_of_gap hR hw hxs hgap hv hne).mp h'))]
  · rw [if_pos (le_refl _), if_neg (not_le.mpr hxs), Nat.zero_add]

theorem eTerm_same {R : RingQ} {V : Array (Vtx XQ)} (hR : RingOK R V) {xs : Rat} {w : Nat}
    (hw : w < R.n) (hxs : xs < R.x w) (hgap : ∀ v, v < R.n → xs < R.x v → R.x w ≤ R.x v)
    (u : Nat) {v : Nat} (hv : v < R.n) (hne : v ≠ w) : eTerm R (R.x w) u v = eTerm R xs u v := by
  unfold eTerm
  have := le_iff_of_gap hR hw hxs hgap hv hne
  by_cases h : R.x v ≤ xs
  · by_cases h0 : R.x u < R.x v
    · rw [if_pos ⟨h0, this.mpr h⟩, if_pos ⟨h0, h⟩]
    · rw [if_neg (fun h' => h0 h'.1), if_neg (fun h' => h0 h'.1)]
  · rw [if_neg (fun h' => h (this.mp h'.2)), if_neg (fun h' => h h'.2)]

theorem eTerm_new (R : RingQ) (u w : Nat) :
    eTerm R (R.x w) u w = if R.x u < R.x w then eSigned R u w else 0 := by
  unfold eTerm
  by_cases h0 : R.x u < R.x w
  · rw [if_pos ⟨h0, le_refl _⟩, if_pos h0]
  · rw [if_neg (fun h' => h0 h'.1), if_neg h0]

theorem eTerm_old (R : RingQ) {xs : Rat} (u w : Nat) (hxs : xs < R.x w) : eTerm R xs u w = 0 := by
  unfold eTerm
  rw [if_neg (fun h' => not_le.mpr hxs h'.2)]

/-- **(C3)** -/
theorem wDone_step {R : RingQ} {V : Array (Vtx XQ)} (hR : RingOK R V) {xs : Rat} {w : Nat}
    (hw : w < R.n) (hxs : xs < R.x w) (hgap : ∀ v, v < R.n → xs < R.x v → R.x w ≤ R.x v) :
    wDone R (R.x w) = wDone R xs
      + (if R.x (R.prv w) < R.x w then eSigned R (R.prv w) w else 0)
      + (if R.x (R.nxt w) < R.x w then eSigned R (R.nxt w) w else 0) := by
  unfold wDone
  rw [List.sum_map_add, List.sum_map_add]
  have hN : ((List.range R.n).map fun u => eTerm R (R.x w) u (R.nxt u)).sum =
      ((List.range R.n).map fun u => eTerm R xs u (R.nxt u)).sum
        + (if R.x (R.prv w) < R.x w then eSigned R (R.prv w) w else 0) := by
    apply sum_range_update _ _ _ (R.prv w) R.n (hR.prv_lt w hw)
    · intro u hu hne
      apply eTerm_same hR hw hxs hgap u (hR.nxt_lt u hu)
      intro e
      apply hne
      rw [← e]; exact (hR.prv_nxt u hu).symm
    · show eTerm R (R.x w) (R.prv w) (R.nxt (R.prv w)) = eTerm R xs (R.prv w) (R.nxt (R.prv w)) + _
      rw [hR.nxt_prv w hw, eTerm_new, eTerm_old R _ _ hxs, zero_add]
  have hP : ((List.range R.n).map fun u => eTerm R (R.x w) u (R.prv u)).sum =
      ((List.range R.n).map fun u => eTerm R xs u (R.prv u)).sum
        + (if R.x (R.nxt w) < R.x w then eSigned R (R.nxt w) w else 0) := by
    apply sum_range_update _ _ _ (R.nxt w) R.n (hR.nxt_lt w hw)
    · intro u hu hne
      apply eTerm_same hR hw hxs hgap u (hR.prv_lt u hu)
      intro e
      apply hne
      rw [← e]; exact (hR.nxt_prv u hu).symm
    · show eTerm R (R.x w) (R.nxt w) (R.prv (R.nxt w)) = eTerm R xs (R.nxt w) (R.prv (R.nxt w)) + _
      rw [hR.prv_nxt w hw, eTerm_new, eTerm_old R _ _ hxs, zero_add]
  rw [hN, hP]
  ring

/-! ### (C4) boundary values -/

/-- before the first vertex -/
theorem cnt_wDone_left {R : RingQ} {V : Array (Vtx XQ)} (hR : RingOK R V) {xs : Rat}
    (h : ∀ v, v < R.n → xs < R.x v) : cnt R xs = 0 ∧ wDone R xs = 0 := by
  constructor
  · unfold cnt
    apply List.sum_eq_zero
    intro t ht
    obtain ⟨v, hv, rfl⟩ := List.mem_map.mp ht
    rw [if_neg (not_le.mpr (h v (List.mem_range.mp hv)))]
  · unfold wDone
    apply List.sum_eq_zero
    intro t ht
    obtain ⟨u, hu, rfl⟩ := List.mem_map.mp ht
    have hu := List.mem_range.mp hu
    rw [eTerm_old R _ _ (h _ (hR.nxt_lt u hu)), eTerm_old R _ _ (h _ (hR.prv_lt u hu)), add_zero]

theorem eTerm_all (R : RingQ) {xs : Rat} (u v : Nat) (h : R.x v ≤ xs) :
    eTerm R xs u v = eAll R u v := by
  unfold eTerm eAll
  by_cases h0 : R.x u < R.x v
  · rw [if_pos ⟨h0, h⟩, if_pos h0]
  · rw [if_neg (fun h' => h0 h'.1), if_neg h0]

/-- after the last vertex -/
theorem cnt_wDone_right {R : RingQ} {V : Array (Vtx XQ)} (hR : RingOK R V) {xs : Rat}
    (h : ∀ v, v < R.n → R.x v ≤ xs) : cnt R xs = triCountR R ∧ wDone R xs = areaR R := by
  constructor
  · unfold cnt triCountR
    apply sum_range_congr
    intro v hv
    rw [if_pos (h v hv)]
  · unfold wDone areaR
    apply sum_range_congr
    intro u hu
    rw [eTerm_all R _ _ (h _ (hR.nxt_lt u hu)), eTerm_all R _ _ (h _ (hR.prv_lt u hu))]

/-! ### (C5) the weight of a vertex by its kind -/

theorem vWeight_bend {R : RingQ} {w : Nat}
    (h : (R.x (R.prv w) < R.x w ∧ R.x w < R.x (R.nxt w)) ∨
      (R.x (R.nxt w) < R.x w ∧ R.x w < R.x (R.prv w))) : vWeight R w = 1 := by
  unfold vWeight
  rcases h with ⟨h1, h2⟩ | ⟨h1, h2⟩
  · rw [if_neg (fun h' => lt_asymm h2 h'.2), if_neg (fun h' => lt_asymm h1 h'.1)]
  · rw [if_neg (fun h' => lt_asymm h2 h'.1), if_neg (fun h' => lt_asymm h1 h'.2)]

theorem vWeight_start {R : RingQ} {w wB wT : Nat}
    (hnb : (R.prv w = wB ∧ R.nxt w = wT) ∨ (R.prv w = wT ∧ R.nxt w = wB))
    (hxB : R.x w < R.x wB) (hxT : R.x w < R.x wT)
    (ho : 0 < orient (R.pt w) (R.pt wB) (R.pt wT)) :
    vWeight R w = if isLo R w wB then 0 else 2 := by
  unfold vWeight
  rcases hnb with ⟨e1, e2⟩ | ⟨e1, e2⟩
  · rw [e1, e2, if_neg (fun h' => lt_asymm hxB h'.1), if_pos ⟨hxB, hxT⟩, if_pos ho]
  · have hn : ¬ 0 < orient (R.pt w) (R.pt wT) (R.pt wB) := by
      have := orient_swap (R.pt w) (R.pt wB) (R.pt wT)
      rw [this]; linarith
    rw [e1, e2, if_neg (fun h' => lt_asymm hxB h'.2), if_pos ⟨hxT, hxB⟩, if_neg hn]

theorem vWeight_end {R : RingQ} {w uB uT : Nat}
    (hnb : (R.prv w = uB ∧ R.nxt w = uT) ∨ (R.prv w = uT ∧ R.nxt w = uB))
    (hxB : R.x uB < R.x w) (hxT : R.x uT < R.x w)
    (ho : 0 < orient (R.pt uB) (R.pt w) (R.pt uT)) :
    vWeight R w = if isLo R uB w then 0 else 2 := by
  unfold vWeight
  rcases hnb with ⟨e1, e2⟩ | ⟨e1, e2⟩
  · rw [e1, e2, if_pos ⟨hxB, hxT⟩, if_pos ho]
  · have hn : ¬ 0 < orient (R.pt uT) (R.pt w) (R.pt uB) := by
      have : orient (R.pt uT) (R.pt w) (R.pt uB) = - orient (R.pt uB) (R.pt w) (R.pt uT) := by
        unfold orient; ring
      rw [this]; linarith
    rw [e1, e2, if_pos ⟨hxT, hxB⟩, if_neg hn]

end Cav.GenOutCount
