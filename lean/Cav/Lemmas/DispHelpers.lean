/-
  `linspace` / `vecFromRes` / `linspace2` / `vecFromRes2`:
  lengths (structural, every `Num α`) and values (over `Rat`).
-/
import Cav.Model.Helpers
import Cav.Inst.Rat
import Mathlib.Tactic.Ring
import Mathlib.Tactic.Linarith
import Mathlib.Tactic.FieldSimp
import Mathlib.Algebra.Order.Field.Rat
import Mathlib.Algebra.Order.Field.Basic

namespace Cav.DispL
open Cav Num

section structural
variable {α : Type} [Num α]

theorem ite_lt_two (n : Nat) : (if n < 2 then 2 else n) = max n 2 := by
  split <;> omega

/-- `linspace` as a map over `range (max n 2)` -/
theorem linspace_eq_map (a b : α) (n : Nat) :
    linspace a b n = (List.range (max n 2)).map fun p =>
      (one - Num.ofNat p / Num.ofNat (max n 2 - 1)) * a + (Num.ofNat p / Num.ofNat (max n 2 - 1)) * b := by
  unfold linspace
  simp only [ite_lt_two]

theorem linspace2_eq_map (a b : α × α) (n : Nat) :
    linspace2 a b n = (List.range (max n 2)).map fun p =>
      ((one - Num.ofNat p / Num.ofNat (max n 2 - 1)) * a.1 + (Num.ofNat p / Num.ofNat (max n 2 - 1)) * b.1,
       (one - Num.ofNat p / Num.ofNat (max n 2 - 1)) * a.2 + (Num.ofNat p / Num.ofNat (max n 2 - 1)) * b.2) := by
  unfold linspace2
  simp only [ite_lt_two]

theorem linspace_length (a b : α) (n : Nat) : (linspace a b n).length = max n 2 := by
  simp [linspace_eq_map]

theorem vecFromRes_length (a b : α) (res : Nat) : (vecFromRes a b res).length = max (res + 1) 2 :=
  linspace_length a b (res + 1)

theorem linspace2_length (a b : α × α) (n : Nat) : (linspace2 a b n).length = max n 2 := by
  simp [linspace2_eq_map]

theorem vecFromRes2_length (a b : α × α) (res : Nat) :
    (vecFromRes2 a b res).length = max (res + 1) 2 :=
  linspace2_length a b (res + 1)

theorem vecFromRes_ne_nil (a b : α) (res : Nat) : vecFromRes a b res ≠ [] := by
  intro h
  have := vecFromRes_length a b res
  rw [h] at this
  simp at this
  omega

theorem vecFromRes2_ne_nil (a b : α × α) (res : Nat) : vecFromRes2 a b res ≠ [] := by
  intro h
  have := vecFromRes2_length a b res
  rw [h] at this
  simp at this
  omega

/-- the two components of `linspace2` are `linspace` of the components -/
theorem linspace2_fst (a b : α × α) (n : Nat) :
    (linspace2 a b n).map (·.1) = linspace a.1 b.1 n := by
  simp [linspace2_eq_map, linspace_eq_map, List.map_map, Function.comp_def]

theorem linspace2_snd (a b : α × α) (n : Nat) :
    (linspace2 a b n).map (·.2) = linspace a.2 b.2 n := by
  simp [linspace2_eq_map, linspace_eq_map, List.map_map, Function.comp_def]

end structural

/-! ### values over `Rat` -/

theorem rat_zero : (Num.zero : Rat) = 0 := by simp [Num.zero, Num.ofNat]
theorem rat_one : (Num.one : Rat) = 1 := by simp [Num.one, Num.ofNat]
theorem rat_ofNat (n : Nat) : (Num.ofNat n : Rat) = (n : Rat) := rfl

/-- the `i`-th sample is the convex combination with weight `i/(m-1)`, `m = max n 2` -/
theorem linspace_get (a b : Rat) (n i : Nat) (hi : i < max n 2) :
    (linspace a b n)[i]? =
      some ((1 - (i : Rat) / (((max n 2 : Nat) : Rat) - 1)) * a
        + ((i : Rat) / (((max n 2 : Nat) : Rat) - 1)) * b) := by
  rw [linspace_eq_map, List.getElem?_map, List.getElem?_range hi]
  have h1 : 1 ≤ max n 2 := by omega
  simp only [Option.map_some, rat_one, rat_ofNat, Nat.cast_sub h1, Nat.cast_one]

theorem linspace_head (a b : Rat) (n : Nat) : (linspace a b n).head? = some a := by
  rw [List.head?_eq_getElem?, linspace_get a b n 0 (by omega)]
  simp

theorem linspace_getLast (a b : Rat) (n : Nat) : (linspace a b n).getLast? = some b := by
  rw [List.getLast?_eq_getElem?, linspace_length, linspace_get a b n (max n 2 - 1) (by omega)]
  have h1 : 1 ≤ max n 2 := by omega
  have h2 : (((max n 2 : Nat) : Rat) - 1) ≠ 0 := by
    have : (2 : Rat) ≤ ((max n 2 : Nat) : Rat) := by exact_mod_cast (by omega : 2 ≤ max n 2)
    linarith
  rw [Nat.cast_sub h1, Nat.cast_one, div_self h2]
  simp

theorem vecFromRes_head (a b : Rat) (res : Nat) : (vecFromRes a b res).head? = some a :=
  linspace_head a b _

theorem vecFromRes_getLast (a b : Rat) (res : Nat) : (vecFromRes a b res).getLast? = some b :=
  linspace_getLast a b _

/-- every sample lies between the end points -/
theorem linspace_mem_between (a b : Rat) (n : Nat) (hab : a ≤ b) :
    ∀ x ∈ linspace a b n, a ≤ x ∧ x ≤ b := by
  intro x hx
  rw [linspace_eq_map, List.mem_map] at hx
  obtain ⟨p, hp, rfl⟩ := hx
  rw [List.mem_range] at hp
  have h1 : 1 ≤ max n 2 := by omega
  simp only [rat_one, rat_ofNat, Nat.cast_sub h1, Nat.cast_one]
  have h2 : (0 : Rat) < ((max n 2 : Nat) : Rat) - 1 := by
    have : (2 : Rat) ≤ ((max n 2 : Nat) : Rat) := by exact_mod_cast (by omega : 2 ≤ max n 2)
    linarith
  have hp' : (p : Rat) ≤ ((max n 2 : Nat) : Rat) - 1 := by
    have : (p : Rat) + 1 ≤ ((max n 2 : Nat) : Rat) := by exact_mod_cast hp
    linarith
  have hc0 : 0 ≤ (p : Rat) / (((max n 2 : Nat) : Rat) - 1) :=
    div_nonneg (by exact_mod_cast Nat.zero_le p) (le_of_lt h2)
  have hc1 : (p : Rat) / (((max n 2 : Nat) : Rat) - 1) ≤ 1 := (div_le_one h2).mpr hp'
  constructor <;> nlinarith

theorem linspace2_head (a b : Rat × Rat) (n : Nat) : (linspace2 a b n).head? = some a := by
  have h1 := linspace_head a.1 b.1 n
  have h2 := linspace_head a.2 b.2 n
  rw [← linspace2_fst, List.head?_map] at h1
  rw [← linspace2_snd, List.head?_map] at h2
  cases h : (linspace2 a b n).head? with
  | none => simp [h] at h1
  | some q =>
    simp only [h, Option.map_some, Option.some.injEq] at h1 h2
    rw [show q = (q.1, q.2) from rfl, h1, h2]

theorem linspace2_getLast (a b : Rat × Rat) (n : Nat) : (linspace2 a b n).getLast? = some b := by
  have h1 := linspace_getLast a.1 b.1 n
  have h2 := linspace_getLast a.2 b.2 n
  rw [← linspace2_fst, List.getLast?_map] at h1
  rw [← linspace2_snd, List.getLast?_map] at h2
  cases h : (linspace2 a b n).getLast? with
  | none => simp [h] at h1
  | some q =>
    simp only [h, Option.map_some, Option.some.injEq] at h1 h2
    rw [show q = (q.1, q.2) from rfl, h1, h2]

end Cav.DispL
