/-
  Symbolic execution of the sweep model `Cav/Model/Sweep.lean` from a given state:
  run lemmas for the primitives, pure mirrors of the edge comparisons (`cmpEdgeP`), the
  predicate `Runs s r m` (`m` run from `s` gives `r`) and the stepping tactics `sm_bind`,
  `sm_cond`, `sm_run`, which evaluate a `do` block statement by statement without ever
  simplifying inside a continuation (so the join points of `do`-notation are not duplicated).
-/
import Cav.Lemmas.SweepRun
import Cav.Inst.XQ
import Lean

namespace Cav.TriRun
open Cav Num Cav.Sweep Cav.SweepRun

variable {α : Type} [Num α]
set_option linter.unusedSectionVars false

/-! ### run lemmas for the primitives -/
theorem run_getEdge (i : Nat) (s : St α) :
    (getEdge i : SM α _).run s =
      match s.edges[i]? with
      | some n => .ok (n, s)
      | none => .error (.panic "model-bad-edge") := by
  unfold getEdge
  simp only [run_bind, run_get]
  cases s.edges[i]? <;> rfl

theorem run_getChain (i : Nat) (s : St α) :
    (getChain i : SM α _).run s =
      match s.chains[i]? with
      | some n => .ok (n, s)
      | none => .error (.panic "model-bad-chain") := by
  unfold getChain
  simp only [run_bind, run_get]
  cases s.chains[i]? <;> rfl

@[simp] theorem run_setChain (i : Nat) (n : Chain) (s : St α) :
    (setChain i n : SM α _).run s = .ok (⟨⟩, { s with chains := s.chains.setIfInBounds i n }) := rfl
@[simp] theorem run_setEdge (i : Nat) (n : Edge α) (s : St α) :
    (setEdge i n : SM α _).run s = .ok (⟨⟩, { s with edges := s.edges.setIfInBounds i n }) := rfl
@[simp] theorem run_newNode (p : Pt α) (s : St α) :
    (newNode p : SM α _).run s = .ok (s.nodes.size, { s with nodes := s.nodes.push ⟨p, none, none⟩ }) := rfl
@[simp] theorem run_newChainVal (c : Chain) (s : St α) :
    (newChainVal c : SM α _).run s = .ok (s.chains.size, { s with chains := s.chains.push c }) := rfl
@[simp] theorem run_newEdge (e : Edge α) (s : St α) :
    (newEdge e : SM α _).run s = .ok (s.edges.size, { s with edges := s.edges.push e }) := rfl
@[simp] theorem run_chainNew (p : Pt α) (s : St α) :
    (chainNew p : SM α _).run s = .ok (⟨s.nodes.size, s.nodes.size, s.nodes.size⟩, { s with nodes := s.nodes.push ⟨p, none, none⟩ }) := rfl

theorem run_ite {β : Type} (c : Prop) [Decidable c] (a b : SM α β) (s : St α) :
    (if c then a else b).run s = if c then a.run s else b.run s := by
  split <;> rfl

/-- left point of an edge in a state -/
def lpt? (s : St α) (e : Edge α) : Option (Pt α) :=
  match s.chains[e.chain]? with
  | none => none
  | some c =>
    match s.nodes[if e.bofIn then c.head else c.tail]? with
    | none => none
    | some n => some n.p

def lptD (s : St α) (e : Edge α) : Pt α := (lpt? s e).getD dummyPt

theorem run_edgeLpt (e : Edge α) (s : St α) (h : (lpt? s e).isSome = true) :
    (edgeLpt e).run s = .ok (lptD s e, s) := by
  unfold edgeLpt lptD
  unfold lpt? at h ⊢
  simp only [run_bind, run_getChain]
  cases hc : s.chains[e.chain]? with
  | none => simp [hc] at h
  | some c =>
    simp only [run_getNode]
    cases hn : s.nodes[if e.bofIn then c.head else c.tail]? with
    | none => simp [hc, hn] at h
    | some n => rfl


theorem run_yAt (e : Edge α) (x : α) (r : Bool) (s : St α) (h : (lpt? s e).isSome = true) :
    (yAt e x r).run s = .ok (yExtrap (lptD s e) e.rpt x r, s) := by
  unfold yAt
  simp only [run_bind, run_edgeLpt e s h, run_pure]

theorem run_edgeGrad (e : Edge α) (s : St α) (h : (lpt? s e).isSome = true) :
    (edgeGrad e).run s = .ok ((lptD s e).grad e.rpt, s) := by
  unfold edgeGrad
  simp only [run_bind, run_edgeLpt e s h, run_pure]

def tieP (g : α) : α := if ofEq g (Num.inf : α) then -(Num.inf : α) else g

theorem run_tieGrad (e : Edge α) (s : St α) (h : (lpt? s e).isSome = true) :
    (tieGrad e).run s = .ok (tieP ((lptD s e).grad e.rpt), s) := by
  unfold tieGrad tieP
  simp only [run_bind, run_edgeGrad e s h, run_pure]

def cmpEdgeP (la ra lb rb : Pt α) (x : α) : Ordering :=
  if !(Num.isFinite x) then .eq
  else
    match Num.totalCmp (yExtrap la ra x true) (yExtrap lb rb x true) with
    | .eq =>
      if ra.eq rb && ofEq ra.x x then Num.totalCmp (lb.grad rb) (la.grad ra)
      else Num.totalCmp (tieP (la.grad ra)) (tieP (lb.grad rb))
    | o => o

theorem run_cmpEdge (a b : Edge α) (s : St α) (ha : (lpt? s a).isSome = true)
    (hb : (lpt? s b).isSome = true) :
    (cmpEdge a b).run s = .ok (cmpEdgeP (lptD s a) a.rpt (lptD s b) b.rpt s.x, s) := by
  unfold cmpEdge cmpEdgeP
  simp only [run_bind, run_get]
  cases hx : Num.isFinite s.x
  · simp only [Bool.not_false, if_true, run_pure]
  · simp only [Bool.not_true, Bool.false_eq_true, if_false, run_bind, run_yAt a _ _ s ha,
      run_yAt b _ _ s hb]
    generalize Num.totalCmp (yExtrap (lptD s a) a.rpt s.x true) (yExtrap (lptD s b) b.rpt s.x true) = o
    cases o
    · rfl
    · simp only []
      split
      · simp only [run_bind, run_edgeGrad a s ha, run_edgeGrad b s hb, run_pure]
      · simp only [run_bind, run_tieGrad a s ha, run_tieGrad b s hb, run_pure]
    · rfl

variable {β γ : Type}

/-- `m` run from `s` gives `r` -/
def Runs (s : St α) (r : Except (SErr α) (β × St α)) (m : SM α β) : Prop := m.run s = r

theorem Runs.bind {m : SM α β} {f : β → SM α γ} {s s1 : St α} {b : β}
    {r : Except (SErr α) (γ × St α)} (h : m.run s = .ok (b, s1)) (k : Runs s1 r (f b)) :
    Runs s r (m >>= f) := by
  unfold Runs at *
  rw [run_bind, h]; exact k

theorem Runs.final {m : SM α β} {s : St α} {r : Except (SErr α) (β × St α)} (h : m.run s = r) :
    Runs s r m := h

theorem Runs.run {m : SM α β} {s : St α} {r : Except (SErr α) (β × St α)} (h : Runs s r m) :
    m.run s = r := h

open Lean Meta in
/-- head beta/zeta/projection reduction; a `match` is reduced only when all its discriminants
    are constructor applications -/
def smWhnf (e : Expr) : (fuel : Nat) → MetaM Expr
  | 0 => return e
  | fuel + 1 => do
  let e ← withConfig (fun c => { c with iota := false }) (whnfCore e)
  let .const c _ := e.getAppFn | return e
  let some info ← getMatcherInfo? c | return e
  let args := e.getAppArgs
  if args.size < info.numParams + 1 + info.numDiscrs + info.numAlts then return e
  for i in [info.numParams + 1 : info.numParams + 1 + info.numDiscrs] do
    let d ← instantiateMVars args[i]!
    unless (← isConstructorApp d) do return e
  match ← reduceMatcher? e with
  | .reduced e' => smWhnf e' fuel
  | _ => return e

open Lean Meta Elab Tactic in
/-- head-normalise (beta, zeta, iota on constructors; no delta) the program of a goal
    `Runs s r prog` -/
elab "sm_whnf" : tactic => do
  let g ← getMainGoal
  g.withContext do
    let t := (← instantiateMVars (← g.getType)).consumeMData
    unless t.isApp do throwError "sm_whnf: not an application"
    let P := t.appFn!
    let prog := t.appArg!
    let prog' ← smWhnf prog 256
    let g' ← mkFreshExprSyntheticOpaqueMVar (mkApp P prog')
    g.assign g'
    replaceMainGoal [g'.mvarId!]

open Lean Meta Elab Tactic in
/-- succeeds iff the program of the goal is syntactically a `bind` -/
elab "sm_is_bind" : tactic => do
  let g ← getMainGoal
  let t := (← instantiateMVars (← g.getType)).consumeMData
  unless t.isApp do throwError "not an application"
  unless t.appArg!.getAppFn.isConstOf ``Bind.bind do throwError "not a bind"

open Lean Meta Elab Tactic in
/-- succeeds iff the program of the goal is not a `bind`, `ite`, `match` or `have` -/
elab "sm_is_last" : tactic => do
  let g ← getMainGoal
  let t := (← instantiateMVars (← g.getType)).consumeMData
  unless t.isApp do throwError "not an application"
  let prog := t.appArg!
  if prog.getAppFn.isConstOf ``Bind.bind then throwError "a bind"
  if prog.getAppFn.isConstOf ``ite then throwError "an ite"
  if prog.isLet then throwError "a let"
  if let .const c _ := prog.getAppFn then
    if (← getMatcherInfo? c).isSome then throwError "a match"

/-- `simp` must not rewrite inside a not yet executed part of the program -/
simproc_decl blockBind (Bind.bind _ _) := fun e => return .done { expr := e }

theorem except_pure {ε : Type} (a : β) : (pure a : Except ε β) = .ok a := rfl

theorem run_noteMono (key : Edge α) (l : List Nat) (s : St α) :
    (noteMono key l).run s = .ok ((), { s with mono := s.mono && (match (cmpAll key l).run s with
      | .ok (cs, _) => isMono cs
      | .error _ => true) }) := rfl

/-- evaluate `m.run s` on the left-hand side of the goal -/
syntax "sm_run" ("[" Lean.Parser.Tactic.simpLemma,* "]")? : tactic
macro_rules
  | `(tactic| sm_run) => `(tactic| sm_run [])
  | `(tactic| sm_run [$args,*]) => `(tactic|
      ((conv => lhs; simp [↓run_bind, run_pure, run_get, run_set, run_modify, run_throw, run_getNode,
          run_getVtx, run_getEdge, run_getChain, run_setNode, run_setChain, run_setEdge, run_newNode,
          run_newChainVal, run_newEdge, run_chainNew, run_noteMono, run_ite, except_pure,
          -StateT.run_pure, -StateT.run_bind, -StateT.run_get, -StateT.run_set, -StateT.run_modify, $args,*]); try exact rfl))

/-- one `bind` step -/
syntax "sm_bind" ("[" Lean.Parser.Tactic.simpLemma,* "]")? : tactic
macro_rules
  | `(tactic| sm_bind) => `(tactic| sm_bind [])
  | `(tactic| sm_bind [$args,*]) => `(tactic|
      (sm_whnf; sm_is_bind; refine Runs.bind (b := ?_) (s1 := ?_) ?h ?k; (case h => sm_run [$args,*]); sm_whnf))

/-- simplify the head condition / discriminant -/
syntax "sm_cond" ("[" Lean.Parser.Tactic.simpLemma,* "]")? : tactic
macro_rules
  | `(tactic| sm_cond) => `(tactic| sm_cond [])
  | `(tactic| sm_cond [$args,*]) => `(tactic|
      (sm_whnf; simp (config := { zeta := false }) [↓blockBind, $args,*]; sm_whnf))

/-- evaluate a whole `do` block: all steps, then the last statement -/
syntax "sm_eval" ("[" Lean.Parser.Tactic.simpLemma,* "]")? : tactic
macro_rules
  | `(tactic| sm_eval) => `(tactic| sm_eval [])
  | `(tactic| sm_eval [$args,*]) => `(tactic|
      ((repeat (first | sm_bind [$args,*] | sm_cond [$args,*]));
       first | done | (sm_is_last; refine Runs.final ?_; sm_run [$args,*]) | skip))

end Cav.TriRun
