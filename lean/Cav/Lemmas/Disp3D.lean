/-
  Structural description of `disp3DNew` / `genDisplayCurtain` (every `Num α`), used by
  `Thm/C14` and `Thm/C08`.
-/
import Cav.Model.Disp3D
import Cav.Lemmas.DispHelpers
import Cav.Lemmas.DispList

namespace Cav.DispL
open Cav Num Gen

variable {α : Type} [Num α]

/-- the three boundary sample lists: edge `t1→t2`, `t2→t0`, `t0→t1` -/
def xvs3 (t : P2 α × P2 α × P2 α) (cfg : Cfg3D α) : List (List (P2 α)) :=
  [vecFromRes2 t.2.1 t.2.2 cfg.xRes, vecFromRes2 t.2.2 t.1 cfg.xRes, vecFromRes2 t.1 t.2.1 cfg.xRes]

/-- the closed boundary walk: the three edges with the repeated corners dropped -/
def boundary3 (t : P2 α × P2 α × P2 α) (cfg : Cfg3D α) : List (P2 α) :=
  vecFromRes2 t.2.1 t.2.2 cfg.xRes ++ (vecFromRes2 t.2.2 t.1 cfg.xRes).drop 1
    ++ (vecFromRes2 t.1 t.2.1 cfg.xRes).drop 1

/-- the centroid -/
def center3 (t : P2 α × P2 α × P2 α) : P2 α :=
  ((t.1.1 + t.2.1.1 + t.2.2.1) / Num.ofNat 3, (t.1.2 + t.2.1.2 + t.2.2.2) / Num.ofNat 3)

/-- the radial interpolation between centroid (`radr = 0`) and boundary point (`radr = 1`) -/
def lerp3 (center : P2 α) (radr : α) (x : P2 α) : P2 α :=
  ((one - radr) * center.1 + radr * x.1, (one - radr) * center.2 + radr * x.2)

/-- the normalised `c`: `cn y = c(y) − c(0)` -/
def cn3 (c : α → P2 α) (y : α) : P2 α := ((c y).1 - (c zero).1, (c y).2 - (c zero).2)

/-- `g(x) = x − (c(f(x)) − c(0))` -/
def g3 (f : P2 α → α) (c : α → P2 α) (x : P2 α) : P2 α :=
  (x.1 - ((c (f x)).1 - (c zero).1), x.2 - ((c (f x)).2 - (c zero).2))

/-- the point of the curtain over the boundary sample `x` at relative height `yr` -/
def curtainPt (f : P2 α → α) (c : α → P2 α) (yr : α) (x : P2 α) : P3 α :=
  ((cn3 c (yr * f x)).1 + (g3 f c x).1, (cn3 c (yr * f x)).2 + (g3 f c x).2, yr * f x)

theorem genDisplayCurtain_eq (f : P2 α → α) (c : α → P2 α) (xv : List (P2 α)) (yrv : List α) :
    genDisplayCurtain f c xv yrv = yrv.map fun yr => xv.map (curtainPt f c yr) := by
  unfold genDisplayCurtain
  simp only [List.zip_map', List.map_map]
  rfl

theorem disp3DNew_curtains (f : P2 α → α) (c : α → P2 α) (t : P2 α × P2 α × P2 α)
    (integ : Option (α × α)) (cfg : Cfg3D α) :
    (disp3DNew f c t integ cfg).curtains =
      (xvs3 t cfg).map fun xv =>
        (vecFromRes (zero : α) one cfg.yRes).map fun yr => xv.map (curtainPt f c yr) := by
  obtain ⟨t0, t1, t2⟩ := t
  simp only [disp3DNew, xvs3, List.map_cons, List.map_nil, genDisplayCurtain_eq]

theorem disp3DNew_topMesh (f : P2 α → α) (c : α → P2 α) (t : P2 α × P2 α × P2 α)
    (integ : Option (α × α)) (cfg : Cfg3D α) :
    (disp3DNew f c t integ cfg).topMesh =
      (vecFromRes (zero : α) one cfg.radialRes).map fun radr =>
        (boundary3 t cfg).map fun x =>
          ((lerp3 (center3 t) radr x).1, (lerp3 (center3 t) radr x).2, f (lerp3 (center3 t) radr x)) := by
  obtain ⟨t0, t1, t2⟩ := t
  rfl

theorem disp3DNew_botMesh (f : P2 α → α) (c : α → P2 α) (t : P2 α × P2 α × P2 α)
    (integ : Option (α × α)) (cfg : Cfg3D α) :
    (disp3DNew f c t integ cfg).botMesh =
      (vecFromRes (zero : α) one cfg.radialRes).map fun radr =>
        (boundary3 t cfg).map fun x => g3 f c (lerp3 (center3 t) radr x) := by
  obtain ⟨t0, t1, t2⟩ := t
  rfl

theorem disp3DNew_triag (f : P2 α → α) (c : α → P2 α) (t : P2 α × P2 α × P2 α)
    (integ : Option (α × α)) (cfg : Cfg3D α) : (disp3DNew f c t integ cfg).triag = t := by
  obtain ⟨t0, t1, t2⟩ := t
  rfl

theorem disp3DNew_integ (f : P2 α → α) (c : α → P2 α) (t : P2 α × P2 α × P2 α)
    (integ : Option (α × α)) (cfg : Cfg3D α) : (disp3DNew f c t integ cfg).integ = integ := by
  obtain ⟨t0, t1, t2⟩ := t
  rfl

theorem boundary3_length (t : P2 α × P2 α × P2 α) (cfg : Cfg3D α) :
    (boundary3 t cfg).length = 3 * max (cfg.xRes + 1) 2 - 2 := by
  simp only [boundary3, List.length_append, List.length_drop, vecFromRes2_length]
  omega

/-! ### `gen_display_cav` (3-D) -/

/-- the triangle of the sweep output as a triple of plain points -/
def triOf (tr : Pt α × Pt α × Pt α) : P2 α × P2 α × P2 α :=
  ((tr.1.x, tr.1.y), (tr.2.1.x, tr.2.1.y), (tr.2.2.x, tr.2.2.y))

/-- `f` on plain points -/
def fPlain3 (f : AD α × AD α → AD α) : P2 α → α := fun x => (f (AD.mk x.1 zero, AD.mk x.2 zero)).v
/-- `c` on plain heights -/
def cPlain3 (c : AD α → AD α × AD α) : α → P2 α := fun y => ((c (AD.mk y zero)).1.v, (c (AD.mk y zero)).2.v)
/-- `g(x) = x − c(f(x))` on dual numbers (the map whose Jacobian weights the integrand) -/
def gAD3 (f : AD α × AD α → AD α) (c : AD α → AD α × AD α) : AD α × AD α → AD α × AD α :=
  fun x => (AD.sub x.1 (c (f x)).1, AD.sub x.2 (c (f x)).2)

/-- the integration step for one triangle -/
def integ3E (f : AD α × AD α → AD α) (g : AD α × AD α → AD α × AD α) (cfg : Cfg3D α)
    (t : P2 α × P2 α × P2 α) : Except (Disp3Err α) (Option (α × α)) :=
  if cfg.computeInteg then
    match (gkTriangle (fun x y => (f (AD.ofF x, AD.ofF y)).v * absJacobianDet g (x, y)) t cfg.tol
            (some cfg.maxIntIters)).res with
    | .ok v => .ok (some v)
    | .error e => .error (.integ (e == .convergence))
  else .ok none

/-- one iteration of the triangle loop -/
def tri3E (f : AD α × AD α → AD α) (cfg : Cfg3D α) (fP : P2 α → α) (cP : α → P2 α)
    (g : AD α × AD α → AD α × AD α) (tr : Pt α × Pt α × Pt α) : Except (Disp3Err α) (Disp3D α) :=
  match integ3E f g cfg (triOf tr) with
  | .error e => .error e
  | .ok iv => .ok (disp3DNew fP cP (triOf tr) iv cfg)

theorem cav3_go_eq (f : AD α × AD α → AD α) (cfg : Cfg3D α) (fP : P2 α → α) (cP : α → P2 α)
    (g : AD α × AD α → AD α × AD α) (tris : List (Pt α × Pt α × Pt α)) (acc : List (Disp3D α)) :
    genDisplayCav3.go f cfg fP cP g tris acc = prependE acc.reverse (mapE (tri3E f cfg fP cP g) tris) := by
  induction tris generalizing acc with
  | nil => simp [genDisplayCav3.go, mapE]
  | cons tr rest ih =>
    rw [genDisplayCav3.go.eq_2]
    show (match integ3E f g cfg (triOf tr) with
      | .error e => (.error e : Except (Disp3Err α) (List (Disp3D α)))
      | .ok iv => genDisplayCav3.go f cfg fP cP g rest (disp3DNew fP cP (triOf tr) iv cfg :: acc)) = _
    cases hI : integ3E f g cfg (triOf tr) with
    | error e =>
      have hx : tri3E f cfg fP cP g tr = .error e := by simp [tri3E, hI]
      rw [mapE_cons_err1 hx]; rfl
    | ok iv =>
      have hx : tri3E f cfg fP cP g tr = .ok (disp3DNew fP cP (triOf tr) iv cfg) := by simp [tri3E, hI]
      simp only []
      rw [ih]
      cases hR : mapE (tri3E f cfg fP cP g) rest with
      | error e => rw [mapE_cons_err2 hx hR]; simp
      | ok r => rw [mapE_cons_of_ok hx hR]; simp

/-- **characterisation** of the 3-D generator -/
theorem genDisplayCav3_eq (f : AD α × AD α → AD α) (c : AD α → AD α × AD α)
    (polys : List (Array (Pt α))) (cfg : Cfg3D α) :
    genDisplayCav3 f c polys cfg =
      match sweep polys with
      | .error e => .error (.tri e)
      | .ok tris => mapE (tri3E f cfg (fPlain3 f) (cPlain3 c) (gAD3 f c)) tris := by
  unfold genDisplayCav3
  cases sweep polys with
  | error e => rfl
  | ok tris =>
    simp only []
    rw [cav3_go_eq]
    simp only [List.reverse_nil, prependE_nil]
    rfl

end Cav.DispL
