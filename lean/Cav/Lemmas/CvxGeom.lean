/-
  Rational geometry of a polygon that consists of two x-monotone chains from its leftmost to its
  rightmost vertex, the bottom chain `b 0 … b mB` turning left at every interior vertex and the
  top chain `t 0 … t mT` turning right (`Chains`): every vertex lies strictly to the left of every
  bottom edge and strictly to the right of every top edge it is not an end point of (the facts
  `wB_*`, `wT_*` the sweep needs).
-/
import Cav.Lemmas.GeomXQ
import Mathlib.Tactic.Ring
import Mathlib.Tactic.Linarith
import Mathlib.Tactic.Positivity

namespace Cav.CvxGeom
open Cav Cav.Geo

/-! ### weighted identities between orientation determinants -/

theorem orient_abd (a b c d : Rat × Rat) :
    (c.1 - b.1) * orient a b d = (d.1 - b.1) * orient a b c + (b.1 - a.1) * orient b c d := by
  unfold orient; ring

theorem orient_acd (a b c d : Rat × Rat) :
    (c.1 - b.1) * orient a c d = (c.1 - a.1) * orient b c d + (d.1 - c.1) * orient a b c := by
  unfold orient; ring

/-- the height of `w` over the line `u v` from the heights of `l`, `r` and the height of `w`
    over the chord `l r` -/
theorem orient_chord (u v l r w : Rat × Rat) :
    (r.1 - l.1) * orient u v w =
      (r.1 - w.1) * orient u v l + (w.1 - l.1) * orient u v r + (v.1 - u.1) * orient l r w := by
  unfold orient; ring

theorem pos_of_mul_pos_left {k x : Rat} (hk : 0 < k) (h : 0 < k * x) : 0 < x := by
  rcases lt_trichotomy 0 x with h' | h' | h'
  · exact h'
  · subst h'; simp at h
  · exact absurd h (not_lt.mpr (le_of_lt (mul_neg_of_pos_of_neg hk h')))

theorem orient_abd_pos {a b c d : Rat × Rat} (hab : a.1 < b.1) (hbc : b.1 < c.1) (hcd : c.1 < d.1)
    (h1 : 0 < orient a b c) (h2 : 0 < orient b c d) : 0 < orient a b d := by
  have e := orient_abd a b c d
  have w1 : 0 < (d.1 - b.1) * orient a b c := mul_pos (by linarith) h1
  have w2 : 0 < (b.1 - a.1) * orient b c d := mul_pos (by linarith) h2
  exact pos_of_mul_pos_left (sub_pos.mpr hbc) (by linarith)

theorem orient_acd_pos {a b c d : Rat × Rat} (hab : a.1 < b.1) (hbc : b.1 < c.1) (hcd : c.1 < d.1)
    (h1 : 0 < orient a b c) (h2 : 0 < orient b c d) : 0 < orient a c d := by
  have e := orient_acd a b c d
  have w1 : 0 < (c.1 - a.1) * orient b c d := mul_pos (by linarith) h2
  have w2 : 0 < (d.1 - c.1) * orient a b c := mul_pos (by linarith) h1
  exact pos_of_mul_pos_left (sub_pos.mpr hbc) (by linarith)

/-! ### a convex chain -/

section chain
variable {c : Nat → Rat × Rat} {m : Nat}

theorem chain_x_lt (hx : ∀ k < m, (c k).1 < (c (k + 1)).1) :
    ∀ i j, i < j → j ≤ m → (c i).1 < (c j).1 := by
  intro i j hij
  induction j with
  | zero => omega
  | succ j ih =>
    intro hj
    rcases Nat.lt_or_ge i j with h | h
    · exact lt_trans (ih h (by omega)) (hx j (by omega))
    · have : i = j := by omega
      subst this; exact hx i (by omega)

theorem chain_step (hx : ∀ k < m, (c k).1 < (c (k + 1)).1)
    (hc : ∀ k, k + 2 ≤ m → 0 < orient (c k) (c (k + 1)) (c (k + 2))) :
    ∀ i j, i < j → j + 1 ≤ m → 0 < orient (c i) (c j) (c (j + 1)) := by
  intro i j hij
  induction j with
  | zero => omega
  | succ j ih =>
    intro hj
    rcases Nat.lt_or_ge i j with h | h
    · have h1 := ih h (by omega)
      have h2 := hc j (by omega)
      exact orient_acd_pos (chain_x_lt hx i j h (by omega)) (hx j (by omega)) (hx (j + 1) (by omega))
        h1 h2
    · have : i = j := by omega
      subst this; exact hc i (by omega)

/-- every triple of a convex chain is a left turn -/
theorem chain_triple (hx : ∀ k < m, (c k).1 < (c (k + 1)).1)
    (hc : ∀ k, k + 2 ≤ m → 0 < orient (c k) (c (k + 1)) (c (k + 2))) :
    ∀ i j k, i < j → j < k → k ≤ m → 0 < orient (c i) (c j) (c k) := by
  intro i j k hij hjk
  induction k with
  | zero => omega
  | succ k ih =>
    intro hk
    rcases Nat.lt_or_ge j k with h | h
    · have h1 := ih h (by omega)
      have h2 := chain_step hx hc j k h (by omega)
      exact orient_abd_pos (chain_x_lt hx i j hij (by omega)) (chain_x_lt hx j k h (by omega))
        (hx k (by omega)) h1 h2
    · have : j = k := by omega
      subst this; exact chain_step hx hc i j hij hk

end chain

/-! ### two chains -/

/-- reflection in the x-axis -/
def refl (p : Rat × Rat) : Rat × Rat := (p.1, -p.2)

theorem orient_refl (a b c : Rat × Rat) : orient (refl a) (refl b) (refl c) = - orient a b c := by
  unfold orient refl; simp only; ring

/-- two x-monotone chains with common end points, the bottom one convex, the top one concave -/
structure Chains (mB mT : Nat) (b t : Nat → Rat × Rat) : Prop where
  hB : 1 ≤ mB
  hT : 1 ≤ mT
  p0 : b 0 = t 0
  pR : b mB = t mT
  xB : ∀ k < mB, (b k).1 < (b (k + 1)).1
  xT : ∀ k < mT, (t k).1 < (t (k + 1)).1
  cB : ∀ k, k + 2 ≤ mB → 0 < orient (b k) (b (k + 1)) (b (k + 2))
  cT : ∀ k, k + 2 ≤ mT → orient (t k) (t (k + 1)) (t (k + 2)) < 0

namespace Chains
variable {mB mT : Nat} {b t : Nat → Rat × Rat}

/-- reflection in the x-axis exchanges the two chains -/
theorem swap (h : Chains mB mT b t) : Chains mT mB (fun k => refl (t k)) (fun k => refl (b k)) where
  hB := h.hT
  hT := h.hB
  p0 := by simp only [h.p0]
  pR := by simp only [h.pR]
  xB := h.xT
  xT := h.xB
  cB := fun k hk => by
    have := h.cT k hk
    simp only [orient_refl]; linarith
  cT := fun k hk => by
    have := h.cB k hk
    simp only [orient_refl]; linarith

theorem xB_lt (h : Chains mB mT b t) : ∀ i j, i < j → j ≤ mB → (b i).1 < (b j).1 := chain_x_lt h.xB
theorem xT_lt (h : Chains mB mT b t) : ∀ i j, i < j → j ≤ mT → (t i).1 < (t j).1 := chain_x_lt h.xT

theorem wB_0 (h : Chains mB mT b t) (i : Nat) (h0 : 0 < i) (hi : i < mB) :
    0 < orient (b i) (b (i + 1)) (b 0) := by
  rw [orient_rot]
  exact chain_triple h.xB h.cB 0 i (i + 1) h0 (by omega) (by omega)

theorem wB_R (h : Chains mB mT b t) (i : Nat) (hi : i + 1 < mB) :
    0 < orient (b i) (b (i + 1)) (b mB) :=
  chain_triple h.xB h.cB i (i + 1) mB (by omega) hi (le_refl _)

/-- an interior vertex of the top chain lies strictly above the chord -/
theorem chord_T (h : Chains mB mT b t) (j : Nat) (h0 : 0 < j) (hj : j < mT) :
    0 < orient (b 0) (b mB) (t j) := by
  have := chain_triple h.swap.xB h.swap.cB 0 j mT h0 hj (le_refl _)
  simp only [orient_refl] at this
  rw [h.p0, h.pR, orient_swap]
  linarith

theorem wB_T (h : Chains mB mT b t) (i : Nat) (hi : i < mB) (j : Nat) (h0 : 0 < j) (hj : j < mT) :
    0 < orient (b i) (b (i + 1)) (t j) := by
  have e := orient_chord (b i) (b (i + 1)) (b 0) (b mB) (t j)
  have hL : 0 ≤ orient (b i) (b (i + 1)) (b 0) := by
    rcases Nat.eq_zero_or_pos i with rfl | hpos
    · have : orient (b 0) (b (0 + 1)) (b 0) = 0 := by unfold orient; ring
      rw [this]
    · exact le_of_lt (h.wB_0 i hpos hi)
  have hR : 0 ≤ orient (b i) (b (i + 1)) (b mB) := by
    rcases Nat.lt_or_ge (i + 1) mB with hlt | hge
    · exact le_of_lt (h.wB_R i hlt)
    · have : i + 1 = mB := by omega
      rw [← this]
      have : orient (b i) (b (i + 1)) (b (i + 1)) = 0 := by unfold orient; ring
      rw [this]
  have hc := h.chord_T j h0 hj
  have x1 : (b 0).1 < (t j).1 := by rw [h.p0]; exact h.xT_lt 0 j h0 (by omega)
  have x2 : (t j).1 < (b mB).1 := by rw [h.pR]; exact h.xT_lt j mT hj (le_refl _)
  have x3 : (b i).1 < (b (i + 1)).1 := h.xB i hi
  have w1 : 0 ≤ ((b mB).1 - (t j).1) * orient (b i) (b (i + 1)) (b 0) :=
    mul_nonneg (by linarith) hL
  have w2 : 0 ≤ ((t j).1 - (b 0).1) * orient (b i) (b (i + 1)) (b mB) :=
    mul_nonneg (by linarith) hR
  have w3 : 0 < ((b (i + 1)).1 - (b i).1) * orient (b 0) (b mB) (t j) := mul_pos (by linarith) hc
  exact pos_of_mul_pos_left (show 0 < (b mB).1 - (b 0).1 by linarith) (by linarith)

theorem wT_0 (h : Chains mB mT b t) (j : Nat) (h0 : 0 < j) (hj : j < mT) :
    orient (t j) (t (j + 1)) (t 0) < 0 := by
  have := h.swap.wB_0 j h0 hj
  simp only [orient_refl] at this
  linarith

theorem wT_R (h : Chains mB mT b t) (j : Nat) (hj : j + 1 < mT) :
    orient (t j) (t (j + 1)) (t mT) < 0 := by
  have := h.swap.wB_R j hj
  simp only [orient_refl] at this
  linarith

theorem wT_B (h : Chains mB mT b t) (j : Nat) (hj : j < mT) (i : Nat) (h0 : 0 < i) (hi : i < mB) :
    orient (t j) (t (j + 1)) (b i) < 0 := by
  have := h.swap.wB_T j hj i h0 hi
  simp only [orient_refl] at this
  linarith

end Chains

end Cav.CvxGeom
