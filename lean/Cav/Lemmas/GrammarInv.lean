/-
  Necessary conditions of the grammar `Spec/Grammar.lean`, proved by induction on derivations
  (C17 part D): character classes, the adjacency table, first/last character sets, the alphabet,
  and bracket balance.
-/
import Cav.Lemmas.GrammarInd

namespace Cav.Grammar
open Cav

/-! ### characters -/

theorem char_le_iff (a b : Char) : a ≤ b ↔ a.toNat ≤ b.toNat := by
  rw [Char.le_def, UInt32.le_iff_toNat_le]; rfl

theorem isDigit_iff (c : Char) : isDigit c = true ↔ 48 ≤ c.toNat ∧ c.toNat ≤ 57 := by
  simp only [isDigit, Bool.and_eq_true, decide_eq_true_eq, char_le_iff]
  exact Iff.rfl

theorem isAlpha_iff (c : Char) : isAlpha c = true ↔
    (97 ≤ c.toNat ∧ c.toNat ≤ 122) ∨ (65 ≤ c.toNat ∧ c.toNat ≤ 90) := by
  simp only [isAlpha, Bool.or_eq_true, Bool.and_eq_true, decide_eq_true_eq, char_le_iff]
  exact Iff.rfl

theorem digit_not_alpha {c : Char} (h : isDigit c = true) : isAlpha c = false := by
  rw [isDigit_iff] at h
  cases ha : isAlpha c with
  | false => rfl
  | true => rw [isAlpha_iff] at ha; omega

/-- the character classes the grammar distinguishes -/
inductive Cls | digit | dot | alpha | plus | minus | star | slash | caret | lp | rp | other
  deriving DecidableEq, Repr

def cls (c : Char) : Cls :=
  if isDigit c then .digit else if isAlpha c then .alpha
  else if c = '.' then .dot else if c = '+' then .plus else if c = '-' then .minus
  else if c = '*' then .star else if c = '/' then .slash else if c = '^' then .caret
  else if c = '(' then .lp else if c = ')' then .rp else .other

theorem cls_digit {c : Char} (h : isDigit c = true) : cls c = .digit := by simp [cls, h]
theorem cls_alpha {c : Char} (h : isAlpha c = true) : cls c = .alpha := by
  have : isDigit c = false := by
    cases hd : isDigit c with
    | false => rfl
    | true => rw [digit_not_alpha hd] at h; cases h
  simp [cls, h, this]

/-- what each class says about the character -/
theorem cls_spec (c : Char) :
    match cls c with
    | .digit => isDigit c = true
    | .alpha => isAlpha c = true
    | .dot => c = '.' | .plus => c = '+' | .minus => c = '-' | .star => c = '*'
    | .slash => c = '/' | .caret => c = '^' | .lp => c = '(' | .rp => c = ')'
    | .other => isDigit c = false ∧ isAlpha c = false ∧
        c ≠ '.' ∧ c ≠ '+' ∧ c ≠ '-' ∧ c ≠ '*' ∧ c ≠ '/' ∧ c ≠ '^' ∧ c ≠ '(' ∧ c ≠ ')' := by
  by_cases h1 : isDigit c = true
  · simp [cls, h1]
  by_cases h2 : isAlpha c = true
  · simp [cls, h1, h2]
  by_cases h3 : c = '.'
  · subst h3; simp [show cls '.' = Cls.dot from by decide]
  by_cases h4 : c = '+'
  · subst h4; simp [show cls '+' = Cls.plus from by decide]
  by_cases h5 : c = '-'
  · subst h5; simp [show cls '-' = Cls.minus from by decide]
  by_cases h6 : c = '*'
  · subst h6; simp [show cls '*' = Cls.star from by decide]
  by_cases h7 : c = '/'
  · subst h7; simp [show cls '/' = Cls.slash from by decide]
  by_cases h8 : c = '^'
  · subst h8; simp [show cls '^' = Cls.caret from by decide]
  by_cases h9 : c = '('
  · subst h9; simp [show cls '(' = Cls.lp from by decide]
  by_cases h10 : c = ')'
  · subst h10; simp [show cls ')' = Cls.rp from by decide]
  simp [cls, h1, h2, h3, h4, h5, h6, h7, h8, h9, h10]

/-- adjacency table: `adjC a b` iff a character of class `b` may directly follow one of class `a` -/
def adjC (a b : Cls) : Bool :=
  match a with
  | .digit => [Cls.digit, .dot, .alpha, .rp, .caret, .star, .slash, .plus, .minus].contains b
  | .dot   => [Cls.digit, .alpha, .rp, .caret, .star, .slash, .plus, .minus].contains b
  | .alpha => [Cls.alpha, .digit, .plus, .minus, .lp, .rp, .caret, .star, .slash].contains b
  | .rp    => [Cls.rp, .caret, .star, .slash, .plus, .minus].contains b
  | .lp    => [Cls.lp, .digit, .dot, .plus, .alpha, .minus].contains b
  | .plus  => [Cls.lp, .digit, .dot, .plus, .alpha].contains b
  | .minus => [Cls.lp, .digit, .dot, .plus, .alpha].contains b
  | .star  => [Cls.star, .lp, .digit, .dot, .plus, .alpha, .minus].contains b
  | .slash => [Cls.lp, .digit, .dot, .plus, .alpha, .minus].contains b
  | .caret => [Cls.lp, .digit, .dot, .plus, .alpha, .minus].contains b
  | .other => false

/-- every adjacent pair of characters is allowed by the table -/
def AdjOK : List Char → Prop
  | a :: b :: t => adjC (cls a) (cls b) = true ∧ AdjOK (b :: t)
  | _ => True

theorem adjOK_append {s1 s2 : List Char} :
    AdjOK (s1 ++ s2) ↔ AdjOK s1 ∧ AdjOK s2 ∧
      ∀ a b, s1.getLast? = some a → s2.head? = some b → adjC (cls a) (cls b) = true := by
  induction s1 with
  | nil => simp [AdjOK]
  | cons x t ih =>
    cases t with
    | nil =>
      cases s2 with
      | nil => simp [AdjOK]
      | cons y u => simp [AdjOK, and_comm]
    | cons y u =>
      simp only [List.cons_append, AdjOK] at ih ⊢
      rw [ih]
      simp [List.getLast?_cons_cons, and_assoc]

/-- an adjacent pair inside an `AdjOK` string is allowed -/
theorem AdjOK.pair {s pre post : List Char} {x y : Char} (h : AdjOK s) (hs : s = pre ++ x :: y :: post) :
    adjC (cls x) (cls y) = true := by
  subst hs
  rw [adjOK_append] at h
  exact h.2.1.1

/-! ### segments -/

/-- a non-empty string whose first class is in `F`, last class in `L`, all classes in `A`, and
    whose adjacent pairs are allowed -/
structure Seg (F L A : List Cls) (s : List Char) : Prop where
  first : ∃ c, s.head? = some c ∧ cls c ∈ F
  last : ∃ c, s.getLast? = some c ∧ cls c ∈ L
  adj : AdjOK s
  alph : ∀ c ∈ s, cls c ∈ A

theorem Seg.ne_nil {F L A s} (h : Seg F L A s) : s ≠ [] := by
  obtain ⟨c, hc, -⟩ := h.first
  intro h0; subst h0; simp at hc

theorem Seg.single (c : Char) : Seg [cls c] [cls c] [cls c] [c] :=
  ⟨⟨c, rfl, by simp⟩, ⟨c, rfl, by simp⟩, trivial, by simp⟩

theorem Seg.weaken {F L A F' L' A' s} (h : Seg F L A s) (hF : ∀ k ∈ F, k ∈ F') (hL : ∀ k ∈ L, k ∈ L')
    (hA : ∀ k ∈ A, k ∈ A') : Seg F' L' A' s := by
  obtain ⟨c, hc, hcF⟩ := h.first
  obtain ⟨d, hd, hdL⟩ := h.last
  exact ⟨⟨c, hc, hF _ hcF⟩, ⟨d, hd, hL _ hdL⟩, h.adj, fun x hx => hA _ (h.alph x hx)⟩

theorem Seg.append {F1 L1 A1 F2 L2 A2 s1 s2} (h1 : Seg F1 L1 A1 s1) (h2 : Seg F2 L2 A2 s2)
    (hadj : ∀ k1 ∈ L1, ∀ k2 ∈ F2, adjC k1 k2 = true) : Seg F1 L2 (A1 ++ A2) (s1 ++ s2) := by
  obtain ⟨c1, hc1, hcF1⟩ := h1.first
  obtain ⟨d1, hd1, hdL1⟩ := h1.last
  obtain ⟨c2, hc2, hcF2⟩ := h2.first
  obtain ⟨d2, hd2, hdL2⟩ := h2.last
  refine ⟨⟨c1, by simp [List.head?_append, hc1], hcF1⟩, ⟨d2, by simp [List.getLast?_append, hd2], hdL2⟩, ?_, ?_⟩
  · rw [adjOK_append]
    refine ⟨h1.adj, h2.adj, ?_⟩
    intro a b ha hb
    rw [hd1] at ha; rw [hc2] at hb
    cases ha; cases hb
    exact hadj _ hdL1 _ hcF2
  · intro x hx
    rw [List.mem_append] at hx ⊢
    exact hx.imp (h1.alph x) (h2.alph x)

/-- a non-empty string of characters of one self-adjacent class -/
theorem Seg.uniform {k : Cls} (hk : adjC k k = true) {s : List Char} (hne : s ≠ [])
    (h : ∀ c ∈ s, cls c = k) : Seg [k] [k] [k] s := by
  induction s with
  | nil => exact absurd rfl hne
  | cons c t ih =>
    have hc : cls c = k := h c (by simp)
    cases t with
    | nil => simpa [hc] using Seg.single c
    | cons d u =>
      have := (Seg.single c).append (ih (by simp) (fun x hx => h x (by simp [hx])))
        (by simpa [hc] using hk)
      simpa using this.weaken (F' := [k]) (L' := [k]) (A' := [k]) (by simp [hc]) (by simp) (by simp [hc])


/-- append, then weaken; all side conditions are closed class-table facts -/
theorem Seg.app {F1 L1 A1 F2 L2 A2 F L A : List Cls} {s1 s2 : List Char}
    (h1 : Seg F1 L1 A1 s1) (h2 : Seg F2 L2 A2 s2)
    (hadj : ∀ k1 ∈ L1, ∀ k2 ∈ F2, adjC k1 k2 = true := by decide)
    (hF : ∀ k ∈ F1, k ∈ F := by decide) (hL : ∀ k ∈ L2, k ∈ L := by decide)
    (hA : ∀ k ∈ A1 ++ A2, k ∈ A := by decide) : Seg F L A (s1 ++ s2) :=
  (h1.append h2 hadj).weaken hF hL hA

theorem Seg.ch (c : Char) (k : Cls) (hk : cls c = k := by decide) : Seg [k] [k] [k] [c] := by
  subst hk; exact Seg.single c

theorem Seg.weak {F L A F' L' A' : List Cls} {s : List Char} (h : Seg F L A s)
    (hF : ∀ k ∈ F, k ∈ F' := by decide) (hL : ∀ k ∈ L, k ∈ L' := by decide)
    (hA : ∀ k ∈ A, k ∈ A' := by decide) : Seg F' L' A' s := h.weaken hF hL hA

/-! ### leaves -/

theorem digits_seg {ds : List Char} (h : Digits ds) : Seg [.digit] [.digit] [.digit] ds :=
  Seg.uniform (by decide) h.1 (fun c hc => cls_digit (h.2 c hc))

theorem name_seg {n : List Char} (h : IsName n) : Seg [.alpha] [.alpha] [.alpha] n :=
  Seg.uniform (by decide) h.1 (fun c hc => cls_alpha (h.2 c hc))

theorem mantissa_seg {m fd : Nat} {ms : List Char} (h : Mantissa m fd ms) :
    Seg [.digit, .dot] [.digit, .dot] [.digit, .dot] ms := by
  cases h with
  | int ip hip => exact (digits_seg hip).weak
  | intDot ip hip => exact (digits_seg hip).app (Seg.ch '.' .dot)
  | intFrac ip fp hip hfp =>
    exact (digits_seg hip).app (s2 := '.' :: fp) ((Seg.ch '.' .dot).app (s2 := fp) (digits_seg hfp) (L := [.digit]) (F := [.dot]) (A := [.dot, .digit]))
  | frac fp hfp => exact (Seg.ch '.' .dot).app (s2 := fp) (digits_seg hfp)

theorem exponent_seg {ev : Int} {es : List Char} (h : Exponent ev es) :
    es = [] ∨ Seg [.alpha] [.digit] [.alpha, .plus, .minus, .digit] es := by
  have hE : ∀ c : Char, (c = 'e' ∨ c = 'E') → cls c = .alpha := by
    rintro c (rfl | rfl) <;> decide
  cases h with
  | none => exact .inl rfl
  | pos c ed hc hed => exact .inr ((Seg.ch c .alpha (hE c hc)).app (s2 := ed) (digits_seg hed))
  | plus c ed hc hed =>
    exact .inr ((Seg.ch c .alpha (hE c hc)).app (s2 := '+' :: ed)
      ((Seg.ch '+' .plus).app (s2 := ed) (digits_seg hed) (F := [.plus]) (L := [.digit]) (A := [.plus, .digit])))
  | minus c ed hc hed =>
    exact .inr ((Seg.ch c .alpha (hE c hc)).app (s2 := '-' :: ed)
      ((Seg.ch '-' .minus).app (s2 := ed) (digits_seg hed) (F := [.minus]) (L := [.digit]) (A := [.minus, .digit])))

theorem alpha_of_lower {c : Char} (h : isAlpha (lower c) = true) : isAlpha c = true := by
  unfold lower at h
  split at h
  · rename_i hc; simp [isAlpha, hc]
  · exact h

theorem tag_seg {pat s : List Char} (hpat : pat ≠ []) (hp : ∀ x ∈ pat, isAlpha x = true)
    (h : s.map lower = pat) : Seg [.alpha] [.alpha] [.alpha] s := by
  refine name_seg ⟨?_, ?_⟩
  · rintro rfl; exact hpat (by simpa using h.symm)
  · intro c hc
    apply alpha_of_lower
    apply hp
    rw [← h]; exact List.mem_map_of_mem hc

/-- first / last / alphabet of a number token -/
theorem numLeaf_seg {t : E} {s : List Char} (h : NumLeaf t s) :
    Seg [.digit, .dot, .plus, .alpha] [.digit, .dot, .alpha] [.digit, .dot, .plus, .minus, .alpha] s := by
  have key : ∀ {m fd ev ms es}, Mantissa m fd ms → Exponent ev es →
      Seg [.digit, .dot] [.digit, .dot] [.digit, .dot, .plus, .minus, .alpha] (ms ++ es) := by
    intro m fd ev ms es hm he
    rcases exponent_seg he with rfl | hes
    · simpa using (mantissa_seg hm).weak
    · exact (mantissa_seg hm).app hes
  cases h with
  | dec m fd ev ms es hm he => exact (key hm he).weak
  | plusDec m fd ev ms es hm he => exact (Seg.ch '+' .plus).app (s2 := ms ++ es) (key hm he)
  | nan s h => exact (tag_seg (by simp) (by decide) h).weak
  | inf s h => exact (tag_seg (by simp) (by decide) h).weak

/-- is the leaf one of the two number words `nan` / `inf`? -/
def isWord : E → Bool
  | .litNan => true
  | .litInf => true
  | _ => false

/-- a decimal literal ends with a digit or a dot, a number word with a letter (this is what the
    guard of `parse_const` tests on the text consumed by `double`) -/
theorem numLeaf_last {t : E} {s : List Char} (h : NumLeaf t s) :
    ∃ c, s.getLast? = some c ∧ isAlpha c = isWord t := by
  have key : ∀ {m fd ev ms es}, Mantissa m fd ms → Exponent ev es →
      Seg [.digit, .dot] [.digit, .dot] [.digit, .dot, .plus, .minus, .alpha] (ms ++ es) := by
    intro m fd ev ms es hm he
    rcases exponent_seg he with rfl | hes
    · simpa using (mantissa_seg hm).weak
    · exact (mantissa_seg hm).app hes
  have notAlpha : ∀ c : Char, cls c ∈ [Cls.digit, Cls.dot] → isAlpha c = false := by
    intro c hc
    cases ha : isAlpha c with
    | false => rfl
    | true => rw [cls_alpha ha] at hc; exact absurd hc (by decide)
  have word : ∀ {pat s : List Char}, pat ≠ [] → (∀ x ∈ pat, isAlpha x = true) → s.map lower = pat →
      ∃ c, s.getLast? = some c ∧ isAlpha c = true := by
    intro pat s hpat hp hs
    cases hl : s.getLast? with
    | none =>
      have : s = [] := by simpa using hl
      subst this
      exact absurd (by simpa using hs.symm) hpat
    | some c =>
      refine ⟨c, rfl, alpha_of_lower (hp _ ?_)⟩
      rw [← hs]; exact List.mem_map_of_mem (List.mem_of_getLast? hl)
  cases h with
  | dec m fd ev ms es hm he =>
    obtain ⟨c, hc, hk⟩ := (key hm he).last
    exact ⟨c, hc, notAlpha c hk⟩
  | plusDec m fd ev ms es hm he =>
    obtain ⟨c, hc, hk⟩ := ((Seg.ch '+' .plus).app (s2 := ms ++ es) (key hm he)
      (F := [.plus]) (L := [.digit, .dot]) (A := [.plus, .digit, .dot, .plus, .minus, .alpha])).last
    exact ⟨c, hc, notAlpha c hk⟩
  | nan s h => exact word (by simp) (by decide) h
  | inf s h => exact word (by simp) (by decide) h

theorem i32_seg {n : Int} {s : List Char} (h : I32Text n s) :
    Seg [.digit, .plus, .minus] [.digit] [.digit, .plus, .minus] s := by
  cases h with
  | pos ds hd _ => exact (digits_seg hd).weak
  | plus ds hd _ => exact (Seg.ch '+' .plus).app (s2 := ds) (digits_seg hd)
  | minus ds hd _ => exact (Seg.ch '-' .minus).app (s2 := ds) (digits_seg hd)


/-! ### the master invariant -/

/-- classes that can start an atom -/
abbrev FA : List Cls := [.lp, .digit, .dot, .plus, .alpha]
/-- classes that can start a term that may carry a unary minus -/
abbrev FT : List Cls := [.minus, .lp, .digit, .dot, .plus, .alpha]
/-- classes that can end an expression -/
abbrev LS : List Cls := [.rp, .digit, .dot, .alpha]
/-- the alphabet -/
abbrev AL : List Cls := [.digit, .dot, .alpha, .plus, .minus, .star, .slash, .caret, .lp, .rp]

abbrev firstSet : Bool → List Cls
  | true => FT
  | false => FA

/-- first class, last class, alphabet and adjacency of a string of the language -/
def Inv (a : Bool) (s : List Char) : Prop := Seg (firstSet a) LS AL s

theorem inv_all {ctx : Ctx} :
    (∀ {t s}, PExpr ctx t s → Inv true s) ∧ (∀ {a t s}, PMul ctx a t s → Inv a s) ∧
    (∀ {a t s}, PTerm ctx a t s → Inv a s) ∧ (∀ {t s}, PPow ctx t s → Inv false s) ∧
    (∀ {t s}, PAtom ctx t s → Inv false s) := by
  apply string_induction (Q := Inv)
  · intro s h; exact Seg.weak h
  · intro t s h; exact (numLeaf_seg h).weak
  · intro n h; exact (name_seg h).weak
  · intro s h
    have h1 : Seg [.lp] LS AL ('(' :: s) := (Seg.ch '(' .lp).app (s2 := s) h
    exact h1.app (Seg.ch ')' .rp)
  · intro n s hn h
    have h1 : Seg [.lp] LS AL ('(' :: s) := (Seg.ch '(' .lp).app (s2 := s) h
    have h2 : Seg [.alpha] LS AL (n ++ '(' :: s) := (name_seg hn).app h1
    exact h2.app (Seg.ch ')' .rp)
  · intro s1 s2 h1 h2
    have h3 : Seg [.caret] LS AL ('^' :: s2) := (Seg.ch '^' .caret).app (s2 := s2) h2
    exact Seg.app h1 h3
  · intro n s1 s2 h1 hi
    have h3 : Seg [.star] [.digit] AL ('*' :: s2) := (Seg.ch '*' .star).app (s2 := s2) (i32_seg hi)
    have h4 : Seg [.star] [.digit] AL ('*' :: '*' :: s2) := (Seg.ch '*' .star).app (s2 := '*' :: s2) h3
    exact Seg.app h1 h4
  · intro s h
    exact (Seg.ch '-' .minus).app (s2 := s) h
  · intro a s1 s2 h1 h2
    have h3 : Seg [.star] LS AL ('*' :: s2) := (Seg.ch '*' .star).app (s2 := s2) h2
    cases a
    · exact Seg.app h1 h3
    · exact Seg.app h1 h3
  · intro a s1 s2 h1 h2
    have h3 : Seg [.slash] LS AL ('/' :: s2) := (Seg.ch '/' .slash).app (s2 := s2) h2
    cases a
    · exact Seg.app h1 h3
    · exact Seg.app h1 h3
  · intro s1 s2 h1 h2
    have h3 : Seg [.plus] LS AL ('+' :: s2) := (Seg.ch '+' .plus).app (s2 := s2) h2
    exact Seg.app h1 h3
  · intro s1 s2 h1 h2
    have h3 : Seg [.minus] LS AL ('-' :: s2) := (Seg.ch '-' .minus).app (s2 := s2) h2
    exact Seg.app h1 h3


/-! ### bracket balance -/

/-- as many '(' as ')' overall, and never more ')' than '(' in a prefix -/
def Bal (s : List Char) : Prop :=
  s.count '(' = s.count ')' ∧ ∀ n, (s.take n).count ')' ≤ (s.take n).count '('

theorem Bal.append {s1 s2 : List Char} (h1 : Bal s1) (h2 : Bal s2) : Bal (s1 ++ s2) := by
  refine ⟨by simp [List.count_append, h1.1, h2.1], fun n => ?_⟩
  rw [List.take_append, List.count_append, List.count_append]
  have a := h1.2 n
  have b := h2.2 (n - s1.length)
  omega

theorem Bal.noParen {s : List Char} (h : ∀ c ∈ s, c ≠ '(' ∧ c ≠ ')') : Bal s := by
  have hz : ∀ l : List Char, (∀ c ∈ l, c ∈ s) → l.count '(' = 0 ∧ l.count ')' = 0 := by
    intro l hl
    constructor
    · rw [List.count_eq_zero]; intro hm; exact (h _ (hl _ hm)).1 rfl
    · rw [List.count_eq_zero]; intro hm; exact (h _ (hl _ hm)).2 rfl
  refine ⟨?_, fun n => ?_⟩
  · have := hz s (fun _ h => h); omega
  · have := hz (s.take n) (fun c hc => List.mem_of_mem_take hc); omega

theorem Bal.paren {s : List Char} (h : Bal s) : Bal ('(' :: s ++ [')']) := by
  refine ⟨?_, fun n => ?_⟩
  · simp [List.count_append, h.1]
  · cases n with
    | zero => simp
    | succ k =>
      simp only [List.cons_append, List.take_succ_cons, List.take_append, List.count_cons,
        List.count_append]
      have a := h.2 k
      have b : ([')'].take (k - s.length)).count ')' ≤ 1 := by
        cases (k - s.length) <;> simp
      have c : ([')'].take (k - s.length)).count '(' = 0 := by
        cases (k - s.length) <;> simp
      simp at *
      omega

theorem Bal.op {c : Char} (h1c : c ≠ '(') (h2c : c ≠ ')') {s1 s2 : List Char} (h1 : Bal s1) (h2 : Bal s2) :
    Bal (s1 ++ c :: s2) := by
  have : Bal [c] := Bal.noParen (by simp [h1c, h2c])
  exact h1.append (this.append h2)

theorem Seg.noParen {F L A : List Cls} {s : List Char} (h : Seg F L A s)
    (hA : Cls.lp ∉ A ∧ Cls.rp ∉ A := by decide) : Bal s := by
  apply Bal.noParen
  intro c hc
  have := h.alph c hc
  constructor
  · rintro rfl; exact hA.1 this
  · rintro rfl; exact hA.2 this

theorem bal_all {ctx : Ctx} :
    (∀ {t s}, PExpr ctx t s → Bal s) ∧ (∀ {a t s}, PMul ctx a t s → Bal s) ∧
    (∀ {a t s}, PTerm ctx a t s → Bal s) ∧ (∀ {t s}, PPow ctx t s → Bal s) ∧
    (∀ {t s}, PAtom ctx t s → Bal s) := by
  apply string_induction (Q := fun _ s => Bal s)
  · intro s h; exact h
  · intro t s h; exact (numLeaf_seg h).noParen
  · intro n h; exact (name_seg h).noParen
  · intro s h; exact h.paren
  · intro n s hn h
    have := (name_seg hn).noParen.append h.paren
    simpa using this
  · intro s1 s2 h1 h2; exact Bal.op (by decide) (by decide) h1 h2
  · intro n s1 s2 h1 hi
    exact Bal.op (by decide) (by decide) h1 (Bal.op (s1 := []) (by decide) (by decide) (Bal.noParen (by simp)) (i32_seg hi).noParen)
  · intro s h; exact Bal.op (s1 := []) (by decide) (by decide) (Bal.noParen (by simp)) h
  · intro a s1 s2 h1 h2; exact Bal.op (by decide) (by decide) h1 h2
  · intro a s1 s2 h1 h2; exact Bal.op (by decide) (by decide) h1 h2
  · intro s1 s2 h1 h2; exact Bal.op (by decide) (by decide) h1 h2
  · intro s1 s2 h1 h2; exact Bal.op (by decide) (by decide) h1 h2


/-! ### the `prints_…` facts -/

variable {ctx : Ctx} {t : E} {s : List Char}

theorem prints_inv (h : Prints ctx t s) : Inv true s := inv_all.1 h

theorem prints_nonempty (h : Prints ctx t s) : s ≠ [] := (prints_inv h).ne_nil

/-- in every prefix there are at least as many '(' as ')', and equally many overall -/
theorem prints_balanced (h : Prints ctx t s) :
    s.count '(' = s.count ')' ∧ ∀ n, (s.take n).count ')' ≤ (s.take n).count '(' := bal_all.1 h

/-- adjacent characters obey the table -/
theorem prints_adjacent (h : Prints ctx t s) {x y : Char} (hxy : [x, y] <:+: s) :
    adjC (cls x) (cls y) = true := by
  obtain ⟨pre, post, rfl⟩ := hxy
  exact (prints_inv h).adj.pair (pre := pre) (post := post) (by simp)

/-- "--" is not a substring -/
theorem prints_no_double_minus (h : Prints ctx t s) : ¬ ['-', '-'] <:+: s := by
  intro hxy
  have := prints_adjacent h hxy
  revert this; decide

/-- the last character is a digit, '.', a letter or ')' -/
theorem prints_last_char (h : Prints ctx t s) :
    ∃ c, s.getLast? = some c ∧ (isDigit c = true ∨ c = '.' ∨ isAlpha c = true ∨ c = ')') := by
  obtain ⟨c, hc, hk⟩ := (prints_inv h).last
  refine ⟨c, hc, ?_⟩
  have := cls_spec c
  revert this hk
  cases cls c <;> simp (config := {decide := true}) <;> intro h <;> simp [h]

/-- … in particular never one of `+ - * / ^ (` -/
theorem prints_last_not_op (h : Prints ctx t s) :
    ∀ c ∈ ['+', '-', '*', '/', '^', '('], s.getLast? ≠ some c := by
  intro c hc hl
  obtain ⟨d, hd, hk⟩ := (prints_inv h).last
  rw [hl] at hd; cases hd
  simp at hc
  rcases hc with rfl | rfl | rfl | rfl | rfl | rfl <;> revert hk <;> decide

/-- the first character is '-', '(', a digit, '.', '+' or a letter -/
theorem prints_first_char (h : Prints ctx t s) :
    ∃ c, s.head? = some c ∧
      (c = '-' ∨ c = '(' ∨ isDigit c = true ∨ c = '.' ∨ c = '+' ∨ isAlpha c = true) := by
  obtain ⟨c, hc, hk⟩ := (prints_inv h).first
  refine ⟨c, hc, ?_⟩
  have := cls_spec c
  revert this hk
  cases cls c <;> simp (config := {decide := true}) <;> intro h <;> simp [h]

/-- … in particular never one of `* / ^ )` -/
theorem prints_first_not_op (h : Prints ctx t s) :
    ∀ c ∈ ['*', '/', '^', ')'], s.head? ≠ some c := by
  intro c hc hl
  obtain ⟨d, hd, hk⟩ := (prints_inv h).first
  rw [hl] at hd; cases hd
  simp at hc
  rcases hc with rfl | rfl | rfl | rfl <;> revert hk <;> decide

/-- no '(' is directly followed by one of `* / ^ )` ("(-" and "(+5" are allowed) -/
theorem prints_no_lp_then_op (h : Prints ctx t s) :
    ∀ y ∈ ['*', '/', '^', ')'], ¬ ['(', y] <:+: s := by
  intro y hy hxy
  have := prints_adjacent h hxy
  simp at hy
  rcases hy with rfl | rfl | rfl | rfl <;> revert this <;> decide

/-- no character of `+ - * / ^ (` is directly followed by '/' or '^', and none of `+ - / ^ (`
    is directly followed by '*' (the only '*' after '*' is the `**` operator) -/
theorem prints_no_op_then_muldivpow (h : Prints ctx t s) :
    (∀ x ∈ ['+', '-', '*', '/', '^', '('], ∀ y ∈ ['/', '^'], ¬ [x, y] <:+: s) ∧
    (∀ x ∈ ['+', '-', '/', '^', '('], ¬ [x, '*'] <:+: s) := by
  constructor
  · intro x hx y hy hxy
    have := prints_adjacent h hxy
    simp at hx hy
    rcases hx with rfl | rfl | rfl | rfl | rfl | rfl <;> rcases hy with rfl | rfl <;> revert this <;> decide
  · intro x hx hxy
    have := prints_adjacent h hxy
    simp at hx
    rcases hx with rfl | rfl | rfl | rfl | rfl <;> revert this <;> decide

/-- nothing but digits, ASCII letters and `. + - * / ^ ( )` occurs -/
theorem prints_alphabet (h : Prints ctx t s) :
    ∀ c ∈ s, isDigit c = true ∨ isAlpha c = true ∨ c ∈ ['.', '+', '-', '*', '/', '^', '(', ')'] := by
  intro c hc
  have hk := (prints_inv h).alph c hc
  have := cls_spec c
  revert this hk
  cases cls c <;> simp (config := {decide := true}) <;> intro h <;> simp [h]

/-- a binary '+' or '-' is never directly followed by '-' (`a+-b`, `a--b`), and "(-" aside, a '-'
    follows only an operand, '(', '*', '/', '^' or an exponent marker -/
theorem prints_no_sign_then_minus (h : Prints ctx t s) :
    ∀ x ∈ ['+', '-'], ¬ [x, '-'] <:+: s := by
  intro x hx hxy
  have := prints_adjacent h hxy
  simp at hx
  rcases hx with rfl | rfl <;> revert this <;> decide


end Cav.Grammar
