/-
  Tiling by the emitted triangles, part 2: membership by the parity of a vertical ray going DOWN
  from a point `q` — the same convention for the even-odd region and for a triangle.

  * `below q p r`: the segment from `p` to `r`, walked from left to right, spans the abscissa of `q`
    strictly and passes strictly below `q`;
  * `beta q`: the antisymmetric weight `+1` / `-1` / `0`;
  * `nBpt R q`: number of ring edges strictly below `q`; `inRegionV R q`: it is odd — `q` lies in
    the even-odd region (for an abscissa that is not a vertex abscissa this is the half-open
    vertical section `lower edge < q.2 ≤ upper edge` of an in-interval);
  * `rayCount q a b c`: number of sides of the triangle `a b c` strictly below `q`;
    `inTriV q t`: it is odd — `q` lies in the triangle (half-open vertical section
    `lower side < q.2 ≤ upper side`);
  * `Generic R q`: the abscissa of `q` is not the abscissa of a vertex.
-/
import Cav.Lemmas.GenOutInDefs

set_option linter.unusedVariables false

namespace Cav.GenOutIn
open Cav Cav.Geo Cav.QuadGeom Cav.CvxEvents Cav.GenInv Cav.MonoGeom

/-- the segment `p → r` (left to right) passes strictly below `q` -/
def below (q p r : Q) : Prop := p.1 < q.1 ∧ q.1 < r.1 ∧ lineY p r q.1 < q.2

instance (q p r : Q) : Decidable (below q p r) := by unfold below; exact inferInstance

/-- the weight "passes below `q`", signed by the direction of the walk -/
def beta (q : Q) : W := fun p r => if below q p r then 1 else if below q r p then -1 else 0

/-- the side `p r` of a triangle passes strictly below `q` -/
def sideBelow (q p r : Q) : Prop := below q p r ∨ below q r p

instance (q p r : Q) : Decidable (sideBelow q p r) := by unfold sideBelow; exact inferInstance

/-- number of sides of the triangle `a b c` strictly below `q` -/
def rayCount (q a b c : Q) : Nat :=
  (if sideBelow q a b then 1 else 0) + (if sideBelow q b c then 1 else 0) + (if sideBelow q c a then 1 else 0)

/-- `q` lies in the triangle `t` (downward ray parity) -/
def inTriV (q : Q) (t : Tri) : Prop := rayCount q (toQ t.1) (toQ t.2.1) (toQ t.2.2) % 2 = 1

instance (q : Q) (t : Tri) : Decidable (inTriV q t) := by unfold inTriV; exact inferInstance

/-- number of ring edges strictly below `q` -/
def nBpt (R : RingQ) (q : Q) : Nat :=
  ((List.range R.n).map fun u =>
    (if below q (R.pt u) (R.pt (R.nxt u)) then 1 else 0) + (if below q (R.pt u) (R.pt (R.prv u)) then 1 else 0)).sum

/-- `q` lies in the even-odd region (downward ray parity) -/
def inRegionV (R : RingQ) (q : Q) : Prop := nBpt R q % 2 = 1

instance (R : RingQ) (q : Q) : Decidable (inRegionV R q) := by unfold inRegionV; exact inferInstance

/-- the abscissa of `q` is not a vertex abscissa -/
def Generic (R : RingQ) (q : Q) : Prop := ∀ v, v < R.n → R.x v ≠ q.1

end Cav.GenOutIn
