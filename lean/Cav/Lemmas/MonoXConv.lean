/-
  The configuration `MConv` of `MonoConv.lean` with the simplicity facts `sB`, `sT` guarded by the
  abscissa `ξ` up to which the sweep has checked them (`MConvX`): the look-ups, the order of the
  pending vertices and the event queue do not depend on simplicity.
-/
import Cav.Lemmas.MonoConv

set_option linter.unusedSimpArgs false
set_option linter.unusedVariables false

namespace Cav.MonoXConv
open Cav Num Cav.Geo Cav.Sweep Cav.SweepRun Cav.TriRun Cav.QuadRun Cav.TriEvents Cav.QuadGeom
open Cav.CvxHeap Cav.CvxEvents Cav.CvxFlows Cav.CvxGeom Cav.CvxLoop Cav.MonoConv

/-- two x-monotone chains with common end points; the top chain is known to lie above the bottom
    chain only as far as the sweep has checked it when it stands at the abscissa `ξ`: the fact
    "`b k` below the spanning top edge `l`" is checked at the later of the vertices `b (k-1)`,
    `t l` (the Bend, or the Start, that creates the later of the two edges involved) -/
structure MConvX (V : Array (Vtx XQ)) (mB mT : Nat) (bi ti : Nat → Nat) (b t : Nat → Rat × Rat)
    (ξ : Rat) : Prop where
  hB : 1 ≤ mB
  hT : 1 ≤ mT
  three : 3 ≤ mB + mT
  p0 : b 0 = t 0
  pR : b mB = t mT
  xB : ∀ k < mB, (b k).1 < (b (k + 1)).1
  xT : ∀ k < mT, (t k).1 < (t (k + 1)).1
  sB : ∀ k l, 0 < k → k < mB → l < mT → (t l).1 < (b k).1 → (b k).1 < (t (l + 1)).1 →
    (b (k - 1)).1 ≤ ξ → (t l).1 ≤ ξ → orient (t l) (t (l + 1)) (b k) < 0
  sT : ∀ l k, 0 < l → l < mT → k < mB → (b k).1 < (t l).1 → (t l).1 < (b (k + 1)).1 →
    (t (l - 1)).1 ≤ ξ → (b k).1 ≤ ξ → 0 < orient (b k) (b (k + 1)) (t l)
  i0 : ti 0 = bi 0
  iR : ti mT = bi mB
  xBT : ∀ i j, 0 < i → i < mB → 0 < j → j < mT → (b i).1 ≠ (t j).1
  vB : ∀ k, k + 1 < mB → ∃ n1 n2, V[bi (k + 1)]? = some ⟨Fq (b (k + 1)), n1, n2⟩ ∧
    Nbrs n1 n2 (bi k) (bi (k + 2))
  vT : ∀ k, k + 1 < mT → ∃ n1 n2, V[ti (k + 1)]? = some ⟨Fq (t (k + 1)), n1, n2⟩ ∧
    Nbrs n1 n2 (ti k) (ti (k + 2))
  vL : ∃ n1 n2, V[bi 0]? = some ⟨Fq (b 0), n1, n2⟩ ∧ Nbrs n1 n2 (bi 1) (ti 1)
  vR : ∃ n1 n2, V[bi mB]? = some ⟨Fq (b mB), n1, n2⟩ ∧ Nbrs n1 n2 (bi (mB - 1)) (ti (mT - 1))

section
variable {V : Array (Vtx XQ)} {mB mT : Nat} {bi ti : Nat → Nat} {b t : Nat → Rat × Rat} {ξ : Rat}

theorem MConvX.xB_lt (h : MConvX V mB mT bi ti b t ξ) : ∀ i j, i < j → j ≤ mB → (b i).1 < (b j).1 :=
  chain_x_lt h.xB
theorem MConvX.xT_lt (h : MConvX V mB mT bi ti b t ξ) : ∀ i j, i < j → j ≤ mT → (t i).1 < (t j).1 :=
  chain_x_lt h.xT

theorem MConvX.lkB (hC : MConvX V mB mT bi ti b t ξ) (k : Nat) (hk : k ≤ mB) :
    ∃ n1 n2, V[bi k]? = some ⟨Fq (b k), n1, n2⟩ := by
  rcases Nat.eq_zero_or_pos k with rfl | hpos
  · obtain ⟨n1, n2, h, -⟩ := hC.vL; exact ⟨n1, n2, h⟩
  · rcases Nat.lt_or_ge k mB with hlt | hge
    · obtain ⟨k', rfl⟩ : ∃ k', k = k' + 1 := ⟨k - 1, by omega⟩
      obtain ⟨n1, n2, h, -⟩ := hC.vB k' hlt; exact ⟨n1, n2, h⟩
    · have : k = mB := by omega
      subst this
      obtain ⟨n1, n2, h, -⟩ := hC.vR; exact ⟨n1, n2, h⟩

theorem MConvX.lkT (hC : MConvX V mB mT bi ti b t ξ) (k : Nat) (hk : k ≤ mT) :
    ∃ n1 n2, V[ti k]? = some ⟨Fq (t k), n1, n2⟩ := by
  rcases Nat.eq_zero_or_pos k with rfl | hpos
  · obtain ⟨n1, n2, h, -⟩ := hC.vL
    rw [hC.i0, ← hC.p0]; exact ⟨n1, n2, h⟩
  · rcases Nat.lt_or_ge k mT with hlt | hge
    · obtain ⟨k', rfl⟩ : ∃ k', k = k' + 1 := ⟨k - 1, by omega⟩
      obtain ⟨n1, n2, h, -⟩ := hC.vT k' hlt; exact ⟨n1, n2, h⟩
    · have : k = mT := by omega
      subst this
      obtain ⟨n1, n2, h, -⟩ := hC.vR
      rw [hC.iR, ← hC.pR]; exact ⟨n1, n2, h⟩

theorem MConvX.xB_le_R (hC : MConvX V mB mT bi ti b t ξ) (i : Nat) (hi : i ≤ mB) : (b i).1 ≤ (b mB).1 := by
  rcases Nat.lt_or_ge i mB with h | h
  · exact le_of_lt (hC.xB_lt i mB h (le_refl _))
  · have : i = mB := by omega
    rw [this]

theorem MConvX.xT_le_R (hC : MConvX V mB mT bi ti b t ξ) (j : Nat) (hj : j ≤ mT) : (t j).1 ≤ (b mB).1 := by
  rw [hC.pR]
  rcases Nat.lt_or_ge j mT with h | h
  · exact le_of_lt (hC.xT_lt j mT h (le_refl _))
  · have : j = mT := by omega
    rw [this]

/-- two pending vertices with the same abscissa are both the rightmost vertex -/
theorem MConvX.pend_x (hC : MConvX V mB mT bi ti b t ξ) (i j : Nat) (hi0 : 0 < i) (hi : i ≤ mB)
    (hj0 : 0 < j) (hj : j ≤ mT) (h : (b i).1 = (t j).1) : i = mB ∧ j = mT := by
  rcases Nat.lt_or_ge i mB with hlt | hge
  · exfalso
    rcases Nat.lt_or_ge j mT with hlt' | hge'
    · exact hC.xBT i j hi0 hlt hj0 hlt' h
    · have : j = mT := by omega
      subst this
      have := hC.xB_lt i mB hlt (le_refl _)
      rw [hC.pR] at this
      linarith
  · have hi' : i = mB := by omega
    refine ⟨hi', ?_⟩
    rcases Nat.lt_or_ge j mT with hlt' | hge'
    · exfalso
      have := hC.xT_lt j mT hlt' (le_refl _)
      rw [hi', hC.pR] at h
      linarith
    · omega

/-! ### the event queue -/

theorem MConvX.queue_B (hC : MConvX V mB mT bi ti b t ξ) (i j : Nat) (hi : i < mB) (hj : j < mT) :
    QueueOK mB mT bi ti b t i j
      (evMerge ((Fq (b (i + 1))).cmp (Fq (t (j + 1)))) (bi (i + 1)) 0 (ti (j + 1)) [1]) := by
  rcases lt_trichotomy (b (i + 1)).1 (t (j + 1)).1 with h | h | h
  · right; left
    rw [cmp_lt_of_x _ _ h]
    exact ⟨h, rfl⟩
  · left
    obtain ⟨e1, e2⟩ := hC.pend_x (i + 1) (j + 1) (by omega) (by omega) (by omega) (by omega) h
    refine ⟨e1, e2, Or.inr ?_⟩
    rw [e1, e2, hC.pR, cmp_self, hC.iR]
    rfl
  · right; right
    rw [cmp_gt_of_x _ _ h]
    exact ⟨h, rfl⟩

theorem MConvX.queue_T (hC : MConvX V mB mT bi ti b t ξ) (i j : Nat) (hi : i < mB) (hj : j < mT) :
    QueueOK mB mT bi ti b t i j
      (evMerge ((Fq (t (j + 1))).cmp (Fq (b (i + 1)))) (ti (j + 1)) 1 (bi (i + 1)) [0]) := by
  rcases lt_trichotomy (b (i + 1)).1 (t (j + 1)).1 with h | h | h
  · right; left
    rw [cmp_gt_of_x _ _ h]
    exact ⟨h, rfl⟩
  · left
    obtain ⟨e1, e2⟩ := hC.pend_x (i + 1) (j + 1) (by omega) (by omega) (by omega) (by omega) h
    refine ⟨e1, e2, Or.inl ?_⟩
    rw [e1, e2, hC.pR, cmp_self]
    rfl
  · right; right
    rw [cmp_lt_of_x _ _ h]
    exact ⟨h, rfl⟩

end

end Cav.MonoXConv
