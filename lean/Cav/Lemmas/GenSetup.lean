/-
  General sweep invariant, part 27: THE SET-UP PHASE on an arbitrary list of polygons in general
  position: it succeeds, builds the vertex ring `vertsOf (cellsAll 0 polys)` and queues exactly
  the Start vertices, sorted by abscissa.
-/
import Cav.Lemmas.GenRing
import Cav.Lemmas.GenQueue
import Cav.Lemmas.CvxSetup

set_option linter.unusedSimpArgs false
set_option linter.unusedVariables false

namespace Cav.GenSetup
open Cav Num Cav.Geo Cav.Sweep Cav.SweepRun Cav.TriRun Cav.QuadRun Cav.QuadGeom Cav.CvxFlows
open Cav.GenNodes Cav.TriEvents Cav.SweepSetup Cav.GenGeom Cav.GenInv Cav.GenQueue Cav.GenRing

variable {R : RingQ}

/-- sorted insertion of the Start vertex `v` -/
def qIns (R : RingQ) (v : Nat) : List (Nat × List Nat) → List (Nat × List Nat)
  | [] => [(v, [])]
  | (k, es) :: rest =>
    if R.x v < R.x k then (v, []) :: (k, es) :: rest else (k, es) :: qIns R v rest

theorem run_insGo (s : St XQ) (v : Nat) : ∀ (evs : List (Nat × List Nat)),
    (∀ a ∈ evs, ∃ c, s.verts[a.1]? = some c ∧ c.p = Fq (R.pt a.1)) → (∀ a ∈ evs, R.x a.1 ≠ R.x v) →
    (eventsInsertStart.go v (Fq (R.pt v)) evs).run s = .ok (qIns R v evs, s)
  | [], _, _ => rfl
  | (k, es) :: rest, hV, hne => by
    obtain ⟨c, hc, hp⟩ : ∃ c, s.verts[k]? = some c ∧ c.p = Fq (R.pt k) := hV (k, es) List.mem_cons_self
    have hk : R.x k ≠ R.x v := hne (k, es) List.mem_cons_self
    unfold eventsInsertStart.go qIns
    simp only [↓run_bind, run_getVtx, hc, hp, run_pure]
    rcases lt_or_gt_of_ne hk with h | h
    · rw [cmp_gt_of_x _ _ h, if_neg (lt_asymm h)]
      simp only [↓run_bind, run_insGo s v rest (fun a ha => hV a (List.mem_cons_of_mem _ ha))
        (fun a ha => hne a (List.mem_cons_of_mem _ ha)), run_pure]
    · rw [cmp_lt_of_x _ _ h, if_pos h]
      rfl

theorem run_insStart (s : St XQ) (v : Nat) (c : Vtx XQ) (hv : s.verts[v]? = some c)
    (hp : c.p = Fq (R.pt v))
    (hV : ∀ a ∈ s.events, ∃ c, s.verts[a.1]? = some c ∧ c.p = Fq (R.pt a.1))
    (hne : ∀ a ∈ s.events, R.x a.1 ≠ R.x v) :
    (eventsInsertStart v).run s = .ok ((), { s with events := qIns R v s.events }) := by
  unfold eventsInsertStart
  simp only [↓run_bind, run_get, run_getVtx, hv, hp, run_insGo s v s.events hV hne, run_modify, run_pure]

theorem mem_qIns (v : Nat) : ∀ (evs : List (Nat × List Nat)) (a : Nat × List Nat),
    a ∈ qIns R v evs ↔ a = (v, []) ∨ a ∈ evs
  | [], a => by simp [qIns]
  | (k, es) :: rest, a => by
    unfold qIns
    split
    · simp
    · simp only [List.mem_cons, mem_qIns v rest a]
      constructor
      · rintro (h | h | h)
        · exact Or.inr (Or.inl h)
        · exact Or.inl h
        · exact Or.inr (Or.inr h)
      · rintro (h | h | h)
        · exact Or.inr (Or.inl h)
        · exact Or.inl h
        · exact Or.inr (Or.inr h)

theorem sorted_qIns (v : Nat) : ∀ (evs : List (Nat × List Nat)), SortedQ R evs →
    (∀ a ∈ evs, R.x a.1 ≠ R.x v) → SortedQ R (qIns R v evs)
  | [], _, _ => by simp [qIns, SortedQ]
  | (k, es) :: rest, hs, hne => by
    unfold qIns
    have hs' := List.pairwise_cons.mp hs
    split
    · rename_i hlt
      refine List.pairwise_cons.mpr ⟨?_, hs⟩
      intro b hb
      rcases List.mem_cons.mp hb with rfl | hb
      · exact hlt
      · exact lt_trans hlt (hs'.1 b hb)
    · rename_i hnlt
      have hkv : R.x k < R.x v :=
        lt_of_le_of_ne (not_lt.mp hnlt) (hne (k, es) List.mem_cons_self)
      refine List.pairwise_cons.mpr ⟨?_, sorted_qIns v rest hs'.2
        (fun a ha => hne a (List.mem_cons_of_mem _ ha))⟩
      intro b hb
      rcases (mem_qIns v rest b).mp hb with rfl | hb
      · exact hkv
      · exact hs'.1 b hb


/-- one iteration of the set-up loop at a Start vertex, the queue being arbitrary -/
theorem sb_startG (poly : Array (Pt XQ)) (n base i : Nat) (seen : List (Pt XQ)) (s : St XQ)
    (hv : validPt seen (poly.getD i dummyPt) = .ok (poly.getD i dummyPt :: seen))
    (hk : fromTriplet (poly.getD i dummyPt) (poly.getD ((i + n - 1) % n) dummyPt)
      (poly.getD ((i + 1) % n) dummyPt) = some .start)
    (hpt : poly.getD i dummyPt = Fq (R.pt (base + i))) (hsz : s.verts.size = base + i)
    (hV : ∀ a ∈ s.events, ∃ c, s.verts[a.1]? = some c ∧ c.p = Fq (R.pt a.1))
    (hne : ∀ a ∈ s.events, R.x a.1 ≠ R.x (base + i)) :
    (setupBody poly n base i seen).run s = .ok (.yield (poly.getD i dummyPt :: seen),
      { s with verts := s.verts.push ⟨poly.getD i dummyPt, base + (i + n - 1) % n, base + (i + 1) % n⟩,
               events := qIns R (base + i) s.events }) := by
  unfold setupBody
  generalize poly.getD ((i + n - 1) % n) dummyPt = prevP at *
  generalize poly.getD ((i + 1) % n) dummyPt = nextP at *
  generalize poly.getD i dummyPt = pt at *
  simp only [hv, hk, ↓run_bind, run_modify]
  rw [run_insStart (R := R)
    { s with verts := s.verts.push ⟨pt, base + (i + n - 1) % n, base + (i + 1) % n⟩ } (base + i) ⟨pt, base + (i + n - 1) % n, base + (i + 1) % n⟩
    (by show (s.verts.push _)[base + i]? = _; rw [← hsz, Array.getElem?_push_size]) hpt ?_ hne]
  · rfl
  · intro a ha
    obtain ⟨c, hc, hp⟩ := hV a ha
    refine ⟨c, ?_, hp⟩
    show (s.verts.push _)[a.1]? = _
    rw [Array.getElem?_push, if_neg (by have := lt_of_get' hc; omega)]
    exact hc


/-! ### the invariant of the set-up phase -/

/-- the state of the set-up phase after `g` vertices -/
def stS (C : List Cell) (g : Nat) (evs : List (Nat × List Nat)) : St XQ := stQ (vertsOf (C.take g)) evs

/-- the queue after `g` vertices: the Start vertices among them, sorted by abscissa -/
structure EvI (R : RingQ) (g : Nat) (evs : List (Nat × List Nat)) : Prop where
  sorted : SortedQ R evs
  keys : ∀ a ∈ evs, a.1 < g ∧ a.2 = []
  starts : ∀ v, v < g → IsStart R v → (v, []) ∈ evs

/-- the points seen after `g` vertices -/
def SeenOK (R : RingQ) (g : Nat) (seen : List (Pt XQ)) : Prop := ∀ q ∈ seen, ∃ j, j < g ∧ q = Fq (R.pt j)

theorem vertsOf_size (C : List Cell) : (vertsOf C).size = C.length := by simp [vertsOf]

theorem vertsOf_take_succ (C : List Cell) {g : Nat} {c : Cell} (h : C[g]? = some c) :
    (vertsOf (C.take g)).push (toVtx c) = vertsOf (C.take (g + 1)) := by
  simp [vertsOf, List.take_add_one, h]

theorem mod_next_ne_self {m i : Nat} (hm : 3 ≤ m) (hi : i < m) : (i + 1) % m ≠ i := by
  by_cases h : i + 1 < m
  · rw [Nat.mod_eq_of_lt h]; omega
  · have h' : i + 1 = m := by omega
    rw [h', Nat.mod_self]; omega

theorem getD_map_Fq (poly : Array Q) {j : Nat} (hj : j < poly.size) :
    (poly.map Fq).getD j dummyPt = Fq (poly.getD j (0, 0)) := by
  simp [Array.getD, hj]

/-- **one iteration of the set-up loop keeps the invariant** -/
theorem setup_step {C Cd Cr : List Cell} {poly : Array Q}
    (hC : C = Cd ++ cellsOf Cd.length poly ++ Cr) (h3 : 3 ≤ poly.size)
    (hdist : ∀ i j, i < C.length → j < C.length → (ringOfCells C).x i = (ringOfCells C).x j → i = j)
    {i : Nat} (hi : i < poly.size) {seen : List (Pt XQ)} {evs : List (Nat × List Nat)}
    (hE : EvI (ringOfCells C) (Cd.length + i) evs) (hS : SeenOK (ringOfCells C) (Cd.length + i) seen) :
    ∃ evs', (setupBody (poly.map Fq) poly.size Cd.length i seen).run (stS C (Cd.length + i) evs) =
        .ok (.yield (Fq ((ringOfCells C).pt (Cd.length + i)) :: seen), stS C (Cd.length + i + 1) evs') ∧
      EvI (ringOfCells C) (Cd.length + i + 1) evs' := by
  have hm0 : 0 < poly.size := by omega
  obtain ⟨e1, e2, e3, hle⟩ := block_facts hC hi
  have hjp := Nat.mod_lt (i + poly.size - 1) hm0
  have hjn := Nat.mod_lt (i + 1) hm0
  obtain ⟨p1, -, -, -⟩ := block_facts hC hjp
  obtain ⟨n1, -, -, -⟩ := block_facts hC hjn
  have hgl : Cd.length + i < C.length := by omega
  have hpt : (poly.map Fq).getD i dummyPt = Fq ((ringOfCells C).pt (Cd.length + i)) := by
    rw [getD_map_Fq _ hi, e1]
  have hprev : (poly.map Fq).getD ((i + poly.size - 1) % poly.size) dummyPt =
      Fq ((ringOfCells C).pt ((ringOfCells C).prv (Cd.length + i))) := by
    rw [getD_map_Fq _ hjp, e2, p1]
  have hnext : (poly.map Fq).getD ((i + 1) % poly.size) dummyPt =
      Fq ((ringOfCells C).pt ((ringOfCells C).nxt (Cd.length + i))) := by
    rw [getD_map_Fq _ hjn, e3, n1]
  have hxp : (ringOfCells C).x ((ringOfCells C).prv (Cd.length + i)) ≠ (ringOfCells C).x (Cd.length + i) := by
    intro e
    have := hdist _ _ (by rw [e2]; omega) hgl e
    rw [e2] at this
    exact mod_prev_ne_self h3 hi (by omega)
  have hxn : (ringOfCells C).x ((ringOfCells C).nxt (Cd.length + i)) ≠ (ringOfCells C).x (Cd.length + i) := by
    intro e
    have := hdist _ _ (by rw [e3]; omega) hgl e
    rw [e3] at this
    exact mod_next_ne_self h3 hi (by omega)
  have hv : validPt seen ((poly.map Fq).getD i dummyPt) = .ok ((poly.map Fq).getD i dummyPt :: seen) := by
    refine (validPt_ok_iff _ _ _).mpr ⟨by rw [hpt]; rfl, ?_, rfl⟩
    intro q hq
    obtain ⟨j, hj, rfl⟩ := hS q hq
    rw [hpt, Geo.Pt.eq_fin]
    simp only [decide_eq_false_iff_not, not_and]
    intro h
    have := hdist j _ (by omega) hgl h
    omega
  have hcell := cell_at hC hi
  have hpush : (vertsOf (C.take (Cd.length + i))).push
      ⟨(poly.map Fq).getD i dummyPt, Cd.length + (i + poly.size - 1) % poly.size,
        Cd.length + (i + 1) % poly.size⟩ = vertsOf (C.take (Cd.length + i + 1)) := by
    rw [← vertsOf_take_succ C hcell, getD_map_Fq _ hi]
    rfl
  have hne : ∀ a ∈ evs, (ringOfCells C).x a.1 ≠ (ringOfCells C).x (Cd.length + i) := by
    intro a ha e
    have h1 := (hE.keys a ha).1
    have := hdist a.1 _ (by omega) hgl e
    omega
  by_cases hst : IsStart (ringOfCells C) (Cd.length + i)
  · -- a Start vertex
    refine ⟨qIns (ringOfCells C) (Cd.length + i) evs, ?_, ?_, ?_, ?_⟩
    · have hk : fromTriplet ((poly.map Fq).getD i dummyPt)
          ((poly.map Fq).getD ((i + poly.size - 1) % poly.size) dummyPt)
          ((poly.map Fq).getD ((i + 1) % poly.size) dummyPt) = some .start := by
        rw [hpt, hprev, hnext]
        exact ft_start _ _ _ hst.1 hst.2
      rw [sb_startG (R := ringOfCells C) (poly.map Fq) poly.size Cd.length i seen _ hv hk hpt
        (by show (vertsOf _).size = _; rw [vertsOf_size, List.length_take]; omega) ?_ hne]
      · rw [hpt]
        show Except.ok (_, ({ stS C (Cd.length + i) evs with
          verts := (vertsOf (C.take (Cd.length + i))).push _, events := _ } : St XQ)) = _
        rw [← hpt, hpush]
        rfl
      · intro a ha
        have h1 : a.1 < Cd.length + i := (hE.keys a ha).1
        have h2 : a.1 < (C.take (Cd.length + i)).length := by rw [List.length_take]; omega
        have h3 : (C.take (Cd.length + i))[a.1]? = C[a.1]? := List.getElem?_take_of_lt h1
        have h4 : C[a.1]? = some C[a.1] := List.getElem?_eq_getElem (by omega)
        refine ⟨toVtx C[a.1], ?_, ?_⟩
        · show (vertsOf _)[a.1]? = _
          unfold vertsOf
          rw [List.getElem?_toArray, List.getElem?_map, h3, h4]
          rfl
        · show Fq _ = _
          rw [(ring_cell h4).1]
    · exact sorted_qIns _ _ hE.sorted hne
    · intro a ha
      rcases (mem_qIns _ _ a).mp ha with rfl | ha
      · exact ⟨by show Cd.length + i < _; omega, rfl⟩
      · exact ⟨by have := (hE.keys a ha).1; omega, (hE.keys a ha).2⟩
    · intro v hv' hs
      rcases Nat.lt_succ_iff_lt_or_eq.mp hv' with h | rfl
      · exact (mem_qIns _ _ _).mpr (Or.inr (hE.starts v h hs))
      · exact (mem_qIns _ _ _).mpr (Or.inl rfl)
  · -- a Bend or an End vertex
    obtain ⟨k, hk, hks⟩ : ∃ k, fromTriplet ((poly.map Fq).getD i dummyPt)
        ((poly.map Fq).getD ((i + poly.size - 1) % poly.size) dummyPt)
        ((poly.map Fq).getD ((i + 1) % poly.size) dummyPt) = some k ∧ k ≠ .start := by
      rw [hpt, hprev, hnext]
      rcases lt_or_gt_of_ne hxp with h0 | h0 <;> rcases lt_or_gt_of_ne hxn with h1 | h1
      · exact ⟨_, ft_end _ _ _ h0 h1, by simp⟩
      · exact ⟨_, (ft_bend _ _ _ h0 h1).1, by simp⟩
      · exact ⟨_, (ft_bend _ _ _ h1 h0).2, by simp⟩
      · exact absurd ⟨h0, h1⟩ hst
    refine ⟨evs, ?_, hE.sorted, ?_, ?_⟩
    · rw [(sb_other (poly.map Fq) poly.size Cd.length i seen _ k hv hk hks).run, hpt]
      show Except.ok (_, ({ stS C (Cd.length + i) evs with
        verts := (vertsOf (C.take (Cd.length + i))).push _ } : St XQ)) = _
      rw [← hpt, hpush]
      rfl
    · intro a ha
      exact ⟨by have := (hE.keys a ha).1; omega, (hE.keys a ha).2⟩
    · intro v hv' hs
      rcases Nat.lt_succ_iff_lt_or_eq.mp hv' with h | rfl
      · exact hE.starts v h hs
      · exact absurd hs hst


/-- the vertex loop of one polygon -/
theorem setup_poly_loop {C Cd Cr : List Cell} {poly : Array Q}
    (hC : C = Cd ++ cellsOf Cd.length poly ++ Cr) (h3 : 3 ≤ poly.size)
    (hdist : ∀ i j, i < C.length → j < C.length → (ringOfCells C).x i = (ringOfCells C).x j → i = j) :
    ∀ (k i : Nat), i + k = poly.size → ∀ (seen : List (Pt XQ)) (evs : List (Nat × List Nat)),
      EvI (ringOfCells C) (Cd.length + i) evs → SeenOK (ringOfCells C) (Cd.length + i) seen →
      ∃ seen' evs', (forIn (List.range' i k 1) seen (setupBody (poly.map Fq) poly.size Cd.length)).run
          (stS C (Cd.length + i) evs) = .ok (seen', stS C (Cd.length + poly.size) evs') ∧
        EvI (ringOfCells C) (Cd.length + poly.size) evs' ∧
        SeenOK (ringOfCells C) (Cd.length + poly.size) seen' := by
  intro k
  induction k with
  | zero =>
    intro i hi seen evs hE hS
    have : i = poly.size := by omega
    subst this
    exact ⟨seen, evs, rfl, hE, hS⟩
  | succ k ih =>
    intro i hi seen evs hE hS
    have hin : i < poly.size := by omega
    obtain ⟨evs1, hrun, hE1⟩ := setup_step hC h3 hdist hin hE hS
    have hS1 : SeenOK (ringOfCells C) (Cd.length + (i + 1))
        (Fq ((ringOfCells C).pt (Cd.length + i)) :: seen) := by
      intro q hq
      rcases List.mem_cons.mp hq with rfl | hq
      · exact ⟨Cd.length + i, by omega, rfl⟩
      · obtain ⟨j, hj, e⟩ := hS q hq
        exact ⟨j, by omega, e⟩
    obtain ⟨seen', evs', hl, hE', hS'⟩ := ih (i + 1) (by omega) _ evs1 hE1 hS1
    refine ⟨seen', evs', ?_, hE', hS'⟩
    rw [List.range'_succ, forIn_cons_run, hrun]
    exact hl

/-- the polygon loop -/
theorem setup_polys {C : List Cell}
    (hdist : ∀ i j, i < C.length → j < C.length → (ringOfCells C).x i = (ringOfCells C).x j → i = j) :
    ∀ (rest : List (Array Q)) (Cd : List Cell), C = Cd ++ cellsAll Cd.length rest →
      (∀ p ∈ rest, 3 ≤ p.size) → ∀ (seen : List (Pt XQ)) (evs : List (Nat × List Nat)),
      EvI (ringOfCells C) Cd.length evs → SeenOK (ringOfCells C) Cd.length seen →
      ∃ seen' evs', (forIn (rest.map (fun p => p.map Fq)) seen polyBody).run (stS C Cd.length evs) =
          .ok (seen', stS C C.length evs') ∧ EvI (ringOfCells C) C.length evs'
  | [], Cd, hC, _, seen, evs, hE, _ => by
    have : C.length = Cd.length := by rw [hC]; simp [cellsAll]
    rw [this]
    exact ⟨seen, evs, rfl, hE⟩
  | p :: r, Cd, hC, h3, seen, evs, hE, hS => by
    have hC1 : C = Cd ++ cellsOf Cd.length p ++ cellsAll (Cd.length + p.size) r := by
      rw [hC]; simp [cellsAll]
    have hp3 := h3 p List.mem_cons_self
    obtain ⟨seen1, evs1, hl, hE1, hS1⟩ := setup_poly_loop hC1 hp3 hdist p.size 0 (by omega) seen evs hE hS
    have hlen : (Cd ++ cellsOf Cd.length p).length = Cd.length + p.size := by
      simp [cellsOf_length]
    have hC2 : C = (Cd ++ cellsOf Cd.length p) ++ cellsAll (Cd ++ cellsOf Cd.length p).length r := by
      rw [hlen]; exact hC1
    obtain ⟨seen', evs', hl2, hE2⟩ := setup_polys hdist r (Cd ++ cellsOf Cd.length p) hC2
      (fun q hq => h3 q (List.mem_cons_of_mem _ hq)) seen1 evs1 (by rw [hlen]; exact hE1)
      (by rw [hlen]; exact hS1)
    refine ⟨seen', evs', ?_, hE2⟩
    rw [List.map_cons, forIn_cons_run]
    have hb : (polyBody (p.map Fq) seen).run (stS C Cd.length evs) =
        .ok (.yield seen1, stS C (Cd.length + p.size) evs1) := by
      unfold polyBody
      rw [run_bind, setupPolygon_eq]
      have hsz : (stS C Cd.length evs).verts.size = Cd.length := by
        show (vertsOf _).size = _
        rw [vertsOf_size, List.length_take]
        have : Cd.length ≤ C.length := by rw [hC]; simp
        omega
      have h3' : ¬ (p.map Fq).size < 3 := by rw [Array.size_map]; omega
      rw [if_neg h3', hsz, Array.size_map]
      have := hl
      rw [Nat.add_zero] at this
      rw [this]
      rfl
    rw [hb]
    rw [hlen] at hl2
    exact hl2

/-- **the set-up phase on a valid polygon list** -/
theorem setup_all (polys : List (Array Q)) (h3 : ∀ p ∈ polys, 3 ≤ p.size)
    (hx : ((polys.flatMap Array.toList).map (·.1)).Nodup) :
    ∃ seen evs, (forIn (polys.map (fun p => p.map Fq)) ([] : List (Pt XQ)) polyBody).run (initSt : St XQ) =
        .ok (seen, stQ (vertsOf (cellsAll 0 polys)) evs) ∧
      EvI (ringOf polys) (cellsAll 0 polys).length evs := by
  have hR := ringOK polys h3 hx
  obtain ⟨seen, evs, hl, hE⟩ := setup_polys (C := cellsAll 0 polys)
    (fun i j hi hj e => hR.distinct i j hi hj e) polys [] rfl h3 [] []
    ⟨List.Pairwise.nil, fun a ha => (by cases ha), fun v hv => (by cases hv)⟩ (fun q hq => (by cases hq))
  refine ⟨seen, evs, ?_, hE⟩
  have e1 : (initSt : St XQ) = stS (cellsAll 0 polys) ([] : List Cell).length [] := rfl
  have e2 : stS (cellsAll 0 polys) (cellsAll 0 polys).length evs = stQ (vertsOf (cellsAll 0 polys)) evs := by
    unfold stS; rw [List.take_length]
  rw [e1, hl, e2]

end Cav.GenSetup
