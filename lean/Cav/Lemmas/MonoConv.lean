/-
  The configuration of a simple x-monotone polygon in general position for the event loop: the
  vertex ring restricted to the bottom chain `b 0 … b mB` and the top chain `t 0 … t mT`
  (`MConv`), with simplicity stated vertex-against-spanning-edge (`sB`, `sT`); look-ups, the order
  of the pending vertices and the event queue (as for `Conv` in `CvxLoop.lean`).
-/
import Cav.Lemmas.CvxLoop

set_option linter.unusedSimpArgs false
set_option linter.unusedVariables false

namespace Cav.MonoConv
open Cav Num Cav.Geo Cav.Sweep Cav.SweepRun Cav.TriRun Cav.QuadRun Cav.TriEvents Cav.QuadGeom
open Cav.CvxHeap Cav.CvxEvents Cav.CvxFlows Cav.CvxGeom Cav.CvxLoop

/-- two x-monotone chains with common end points, the top chain strictly above the bottom chain:
    every interior vertex of a chain lies strictly on the inner side of the edge of the other
    chain that spans its abscissa -/
structure MConv (V : Array (Vtx XQ)) (mB mT : Nat) (bi ti : Nat → Nat) (b t : Nat → Rat × Rat) :
    Prop where
  hB : 1 ≤ mB
  hT : 1 ≤ mT
  three : 3 ≤ mB + mT
  p0 : b 0 = t 0
  pR : b mB = t mT
  xB : ∀ k < mB, (b k).1 < (b (k + 1)).1
  xT : ∀ k < mT, (t k).1 < (t (k + 1)).1
  sB : ∀ k l, 0 < k → k < mB → l < mT → (t l).1 < (b k).1 → (b k).1 < (t (l + 1)).1 →
    orient (t l) (t (l + 1)) (b k) < 0
  sT : ∀ l k, 0 < l → l < mT → k < mB → (b k).1 < (t l).1 → (t l).1 < (b (k + 1)).1 →
    0 < orient (b k) (b (k + 1)) (t l)
  i0 : ti 0 = bi 0
  iR : ti mT = bi mB
  xBT : ∀ i j, 0 < i → i < mB → 0 < j → j < mT → (b i).1 ≠ (t j).1
  vB : ∀ k, k + 1 < mB → ∃ n1 n2, V[bi (k + 1)]? = some ⟨Fq (b (k + 1)), n1, n2⟩ ∧
    Nbrs n1 n2 (bi k) (bi (k + 2))
  vT : ∀ k, k + 1 < mT → ∃ n1 n2, V[ti (k + 1)]? = some ⟨Fq (t (k + 1)), n1, n2⟩ ∧
    Nbrs n1 n2 (ti k) (ti (k + 2))
  vL : ∃ n1 n2, V[bi 0]? = some ⟨Fq (b 0), n1, n2⟩ ∧ Nbrs n1 n2 (bi 1) (ti 1)
  vR : ∃ n1 n2, V[bi mB]? = some ⟨Fq (b mB), n1, n2⟩ ∧ Nbrs n1 n2 (bi (mB - 1)) (ti (mT - 1))

section
variable {V : Array (Vtx XQ)} {mB mT : Nat} {bi ti : Nat → Nat} {b t : Nat → Rat × Rat}

theorem MConv.xB_lt (h : MConv V mB mT bi ti b t) : ∀ i j, i < j → j ≤ mB → (b i).1 < (b j).1 :=
  chain_x_lt h.xB
theorem MConv.xT_lt (h : MConv V mB mT bi ti b t) : ∀ i j, i < j → j ≤ mT → (t i).1 < (t j).1 :=
  chain_x_lt h.xT

theorem MConv.lkB (hC : MConv V mB mT bi ti b t) (k : Nat) (hk : k ≤ mB) :
    ∃ n1 n2, V[bi k]? = some ⟨Fq (b k), n1, n2⟩ := by
  rcases Nat.eq_zero_or_pos k with rfl | hpos
  · obtain ⟨n1, n2, h, -⟩ := hC.vL; exact ⟨n1, n2, h⟩
  · rcases Nat.lt_or_ge k mB with hlt | hge
    · obtain ⟨k', rfl⟩ : ∃ k', k = k' + 1 := ⟨k - 1, by omega⟩
      obtain ⟨n1, n2, h, -⟩ := hC.vB k' hlt; exact ⟨n1, n2, h⟩
    · have : k = mB := by omega
      subst this
      obtain ⟨n1, n2, h, -⟩ := hC.vR; exact ⟨n1, n2, h⟩

theorem MConv.lkT (hC : MConv V mB mT bi ti b t) (k : Nat) (hk : k ≤ mT) :
    ∃ n1 n2, V[ti k]? = some ⟨Fq (t k), n1, n2⟩ := by
  rcases Nat.eq_zero_or_pos k with rfl | hpos
  · obtain ⟨n1, n2, h, -⟩ := hC.vL
    rw [hC.i0, ← hC.p0]; exact ⟨n1, n2, h⟩
  · rcases Nat.lt_or_ge k mT with hlt | hge
    · obtain ⟨k', rfl⟩ : ∃ k', k = k' + 1 := ⟨k - 1, by omega⟩
      obtain ⟨n1, n2, h, -⟩ := hC.vT k' hlt; exact ⟨n1, n2, h⟩
    · have : k = mT := by omega
      subst this
      obtain ⟨n1, n2, h, -⟩ := hC.vR
      rw [hC.iR, ← hC.pR]; exact ⟨n1, n2, h⟩

theorem MConv.xB_le_R (hC : MConv V mB mT bi ti b t) (i : Nat) (hi : i ≤ mB) : (b i).1 ≤ (b mB).1 := by
  rcases Nat.lt_or_ge i mB with h | h
  · exact le_of_lt (hC.xB_lt i mB h (le_refl _))
  · have : i = mB := by omega
    rw [this]

theorem MConv.xT_le_R (hC : MConv V mB mT bi ti b t) (j : Nat) (hj : j ≤ mT) : (t j).1 ≤ (b mB).1 := by
  rw [hC.pR]
  rcases Nat.lt_or_ge j mT with h | h
  · exact le_of_lt (hC.xT_lt j mT h (le_refl _))
  · have : j = mT := by omega
    rw [this]

/-- two pending vertices with the same abscissa are both the rightmost vertex -/
theorem MConv.pend_x (hC : MConv V mB mT bi ti b t) (i j : Nat) (hi0 : 0 < i) (hi : i ≤ mB)
    (hj0 : 0 < j) (hj : j ≤ mT) (h : (b i).1 = (t j).1) : i = mB ∧ j = mT := by
  rcases Nat.lt_or_ge i mB with hlt | hge
  · exfalso
    rcases Nat.lt_or_ge j mT with hlt' | hge'
    · exact hC.xBT i j hi0 hlt hj0 hlt' h
    · have : j = mT := by omega
      subst this
      have := hC.xB_lt i mB hlt (le_refl _)
      rw [hC.pR] at this
      linarith
  · have hi' : i = mB := by omega
    refine ⟨hi', ?_⟩
    rcases Nat.lt_or_ge j mT with hlt' | hge'
    · exfalso
      have := hC.xT_lt j mT hlt' (le_refl _)
      rw [hi', hC.pR] at h
      linarith
    · omega

/-! ### the event queue -/

theorem MConv.queue_B (hC : MConv V mB mT bi ti b t) (i j : Nat) (hi : i < mB) (hj : j < mT) :
    QueueOK mB mT bi ti b t i j
      (evMerge ((Fq (b (i + 1))).cmp (Fq (t (j + 1)))) (bi (i + 1)) 0 (ti (j + 1)) [1]) := by
  rcases lt_trichotomy (b (i + 1)).1 (t (j + 1)).1 with h | h | h
  · right; left
    rw [cmp_lt_of_x _ _ h]
    exact ⟨h, rfl⟩
  · left
    obtain ⟨e1, e2⟩ := hC.pend_x (i + 1) (j + 1) (by omega) (by omega) (by omega) (by omega) h
    refine ⟨e1, e2, Or.inr ?_⟩
    rw [e1, e2, hC.pR, cmp_self, hC.iR]
    rfl
  · right; right
    rw [cmp_gt_of_x _ _ h]
    exact ⟨h, rfl⟩

theorem MConv.queue_T (hC : MConv V mB mT bi ti b t) (i j : Nat) (hi : i < mB) (hj : j < mT) :
    QueueOK mB mT bi ti b t i j
      (evMerge ((Fq (t (j + 1))).cmp (Fq (b (i + 1)))) (ti (j + 1)) 1 (bi (i + 1)) [0]) := by
  rcases lt_trichotomy (b (i + 1)).1 (t (j + 1)).1 with h | h | h
  · right; left
    rw [cmp_gt_of_x _ _ h]
    exact ⟨h, rfl⟩
  · left
    obtain ⟨e1, e2⟩ := hC.pend_x (i + 1) (j + 1) (by omega) (by omega) (by omega) (by omega) h
    refine ⟨e1, e2, Or.inl ?_⟩
    rw [e1, e2, hC.pR, cmp_self]
    rfl
  · right; right
    rw [cmp_lt_of_x _ _ h]
    exact ⟨h, rfl⟩

end

end Cav.MonoConv
