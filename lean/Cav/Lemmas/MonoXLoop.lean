/-
  (X2) The failing Bend from the canonical state with a back-chain of arbitrary length, and from
  the invariant `MInv`: `failB`, `failT`.
-/
import Cav.Lemmas.MonoXFail
import Cav.Lemmas.MonoXStep

set_option linter.unusedSimpArgs false
set_option linter.unusedVariables false

namespace Cav.MonoXLoop
open Cav Num Cav.Geo Cav.Sweep Cav.SweepRun Cav.TriRun Cav.QuadRun Cav.TriEvents Cav.QuadGeom
open Cav.CvxHeap Cav.CvxEvents Cav.CvxFlows Cav.CvxGeom Cav.CvxLoop Cav.MonoHeap Cav.MonoGeom
open Cav.MonoFan Cav.MonoXConv Cav.MonoFlows Cav.MonoInv Cav.MonoXFail
open Cav.MonoRun (Seg.get SegR.get last_mem_suffix hp_mem fan_pts)
open Cav.MonoStep (MInv OutOK mem_pts stop_x)

section
variable {V : Array (Vtx XQ)} {mB mT : Nat} {bi ti : Nat → Nat} {b t : Nat → Rat × Rat} {ξ : Rat}

/-- the failing Bend on the bottom chain, the back-chain given in the head view -/
theorem bottom_fail_run (hC : MConvX V mB mT bi ti b t ξ) {i j : Nat} (hi1 : i + 1 < mB) (hj : j < mT)
    (xs : Rat) (N : Array (Node XQ)) (rm iB iT : Nat) (out : List Tri)
    (x2 : (t j).1 ≤ xs) (x3 : xs < (b (i + 1)).1) (hlt : (b (i + 1)).1 < (t (j + 1)).1)
    (hbad : ((b (i + 2)).1 < (t (j + 1)).1 ∧ 0 < orient (t j) (t (j + 1)) (b (i + 2))) ∨
      ((t (j + 1)).1 < (b (i + 2)).1 ∧ orient (b (i + 1)) (b (i + 2)) (t (j + 1)) < 0))
    (LH r0 : List (Nat × Q)) (hfirst : LH = (iB, b i) :: r0)
    (hlast : LH.getLast? = some (iT, t j))
    (hseg : Seg N none (hp LH) none) (hnd : (LH.map Prod.fst).Nodup) (hlen : LH.length ≤ N.size)
    {mid : List (Nat × Q)} {g : Nat × Q} {rest : List (Nat × Q)} (hs : LH = mid ++ g :: rest)
    (hfan : FanQ 1 (b (i + 1)) ((mid ++ [g]).map Prod.snd))
    (hstop : ∀ h r, rest = h :: r → ¬ (1 : Rat) * orient (b (i + 1)) g.2 h.2 < 0)
    (hxg : (b (i + 1)).1 ≠ g.2.1) (hxh : ∀ h r, rest = h :: r → g.2.1 ≠ h.2.1) :
    Runs (stC V (.fin xs) N rm iB iT (Fq (b (i + 1))) (Fq (t (j + 1)))
        [(bi (i + 1), [0]), (ti (j + 1), [1])] out)
      (.error (.overlap .bend (Fq (b (i + 1))))) handleNext := by
  obtain ⟨n1, n2, hv, hn⟩ := hC.vB i hi1
  obtain ⟨a1, a2, hB⟩ := hC.lkB i (by omega)
  obtain ⟨a5, a6, hrp⟩ := hC.lkB (i + 2) (by omega)
  obtain ⟨a7, a8, hO⟩ := hC.lkT (j + 1) (by omega)
  have hseg' : Seg N none ((iB, Fq (b i)) :: hp r0) none := by rw [hfirst] at hseg; exact hseg
  have hnd' : (((iB, Fq (b i)) :: hp r0).map Prod.fst).Nodup := by
    have := hnd; rw [hfirst] at this
    simpa [hp_fst] using this
  have hsplit : (iB, Fq (b i)) :: hp r0 = hp mid ++ (g.1, Fq g.2) :: hp rest := by
    have : hp LH = hp (mid ++ g :: rest) := by rw [hs]
    rw [hfirst, hp_append] at this
    exact this
  obtain ⟨N2, hrun, hseg2, hsz⟩ := fan_head (Fq (b (i + 1)))
    (stC V (.fin (b (i + 1)).1) (appH N iB ⟨Fq (b i), none, nxtOf (hp r0) none⟩ (Fq (b (i + 1))))
      N.size N.size iT (Fq (b (i + 1))) (Fq (t (j + 1))) [(ti (j + 1), [1])] out)
    ⟨N.size, N.size, iT⟩ rfl rfl hseg' hnd' hsplit
    (by rw [fan_pts]; exact fanF_of_Q _ _ hfan)
    (stopF_of_Q _ _ _ hxg hxh hstop)
    (by have : mid.length ≤ LH.length := by rw [hs]; simp
        simp only [hp, List.length_map]; omega)
  rw [fan_pts] at hrun
  obtain ⟨u1, u2, l2⟩ := Seg.get hseg2 (iT, Fq (t j))
    (List.mem_cons_of_mem _ (hp_mem (l := g :: rest) (last_mem_suffix hs hlast)))
  exact bendB_failF V (.fin xs) N N2 rm iB iT (b i) (t j) (b (i + 1)) (b (i + 2)) (t (j + 1))
    (bi (i + 1)) (bi i) (bi (i + 2)) (ti (j + 1)) n1 n2 a1 a2 a5 a6 a7 a8 out _ _ _ _ u1 u2
    hseg'.1 hrun hseg2.1 l2 hv hn hB hrp hO (hC.xB i (by omega)) (hC.xB (i + 1) hi1) (hC.xT j hj)
    (le_of_lt (lt_of_le_of_lt x2 x3)) hlt hbad

/-- the failing Bend on the top chain, the back-chain given in the tail view -/
theorem top_fail_run (hC : MConvX V mB mT bi ti b t ξ) {i j : Nat} (hi : i < mB) (hj1 : j + 1 < mT)
    (xs : Rat) (N : Array (Node XQ)) (rm iB iT : Nat) (out : List Tri)
    (x1 : (b i).1 ≤ xs) (x4 : xs < (t (j + 1)).1) (hlt : (t (j + 1)).1 < (b (i + 1)).1)
    (hbad : ((t (j + 2)).1 < (b (i + 1)).1 ∧ orient (b i) (b (i + 1)) (t (j + 2)) < 0) ∨
      ((b (i + 1)).1 < (t (j + 2)).1 ∧ 0 < orient (t (j + 1)) (t (j + 2)) (b (i + 1))))
    (LT r0 : List (Nat × Q)) (hfirst : LT = (iT, t j) :: r0)
    (hlast : LT.getLast? = some (iB, b i))
    (hseg : SegR N none (hp LT) none) (hnd : (LT.map Prod.fst).Nodup) (hlen : LT.length ≤ N.size)
    {mid : List (Nat × Q)} {g : Nat × Q} {rest : List (Nat × Q)} (hs : LT = mid ++ g :: rest)
    (hfan : FanQ (-1) (t (j + 1)) ((mid ++ [g]).map Prod.snd))
    (hstop : ∀ h r, rest = h :: r → ¬ (-1 : Rat) * orient (t (j + 1)) g.2 h.2 < 0)
    (hxg : (t (j + 1)).1 ≠ g.2.1) (hxh : ∀ h r, rest = h :: r → g.2.1 ≠ h.2.1) :
    Runs (stC V (.fin xs) N rm iB iT (Fq (b (i + 1))) (Fq (t (j + 1)))
        [(ti (j + 1), [1]), (bi (i + 1), [0])] out)
      (.error (.overlap .bend (Fq (t (j + 1))))) handleNext := by
  obtain ⟨n1, n2, hv, hn⟩ := hC.vT j hj1
  obtain ⟨a1, a2, hT⟩ := hC.lkT j (by omega)
  obtain ⟨a5, a6, hrp⟩ := hC.lkT (j + 2) (by omega)
  obtain ⟨a7, a8, hO⟩ := hC.lkB (i + 1) (by omega)
  have hseg' : SegR N none ((iT, Fq (t j)) :: hp r0) none := by rw [hfirst] at hseg; exact hseg
  have hnd' : (((iT, Fq (t j)) :: hp r0).map Prod.fst).Nodup := by
    have := hnd; rw [hfirst] at this
    simpa [hp_fst] using this
  have hsplit : (iT, Fq (t j)) :: hp r0 = hp mid ++ (g.1, Fq g.2) :: hp rest := by
    have : hp LT = hp (mid ++ g :: rest) := by rw [hs]
    rw [hfirst, hp_append] at this
    exact this
  obtain ⟨N2, hrun, hseg2, hsz⟩ := fan_tail (Fq (t (j + 1)))
    (stC V (.fin (t (j + 1)).1) (appT N iT ⟨Fq (t j), nxtOf (hp r0) none, none⟩ (Fq (t (j + 1))))
      N.size iB N.size (Fq (b (i + 1))) (Fq (t (j + 1))) [(bi (i + 1), [0])] out)
    ⟨N.size, iB, N.size⟩ rfl rfl hseg' hnd' hsplit
    (by rw [fan_pts]; exact fanB_of_Q _ _ hfan)
    (stopB_of_Q _ _ _ hxg hxh hstop)
    (by have : mid.length ≤ LT.length := by rw [hs]; simp
        simp only [hp, List.length_map]; omega)
  rw [fan_pts] at hrun
  obtain ⟨u1, u2, l1⟩ := SegR.get hseg2 (iB, Fq (b i))
    (List.mem_cons_of_mem _ (hp_mem (l := g :: rest) (last_mem_suffix hs hlast)))
  exact bendT_failF V (.fin xs) N N2 rm iB iT (b i) (t j) (t (j + 1)) (t (j + 2)) (b (i + 1))
    (ti (j + 1)) (ti j) (ti (j + 2)) (bi (i + 1)) n1 n2 a1 a2 a5 a6 a7 a8 out _ _ u1 u2 _ _
    hseg'.1 hrun l1 hseg2.1 hv hn hT hrp hO (hC.xT j (by omega)) (hC.xT (j + 1) hj1) (hC.xB i hi)
    (le_of_lt (lt_of_le_of_lt x1 x4)) hlt hbad

theorem XInc.suffix' : ∀ {pre l : List Q}, XInc (pre ++ l) → XInc l
  | [], _, h => h
  | a :: pre, l, h => XInc.suffix' (pre := pre) (XInc.tail h)

theorem stop_xi {l mid : List (Nat × Q)} {g : Nat × Q} {rest : List (Nat × Q)}
    (hxi : XInc (l.map Prod.snd)) (hs : l = mid ++ g :: rest) :
    ∀ h r, rest = h :: r → g.2.1 ≠ h.2.1 := by
  intro h r e
  rw [hs, e, List.map_append, List.map_cons, List.map_cons] at hxi
  exact ne_of_lt (XInc.suffix' hxi).1

/-- **the failing Bend on the bottom chain** from a state satisfying the invariant -/
theorem failB (hC : MConvX V mB mT bi ti b t ξ) {i j : Nat} (hi1 : i + 1 < mB) (hj : j < mT)
    (hlt : (b (i + 1)).1 < (t (j + 1)).1)
    (hbad : ((b (i + 2)).1 < (t (j + 1)).1 ∧ 0 < orient (t j) (t (j + 1)) (b (i + 2))) ∨
      ((t (j + 1)).1 < (b (i + 2)).1 ∧ orient (b (i + 1)) (b (i + 2)) (t (j + 1)) < 0))
    {s : St XQ} (hinv : MInv V mB mT bi ti b t i j s) :
    Runs s (.error (.overlap .bend (Fq (b (i + 1))))) handleNext := by
  obtain ⟨xs, N, rm, iB, iT, evs, out, l, rfl, x1, x2, x3, x4, hq, hmode⟩ := hinv
  have hev : evs = [(bi (i + 1), [0]), (ti (j + 1), [1])] := by
    rcases hq with ⟨e1, -, -⟩ | ⟨-, h⟩ | ⟨h, -⟩
    · omega
    · exact h
    · exact absurd hlt (lt_asymm h)
  subst hev
  rcases hmode with ⟨hseg, hG, -⟩ | ⟨hseg, hG, -⟩
  · obtain ⟨r0, hr0⟩ := hG.first
    obtain ⟨mid, g, rest, hs, hfan, hstop⟩ := fanQ_split 1 (b (i + 1)) l hG.ne_nil
    have hgl : g ∈ l := by rw [hs]; simp
    have hxg : (b (i + 1)).1 ≠ g.2.1 :=
      ne_of_gt (lt_of_le_of_lt (hG.x_le g hgl) (hC.xB i (by omega)))
    exact bottom_fail_run hC hi1 hj xs N rm iB iT out x2 x3 hlt hbad l r0 hr0
      hG.last hseg hG.nd hG.len hs hfan hstop hxg (stop_x hG.xd hs)
  · obtain ⟨r0, hr0⟩ := hG.first
    have hsegH : Seg N none (hp l.reverse) none := by
      have := (segR_iff_seg N (hp l) none none).mp hseg
      simpa [hp] using this
    obtain ⟨ys, hys⟩ := List.getLast?_eq_some_iff.mp hG.last
    have hfirstH : l.reverse = (iB, b i) :: ys.reverse := by rw [hys]; simp
    have hlastH : l.reverse.getLast? = some (iT, t j) := by rw [hr0]; simp
    have hndH : ((l.reverse).map Prod.fst).Nodup := by
      rw [List.map_reverse]; exact List.nodup_reverse.mpr hG.nd
    have hxi : XInc ((l.reverse).map Prod.snd) := by
      rw [List.map_reverse]; exact XDec.reverse hG.xd
    obtain ⟨mid, g, rest, hs, hfan, hstop⟩ := fanQ_split 1 (b (i + 1)) l.reverse
      (by rw [hfirstH]; simp)
    have hgl : g ∈ l := by
      have : g ∈ l.reverse := by rw [hs]; simp
      exact List.mem_reverse.mp this
    have hxg : (b (i + 1)).1 ≠ g.2.1 := by
      have := hG.x_le g hgl
      exact ne_of_gt (by linarith)
    exact bottom_fail_run hC hi1 hj xs N rm iB iT out x2 x3 hlt hbad l.reverse ys.reverse hfirstH
      hlastH hsegH hndH (by simpa using hG.len) hs hfan hstop hxg (stop_xi hxi hs)

/-- **the failing Bend on the top chain** from a state satisfying the invariant -/
theorem failT (hC : MConvX V mB mT bi ti b t ξ) {i j : Nat} (hi : i < mB) (hj1 : j + 1 < mT)
    (hlt : (t (j + 1)).1 < (b (i + 1)).1)
    (hbad : ((t (j + 2)).1 < (b (i + 1)).1 ∧ orient (b i) (b (i + 1)) (t (j + 2)) < 0) ∨
      ((b (i + 1)).1 < (t (j + 2)).1 ∧ 0 < orient (t (j + 1)) (t (j + 2)) (b (i + 1))))
    {s : St XQ} (hinv : MInv V mB mT bi ti b t i j s) :
    Runs s (.error (.overlap .bend (Fq (t (j + 1))))) handleNext := by
  obtain ⟨xs, N, rm, iB, iT, evs, out, l, rfl, x1, x2, x3, x4, hq, hmode⟩ := hinv
  have hev : evs = [(ti (j + 1), [1]), (bi (i + 1), [0])] := by
    rcases hq with ⟨-, e2, -⟩ | ⟨h, -⟩ | ⟨-, h⟩
    · omega
    · exact absurd hlt (lt_asymm h)
    · exact h
  subst hev
  rcases hmode with ⟨hseg, hG, -⟩ | ⟨hseg, hG, -⟩
  · obtain ⟨r0, hr0⟩ := hG.first
    have hsegT : SegR N none (hp l.reverse) none := by
      have := (seg_iff_segR N (hp l) none none).mp hseg
      simpa [hp] using this
    obtain ⟨ys, hys⟩ := List.getLast?_eq_some_iff.mp hG.last
    have hfirstT : l.reverse = (iT, t j) :: ys.reverse := by rw [hys]; simp
    have hlastT : l.reverse.getLast? = some (iB, b i) := by rw [hr0]; simp
    have hndT : ((l.reverse).map Prod.fst).Nodup := by
      rw [List.map_reverse]; exact List.nodup_reverse.mpr hG.nd
    have hxi : XInc ((l.reverse).map Prod.snd) := by
      rw [List.map_reverse]; exact XDec.reverse hG.xd
    obtain ⟨mid, g, rest, hs, hfan, hstop⟩ := fanQ_split (-1) (t (j + 1)) l.reverse
      (by rw [hfirstT]; simp)
    have hgl : g ∈ l := by
      have : g ∈ l.reverse := by rw [hs]; simp
      exact List.mem_reverse.mp this
    have hxg : (t (j + 1)).1 ≠ g.2.1 := by
      have := hG.x_le g hgl
      exact ne_of_gt (by linarith)
    exact top_fail_run hC hi hj1 xs N rm iB iT out x1 x4 hlt hbad l.reverse ys.reverse hfirstT
      hlastT hsegT hndT (by simpa using hG.len) hs hfan hstop hxg (stop_xi hxi hs)
  · obtain ⟨r0, hr0⟩ := hG.first
    obtain ⟨mid, g, rest, hs, hfan, hstop⟩ := fanQ_split (-1) (t (j + 1)) l hG.ne_nil
    have hgl : g ∈ l := by rw [hs]; simp
    have hxg : (t (j + 1)).1 ≠ g.2.1 :=
      ne_of_gt (lt_of_le_of_lt (hG.x_le g hgl) (hC.xT j (by omega)))
    exact top_fail_run hC hi hj1 xs N rm iB iT out x1 x4 hlt hbad l r0 hr0
      hG.last hseg hG.nd hG.len hs hfan hstop hxg (stop_x hG.xd hs)

end

end Cav.MonoXLoop
