/-
  Output of the sweep, equal abscissae allowed (heap level): EXPLICIT version of
  `Cav.GenVHeap.start_run_splitV` (improper Start with `VicFree`-style hypotheses in place of "the
  new edges are not vertical").  The proof is a copy; the conclusion additionally exports the
  intermediate state `sm0` in which the back-chain is split and the three runs (`chainSplit`,
  `backTriangulate` below, `backTriangulate` above), exactly as
  `Cav.GenOutStart.start_run_split_x` does for `Cav.GenStart.start_run_split`.
-/
import Cav.Lemmas.GenVHeapStart

set_option linter.unusedSimpArgs false
set_option linter.unusedVariables false
set_option linter.unusedSectionVars false

namespace Cav.GenOutVRun
open Cav Num Cav.Sweep Cav.SweepRun Cav.TriRun Cav.QuadRun Cav.CvxHeap Cav.CvxEvents Cav.SweepOut
open Cav.GenNodes Cav.GenQuery Cav.GenActive Cav.GenBend Cav.SweepHeap Cav.TriEvents Cav.GenStart
open Cav.GenVHeap

variable {α : Type} [Num α]

section
variable (s : St α) (vi lp1 lp2 lpB lpT a1 a2 a3 a4 : Nat) (es : List Nat)
  (rest : List (Nat × List Nat)) (p pB pT : Pt α) (P Q : List Nat) (L Rr : Nat → Pt α)

set_option maxHeartbeats 2000000 in
/-- improper Start inside the in-interval bounded by `bb` (below) and `tt` (above) -/
theorem start_run_splitV_x (P' Q' : List Nat) (bb tt : Nat) (cbb ctt : Edge α) (cB : Chain)
    (hev : s.events = (vi, es) :: rest)
    (hv : s.verts[vi]? = some ⟨p, lp1, lp2⟩) (hn : Nbrs lp1 lp2 lpB lpT)
    (hB : s.verts[lpB]? = some ⟨pB, a1, a2⟩) (hT : s.verts[lpT]? = some ⟨pT, a3, a4⟩)
    (hs1 : fromTriplet p pB pT = some .start) (hs2 : fromTriplet p pT pB = some .start)
    (hvB : ofEq pB.x p.x = false ∨ ∀ k ∈ P ++ Q,
      (ofLt p.y (yExtrap (L k) (Rr k) p.x true) && ofLt (yExtrap (L k) (Rr k) p.x true) pB.y) = false)
    (hvT : ofEq pT.x p.x = false ∨ ∀ k ∈ P ++ Q,
      (ofLt p.y (yExtrap (L k) (Rr k) p.x true) && ofLt (yExtrap (L k) (Rr k) p.x true) pT.y) = false)
    (hc1 : cmpEdgeP p pB p pT p.x = .lt) (hc2 : cmpEdgeP p pT p pB p.x = .gt)
    (hevs : ∀ a ∈ rest, a.1 < s.verts.size)
    (hm : s.mono = true) (hP : P = P' ++ [bb]) (hQ : Q = tt :: Q') (hact : s.active = P ++ Q)
    (hG : ∀ k ∈ P ++ Q, EG s k (L k) (Rr k))
    (hPB : ∀ k ∈ P, cmpEdgeP p pB (L k) (Rr k) p.x = .gt)
    (hQB : ∀ k ∈ Q, cmpEdgeP p pB (L k) (Rr k) p.x = .lt)
    (hPT : ∀ k ∈ P, cmpEdgeP p pT (L k) (Rr k) p.x = .gt)
    (hQT : ∀ k ∈ Q, cmpEdgeP p pT (L k) (Rr k) p.x = .lt)
    (hbbc : s.edges[bb]? = some cbb) (httc : s.edges[tt]? = some ctt)
    (hbf : cbb.bofIn = true) (htf : ctt.bofIn = false) (hct : ctt.chain = cbb.chain) (hbt : bb ≠ tt)
    (hbbP : ∀ k ∈ P', cmpEdgeP (L bb) (Rr bb) (L k) (Rr k) p.x = .gt)
    (hbbS : cmpEdgeP (L bb) (Rr bb) (L bb) (Rr bb) p.x = .eq)
    (hbbQ : ∀ k ∈ Q, cmpEdgeP (L bb) (Rr bb) (L k) (Rr k) p.x = .lt)
    (httP : ∀ k ∈ P, cmpEdgeP (L tt) (Rr tt) (L k) (Rr k) p.x = .gt)
    (httS : cmpEdgeP (L tt) (Rr tt) (L tt) (Rr tt) p.x = .eq)
    (httQ : ∀ k ∈ Q', cmpEdgeP (L tt) (Rr tt) (L k) (Rr k) p.x = .lt)
    (hpc : partialCmpEdgeP (L bb) (Rr bb) (L tt) (Rr tt) p.x = some .lt)
    (hwob : wobP p pB (L bb) (Rr bb) = false) (hwot : wotP p pT (L tt) (Rr tt) = false)
    (hN : NodesOk s.nodes) (hcB : s.chains[cbb.chain]? = some cB) (hrm : cB.rm < s.nodes.size) :
    ∃ (sm0 : St α) (N' N3 : Array (Node α)) (out3 : List (Pt α × Pt α × Pt α))
      (N4 : Array (Node α)) (out4 : List (Pt α × Pt α × Pt α)),
      sm0.nodes = s.nodes.push ⟨p, none, none⟩ ∧ sm0.out = s.out ∧
      (chainSplit cB p).run sm0 = .ok
        ((⟨s.nodes.size + 1, cB.head, s.nodes.size + 1⟩,
          ⟨s.nodes.size + 1 + 2, s.nodes.size + 1 + 2,
            if cB.tail == cB.rm then s.nodes.size + 1 + 1 else cB.tail⟩),
         { sm0 with nodes := N' }) ∧
      (backTriangulate ⟨s.nodes.size + 1, cB.head, s.nodes.size + 1⟩ true).run { sm0 with nodes := N' } =
        .ok ((), { sm0 with nodes := N3, out := out3 }) ∧
      (backTriangulate ⟨s.nodes.size + 1 + 2, s.nodes.size + 1 + 2,
          if cB.tail == cB.rm then s.nodes.size + 1 + 1 else cB.tail⟩ false).run
          { sm0 with nodes := N3, out := out3 } =
        .ok ((), { sm0 with nodes := N4, out := out4 }) ∧
      (handleNext : SM α Unit).run s = .ok ((),
        splitRes s lpB lpT rest p pB pT bb tt cbb ctt cB N4 out4
          (P ++ s.edges.size :: (s.edges.size + 1) :: Q)) ∧
      NodesOk N4 ∧ N4.size = s.nodes.size + 4 ∧
      (∀ i, i < s.nodes.size → ptAt N4 i = ptAt s.nodes i) ∧
      ptAt N4 (s.nodes.size + 1) = some p ∧ ptAt N4 (s.nodes.size + 2) = ptAt s.nodes cB.rm ∧
      ptAt N4 (s.nodes.size + 3) = some p := by
  rw [handleNext_run_cons hev]
  unfold nextBody
  -- facts
  have hbblt : bb < s.edges.size := lt_of_get' hbbc
  have httlt : tt < s.edges.size := lt_of_get' httc
  have hbbm : bb ∈ P ++ Q := by rw [hP]; simp
  have httm : tt ∈ P ++ Q := by rw [hQ]; simp
  obtain ⟨hbbl, hbbr⟩ : lpt? s cbb = some (L bb) ∧ cbb.rpt = Rr bb := by
    obtain ⟨e, he, h3, h4⟩ := hG bb hbbm
    rw [hbbc] at he; cases he; exact ⟨h3, h4⟩
  obtain ⟨httl, httr⟩ : lpt? s ctt = some (L tt) ∧ ctt.rpt = Rr tt := by
    obtain ⟨e, he, h3, h4⟩ := hG tt httm
    rw [httc] at he; cases he; exact ⟨h3, h4⟩
  have fa_bb : (startEdges s.edges pB pT s.chains.size)[bb]? = some cbb := by
    rw [startEdges_old _ _ _ _ hbblt]; exact hbbc
  have fa_tt : (startEdges s.edges pB pT s.chains.size)[tt]? = some ctt := by
    rw [startEdges_old _ _ _ _ httlt]; exact httc
  have hS1 : ∀ k ∈ P ++ Q, EG (startSt s rest p pB pT lpB lpT (P ++ Q)) k (L k) (Rr k) :=
    fun k hk => start_prefix_eg s lpB lpT rest p pB pT (P ++ Q) (hG k hk)
  have hS1PB : ∀ k ∈ P, ∃ l r, EG (startSt s rest p pB pT lpB lpT (P ++ Q)) k l r ∧
      cmpEdgeP p pB l r p.x = .gt := fun k hk => ⟨_, _, hS1 k (List.mem_append_left _ hk), hPB k hk⟩
  have hS1QB : ∀ k ∈ Q, ∃ l r, EG (startSt s rest p pB pT lpB lpT (P ++ Q)) k l r ∧
      cmpEdgeP p pB l r p.x = .lt := fun k hk => ⟨_, _, hS1 k (List.mem_append_right _ hk), hQB k hk⟩
  have hS1PT : ∀ k ∈ P, ∃ l r, EG (startSt s rest p pB pT lpB lpT (P ++ Q)) k l r ∧
      cmpEdgeP p pT l r p.x = .gt := fun k hk => ⟨_, _, hS1 k (List.mem_append_left _ hk), hPT k hk⟩
  have hS1QT : ∀ k ∈ Q, ∃ l r, EG (startSt s rest p pB pT lpB lpT (P ++ Q)) k l r ∧
      cmpEdgeP p pT l r p.x = .lt := fun k hk => ⟨_, _, hS1 k (List.mem_append_right _ hk), hQT k hk⟩
  have hmS : (startSt s rest p pB pT lpB lpT (P ++ Q)).mono = true := hm
  have hevs1 : ∀ a ∈ evAdd s.verts pB lpB s.edges.size rest, a.1 < s.verts.size := by
    intro a ha
    rcases evAdd_keys _ _ _ _ _ a ha with h | ⟨b, hb, h⟩
    · rw [h]; exact lt_of_get' hB
    · rw [← h]; exact hevs b hb
  have hbbE : (if (P.length == 0) = true then none else (P ++ Q)[P.length - 1]?) = some bb := by
    rw [getLast_of_pos, hP]; simp
  have httE : (P ++ Q)[P.length]? = some tt := by
    rw [head_of_append, hQ]; rfl
  have hPQ1 : P ++ Q = P' ++ bb :: Q := by rw [hP]; simp
  have hPQ2 : P ++ Q = P ++ tt :: Q' := by rw [hQ]
  have ebt : (bb == tt) = false := by simpa using hbt
  have hlen : P.length = P'.length + 1 := by rw [hP]; simp
  have hpc' : partialCmpEdgeP (L bb) cbb.rpt (L tt) ctt.rpt p.x = some .lt := by
    rw [hbbr, httr]; exact hpc
  have hwob' : wobP p pB (L bb) cbb.rpt = false := by rw [hbbr]; exact hwob
  have hwot' : wotP p pT (L tt) ctt.rpt = false := by rw [httr]; exact hwot
  -- the node heap
  have hclt : cbb.chain < s.chains.size := lt_of_get' hcB
  have hN1 : NodesOk (s.nodes.push ⟨p, none, none⟩) := nodesOk_push hN _ (by simp) (by simp)
  obtain ⟨N2, hsplit, hN2, hsz2, hpt2, hnb2, hnd2, hnt2⟩ := run_chainSplit cB p
    (splitMid s lpB lpT rest p pB pT (linkEe s.edges pB pT s.chains.size bb tt cbb ctt) (P ++ Q)
      (s.nodes.push ⟨p, none, none⟩) s.out)
    hN1 (by show cB.rm < (s.nodes.push _).size; simp; omega)
  have esz : (s.nodes.push (⟨p, none, none⟩ : Node α)).size = s.nodes.size + 1 := by simp
  simp only [splitMid] at hsplit hsz2 hpt2 hnb2 hnd2 hnt2
  rw [esz] at hsplit
  have hsz2' : N2.size = s.nodes.size + 4 := by rw [hsz2, esz]
  have hnb2' : ptAt N2 (s.nodes.size + 1) = some p := by rw [← esz]; exact hnb2
  have hnd2' : ptAt N2 (s.nodes.size + 2) = ptAt (s.nodes.push ⟨p, none, none⟩) cB.rm := by
    have := hnd2; rw [esz] at this; exact this
  have hnt2' : ptAt N2 (s.nodes.size + 3) = some p := by
    have := hnt2; rw [esz] at this; exact this
  have hold2 : ∀ i, i < s.nodes.size → ptAt N2 i = ptAt s.nodes i := by
    intro i hi
    rw [hpt2 i (by rw [esz]; omega)]
    exact ptAt_push_lt _ _ hi
  obtain ⟨N3, out3, hbt3, hN3, hsz3, hpt3⟩ := bt_ok
    ⟨s.nodes.size + 1, cB.head, s.nodes.size + 1⟩ true
    (splitMid s lpB lpT rest p pB pT (linkEe s.edges pB pT s.chains.size bb tt cbb ctt) (P ++ Q) N2 s.out)
    hN2 (by show s.nodes.size + 1 < N2.size; omega)
  have hsz3' : N3.size = s.nodes.size + 4 := hsz3.trans hsz2'
  obtain ⟨N4, out4, hbt4, hN4, hsz4, hpt4⟩ := bt_ok
    ⟨s.nodes.size + 1 + 2, s.nodes.size + 1 + 2, if cB.tail == cB.rm then s.nodes.size + 1 + 1 else cB.tail⟩
    false
    (splitMid s lpB lpT rest p pB pT (linkEe s.edges pB pT s.chains.size bb tt cbb ctt) (P ++ Q) N3 out3)
    hN3 (by show s.nodes.size + 1 + 2 < N3.size; omega)
  have hsz4' : N4.size = s.nodes.size + 4 := hsz4.trans hsz3'
  simp only [splitMid] at hbt3 hbt4
  have hptA : ∀ i, ptAt N4 i = ptAt N2 i := fun i => (hpt4 i).trans (hpt3 i)
  refine ⟨splitMid s lpB lpT rest p pB pT (linkEe s.edges pB pT s.chains.size bb tt cbb ctt) (P ++ Q)
      (s.nodes.push ⟨p, none, none⟩) s.out, N2, N3, out3, N4, out4, rfl, rfl, ?a3, ?a4, ?a5, ?_, hN4, hsz4', fun i hi => by rw [hptA, hold2 i hi], by rw [hptA]; exact hnb2',
    by rw [hptA, hnd2']; exact ptAt_push_lt _ _ hrm, by rw [hptA]; exact hnt2'⟩
  case a3 => simp only [splitMid]; exact hsplit
  case a4 => simp only [splitMid]; exact hbt3
  case a5 => simp only [splitMid]; exact hbt4
  -- the final state
  have hch1 : (((s.chains.push ⟨s.nodes.size, s.nodes.size, s.nodes.size⟩).push
      ⟨s.nodes.size + 1, cB.head, s.nodes.size + 1⟩).push
      ⟨s.nodes.size + 1 + 2, s.nodes.size + 1 + 2,
        if cB.tail = cB.rm then s.nodes.size + 1 + 1 else cB.tail⟩)[s.chains.size + 1]? =
      some ⟨s.nodes.size + 1, cB.head, s.nodes.size + 1⟩ := by
    rw [Array.getElem?_push_lt (by simp)]
    have : s.chains.size + 1 = (s.chains.push (⟨s.nodes.size, s.nodes.size, s.nodes.size⟩ : Chain)).size := by
      simp
    simp only [this, Array.getElem_push_eq]
  have hch2 : (((s.chains.push ⟨s.nodes.size, s.nodes.size, s.nodes.size⟩).push
      ⟨s.nodes.size + 1, cB.head, s.nodes.size + 1⟩).push
      ⟨s.nodes.size + 1 + 2, s.nodes.size + 1 + 2,
        if cB.tail = cB.rm then s.nodes.size + 1 + 1 else cB.tail⟩)[s.chains.size + 1 + 1]? =
      some ⟨s.nodes.size + 1 + 2, s.nodes.size + 1 + 2,
        if cB.tail = cB.rm then s.nodes.size + 1 + 1 else cB.tail⟩ := by
    have : s.chains.size + 1 + 1 = ((s.chains.push (⟨s.nodes.size, s.nodes.size, s.nodes.size⟩ : Chain)).push
        ⟨s.nodes.size + 1, cB.head, s.nodes.size + 1⟩).size := by simp
    rw [this, Array.getElem?_push_size]
  have hch0 : ∀ i, i < s.chains.size → (((s.chains.push ⟨s.nodes.size, s.nodes.size, s.nodes.size⟩).push
      ⟨s.nodes.size + 1, cB.head, s.nodes.size + 1⟩).push
      ⟨s.nodes.size + 1 + 2, s.nodes.size + 1 + 2,
        if cB.tail = cB.rm then s.nodes.size + 1 + 1 else cB.tail⟩)[i]? = s.chains[i]? := by
    intro i hi
    rw [Array.getElem?_push_lt (by simp; omega), Array.getElem_push_lt (by simp; omega),
      Array.getElem_push_lt hi, ← Array.getElem?_eq_getElem hi]
  have hptN : ∀ i, i < s.nodes.size → ptAt N4 i = ptAt s.nodes i := fun i hi => by
    rw [hptA, hold2 i hi]
  have hlB : ∀ (S : St α) {act' : List Nat},
      S = splitRes s lpB lpT rest p pB pT bb tt cbb ctt cB N4 out4 act' →
      lpt? S ⟨pB, s.chains.size + 1, !cbb.bofIn, some bb, some (s.edges.size + 1)⟩ = some p := by
    rintro S act' rfl
    rw [lpt_eq]
    dsimp only [splitRes, startSt]
    rw [hch1, hbf]
    simp only [Option.bind_some, Bool.not_true, Bool.false_eq_true, if_false]
    rw [hptA]; exact hnb2'
  have hlT : ∀ (S : St α) {act' : List Nat},
      S = splitRes s lpB lpT rest p pB pT bb tt cbb ctt cB N4 out4 act' →
      lpt? S ⟨pT, s.chains.size + 1 + 1, !ctt.bofIn, some s.edges.size, some tt⟩ = some p := by
    rintro S act' rfl
    rw [lpt_eq]
    dsimp only [splitRes, startSt]
    rw [hch2, htf]
    simp only [Option.bind_some, Bool.not_false, if_true]
    rw [hptA]; exact hnt2'
  have hbbhead : ptAt s.nodes cB.head = some (L bb) := by
    have := hbbl
    rw [lpt_eq, hcB, hbf] at this
    exact this
  have htttail : ptAt s.nodes cB.tail = some (L tt) := by
    have := httl
    rw [lpt_eq, hct, hcB, htf] at this
    exact this
  have hEGf : ∀ (S : St α) {act' : List Nat},
      S = splitRes s lpB lpT rest p pB pT bb tt cbb ctt cB N4 out4 act' →
      ∀ k ∈ P ++ Q, EG S k (L k) (Rr k) := by
    rintro S act' rfl k hk
    by_cases h1 : k = bb
    · rw [h1]
      refine ⟨{ cbb with tPart := some s.edges.size, chain := s.chains.size + 1 }, ?_, ?_, hbbr⟩
      · dsimp only [splitRes, startSt]
        lk_ne; lk_ne; lk_ne
        exact Array.getElem?_setIfInBounds_self_of_lt (by rw [linkEe_size]; omega)
      · rw [lpt_eq]
        dsimp only [splitRes, startSt]
        rw [hch1, hbf]
        simp only [Option.bind_some, if_true]
        rw [hptN _ (ptAt_some_lt hbbhead)]; exact hbbhead
    · by_cases h2 : k = tt
      · rw [h2]
        refine ⟨{ ctt with bPart := some (s.edges.size + 1), chain := s.chains.size + 1 + 1 }, ?_, ?_, httr⟩
        · dsimp only [splitRes, startSt]
          lk_ne
          exact Array.getElem?_setIfInBounds_self_of_lt (by simp [linkEe_size]; omega)
        · rw [lpt_eq]
          dsimp only [splitRes, startSt]
          rw [hch2, htf]
          simp only [Option.bind_some, Bool.false_eq_true, if_false]
          by_cases hrt : cB.tail = cB.rm
          · simp only [hrt, if_true]
            rw [hptA, hnd2', ptAt_push_lt _ _ hrm, ← hrt]; exact htttail
          · simp only [hrt, if_false]
            rw [hptN _ (ptAt_some_lt htttail)]; exact htttail
      · have hkE := hG k hk
        have hklt : k < s.edges.size := by obtain ⟨e, he, -⟩ := hkE; exact lt_of_get' he
        refine EG.ext hkE ?_ ?_ ?_
        · intro e he
          refine ⟨e, ?_, rfl, rfl, rfl⟩
          dsimp only [splitRes, startSt]
          lk_ne; lk_ne; lk_ne; lk_ne
          rw [linkEe_old s.edges pB pT s.chains.size bb tt cbb ctt hklt h1 h2]; exact he
        · intro i hi
          dsimp only [splitRes, startSt]
          exact hch0 i hi
        · intro i hi
          dsimp only [splitRes, startSt]
          exact hptN i hi
  show Runs s _ _
  have hvfB := vicfree_of s P Q L Rr hact hG p pB hvB
  have hvfT := vicfree_of s P Q L Rr hact hG p pT hvT
  have hv' : s.verts[vi]? = some ⟨p, lpB, lpT⟩ ∨ s.verts[vi]? = some ⟨p, lpT, lpB⟩ := by
    rcases hn with ⟨h1, h2⟩ | ⟨h1, h2⟩
    · left; rw [← h1, ← h2]; exact hv
    · right; rw [← h1, ← h2]; exact hv
  clear hv hn
  rcases hv' with hv | hv
  · start_head1
    start_ss_linkV
    sm_whnf
    rw [if_pos hbf]
    sm_whnf
    split_midV
    split_finV
  · start_head2
    start_ss_linkV
    sm_whnf
    rw [if_pos hbf]
    sm_whnf
    split_midV
    split_finV

end

end Cav.GenOutVRun
