/-
  Partner links and the `RefCell` borrow panic, part 1.  An edge cell `e` at index `i` is
  `SOk i e` when it is not its own partner (`bPart ≠ some i`, `tPart ≠ some i`) and its two
  partners differ.  `WS r V N C D` adds to the heap invariant `W` that the cells of the edges in
  `r` (the edges registered with the vertex being handled) are `SOk`.  Under it the programs
  below the handlers that do not allocate keep the invariant, and `willOverlapBot/Top` never
  raise the borrow panic.
-/
import Cav.Lemmas.SweepHeapLoop

set_option linter.unusedSectionVars false
set_option linter.unusedVariables false

namespace Cav.SweepLinks
open Cav Num Cav.Sweep Cav.SweepRun Cav.SweepHoare Cav.SweepHeap

variable {α : Type} {β : Type}

/-- the cell `e` of edge `i` is not its own partner and has two different partners -/
def SOk (i : Nat) (e : Edge α) : Prop :=
  e.bPart ≠ some i ∧ e.tPart ≠ some i ∧ ∀ j, e.bPart = some j → e.tPart ≠ some j

/-- the cells of the edges in `r` are `SOk` -/
def SOn (r : List Nat) (s : St α) : Prop :=
  ∀ i ∈ r, ∀ e, s.edges[i]? = some e → SOk i e

/-- heap well-formedness and `SOk` cells for the edges in `r` -/
def WS (r : List Nat) (V : Array (Vtx α)) (N C D : Nat) (s : St α) : Prop :=
  W V N C D s ∧ SOn r s

/-- errors a pass may raise when the borrow panic is excluded -/
structure OkErr (E : SErr α → Prop) : Prop where
  overlap : ∀ k p, E (.overlap k p)
  npt : ∀ p, E (.noPointType p)
  idx : E (.panic "index")

variable {r : List Nat} {V : Array (Vtx α)} {N C D : Nat} {E : SErr α → Prop}

theorem sOn_congr (s s' : St α) (h : s'.edges = s.edges) (hs : SOn r s) : SOn r s' := by
  intro i hi e he
  rw [h] at he
  exact hs i hi e he

/-- a program that keeps `W` and does not touch the edge cells keeps `WS` -/
theorem Pres.ws_of_w {G : β → Prop} {m : SM α β} (h : Pres (W V N C D) E G m)
    (hfr : ∀ s b s', m.run s = .ok (b, s') → s'.edges = s.edges) :
    Pres (WS r V N C D) E G m := by
  apply Pres.intro
  intro s hs
  cases hr : m.run s with
  | error e => exact h.err hs.1 hr
  | ok q =>
    obtain ⟨b, s'⟩ := q
    obtain ⟨hw, hg⟩ := h.ok hs.1 hr
    exact ⟨⟨hw, sOn_congr s s' (hfr s b s' hr) hs.2⟩, hg⟩

theorem ws_congr (s s' : St α) (h1 : s'.verts = s.verts) (h2 : s'.nodes = s.nodes)
    (h3 : s'.chains = s.chains) (h4 : s'.edges = s.edges) (h5 : s'.active = s.active)
    (h6 : s'.events = s.events) (h : WS r V N C D s) : WS r V N C D s' :=
  ⟨w_congr s s' h1 h2 h3 h4 h5 h6 h.1, sOn_congr s s' h4 h.2⟩

variable [Num α]

theorem ws_active_insert (s : St α) (i ei : Nat) (hei : ei < D) (h : WS r V N C D s) :
    WS r V N C D { s with active := s.active.take i ++ ei :: s.active.drop i } :=
  ⟨w_active_insert s i ei hei h.1, sOn_congr s _ rfl h.2⟩

theorem ws_active_remove (s : St α) (i : Nat) (h : WS r V N C D s) :
    WS r V N C D { s with active := s.active.take i ++ s.active.drop (i + 1) } :=
  ⟨w_active_remove s i h.1, sOn_congr s _ rfl h.2⟩

theorem ws_events (s : St α) (l : List (Nat × List Nat)) (hl : ∀ ev ∈ l, EvOk V.size D ev)
    (h : WS r V N C D s) : WS r V N C D { s with events := l } :=
  ⟨w_events s l hl h.1, sOn_congr s _ rfl h.2⟩

/-! ### getters and setters -/

theorem getNode_ws (i : Nat) (hi : i < N) :
    Pres (WS r V N C D) E (NodeOk N) (getNode i : SM α _) := by
  refine Pres.ws_of_w (getNode_wf i hi) ?_
  intro s b s' h
  rw [(getNode_ok.mp h).2]

theorem getVtx_ws (i : Nat) (hi : i < V.size) :
    Pres (WS r V N C D) E (fun v => VtxOk V.size v ∧ V[i]? = some v) (getVtx i : SM α _) := by
  refine Pres.ws_of_w (getVtx_wf i hi) ?_
  intro s b s' h
  rw [(getVtx_ok.mp h).2]

theorem getChain_ws (i : Nat) (hi : i < C) :
    Pres (WS r V N C D) E (ChainOk N) (getChain i : SM α _) := by
  refine Pres.ws_of_w (getChain_wf i hi) ?_
  intro s b s' h
  unfold getChain at h
  simp only [run_bind, run_get] at h
  cases hc : s.chains[i]? with
  | none => rw [hc] at h; cases h
  | some c => rw [hc] at h; cases h; rfl

theorem getEdge_ws (i : Nat) (hi : i < D) :
    Pres (WS r V N C D) E (fun e => EdgeOk C D e ∧ (i ∈ r → SOk i e)) (getEdge i : SM α _) := by
  apply Pres.intro
  intro s hs
  unfold getEdge
  simp only [run_bind, run_get]
  cases h : s.edges[i]? with
  | none =>
    have : i < s.edges.size := by rw [hs.1.esz]; exact hi
    rw [Array.getElem?_eq_getElem this] at h; cases h
  | some e =>
    exact ⟨hs, hs.1.edges e (Array.mem_toList_iff.mpr (Array.mem_of_getElem? h)),
      fun hir => hs.2 i hir e h⟩

theorem setNode_ws (i : Nat) (n : Node α) (hn : NodeOk N n) :
    Pres (WS r V N C D) E (fun _ => True) (setNode i n : SM α _) :=
  Pres.ws_of_w (setNode_wf i n hn) (by intro s b s' h; cases h; rfl)

theorem setChain_ws (i : Nat) (c : Chain) (hc : ChainOk N c) :
    Pres (WS r V N C D) E (fun _ => True) (setChain i c : SM α _) :=
  Pres.ws_of_w (setChain_wf i c hc) (by intro s b s' h; cases h; rfl)

theorem setEdge_ws (i : Nat) (e : Edge α) (he : EdgeOk C D e) (hs : i ∈ r → SOk i e) :
    Pres (WS r V N C D) E (fun _ => True) (setEdge i e : SM α _) := by
  apply Pres.intro
  intro s hws
  have hw := (setEdge_wf (V := V) (N := N) (E := E) i e he).ok hws.1
    (s' := { s with edges := s.edges.setIfInBounds i e }) (b := ⟨⟩) rfl
  refine ⟨⟨hw.1, ?_⟩, trivial⟩
  intro j hj e' he'
  simp only at he'
  by_cases hij : i = j
  · subst hij
    by_cases hlt : i < s.edges.size
    · rw [Array.getElem?_setIfInBounds_self_of_lt hlt] at he'
      cases he'
      exact hs hj
    · rw [Array.getElem?_eq_none (by simpa using hlt)] at he'; cases he'
  · rw [Array.getElem?_setIfInBounds_ne hij] at he'
    exact hws.2 j hj e' he'

theorem get_ws : Pres (WS r V N C D) E (fun s => (∀ a ∈ s.active, a < D) ∧
    (∀ ev ∈ s.events, EvOk V.size D ev) ∧ WS r V N C D s) (get : SM α (St α)) := by
  apply Pres.intro; intro s hs
  exact ⟨hs, hs.1.active, hs.1.events, hs⟩

/-! ### automation -/

open Lean Meta Elab Tactic in
/-- applies the lemma `f_ws` for the program `f args` of the goal -/
elab "ws_lookup" : tactic => do
  let g ← getMainGoal
  let t := (← instantiateMVars (← g.getType)).consumeMData
  unless t.isApp do throwError "ws_lookup: not an application"
  let prog := t.appArg!
  let .const c _ := prog.getAppFn | throwError "ws_lookup: no head constant"
  let base := c.replacePrefix `Cav.Sweep .anonymous
  if base == c then throwError "ws_lookup: not a model function"
  let str := (base.toString (escape := false)).replace "." "_"
  let id := mkIdent (Name.mkSimple (str ++ "_ws"))
  evalTactic (← `(tactic| (apply $id <;> first | assumption | pres_side)))

macro_rules | `(tactic| pres_prim) => `(tactic| ws_lookup)
macro_rules | `(tactic| pres_prim) => `(tactic| exact get_ws)
macro_rules | `(tactic| pres_prim) => `(tactic| apply_pres_hyp)

/-- side conditions under `WS`; a `throw (.panic "borrow")` is discharged by contradiction -/
macro "ws_side" : tactic => `(tactic| first
  | assumption
  | exact True.intro
  | omega
  | (refine ws_congr _ _ ?_ ?_ ?_ ?_ ?_ ?_ (by assumption) <;> rfl)
  | exact OkErr.overlap (by assumption) _ _
  | exact OkErr.npt (by assumption) _
  | exact OkErr.idx (by assumption)
  | exact ws_active_insert _ _ _ (by assumption) (by assumption)
  | exact ws_active_remove _ _ (by assumption)
  | exact ws_events _ _ (by assumption) (by assumption)
  | (refine ws_events _ _ ?_ ?_ <;> grind [EvOk])
  | (refine w_congr _ _ ?_ ?_ ?_ ?_ ?_ ?_ (by assumption) <;> rfl)
  | exact w_active_insert _ _ _ (by assumption) (by assumption)
  | exact w_active_remove _ _ (by assumption)
  | exact w_events _ _ (by assumption) (by assumption)
  | (refine w_events _ _ ?_ ?_ <;> grind [EvOk])
  | grind [NodeOk, ChainOk, EdgeOk, VtxOk, EvOk, OptLt, SOk, List.getElem_mem]
  | (exfalso; grind [SOk, List.getElem_mem]))
macro_rules | `(tactic| pres_side) => `(tactic| ws_side)

/-! ### programs that do not allocate -/

theorem edgeLpt_ws (e : Edge α) (he : EdgeOk C D e) :
    Pres (WS r V N C D) E (fun _ => True) (edgeLpt e : SM α _) := by
  unfold edgeLpt; pres_auto

theorem yAt_ws (e : Edge α) (x : α) (b : Bool) (he : EdgeOk C D e) :
    Pres (WS r V N C D) E (fun _ => True) (yAt e x b : SM α _) := by
  unfold yAt; pres_auto

theorem edgeGrad_ws (e : Edge α) (he : EdgeOk C D e) :
    Pres (WS r V N C D) E (fun _ => True) (edgeGrad e : SM α _) := by
  unfold edgeGrad; pres_auto

theorem tieGrad_ws (e : Edge α) (he : EdgeOk C D e) :
    Pres (WS r V N C D) E (fun _ => True) (tieGrad e : SM α _) := by
  unfold tieGrad; pres_auto

theorem cmpEdge_ws (a b : Edge α) (ha : EdgeOk C D a) (hb : EdgeOk C D b) :
    Pres (WS r V N C D) E (fun _ => True) (cmpEdge a b : SM α _) := by
  unfold cmpEdge; pres_auto

theorem cmpAt_ws (a b : Edge α) (x : α) (rt : Bool) (ha : EdgeOk C D a) (hb : EdgeOk C D b) :
    Pres (WS r V N C D) E (fun _ => True) (cmpAt a b x rt : SM α _) := by
  unfold cmpAt; pres_auto

/-- with an `SOk` cell, `will_overlap_bot` does not raise the borrow panic -/
theorem willOverlapBot_ws (ei : Nat) (b : Bool) (hei : ei < D) (hr : ei ∈ r) :
    Pres (WS r V N C D) E (fun _ => True) (willOverlapBot ei b : SM α _) := by
  unfold willOverlapBot; pres_auto

theorem willOverlapTop_ws (ei : Nat) (b : Bool) (hei : ei < D) (hr : ei ∈ r) :
    Pres (WS r V N C D) E (fun _ => True) (willOverlapTop ei b : SM α _) := by
  unfold willOverlapTop; pres_auto

theorem searchPos_ws (key : Edge α) (hk : EdgeOk C D key) (l : List Nat) (hl : ∀ k ∈ l, k < D)
    (i : Nat) : Pres (WS r V N C D) E (fun _ => True) (searchPos key l i : SM α _) := by
  induction l generalizing i with
  | nil => unfold searchPos; pres_auto
  | cons k ks ih =>
    have hk' : k < D := hl k List.mem_cons_self
    have ih' := ih (fun a ha => hl a (List.mem_cons_of_mem _ ha))
    unfold searchPos; pres_auto

theorem noteMono_ws (key : Edge α) (l : List Nat) :
    Pres (WS r V N C D) E (fun _ => True) (noteMono key l : SM α _) := by
  apply Pres.intro; intro s hs
  exact ⟨ws_congr s _ rfl rfl rfl rfl rfl rfl hs, trivial⟩

theorem search_ws (key : Edge α) (hk : EdgeOk C D key) (l : List Nat) (hl : ∀ k ∈ l, k < D) :
    Pres (WS r V N C D) E (fun _ => True) (search key l : SM α _) := by
  unfold search; pres_auto

theorem activeRemove_ws (ei : Nat) (hei : ei < D) :
    Pres (WS r V N C D) E (fun _ => True) (activeRemove ei : SM α _) := by
  unfold activeRemove; pres_auto

theorem nodeTriangulate_ws (from_ : Nat) (hf : from_ < N) (bw : Bool) (fuel : Nat) :
    Pres (WS r V N C D) E (fun _ => True) (nodeTriangulate from_ bw fuel : SM α _) := by
  induction fuel with
  | zero => unfold nodeTriangulate; pres_auto
  | succ fuel ih =>
    unfold nodeTriangulate
    simp only [pure_bind]
    pres_auto_inline

theorem nodeFuel_ws :
    Pres (WS r V N C D) E (fun _ => True) (nodeFuel : SM α _) := by
  unfold nodeFuel; pres_auto

theorem backTriangulate_ws (c : Chain) (hc : ChainOk N c) (b : Bool) :
    Pres (WS r V N C D) E (fun _ => True) (backTriangulate c b : SM α _) := by
  unfold backTriangulate; pres_auto

theorem eventsAdd_go_ws (vi ei : Nat) (hvi : vi < V.size) (hei : ei < D) (p : Pt α)
    (l : List (Nat × List Nat)) (hl : ∀ ev ∈ l, EvOk V.size D ev) :
    Pres (WS r V N C D) E (fun q => ∀ ev ∈ q, EvOk V.size D ev)
      (eventsAdd.go vi ei p l : SM α _) := by
  induction l with
  | nil => unfold eventsAdd.go; pres_auto
  | cons k ks ih =>
    have hk := hl k List.mem_cons_self
    have ih' := ih (fun a ha => hl a (List.mem_cons_of_mem _ ha))
    unfold eventsAdd.go; pres_auto

theorem eventsAdd_ws (vi ei : Nat) (hvi : vi < V.size) (hei : ei < D) :
    Pres (WS r V N C D) E (fun _ => True) (eventsAdd vi ei : SM α _) := by
  unfold eventsAdd; pres_auto

theorem verticalIsCrossed_go_ws (skip : Option Nat) (p rp : Pt α) (l : List Nat)
    (hl : ∀ k ∈ l, k < D) :
    Pres (WS r V N C D) E (fun _ => True) (verticalIsCrossed.go skip p rp l : SM α _) := by
  induction l with
  | nil => unfold verticalIsCrossed.go; pres_auto
  | cons k ks ih =>
    have hk := hl k List.mem_cons_self
    have ih' := ih (fun a ha => hl a (List.mem_cons_of_mem _ ha))
    unfold verticalIsCrossed.go; pres_auto

theorem verticalIsCrossed_ws (skip : Option Nat) (p rp : Pt α) :
    Pres (WS r V N C D) E (fun _ => True) (verticalIsCrossed skip p rp : SM α _) := by
  unfold verticalIsCrossed; pres_auto

/-! ### under `W` alone: the calls with `selfBorrowed = false` cannot raise the borrow panic -/

theorem willOverlapBot_wn (ei : Nat) (hei : ei < D) :
    Pres (W V N C D) E (fun _ => True) (willOverlapBot ei false : SM α _) := by
  unfold willOverlapBot; pres_auto

theorem willOverlapTop_wn (ei : Nat) (hei : ei < D) :
    Pres (W V N C D) E (fun _ => True) (willOverlapTop ei false : SM α _) := by
  unfold willOverlapTop; pres_auto

end Cav.SweepLinks
