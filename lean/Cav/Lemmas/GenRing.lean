/-
  General sweep invariant, part 26: the vertex ring of an arbitrary list of polygons (each with
  at least three vertices, all abscissae pairwise different) and its properties `RingOK`.
-/
import Cav.Lemmas.GenInv

set_option linter.unusedSimpArgs false
set_option linter.unusedVariables false

namespace Cav.GenRing
open Cav Num Cav.Geo Cav.Sweep Cav.QuadGeom Cav.GenGeom Cav.GenInv

/-- a ring cell: point, previous and next vertex -/
abbrev Cell := Q × Nat × Nat

/-- the cells of one polygon whose first vertex gets the index `base` -/
def cellsOf (base : Nat) (poly : Array Q) : List Cell :=
  (List.range poly.size).map fun i =>
    (poly.getD i (0, 0), base + (i + poly.size - 1) % poly.size, base + (i + 1) % poly.size)

/-- the cells of a list of polygons -/
def cellsAll : Nat → List (Array Q) → List Cell
  | _, [] => []
  | base, p :: r => cellsOf base p ++ cellsAll (base + p.size) r

def ringOfCells (C : List Cell) : RingQ :=
  ⟨C.length, fun i => (C.getD i ((0, 0), 0, 0)).1, fun i => (C.getD i ((0, 0), 0, 0)).2.1,
    fun i => (C.getD i ((0, 0), 0, 0)).2.2⟩

/-- **the vertex ring of a polygon list** -/
def ringOf (polys : List (Array Q)) : RingQ := ringOfCells (cellsAll 0 polys)

def toVtx (c : Cell) : Vtx XQ := ⟨Fq c.1, c.2.1, c.2.2⟩

def vertsOf (C : List Cell) : Array (Vtx XQ) := (C.map toVtx).toArray

theorem cellsOf_length (base : Nat) (poly : Array Q) : (cellsOf base poly).length = poly.size := by
  simp [cellsOf]

theorem cellsOf_get (base : Nat) (poly : Array Q) {i : Nat} (hi : i < poly.size) :
    (cellsOf base poly)[i]? =
      some (poly.getD i (0, 0), base + (i + poly.size - 1) % poly.size, base + (i + 1) % poly.size) := by
  simp [cellsOf, hi]

/-- the cell of the `i`-th vertex of a polygon inside the cell list -/
theorem cell_at {C Cd Cr : List Cell} {poly : Array Q} (hC : C = Cd ++ cellsOf Cd.length poly ++ Cr)
    {i : Nat} (hi : i < poly.size) :
    C[Cd.length + i]? = some (poly.getD i (0, 0), Cd.length + (i + poly.size - 1) % poly.size,
      Cd.length + (i + 1) % poly.size) := by
  rw [hC, List.append_assoc, List.getElem?_append_right (by omega), Nat.add_sub_cancel_left,
    List.getElem?_append_left (by rw [cellsOf_length]; exact hi)]
  exact cellsOf_get _ _ hi

/-- every index of the cell list lies in the block of some polygon -/
theorem cells_decomp : ∀ (polys : List (Array Q)) (base g : Nat), g < (cellsAll base polys).length →
    ∃ Cd poly Cr i, poly ∈ polys ∧ cellsAll base polys = Cd ++ cellsOf (base + Cd.length) poly ++ Cr ∧
      g = Cd.length + i ∧ i < poly.size
  | [], _, g, h => by simp [cellsAll] at h
  | p :: r, base, g, h => by
    by_cases hg : g < p.size
    · exact ⟨[], p, cellsAll (base + p.size) r, g, List.mem_cons_self, by simp [cellsAll], by simp, hg⟩
    · have h' : g - p.size < (cellsAll (base + p.size) r).length := by
        simp only [cellsAll, List.length_append, cellsOf_length] at h
        omega
      obtain ⟨Cd, poly, Cr, i, hm, hC, hgi, hi⟩ := cells_decomp r (base + p.size) (g - p.size) h'
      refine ⟨cellsOf base p ++ Cd, poly, Cr, i, List.mem_cons_of_mem _ hm, ?_, ?_, hi⟩
      · simp only [cellsAll]
        rw [hC]
        simp only [List.length_append, cellsOf_length, List.append_assoc, Nat.add_assoc]
      · simp only [List.length_append, cellsOf_length]
        omega

/-! ### arithmetic of the cyclic links -/

theorem mod_prev_next {m i : Nat} (hi : i < m) : ((i + m - 1) % m + 1) % m = i := by
  rcases Nat.eq_zero_or_pos i with rfl | h0
  · have : (0 + m - 1) % m = m - 1 := by rw [Nat.zero_add]; exact Nat.mod_eq_of_lt (by omega)
    rw [this, show m - 1 + 1 = m by omega, Nat.mod_self]
  · have : (i + m - 1) % m = i - 1 := by
      rw [show i + m - 1 = (i - 1) + m by omega, Nat.add_mod_right]
      exact Nat.mod_eq_of_lt (by omega)
    rw [this, show i - 1 + 1 = i by omega]
    exact Nat.mod_eq_of_lt hi

theorem mod_next_prev {m i : Nat} (hi : i < m) : ((i + 1) % m + m - 1) % m = i := by
  by_cases h : i + 1 < m
  · rw [Nat.mod_eq_of_lt h, show i + 1 + m - 1 = i + m by omega, Nat.add_mod_right]
    exact Nat.mod_eq_of_lt hi
  · have : i + 1 = m := by omega
    rw [this, Nat.mod_self, Nat.zero_add]
    exact (Nat.mod_eq_of_lt (by omega)).trans (by omega)

theorem mod_prev_ne_next {m i : Nat} (hm : 3 ≤ m) (hi : i < m) : (i + m - 1) % m ≠ (i + 1) % m := by
  rcases Nat.eq_zero_or_pos i with rfl | h0
  · rw [Nat.zero_add, Nat.zero_add, Nat.mod_eq_of_lt (show m - 1 < m by omega),
      Nat.mod_eq_of_lt (show 1 < m by omega)]
    omega
  · have e1 : (i + m - 1) % m = i - 1 := by
      rw [show i + m - 1 = (i - 1) + m by omega, Nat.add_mod_right]
      exact Nat.mod_eq_of_lt (by omega)
    rw [e1]
    by_cases h : i + 1 < m
    · rw [Nat.mod_eq_of_lt h]; omega
    · have : i + 1 = m := by omega
      rw [this, Nat.mod_self]; omega

theorem mod_prev_ne_self {m i : Nat} (hm : 3 ≤ m) (hi : i < m) : (i + m - 1) % m ≠ i := by
  intro e
  have := mod_prev_next hi
  rw [e] at this
  by_cases h : i + 1 < m
  · rw [Nat.mod_eq_of_lt h] at this; omega
  · have h' : i + 1 = m := by omega
    rw [h', Nat.mod_self] at this; omega

/-! ### the ring of a cell list -/

section
variable {C : List Cell}

theorem ring_n : (ringOfCells C).n = C.length := rfl

theorem ring_cell {g : Nat} {c : Cell} (h : C[g]? = some c) :
    (ringOfCells C).pt g = c.1 ∧ (ringOfCells C).prv g = c.2.1 ∧ (ringOfCells C).nxt g = c.2.2 := by
  simp only [ringOfCells, List.getD_eq_getElem?_getD, h, Option.getD_some, and_self]

theorem vertsOf_get {g : Nat} (hg : g < C.length) :
    (vertsOf C)[g]? = some ⟨Fq ((ringOfCells C).pt g), (ringOfCells C).prv g, (ringOfCells C).nxt g⟩ := by
  have h : C[g]? = some C[g] := List.getElem?_eq_getElem hg
  obtain ⟨e1, e2, e3⟩ := ring_cell h
  rw [e1, e2, e3]
  simp [vertsOf, h, toVtx]

end

/-- the facts about the block of one polygon -/
theorem block_facts {C Cd Cr : List Cell} {poly : Array Q} (hC : C = Cd ++ cellsOf Cd.length poly ++ Cr)
    {i : Nat} (hi : i < poly.size) :
    (ringOfCells C).pt (Cd.length + i) = poly.getD i (0, 0) ∧
    (ringOfCells C).prv (Cd.length + i) = Cd.length + (i + poly.size - 1) % poly.size ∧
    (ringOfCells C).nxt (Cd.length + i) = Cd.length + (i + 1) % poly.size ∧
    Cd.length + poly.size ≤ C.length :=
  ⟨(ring_cell (cell_at hC hi)).1, (ring_cell (cell_at hC hi)).2.1, (ring_cell (cell_at hC hi)).2.2,
    by rw [hC]; simp [cellsOf_length]⟩

/-- the points of the cell list are the input points -/
theorem cellsOf_pts (base : Nat) (poly : Array Q) : (cellsOf base poly).map (·.1) = poly.toList := by
  apply List.ext_getElem
  · simp [cellsOf]
  · intro i h1 h2
    simp [cellsOf] at h1 h2 ⊢
    simp [h2]

theorem cellsAll_pts : ∀ (polys : List (Array Q)) (base : Nat),
    (cellsAll base polys).map (·.1) = polys.flatMap Array.toList
  | [], _ => rfl
  | p :: r, base => by
    simp only [cellsAll, List.map_append, cellsOf_pts, cellsAll_pts r, List.flatMap_cons]

/-- **the ring of a valid polygon list is well formed** -/
theorem ringOK (polys : List (Array Q)) (h3 : ∀ p ∈ polys, 3 ≤ p.size)
    (hx : ((polys.flatMap Array.toList).map (·.1)).Nodup) :
    RingOK (ringOf polys) (vertsOf (cellsAll 0 polys)) := by
  have hdec : ∀ g, g < (cellsAll 0 polys).length → ∃ Cd poly Cr i, poly ∈ polys ∧
      cellsAll 0 polys = Cd ++ cellsOf Cd.length poly ++ Cr ∧ g = Cd.length + i ∧ i < poly.size := by
    intro g hg
    obtain ⟨Cd, poly, Cr, i, h1, h2, h3, h4⟩ := cells_decomp polys 0 g hg
    rw [Nat.zero_add] at h2
    exact ⟨Cd, poly, Cr, i, h1, h2, h3, h4⟩
  refine ⟨by simp [vertsOf, ringOf, ring_n], fun i hi => vertsOf_get hi, ?_, ?_, ?_, ?_, ?_, ?_⟩
  · intro g hg
    obtain ⟨Cd, poly, Cr, i, hm, hC, rfl, hi⟩ := hdec g hg
    obtain ⟨-, e2, -, hle⟩ := block_facts hC hi
    show (ringOfCells _).prv _ < (cellsAll 0 polys).length
    rw [e2]
    have := Nat.mod_lt (i + poly.size - 1) (show 0 < poly.size by omega)
    omega
  · intro g hg
    obtain ⟨Cd, poly, Cr, i, hm, hC, rfl, hi⟩ := hdec g hg
    obtain ⟨-, -, e3, hle⟩ := block_facts hC hi
    show (ringOfCells _).nxt _ < (cellsAll 0 polys).length
    rw [e3]
    have := Nat.mod_lt (i + 1) (show 0 < poly.size by omega)
    omega
  · intro g hg
    obtain ⟨Cd, poly, Cr, i, hm, hC, rfl, hi⟩ := hdec g hg
    obtain ⟨-, -, e3, -⟩ := block_facts hC hi
    have hj := Nat.mod_lt (i + 1) (show 0 < poly.size by omega)
    obtain ⟨-, f2, -, -⟩ := block_facts hC hj
    show (ringOfCells _).prv ((ringOfCells _).nxt _) = _
    rw [e3, f2, mod_next_prev hi]
  · intro g hg
    obtain ⟨Cd, poly, Cr, i, hm, hC, rfl, hi⟩ := hdec g hg
    obtain ⟨-, e2, -, -⟩ := block_facts hC hi
    have hj := Nat.mod_lt (i + poly.size - 1) (show 0 < poly.size by omega)
    obtain ⟨-, -, f3, -⟩ := block_facts hC hj
    show (ringOfCells _).nxt ((ringOfCells _).prv _) = _
    rw [e2, f3, mod_prev_next hi]
  · intro g hg
    obtain ⟨Cd, poly, Cr, i, hm, hC, rfl, hi⟩ := hdec g hg
    obtain ⟨-, e2, e3, -⟩ := block_facts hC hi
    show (ringOfCells _).prv _ ≠ (ringOfCells _).nxt _
    rw [e2, e3]
    have := mod_prev_ne_next (h3 poly hm) hi
    omega
  · intro i j hi hj e
    change i < (cellsAll 0 polys).length at hi
    change j < (cellsAll 0 polys).length at hj
    have hpts := cellsAll_pts polys 0
    rw [← hpts, List.map_map] at hx
    have hi' : i < ((cellsAll 0 polys).map ((fun x => x.1) ∘ fun x => x.1)).length := by simpa using hi
    have hj' : j < ((cellsAll 0 polys).map ((fun x => x.1) ∘ fun x => x.1)).length := by simpa using hj
    apply (List.Nodup.getElem_inj_iff hx (hi := hi') (hj := hj')).mp
    have hci : (cellsAll 0 polys)[i]? = some (cellsAll 0 polys)[i] := List.getElem?_eq_getElem hi
    have hcj : (cellsAll 0 polys)[j]? = some (cellsAll 0 polys)[j] := List.getElem?_eq_getElem hj
    have ei := (ring_cell hci).1
    have ej := (ring_cell hcj).1
    simp only [List.getElem_map, Function.comp]
    show ((cellsAll 0 polys)[i]).1.1 = ((cellsAll 0 polys)[j]).1.1
    rw [← ei, ← ej]
    exact e

end Cav.GenRing
