/-
  The root `x*` that `c_raw` obtains from `find_root_brent` for a level `y` inside the range of a
  POLYNOMIAL `f = adPoly pf`: it locates a true real solution `ζ` of `f(ζ) = y` in the hull of the
  two bracket ends (intermediate value theorem, `Lemmas/RootIVT.lean`); if `f` is injective on
  that hull (e.g. strictly monotone) and `y = f(x_i)` with `x_i` in the hull, then `ζ = x_i`.
-/
import Cav.Lemmas.RsCurves
import Cav.Thm.C11Roots

namespace Cav.RsCurves
open Cav Num Gen Cav.DispL Cav.C01 Cav.C07Accuracy Cav.C11Roots

/-- the function handed to `find_root_brent` by `c_raw` for `f = adPoly pf` is `evalPoly pf − y` -/
theorem level_fun_adPoly (pf : List Rat) (y : Rat) :
    (fun x => D1.f (adPoly pf) x - y) = (fun x => evalPoly pf x - y) := by
  funext x; rw [D1_f_adPoly]

/-- **a successful Brent run on `f − y` locates a real solution of `f(ζ) = y`** in the closed
    interval spanned by the bracket ends: `ζ = x*`, or `0 < tol` and `|x* − ζ| < 2·tol` -/
theorem brent_level_near_real (pf : List Rat) (y lo hi tol : Rat) (n : Nat) (xs : Rat)
    (h : findRootBrent lo hi (fun x => D1.f (adPoly pf) x - y) tol n = .ok xs) :
    ∃ ζ : ℝ, evalPolyR pf ζ = (y : ℝ) ∧ ((min lo hi : Rat) : ℝ) ≤ ζ ∧ ζ ≤ ((max lo hi : Rat) : ℝ) ∧
      Located tol xs ζ := by
  rw [level_fun_adPoly] at h
  have hF : Continuous (fun ξ : ℝ => evalPolyR pf ξ - (y : ℝ)) :=
    (evalPolyR_continuous pf).sub continuous_const
  have hFf : ∀ q : Rat, (fun ξ : ℝ => evalPolyR pf ξ - (y : ℝ)) (q : ℝ) =
      (((fun x => evalPoly pf x - y) q : Rat) : ℝ) := by
    intro q
    simp only [evalPolyR_cast, Rat.cast_sub]
  rcases brent_near_real_root_of_continuous (fun x => evalPoly pf x - y) _ hF hFf lo hi tol n xs h with
    ⟨h0, hr⟩ | ⟨u, v, ξ, -, hw, hu, hv, hξ, g1, g2, hd⟩
  · refine ⟨(xs : ℝ), ?_, (cast_hull hr).1, (cast_hull hr).2, Or.inl rfl⟩
    have : evalPoly pf xs = y := by linarith
    rw [evalPolyR_cast, this]
  · have htol : 0 < tol := by
      have := abs_nonneg (v - u); linarith
    obtain ⟨b1, b2⟩ := between_bounds (cast_hull hu) (cast_hull hv) (le_of_lt g1) (le_of_lt g2)
    exact ⟨ξ, by linarith, b1, b2, Or.inr ⟨htol, hd⟩⟩

/-- **with injectivity**: if `evalPolyR pf` is injective on the hull of the bracket ends, `x_i` lies
    in that hull and the level is `y = f(x_i)`, then the located solution IS `x_i`: the Brent result
    equals `x_i`, or `0 < tol` and `|x* − x_i| < 2·tol` -/
theorem brent_level_near_point (pf : List Rat) (lo hi tol : Rat) (n : Nat) (xi xs : Rat)
    (hxi : min lo hi ≤ xi ∧ xi ≤ max lo hi)
    (hinj : Set.InjOn (evalPolyR pf) (Set.Icc ((min lo hi : Rat) : ℝ) ((max lo hi : Rat) : ℝ)))
    (h : findRootBrent lo hi (fun x => D1.f (adPoly pf) x - D1.f (adPoly pf) xi) tol n = .ok xs) :
    xs = xi ∨ (0 < tol ∧ |xs - xi| < 2 * tol) := by
  obtain ⟨ζ, hζ, h1, h2, hl⟩ := brent_level_near_real pf _ lo hi tol n xs h
  have hζi : ζ = (xi : ℝ) := by
    apply hinj ⟨h1, h2⟩ (cast_hull hxi)
    rw [hζ, D1_f_adPoly, evalPolyR_cast]
  subst hζi
  rcases hl with e | ⟨ht, hd⟩
  · left; exact_mod_cast e.symm
  · right
    refine ⟨ht, ?_⟩
    have : ((|xs - xi| : Rat) : ℝ) < ((2 * tol : Rat) : ℝ) := by
      push_cast; exact hd
    exact_mod_cast this

/-- the bound `≤ 2·tol` for a non-negative tolerance -/
theorem brent_level_near_point_le (pf : List Rat) (lo hi tol : Rat) (n : Nat) (xi xs : Rat)
    (htol : 0 ≤ tol) (hxi : min lo hi ≤ xi ∧ xi ≤ max lo hi)
    (hinj : Set.InjOn (evalPolyR pf) (Set.Icc ((min lo hi : Rat) : ℝ) ((max lo hi : Rat) : ℝ)))
    (h : findRootBrent lo hi (fun x => D1.f (adPoly pf) x - D1.f (adPoly pf) xi) tol n = .ok xs) :
    |xs - xi| ≤ 2 * tol := by
  rcases brent_level_near_point pf lo hi tol n xi xs hxi hinj h with rfl | ⟨-, hd⟩
  · rw [sub_self, abs_zero]; linarith
  · exact le_of_lt hd

/-! ### the hull of the bracket `[minX, maxX]` of `c_raw` is the trimmed piece -/

section hull
variable (f : AD Rat → AD Rat) (cfg : Cfg2D Rat) (a b : Rat)

theorem rsMinMaxX_cases :
    (rsMinX f cfg a b = rsLo cfg a b ∧ rsMaxX f cfg a b = rsHi cfg a b) ∨
    (rsMinX f cfg a b = rsHi cfg a b ∧ rsMaxX f cfg a b = rsLo cfg a b) := by
  unfold rsMinX rsMaxX
  cases rsSw f cfg a b
  · left; exact ⟨rfl, rfl⟩
  · right; exact ⟨rfl, rfl⟩

/-- the bracket ends are the two trimmed piece ends, in some order -/
theorem rs_hull_eq :
    min (rsMinX f cfg a b) (rsMaxX f cfg a b) = min (rsLo cfg a b) (rsHi cfg a b) ∧
    max (rsMinX f cfg a b) (rsMaxX f cfg a b) = max (rsLo cfg a b) (rsHi cfg a b) := by
  rcases rsMinMaxX_cases f cfg a b with ⟨e1, e2⟩ | ⟨e1, e2⟩ <;> rw [e1, e2]
  · exact ⟨rfl, rfl⟩
  · exact ⟨min_comm _ _, max_comm _ _⟩

/-- the trimmed ends over `Rat`: `min a b + tol` and `max a b − tol` -/
theorem rsLo_eq : rsLo cfg a b = min a b + cfg.tol := by
  unfold rsLo rsOrd
  show (if decide (b < a) = true then (b, a) else (a, b)).1 + cfg.tol = _
  by_cases h : b < a
  · simp [h, min_eq_right (le_of_lt h)]
  · simp [h, min_eq_left (not_lt.mp h)]

theorem rsHi_eq : rsHi cfg a b = max a b - cfg.tol := by
  unfold rsHi rsOrd
  show (if decide (b < a) = true then (b, a) else (a, b)).2 - cfg.tol = _
  by_cases h : b < a
  · simp [h, max_eq_left (le_of_lt h)]
  · simp [h, max_eq_right (not_lt.mp h)]

/-- a point of the trimmed piece lies in the hull of the bracket ends -/
theorem rs_mem_hull {x : Rat} (h1 : min a b + cfg.tol ≤ x) (h2 : x ≤ max a b - cfg.tol) :
    min (rsMinX f cfg a b) (rsMaxX f cfg a b) ≤ x ∧ x ≤ max (rsMinX f cfg a b) (rsMaxX f cfg a b) := by
  obtain ⟨e1, e2⟩ := rs_hull_eq f cfg a b
  rw [e1, e2, rsLo_eq, rsHi_eq]
  exact ⟨le_trans (min_le_left _ _) h1, le_trans h2 (le_max_right _ _)⟩

end hull

end Cav.RsCurves
