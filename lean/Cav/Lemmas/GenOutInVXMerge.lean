/-
  Tiling WITHOUT the hypothesis of distinct abscissae: copy of `GenOutVXMerge.xendV_merge` with the generic
  identity `GenFV` in addition (the clause is the one of `GenOutInXMerge.lean`, for the sheared ring).
-/
import Cav.Lemmas.GenOutXMerge
import Cav.Lemmas.GenOutVXClose
import Cav.Lemmas.GenOutInVDefs
import Cav.Lemmas.GenOutVXMerge

set_option linter.unusedVariables false
set_option linter.unusedSimpArgs false

namespace Cav.GenOutInV
open Cav Num Cav.Geo Cav.Sweep Cav.TriRun Cav.QuadRun Cav.QuadGeom Cav.SweepOut Cav.CvxEvents Cav.CvxLoop
open Cav.CvxHeap Cav.GenNodes Cav.GenInv Cav.GenQueue Cav.MonoGeom Cav.MonoHeap Cav.MonoFan Cav.GenOutShape
open Cav.GenOutDefs Cav.GenLinks Cav.GenOrder Cav.GenOutInv Cav.GenOutCount Cav.GenOutAux
open Cav.GenOutStepAux Cav.GenOutFan Cav.GenOutBend Cav.GenOutEnd Cav.GenOutHeap Cav.GenStepBend
open Cav.GenOutXBend Cav.GenOutXEnd
open Cav.GenVShear Cav.GenVBridge Cav.GenVInv Cav.GenOutV
open Cav.GenOutVX Cav.GenOutIn
open Cav.GenGeom hiding Q

variable {R : RingQ} {ε : Rat} {Vε : Array (Vtx XQ)}

/-- **End at which two in-intervals merge**, equal abscissae allowed -/
theorem xendV_mergeT (hSh : ShOK R ε Vε) {s : St XQ} {xs X : Rat} {pre post : List IV} {iv1 iv2 : IV}
    {G : Nat → CH} (hT : XInvTV R ε s xs X (pre ++ iv1 :: iv2 :: post) G)
    {w : Nat} {es : List Nat} {rest : List (Nat × List Nat)} (hev : s.events = (w, es) :: rest)
    (hx0 : (shearRing ε R).x (R.prv w) < (shearRing ε R).x w)
    (hx1 : (shearRing ε R).x (R.nxt w) < (shearRing ε R).x w)
    (hE : EndMergeV R ε s pre iv1 iv2 post w) :
    ∃ s' G', (handleNext : SM XQ Unit).run s = .ok ((), s') ∧
      XInvTV R ε s' ((shearRing ε R).x w) (R.x w) (pre ++ ⟨iv1.lo, iv2.hi, s.chains.size⟩ :: post) G' := by
  have hX := hT.base
  obtain ⟨hbr, htr, cB, cT, sm0, N1, N2, out2, N3, out3, s', hcB, hcT, hs0n, hs0o, hmerge, hnt2, hnt3,
    hrun, hs'n, hs'o, hs'c, hI'⟩ := hE
  rw [← FqU_pt ε R w] at hmerge
  have hN := hSh.nocross
  have hI := hX.inv
  have hR := hSh.ring
  have hq := hI.q
  rw [hev] at hq
  have hwq := hq.gt (w, es) List.mem_cons_self
  have hwn : w < (shearRing ε R).n := hwq.1
  have hxs : xs < (shearRing ε R).x w := hwq.2
  have hgap := no_gap hR hq hI.cross
  have hm1 : iv1 ∈ pre ++ iv1 :: iv2 :: post := by simp
  have hm2 : iv2 ∈ pre ++ iv1 :: iv2 :: post := by simp
  have hok1 := hX.ok iv1 hm1
  have hok2 := hX.ok iv2 hm2
  obtain ⟨ch1, hch1, hhd1, htl1, hrm1⟩ := hok1.cell
  rw [hcB] at hch1
  cases hch1
  obtain ⟨ch2, hch2, hhd2, htl2, hrm2⟩ := hok2.cell
  rw [hcT] at hch2
  cases hch2
  obtain ⟨-, -, -, -, hcc1⟩ := Linked.mem hI.lk iv1 hm1
  obtain ⟨-, -, -, -, hcc2⟩ := Linked.mem hI.lk iv2 hm2
  obtain ⟨hhdpt1, htlpt1⟩ := hok1.ends hcc1
  obtain ⟨hhdpt2, htlpt2⟩ := hok2.ends hcc2
  have hsh1 := hok1.shape
  have hsh2 := hok2.shape
  have hfl1 := hX.flags iv1 hm1
  have hfl2 := hX.flags iv2 hm2
  -- the four edges
  have hflat : flatE (pre ++ iv1 :: iv2 :: post) =
      flatE pre ++ iv1.lo :: iv1.hi :: iv2.lo :: iv2.hi :: flatE post := by simp
  have hsp1lo := hI.span iv1.lo (by rw [hflat]; simp)
  have hsp1hi := hI.span iv1.hi (by rw [hflat]; simp)
  have hsp2lo := hI.span iv2.lo (by rw [hflat]; simp)
  have hsp2hi := hI.span iv2.hi (by rw [hflat]; simp)
  have hP := hI.sorted
  rw [hflat, List.pairwise_append] at hP
  obtain ⟨-, hPmid, -⟩ := hP
  rw [List.pairwise_cons, List.pairwise_cons, List.pairwise_cons] at hPmid
  obtain ⟨hP1, hP2, hP3, -⟩ := hPmid
  have hb11 : Below (shearRing ε R) xs iv1.lo iv1.hi := hP1 _ List.mem_cons_self
  have hb12 : Below (shearRing ε R) xs iv1.hi iv2.lo := hP2 _ List.mem_cons_self
  have hb22 : Below (shearRing ε R) xs iv2.lo iv2.hi := hP3 _ List.mem_cons_self
  have hflat' : flatE (pre ++ (⟨iv1.lo, iv2.hi, s.chains.size⟩ : IV) :: post) =
      flatE pre ++ iv1.lo :: iv2.hi :: flatE post := by simp
  have hgo1 : (shearRing ε R).x w < (shearRing ε R).x iv1.lo.rv := (hI'.span iv1.lo (by rw [hflat']; simp)).gt
  have hgo2 : (shearRing ε R).x w < (shearRing ε R).x iv2.hi.rv := (hI'.span iv2.hi (by rw [hflat']; simp)).gt
  have hpabove := pt_above_end hN hsp1lo hsp1hi hb11 hbr hgo1
  have hpbelow := pt_below_end hN hsp2lo hsp2hi hb22 htr hgo2
  have hune : iv1.hi.lv ≠ iv2.lo.lv := by
    intro e
    have := hI.q.uniq iv1.hi (by rw [hflat]; simp) iv2.lo (by rw [hflat]; simp) e (by rw [hbr, htr])
    rw [this] at hb12
    exact below_irrefl xs _ hb12
  have hnb := end_nb hR hsp1hi hsp2lo hbr htr hune
  have hxB : (shearRing ε R).x iv1.hi.lv < (shearRing ε R).x w := by have := hsp1hi.lt; rwa [hbr] at this
  have hxT : (shearRing ε R).x iv2.lo.lv < (shearRing ε R).x w := by have := hsp2lo.lt; rwa [htr] at this
  have hori := end_orient hsp1hi hsp2lo hbr htr hb12 hune
  have hnloB : ¬ isLo (shearRing ε R) iv1.hi.lv w := by have := hfl1.2; rwa [hbr] at this
  have hloT : isLo (shearRing ε R) iv2.lo.lv w := by have := hfl2.1; rwa [htr] at this
  -- the backward fan over the lower chain
  have he01 : ((G iv1.ci).up.map Prod.snd).getLast? = some ((shearRing ε R).pt iv1.hi.lv) := by
    rw [List.getLast?_map, (G iv1.ci).up_last, Option.map_some, htlpt1]
  have hside1 : ∀ q ∈ ((G iv1.ci).up.map Prod.snd).dropLast,
      0 < (-1 : Rat) * orient ((shearRing ε R).pt iv1.hi.lv) ((shearRing ε R).pt w) q := by
    intro q hq
    have := hsh1.belowHi q hq
    rw [hbr] at this
    linarith
  obtain ⟨dr1, g1, rest1, hsplit1, hfan1, hstop1, hxd1, hnt1⟩ := fan_view (-1) ((shearRing ε R).pt w) (G iv1.ci).Y
    (G iv1.ci).m (G iv1.ci).X ((shearRing ε R).pt iv1.hi.lv) hsh1.xdY hsh1.xdX (by rw [neg_neg]; exact hsh1.ntY)
    hsh1.ntX (lt_of_le_of_lt hsh1.mx hxs) he01 hside1
  -- the forward fan over the upper chain
  have he02 : ((G iv2.ci).dn.map Prod.snd).getLast? = some ((shearRing ε R).pt iv2.lo.lv) := by
    rw [List.getLast?_map, (G iv2.ci).dn_last, Option.map_some, hhdpt2]
  have hside2 : ∀ q ∈ ((G iv2.ci).dn.map Prod.snd).dropLast,
      0 < (1 : Rat) * orient ((shearRing ε R).pt iv2.lo.lv) ((shearRing ε R).pt w) q := by
    intro q hq
    have := hsh2.aboveLo q hq
    rw [htr] at this
    linarith
  obtain ⟨dr2, g2, rest2, hsplit2, hfan2, hstop2, hxd2, hnt2'⟩ := fan_view 1 ((shearRing ε R).pt w) (G iv2.ci).X
    (G iv2.ci).m (G iv2.ci).Y ((shearRing ε R).pt iv2.lo.lv) hsh2.xdX hsh2.xdY hsh2.ntX hsh2.ntY
    (lt_of_le_of_lt hsh2.mx hxs) he02 hside2
  -- the chains as lists
  have hl1 : (G iv1.ci).l.reverse = ((G iv1.ci).Y.reverse ++ dr1) ++ g1 :: rest1 := by
    rw [CH.l_rev, hsplit1]; simp
  have hl2 : (G iv2.ci).l = ((G iv2.ci).X.reverse ++ dr2) ++ g2 :: rest2 := by
    unfold CH.l
    rw [hsplit2]; simp
  have hs1 : (hpU ε (G iv1.ci).l).reverse =
      hpU ε ((G iv1.ci).Y.reverse ++ dr1) ++ (g1.1, FqU ε g1.2) :: hpU ε rest1 := by
    rw [← hpU_reverse, hl1, hpU_append]; rfl
  have hs2 : hpU ε (G iv2.ci).l = hpU ε ((G iv2.ci).X.reverse ++ dr2) ++ (g2.1, FqU ε g2.2) :: hpU ε rest2 := by
    rw [hl2, hpU_append]; rfl
  have hbt : some cB.tail = ((hpU ε (G iv1.ci).l).getLast?).map Prod.fst := by
    unfold hpU
    rw [List.getLast?_map, (G iv1.ci).last_l, htl1]; rfl
  have hth : some cT.head = ((hpU ε (G iv2.ci).l).head?).map Prod.fst := by
    unfold hpU
    rw [List.head?_map, (G iv2.ci).head_l, hhd2]; rfl
  have hndl : ((hpU ε (G iv1.ci).l ++ hpU ε (G iv2.ci).l).map Prod.fst).Nodup := by
    rw [List.map_append, hpU_fst, hpU_fst]; exact nd_pair hX.nd
  obtain ⟨N1', N2', N3', hr1, hsz1, hr2, hr3, hseg', hsz3, hfr'⟩ := merge_fans s.nodes (hpU ε (G iv1.ci).l)
    (hpU ε (G iv2.ci).l) (by simp [hpU, CH.l]) (by simp [hpU, CH.l]) hok1.seg hok2.seg hndl cB cT hbt hth
    (FqU ε ((shearRing ε R).pt w)) sm0 hs0n (s.nodes.size + 1 + 2) (by omega) hs1 (fanB_hpU _ _ _ hfan1)
    (stopB_hpU _ _ _ hxd1 hstop1) hs2 (fanF_hpU _ _ _ hfan2) (stopF_hpU _ _ _ hxd2 hstop2)
  -- the runs of the model are these runs
  have eN1 : N1 = N1' := congrArg St.nodes (run_state_inj hmerge hr1)
  subst eN1
  rw [hsz1] at hnt2 hnt3
  have e2 := run_state_inj hnt2 hr2
  have eN2 : N2 = N2' := congrArg St.nodes e2
  have eo2 : out2 = _ := congrArg St.out e2
  subst eN2
  subst eo2
  have e3 := run_state_inj hnt3 hr3
  have eN3 : N3 = N3' := congrArg St.nodes e3
  have eo3 : out3 = _ := congrArg St.out e3
  obtain ⟨ta1, tl1⟩ := trisB_hpU _ _ _ hfan1
  obtain ⟨ta2, tl2⟩ := trisF_hpU _ _ _ hfan2
  subst eN3
  subst eo3
  -- the new description
  obtain ⟨G', hG'⟩ : ∃ G' : Nat → CH, G' = Function.update G s.chains.size
      ⟨g1 :: rest1, (s.nodes.size, (shearRing ε R).pt w), g2 :: rest2⟩ := ⟨_, rfl⟩
  have hcilt : ∀ j ∈ pre ++ iv1 :: iv2 :: post, j.ci < s.chains.size := by
    intro j hj
    obtain ⟨ch, hch, -⟩ := (hX.ok j hj).cell
    exact lt_of_get' hch
  have hGo : ∀ j ∈ pre ++ iv1 :: iv2 :: post, G' j.ci = G j.ci := by
    intro j hj
    rw [hG']
    exact Function.update_of_ne (Nat.ne_of_lt (hcilt j hj)) _ _
  have hGs : G' s.chains.size = ⟨g1 :: rest1, (s.nodes.size, (shearRing ε R).pt w), g2 :: rest2⟩ := by
    rw [hG']
    exact Function.update_self _ _ _
  clear hG'
  refine ⟨s', G', hrun, ?_⟩
  have hjm : ∀ j ∈ pre ++ post, j ∈ pre ++ iv1 :: iv2 :: post := by
    intro j hj
    rcases List.mem_append.mp hj with h | h
    · exact List.mem_append_left _ h
    · exact List.mem_append_right _ (List.mem_cons_of_mem _ (List.mem_cons_of_mem _ h))
  have hothers : ∀ j ∈ pre ++ post, ChainOKV R ε s' ((shearRing ε R).x w) j (G' j.ci) := by
    intro j hj
    refine other_okV hX (le_of_lt hxs) (hjm j hj) (hGo j (hjm j hj)) ?_ ?_
    · rw [hs'c, Array.getElem?_push_lt (hcilt j (hjm j hj)), ← Array.getElem?_eq_getElem]
    · intro x hx
      rw [hs'n]
      apply hfr' x.1 (SegU.idx_lt (hX.ok j (hjm j hj)).seg x hx)
      intro y hy
      have hy' : y ∈ hpU ε ((G iv1.ci).l ++ (G iv2.ci).l) := by rw [hpU_append]; exact hy
      obtain ⟨y0, hy0, rfl⟩ := List.mem_map.mp hy'
      exact fun e => nd_disj2 hX.nd j hj x hx y0 hy0 e.symm
  refine ⟨⟨hI', ?_, ?_, ?_, ?_, ?_, ?_, fun h => absurd h (by simp), ?_⟩, ?_⟩
  · -- chains
    intro j hj
    rcases List.mem_append.mp hj with hj | hj
    · exact hothers j (List.mem_append_left _ hj)
    · rcases List.mem_cons.mp hj with rfl | hj
      · show ChainOKV R ε s' ((shearRing ε R).x w) _ (G' s.chains.size)
        rw [hGs]
        refine ⟨⟨⟨s.nodes.size, cB.head, cT.tail⟩, ?_, ?_, ?_, rfl⟩, ?_, ?_⟩
        · rw [hs'c]; exact Array.getElem?_push_size
        · show cB.head = (lastD (s.nodes.size, (shearRing ε R).pt w) (g1 :: rest1)).1
          rw [hhd1]
          show (lastD (G iv1.ci).m (G iv1.ci).X).1 = (lastD g1 rest1).1
          rw [lastD_suffix hsplit1]
        · show cT.tail = (lastD (s.nodes.size, (shearRing ε R).pt w) (g2 :: rest2)).1
          rw [htl2]
          show (lastD (G iv2.ci).m (G iv2.ci).Y).1 = (lastD g2 rest2).1
          rw [lastD_suffix hsplit2]
        · rw [hs'n]
          have : hpU ε (CH.l ⟨g1 :: rest1, (s.nodes.size, (shearRing ε R).pt w), g2 :: rest2⟩) =
              (hpU ε rest1).reverse ++ (g1.1, FqU ε g1.2) :: (s.nodes.size, FqU ε ((shearRing ε R).pt w)) :: (g2.1, FqU ε g2.2) ::
                hpU ε rest2 := by
            simp [CH.l, hpU]
          rw [this]; exact hseg'
        · refine ⟨hxd1, hxd2, hnt1, hnt2', le_refl _, ?_, ?_⟩
          · intro q hq
            have e : (CH.dn ⟨g1 :: rest1, (s.nodes.size, (shearRing ε R).pt w), g2 :: rest2⟩).map Prod.snd =
                (shearRing ε R).pt w :: (g1 :: rest1).map Prod.snd := rfl
            rw [e, List.map_cons, List.dropLast_cons_cons] at hq
            rcases List.mem_cons.mp hq with rfl | hq
            · exact hpabove
            · apply hsh1.aboveLo q
              have hdn : (G iv1.ci).dn.map Prod.snd = dr1.map Prod.snd ++ (g1 :: rest1).map Prod.snd := by
                show ((G iv1.ci).m :: (G iv1.ci).X).map Prod.snd = _
                rw [hsplit1, List.map_append]
              exact mem_dropLast_suffix hdn (by simp) (by simpa using hq)
          · intro q hq
            have e : (CH.up ⟨g1 :: rest1, (s.nodes.size, (shearRing ε R).pt w), g2 :: rest2⟩).map Prod.snd =
                (shearRing ε R).pt w :: (g2 :: rest2).map Prod.snd := rfl
            rw [e, List.map_cons, List.dropLast_cons_cons] at hq
            rcases List.mem_cons.mp hq with rfl | hq
            · exact hpbelow
            · apply hsh2.belowHi q
              have hup : (G iv2.ci).up.map Prod.snd = dr2.map Prod.snd ++ (g2 :: rest2).map Prod.snd := by
                show ((G iv2.ci).m :: (G iv2.ci).Y).map Prod.snd = _
                rw [hsplit2, List.map_append]
              exact mem_dropLast_suffix hup (by simp) (by simpa using hq)
      · exact hothers j (List.mem_append_right _ hj)
  · -- node indices
    rw [idxs_append, idxs_cons, idxs_congr (fun j hj => hGo j (hjm j (List.mem_append_left _ hj))),
      idxs_congr (fun j hj => hGo j (hjm j (List.mem_append_right _ hj)))]
    show (idxs G pre ++ ((G' s.chains.size).l.map Prod.fst ++ idxs G post)).Nodup
    rw [hGs]
    have hnd := hX.nd
    rw [idxs_append, idxs_cons, idxs_cons] at hnd
    have hsub1 : ((g1 :: rest1).reverse.map Prod.fst).Sublist ((G iv1.ci).l.map Prod.fst) := by
      have h := (sub_of_split hl1).reverse
      rw [List.reverse_reverse] at h
      exact h.map Prod.fst
    have := nodup_replace2 (n := s.nodes.size) hnd hsub1 ((sub_of_split hl2).map Prod.fst) (by
        intro k hk
        apply idx_ne_sizeV hX k
        rw [idxs_append, idxs_cons, idxs_cons]; exact hk)
    simpa [CH.l] using this
  · -- flags
    intro j hj
    rcases List.mem_append.mp hj with hj | hj
    · exact hX.flags j (List.mem_append_left _ hj)
    · rcases List.mem_cons.mp hj with rfl | hj
      · exact ⟨hfl1.1, hfl2.2⟩
      · exact hX.flags j (List.mem_append_right _ (List.mem_cons_of_mem _ (List.mem_cons_of_mem _ hj)))
  · -- count
    have hcnt := hX.count
    rw [cnt_step hR hwn hxs hgap, vWeight_end hnb hxB hxT hori, if_neg hnloB]
    rw [hs'o, List.length_append, List.length_append, tl1, tl2, hs0o]
    rw [lenSum_append, lenSum_cons, lenSum_congr (fun j hj => hGo j (hjm j (List.mem_append_left _ hj))),
      lenSum_congr (fun j hj => hGo j (hjm j (List.mem_append_right _ hj)))]
    show _ + (lenSum G pre + ((G' s.chains.size).l.length + lenSum G post)) = _
    rw [hGs]
    rw [lenSum_append, lenSum_cons, lenSum_cons] at hcnt
    have e1 : (G iv1.ci).l.length = ((G iv1.ci).Y.reverse ++ dr1).length + 1 + rest1.length := by
      have := congrArg List.length hl1
      simp only [List.length_reverse, List.length_append, List.length_cons] at this ⊢
      omega
    have e2 : (G iv2.ci).l.length = ((G iv2.ci).X.reverse ++ dr2).length + 1 + rest2.length := by
      have := congrArg List.length hl2
      simp only [List.length_reverse, List.length_append, List.length_cons] at this ⊢
      omega
    rw [e1, e2] at hcnt
    simp only [CH.l, List.length_append, List.length_cons, List.length_reverse, List.length_nil] at hcnt ⊢
    omega
  · -- area
    have harea := hX.area
    rw [wDone_endM hR hwn hxs hgap hnb hxB hxT]
    rw [pathTot_append, pathTot_cons, pathTot_congr (fun j hj => hGo j (hjm j (List.mem_append_left _ hj))),
      pathTot_congr (fun j hj => hGo j (hjm j (List.mem_append_right _ hj)))]
    show _ = _ + (pathTot G pre + (pathSum ((G' s.chains.size).l.map Prod.snd) + pathTot G post))
    rw [hGs, hs'o, areaSum_append, areaSum_append, ta1, ta2, hs0o, harea, pathTot_append, pathTot_cons,
      pathTot_cons]
    have e1 : ((G iv1.ci).l.map Prod.snd).reverse =
        ((G iv1.ci).Y.reverse ++ dr1).map Prod.snd ++ g1.2 :: rest1.map Prod.snd := by
      rw [← List.map_reverse, hl1]; simp
    have eh1 : ((G iv1.ci).l.map Prod.snd).reverse.head? = some ((shearRing ε R).pt iv1.hi.lv) := by
      rw [List.head?_reverse, List.getLast?_map, (G iv1.ci).last_l, Option.map_some, htlpt1]
    have e2 : (G iv2.ci).l.map Prod.snd =
        ((G iv2.ci).X.reverse ++ dr2).map Prod.snd ++ g2.2 :: rest2.map Prod.snd := by
      rw [hl2]; simp
    have eh2 : ((G iv2.ci).l.map Prod.snd).head? = some ((shearRing ε R).pt iv2.lo.lv) := by
      rw [List.head?_map, (G iv2.ci).head_l, Option.map_some, hhdpt2]
    have hacct := merge_acct ((shearRing ε R).pt w) ((shearRing ε R).pt iv1.hi.lv) ((shearRing ε R).pt iv2.lo.lv) _ g1.2 (rest1.map Prod.snd) _ g2.2
      (rest2.map Prod.snd) _ _ e1 eh1 e2 eh2
    have e3 : (CH.l ⟨g1 :: rest1, (s.nodes.size, (shearRing ε R).pt w), g2 :: rest2⟩).map Prod.snd =
        (rest1.map Prod.snd).reverse ++ g1.2 :: (shearRing ε R).pt w :: g2.2 :: rest2.map Prod.snd := by simp [CH.l]
    have e4 : (((G iv1.ci).Y.reverse ++ dr1) ++ [g1]).map Prod.snd =
        ((G iv1.ci).Y.reverse ++ dr1).map Prod.snd ++ [g1.2] := by simp
    have e5 : (((G iv2.ci).X.reverse ++ dr2) ++ [g2]).map Prod.snd =
        ((G iv2.ci).X.reverse ++ dr2).map Prod.snd ++ [g2.2] := by simp
    rw [e3, hacct, e4, e5]
    unfold eSigned
    rw [if_neg hnloB, if_pos hloT, cross_swap ((shearRing ε R).pt w) ((shearRing ε R).pt iv1.hi.lv),
      cross_swap ((shearRing ε R).pt w) ((shearRing ε R).pt iv2.lo.lv)]
    ring
  · -- coherence
    exact coh_step hR hwn hxs hgap hX.coh (coh_endM hnb hxB hxT hnloB hloT)
  · -- positive areas
    intro tr htr
    rw [hs'o, hs0o] at htr
    rcases List.mem_append.mp htr with h | h
    · exact trisF_posU _ _ _ hfan2 tr h
    · rcases List.mem_append.mp h with h | h
      · exact trisB_posU _ _ _ hfan1 tr h
      · exact hX.posA tr h
  · -- the generic identity
    obtain ⟨Tg, hTg, hneg, hid⟩ := hT.gen
    refine ⟨trisFq ((shearRing ε R).pt w) ((((G iv2.ci).X.reverse ++ dr2) ++ [g2]).map Prod.snd) ++
      (trisBq ((shearRing ε R).pt w) ((((G iv1.ci).Y.reverse ++ dr1) ++ [g1]).map Prod.snd) ++ Tg), ?_, ?_, ?_⟩
    · rw [hs'o, hs0o, hTg, List.map_append (f := sqU ε), List.map_append (f := sqU ε), trisF_hpU_map, trisB_hpU_map]
    · intro t ht
      rcases List.mem_append.mp ht with h | h
      · exact trisFq_neg _ _ hfan2 t h
      · rcases List.mem_append.mp h with h | h
        · exact trisBq_neg _ _ hfan1 t h
        · exact hneg t h
    · intro ω hω
      rw [pathTotW_append, pathTotW_cons,
        pathTotW_congr (fun j hj => hGo j (hjm j (List.mem_append_left _ hj))),
        pathTotW_congr (fun j hj => hGo j (hjm j (List.mem_append_right _ hj)))]
      show _ = _ + (pathTotW ω G pre + (pathSumW ω ((G' s.chains.size).l.map Prod.snd) + pathTotW ω G post))
      rw [hGs, muSum_append, muSum_append, muSum_trisFq hω, muSum_trisBq hω, hid ω hω,
        wDoneW_end hR ω hwn hxs hgap hnb hx0 hx1, pathTotW_append, pathTotW_cons, pathTotW_cons]
      have e1 : ((G iv1.ci).l.map Prod.snd).reverse =
          ((G iv1.ci).Y.reverse ++ dr1).map Prod.snd ++ g1.2 :: rest1.map Prod.snd := by
        rw [← List.map_reverse, hl1]; simp
      have eh1 : ((G iv1.ci).l.map Prod.snd).reverse.head? = some ((shearRing ε R).pt iv1.hi.lv) := by
        rw [List.head?_reverse, List.getLast?_map, (G iv1.ci).last_l, Option.map_some, htlpt1]
      have e2 : (G iv2.ci).l.map Prod.snd =
          ((G iv2.ci).X.reverse ++ dr2).map Prod.snd ++ g2.2 :: rest2.map Prod.snd := by
        rw [hl2]; simp
      have eh2 : ((G iv2.ci).l.map Prod.snd).head? = some ((shearRing ε R).pt iv2.lo.lv) := by
        rw [List.head?_map, (G iv2.ci).head_l, Option.map_some, hhdpt2]
      have hacct := merge_acctW hω ((shearRing ε R).pt w) ((shearRing ε R).pt iv1.hi.lv) ((shearRing ε R).pt iv2.lo.lv) _ g1.2 (rest1.map Prod.snd) _ g2.2
        (rest2.map Prod.snd) _ _ e1 eh1 e2 eh2
      have e3 : (CH.l ⟨g1 :: rest1, (s.nodes.size, (shearRing ε R).pt w), g2 :: rest2⟩).map Prod.snd =
          (rest1.map Prod.snd).reverse ++ g1.2 :: (shearRing ε R).pt w :: g2.2 :: rest2.map Prod.snd := by simp [CH.l]
      have e4 : (((G iv1.ci).Y.reverse ++ dr1) ++ [g1]).map Prod.snd =
          ((G iv1.ci).Y.reverse ++ dr1).map Prod.snd ++ [g1.2] := by simp
      have e5 : (((G iv2.ci).X.reverse ++ dr2) ++ [g2]).map Prod.snd =
          ((G iv2.ci).X.reverse ++ dr2).map Prod.snd ++ [g2.2] := by simp
      rw [e3, hacct, e4, e5]
      unfold eSignedW
      rw [if_neg hnloB, if_pos hloT, hω ((shearRing ε R).pt iv1.hi.lv) ((shearRing ε R).pt w), hω ((shearRing ε R).pt iv2.lo.lv) ((shearRing ε R).pt w)]
      ring

end Cav.GenOutInV
