/-
  A concrete NON-polynomial instance for `Thm/C07Approx` (non-vacuity with `δ > 0`).

  `bumpG pg t` is the integrator closure `g = pg` (Horner closure `adPoly pg`) whose derivative
  component is off by `t` at the single point `x = 1/3` — a stand-in for a closure whose
  derivative is evaluated inexactly.  The computed integrand `f·g'` is then within
  `|f(1/3)|·t` of the polynomial `f·pg'`, and differs from it at `1/3`.
  The run is checked by kernel evaluation (`decide +kernel`: no compiler, no extra axioms).
-/
import Cav.Lemmas.AccApproxDisp
import Cav.Lemmas.AccExamples

open Cav Num Gen
namespace Cav.C07Approx
open Cav.C01 Cav.C07Accuracy Cav.DispEx

/-- `adPoly pg` with the tangent component perturbed by `t` at `x = 1/3` -/
def bumpG (pg : List Rat) (t : Rat) : AD Rat → AD Rat := fun x =>
  ⟨(adPoly pg x).v, (adPoly pg x).d + (if x.v = 1 / 3 then t else 0)⟩

theorem D1_df_bumpG (pg : List Rat) (t x : Rat) :
    D1.df (bumpG pg t) x = evalPoly (derivCoeffs pg) x + (if x = 1 / 3 then t else 0) := by
  simp only [D1.df, bumpG, adPoly_d, ofNat_one_rat, one_mul]

/-- the computed integrand minus the polynomial `f·pg'` -/
theorem bump_integrand_sub (pf pg : List Rat) (t x : Rat) :
    D1.f (adPoly pf) x * D1.df (bumpG pg t) x - evalPoly (rsCoeffs pf pg) x =
      evalPoly pf x * (if x = 1 / 3 then t else 0) := by
  rw [D1_f_adPoly, D1_df_bumpG, rsCoeffs, evalPoly_polyMul]
  ring

/-- the closeness hypothesis of (L1) holds with `δ = |f(1/3)|·t` -/
theorem bump_integrand_close (pf pg : List Rat) (t : Rat) (ht : 0 ≤ t) (x : Rat) :
    |D1.f (adPoly pf) x * D1.df (bumpG pg t) x - evalPoly (rsCoeffs pf pg) x| ≤
      |evalPoly pf (1 / 3)| * t := by
  rw [bump_integrand_sub]
  by_cases hx : x = 1 / 3
  · rw [if_pos hx, hx, abs_mul, abs_of_nonneg ht]
  · rw [if_neg hx, mul_zero, abs_zero]
    exact mul_nonneg (abs_nonneg _) ht

/-- RS display, `f = x`, `g = x − x²` with `g'` off by `1/1000` at `1/3`, on `[0,1]`: the run
    succeeds with the two pieces `[0,1/2]`, `[1/2,1]` -/
theorem rs_bump_ends :
    ends (genDisplayRs (adPoly [0, 1]) (bumpG [0, 1, -1] (1 / 1000)) [(0, 1)] cfgEx) =
      some [(0, 1/2), (1/2, 1)] := by
  decide +kernel

end Cav.C07Approx
