/-
  Equal abscissae, part 13 (vertical edges): the bridging lemmas without `NoVert`.  A vertical
  active edge lies on the sweep line and is seen by the model at its upper end (`yv`); against it
  the comparator of the model, the look-ahead tests and `verticalIsCrossed` are again decided by
  orientation determinants.
-/
import Cav.Lemmas.GenVBridge2
import Cav.Lemmas.QuadVGeom

set_option linter.unusedSimpArgs false
set_option linter.unusedVariables false

namespace Cav.GenVBridge
open Cav Num Cav.Geo Cav.Sweep Cav.TriRun Cav.QuadRun Cav.TriGeom Cav.QuadGeom Cav.CvxFlows
open Cav.GenQuery Cav.GenGeom Cav.GenInv Cav.GenQueue Cav.GenOrder Cav.GenStepBend Cav.GenStepEnd
open Cav.GenValid Cav.GenVShear Cav.QuadVGeom

/-! ### heights with vertical edges -/

/-- the height the model reads for the edge `l → r` at the abscissa `X` -/
def yv (l r : Q) (X : Rat) : Rat := if l.1 = r.1 then r.2 else lineY l r X

theorem yv_nonvert {l r : Q} (h : l.1 < r.1) (X : Rat) : yv l r X = lineY l r X := by
  unfold yv; rw [if_neg (ne_of_lt h)]

theorem yv_vert {l r : Q} (h : l.1 = r.1) (X : Rat) : yv l r X = r.2 := by
  unfold yv; rw [if_pos h]

theorem yE_V (l r : Q) (hl : lexLt l r) (X : Rat) (h1 : l.1 ≤ X) (h2 : X ≤ r.1) :
    yExtrap (Fq l) (Fq r) (.fin X) true = .fin (yv l r X) := by
  rcases hl with h | ⟨hx, hy⟩
  · rw [yv_nonvert h]; exact yE_in l r X h h1 h2
  · have hX : X = r.1 := le_antisymm h2 (by rw [← hx]; exact h1)
    rw [yv_vert hx, hX]
    exact yE_vert l r hx hy

theorem cmpW_lt (a b c d : Q) (X : Rat) (hab : lexLt a b) (hcd : lexLt c d) (ha : a.1 ≤ X) (hb : X ≤ b.1)
    (hc : c.1 ≤ X) (hd : X ≤ d.1) (h : yv a b X < yv c d X) :
    cmpEdgeP (Fq a) (Fq b) (Fq c) (Fq d) (.fin X) = .lt :=
  cmpEdgeP_y_lt (yE_V a b hab X ha hb) (yE_V c d hcd X hc hd) h

theorem cmpW_gt (a b c d : Q) (X : Rat) (hab : lexLt a b) (hcd : lexLt c d) (ha : a.1 ≤ X) (hb : X ≤ b.1)
    (hc : c.1 ≤ X) (hd : X ≤ d.1) (h : yv c d X < yv a b X) :
    cmpEdgeP (Fq a) (Fq b) (Fq c) (Fq d) (.fin X) = .gt :=
  cmpEdgeP_y_gt (yE_V a b hab X ha hb) (yE_V c d hcd X hc hd) h

/-- a vertical edge and a non-vertical edge into the same upper end point, compared there: the
    vertical edge (arriving from below) is below -/
theorem cmpW_fanR_vert (a c d : Q) (hx : a.1 = d.1) (hy : a.2 < d.2) (hcd : c.1 < d.1) :
    cmpEdgeP (Fq a) (Fq d) (Fq c) (Fq d) (.fin d.1) = .lt ∧
    cmpEdgeP (Fq c) (Fq d) (Fq a) (Fq d) (.fin d.1) = .gt := by
  have hy1 := yE_vert a d hx hy
  have hy2 := yE_in c d d.1 hcd hcd.le le_rfl
  rw [lineY_right c d hcd] at hy2
  constructor
  · rw [cmpEdgeP_y_eq_end hy1 hy2 (by simp [Geo.Pt.eq_fin]), grad_eq_slope c d hcd, grad_vert a d hx hy,
      totalCmp_fin_pinf]
  · rw [cmpEdgeP_y_eq_end hy2 hy1 (by simp [Geo.Pt.eq_fin]), grad_eq_slope c d hcd, grad_vert a d hx hy,
      totalCmp_pinf_fin]

/-! ### the ring -/

variable {R : RingQ} {ε : Rat} {Vε : Array (Vtx XQ)}

theorem edge_lex (h : ShOK R ε Vε) {a : AE} {xs : Rat} (ha : Span (shearRing ε R) xs a) :
    lexLt (R.pt a.lv) (R.pt a.rv) := (h.key _ _ ha.lv_lt ha.rv_lt).mp ha.lt

/-- **the comparator of the model, vertical edges allowed** -/
theorem cmpW_of_below (h : ShOK R ε Vε) {xs X : Rat} (hc : Cpl R ε xs X) {a b : AE}
    (ha : Span (shearRing ε R) xs a) (hb : Span (shearRing ε R) xs b)
    (hab : Below (shearRing ε R) xs a b) :
    cmpEdgeP (Fq (R.pt a.lv)) (Fq (R.pt a.rv)) (Fq (R.pt b.lv)) (Fq (R.pt b.rv)) (.fin X) = .lt ∧
    cmpEdgeP (Fq (R.pt b.lv)) (Fq (R.pt b.rv)) (Fq (R.pt a.lv)) (Fq (R.pt a.rv)) (.fin X) = .gt := by
  have la := edge_lex h ha
  have lb := edge_lex h hb
  obtain ⟨xa1, xa2⟩ := span_orig hc ha
  obtain ⟨xb1, xb2⟩ := span_orig hc hb
  have strict : yv (R.pt a.lv) (R.pt a.rv) X < yv (R.pt b.lv) (R.pt b.rv) X →
      cmpEdgeP (Fq (R.pt a.lv)) (Fq (R.pt a.rv)) (Fq (R.pt b.lv)) (Fq (R.pt b.rv)) (.fin X) = .lt ∧
      cmpEdgeP (Fq (R.pt b.lv)) (Fq (R.pt b.rv)) (Fq (R.pt a.lv)) (Fq (R.pt a.rv)) (.fin X) = .gt :=
    fun hl => ⟨cmpW_lt _ _ _ _ X la lb xa1 xa2 xb1 xb2 hl, cmpW_gt _ _ _ _ X lb la xb1 xb2 xa1 xa2 hl⟩
  by_cases c1 : a.lv = b.lv
  · -- a common left end point
    have o : 0 < orient ((shearRing ε R).pt a.lv) ((shearRing ε R).pt a.rv) ((shearRing ε R).pt b.rv) := by
      rcases hab with hlt | ⟨-, -, h3⟩
      · have hne : (shearRing ε R).x a.lv ≠ xs := by
          intro e
          have e1 : lineY ((shearRing ε R).pt a.lv) ((shearRing ε R).pt a.rv) xs = ((shearRing ε R).pt a.lv).2 := by
            rw [← e]; exact lineY_left _ _
          have e2 : lineY ((shearRing ε R).pt b.lv) ((shearRing ε R).pt b.rv) xs = ((shearRing ε R).pt a.lv).2 := by
            rw [← e, ← c1]; exact lineY_left _ _
          have hlt' : lineY ((shearRing ε R).pt a.lv) ((shearRing ε R).pt a.rv) xs <
              lineY ((shearRing ε R).pt b.lv) ((shearRing ε R).pt b.rv) xs := hlt
          rw [e1, e2] at hlt'; exact lt_irrefl _ hlt'
        have hbl : ((shearRing ε R).pt a.lv).1 < ((shearRing ε R).pt b.rv).1 := by
          have := hb.lt; rw [← c1] at this; exact this
        refine fanL_orient _ _ _ ha.lt hbl xs (lt_of_le_of_ne ha.le hne) ?_
        have : lineY ((shearRing ε R).pt a.lv) ((shearRing ε R).pt a.rv) xs <
            lineY ((shearRing ε R).pt b.lv) ((shearRing ε R).pt b.rv) xs := hlt
        rw [← c1] at this; exact this
      · exact h3
    rw [orient_ring] at o
    have lb' : lexLt (R.pt a.lv) (R.pt b.rv) := by rw [c1]; exact lb
    rw [← c1]
    refine ⟨cmpEL_fanL_lt _ _ _ X xa1 xa2 xb2 la lb' o, cmpEL_fanL_gt _ _ _ X xa1 xb2 xa2 lb' la ?_⟩
    have := orient_swap (R.pt a.lv) (R.pt a.rv) (R.pt b.rv)
    linarith
  have hltS : hY (shearRing ε R) a xs < hY (shearRing ε R) b xs := by
    rcases hab with hlt | ⟨e, -, -⟩
    · exact hlt
    · exact absurd e c1
  by_cases c2 : a.rv = b.rv
  · -- a common right end point
    have hbr : ((shearRing ε R).pt b.lv).1 < ((shearRing ε R).pt a.rv).1 := by rw [c2]; exact hb.lt
    have o : orient ((shearRing ε R).pt a.lv) ((shearRing ε R).pt b.lv) ((shearRing ε R).pt a.rv) < 0 := by
      refine fanR_orient _ _ _ ha.lt hbr xs ha.gt ?_
      have : lineY ((shearRing ε R).pt a.lv) ((shearRing ε R).pt a.rv) xs <
          lineY ((shearRing ε R).pt b.lv) ((shearRing ε R).pt b.rv) xs := hltS
      rw [← c2] at this; exact this
    rw [orient_ring] at o
    have lb' : lexLt (R.pt b.lv) (R.pt a.rv) := by rw [c2]; exact lb
    rw [← c2]
    rw [← c2] at xb2
    rcases la with na | ⟨vxa, vya⟩ <;> rcases lb' with nb | ⟨vxb, vyb⟩
    · -- both not vertical
      rcases lt_or_eq_of_le xa2 with hl | he
      · have := fanR_lt_of_orient _ _ _ na nb X hl o
        exact ⟨cmpE_lt _ _ _ _ X na nb xa1 xa2 xb1 xb2 this, cmpE_gt _ _ _ _ X nb na xb1 xb2 xa1 xa2 this⟩
      · have hX : X = (R.pt a.rv).1 := he
        rw [hX]
        refine ⟨cmpE_fanR0_lt _ _ _ na nb o, cmpE_fanR0_gt _ _ _ nb na ?_⟩
        have : orient (R.pt b.lv) (R.pt a.lv) (R.pt a.rv) = - orient (R.pt a.lv) (R.pt b.lv) (R.pt a.rv) := by
          unfold orient; ring
        rw [this]; linarith
    · -- `b` vertical, `a` not: impossible
      exfalso
      rw [orient_vert23 _ _ _ vxb] at o
      nlinarith [mul_pos (sub_pos.mpr (show (R.pt a.lv).1 < (R.pt b.lv).1 by rw [vxb]; exact na))
        (sub_pos.mpr vyb)]
    · -- `a` vertical, `b` not
      have hX : X = (R.pt a.rv).1 := le_antisymm xa2 (by rw [← vxa]; exact xa1)
      rw [hX]
      exact cmpW_fanR_vert _ _ _ vxa vya nb
    · -- both vertical: impossible
      exfalso
      rw [orient_vert23 _ _ _ vxb, vxb, ← vxa] at o
      simp at o
  -- no common vertex
  have c3 : a.rv ≠ b.lv := by
    intro e
    have := hb.le; rw [← e] at this
    exact absurd ha.gt (not_lt.mpr this)
  have c4 : a.lv ≠ b.rv := by
    intro e
    have := ha.le; rw [e] at this
    exact absurd hb.gt (not_lt.mpr this)
  apply strict
  rcases apartV_of h ha.lv_lt ha.rv_lt hb.lv_lt hb.rv_lt ha.adj hb.adj c1 c4 c3 c2 with
    hs | hs | ⟨-, -, l3, -⟩ | ⟨-, -, l3, -⟩
  · have hs' : 0 < orient ((shearRing ε R).pt a.lv) ((shearRing ε R).pt a.rv) ((shearRing ε R).pt b.lv) *
        orient ((shearRing ε R).pt a.lv) ((shearRing ε R).pt a.rv) ((shearRing ε R).pt b.rv) := by
      rw [orient_ring, orient_ring]; exact hs
    obtain ⟨o1, o2⟩ := sides_above _ _ _ _ ha.lt hb.lt hs' xs hb.le (le_of_lt hb.gt) hltS
    rw [orient_ring] at o1 o2
    rcases la with na | ⟨vxa, vya⟩
    · rw [yv_nonvert na]
      rcases lb with nb | ⟨vxb, vyb⟩
      · rw [yv_nonvert nb]
        exact two_above _ _ _ _ na nb o1 o2 X xb1 xb2
      · rw [yv_vert vxb]
        have hX : X = (R.pt b.rv).1 := le_antisymm xb2 (by rw [← vxb]; exact xb1)
        rw [hX]
        exact above_of_orient_pos _ _ _ na o2
    · exfalso
      rw [orient_vert12 _ _ _ vxa] at o2
      have h1 : 0 < (R.pt a.rv).2 - (R.pt a.lv).2 := sub_pos.mpr vya
      have h2 : 0 ≤ (R.pt b.rv).1 - (R.pt a.lv).1 := by linarith [xb2, xa1]
      nlinarith [mul_nonneg (le_of_lt h1) h2]
  · have hs' : 0 < orient ((shearRing ε R).pt b.lv) ((shearRing ε R).pt b.rv) ((shearRing ε R).pt a.lv) *
        orient ((shearRing ε R).pt b.lv) ((shearRing ε R).pt b.rv) ((shearRing ε R).pt a.rv) := by
      rw [orient_ring, orient_ring]; exact hs
    obtain ⟨o1, o2⟩ := sides_below _ _ _ _ ha.lt hb.lt hs' xs ha.le (le_of_lt ha.gt) hltS
    rw [orient_ring] at o1 o2
    rcases lb with nb | ⟨vxb, vyb⟩
    · rw [yv_nonvert nb]
      rcases la with na | ⟨vxa, vya⟩
      · rw [yv_nonvert na]
        exact two_below _ _ _ _ na nb o1 o2 X xa1 xa2
      · rw [yv_vert vxa]
        have hX : X = (R.pt a.rv).1 := le_antisymm xa2 (by rw [← vxa]; exact xa1)
        rw [hX]
        exact below_of_orient_neg _ _ _ nb o2
    · exfalso
      rw [orient_vert12 _ _ _ vxb] at o1
      have h1 : 0 < (R.pt b.rv).2 - (R.pt b.lv).2 := sub_pos.mpr vyb
      have h2 : (R.pt a.lv).1 - (R.pt b.lv).1 ≤ 0 := by linarith [xb1, xa1, xb2, vxb]
      nlinarith [mul_nonneg (le_of_lt h1) (neg_nonneg.mpr h2)]
  · exfalso
    have := (h.key _ _ ha.rv_lt hb.lv_lt).mpr l3
    exact absurd (lt_of_le_of_lt hb.le ha.gt) (not_lt.mpr (le_of_lt this))
  · exfalso
    have := (h.key _ _ hb.rv_lt ha.lv_lt).mpr l3
    exact absurd (lt_of_le_of_lt ha.le hb.gt) (not_lt.mpr (le_of_lt this))


/-! ### the look-ahead tests, vertical edges allowed -/

/-- `cmpAtP` at the right end `s` of the other edge `c s` (possibly vertical); the key edge is not
    vertical -/
theorem cmpAtL_otherEnd_gt (a b c s : Q) (hab : a.1 < b.1) (hcs : lexLt c s) (has : a.1 ≤ s.1)
    (hsb : s.1 ≤ b.1) (ho : orient a b s < 0) :
    cmpAtP (Fq a) (Fq b) (Fq c) (Fq s) (.fin s.1) true = .gt := by
  have h := pt_sub_lineY a b s hab
  have : orient a b s / (b.1 - a.1) < 0 := neg_div ho (sub_pos.mpr hab)
  unfold cmpAtP
  have hy : s.2 < lineY a b s.1 := by linarith
  simp only [isFinite_fin, Bool.not_true, Bool.false_eq_true, if_false, yE_in a b s.1 hab has hsb,
    yE_lex_right c s hcs, totalCmp_fin, if_neg (lt_asymm hy), if_pos hy, thenOrd_gt]

theorem cmpAtL_otherEnd_lt (a b c s : Q) (hab : a.1 < b.1) (hcs : lexLt c s) (has : a.1 ≤ s.1)
    (hsb : s.1 ≤ b.1) (ho : 0 < orient a b s) :
    cmpAtP (Fq a) (Fq b) (Fq c) (Fq s) (.fin s.1) true = .lt := by
  have h := pt_sub_lineY a b s hab
  have : 0 < orient a b s / (b.1 - a.1) := pos_div ho (sub_pos.mpr hab)
  unfold cmpAtP
  have hy : lineY a b s.1 < s.2 := by linarith
  simp only [isFinite_fin, Bool.not_true, Bool.false_eq_true, if_false, yE_in a b s.1 hab has hsb,
    yE_lex_right c s hcs, totalCmp_fin, if_pos hy, thenOrd_lt]

theorem wobP_false_W (p rp lb rb : Q) (hpr : lexLt p rp) (hlr : lexLt lb rb) (h3 : lb.1 ≤ rp.1)
    (h4 : p.1 ≤ rb.1) (hsame : rp.1 = rb.1 → rb.2 ≤ rp.2)
    (hlt : rp.1 < rb.1 → 0 < orient lb rb rp) (hgt : rb.1 < rp.1 → orient p rp rb < 0) :
    wobP (Fq p) (Fq rp) (Fq lb) (Fq rb) = false := by
  unfold wobP
  rcases lt_trichotomy rp.1 rb.1 with h | h | h
  · have hx : ofEq (Fq rp).x (Fq rb).x = false := by
      simp only [F_x, ofEq_fin, decide_eq_false_iff_not]; exact ne_of_lt h
    have e : minTotal (Fq rp).x (Fq rb).x = XQ.fin (min rp.1 rb.1) := minTotal_fin _ _
    have hlr' : lb.1 < rb.1 := lt_of_le_of_lt h3 h
    rw [hx]
    simp only [Bool.false_eq_true, if_false]
    rw [e, min_eq_left (le_of_lt h), cmpAtL_keyEnd_gt p rp lb rb hpr hlr' h3 (le_of_lt h) (hlt h)]
    rfl
  · have hx : ofEq (Fq rp).x (Fq rb).x = true := by
      simp only [F_x, ofEq_fin, decide_eq_true_eq]; exact h
    rw [hx]
    simp only [if_true]
    have y1 : yExtrap (Fq p) (Fq rp) (Fq rp).x true = XQ.fin rp.2 := yE_lex_right p rp hpr
    have y2 : yExtrap (Fq lb) (Fq rb) (Fq rp).x true = XQ.fin rb.2 := by
      show yExtrap (Fq lb) (Fq rb) (XQ.fin rp.1) true = _
      rw [h]; exact yE_lex_right lb rb hlr
    rw [y1, y2, ofLt_fin]
    simp only [decide_eq_false_iff_not, not_lt]
    exact hsame h
  · have hx : ofEq (Fq rp).x (Fq rb).x = false := by
      simp only [F_x, ofEq_fin, decide_eq_false_iff_not]; exact ne_of_gt h
    have e : minTotal (Fq rp).x (Fq rb).x = XQ.fin (min rp.1 rb.1) := minTotal_fin _ _
    have hpr' : p.1 < rp.1 := lt_of_le_of_lt h4 h
    rw [hx]
    simp only [Bool.false_eq_true, if_false]
    rw [e, min_eq_right (le_of_lt h), cmpAtL_otherEnd_gt p rp lb rb hpr' hlr h4 (le_of_lt h) (hgt h)]
    rfl

theorem wotP_false_W (p rp lt rt : Q) (hpr : lexLt p rp) (hlr : lexLt lt rt) (h3 : lt.1 ≤ rp.1)
    (h4 : p.1 ≤ rt.1) (hsame : rp.1 = rt.1 → rp.2 ≤ rt.2)
    (hlt : rp.1 < rt.1 → orient lt rt rp < 0) (hgt : rt.1 < rp.1 → 0 < orient p rp rt) :
    wotP (Fq p) (Fq rp) (Fq lt) (Fq rt) = false := by
  unfold wotP
  rcases lt_trichotomy rp.1 rt.1 with h | h | h
  · have hx : ofEq (Fq rp).x (Fq rt).x = false := by
      simp only [F_x, ofEq_fin, decide_eq_false_iff_not]; exact ne_of_lt h
    have e : minTotal (Fq rp).x (Fq rt).x = XQ.fin (min rp.1 rt.1) := minTotal_fin _ _
    have hlr' : lt.1 < rt.1 := lt_of_le_of_lt h3 h
    rw [hx]
    simp only [Bool.false_eq_true, if_false]
    rw [e, min_eq_left (le_of_lt h), cmpAtL_keyEnd_lt p rp lt rt hpr hlr' h3 (le_of_lt h) (hlt h)]
    rfl
  · have hx : ofEq (Fq rp).x (Fq rt).x = true := by
      simp only [F_x, ofEq_fin, decide_eq_true_eq]; exact h
    rw [hx]
    simp only [if_true]
    have y1 : yExtrap (Fq p) (Fq rp) (Fq rp).x true = XQ.fin rp.2 := yE_lex_right p rp hpr
    have y2 : yExtrap (Fq lt) (Fq rt) (Fq rp).x true = XQ.fin rt.2 := by
      show yExtrap (Fq lt) (Fq rt) (XQ.fin rp.1) true = _
      rw [h]; exact yE_lex_right lt rt hlr
    rw [y1, y2, ofGt_fin]
    simp only [decide_eq_false_iff_not, not_lt]
    exact hsame h
  · have hx : ofEq (Fq rp).x (Fq rt).x = false := by
      simp only [F_x, ofEq_fin, decide_eq_false_iff_not]; exact ne_of_gt h
    have e : minTotal (Fq rp).x (Fq rt).x = XQ.fin (min rp.1 rt.1) := minTotal_fin _ _
    have hpr' : p.1 < rp.1 := lt_of_le_of_lt h4 h
    rw [hx]
    simp only [Bool.false_eq_true, if_false]
    rw [e, min_eq_right (le_of_lt h), cmpAtL_otherEnd_lt p rp lt rt hpr' hlr h4 (le_of_lt h) (hgt h)]
    rfl

/-- `orient lb rb rp` when `rp` lies on the vertical line through `rb` -/
theorem orient_on_vert (lb rb rp : Q) (h : rp.1 = rb.1) :
    orient lb rb rp = (rb.1 - lb.1) * (rp.2 - rb.2) := orient_same_x lb rb rp h

theorem wobW (h : ShOK R ε Vε) {xs X : Rat} (hc : Cpl R ε xs X) {lo up : AE}
    (hlo : Span (shearRing ε R) xs lo) (hup : Span (shearRing ε R) xs up)
    (hlt : hY (shearRing ε R) lo xs < hY (shearRing ε R) up xs)
    (hne : ¬ (lo.lv = up.lv ∧ lo.rv = up.rv)) :
    wobP (Fq (R.pt up.lv)) (Fq (R.pt up.rv)) (Fq (R.pt lo.lv)) (Fq (R.pt lo.rv)) = false := by
  have ll := edge_lex h hlo
  have lu := edge_lex h hup
  obtain ⟨xl1, xl2⟩ := span_orig hc hlo
  obtain ⟨xu1, xu2⟩ := span_orig hc hup
  obtain ⟨g1, g2⟩ := look_orig h hlo hup hlt hne
  refine wobP_false_W _ _ _ _ lu ll (le_trans xl1 xu2) (le_trans xu1 xl2) ?_
    (fun hx => g1 (Or.inl hx)) (fun hx => g2 (Or.inl hx))
  intro hx
  by_contra hcon
  have hl : lexLt (R.pt up.rv) (R.pt lo.rv) := Or.inr ⟨hx, not_le.mp hcon⟩
  have o := g1 hl
  rw [orient_on_vert _ _ _ hx] at o
  have h1 : 0 ≤ (R.pt lo.rv).1 - (R.pt lo.lv).1 := sub_nonneg.mpr (lexLt_le ll)
  have h2 : (R.pt up.rv).2 - (R.pt lo.rv).2 < 0 := by linarith [not_le.mp hcon]
  nlinarith [mul_nonneg h1 (le_of_lt (neg_pos.mpr h2))]

theorem wotW (h : ShOK R ε Vε) {xs X : Rat} (hc : Cpl R ε xs X) {lo up : AE}
    (hlo : Span (shearRing ε R) xs lo) (hup : Span (shearRing ε R) xs up)
    (hlt : hY (shearRing ε R) lo xs < hY (shearRing ε R) up xs)
    (hne : ¬ (lo.lv = up.lv ∧ lo.rv = up.rv)) :
    wotP (Fq (R.pt lo.lv)) (Fq (R.pt lo.rv)) (Fq (R.pt up.lv)) (Fq (R.pt up.rv)) = false := by
  have ll := edge_lex h hlo
  have lu := edge_lex h hup
  obtain ⟨xl1, xl2⟩ := span_orig hc hlo
  obtain ⟨xu1, xu2⟩ := span_orig hc hup
  obtain ⟨g1, g2⟩ := look_orig h hlo hup hlt hne
  refine wotP_false_W _ _ _ _ ll lu (le_trans xu1 xl2) (le_trans xl1 xu2) ?_
    (fun hx => g2 (Or.inl hx)) (fun hx => g1 (Or.inl hx))
  intro hx
  by_contra hcon
  have hl : lexLt (R.pt up.rv) (R.pt lo.rv) := Or.inr ⟨hx.symm, not_le.mp hcon⟩
  have o := g1 hl
  rw [orient_on_vert _ _ _ hx.symm] at o
  have h1 : 0 ≤ (R.pt lo.rv).1 - (R.pt lo.lv).1 := sub_nonneg.mpr (lexLt_le ll)
  have h2 : (R.pt up.rv).2 - (R.pt lo.rv).2 < 0 := by linarith [not_le.mp hcon]
  nlinarith [mul_nonneg h1 (le_of_lt (neg_pos.mpr h2))]

/-! ### a vertex strictly below / above an active edge -/

/-- an active edge strictly below or above the sweep vertex (in the sheared ring) is not vertical -/
theorem nonvert_of_ne (h : ShOK R ε Vε) {a : AE} {w : Nat} (hw : w < R.n)
    (ha : Span (shearRing ε R) ((shearRing ε R).x w) a)
    (hne : hY (shearRing ε R) a ((shearRing ε R).x w) ≠ (R.pt w).2) : R.x a.lv < R.x a.rv := by
  obtain ⟨x1, x2⟩ := span_orig (cpl_at h hw) ha
  rcases edge_lex h ha with hl | ⟨hx, hy⟩
  · exact hl
  · exfalso
    apply hne
    have hxw : (R.pt a.lv).1 = (R.pt w).1 := le_antisymm x1 (by rw [hx]; exact x2)
    have ho : orient (R.pt a.lv) (R.pt a.rv) (R.pt w) = 0 := by
      rw [orient_vert12 _ _ _ hx, hxw]; ring
    rw [← orient_ring ε] at ho
    have e := pt_sub_lineY ((shearRing ε R).pt a.lv) ((shearRing ε R).pt a.rv) ((shearRing ε R).pt w) ha.lt
    rw [ho, zero_div] at e
    have : ((shearRing ε R).pt w).2 = lineY ((shearRing ε R).pt a.lv) ((shearRing ε R).pt a.rv)
        ((shearRing ε R).pt w).1 := by linarith
    exact this.symm

theorem belowW_pt (h : ShOK R ε Vε) {a : AE} {w : Nat} (hw : w < R.n)
    (ha : Span (shearRing ε R) ((shearRing ε R).x w) a)
    (hlt : hY (shearRing ε R) a ((shearRing ε R).x w) < (R.pt w).2) :
    R.x a.lv < R.x a.rv ∧ lineY (R.pt a.lv) (R.pt a.rv) (R.x w) < (R.pt w).2 := by
  have na := nonvert_of_ne h hw ha (ne_of_lt hlt)
  have o := orient_pos_of_above _ _ ((shearRing ε R).pt w) ha.lt hlt
  rw [orient_ring] at o
  exact ⟨na, above_of_orient_pos _ _ _ na o⟩

theorem aboveW_pt (h : ShOK R ε Vε) {a : AE} {w : Nat} (hw : w < R.n)
    (ha : Span (shearRing ε R) ((shearRing ε R).x w) a)
    (hlt : (R.pt w).2 < hY (shearRing ε R) a ((shearRing ε R).x w)) :
    R.x a.lv < R.x a.rv ∧ (R.pt w).2 < lineY (R.pt a.lv) (R.pt a.rv) (R.x w) := by
  have na := nonvert_of_ne h hw ha (ne_of_gt hlt)
  have o := orient_neg_of_below _ _ ((shearRing ε R).pt w) ha.lt hlt
  rw [orient_ring] at o
  exact ⟨na, below_of_orient_neg _ _ _ na o⟩

end Cav.GenVBridge
