/-
  Tiling WITHOUT the hypothesis of distinct abscissae: copy of `GenOutVXStart.xstartV_proper` with the generic
  identity `GenFV` in addition (the clause is the one of `GenOutInXStart.lean`, for the sheared ring).
-/
import Cav.Lemmas.GenOutXStart
import Cav.Lemmas.GenOutVDefs
import Cav.Lemmas.GenOutInVDefs
import Cav.Lemmas.GenOutVXStart

set_option linter.unusedVariables false
set_option linter.unusedSimpArgs false

namespace Cav.GenOutInV
open Cav Num Cav.Geo Cav.Sweep Cav.TriRun Cav.QuadRun Cav.QuadGeom Cav.SweepOut Cav.CvxEvents Cav.CvxLoop
open Cav.CvxHeap Cav.GenNodes Cav.GenInv Cav.GenQueue Cav.MonoGeom Cav.MonoHeap Cav.MonoFan Cav.GenOutShape
open Cav.GenOutDefs Cav.GenLinks Cav.GenOrder Cav.GenOutInv Cav.GenOutCount Cav.GenOutAux
open Cav.GenOutStepAux Cav.GenOutXStart
open Cav.GenVShear Cav.GenVBridge Cav.GenVInv Cav.GenOutV
open Cav.GenOutVX Cav.GenOutIn
open Cav.GenGeom hiding Q

variable {R : RingQ} {ε : Rat} {Vε : Array (Vtx XQ)}

/-- **the proper Start event**, equal abscissae allowed -/
theorem xstartV_properT (hSh : ShOK R ε Vε) {s : St XQ} {xs X : Rat} {pre post : List IV} {G : Nat → CH}
    (hT : XInvTV R ε s xs X (pre ++ post) G)
    {w : Nat} {es : List Nat} {rest : List (Nat × List Nat)} (hev : s.events = (w, es) :: rest)
    {wB wT : Nat} (hnb : (R.prv w = wB ∧ R.nxt w = wT) ∨ (R.prv w = wT ∧ R.nxt w = wB))
    (hxB : (shearRing ε R).x w < (shearRing ε R).x wB) (hxT : (shearRing ε R).x w < (shearRing ε R).x wT)
    (ho : 0 < orient ((shearRing ε R).pt w) ((shearRing ε R).pt wB) ((shearRing ε R).pt wT))
    (hS : StartProperV R ε s pre post w wB wT) :
    ∃ s' G', (handleNext : SM XQ Unit).run s = .ok ((), s') ∧
      XInvTV R ε s' ((shearRing ε R).x w) (R.x w)
        (pre ++ ⟨⟨s.edges.size, w, wB⟩, ⟨s.edges.size + 1, w, wT⟩, s.chains.size⟩ :: post) G' := by
  have hX := hT.base
  obtain ⟨-, -, s', hrun, hs'n, hs'o, hs'c, hI'⟩ := hS
  rw [← FqU_pt ε R w] at hs'n
  have hI := hX.inv
  have hR := hSh.ring
  have hnb' : ((shearRing ε R).prv w = wB ∧ (shearRing ε R).nxt w = wT) ∨
      ((shearRing ε R).prv w = wT ∧ (shearRing ε R).nxt w = wB) := hnb
  have hq := hI.q
  rw [hev] at hq
  have hwq := hq.gt (w, es) List.mem_cons_self
  have hwn : w < (shearRing ε R).n := hwq.1
  have hxs : xs < (shearRing ε R).x w := hwq.2
  have hgap := no_gap hR hq hI.cross
  have hcilt := ci_ltV hX
  refine ⟨s', Function.update G s.chains.size ⟨[], (s.nodes.size, (shearRing ε R).pt w), []⟩, hrun, ?_⟩
  have hGo : ∀ j ∈ pre ++ post, Function.update G s.chains.size ⟨[], (s.nodes.size, (shearRing ε R).pt w), []⟩ j.ci = G j.ci :=
    fun j hj => Function.update_of_ne (Nat.ne_of_lt (hcilt j hj)) _ _
  have hGs : Function.update G s.chains.size ⟨[], (s.nodes.size, (shearRing ε R).pt w), []⟩ s.chains.size =
      ⟨[], (s.nodes.size, (shearRing ε R).pt w), []⟩ := Function.update_self _ _ _
  have hothers : ∀ j ∈ pre ++ post, ChainOKV R ε s' ((shearRing ε R).x w) j
      (Function.update G s.chains.size ⟨[], (s.nodes.size, (shearRing ε R).pt w), []⟩ j.ci) := by
    intro j hj
    refine other_okV hX (le_of_lt hxs) hj (hGo j hj) ?_ ?_
    · rw [hs'c, Array.getElem?_push_lt (hcilt j hj), ← Array.getElem?_eq_getElem (hcilt j hj)]
    · intro x hx
      have hlt := SegU.idx_lt (hX.ok j hj).seg x hx
      rw [hs'n, Array.getElem?_push_lt hlt, ← Array.getElem?_eq_getElem hlt]
  have hloNew : isLo (shearRing ε R) w wB :=
    isLo_loV hSh (iv := (⟨⟨s.edges.size, w, wB⟩, ⟨s.edges.size + 1, w, wT⟩, s.chains.size⟩ : IV)) hI' rfl
  have hhiNew : ¬ isLo (shearRing ε R) w wT :=
    isLo_hiV hSh (iv := (⟨⟨s.edges.size, w, wB⟩, ⟨s.edges.size + 1, w, wT⟩, s.chains.size⟩ : IV)) hI' rfl
  refine ⟨⟨hI', ?_, ?_, ?_, ?_, ?_, ?_, fun h => absurd h (by simp), ?_⟩, ?_⟩
  · intro j hj
    rcases List.mem_append.mp hj with hj | hj
    · exact hothers j (List.mem_append_left _ hj)
    · rcases List.mem_cons.mp hj with rfl | hj
      · show ChainOKV R ε s' ((shearRing ε R).x w) _ (Function.update G s.chains.size _ s.chains.size)
        rw [hGs]
        refine ⟨⟨⟨s.nodes.size, s.nodes.size, s.nodes.size⟩, ?_, rfl, rfl, rfl⟩, ?_, ?_⟩
        · rw [hs'c]; exact Array.getElem?_push_size
        · rw [hs'n]
          show Seg _ none [(s.nodes.size, FqU ε ((shearRing ε R).pt w))] none
          exact ⟨Array.getElem?_push_size, trivial⟩
        · exact shape_single _ _ _ (le_refl _) _ _ _ _
      · exact hothers j (List.mem_append_right _ hj)
  · rw [idxs_append, idxs_cons, idxs_congr (fun j hj => hGo j (List.mem_append_left _ hj)),
      idxs_congr (fun j hj => hGo j (List.mem_append_right _ hj))]
    show (idxs G pre ++ ((Function.update G s.chains.size _ s.chains.size).l.map Prod.fst ++ idxs G post)).Nodup
    rw [hGs]
    have hnd := hX.nd
    rw [idxs_append] at hnd
    have := nodup_replace (A := idxs G pre) (B := idxs G post) (old := []) (sub := [])
      (n := s.nodes.size) (by simpa using hnd) (List.Sublist.refl _) (by
        intro k hk
        apply idx_ne_sizeV hX k
        rw [idxs_append]; simpa using hk)
    simpa [CH.l] using this
  · intro j hj
    rcases List.mem_append.mp hj with hj | hj
    · exact hX.flags j (List.mem_append_left _ hj)
    · rcases List.mem_cons.mp hj with rfl | hj
      · exact ⟨hloNew, hhiNew⟩
      · exact hX.flags j (List.mem_append_right _ hj)
  · have hcnt := hX.count
    rw [cnt_step hR hwn hxs hgap, vWeight_start hnb' hxB hxT ho, if_pos hloNew, hs'o]
    rw [lenSum_append, lenSum_cons, lenSum_congr (fun j hj => hGo j (List.mem_append_left _ hj)),
      lenSum_congr (fun j hj => hGo j (List.mem_append_right _ hj))]
    show _ + (lenSum G pre + ((Function.update G s.chains.size _ s.chains.size).l.length + lenSum G post)) = _
    rw [hGs]
    rw [lenSum_append] at hcnt
    simp only [CH.l, List.length_append, List.length_cons, List.length_reverse, List.length_nil] at hcnt ⊢
    omega
  · have harea := hX.area
    rw [wDone_start hR hwn hxs hgap hnb' hxB hxT]
    rw [pathTot_append, pathTot_cons, pathTot_congr (fun j hj => hGo j (List.mem_append_left _ hj)),
      pathTot_congr (fun j hj => hGo j (List.mem_append_right _ hj))]
    show _ = _ + (pathTot G pre + (pathSum ((Function.update G s.chains.size _ s.chains.size).l.map Prod.snd) + pathTot G post))
    rw [hGs, hs'o, harea, pathTot_append]
    simp [CH.l, pathSum]
  · exact coh_step hR hwn hxs hgap hX.coh
      (coh_start hnb' hxB hxT ⟨fun _ => hhiNew, fun _ => hloNew⟩)
  · intro tr htr
    rw [hs'o] at htr
    exact hX.posA tr htr
  · -- the generic identity
    obtain ⟨Tg, hTg, hneg, hid⟩ := hT.gen
    refine ⟨Tg, ?_, hneg, ?_⟩
    · rw [hs'o, hTg]
    · intro ω hω
      rw [wDoneW_start hR ω hwn hxs hgap hnb' hxB hxT]
      rw [pathTotW_append, pathTotW_cons, pathTotW_congr (fun j hj => hGo j (List.mem_append_left _ hj)),
        pathTotW_congr (fun j hj => hGo j (List.mem_append_right _ hj))]
      show _ = _ + (pathTotW ω G pre + (pathSumW ω ((Function.update G s.chains.size _ s.chains.size).l.map Prod.snd) + pathTotW ω G post))
      rw [hGs, hid ω hω, pathTotW_append]
      simp [CH.l, pathSumW]

end Cav.GenOutInV
