/-
  Output of the sweep on general valid input, part 10: the quantities of the final statement in
  terms of the POLYGONS: the blocks of the vertex ring, the leftmost vertex of a polygon, the
  parity of its nesting depth (`holeLike`: the number of edges of the polygon set that a vertical
  ray going down from the leftmost vertex crosses is odd — edges of the polygon itself are never
  crossed, so these are edges of the OTHER polygons), the expected number of triangles and the
  doubled area of the even-odd region.
-/
import Cav.Lemmas.GenOutDefs
import Cav.Lemmas.GenRing
import Cav.Lemmas.CvxPoly

set_option linter.unusedVariables false

namespace Cav.GenOutPoly
open Cav Cav.Geo Cav.QuadGeom Cav.GenInv Cav.GenRing Cav.CvxLoop Cav.CvxPoly Cav.GenOutDefs
open Cav.GenGeom hiding Q

abbrev Q := Rat × Rat

/-- the polygons with the ring indices of their first vertices -/
def blocks : Nat → List (Array Q) → List (Nat × Array Q)
  | _, [] => []
  | b, p :: r => (b, p) :: blocks (b + p.size) r

/-- sign with which the ring edge walked from `k` to `R.nxt k` enters the area: `+1` iff the
    even-odd region is on the left of the walk -/
def walkSign (R : RingQ) (k : Nat) : Rat :=
  if R.x k < R.x (R.nxt k) then (if isLo R k (R.nxt k) then 1 else -1)
  else (if isLo R (R.nxt k) k then -1 else 1)

/-- index of the leftmost vertex of a polygon -/
def leftIdx (P : Array Q) : Nat :=
  (List.range P.size).foldl (fun best i => if (P.getD i (0, 0)).1 < (P.getD best (0, 0)).1 then i else best) 0

/-- the lower one of the two ring neighbours of a Start vertex `v` -/
def lowerNbr (R : RingQ) (v : Nat) : Nat :=
  if 0 < orient (R.pt v) (R.pt (R.prv v)) (R.pt (R.nxt v)) then R.prv v else R.nxt v

/-- **parity of the nesting depth** of the polygon `P` whose first vertex has ring index `b`: a
    vertical ray going down from its leftmost vertex crosses an odd number of edges (of the other
    polygons) -/
def holeLike (R : RingQ) (b : Nat) (P : Array Q) : Prop :=
  ¬ isLo R (b + leftIdx P) (lowerNbr R (b + leftIdx P))

instance (R : RingQ) (b : Nat) (P : Array Q) : Decidable (holeLike R b P) := by
  unfold holeLike; exact inferInstance

/-- the polygon `P` is walked counter-clockwise through its leftmost vertex -/
def ccwAtLeft (P : Array Q) : Prop :=
  0 < orient (cyc P (leftIdx P + P.size - 1)) (cyc P (leftIdx P)) (cyc P (leftIdx P + 1))

instance (P : Array Q) : Decidable (ccwAtLeft P) := by unfold ccwAtLeft; exact inferInstance

/-- **the expected number of triangles**: `n - 2` for a polygon at even nesting depth, `n + 2`
    for one at odd depth -/
def triCount (polys : List (Array Q)) : Nat :=
  ((blocks 0 polys).map fun bp =>
    if holeLike (ringOf polys) bp.1 bp.2 then bp.2.size + 2 else bp.2.size - 2).sum

/-- the signed doubled area: outer polygons minus holes plus islands … -/
def evenOddSigned (polys : List (Array Q)) : Rat :=
  ((blocks 0 polys).map fun bp =>
    (if holeLike (ringOf polys) bp.1 bp.2 then -1 else 1) * |shoelace bp.2|).sum

/-- **the doubled area of the even-odd region** -/
def evenOddArea2 (polys : List (Array Q)) : Rat := |evenOddSigned polys|

end Cav.GenOutPoly
