/-
  Output of the sweep on general valid input, part 7: **the improper Start event keeps the
  strengthened invariant** (a Start vertex inside an in-interval splits the in-interval and its
  back-chain at the rightmost node; the new vertex cuts a backward fan from the lower part and a
  forward fan from the upper part).  Three nodes more than triangles cut are added to the chains
  (the new tail of the lower chain, the copy of the rightmost node, the new head of the upper
  chain), one in-interval more: the count grows by two; the area does not change.
-/
import Cav.Lemmas.GenOutXBend
import Cav.Lemmas.GenOutStepStart
import Cav.Lemmas.GenOutHeap4

set_option linter.unusedVariables false
set_option linter.unusedSimpArgs false

namespace Cav.GenOutXStart
open Cav Num Cav.Geo Cav.Sweep Cav.TriRun Cav.QuadRun Cav.QuadGeom Cav.SweepOut Cav.CvxEvents Cav.CvxLoop
open Cav.CvxHeap Cav.GenNodes Cav.GenInv Cav.GenQueue Cav.MonoGeom Cav.MonoHeap Cav.MonoFan Cav.GenOutShape
open Cav.GenOutDefs Cav.GenLinks Cav.GenOrder Cav.GenOutInv Cav.GenOutCount Cav.GenOutAux
open Cav.GenOutStepAux Cav.GenOutFan Cav.GenOutHeap Cav.GenOutStart
open Cav.GenGeom hiding Q

variable {R : RingQ}

/-! ### lists and arrays -/

/-- two results of the same run -/
theorem ok_inj {ε β σ : Type} {x : Except ε (β × σ)} {b b' : β} {A B : σ}
    (h1 : x = .ok (b, A)) (h2 : x = .ok (b', B)) : b = b' ∧ A = B := by
  rw [h1] at h2
  simp only [Except.ok.injEq, Prod.mk.injEq] at h2
  exact h2

theorem push3_lt {β : Type} (a : Array β) (x y z : β) {i : Nat} (h : i < a.size) :
    (((a.push x).push y).push z)[i]? = a[i]? := by
  have h1 : i < (a.push x).size := by rw [Array.size_push]; omega
  have h2 : i < ((a.push x).push y).size := by rw [Array.size_push]; omega
  rw [Array.getElem?_push_lt h2, Array.getElem_push_lt h1, Array.getElem_push_lt h,
    ← Array.getElem?_eq_getElem h]

theorem push3_1 {β : Type} (a : Array β) (x y z : β) :
    (((a.push x).push y).push z)[a.size + 1]? = some y := by
  have h2 : a.size + 1 < ((a.push x).push y).size := by
    rw [Array.size_push, Array.size_push]; omega
  rw [Array.getElem?_push_lt h2]
  have : a.size + 1 = (a.push x).size := by rw [Array.size_push]
  simp only [this, Array.getElem_push_eq]

theorem push3_2 {β : Type} (a : Array β) (x y z : β) :
    (((a.push x).push y).push z)[a.size + 1 + 1]? = some z := by
  have : a.size + 1 + 1 = ((a.push x).push y).size := by rw [Array.size_push, Array.size_push]
  rw [this, Array.getElem?_push_size]

/-- fresh elements in the middle of a duplicate-free list -/
theorem nodup_insert {P S F : List Nat} (h : (P ++ S).Nodup) (hF : F.Nodup)
    (hfr : ∀ k ∈ P ++ S, ∀ f ∈ F, k ≠ f) : (P ++ F ++ S).Nodup := by
  rw [List.nodup_append] at h
  obtain ⟨hP, hS, hPS⟩ := h
  rw [List.append_assoc, List.nodup_append]
  refine ⟨hP, ?_, ?_⟩
  · rw [List.nodup_append]
    exact ⟨hF, hS, fun f hf k hk e => hfr k (List.mem_append_right _ hk) f hf e.symm⟩
  · intro k hk y hy
    rcases List.mem_append.mp hy with hy | hy
    · exact hfr k (List.mem_append_left _ hk) y hy
    · exact hPS k hk y hy

/-- the node indices of the two chains after a split: three fresh indices and sublists of the two
    halves of the old chain -/
theorem nodup_split {A B Xr Y L1 D1 D2 L2 : List Nat} {a b c : Nat}
    (h : (A ++ (Xr ++ Y) ++ B).Nodup)
    (h1 : Xr = L1 ++ D1) (h2 : c :: Y = D2 ++ L2)
    (hfr : ∀ k ∈ A ++ (Xr ++ Y) ++ B, k ≠ a ∧ k ≠ b ∧ k ≠ c)
    (hab : a ≠ b) (hac : a ≠ c) (hbc : b ≠ c) :
    (A ++ ((L1 ++ [a]) ++ (b :: L2)) ++ B).Nodup := by
  have hbig : ((A ++ Xr) ++ [a, b, c] ++ (Y ++ B)).Nodup := by
    apply nodup_insert
    · simpa using h
    · simp [hab, hac, hbc]
    · intro k hk f hf
      have hk' : k ∈ A ++ (Xr ++ Y) ++ B := by simpa using hk
      obtain ⟨n1, n2, n3⟩ := hfr k hk'
      simp only [List.mem_cons, List.not_mem_nil, or_false] at hf
      rcases hf with rfl | rfl | rfl
      · exact n1
      · exact n2
      · exact n3
  refine hbig.sublist ?_
  have s1 : (L1 ++ [a]).Sublist (Xr ++ [a]) := by
    rw [h1]
    exact List.Sublist.append (List.sublist_append_left _ _) (List.Sublist.refl _)
  have s2 : L2.Sublist (c :: Y) := by rw [h2]; exact List.sublist_append_right _ _
  have e : (A ++ Xr) ++ [a, b, c] ++ (Y ++ B) = A ++ ((Xr ++ [a]) ++ (b :: (c :: Y))) ++ B := by simp
  rw [e]
  exact List.Sublist.append (List.Sublist.append (List.Sublist.refl A)
    (List.Sublist.append s1 (List.Sublist.cons_cons b s2))) (List.Sublist.refl B)

/-- `split_fans` with the size of the node heap as a parameter -/
theorem split_fans_sz (N : Array (Node XQ)) (k : Nat) (hk : N.size = k)
    (lx : List (Nat × Pt XQ)) (m : Nat) (pm : Pt XQ) (ly : List (Nat × Pt XQ))
    (h : Seg N none (lx ++ (m, pm) :: ly) none)
    (hnd : ((lx ++ (m, pm) :: ly).map Prod.fst).Nodup)
    (c : Chain) (hrm : c.rm = m) (hhead : some c.head = ((lx ++ [(m, pm)]).head?).map Prod.fst)
    (htail : some c.tail = (((m, pm) :: ly).getLast?).map Prod.fst)
    (p : Pt XQ) (sm0 : St XQ) (hsm : sm0.nodes = N)
    {mid1 : List (Nat × Pt XQ)} {g1 : Nat} {pg1 : Pt XQ} {rest1 : List (Nat × Pt XQ)}
    (hs1 : (m, pm) :: lx.reverse = mid1 ++ (g1, pg1) :: rest1)
    (hfan1 : FanB p (mid1.map Prod.snd ++ [pg1])) (hstop1 : StopB p pg1 rest1)
    {mid2 : List (Nat × Pt XQ)} {g2 : Nat} {pg2 : Pt XQ} {rest2 : List (Nat × Pt XQ)}
    (hs2 : (k + 1, pm) :: ly = mid2 ++ (g2, pg2) :: rest2)
    (hfan2 : FanF p (mid2.map Prod.snd ++ [pg2])) (hstop2 : StopF p pg2 rest2) :
    ∃ N' N3 N4,
      (chainSplit c p).run sm0 = .ok (((⟨k, c.head, k⟩ : Chain),
        (⟨k + 2, k + 2, if c.tail == c.rm then k + 1 else c.tail⟩ : Chain)), { sm0 with nodes := N' }) ∧
      (backTriangulate (⟨k, c.head, k⟩ : Chain) true).run { sm0 with nodes := N' } =
        .ok ((), { sm0 with nodes := N3, out := trisB p (mid1.map Prod.snd ++ [pg1]) ++ sm0.out }) ∧
      (backTriangulate (⟨k + 2, k + 2, if c.tail == c.rm then k + 1 else c.tail⟩ : Chain) false).run
          { sm0 with nodes := N3, out := trisB p (mid1.map Prod.snd ++ [pg1]) ++ sm0.out } =
        .ok ((), { sm0 with nodes := N4, out := trisF p (mid2.map Prod.snd ++ [pg2]) ++
          (trisB p (mid1.map Prod.snd ++ [pg1]) ++ sm0.out) }) ∧
      Seg N4 none (rest1.reverse ++ [(g1, pg1), (k, p)]) none ∧
      Seg N4 none ((k + 2, p) :: (g2, pg2) :: rest2) none ∧ N4.size = k + 3 ∧
      some (if c.tail == c.rm then k + 1 else c.tail) = (((g2, pg2) :: rest2).getLast?).map Prod.fst ∧
      (∀ i, i < k → (∀ x ∈ lx ++ (m, pm) :: ly, x.1 ≠ i) → N4[i]? = N[i]?) := by
  subst hk
  obtain ⟨N', N3, N4, bcBot, bcTop, rfl, rfl, r1, r2, r3, s1, s2, sz, tl, fr⟩ :=
    split_fans N lx m pm ly h hnd c hrm hhead htail p sm0 hsm hs1 hfan1 hstop1 hs2 hfan2 hstop2
  exact ⟨N', N3, N4, r1, r2, r3, s1, s2, sz, tl, fr⟩

end Cav.GenOutXStart
