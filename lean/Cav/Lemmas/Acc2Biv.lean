/-
  Helper lemmas for `Thm/C09Accuracy` (triangle part): the integrand handed to the 2-D routine by
  `gkTriangle`, for a polynomial `f(x,y) = Σ c·x^i·y^j` given as a finite list of terms, as a
  bivariate polynomial in the barycentric coordinates `(s, r)` — computed on coefficient lists
  (`triPoly`), with its value (`evalPoly2_triPoly`) and its formal total degree (`TotDeg_triPoly`).
-/
import Cav.Lemmas.Acc2Tri

open Cav Num Cav.C01 Cav.Quad2D
open Cav.C07Accuracy (polyAdd polyScale polyMul evalPoly_polyAdd evalPoly_polyScale
  evalPoly_polyMul polyAdd_length polyScale_length polyMul_length_le polyAdd_nil_left
  polyAdd_nil_right polyAdd_cons)
namespace Cav.Acc2

/-! ### arithmetic on lists of coefficient lists -/

/-- coefficientwise sum -/
def add2 : List (List Rat) → List (List Rat) → List (List Rat)
  | [], B => B
  | A, [] => A
  | a :: A, b :: B => polyAdd a b :: add2 A B

@[simp] theorem add2_nil_left (B : List (List Rat)) : add2 [] B = B := by cases B <;> rfl
@[simp] theorem add2_nil_right (A : List (List Rat)) : add2 A [] = A := by cases A <;> rfl
@[simp] theorem add2_cons (a b : List Rat) (A B : List (List Rat)) :
    add2 (a :: A) (b :: B) = polyAdd a b :: add2 A B := rfl

theorem evalPoly2_add2 (A B : List (List Rat)) (s r : Rat) :
    evalPoly2 (add2 A B) s r = evalPoly2 A s r + evalPoly2 B s r := by
  induction A generalizing B with
  | nil => simp [evalPoly2]
  | cons a A ih =>
    cases B with
    | nil => simp [evalPoly2]
    | cons b B =>
      have := ih B
      simp only [evalPoly2] at this ⊢
      simp only [add2_cons, coeffsAt_cons, evalPoly_cons, evalPoly_polyAdd, this]
      ring

theorem TotDeg_add2 (N : Nat) (A B : List (List Rat)) (hA : TotDeg N A) (hB : TotDeg N B) :
    TotDeg N (add2 A B) := by
  induction A generalizing B N with
  | nil => simpa using hB
  | cons a A ih =>
    cases B with
    | nil => simpa using hA
    | cons b B =>
      cases N with
      | zero => exact absurd hA (fun h => h)
      | succ N =>
        refine ⟨?_, ih N B hA.2 hB.2⟩
        rw [polyAdd_length]
        exact max_le hA.1 hB.1

/-- coefficients of `(s, r) ↦ carry(s) + (a0 + a1·s + a2·r) · G(s, r)` -/
def mulLin2 (a0 a1 a2 : Rat) : List Rat → List (List Rat) → List (List Rat)
  | carry, [] => [carry]
  | carry, q :: G => polyAdd carry (polyMul [a0, a1] q) :: mulLin2 a0 a1 a2 (polyScale a2 q) G

theorem evalPoly2_mulLin2 (a0 a1 a2 : Rat) (carry : List Rat) (G : List (List Rat)) (s r : Rat) :
    evalPoly2 (mulLin2 a0 a1 a2 carry G) s r =
      evalPoly carry s + (a0 + a1 * s + a2 * r) * evalPoly2 G s r := by
  induction G generalizing carry with
  | nil => simp [mulLin2, evalPoly2]
  | cons q G ih =>
    have := ih (polyScale a2 q)
    simp only [evalPoly2] at this ⊢
    simp only [mulLin2, coeffsAt_cons, evalPoly_cons, evalPoly_nil, evalPoly_polyAdd,
      evalPoly_polyMul, evalPoly_polyScale, this]
    ring

theorem TotDeg_mulLin2 (a0 a1 a2 : Rat) (N : Nat) (carry : List Rat) (G : List (List Rat))
    (hc : carry.length ≤ N + 1) (hG : TotDeg N G) :
    TotDeg (N + 1) (mulLin2 a0 a1 a2 carry G) := by
  induction G generalizing carry N with
  | nil => exact ⟨hc, TotDeg_nil N⟩
  | cons q G ih =>
    cases N with
    | zero => exact absurd hG (fun h => h)
    | succ N =>
      obtain ⟨h1, h2⟩ := hG
      refine ⟨?_, ih N (polyScale a2 q) (by rw [polyScale_length]; exact h1) h2⟩
      rw [polyAdd_length]
      have := polyMul_length_le [a0, a1] q
      simp only [List.length_cons, List.length_nil] at this
      omega

/-- `G ↦ (a0 + a1·s + a2·r)^n · G` -/
def mulLinPow (a0 a1 a2 : Rat) : Nat → List (List Rat) → List (List Rat)
  | 0, G => G
  | n + 1, G => mulLin2 a0 a1 a2 [] (mulLinPow a0 a1 a2 n G)

theorem evalPoly2_mulLinPow (a0 a1 a2 : Rat) (n : Nat) (G : List (List Rat)) (s r : Rat) :
    evalPoly2 (mulLinPow a0 a1 a2 n G) s r = (a0 + a1 * s + a2 * r) ^ n * evalPoly2 G s r := by
  induction n with
  | zero => simp [mulLinPow]
  | succ n ih =>
    rw [mulLinPow, evalPoly2_mulLin2, ih, evalPoly_nil, pow_succ]
    ring

theorem TotDeg_mulLinPow (a0 a1 a2 : Rat) (n N : Nat) (G : List (List Rat)) (hG : TotDeg N G) :
    TotDeg (N + n) (mulLinPow a0 a1 a2 n G) := by
  induction n with
  | zero => exact hG
  | succ n ih =>
    exact TotDeg_mulLin2 a0 a1 a2 (N + n) [] _ (Nat.zero_le _) ih

/-! ### a polynomial in two variables as a list of terms `(i, j, c)` ↦ `c·x^i·y^j` -/

/-- `Σ_{(i,j,c) ∈ terms} c · x^i · y^j` -/
def evalTerms (terms : List (Nat × Nat × Rat)) (x y : Rat) : Rat :=
  (terms.map (fun tm => tm.2.2 * x ^ tm.1 * y ^ tm.2.1)).sum

@[simp] theorem evalTerms_nil (x y : Rat) : evalTerms [] x y = 0 := rfl
@[simp] theorem evalTerms_cons (tm : Nat × Nat × Rat) (terms : List (Nat × Nat × Rat)) (x y : Rat) :
    evalTerms (tm :: terms) x y = tm.2.2 * x ^ tm.1 * y ^ tm.2.1 + evalTerms terms x y := by
  simp [evalTerms]

/-- one term after the substitution `x = x0 + x1·s + x2·r`, `y = y0 + y1·s + y2·r`, times `fac` -/
def triMono (fac x0 x1 x2 y0 y1 y2 : Rat) (tm : Nat × Nat × Rat) : List (List Rat) :=
  mulLinPow x0 x1 x2 tm.1 (mulLinPow y0 y1 y2 tm.2.1 [[fac * tm.2.2]])

/-- all terms -/
def triPolyAux (fac x0 x1 x2 y0 y1 y2 : Rat) : List (Nat × Nat × Rat) → List (List Rat)
  | [] => []
  | tm :: terms => add2 (triMono fac x0 x1 x2 y0 y1 y2 tm) (triPolyAux fac x0 x1 x2 y0 y1 y2 terms)

theorem evalPoly2_triPolyAux (fac x0 x1 x2 y0 y1 y2 : Rat) (terms : List (Nat × Nat × Rat))
    (s r : Rat) :
    evalPoly2 (triPolyAux fac x0 x1 x2 y0 y1 y2 terms) s r =
      fac * evalTerms terms (x0 + x1 * s + x2 * r) (y0 + y1 * s + y2 * r) := by
  induction terms with
  | nil => simp [triPolyAux, evalPoly2]
  | cons tm terms ih =>
    rw [triPolyAux, evalPoly2_add2, ih, triMono, evalPoly2_mulLinPow, evalPoly2_mulLinPow,
      evalTerms_cons]
    simp only [evalPoly2, coeffsAt_cons, coeffsAt_nil, evalPoly_cons, evalPoly_nil]
    ring

theorem TotDeg_triPolyAux (fac x0 x1 x2 y0 y1 y2 : Rat) (d : Nat)
    (terms : List (Nat × Nat × Rat)) (hdeg : ∀ tm ∈ terms, tm.1 + tm.2.1 ≤ d) :
    TotDeg (d + 1) (triPolyAux fac x0 x1 x2 y0 y1 y2 terms) := by
  induction terms with
  | nil => exact TotDeg_nil _
  | cons tm terms ih =>
    refine TotDeg_add2 _ _ _ ?_ (ih (fun t ht => hdeg t (List.mem_cons_of_mem _ ht)))
    have h0 : TotDeg 1 [[fac * tm.2.2]] := ⟨le_refl _, TotDeg_nil 0⟩
    have h1 := TotDeg_mulLinPow x0 x1 x2 tm.1 _ _
      (TotDeg_mulLinPow y0 y1 y2 tm.2.1 _ _ h0)
    have := hdeg tm List.mem_cons_self
    exact TotDeg_mono (by omega) _ h1

/-- **the transformed integrand of `gkTriangle`** for the polynomial with the given terms over the
    triangle `t = (p0, p1, p2)`: the coefficient lists (in the inner coordinate `r`, each a
    coefficient list in the outer coordinate `s`) of
    `(s, r) ↦ triFactor t · f(p0 + s·(p1 − p0) + r·(p2 − p0))` -/
def triPoly (terms : List (Nat × Nat × Rat)) (t : (Rat × Rat) × (Rat × Rat) × (Rat × Rat)) :
    List (List Rat) :=
  triPolyAux (triFactor t) t.1.1 (t.2.1.1 - t.1.1) (t.2.2.1 - t.1.1)
    t.1.2 (t.2.1.2 - t.1.2) (t.2.2.2 - t.1.2) terms

theorem evalPoly2_triPoly (terms : List (Nat × Nat × Rat))
    (t : (Rat × Rat) × (Rat × Rat) × (Rat × Rat)) (s r : Rat) :
    evalPoly2 (triPoly terms t) s r = triIntegrand (evalTerms terms) t s r := by
  obtain ⟨p0, p1, p2⟩ := t
  rw [triPoly, evalPoly2_triPolyAux]
  show _ = triFactor (p0, p1, p2) * evalTerms terms _ _
  have h1 : (Num.one : Rat) = 1 := by simp [Num.one, Num.ofNat]
  rw [h1]
  congr 2 <;> ring

theorem TotDeg_triPoly (d : Nat) (terms : List (Nat × Nat × Rat))
    (hdeg : ∀ tm ∈ terms, tm.1 + tm.2.1 ≤ d) (t : (Rat × Rat) × (Rat × Rat) × (Rat × Rat)) :
    TotDeg (d + 1) (triPoly terms t) :=
  TotDeg_triPolyAux _ _ _ _ _ _ _ d terms hdeg

end Cav.Acc2
