/-
  Output of the sweep on general valid input, part 12: the arc invariant along the sweep.  Every
  event of the general sweep keeps `Inv` together with `ArcInv` of the active list; at the end
  all arcs are closed.
-/
import Cav.Lemmas.GenOutArcA2
import Cav.Lemmas.GenOutArcB3
import Cav.Lemmas.GenOutStepBend
import Cav.Lemmas.GenOutStepEnd
import Cav.Lemmas.GenOutStepStart
import Cav.Lemmas.GenOutAux
import Cav.Lemmas.GenOutLoop

set_option linter.unusedVariables false
set_option linter.unusedSimpArgs false

namespace Cav.GenOutArcLoop
open Cav Num Cav.Geo Cav.Sweep Cav.TriRun Cav.QuadRun Cav.QuadGeom Cav.TriEvents
open Cav.GenInv Cav.GenQueue Cav.GenLinks Cav.GenStep Cav.GenLoop Cav.GenStepBend Cav.GenOrder
open Cav.GenOutBend Cav.GenOutEnd Cav.GenOutStart Cav.GenOutArc Cav.GenOutAux Cav.GenOutLoop
open Cav.GenGeom hiding Q

variable {R : RingQ}

theorem eok_of_inv {s : St XQ} {xs : Rat} {ivs : List IV} (hI : Inv R s xs ivs) :
    EOK R xs (flatE ivs) :=
  ⟨hI.span, ids_nodup hI.sorted hI.q.idinj, hI.q.uniq⟩

/-- **every event keeps the arc invariant** -/
theorem astep (hN : NoCross R) {s : St XQ} {xs : Rat} {ivs : List IV} {A : List Arc} {D : List Cyc}
    (hI : Inv R s xs ivs) (hA : ArcInv R xs (flatE ivs) A D)
    {w : Nat} {es : List Nat} {rest : List (Nat × List Nat)} (hev : s.events = (w, es) :: rest) :
    ∃ s' ivs' A' D', (handleNext : SM XQ Unit).run s = .ok ((), s') ∧ Inv R s' (R.x w) ivs' ∧
      ArcInv R (R.x w) (flatE ivs') A' D' := by
  have hR := hI.ring
  have hq := hI.q
  rw [hev] at hq
  have hwq := hq.gt (w, es) List.mem_cons_self
  have hwn : w < R.n := hwq.1
  have hxs : xs < R.x w := hwq.2
  have hgap := no_gap hR hq hI.cross
  have hpn := hR.prv_lt w hwn
  have hnn := hR.nxt_lt w hwn
  have hp : R.x (R.prv w) ≠ R.x w := by
    intro e
    have e' := hR.distinct _ _ hpn hwn e
    have h1 := hR.nxt_prv w hwn
    rw [e'] at h1
    exact hR.ne w hwn (e'.trans h1.symm)
  have hn : R.x (R.nxt w) ≠ R.x w := by
    intro e
    have e' := hR.distinct _ _ hnn hwn e
    have h1 := hR.prv_nxt w hwn
    rw [e'] at h1
    exact hR.ne w hwn (h1.trans e'.symm)
  have bend : ∀ {u w' : Nat}, ((R.prv w = u ∧ R.nxt w = w') ∨ (R.prv w = w' ∧ R.nxt w = u)) →
      R.x u < R.x w → R.x w < R.x w' →
      ∃ s' ivs' A' D', (handleNext : SM XQ Unit).run s = .ok ((), s') ∧ Inv R s' (R.x w) ivs' ∧
        ArcInv R (R.x w) (flatE ivs') A' D' := by
    intro u w' hnb hxu hxw'
    obtain ⟨pre, iv, post, rfl, hB | hB⟩ := step_bend_x hN hI hev hnb hxu hxw'
    · obtain ⟨hlv, hrv, c, h, smid, N2, out2, s', -, -, -, -, -, hrun, -, -, -, hI'⟩ := hB
      have hE := eok_of_inv hI
      have hE' := eok_of_inv hI'
      have e1 : flatE (pre ++ iv :: post) = flatE pre ++ iv.lo :: (iv.hi :: flatE post) := by simp
      have e2 : flatE (pre ++ (⟨⟨iv.lo.id, w, w'⟩, iv.hi, iv.ci⟩ : IV) :: post) =
          flatE pre ++ (⟨iv.lo.id, w, w'⟩ : AE) :: (iv.hi :: flatE post) := by simp
      rw [e1] at hA hE
      rw [e2] at hE'
      obtain ⟨A', D', hA'⟩ := arc_bend hR hA hE hwn hxs hgap hnb hxu hxw' hlv hrv hE'
      exact ⟨s', _, A', D', hrun, hI', by rw [e2]; exact hA'⟩
    · obtain ⟨hlv, hrv, c, h, smid, N2, out2, s', -, -, -, -, -, hrun, -, -, -, hI'⟩ := hB
      have hE := eok_of_inv hI
      have hE' := eok_of_inv hI'
      have e1 : flatE (pre ++ iv :: post) = (flatE pre ++ [iv.lo]) ++ iv.hi :: flatE post := by simp
      have e2 : flatE (pre ++ (⟨iv.lo, ⟨iv.hi.id, w, w'⟩, iv.ci⟩ : IV) :: post) =
          (flatE pre ++ [iv.lo]) ++ (⟨iv.hi.id, w, w'⟩ : AE) :: flatE post := by simp
      rw [e1] at hA hE
      rw [e2] at hE'
      obtain ⟨A', D', hA'⟩ := arc_bend hR hA hE hwn hxs hgap hnb hxu hxw' hlv hrv hE'
      exact ⟨s', _, A', D', hrun, hI', by rw [e2]; exact hA'⟩
  have start : ∀ {wB wT : Nat}, ((R.prv w = wB ∧ R.nxt w = wT) ∨ (R.prv w = wT ∧ R.nxt w = wB)) →
      R.x w < R.x wB → R.x w < R.x wT → 0 < orient (R.pt w) (R.pt wB) (R.pt wT) →
      ∃ s' ivs' A' D', (handleNext : SM XQ Unit).run s = .ok ((), s') ∧ Inv R s' (R.x w) ivs' ∧
        ArcInv R (R.x w) (flatE ivs') A' D' := by
    intro wB wT hnb hxB hxT ho
    rcases step_start_x hN hI hev hnb hxB hxT ho with ⟨pre, post, rfl, hS⟩ | ⟨pre, iv, post, rfl, hS⟩
    · obtain ⟨-, -, s', hrun, -, -, -, hI'⟩ := hS
      have hE := eok_of_inv hI
      have hE' := eok_of_inv hI'
      have e1 : flatE (pre ++ post) = flatE pre ++ flatE post := by simp
      have e2 : flatE (pre ++ (⟨⟨s.edges.size, w, wB⟩, ⟨s.edges.size + 1, w, wT⟩, s.chains.size⟩ : IV) :: post) =
          flatE pre ++ (⟨s.edges.size, w, wB⟩ : AE) :: (⟨s.edges.size + 1, w, wT⟩ : AE) :: flatE post := by
        simp
      rw [e1] at hA hE
      rw [e2] at hE'
      obtain ⟨A', D', hA'⟩ := arc_start hR hA hE hwn hxs hgap hnb hxB hxT ho hE'
      exact ⟨s', _, A', D', hrun, hI', by rw [e2]; exact hA'⟩
    · obtain ⟨-, -, cB, sm0, N', N3, out3, N4, out4, s', -, -, -, -, -, -, hrun, -, -, -, hI'⟩ := hS
      have hE := eok_of_inv hI
      have hE' := eok_of_inv hI'
      have e1 : flatE (pre ++ iv :: post) = (flatE pre ++ [iv.lo]) ++ (iv.hi :: flatE post) := by simp
      have e2 : flatE (pre ++ (⟨iv.lo, ⟨s.edges.size, w, wB⟩, s.chains.size + 1⟩ : IV) ::
          (⟨⟨s.edges.size + 1, w, wT⟩, iv.hi, s.chains.size + 1 + 1⟩ : IV) :: post) =
          (flatE pre ++ [iv.lo]) ++ (⟨s.edges.size, w, wB⟩ : AE) :: (⟨s.edges.size + 1, w, wT⟩ : AE) ::
            (iv.hi :: flatE post) := by simp
      rw [e1] at hA hE
      rw [e2] at hE'
      obtain ⟨A', D', hA'⟩ := arc_start hR hA hE hwn hxs hgap hnb hxB hxT ho hE'
      exact ⟨s', _, A', D', hrun, hI', by rw [e2]; exact hA'⟩
  have endc : ∀ {F1 F2 : List AE} {bot top : AE} {ivs' : List IV} {s' : St XQ},
      flatE ivs = F1 ++ bot :: top :: F2 → flatE ivs' = F1 ++ F2 → bot.rv = w → top.rv = w →
      R.x (R.prv w) < R.x w → R.x (R.nxt w) < R.x w →
      (handleNext : SM XQ Unit).run s = .ok ((), s') → Inv R s' (R.x w) ivs' →
      ∃ s' ivs' A' D', (handleNext : SM XQ Unit).run s = .ok ((), s') ∧ Inv R s' (R.x w) ivs' ∧
        ArcInv R (R.x w) (flatE ivs') A' D' := by
    intro F1 F2 bot top ivs' s' e1 e2 hbr htr h0 h1 hrun hI'
    have hE := eok_of_inv hI
    have hE' := eok_of_inv hI'
    rw [e1] at hA hE
    rw [e2] at hE'
    have hbm : bot ∈ F1 ++ bot :: top :: F2 := by simp
    have htm : top ∈ F1 ++ bot :: top :: F2 := by simp
    have hsorted := hI.sorted
    rw [e1] at hsorted
    have hbt : Below R xs bot top := by
      rw [List.pairwise_append] at hsorted
      exact (List.pairwise_cons.mp hsorted.2.1).1 top List.mem_cons_self
    have hnd : (F1 ++ bot :: top :: F2).Nodup := nodup_of_pairwise_below hsorted
    have hbtne : bot ≠ top := (GenStepBend.nodup_mid hnd).1
    have hne : bot.lv ≠ top.lv := fun e => hbtne (hE.uniq bot hbm top htm e (hbr.trans htr.symm))
    have hor := end_orient (hE.span bot hbm) (hE.span top htm) hbr htr hbt hne
    obtain ⟨A', D', hA'⟩ := arc_end hR hA hE hwn hxs hgap h0 h1 hbr htr hne hor hE'
    exact ⟨s', ivs', A', D', hrun, hI', by rw [e2]; exact hA'⟩
  rcases lt_or_gt_of_ne hp with h0 | h0 <;> rcases lt_or_gt_of_ne hn with h1 | h1
  · rcases step_end_x hN hI hev h0 h1 with ⟨pre, iv, post, rfl, hE⟩ | ⟨pre, iv1, iv2, post, rfl, hE⟩
    · obtain ⟨hbr, htr, c, h, smid, N2, out2, s', -, -, -, -, -, hrun, -, -, -, hI'⟩ := hE
      exact endc (F1 := flatE pre) (F2 := flatE post) (bot := iv.lo) (top := iv.hi) (by simp) (by simp)
        hbr htr h0 h1 hrun hI'
    · obtain ⟨hbr, htr, cB, cT, sm0, N1, N2, out2, N3, out3, s', -, -, -, -, -, -, -, hrun, -, -, -, hI'⟩ := hE
      exact endc (F1 := flatE pre ++ [iv1.lo]) (F2 := iv2.hi :: flatE post) (bot := iv1.hi) (top := iv2.lo)
        (by simp) (by simp) hbr htr h0 h1 hrun hI'
  · exact bend (Or.inl ⟨rfl, rfl⟩) h0 h1
  · exact bend (Or.inr ⟨rfl, rfl⟩) h1 h0
  · have hne : R.prv w ≠ R.nxt w := hR.ne w hwn
    rcases lt_trichotomy 0 (orient (R.pt w) (R.pt (R.prv w)) (R.pt (R.nxt w))) with ho | ho | ho
    · exact start (Or.inl ⟨rfl, rfl⟩) h0 h1 ho
    · exfalso
      rcases le_total (R.x (R.prv w)) (R.x (R.nxt w)) with hle | hle
      · exact fan_ne hN hwn hpn hnn (Or.inr rfl) (Or.inl rfl) hne h0 h1 hle ho.symm
      · apply fan_ne hN hwn hnn hpn (Or.inl rfl) (Or.inr rfl) (Ne.symm hne) h1 h0 hle
        have := Cav.Geo.orient_swap (R.pt w) (R.pt (R.prv w)) (R.pt (R.nxt w))
        linarith
    · refine start (Or.inr ⟨rfl, rfl⟩) h1 h0 ?_
      have := Cav.Geo.orient_swap (R.pt w) (R.pt (R.prv w)) (R.pt (R.nxt w))
      linarith

/-- **the arc invariant at the end of the event loop** -/
theorem aloop (hN : NoCross R) : ∀ (fuel : Nat) (s : St XQ) (xs : Rat) (ivs : List IV) (A : List Arc)
    (D : List Cyc), Inv R s xs ivs → ArcInv R xs (flatE ivs) A D → meas R xs < fuel →
    ∃ xs' A' D', ArcInv R xs' [] A' D' ∧ ∀ v, v < R.n → R.x v ≤ xs'
  | 0, _, _, _, _, _, _, _, h => by omega
  | fuel + 1, s, xs, ivs, A, D, hI, hA, hf => by
    cases hev : s.events with
    | nil =>
      have hq := hI.q
      rw [hev] at hq
      obtain ⟨hE, hall⟩ := all_done hI.ring hq hI.cross
      rw [hE] at hA
      exact ⟨xs, A, D, hA, hall⟩
    | cons ev rest =>
      obtain ⟨w, es⟩ := ev
      obtain ⟨s1, ivs', A', D', hrun, hI', hA'⟩ := astep hN hI hA hev
      have hq := hI.q
      rw [hev] at hq
      have hwq := hq.gt (w, es) List.mem_cons_self
      have hm : meas R (R.x w) < meas R xs := meas_lt hwq.1 hwq.2
      exact aloop hN fuel s1 (R.x w) ivs' A' D' hI' hA' (by omega)

end Cav.GenOutArcLoop
