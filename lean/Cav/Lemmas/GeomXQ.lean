import Cav.Model.Geom
import Cav.Inst.XQ
import Mathlib.Tactic.Ring
import Mathlib.Tactic.Linarith
import Mathlib.Tactic.FieldSimp
import Mathlib.Tactic.Positivity
import Mathlib.Algebra.Order.Field.Rat

namespace Cav.Geo
open Cav Num

/-- a point with finite (rational) coordinates -/
def F (x y : Rat) : Pt XQ := ⟨.fin x, .fin y⟩

instance instDecEqPt {α : Type} [DecidableEq α] : DecidableEq (Pt α) := fun a b =>
  decidable_of_iff (a.x = b.x ∧ a.y = b.y) (by cases a; cases b; simp)

@[simp] theorem F_x (x y : Rat) : (F x y).x = .fin x := rfl
@[simp] theorem F_y (x y : Rat) : (F x y).y = .fin y := rfl

/-! ### `Num` operations of the `XQ` instance on finite values -/

@[simp] theorem zero_xq : (Num.zero : XQ) = .fin 0 := by simp [Num.zero, Num.ofNat]
@[simp] theorem one_xq : (Num.one : XQ) = .fin 1 := by simp [Num.one, Num.ofNat]
@[simp] theorem inf_xq : (Num.inf : XQ) = .pinf := rfl
@[simp] theorem nan_xq : (Num.nan : XQ) = .nan := rfl
@[simp] theorem isNaN_fin (a : Rat) : Num.isNaN (XQ.fin a) = false := rfl
@[simp] theorem isNaN_pinf : Num.isNaN XQ.pinf = false := rfl
@[simp] theorem isNaN_ninf : Num.isNaN XQ.ninf = false := rfl
@[simp] theorem isNaN_nan : Num.isNaN XQ.nan = true := rfl
@[simp] theorem isFinite_fin (a : Rat) : Num.isFinite (XQ.fin a) = true := rfl
theorem isFinite_iff (v : XQ) : Num.isFinite v = true ↔ ∃ q, v = .fin q := by
  cases v <;> simp [Num.isFinite]
@[simp] theorem signBit_fin (a : Rat) : Num.signBit (XQ.fin a) = decide (a < 0) := rfl
@[simp] theorem signBit_pinf : Num.signBit XQ.pinf = false := rfl
@[simp] theorem signBit_ninf : Num.signBit XQ.ninf = true := rfl

@[simp] theorem sub_fin (a b : Rat) : (XQ.fin a - XQ.fin b : XQ) = .fin (a - b) := by
  show XQ.fin (a + -b) = _
  rw [Rat.sub_eq_add_neg]
@[simp] theorem add_fin (a b : Rat) : (XQ.fin a + XQ.fin b : XQ) = .fin (a + b) := rfl
@[simp] theorem mul_fin (a b : Rat) : (XQ.fin a * XQ.fin b : XQ) = .fin (a * b) := rfl
@[simp] theorem neg_fin (a : Rat) : (-XQ.fin a : XQ) = .fin (-a) := rfl
theorem div_fin (a b : Rat) (h : b ≠ 0) : (XQ.fin a / XQ.fin b : XQ) = .fin (a / b) := by
  show XQ.div _ _ = _
  simp [XQ.div, h]

@[simp] theorem ofEq_fin (a b : Rat) : Num.ofEq (XQ.fin a) (XQ.fin b) = decide (a = b) := rfl
@[simp] theorem ofGe_fin (a b : Rat) : Num.ofGe (XQ.fin a) (XQ.fin b) = decide (b ≤ a) := by
  simp [Num.ofGe, Num.le, XQ.le, XQ.lt, XQ.beq, le_iff_lt_or_eq]
@[simp] theorem ofLe_fin (a b : Rat) : Num.ofLe (XQ.fin a) (XQ.fin b) = decide (a ≤ b) := by
  simp [Num.ofLe]
@[simp] theorem ofLt_fin (a b : Rat) : Num.ofLt (XQ.fin a) (XQ.fin b) = decide (a < b) := by
  simp only [Num.ofLt, ofGe_fin, ← not_le, decide_not]
@[simp] theorem ofGt_fin (a b : Rat) : Num.ofGt (XQ.fin a) (XQ.fin b) = decide (b < a) := by
  simp only [Num.ofGt, ofGe_fin, ← not_le, decide_not]
theorem ofCmp_fin (a b : Rat) :
    Num.ofCmp (XQ.fin a) (XQ.fin b) = if a < b then .lt else if b < a then .gt else .eq := by
  simp [Num.ofCmp]


/-! ### `Pt.eq`, `Pt.cmp` on finite points: equality and the lexicographic order -/

/-- strict lexicographic order on rational pairs -/
def lexLt (p q : Rat × Rat) : Prop := p.1 < q.1 ∨ (p.1 = q.1 ∧ p.2 < q.2)

instance (p q : Rat × Rat) : Decidable (lexLt p q) := by unfold lexLt; exact inferInstance

theorem Pt.eq_fin (a b c d : Rat) : (F a b).eq (F c d) = decide (a = c ∧ b = d) := by
  simp [Pt.eq]

theorem Pt.eq_fin_iff (a b c d : Rat) : (F a b).eq (F c d) = true ↔ F a b = F c d := by
  simp [Pt.eq, F]

theorem Pt.cmp_fin (a b c d : Rat) :
    (F a b).cmp (F c d) =
      if a < c then .lt else if c < a then .gt
      else if b < d then .lt else if d < b then .gt else .eq := by
  simp only [Pt.cmp, F_x, F_y, ofCmp_fin]
  split_ifs <;> rfl

theorem Pt.cmp_fin_lt (a b c d : Rat) : (F a b).cmp (F c d) = .lt ↔ lexLt (a, b) (c, d) := by
  rw [Pt.cmp_fin]; unfold lexLt
  rcases lt_trichotomy a c with h | h | h
  · simp [h]
  · subst h
    rcases lt_trichotomy b d with h' | h' | h'
    · simp [h']
    · simp [h']
    · simp [h', lt_asymm h']
  · simp [h, lt_asymm h, ne_of_gt h]

theorem Pt.cmp_fin_gt (a b c d : Rat) : (F a b).cmp (F c d) = .gt ↔ lexLt (c, d) (a, b) := by
  rw [Pt.cmp_fin]; unfold lexLt
  rcases lt_trichotomy a c with h | h | h
  · simp [h, lt_asymm h, ne_of_gt h]
  · subst h
    rcases lt_trichotomy b d with h' | h' | h'
    · simp [h', lt_asymm h']
    · simp [h']
    · simp [h', lt_asymm h']
  · simp [h, lt_asymm h]

theorem Pt.cmp_fin_eq (a b c d : Rat) : (F a b).cmp (F c d) = .eq ↔ a = c ∧ b = d := by
  rw [Pt.cmp_fin]
  rcases lt_trichotomy a c with h | h | h
  · simp [h, ne_of_lt h]
  · subst h
    rcases lt_trichotomy b d with h' | h' | h'
    · simp [h', ne_of_lt h']
    · simp [h']
    · simp [h', lt_asymm h', ne_of_gt h']
  · simp [h, lt_asymm h, ne_of_gt h]


/-! ### gradients and the clockwise test -/

/-- twice the signed area of the triangle `a b c` (positive = counter-clockwise) -/
def orient (a b c : Rat × Rat) : Rat := (b.1 - a.1) * (c.2 - a.2) - (b.2 - a.2) * (c.1 - a.1)

theorem orient_rot (a b c : Rat × Rat) : orient b c a = orient a b c := by
  unfold orient; ring

theorem orient_swap (a b c : Rat × Rat) : orient a c b = - orient a b c := by
  unfold orient; ring

/-- `Pt::grad` on finite points: the slope, or `±∞` by the sign of `dy` on a vertical edge
    (`+∞` also when the two points coincide). -/
theorem grad_fin (a b c d : Rat) :
    (F a b).grad (F c d) =
      if c = a then (if d < b then .ninf else .pinf) else .fin ((d - b) / (c - a)) := by
  unfold Pt.grad
  simp only [F_x, F_y, sub_fin, zero_xq, ofEq_fin, decide_eq_true_eq, sub_eq_zero]
  split_ifs with h1 h2
  · have : d - b < 0 := by linarith
    simp [Num.signVal, this]; decide +kernel
  · have : ¬ d - b < 0 := by linarith
    simp [Num.signVal, this]; decide +kernel
  · rw [div_fin]; exact sub_ne_zero.mpr h1

/-- the part of `clockwiseSign` after the minimum vertex has been selected -/
def cwCore (p pPrev pNext : Pt XQ) : PSign :=
  let gd := p.grad pNext - p.grad pPrev
  if Num.isNaN gd || Num.ofEq gd (Num.zero : XQ) then .none
  else if !(Num.signBit gd) then .c
  else .cc

theorem clockwiseSign_eq_core (p0 p1 p2 : Pt XQ) :
    clockwiseSign p0 p1 p2 =
      if p0.cmp p1 = .gt then (if p1.cmp p2 = .gt then cwCore p2 p1 p0 else cwCore p1 p0 p2)
      else (if p0.cmp p2 = .gt then cwCore p2 p1 p0 else cwCore p0 p2 p1) := by
  unfold clockwiseSign cwCore
  by_cases h1 : p0.cmp p1 = .gt
  · by_cases h2 : p1.cmp p2 = .gt <;> simp [h1, h2]
  · by_cases h2 : p0.cmp p2 = .gt <;> simp [h1, h2]


theorem slope_diff (a b c d e f : Rat) (hc : c ≠ a) (he : e ≠ a) :
    (d - b) / (c - a) - (f - b) / (e - a) = - orient (a, b) (c, d) (e, f) / ((c - a) * (e - a)) := by
  have h1 : c - a ≠ 0 := sub_ne_zero.mpr hc
  have h2 : e - a ≠ 0 := sub_ne_zero.mpr he
  unfold orient
  field_simp
  ring

/-- value of the clockwise test at a lexicographic minimum `p = (a,b)` with successor `(c,d)` and
    predecessor `(e,f)` -/
theorem cwCore_fin (a b c d e f : Rat) (hn : ¬ lexLt (c, d) (a, b)) (hp : ¬ lexLt (e, f) (a, b)) :
    cwCore (F a b) (F e f) (F c d) =
      if c = a then (if e = a then .none else .c)
      else if e = a then .cc
      else if orient (a, b) (c, d) (e, f) = 0 then .none
      else if orient (a, b) (c, d) (e, f) < 0 then .c else .cc := by
  unfold lexLt at hn hp
  simp only [not_or, not_and, not_lt] at hn hp
  obtain ⟨hn1, hn2⟩ := hn
  obtain ⟨hp1, hp2⟩ := hp
  unfold cwCore
  simp only [grad_fin]
  by_cases hc : c = a
  · have hdb : ¬ d < b := not_lt.mpr (hn2 hc)
    by_cases he : e = a
    · have hfb : ¬ f < b := not_lt.mpr (hp2 he)
      simp only [hc, he, hdb, hfb, if_true, if_false]
      decide +kernel
    · simp only [hc, he, hdb, if_true, if_false]
      show (if Num.isNaN XQ.pinf || Num.ofEq XQ.pinf (Num.zero : XQ) then PSign.none
        else if !(Num.signBit XQ.pinf) then .c else .cc) = .c
      decide +kernel
  · by_cases he : e = a
    · have hfb : ¬ f < b := not_lt.mpr (hp2 he)
      simp only [hc, he, hfb, if_true, if_false]
      show (if Num.isNaN XQ.ninf || Num.ofEq XQ.ninf (Num.zero : XQ) then PSign.none
        else if !(Num.signBit XQ.ninf) then .c else .cc) = .cc
      decide +kernel
    · have hca : 0 < c - a := sub_pos.mpr (lt_of_le_of_ne hn1 (Ne.symm hc))
      have hea : 0 < e - a := sub_pos.mpr (lt_of_le_of_ne hp1 (Ne.symm he))
      have hD : 0 < (c - a) * (e - a) := mul_pos hca hea
      simp only [hc, he, if_false, sub_fin, slope_diff a b c d e f hc he, isNaN_fin, zero_xq,
        ofEq_fin, signBit_fin, Bool.false_or, decide_eq_true_eq, Bool.not_eq_true',
        decide_eq_false_iff_not, not_lt]
      simp only [div_eq_zero_iff, neg_eq_zero, ne_of_gt hD, or_false]
      by_cases h0 : orient (a, b) (c, d) (e, f) = 0
      · simp [h0]
      · simp only [h0, if_false]
        by_cases hlt : orient (a, b) (c, d) (e, f) < 0
        · have : 0 ≤ -orient (a, b) (c, d) (e, f) / ((c - a) * (e - a)) :=
            le_of_lt (div_pos (by linarith) hD)
          simp [hlt, this]
        · have hgt : 0 < orient (a, b) (c, d) (e, f) :=
            lt_of_le_of_ne (not_lt.mp hlt) (Ne.symm h0)
          have : ¬ 0 ≤ -orient (a, b) (c, d) (e, f) / ((c - a) * (e - a)) :=
            not_le.mpr (div_neg_of_neg_of_pos (by linarith) hD)
          simp [hlt, this]


theorem cwCore_c_iff (a b c d e f : Rat) (hn : ¬ lexLt (c, d) (a, b)) (hp : ¬ lexLt (e, f) (a, b)) :
    cwCore (F a b) (F e f) (F c d) = .c ↔
      orient (a, b) (c, d) (e, f) < 0 ∨ (c = a ∧ d = b ∧ a < e) := by
  rw [cwCore_fin a b c d e f hn hp]
  unfold lexLt at hn hp
  simp only [not_or, not_and, not_lt] at hn hp
  obtain ⟨hn1, hn2⟩ := hn
  obtain ⟨hp1, hp2⟩ := hp
  by_cases hc : c = a
  · subst hc
    by_cases he : e = c
    · subst he; simp [orient]
    · have hec : c < e := lt_of_le_of_ne hp1 (Ne.symm he)
      have hbd := hn2 rfl
      simp only [he, if_true, if_false, true_iff, true_and, hec, and_true]
      rcases eq_or_lt_of_le hbd with h | h
      · exact Or.inr h.symm
      · left
        have : 0 < (d - b) * (e - c) := mul_pos (sub_pos.mpr h) (sub_pos.mpr hec)
        simp only [orient]; nlinarith
  · by_cases he : e = a
    · subst he
      have hec : e < c := lt_of_le_of_ne hn1 (Ne.symm hc)
      have hbf := hp2 rfl
      have : 0 ≤ (c - e) * (f - b) := mul_nonneg (le_of_lt (sub_pos.mpr hec)) (sub_nonneg.mpr hbf)
      have h2 : ¬ orient (e, b) (c, d) (e, f) < 0 := by simp only [orient]; nlinarith
      simp [hc, h2]
    · simp only [hc, he, if_false, false_and, or_false]
      split_ifs with h0 hlt
      · simp [h0]
      · simp [hlt]
      · simp [hlt]

theorem cwCore_cc_iff (a b c d e f : Rat) (hn : ¬ lexLt (c, d) (a, b)) (hp : ¬ lexLt (e, f) (a, b)) :
    cwCore (F a b) (F e f) (F c d) = .cc ↔
      0 < orient (a, b) (c, d) (e, f) ∨ (e = a ∧ f = b ∧ a < c) := by
  rw [cwCore_fin a b c d e f hn hp]
  unfold lexLt at hn hp
  simp only [not_or, not_and, not_lt] at hn hp
  obtain ⟨hn1, hn2⟩ := hn
  obtain ⟨hp1, hp2⟩ := hp
  by_cases hc : c = a
  · subst hc
    by_cases he : e = c
    · subst he; simp [orient]
    · have hec : c < e := lt_of_le_of_ne hp1 (Ne.symm he)
      have hbd := hn2 rfl
      have : 0 ≤ (d - b) * (e - c) := mul_nonneg (sub_nonneg.mpr hbd) (le_of_lt (sub_pos.mpr hec))
      have h2 : ¬ 0 < orient (c, b) (c, d) (e, f) := by simp only [orient]; nlinarith
      simp [he, h2]
  · by_cases he : e = a
    · subst he
      have hec : e < c := lt_of_le_of_ne hn1 (Ne.symm hc)
      have hbf := hp2 rfl
      simp only [hc, if_true, if_false, true_iff, true_and, hec, and_true]
      rcases eq_or_lt_of_le hbf with h | h
      · exact Or.inr h.symm
      · left
        have : 0 < (c - e) * (f - b) := mul_pos (sub_pos.mpr hec) (sub_pos.mpr h)
        simp only [orient]; nlinarith
    · simp only [hc, he, if_false, false_and, or_false]
      split_ifs with h0 hlt
      · simp [h0]
      · simp [lt_asymm hlt]
      · have : 0 < orient (a, b) (c, d) (e, f) := lt_of_le_of_ne (not_lt.mp hlt) (Ne.symm h0)
        simp [this]


/-- exact characterisation of the answer `C` on finite points -/
theorem clockwiseSign_c_iff (x0 y0 x1 y1 x2 y2 : Rat) :
    clockwiseSign (F x0 y0) (F x1 y1) (F x2 y2) = .c ↔
      orient (x0, y0) (x1, y1) (x2, y2) < 0 ∨ (x0 = x1 ∧ y0 = y1 ∧ x0 < x2)
        ∨ (x1 = x2 ∧ y1 = y2 ∧ x1 < x0) := by
  rw [clockwiseSign_eq_core]
  simp only [Pt.cmp_fin_gt]
  by_cases h1 : lexLt (x1, y1) (x0, y0)
  · by_cases h2 : lexLt (x2, y2) (x1, y1)
    · have h3 : ¬ lexLt (x0, y0) (x2, y2) := by unfold lexLt at *; grind
      have h4 : ¬ lexLt (x1, y1) (x2, y2) := by unfold lexLt at *; grind
      simp only [h1, h2, if_true]
      rw [cwCore_c_iff _ _ _ _ _ _ h3 h4, orient_rot, orient_rot]
      unfold lexLt at *; grind
    · have h3 : ¬ lexLt (x0, y0) (x1, y1) := by unfold lexLt at *; grind
      simp only [h1, h2, if_true, if_false]
      rw [cwCore_c_iff _ _ _ _ _ _ h2 h3, orient_rot]
      unfold lexLt at *; grind
  · by_cases h2 : lexLt (x2, y2) (x0, y0)
    · have h3 : ¬ lexLt (x0, y0) (x2, y2) := by unfold lexLt at *; grind
      have h4 : ¬ lexLt (x1, y1) (x2, y2) := by unfold lexLt at *; grind
      simp only [h1, h2, if_true, if_false]
      rw [cwCore_c_iff _ _ _ _ _ _ h3 h4, orient_rot, orient_rot]
      unfold lexLt at *; grind
    · simp only [h1, h2, if_false]
      rw [cwCore_c_iff _ _ _ _ _ _ h1 h2]
      unfold lexLt at *; grind

/-- exact characterisation of the answer `CC` on finite points -/
theorem clockwiseSign_cc_iff (x0 y0 x1 y1 x2 y2 : Rat) :
    clockwiseSign (F x0 y0) (F x1 y1) (F x2 y2) = .cc ↔
      0 < orient (x0, y0) (x1, y1) (x2, y2) ∨ (x2 = x0 ∧ y2 = y0 ∧ x0 < x1) := by
  rw [clockwiseSign_eq_core]
  simp only [Pt.cmp_fin_gt]
  by_cases h1 : lexLt (x1, y1) (x0, y0)
  · by_cases h2 : lexLt (x2, y2) (x1, y1)
    · have h3 : ¬ lexLt (x0, y0) (x2, y2) := by unfold lexLt at *; grind
      have h4 : ¬ lexLt (x1, y1) (x2, y2) := by unfold lexLt at *; grind
      simp only [h1, h2, if_true]
      rw [cwCore_cc_iff _ _ _ _ _ _ h3 h4, orient_rot, orient_rot]
      unfold lexLt at *; grind
    · have h3 : ¬ lexLt (x0, y0) (x1, y1) := by unfold lexLt at *; grind
      simp only [h1, h2, if_true, if_false]
      rw [cwCore_cc_iff _ _ _ _ _ _ h2 h3, orient_rot]
      unfold lexLt at *; grind
  · by_cases h2 : lexLt (x2, y2) (x0, y0)
    · have h3 : ¬ lexLt (x0, y0) (x2, y2) := by unfold lexLt at *; grind
      have h4 : ¬ lexLt (x1, y1) (x2, y2) := by unfold lexLt at *; grind
      simp only [h1, h2, if_true, if_false]
      rw [cwCore_cc_iff _ _ _ _ _ _ h3 h4, orient_rot, orient_rot]
      unfold lexLt at *; grind
    · simp only [h1, h2, if_false]
      rw [cwCore_cc_iff _ _ _ _ _ _ h1 h2]


theorem clockwiseSign_none_iff (x0 y0 x1 y1 x2 y2 : Rat) :
    clockwiseSign (F x0 y0) (F x1 y1) (F x2 y2) = .none ↔
      orient (x0, y0) (x1, y1) (x2, y2) = 0 ∧ ¬ (x0 = x1 ∧ y0 = y1 ∧ x0 < x2)
        ∧ ¬ (x1 = x2 ∧ y1 = y2 ∧ x1 < x0) ∧ ¬ (x2 = x0 ∧ y2 = y0 ∧ x0 < x1) := by
  have hc := clockwiseSign_c_iff x0 y0 x1 y1 x2 y2
  have hcc := clockwiseSign_cc_iff x0 y0 x1 y1 x2 y2
  cases h : clockwiseSign (F x0 y0) (F x1 y1) (F x2 y2) <;> simp only [h] at hc hcc <;> grind

/-! ### `sort3` -/

theorem perm3_acb {β : Type} (a b c : β) : [a, c, b].Perm [a, b, c] := .cons a (.swap b c [])
theorem perm3_bac {β : Type} (a b c : β) : [b, a, c].Perm [a, b, c] := .swap a b [c]
theorem perm3_bca {β : Type} (a b c : β) : [b, c, a].Perm [a, b, c] :=
  (List.Perm.cons b (.swap a c [])).trans (.swap a b [c])
theorem perm3_cab {β : Type} (a b c : β) : [c, a, b].Perm [a, b, c] :=
  (List.Perm.swap a c [b]).trans (.cons a (.swap b c []))
theorem perm3_cba {β : Type} (a b c : β) : [c, b, a].Perm [a, b, c] :=
  (List.Perm.swap b c [a]).trans (perm3_bca a b c)

/-- `sort3` returns its three arguments in some order -/
theorem sort3_perm {α : Type} [Num α] (a b c : Pt α) :
    [(sort3 a b c).1, (sort3 a b c).2.1, (sort3 a b c).2.2].Perm [a, b, c] := by
  unfold sort3
  by_cases h1 : a.cmp b == .gt <;> simp only [h1, if_true, Bool.false_eq_true, if_false]
  · by_cases h2 : a.cmp c == .gt <;> by_cases h3 : b.cmp c == .gt <;>
      simp only [h2, h3, if_true, Bool.false_eq_true, if_false]
    · exact perm3_cba a b c
    · exact perm3_bca a b c
    · exact perm3_bac a b c
    · exact perm3_bac a b c
  · by_cases h2 : a.cmp c == .gt <;> by_cases h3 : b.cmp c == .gt <;>
      simp only [h2, h3, if_true, Bool.false_eq_true, if_false]
    · exact perm3_cab a b c
    · exact List.Perm.refl _
    · exact perm3_acb a b c
    · exact List.Perm.refl _


/-- the six possible results of `sort3` -/
theorem sort3_cases {α : Type} [Num α] (a b c : Pt α) :
    sort3 a b c = (a, b, c) ∨ sort3 a b c = (a, c, b) ∨ sort3 a b c = (b, a, c) ∨
      sort3 a b c = (b, c, a) ∨ sort3 a b c = (c, a, b) ∨ sort3 a b c = (c, b, a) := by
  unfold sort3
  by_cases h1 : a.cmp b == .gt <;> simp only [h1, if_true, Bool.false_eq_true, if_false]
  · by_cases h2 : a.cmp c == .gt <;> by_cases h3 : b.cmp c == .gt <;>
      simp [h2, h3]
  · by_cases h2 : a.cmp c == .gt <;> by_cases h3 : b.cmp c == .gt <;>
      simp [h2, h3]

/-! ### finite points as rational pairs -/

/-- the rational value of a finite `XQ` (junk `0` otherwise) -/
def toRat : XQ → Rat
  | .fin q => q
  | _ => 0

/-- the coordinates of a point as a rational pair (junk `0` for non-finite coordinates) -/
def toQ (p : Pt XQ) : Rat × Rat := (toRat p.x, toRat p.y)

@[simp] theorem toQ_F (x y : Rat) : toQ (F x y) = (x, y) := rfl

/-- both coordinates are finite -/
def Finite (p : Pt XQ) : Prop := ∃ x y, p = F x y

theorem finite_iff (p : Pt XQ) :
    Finite p ↔ (Num.isFinite p.x = true ∧ Num.isFinite p.y = true) := by
  obtain ⟨x, y⟩ := p
  constructor
  · rintro ⟨a, b, h⟩
    cases h; exact ⟨rfl, rfl⟩
  · rintro ⟨h1, h2⟩
    obtain ⟨a, rfl⟩ := (isFinite_iff x).mp h1
    obtain ⟨b, rfl⟩ := (isFinite_iff y).mp h2
    exact ⟨a, b, rfl⟩

theorem Finite.eq_F {p : Pt XQ} (h : Finite p) : p = F (toQ p).1 (toQ p).2 := by
  obtain ⟨x, y, rfl⟩ := h; rfl

/-- `orient` on points -/
def orientPt (p q r : Pt XQ) : Rat := orient (toQ p) (toQ q) (toQ r)

theorem abs_orient_perm {a b c p q r : Rat × Rat}
    (h : (p, q, r) = (a, b, c) ∨ (p, q, r) = (a, c, b) ∨ (p, q, r) = (b, a, c) ∨
      (p, q, r) = (b, c, a) ∨ (p, q, r) = (c, a, b) ∨ (p, q, r) = (c, b, a)) :
    |orient p q r| = |orient a b c| := by
  rcases h with h | h | h | h | h | h <;> cases h
  · rfl
  · rw [orient_swap, abs_neg]
  · rw [← orient_rot, orient_swap, abs_neg]
  · rw [orient_rot]
  · rw [← orient_rot]
  · rw [orient_swap, ← orient_rot, abs_neg]

/-- sorting the corners keeps the absolute area -/
theorem sort3_abs_orient (a b c : Pt XQ) :
    |orientPt (sort3 a b c).1 (sort3 a b c).2.1 (sort3 a b c).2.2| = |orientPt a b c| := by
  unfold orientPt
  apply abs_orient_perm
  rcases sort3_cases a b c with h | h | h | h | h | h <;> rw [h] <;> simp


/-! ### `yExtrap` on finite points -/

/-- the rational mirror of `yExtrap`: sort the two points lexicographically, then the vertical
    branch, the two clamping branches, and the interpolation -/
def yExtrapQ (p1 p2 : Rat × Rat) (x : Rat) (right : Bool) : Rat :=
  let l := if lexLt p2 p1 then p2 else p1
  let r := if lexLt p2 p1 then p1 else p2
  if x = l.1 ∧ x = r.1 then (if right then r.2 else l.2)
  else if x ≤ l.1 then l.2
  else if r.1 ≤ x then r.2
  else (1 - (x - l.1) / (r.1 - l.1)) * l.2 + (x - l.1) / (r.1 - l.1) * r.2

theorem yExtrap_sorted (a b c d x : Rat) (right : Bool) (h : ¬ lexLt (c, d) (a, b)) :
    yExtrap (F a b) (F c d) (.fin x) right =
      .fin (if x = a ∧ x = c then (if right then d else b)
        else if x ≤ a then b
        else if c ≤ x then d
        else (1 - (x - a) / (c - a)) * b + (x - a) / (c - a) * d) := by
  unfold yExtrap
  have hgt : (F a b).gt (F c d) = false := by
    cases hg : (F a b).gt (F c d) with
    | false => rfl
    | true => exact absurd ((by simpa [Pt.gt, Pt.cmp_fin_gt] using hg : lexLt (c, d) (a, b))) h
  simp only [hgt, Bool.false_eq_true, if_false, F_x, F_y, ofEq_fin, ofLe_fin, ofGe_fin,
    Bool.and_eq_true, decide_eq_true_eq]
  by_cases h1 : x = a ∧ x = c
  · obtain ⟨rfl, rfl⟩ := h1
    cases right <;> simp
  · simp only [h1, if_false]
    by_cases h2 : x ≤ a
    · simp [h2]
    · simp only [h2, if_false]
      by_cases h3 : c ≤ x
      · simp [h3]
      · simp only [h3, if_false]
        have hne : c - a ≠ 0 := by
          have : a < c := lt_trans (not_le.mp h2) (not_le.mp h3)
          exact sub_ne_zero.mpr (ne_of_gt this)
        simp only [sub_fin, div_fin _ _ hne, one_xq, mul_fin, add_fin]

/-- closed form of `yExtrap` on finite arguments -/
theorem yExtrap_fin (a b c d x : Rat) (right : Bool) :
    yExtrap (F a b) (F c d) (.fin x) right = .fin (yExtrapQ (a, b) (c, d) x right) := by
  by_cases h : lexLt (c, d) (a, b)
  · have hgt : (F a b).gt (F c d) = true := by simpa [Pt.gt, Pt.cmp_fin_gt] using h
    have hswap : yExtrap (F a b) (F c d) (.fin x) right = yExtrap (F c d) (F a b) (.fin x) right := by
      have h' : ¬ lexLt (a, b) (c, d) := by unfold lexLt at *; grind
      have hgt' : (F c d).gt (F a b) = false := by
        cases hg : (F c d).gt (F a b) with
        | false => rfl
        | true => exact absurd ((by simpa [Pt.gt, Pt.cmp_fin_gt] using hg : lexLt (a, b) (c, d))) h'
      unfold yExtrap
      simp only [hgt, hgt', if_true, Bool.false_eq_true, if_false]
    have h' : ¬ lexLt (a, b) (c, d) := by unfold lexLt at *; grind
    rw [hswap, yExtrap_sorted c d a b x right h']
    simp only [yExtrapQ, h, if_true]
  · rw [yExtrap_sorted a b c d x right h]
    simp only [yExtrapQ, h, if_false]

/-- `yExtrap` sorts its two point arguments: it is symmetric in them (finite points, any `x`) -/
theorem yExtrap_symm (a b c d : Rat) (x : XQ) (right : Bool) :
    yExtrap (F a b) (F c d) x right = yExtrap (F c d) (F a b) x right := by
  have gt_iff : ∀ a b c d : Rat, (F a b).gt (F c d) = true ↔ lexLt (c, d) (a, b) := by
    intro a b c d; simp [Pt.gt, Pt.cmp_fin_gt]
  unfold yExtrap
  by_cases h1 : lexLt (c, d) (a, b)
  · have h2 : ¬ lexLt (a, b) (c, d) := by unfold lexLt at *; grind
    have g1 := (gt_iff a b c d).mpr h1
    have g2 : (F c d).gt (F a b) = false := by
      cases hg : (F c d).gt (F a b) with
      | false => rfl
      | true => exact absurd ((gt_iff c d a b).mp hg) h2
    simp only [g1, g2, if_true, Bool.false_eq_true, if_false]
  · have g1 : (F a b).gt (F c d) = false := by
      cases hg : (F a b).gt (F c d) with
      | false => rfl
      | true => exact absurd ((gt_iff a b c d).mp hg) h1
    by_cases h2 : lexLt (a, b) (c, d)
    · have g2 := (gt_iff c d a b).mpr h2
      simp only [g1, g2, if_true, Bool.false_eq_true, if_false]
    · have : a = c ∧ b = d := by unfold lexLt at *; grind
      obtain ⟨rfl, rfl⟩ := this
      rfl

end Cav.Geo
