/-
  Soundness of the list parsers of `Model/Lists.lean` (C18).
-/
import Cav.Lemmas.ParseSound
import Cav.Model.Lists
namespace Cav.ListSound
open Cav Grammar ParseSound

/-- `p₁,p₂,…,pₙ` -/
def joinComma : List (List Char) → List Char
  | [] => []
  | [p] => p
  | p :: q :: r => p ++ ',' :: joinComma (q :: r)

theorem joinComma_eq_intercalate (ps : List (List Char)) : joinComma ps = [','].intercalate ps := by
  induction ps with
  | nil => rfl
  | cons p t ih =>
    cases t with
    | nil => simp [joinComma, List.intercalate]
    | cons q r =>
      simp only [joinComma, ih]
      simp [List.intercalate]

theorem joinComma_cons (p : List Char) (ps : List (List Char)) :
    joinComma (p :: ps) = p ++ (ps.map (',' :: ·)).flatten := by
  induction ps generalizing p with
  | nil => simp [joinComma]
  | cons q r ih => simp [joinComma, ih]

/-- element-wise relation between two lists of equal length (order preserving) -/
inductive AllPairs {β γ : Type} (P : β → γ → Prop) : List β → List γ → Prop where
  | nil : AllPairs P [] []
  | cons {b c bs cs} : P b c → AllPairs P bs cs → AllPairs P (b :: bs) (c :: cs)

theorem AllPairs.length_eq {β γ : Type} {P : β → γ → Prop} {bs : List β} {cs : List γ}
    (h : AllPairs P bs cs) : bs.length = cs.length := by
  induction h with
  | nil => rfl
  | cons _ _ ih => simp [ih]

theorem AllPairs.get {β γ : Type} {P : β → γ → Prop} {bs : List β} {cs : List γ}
    (h : AllPairs P bs cs) : ∀ (i : Nat) (h1 : i < bs.length) (h2 : i < cs.length), P bs[i] cs[i] := by
  induction h with
  | nil => intro i h1; simp at h1
  | cons hp _ ih =>
    intro i h1 h2
    cases i with
    | zero => simpa using hp
    | succ j => simpa using ih j (by simpa using h1) (by simpa using h2)

theorem AllPairs.append {β γ : Type} {P : β → γ → Prop} {bs bs' : List β} {cs cs' : List γ}
    (h : AllPairs P bs cs) (h' : AllPairs P bs' cs') : AllPairs P (bs ++ bs') (cs ++ cs') := by
  induction h with
  | nil => simpa using h'
  | cons hp _ ih => exact .cons hp ih

theorem AllPairs.imp {β γ : Type} {P Q : β → γ → Prop} (hPQ : ∀ b c, P b c → Q b c)
    {bs : List β} {cs : List γ} (h : AllPairs P bs cs) : AllPairs Q bs cs := by
  induction h with
  | nil => exact .nil
  | cons hp _ ih => exact .cons (hPQ _ _ hp) ih

/-! ### generic list parser -/

section generic
variable {β : Type} (elem : List Char → LR β) (P : β → List Char → Prop)

/-- specification of an element parser: what it consumed denotes what it returned -/
def ElemSound : Prop := ∀ s rest v, elem s = .ok rest v → ∃ pre, s = pre ++ rest ∧ P v pre

theorem listLoop_sound (he : ElemSound elem P) :
    ∀ (fuel : Nat) (s : List Char) (acc : List β) (rest : List Char) (vs : List β),
      listLoop elem fuel s acc = .ok rest vs →
      ∃ (ps : List (List Char)) (vs' : List β), vs = acc.reverse ++ vs' ∧
        s = (ps.map (',' :: ·)).flatten ++ rest ∧ AllPairs P vs' ps := by
  intro fuel
  induction fuel with
  | zero => intro s acc rest vs h; simp [listLoop] at h
  | succ fuel ih =>
    intro s acc rest vs h
    unfold listLoop at h
    split at h
    · rename_i r
      split at h
      · rename_i r2 v hel
        obtain ⟨pre, hs, hP⟩ := he _ _ _ hel
        obtain ⟨ps, vs', hvs, hr2, hall⟩ := ih _ _ _ _ h
        refine ⟨pre :: ps, v :: vs', ?_, ?_, .cons hP hall⟩
        · rw [hvs]; simp
        · rw [hs, hr2]; simp
      · cases h
      · cases h
      · cases h
    · cases h
      exact ⟨[], [], by simp, by simp, .nil⟩

/-- `parse_list_of_elem`: at least one element, separated by commas, optionally bracketed -/
theorem parseListOf_sound (he : ElemSound elem P) (b : Bool) (s rest : List Char) (vs : List β)
    (h : parseListOf elem b s = .ok rest vs) :
    ∃ ps : List (List Char), AllPairs P vs ps ∧ ps ≠ [] ∧
      s = (if b then '[' :: joinComma ps ++ ']' :: rest else joinComma ps ++ rest) := by
  unfold parseListOf at h
  simp only at h
  split at h
  · cases h
  · rename_i s1 hstart
    split at h
    · cases h
    · cases h
    · cases h
    · rename_i r v hel
      obtain ⟨pre, hs1, hP⟩ := he _ _ _ hel
      split at h
      · rename_i r2 vs0 hloop
        obtain ⟨ps, vs', hvs, hr, hall⟩ := listLoop_sound elem P he _ _ _ _ _ hloop
        have hvs0 : vs0 = v :: vs' := by simpa using hvs
        cases b with
        | true =>
          simp only [if_true] at h hstart
          split at h
          · rename_i r3
            cases h
            split at hstart
            · rename_i r0
              cases hstart
              refine ⟨pre :: ps, hvs0 ▸ .cons hP hall, by simp, ?_⟩
              rw [joinComma_cons, hs1, hr]; simp
            · cases hstart
          · cases h
        | false =>
          simp only [Bool.false_eq_true, if_false] at h hstart
          cases h; cases hstart
          refine ⟨pre :: ps, hvs0 ▸ .cons hP hall, by simp, ?_⟩
          rw [joinComma_cons, hs1, hr]; simp
      · cases h
      · cases h
      · cases h

end generic

/-! ### pairs -/

/-- a pair of constant expressions and the two strings that denote them -/
def PairOK (ctx : Ctx) (e : E × E) (p : List Char × List Char) : Prop :=
  Prints ctx e.1 p.1 ∧ Prints ctx e.2 p.2 ∧ e.1.varsLt 0 = true ∧ e.2.varsLt 0 = true

/-- `[s1,s2]` -/
def renderPair (p : List Char × List Char) : List Char := '[' :: p.1 ++ ',' :: p.2 ++ [']']

theorem parse2_sound {ctx : Ctx} {s rest : List Char} {v : E × E} (h : parse2 ctx s = .ok rest v) :
    ∃ p : List Char × List Char, s = renderPair p ++ rest ∧ PairOK ctx v p := by
  unfold parse2 at h
  split at h
  · rename_i r
    split at h
    · cases h
    · cases h
    · rename_i r2 v1 h1
      obtain ⟨s1, hs1, hP1⟩ := (soundAt ctx _).expr _ _ _ h1
      split at h
      · cases h
      · cases h
      · rename_i r3 v2 h2
        obtain ⟨s2, hs2, hP2⟩ := (soundAt ctx _).expr _ _ _ h2
        split at h
        · rename_i hv
          cases h
          simp only [Bool.and_eq_true] at hv
          refine ⟨(s1, s2), ?_, hP1, hP2, hv.1, hv.2⟩
          rw [hs1, hs2]; simp [renderPair]
        · cases h
      · cases h
    · cases h
  · cases h

/-- `parse2` in the `ElemSound` form -/
theorem parse2_elemSound (ctx : Ctx) :
    ElemSound (parse2 ctx) (fun v pre => ∃ p, pre = renderPair p ∧ PairOK ctx v p) := by
  intro s rest v h
  obtain ⟨p, hs, hp⟩ := parse2_sound h
  exact ⟨renderPair p, hs, p, rfl, hp⟩

/-- turn a list of "∃ piece" facts into a list of pieces -/
theorem allPairs_choose {β γ : Type} {Q : β → γ → Prop} {f : γ → List Char} {vs : List β} {ps : List (List Char)}
    (h : AllPairs (fun v pre => ∃ p, pre = f p ∧ Q v p) vs ps) :
    ∃ qs : List γ, ps = qs.map f ∧ AllPairs Q vs qs := by
  induction h with
  | nil => exact ⟨[], rfl, .nil⟩
  | cons hp _ ih =>
    obtain ⟨p, rfl, hq⟩ := hp
    obtain ⟨qs, rfl, hall⟩ := ih
    exact ⟨p :: qs, rfl, .cons hq hall⟩


/-! ### the `panic` outcome -/

theorem listLoop_no_panic {β : Type} {elem : List Char → LR β} (he : ∀ s, elem s ≠ .panic) :
    ∀ (fuel : Nat) (s : List Char) (acc : List β), listLoop elem fuel s acc ≠ .panic := by
  intro fuel
  induction fuel with
  | zero => intro s acc h; simp [listLoop] at h
  | succ fuel ih =>
    intro s acc h
    unfold listLoop at h
    split at h
    · rename_i r
      split at h
      · exact ih _ _ h
      · cases h
      · cases h
      · rename_i hp; exact he _ hp
    · cases h

theorem parseListOf_no_panic {β : Type} {elem : List Char → LR β} (he : ∀ s, elem s ≠ .panic)
    (b : Bool) (s : List Char) : parseListOf elem b s ≠ .panic := by
  intro h
  unfold parseListOf at h
  simp only at h
  split at h
  · cases h
  · split at h
    · cases h
    · cases h
    · rename_i hp; exact he _ hp
    · split at h
      · split at h
        · split at h <;> cases h
        · cases h
      · cases h
      · cases h
      · rename_i hp; exact listLoop_no_panic he _ _ _ hp

/-- `parse2` never returns the `panic` outcome: an entry with a variable is a parse error
    (`safe_eval`), for EVERY context -/
theorem parse2_no_panic (ctx : Ctx) (s : List Char) : parse2 ctx s ≠ .panic := by
  intro h
  unfold parse2 at h
  split at h
  · split at h
    · cases h
    · cases h
    · split at h
      · cases h
      · cases h
      · split at h <;> cases h
      · cases h
    · cases h
  · cases h

end Cav.ListSound
