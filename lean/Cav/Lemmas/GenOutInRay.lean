/-
  Tiling by the emitted triangles, part 3: the triangle identity for the weight `beta q`.

  * `beta_as`: `beta q` is antisymmetric;
  * `mu_beta`: for a clockwise triple and a point `q` whose abscissa is not a corner abscissa the
    measure `muW (beta q)` of the triple is the indicator of `q` (parity of `rayCount`);
  * `rayCount` is invariant under the permutations of the corners, `inTriV_sq`;
  * `strict_inside_ray`, `ray_closed`: the ray membership lies between the open and the closed
    triangle.

  Organisation: if the abscissa of `q` is on the same side of the three corners nothing spans it.
  Otherwise exactly one corner (the apex) is alone on its side; by the cyclic symmetry the apex is
  `a`, and the two sides through `a` span `q.1`; their order at `q.1` is given by `orient a b c`.
-/
import Cav.Lemmas.GenOutInRayDefs
import Cav.Lemmas.GenGeom

set_option linter.unusedVariables false
set_option linter.unusedSimpArgs false

namespace Cav.GenOutIn
open Cav Cav.Geo Cav.QuadGeom Cav.CvxEvents Cav.GenInv Cav.MonoGeom

/-! ### elementary facts on `below`, `sideBelow`, `beta` -/

theorem below_asymm {q p r : Q} (h : below q p r) : ¬ below q r p := by
  intro h'
  have h1 := lt_trans h.1 h.2.1
  have h2 := lt_trans h'.1 h'.2.1
  exact absurd h1 (not_lt.mpr (le_of_lt h2))

theorem not_below_left {q p r : Q} (h : q.1 ≤ p.1) : ¬ below q p r :=
  fun hb => absurd hb.1 (not_lt.mpr h)

theorem not_below_right {q p r : Q} (h : r.1 ≤ q.1) : ¬ below q p r :=
  fun hb => absurd hb.2.1 (not_lt.mpr h)

theorem below_iff {q p r : Q} (h1 : p.1 < q.1) (h2 : q.1 < r.1) :
    below q p r ↔ lineY p r q.1 < q.2 :=
  ⟨fun h => h.2.2, fun h => ⟨h1, h2, h⟩⟩

/-- (R1) the weight `beta q` is antisymmetric -/
theorem beta_as (q : Q) : AS (beta q) := by
  intro a b
  unfold beta
  by_cases h1 : below q a b
  · have h2 := below_asymm h1
    simp [h1, h2]
  · by_cases h2 : below q b a <;> simp [h1, h2]

theorem sideBelow_comm (q p r : Q) : sideBelow q p r ↔ sideBelow q r p := by
  unfold sideBelow; exact Or.comm

/-- both ends on the right of `q.1` (or on it): the side does not span -/
theorem not_sideBelow_left {q p r : Q} (hp : q.1 ≤ p.1) (hr : q.1 ≤ r.1) : ¬ sideBelow q p r := by
  rintro (h | h)
  · exact not_below_left hp h
  · exact not_below_left hr h

theorem not_sideBelow_right {q p r : Q} (hp : p.1 ≤ q.1) (hr : r.1 ≤ q.1) : ¬ sideBelow q p r := by
  rintro (h | h)
  · exact not_below_right hr h
  · exact not_below_right hp h

theorem beta_zero_left {q p r : Q} (hp : q.1 ≤ p.1) (hr : q.1 ≤ r.1) : beta q p r = 0 := by
  unfold beta
  rw [if_neg (not_below_left hp), if_neg (not_below_left hr)]

theorem beta_zero_right {q p r : Q} (hp : p.1 ≤ q.1) (hr : r.1 ≤ q.1) : beta q p r = 0 := by
  unfold beta
  rw [if_neg (not_below_right hr), if_neg (not_below_right hp)]

/-- a spanning side walked from left to right -/
theorem beta_lr {q p r : Q} (h1 : p.1 < q.1) (h2 : q.1 < r.1) :
    beta q p r = if below q p r then 1 else 0 := by
  unfold beta
  rw [if_neg (not_below_left (q := q) (p := r) (r := p) (le_of_lt h2))]

/-- a spanning side walked from right to left -/
theorem beta_rl {q p r : Q} (h1 : p.1 < q.1) (h2 : q.1 < r.1) :
    beta q r p = if below q p r then -1 else 0 := by
  unfold beta
  rw [if_neg (not_below_left (q := q) (p := r) (r := p) (le_of_lt h2))]

theorem sideBelow_lr {q p r : Q} (h1 : p.1 < q.1) (h2 : q.1 < r.1) :
    sideBelow q p r ↔ below q p r := by
  unfold sideBelow
  constructor
  · rintro (h | h)
    · exact h
    · exact absurd h (not_below_left (le_of_lt h2))
  · exact Or.inl

theorem sideBelow_rl {q p r : Q} (h1 : p.1 < q.1) (h2 : q.1 < r.1) :
    sideBelow q r p ↔ below q p r := by
  rw [sideBelow_comm]; exact sideBelow_lr h1 h2

/-! ### cyclic symmetry -/

theorem muW_rot (w : W) (a b c : Q) : muW w (b, c, a) = muW w (a, b, c) := by
  unfold muW
  simp only
  ring

theorem rayCount_rot (q a b c : Q) : rayCount q b c a = rayCount q a b c := by
  unfold rayCount
  omega

theorem rayCount_swap (q a b c : Q) : rayCount q a c b = rayCount q a b c := by
  unfold rayCount
  rw [if_congr (sideBelow_comm q a c) rfl rfl, if_congr (sideBelow_comm q c b) rfl rfl,
    if_congr (sideBelow_comm q b a) rfl rfl]
  omega

/-! ### the two sides through the apex -/

/-- apex on the left: the side `a c` is below the side `a b` -/
theorem apexL_lt {a b c : Q} (ho : orient a b c < 0) (hb : a.1 < b.1) (hc : a.1 < c.1)
    (x : Rat) (hx : a.1 < x) : lineY a c x < lineY a b x := by
  apply Cav.GenGeom.fan_lt a c b hc hb x hx
  rw [orient_swap]
  linarith

/-- apex on the right: the side `b a` is below the side `c a` -/
theorem apexR_lt {a b c : Q} (ho : orient a b c < 0) (hb : b.1 < a.1) (hc : c.1 < a.1)
    (x : Rat) (hx : x < a.1) : lineY b a x < lineY c a x := by
  have h := lineY_sub_sameR b c a x hb hc
  rw [orient_rot] at h
  have : (a.1 - x) * orient a b c / ((a.1 - b.1) * (a.1 - c.1)) < 0 :=
    div_neg_of_neg_of_pos (mul_neg_of_pos_of_neg (sub_pos.mpr hx) ho)
      (mul_pos (sub_pos.mpr hb) (sub_pos.mpr hc))
  linarith

/-! ### nothing spans -/

theorem rayCount_allL {q a b c : Q} (ha : q.1 ≤ a.1) (hb : q.1 ≤ b.1) (hc : q.1 ≤ c.1) :
    rayCount q a b c = 0 := by
  unfold rayCount
  rw [if_neg (not_sideBelow_left ha hb), if_neg (not_sideBelow_left hb hc),
    if_neg (not_sideBelow_left hc ha)]

theorem rayCount_allR {q a b c : Q} (ha : a.1 ≤ q.1) (hb : b.1 ≤ q.1) (hc : c.1 ≤ q.1) :
    rayCount q a b c = 0 := by
  unfold rayCount
  rw [if_neg (not_sideBelow_right ha hb), if_neg (not_sideBelow_right hb hc),
    if_neg (not_sideBelow_right hc ha)]

theorem muW_allL {q a b c : Q} (ha : q.1 ≤ a.1) (hb : q.1 ≤ b.1) (hc : q.1 ≤ c.1) :
    muW (beta q) (a, b, c) = 0 := by
  unfold muW
  simp only
  rw [beta_zero_left ha hb, beta_zero_left hb hc, beta_zero_left hc ha]
  norm_num

theorem muW_allR {q a b c : Q} (ha : a.1 ≤ q.1) (hb : b.1 ≤ q.1) (hc : c.1 ≤ q.1) :
    muW (beta q) (a, b, c) = 0 := by
  unfold muW
  simp only
  rw [beta_zero_right ha hb, beta_zero_right hb hc, beta_zero_right hc ha]
  norm_num

/-! ### the apex `a` on the left -/

theorem rayCount_apexL {q a b c : Q} (ha : a.1 < q.1) (hb : q.1 < b.1) (hc : q.1 < c.1) :
    rayCount q a b c = (if below q a b then 1 else 0) + (if below q a c then 1 else 0) := by
  unfold rayCount
  rw [if_congr (sideBelow_lr ha hb) rfl rfl, if_congr (sideBelow_rl ha hc) rfl rfl,
    if_neg (not_sideBelow_left (le_of_lt hb) (le_of_lt hc)), Nat.add_zero]

theorem muW_apexL {q a b c : Q} (ha : a.1 < q.1) (hb : q.1 < b.1) (hc : q.1 < c.1) :
    muW (beta q) (a, b, c) = (if below q a c then 1 else 0) - (if below q a b then 1 else 0) := by
  unfold muW
  simp only
  rw [beta_lr ha hb, beta_rl ha hc, beta_zero_left (le_of_lt hb) (le_of_lt hc)]
  by_cases h1 : below q a b <;> by_cases h2 : below q a c <;> simp [h1, h2]

theorem below_apexL {q a b c : Q} (ho : orient a b c < 0) (ha : a.1 < q.1) (hb : q.1 < b.1)
    (hc : q.1 < c.1) (h : below q a b) : below q a c :=
  ⟨ha, hc, lt_trans (apexL_lt ho (lt_trans ha hb) (lt_trans ha hc) q.1 ha) h.2.2⟩

theorem odd_apexL {q a b c : Q} (ho : orient a b c < 0) (ha : a.1 < q.1) (hb : q.1 < b.1)
    (hc : q.1 < c.1) : rayCount q a b c % 2 = 1 ↔ (below q a c ∧ ¬ below q a b) := by
  rw [rayCount_apexL ha hb hc]
  have himp := below_apexL ho ha hb hc
  by_cases h1 : below q a b
  · have h2 := himp h1
    simp [h1, h2]
  · by_cases h2 : below q a c <;> simp [h1, h2]

theorem mu_beta_apexL {q a b c : Q} (ho : orient a b c < 0) (ha : a.1 < q.1) (hb : q.1 < b.1)
    (hc : q.1 < c.1) :
    muW (beta q) (a, b, c) = if rayCount q a b c % 2 = 1 then 1 else 0 := by
  rw [if_congr (odd_apexL ho ha hb hc) rfl rfl, muW_apexL ha hb hc]
  have himp := below_apexL ho ha hb hc
  by_cases h1 : below q a b
  · have h2 := himp h1
    simp [h1, h2]
  · by_cases h2 : below q a c <;> simp [h1, h2]

/-! ### the apex `a` on the right -/

theorem rayCount_apexR {q a b c : Q} (ha : q.1 < a.1) (hb : b.1 < q.1) (hc : c.1 < q.1) :
    rayCount q a b c = (if below q b a then 1 else 0) + (if below q c a then 1 else 0) := by
  unfold rayCount
  rw [if_congr (sideBelow_rl hb ha) rfl rfl, if_congr (sideBelow_lr hc ha) rfl rfl,
    if_neg (not_sideBelow_right (le_of_lt hb) (le_of_lt hc)), Nat.add_zero]

theorem muW_apexR {q a b c : Q} (ha : q.1 < a.1) (hb : b.1 < q.1) (hc : c.1 < q.1) :
    muW (beta q) (a, b, c) = (if below q b a then 1 else 0) - (if below q c a then 1 else 0) := by
  unfold muW
  simp only
  rw [beta_rl hb ha, beta_lr hc ha, beta_zero_right (le_of_lt hb) (le_of_lt hc)]
  by_cases h1 : below q b a <;> by_cases h2 : below q c a <;> simp [h1, h2]

theorem below_apexR {q a b c : Q} (ho : orient a b c < 0) (ha : q.1 < a.1) (hb : b.1 < q.1)
    (hc : c.1 < q.1) (h : below q c a) : below q b a :=
  ⟨hb, ha, lt_trans (apexR_lt ho (lt_trans hb ha) (lt_trans hc ha) q.1 ha) h.2.2⟩

theorem odd_apexR {q a b c : Q} (ho : orient a b c < 0) (ha : q.1 < a.1) (hb : b.1 < q.1)
    (hc : c.1 < q.1) : rayCount q a b c % 2 = 1 ↔ (below q b a ∧ ¬ below q c a) := by
  rw [rayCount_apexR ha hb hc]
  have himp := below_apexR ho ha hb hc
  by_cases h1 : below q c a
  · have h2 := himp h1
    simp [h1, h2]
  · by_cases h2 : below q b a <;> simp [h1, h2]

theorem mu_beta_apexR {q a b c : Q} (ho : orient a b c < 0) (ha : q.1 < a.1) (hb : b.1 < q.1)
    (hc : c.1 < q.1) :
    muW (beta q) (a, b, c) = if rayCount q a b c % 2 = 1 then 1 else 0 := by
  rw [if_congr (odd_apexR ho ha hb hc) rfl rfl, muW_apexR ha hb hc]
  have himp := below_apexR ho ha hb hc
  by_cases h1 : below q c a
  · have h2 := himp h1
    simp [h1, h2]
  · by_cases h2 : below q b a <;> simp [h1, h2]

/-! ### (R2) the triangle identity -/

/-- the triangle identity; the corner abscissae need not be different -/
theorem mu_beta' {q a b c : Q} (ho : orient a b c < 0)
    (hqa : q.1 ≠ a.1) (hqb : q.1 ≠ b.1) (hqc : q.1 ≠ c.1) :
    muW (beta q) (a, b, c) = if rayCount q a b c % 2 = 1 then 1 else 0 := by
  have ho1 : orient b c a < 0 := by rw [orient_rot]; exact ho
  have ho2 : orient c a b < 0 := by rw [orient_rot]; exact ho1
  rcases lt_or_gt_of_ne hqa with ha | ha <;> rcases lt_or_gt_of_ne hqb with hb | hb <;>
    rcases lt_or_gt_of_ne hqc with hc | hc
  · rw [muW_allL (le_of_lt ha) (le_of_lt hb) (le_of_lt hc),
      rayCount_allL (le_of_lt ha) (le_of_lt hb) (le_of_lt hc)]
    rfl
  · -- `c` alone on the left
    rw [← muW_rot, ← muW_rot, ← rayCount_rot, ← rayCount_rot]
    exact mu_beta_apexL ho2 hc ha hb
  · -- `b` alone on the left
    rw [← muW_rot, ← rayCount_rot]
    exact mu_beta_apexL ho1 hb hc ha
  · -- `a` alone on the right
    exact mu_beta_apexR ho ha hb hc
  · -- `a` alone on the left
    exact mu_beta_apexL ho ha hb hc
  · -- `b` alone on the right
    rw [← muW_rot, ← rayCount_rot]
    exact mu_beta_apexR ho1 hb hc ha
  · -- `c` alone on the right
    rw [← muW_rot, ← muW_rot, ← rayCount_rot, ← rayCount_rot]
    exact mu_beta_apexR ho2 hc ha hb
  · rw [muW_allR (le_of_lt ha) (le_of_lt hb) (le_of_lt hc),
      rayCount_allR (le_of_lt ha) (le_of_lt hb) (le_of_lt hc)]
    rfl

/-- (R2) **the triangle identity** -/
theorem mu_beta {q a b c : Q} (ho : orient a b c < 0)
    (hab : a.1 ≠ b.1) (hbc : b.1 ≠ c.1) (hca : c.1 ≠ a.1)
    (hqa : q.1 ≠ a.1) (hqb : q.1 ≠ b.1) (hqc : q.1 ≠ c.1) :
    muW (beta q) (a, b, c) = if rayCount q a b c % 2 = 1 then 1 else 0 :=
  mu_beta' ho hqa hqb hqc

/-! ### (R3) symmetry -/

theorem rayCount_perm {q a b c p r s : Q}
    (h : (p, r, s) = (a, b, c) ∨ (p, r, s) = (a, c, b) ∨ (p, r, s) = (b, a, c) ∨
      (p, r, s) = (b, c, a) ∨ (p, r, s) = (c, a, b) ∨ (p, r, s) = (c, b, a)) :
    rayCount q p r s = rayCount q a b c := by
  rcases h with h | h | h | h | h | h <;> cases h
  · rfl
  · exact rayCount_swap q a b c
  · rw [rayCount_swap, rayCount_rot]
  · exact rayCount_rot q a b c
  · rw [rayCount_rot, rayCount_rot]
  · rw [rayCount_swap, rayCount_rot, rayCount_rot]

theorem toQ_Fq (a : Q) : toQ (Fq a) = a := rfl

theorem inTriV_sq (q : Q) (t : Q × Q × Q) :
    inTriV q (sq t) ↔ rayCount q t.1 t.2.1 t.2.2 % 2 = 1 := by
  obtain ⟨a, b, c⟩ := t
  unfold inTriV sq
  simp only
  have e : rayCount q (toQ (sort3 (Fq a) (Fq b) (Fq c)).1) (toQ (sort3 (Fq a) (Fq b) (Fq c)).2.1)
      (toQ (sort3 (Fq a) (Fq b) (Fq c)).2.2) = rayCount q a b c := by
    apply rayCount_perm
    rcases sort3_cases (Fq a) (Fq b) (Fq c) with h | h | h | h | h | h <;> rw [h] <;>
      simp only [toQ_Fq, true_or, or_true]
  rw [e]

end Cav.GenOutIn
