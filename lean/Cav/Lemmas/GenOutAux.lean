/-
  Output of the sweep on general valid input, part 4: auxiliary lemmas for the event steps — the
  position of the event vertex relative to its neighbours in the active list, the boundary flags
  of new edges, fans of rational chains as fans of heap chains.
-/
import Cav.Lemmas.GenOutInv

set_option linter.unusedVariables false
set_option linter.unusedSimpArgs false

namespace Cav.GenOutAux
open Cav Num Cav.Geo Cav.Sweep Cav.TriRun Cav.QuadRun Cav.QuadGeom Cav.SweepOut Cav.CvxEvents Cav.CvxLoop
open Cav.GenNodes Cav.GenInv Cav.MonoGeom Cav.MonoHeap Cav.MonoFan Cav.GenOutShape
open Cav.GenOutDefs Cav.GenLinks Cav.GenOrder Cav.GenOutInv Cav.GenOutCount
open Cav.GenGeom hiding Q

variable {R : RingQ}

/-! ### the event vertex and its neighbours -/

/-- the vertex `w`, left end of an edge that lies below `b` at the abscissa of `w`, is strictly
    below `b` -/
theorem pt_below {i : Nat} {w w' : Nat} {b : AE} (h : Below R (R.x w) ⟨i, w, w'⟩ b) (hne : b.lv ≠ w)
    (hb : (R.pt b.lv).1 < (R.pt b.rv).1) : orient (R.pt b.lv) (R.pt b.rv) (R.pt w) < 0 := by
  rcases h with h | ⟨h, -⟩
  · apply orient_neg_of_below _ _ _ hb
    have e : lineY (R.pt w) (R.pt w') (R.x w) = (R.pt w).2 := lineY_left _ _
    simp only at h
    rw [e] at h
    exact h
  · exact absurd h.symm hne

/-- the vertex `w`, left end of an edge that lies above `a` at the abscissa of `w`, is strictly
    above `a` -/
theorem pt_above {i : Nat} {w w' : Nat} {a : AE} (h : Below R (R.x w) a ⟨i, w, w'⟩) (hne : a.lv ≠ w)
    (ha : (R.pt a.lv).1 < (R.pt a.rv).1) : 0 < orient (R.pt a.lv) (R.pt a.rv) (R.pt w) := by
  rcases h with h | ⟨h, -⟩
  · apply orient_pos_of_above _ _ _ ha
    have e : lineY (R.pt w) (R.pt w') (R.x w) = (R.pt w).2 := lineY_left _ _
    simp only at h
    rw [e] at h
    exact h
  · exact absurd h hne

theorem flatE_length (l : List IV) : (flatE l).length = 2 * l.length := by
  induction l with
  | nil => rfl
  | cons a r ih => simp only [flatE_cons, List.length_cons, ih]; omega

/-- a lower edge of an in-interval that starts on the sweep line is a lower boundary edge -/
theorem isLo_lo {s : St XQ} {xs : Rat} {pre post : List IV} {iv : IV}
    (hI : Inv R s xs (pre ++ iv :: post)) (hx : R.x iv.lo.lv = xs) : isLo R iv.lo.lv iv.lo.rv := by
  have hflat : flatE (pre ++ iv :: post) = flatE pre ++ iv.lo :: (iv.hi :: flatE post) := by simp
  have := nBelow_eq hI.ring (F1 := flatE pre) (F2 := iv.hi :: flatE post) (a := iv.lo)
    (by rw [← hflat]; exact hI.span) (by rw [← hflat]; exact hI.sorted)
    (by rw [← hflat]; exact hI.cross) (by rw [← hflat]; exact hI.q.uniq) hx
  unfold isLo
  rw [this, flatE_length]
  omega

/-- an upper edge of an in-interval that starts on the sweep line is not a lower boundary edge -/
theorem isLo_hi {s : St XQ} {xs : Rat} {pre post : List IV} {iv : IV}
    (hI : Inv R s xs (pre ++ iv :: post)) (hx : R.x iv.hi.lv = xs) : ¬ isLo R iv.hi.lv iv.hi.rv := by
  have hflat : flatE (pre ++ iv :: post) = (flatE pre ++ [iv.lo]) ++ iv.hi :: flatE post := by simp
  have := nBelow_eq hI.ring (F1 := flatE pre ++ [iv.lo]) (F2 := flatE post) (a := iv.hi)
    (by rw [← hflat]; exact hI.span) (by rw [← hflat]; exact hI.sorted)
    (by rw [← hflat]; exact hI.cross) (by rw [← hflat]; exact hI.q.uniq) hx
  unfold isLo
  rw [this, List.length_append, flatE_length]
  simp only [List.length_cons, List.length_nil]
  omega

/-! ### fans of rational chains in the heap -/

theorem hp_pts (mid : List (Nat × Q)) (g : Nat × Q) :
    (hp mid).map Prod.snd ++ [Fq g.2] = ((mid ++ [g]).map Prod.snd).map Fq := by
  rw [hp_snd]; simp

theorem fanF_hp (u : Q) (mid : List (Nat × Q)) (g : Nat × Q)
    (h : FanQ 1 u ((mid ++ [g]).map Prod.snd)) : FanF (Fq u) ((hp mid).map Prod.snd ++ [Fq g.2]) := by
  rw [hp_pts]; exact fanF_of_Q u _ h

theorem fanB_hp (u : Q) (mid : List (Nat × Q)) (g : Nat × Q)
    (h : FanQ (-1) u ((mid ++ [g]).map Prod.snd)) : FanB (Fq u) ((hp mid).map Prod.snd ++ [Fq g.2]) := by
  rw [hp_pts]; exact fanB_of_Q u _ h

theorem stopF_hp (u : Q) (g : Nat × Q) (rest : List (Nat × Q))
    (hxd : XDec (u :: (g :: rest).map Prod.snd))
    (hs : ∀ h r, rest = h :: r → ¬ (1 : Rat) * orient u g.2 h.2 < 0) :
    StopF (Fq u) (Fq g.2) (hp rest) := by
  apply stopF_of_Q u g.2 rest (ne_of_gt hxd.1) ?_ hs
  intro h r e
  subst e
  exact ne_of_gt hxd.2.1

theorem stopB_hp (u : Q) (g : Nat × Q) (rest : List (Nat × Q))
    (hxd : XDec (u :: (g :: rest).map Prod.snd))
    (hs : ∀ h r, rest = h :: r → ¬ (-1 : Rat) * orient u g.2 h.2 < 0) :
    StopB (Fq u) (Fq g.2) (hp rest) := by
  apply stopB_of_Q u g.2 rest (ne_of_gt hxd.1) ?_ hs
  intro h r e
  subst e
  exact ne_of_gt hxd.2.1

theorem trisF_hp (u : Q) (mid : List (Nat × Q)) (g : Nat × Q)
    (h : FanQ 1 u ((mid ++ [g]).map Prod.snd)) :
    areaSum (trisF (Fq u) ((hp mid).map Prod.snd ++ [Fq g.2])) = - orientSum u ((mid ++ [g]).map Prod.snd) ∧
      (trisF (Fq u) ((hp mid).map Prod.snd ++ [Fq g.2])).length = mid.length := by
  rw [hp_pts]
  obtain ⟨h1, h2⟩ := trisF_acct u _ h
  refine ⟨h1, ?_⟩
  simp only [List.map_append, List.length_append, List.length_map, List.length_cons,
    List.length_nil] at h2 ⊢
  omega

theorem trisB_hp (u : Q) (mid : List (Nat × Q)) (g : Nat × Q)
    (h : FanQ (-1) u ((mid ++ [g]).map Prod.snd)) :
    areaSum (trisB (Fq u) ((hp mid).map Prod.snd ++ [Fq g.2])) = orientSum u ((mid ++ [g]).map Prod.snd) ∧
      (trisB (Fq u) ((hp mid).map Prod.snd ++ [Fq g.2])).length = mid.length := by
  rw [hp_pts]
  obtain ⟨h1, h2⟩ := trisB_acct u _ h
  refine ⟨h1, ?_⟩
  simp only [List.map_append, List.length_append, List.length_map, List.length_cons,
    List.length_nil] at h2 ⊢
  omega

theorem trisF_pos (u : Q) (mid : List (Nat × Q)) (g : Nat × Q)
    (h : FanQ 1 u ((mid ++ [g]).map Prod.snd)) :
    ∀ tr ∈ trisF (Fq u) ((hp mid).map Prod.snd ++ [Fq g.2]), 0 < triArea tr := by
  rw [hp_pts]; exact trisF_pos_q u _ h

theorem trisB_pos (u : Q) (mid : List (Nat × Q)) (g : Nat × Q)
    (h : FanQ (-1) u ((mid ++ [g]).map Prod.snd)) :
    ∀ tr ∈ trisB (Fq u) ((hp mid).map Prod.snd ++ [Fq g.2]), 0 < triArea tr := by
  rw [hp_pts]; exact trisB_pos_q u _ h

/-! ### two edges ending in the same vertex -/

theorem end_orient_alg (A B W : Q) (x0 : Rat) (ha : A.1 < W.1) (hb : B.1 < W.1) (hx : x0 < W.1)
    (h : lineY A W x0 < lineY B W x0) : 0 < orient A W B := by
  have hda : 0 < W.1 - A.1 := sub_pos.mpr ha
  have hdb : 0 < W.1 - B.1 := sub_pos.mpr hb
  have hdx : 0 < W.1 - x0 := sub_pos.mpr hx
  have key : orient A W B * (W.1 - x0) = (W.1 - A.1) * (W.1 - B.1) * (lineY B W x0 - lineY A W x0) := by
    rw [lineY_eq A W ha, lineY_eq B W hb]
    unfold orient
    field_simp
    ring
  have hpos : 0 < (W.1 - A.1) * (W.1 - B.1) * (lineY B W x0 - lineY A W x0) :=
    mul_pos (mul_pos hda hdb) (sub_pos.mpr h)
  rw [← key] at hpos
  by_contra hc
  have := mul_nonpos_of_nonpos_of_nonneg (not_lt.mp hc) hdx.le
  linarith

/-- the left end of the upper one of two edges with a common right end lies to the left of the
    lower edge -/
theorem end_orient {xs : Rat} {a b : AE} {w : Nat} (ha : Span R xs a) (hb : Span R xs b)
    (har : a.rv = w) (hbr : b.rv = w) (hab : Below R xs a b) (hne : a.lv ≠ b.lv) :
    0 < orient (R.pt a.lv) (R.pt w) (R.pt b.lv) := by
  rcases hab with h | ⟨h, -⟩
  · rw [har, hbr] at h
    have hal := ha.lt
    have hbl := hb.lt
    rw [har] at hal
    rw [hbr] at hbl
    have hx := ha.gt
    rw [har] at hx
    exact end_orient_alg _ _ _ xs hal hbl hx h
  · exact absurd h hne

end Cav.GenOutAux
