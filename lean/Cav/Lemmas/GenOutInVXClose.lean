/-
  Tiling WITHOUT the hypothesis of distinct abscissae: copy of `GenOutVXClose.xendV_close` with the generic
  identity `GenFV` in addition (the clause is the one of `GenOutInXClose.lean`, for the sheared ring).
-/
import Cav.Lemmas.GenOutXClose
import Cav.Lemmas.GenOutVXBendHi
import Cav.Lemmas.GenOutInVDefs
import Cav.Lemmas.GenOutVXClose

set_option linter.unusedVariables false
set_option linter.unusedSimpArgs false

namespace Cav.GenOutInV
open Cav Num Cav.Geo Cav.Sweep Cav.TriRun Cav.QuadRun Cav.QuadGeom Cav.SweepOut Cav.CvxEvents Cav.CvxLoop
open Cav.CvxHeap Cav.GenNodes Cav.GenInv Cav.GenQueue Cav.MonoGeom Cav.MonoHeap Cav.MonoFan Cav.GenOutShape
open Cav.GenOutDefs Cav.GenLinks Cav.GenOrder Cav.GenOutInv Cav.GenOutCount Cav.GenOutAux
open Cav.GenOutStepAux Cav.GenOutFan Cav.GenOutXBend Cav.GenOutXEnd Cav.GenStepBend Cav.MonoInv
open Cav.GenVShear Cav.GenVBridge Cav.GenVInv Cav.GenOutV
open Cav.GenOutVX Cav.GenOutIn
open Cav.GenGeom hiding Q

variable {R : RingQ} {ε : Rat} {Vε : Array (Vtx XQ)}

/-- **the closing End**, equal abscissae allowed -/
theorem xendV_closeT (hSh : ShOK R ε Vε) {s : St XQ} {xs X : Rat} {pre post : List IV} {iv : IV}
    {G : Nat → CH} (hT : XInvTV R ε s xs X (pre ++ iv :: post) G)
    {w : Nat} {es : List Nat} {rest : List (Nat × List Nat)} (hev : s.events = (w, es) :: rest)
    (hx0 : (shearRing ε R).x (R.prv w) < (shearRing ε R).x w)
    (hx1 : (shearRing ε R).x (R.nxt w) < (shearRing ε R).x w) (hE : EndCloseV R ε s pre iv post w) :
    ∃ s' G', (handleNext : SM XQ Unit).run s = .ok ((), s') ∧
      XInvTV R ε s' ((shearRing ε R).x w) (R.x w) (pre ++ post) G' := by
  have hX := hT.base
  obtain ⟨hrlo, hrhi, c, h, smid, N2, out2, s', hc, hh, hsn, hso, hbt, hrun, hs'n, hs'o, hs'c, hI'⟩ := hE
  rw [← FqU_pt ε R w] at hsn
  have hI := hX.inv
  have hR := hSh.ring
  have hq := hI.q
  rw [hev] at hq
  have hwq := hq.gt (w, es) List.mem_cons_self
  have hwn : w < (shearRing ε R).n := hwq.1
  have hxs : xs < (shearRing ε R).x w := hwq.2
  have hgap := no_gap hR hq hI.cross
  have hmem : iv ∈ pre ++ iv :: post := by simp
  have hok := hX.ok iv hmem
  obtain ⟨ch, hch, hhd, htl, hrm⟩ := hok.cell
  rw [hc] at hch
  cases hch
  obtain ⟨hc1, hc2, hc3⟩ := Linked.mid hI.lk
  obtain ⟨hhdpt, htlpt⟩ := hok.ends hc3
  have hsh := hok.shape
  have hflags := hX.flags iv hmem
  have hflat : flatE (pre ++ iv :: post) = flatE pre ++ iv.lo :: iv.hi :: flatE post := by simp
  have hlo_mem : iv.lo ∈ flatE (pre ++ iv :: post) := by simp
  have hhi_mem : iv.hi ∈ flatE (pre ++ iv :: post) := by simp
  have hsp_lo := hI.span iv.lo hlo_mem
  have hsp_hi := hI.span iv.hi hhi_mem
  -- the two edges
  have hbelow : Below (shearRing ε R) xs iv.lo iv.hi := by
    have := hI.sorted
    rw [hflat, List.pairwise_append] at this
    exact (List.pairwise_cons.mp this.2.1).1 iv.hi List.mem_cons_self
  have hnd : (flatE pre ++ iv.lo :: iv.hi :: flatE post).Nodup := by
    rw [← hflat]; exact nodup_of_pairwise_below hI.sorted
  have hlohi : iv.lo ≠ iv.hi := (nodup_mid hnd).1
  have hlvne : iv.lo.lv ≠ iv.hi.lv := by
    intro e
    exact hlohi (hq.uniq iv.lo hlo_mem iv.hi hhi_mem e (hrlo.trans hrhi.symm))
  have hnb := end_nbrs hR hsp_lo hsp_hi hrlo hrhi hlvne
  have hor := end_orient hsp_lo hsp_hi hrlo hrhi hbelow hlvne
  have hxB : (shearRing ε R).x iv.lo.lv < (shearRing ε R).x w := lt_of_le_of_lt hsp_lo.le hxs
  have hxT : (shearRing ε R).x iv.hi.lv < (shearRing ε R).x w := lt_of_le_of_lt hsp_hi.le hxs
  have hloB : isLo (shearRing ε R) iv.lo.lv w := by have := hflags.1; rwa [hrlo] at this
  have hloT : ¬ isLo (shearRing ε R) iv.hi.lv w := by have := hflags.2; rwa [hrhi] at this
  -- the fan
  have he0 : ((G iv.ci).up.map Prod.snd).getLast? = some ((shearRing ε R).pt iv.hi.lv) := by
    rw [List.getLast?_map, (G iv.ci).up_last, Option.map_some, htlpt]
  have he1 : ((G iv.ci).dn.map Prod.snd).getLast? = some ((shearRing ε R).pt iv.lo.lv) := by
    rw [List.getLast?_map, (G iv.ci).dn_last, Option.map_some, hhdpt]
  have hside : ∀ q ∈ ((G iv.ci).up.map Prod.snd).dropLast,
      0 < (-1 : Rat) * orient ((shearRing ε R).pt iv.hi.lv) ((shearRing ε R).pt w) q := by
    intro q hq
    have := hsh.belowHi q hq
    rw [hrhi] at this
    linarith
  have hside1 : ∀ q ∈ ((G iv.ci).dn.map Prod.snd).dropLast,
      0 < -(-1 : Rat) * orient ((shearRing ε R).pt iv.lo.lv) ((shearRing ε R).pt w) q := by
    intro q hq
    have := hsh.aboveLo q hq
    rw [hrlo] at this
    linarith
  have hnn : NoTurn (-(-1 : Rat)) ((G iv.ci).up.map Prod.snd) := by
    rw [neg_neg]; exact hsh.ntY
  have hfull := fan_full (-1) ((shearRing ε R).pt w) (G iv.ci).Y (G iv.ci).m (G iv.ci).X ((shearRing ε R).pt iv.hi.lv) ((shearRing ε R).pt iv.lo.lv)
    hsh.xdY hsh.xdX hnn hsh.ntX (lt_of_le_of_lt hsh.mx hxs) he0 hside he1 hside1
  rw [← CH.l_rev] at hfull
  -- the chain as a list, read from the tail
  obtain ⟨hl0, hhl0⟩ := cons_hd (G iv.ci)
  have hlr : (G iv.ci).l.reverse = hl0.reverse ++ [(G iv.ci).hd] := by
    rw [hhl0, List.reverse_cons]
  have hfan : FanQ (-1) ((shearRing ε R).pt w) ((hl0.reverse ++ [(G iv.ci).hd]).map Prod.snd) := by
    rw [← hlr]; exact hfull
  obtain ⟨tl0, htl0⟩ := rev_cons_tl (G iv.ci)
  have hseg0 : SegR s.nodes none (((G iv.ci).tl.1, FqU ε (G iv.ci).tl.2) :: hpU ε tl0) none := by
    have := segR_of_okU hok.seg
    rw [htl0] at this; exact this
  have hhnode : h = ⟨FqU ε (G iv.ci).tl.2, nxtOf (hpU ε tl0) none, none⟩ := by
    have := hseg0.1
    rw [← htl, hh] at this
    exact Option.some.inj this
  have hndl : ((((G iv.ci).tl.1, FqU ε (G iv.ci).tl.2) :: hpU ε tl0).map Prod.fst).Nodup := by
    have : ((hpU ε ((G iv.ci).tl :: tl0)).map Prod.fst).Nodup := by
      rw [hpU_fst, ← htl0, List.map_reverse]
      exact List.nodup_reverse.mpr (nd_self hX.nd)
    exact this
  have hsplit : ((G iv.ci).tl.1, FqU ε (G iv.ci).tl.2) :: hpU ε tl0 =
      hpU ε hl0.reverse ++ ((G iv.ci).hd.1, FqU ε (G iv.ci).hd.2) :: [] := by
    rw [← hpU_cons, ← htl0, hlr, hpU_append]; rfl
  obtain ⟨N', hrun', hseg', hsz', hfr'⟩ := fan_tail_fr (N := s.nodes) (FqU ε ((shearRing ε R).pt w)) smid
    ⟨s.nodes.size, c.head, s.nodes.size⟩ (by rw [hsn, htl, hhnode]) rfl hseg0 hndl hsplit
    (fanB_hpU _ _ _ hfan) trivial
  obtain ⟨eN, eo⟩ := run_inj hbt hrun'
  obtain ⟨ta, tlen⟩ := trisB_hpU _ _ _ hfan
  refine ⟨s', G, hrun, ?_⟩
  have hjm : ∀ j ∈ pre ++ post, j ∈ pre ++ iv :: post := by
    intro j hj
    rcases List.mem_append.mp hj with h | h
    · exact List.mem_append_left _ h
    · exact List.mem_append_right _ (List.mem_cons_of_mem _ h)
  refine ⟨⟨hI', ?_, ?_, ?_, ?_, ?_, ?_, ?_, ?_⟩, ?_⟩
  · -- chains
    intro j hj
    refine other_okV hX (le_of_lt hxs) (hjm j hj) rfl (hs'c j hj) ?_
    intro x hx
    rw [hs'n, eN]
    apply hfr' x.1 (SegU.idx_lt (hX.ok j (hjm j hj)).seg x hx)
    intro y hy
    have hy' : y ∈ hpU ε (G iv.ci).l.reverse := by rw [htl0]; exact hy
    obtain ⟨y0, hy0, rfl⟩ := List.mem_map.mp hy'
    exact fun e => nd_disj hX.nd j hj x hx y0 (List.mem_reverse.mp hy0) e.symm
  · -- node indices
    have hnd' := hX.nd
    rw [idxs_append, idxs_cons] at hnd'
    rw [idxs_append]
    exact hnd'.sublist (List.Sublist.append (List.Sublist.refl _) (List.sublist_append_right _ _))
  · -- flags
    intro j hj
    exact hX.flags j (hjm j hj)
  · -- count
    have hcnt := hX.count
    rw [cnt_step hR hwn hxs hgap, vWeight_end hnb hxB hxT hor, if_pos hloB]
    rw [hs'o, eo, hso, List.length_append, tlen]
    have hlen : (G iv.ci).l.length = hl0.reverse.length + 1 := by
      have := congrArg List.length hlr
      rw [List.length_reverse, List.length_append] at this
      exact this
    rw [lenSum_append, lenSum_cons, hlen] at hcnt
    rw [lenSum_append]
    simp only [List.length_append, List.length_cons] at hcnt ⊢
    omega
  · -- area
    have harea := hX.area
    rw [wDone_end hR hwn hxs hgap hnb hx0 hx1]
    rw [hs'o, eo, hso, areaSum_append, ta, harea, pathTot_append, pathTot_cons, pathTot_append]
    have e1 : (hl0.reverse ++ [(G iv.ci).hd]).map Prod.snd = (G iv.ci).tl.2 :: tl0.map Prod.snd := by
      rw [← hlr, htl0, List.map_cons]
    have e2 : ((G iv.ci).l.map Prod.snd).reverse = (G iv.ci).tl.2 :: tl0.map Prod.snd := by
      rw [← List.map_reverse, htl0, List.map_cons]
    have e3 : ((G iv.ci).tl.2 :: tl0.map Prod.snd).getLast? = some (G iv.ci).hd.2 := by
      rw [← e1]; simp
    have hfa := full_fan_area ((shearRing ε R).pt w) (G iv.ci).tl.2 (G iv.ci).hd.2 (tl0.map Prod.snd)
      ((G iv.ci).l.map Prod.snd) e2 e3
    rw [e1, htlpt]
    rw [hhdpt, htlpt] at hfa
    unfold eSigned
    rw [if_pos hloB, if_neg hloT]
    linarith
  · -- coherence
    exact coh_step hR hwn hxs hgap hX.coh (coh_end hnb hx0 hx1 hloB hloT)
  · -- the rightmost processed vertex
    intro _ v hv hle hmax
    have hwv : (shearRing ε R).x w ≤ (shearRing ε R).x v := hmax w hwn (le_refl _)
    have hvw : v = w := hR.distinct v w hv hwn (le_antisymm hle hwv)
    rw [hvw, vWeight_end hnb hxB hxT hor, if_pos hloB]
  · -- positive areas
    intro tr htr
    rw [hs'o, eo, hso] at htr
    rcases List.mem_append.mp htr with h | h
    · exact trisB_posU _ _ _ hfan tr h
    · exact hX.posA tr h
  · -- the generic identity
    obtain ⟨Tg, hTg, hneg, hid⟩ := hT.gen
    refine ⟨trisBq ((shearRing ε R).pt w) ((hl0.reverse ++ [(G iv.ci).hd]).map Prod.snd) ++ Tg, ?_, ?_, ?_⟩
    · rw [hs'o, eo, hso, hTg, List.map_append, trisB_hpU_map]
    · intro t ht
      rcases List.mem_append.mp ht with h | h
      · exact trisBq_neg _ _ hfan t h
      · exact hneg t h
    · intro ω hω
      rw [muSum_append, muSum_trisBq hω, hid ω hω, wDoneW_end hR ω hwn hxs hgap hnb hx0 hx1,
        pathTotW_append, pathTotW_cons, pathTotW_append]
      have e1 : (hl0.reverse ++ [(G iv.ci).hd]).map Prod.snd = (G iv.ci).tl.2 :: tl0.map Prod.snd := by
        rw [← hlr, htl0, List.map_cons]
      have e2 : ((G iv.ci).l.map Prod.snd).reverse = (G iv.ci).tl.2 :: tl0.map Prod.snd := by
        rw [← List.map_reverse, htl0, List.map_cons]
      have e3 : ((G iv.ci).tl.2 :: tl0.map Prod.snd).getLast? = some (G iv.ci).hd.2 := by
        rw [← e1]; simp
      have hfa := full_fanW hω ((shearRing ε R).pt w) (G iv.ci).tl.2 (G iv.ci).hd.2 (tl0.map Prod.snd)
        ((G iv.ci).l.map Prod.snd) e2 e3
      rw [e1, htlpt]
      rw [hhdpt, htlpt] at hfa
      unfold eSignedW
      rw [if_pos hloB, if_neg hloT]
      linarith

end Cav.GenOutInV
