/-
  General sweep invariant, part 23: the improper Start event (the new vertex lies inside an
  in-interval, which is split in two) keeps the invariant.
-/
import Cav.Lemmas.GenStepStart3

set_option linter.unusedSimpArgs false
set_option linter.unusedVariables false
set_option linter.unusedSectionVars false

namespace Cav.GenStepStart
open Cav Num Cav.Geo Cav.Sweep Cav.TriRun Cav.QuadRun Cav.QuadGeom Cav.CvxFlows Cav.SweepOut
open Cav.GenNodes Cav.GenQuery Cav.GenGeom Cav.GenBend Cav.GenInv Cav.GenQueue Cav.GenOrder
open Cav.GenLinks Cav.GenStepBend Cav.GenStepEnd Cav.GenStart Cav.TriEvents

section arrays
variable {α : Type} [Num α] (E : Array (Edge α)) (pB pT : Pt α) (C bb tt : Nat) (cbb ctt : Edge α)
variable (hb : bb < E.size) (ht : tt < E.size) (hbt : bb ≠ tt)

theorem splitE_size : (splitE E pB pT C bb tt cbb ctt).size = E.size + 2 := by
  simp [splitE, linkEe_size]

include hb ht hbt in
theorem splitE_bb : (splitE E pB pT C bb tt cbb ctt)[bb]? =
    some { cbb with tPart := some E.size, chain := C + 1 } := by
  unfold splitE
  rw [Array.getElem?_setIfInBounds_ne (by omega), Array.getElem?_setIfInBounds_ne (Ne.symm hbt),
    Array.getElem?_setIfInBounds_ne (by omega),
    Array.getElem?_setIfInBounds_self_of_lt (by rw [linkEe_size]; omega)]

include hb ht in
theorem splitE_D : (splitE E pB pT C bb tt cbb ctt)[E.size]? =
    some ⟨pB, C + 1, !cbb.bofIn, some bb, some (E.size + 1)⟩ := by
  unfold splitE
  rw [Array.getElem?_setIfInBounds_ne (by omega), Array.getElem?_setIfInBounds_ne (by omega),
    Array.getElem?_setIfInBounds_self_of_lt (by rw [Array.size_setIfInBounds, linkEe_size]; omega)]

include ht in
theorem splitE_tt : (splitE E pB pT C bb tt cbb ctt)[tt]? =
    some { ctt with bPart := some (E.size + 1), chain := C + 1 + 1 } := by
  unfold splitE
  rw [Array.getElem?_setIfInBounds_ne (by omega),
    Array.getElem?_setIfInBounds_self_of_lt
      (by rw [Array.size_setIfInBounds, Array.size_setIfInBounds, linkEe_size]; omega)]

theorem splitE_D1 : (splitE E pB pT C bb tt cbb ctt)[E.size + 1]? =
    some ⟨pT, C + 1 + 1, !ctt.bofIn, some E.size, some tt⟩ := by
  unfold splitE
  rw [Array.getElem?_setIfInBounds_self_of_lt
      (by rw [Array.size_setIfInBounds, Array.size_setIfInBounds, Array.size_setIfInBounds, linkEe_size]; omega)]

theorem splitE_old {k : Nat} (hk : k < E.size) (h1 : k ≠ bb) (h2 : k ≠ tt) :
    (splitE E pB pT C bb tt cbb ctt)[k]? = E[k]? := by
  unfold splitE
  rw [Array.getElem?_setIfInBounds_ne (by omega), Array.getElem?_setIfInBounds_ne (Ne.symm h2),
    Array.getElem?_setIfInBounds_ne (by omega), Array.getElem?_setIfInBounds_ne (Ne.symm h1)]
  exact linkEe_old E pB pT C bb tt cbb ctt hk h1 h2

end arrays

theorem push_get_lt {β : Type} (A : Array β) (a : β) {i : Nat} (h : i < A.size) :
    (A.push a)[i]? = A[i]? := by
  rw [Array.getElem?_push, if_neg (by omega)]

theorem push3_get1 {β : Type} (A : Array β) (a b c : β) :
    (((A.push a).push b).push c)[A.size + 1]? = some b := by
  rw [push_get_lt _ _ (by simp)]
  have : A.size + 1 = (A.push a).size := by simp
  rw [this, Array.getElem?_push_size]

theorem push3_get2 {β : Type} (A : Array β) (a b c : β) :
    (((A.push a).push b).push c)[A.size + 1 + 1]? = some c := by
  have : A.size + 1 + 1 = ((A.push a).push b).size := by simp
  rw [this, Array.getElem?_push_size]

theorem pairwise_at {β : Type} {r : β → β → Prop} {A B : List β} {x : β}
    (h : (A ++ x :: B).Pairwise r) : (∀ a ∈ A, r a x) ∧ (∀ b ∈ B, r x b) := by
  rw [List.pairwise_append, List.pairwise_cons] at h
  exact ⟨fun a ha => h.2.2 a ha x List.mem_cons_self, h.2.1.1⟩


variable {R : RingQ}

/-- the invariant after an improper Start, from the description of the new heap -/
theorem split_inv {s s' : St XQ} {xs : Rat} {pre post : List IV} {iv : IV}
    (hI : Inv R s xs (pre ++ iv :: post))
    {w : Nat} {es : List Nat} {rest : List (Nat × List Nat)} (hev : s.events = (w, es) :: rest)
    {wB wT : Nat} (hBn : wB < R.n) (hTn : wT < R.n) {c : Chain} {N4 : Array (Node XQ)}
    (hc : s.chains[iv.ci]? = some c)
    (hh : ptAt s.nodes c.head = some (Fq (R.pt iv.lo.lv)))
    (ht : ptAt s.nodes c.tail = some (Fq (R.pt iv.hi.lv)))
    (hN4 : NodesOk N4) (hsz4 : N4.size = s.nodes.size + 4)
    (hpt4 : ∀ i, i < s.nodes.size → ptAt N4 i = ptAt s.nodes i)
    (hp1 : ptAt N4 (s.nodes.size + 1) = some (Fq (R.pt w)))
    (hp2 : ptAt N4 (s.nodes.size + 2) = ptAt s.nodes c.rm)
    (hp3 : ptAt N4 (s.nodes.size + 3) = some (Fq (R.pt w)))
    (hv' : s'.verts = s.verts) (hm' : s'.mono = s.mono) (hx' : s'.x = .fin (R.x w))
    (hact' : s'.active = (flatE pre ++ [iv.lo]).map (·.id) ++ s.edges.size :: (s.edges.size + 1) ::
      (iv.hi :: flatE post).map (·.id))
    (hE' : s'.edges = splitE s.edges (Fq (R.pt wB)) (Fq (R.pt wT)) s.chains.size iv.lo.id iv.hi.id
      ⟨Fq (R.pt iv.lo.rv), iv.ci, true, lastHi pre none, some iv.hi.id⟩
      ⟨Fq (R.pt iv.hi.rv), iv.ci, false, some iv.lo.id, nxtLo post none⟩)
    (hC' : s'.chains = ((s.chains.push ⟨s.nodes.size, s.nodes.size, s.nodes.size⟩).push
        ⟨s.nodes.size + 1, c.head, s.nodes.size + 1⟩).push
        ⟨s.nodes.size + 1 + 2, s.nodes.size + 1 + 2,
          if c.tail = c.rm then s.nodes.size + 1 + 1 else c.tail⟩)
    (hNd' : s'.nodes = N4)
    (hEv' : s'.events = evAdd s.verts (Fq (R.pt wT)) wT (s.edges.size + 1)
      (evAdd s.verts (Fq (R.pt wB)) wB s.edges.size rest))
    (g5 : ∀ a ∈ (flatE pre ++ [iv.lo]) ++ (⟨s.edges.size, w, wB⟩ : AE) :: (⟨s.edges.size + 1, w, wT⟩ : AE) ::
      (iv.hi :: flatE post), Span R (R.x w) a)
    (g6 : ((flatE pre ++ [iv.lo]) ++ (⟨s.edges.size, w, wB⟩ : AE) :: (⟨s.edges.size + 1, w, wT⟩ : AE) ::
      (iv.hi :: flatE post)).Pairwise (Below R (R.x w)))
    (g7 : QCore R (R.x w)
      ((flatE pre ++ [iv.lo]) ++ (⟨s.edges.size, w, wB⟩ : AE) :: (⟨s.edges.size + 1, w, wT⟩ : AE) ::
        (iv.hi :: flatE post))
      (qAdd R wT (s.edges.size + 1) (qAdd R wB s.edges.size rest)))
    (g8 : Cross R (R.x w)
      ((flatE pre ++ [iv.lo]) ++ (⟨s.edges.size, w, wB⟩ : AE) :: (⟨s.edges.size + 1, w, wT⟩ : AE) ::
        (iv.hi :: flatE post))) :
    Inv R s' (R.x w) (pre ++ ([⟨iv.lo, ⟨s.edges.size, w, wB⟩, s.chains.size + 1⟩,
      ⟨⟨s.edges.size + 1, w, wT⟩, iv.hi, s.chains.size + 1 + 1⟩] ++ post)) := by
  have hR := hI.ring
  have hq := hI.q
  have hflat : flatE (pre ++ iv :: post) = (flatE pre ++ [iv.lo]) ++ iv.hi :: flatE post := by simp
  rw [hev, hflat] at hq
  have hid := hq.idinj
  have hlom : iv.lo ∈ (flatE pre ++ [iv.lo]) ++ iv.hi :: flatE post := by simp
  have hhim : iv.hi ∈ (flatE pre ++ [iv.lo]) ++ iv.hi :: flatE post := by simp
  have hnd : ((flatE pre ++ [iv.lo]) ++ iv.hi :: flatE post).Nodup := by
    have := nodup_of_pairwise_below hI.sorted
    rw [hflat] at this; exact this
  have hnd' : (flatE pre ++ iv.lo :: iv.hi :: flatE post).Nodup := by simpa using hnd
  obtain ⟨hlohi, hothers⟩ := nodup_mid hnd'
  have hidlt : ∀ a ∈ (flatE pre ++ [iv.lo]) ++ iv.hi :: flatE post, a.id < s.edges.size := by
    intro a ha
    rw [← hflat] at ha
    obtain ⟨e, he, -⟩ := Linked.eg hI.lk a ha
    exact lt_of_get' he
  have hidne : iv.lo.id ≠ iv.hi.id := fun e => hlohi (hid _ hlom _ hhim e)
  have hflat' : flatE (pre ++ ([(⟨iv.lo, ⟨s.edges.size, w, wB⟩, s.chains.size + 1⟩ : IV),
      ⟨⟨s.edges.size + 1, w, wT⟩, iv.hi, s.chains.size + 1 + 1⟩] ++ post)) =
      (flatE pre ++ [iv.lo]) ++ (⟨s.edges.size, w, wB⟩ : AE) :: (⟨s.edges.size + 1, w, wT⟩ : AE) ::
        (iv.hi :: flatE post) := by simp
  have hcilt : ∀ j ∈ pre ++ iv :: post, j.ci < s.chains.size := by
    intro j hj
    obtain ⟨_, _, -, -, c', hc', -⟩ := Linked.mem hI.lk j hj
    exact lt_of_get' hc'
  have hbblt := hidlt _ hlom
  have httlt := hidlt _ hhim
  refine ⟨by rw [hv']; exact hR, by rw [hm']; exact hI.mono, fun _ => hx', ?_, ?_, ?_,
    by rw [hNd']; exact hN4, ?_, ?_, ?_, ?_⟩
  · rw [hact', hflat']; simp
  · have := hI.cind
    rw [List.map_append, List.map_cons] at this
    have hfresh : ∀ k, s.chains.size ≤ k → k ∉ pre.map (·.ci) ++ post.map (·.ci) := by
      intro k hk hm
      rw [← List.map_append] at hm
      obtain ⟨j, hj, e⟩ := List.mem_map.mp hm
      have := hcilt j (by
        rcases List.mem_append.mp hj with h | h
        · exact List.mem_append_left _ h
        · exact List.mem_append_right _ (List.mem_cons_of_mem _ h))
      omega
    simp only [List.map_append, List.map_cons, List.map_nil, List.cons_append, List.nil_append]
    rw [List.nodup_append] at this ⊢
    obtain ⟨n1, n2, n3⟩ := this
    have n2' := (List.nodup_cons.mp n2).2
    refine ⟨n1, ?_, ?_⟩
    · refine List.nodup_cons.mpr ⟨?_, List.nodup_cons.mpr ⟨?_, n2'⟩⟩
      · intro h
        rcases List.mem_cons.mp h with h | h
        · omega
        · exact hfresh _ (by omega) (List.mem_append_right _ h)
      · intro h
        exact hfresh _ (by omega) (List.mem_append_right _ h)
    · intro a ha b hb
      rcases List.mem_cons.mp hb with rfl | hb
      · rintro rfl
        exact hfresh _ (by omega) (List.mem_append_left _ ha)
      · rcases List.mem_cons.mp hb with rfl | hb
        · rintro rfl
          exact hfresh _ (by omega) (List.mem_append_left _ ha)
        · exact n3 a ha b (List.mem_cons_of_mem _ hb)
  · refine Linked.splice (mid := [iv]) (by simpa using hI.lk) rfl rfl ?_
      (by rw [hNd']; omega) (by rw [hNd']; exact hpt4) ?_
    · intro j hj
      have hj' : j ∈ pre ++ iv :: post := by
        rcases List.mem_append.mp hj with h | h
        · exact List.mem_append_left _ h
        · exact List.mem_append_right _ (List.mem_cons_of_mem _ h)
      have hjm : j.lo ∈ flatE pre ++ flatE post ∧ j.hi ∈ flatE pre ++ flatE post := by
        have := mem_flatE_of hj
        rw [flatE_append] at this; exact this
      have hm1 : j.lo ∈ (flatE pre ++ [iv.lo]) ++ iv.hi :: flatE post := by
        rcases List.mem_append.mp hjm.1 with h | h
        · simp [h]
        · simp [h]
      have hm2 : j.hi ∈ (flatE pre ++ [iv.lo]) ++ iv.hi :: flatE post := by
        rcases List.mem_append.mp hjm.2 with h | h
        · simp [h]
        · simp [h]
      have n1 := hothers _ hjm.1
      have n2 := hothers _ hjm.2
      rw [hE', hC']
      refine ⟨?_, ?_, ?_⟩
      · exact splitE_old _ _ _ _ _ _ _ _ (hidlt _ hm1) (fun e => n1.1 (hid _ hm1 _ hlom e))
          (fun e => n1.2 (hid _ hm1 _ hhim e))
      · exact splitE_old _ _ _ _ _ _ _ _ (hidlt _ hm2) (fun e => n2.1 (hid _ hm2 _ hlom e))
          (fun e => n2.2 (hid _ hm2 _ hhim e))
      · have := hcilt j hj'
        rw [push_get_lt _ _ (by simp; omega), push_get_lt _ _ (by simp; omega), push_get_lt _ _ this]
    · -- the two new in-intervals
      refine ⟨?_, ?_, ?_, ?_, ?_, ?_, trivial⟩
      · unfold ECell
        rw [hE', splitE_bb _ _ _ _ _ _ _ _ hbblt httlt hidne]
      · unfold ECell
        rw [hE', splitE_D _ _ _ _ _ _ _ _ hbblt httlt]
        rfl
      · refine ⟨⟨s.nodes.size + 1, c.head, s.nodes.size + 1⟩, ?_, ?_, ?_, ?_⟩
        · rw [hC']
          exact push3_get1 _ _ _ _
        · rw [hNd']; show s.nodes.size + 1 < N4.size; omega
        · rw [hNd']; show ptAt N4 c.head = _
          rw [hpt4 _ (ptAt_some_lt hh)]; exact hh
        · rw [hNd']; exact hp1
      · unfold ECell
        rw [hE', splitE_D1]
        rfl
      · unfold ECell
        rw [hE', splitE_tt _ _ _ _ _ _ _ _ httlt]
        rfl
      · refine ⟨⟨s.nodes.size + 1 + 2, s.nodes.size + 1 + 2,
          if c.tail = c.rm then s.nodes.size + 1 + 1 else c.tail⟩, ?_, ?_, ?_, ?_⟩
        · rw [hC']
          exact push3_get2 _ _ _ _
        · rw [hNd']; show s.nodes.size + 1 + 2 < N4.size; omega
        · rw [hNd']; exact hp3
        · rw [hNd']; show ptAt N4 (if c.tail = c.rm then s.nodes.size + 1 + 1 else c.tail) = _
          by_cases e : c.tail = c.rm
          · rw [if_pos e, hp2, ← e]; exact ht
          · rw [if_neg e, hpt4 _ (ptAt_some_lt ht)]; exact ht
  · rw [hflat']; exact g5
  · rw [hflat']; exact g6
  · rw [hflat', hEv', start_events hR hq hBn hTn]
    exact g7
  · rw [hflat']; exact g8


/-- **the improper Start keeps the invariant** -/
theorem step_start_split (hN : NoCross R) {s : St XQ} {xs : Rat} {pre post : List IV} {iv : IV}
    (hI : Inv R s xs (pre ++ iv :: post))
    {w : Nat} {es : List Nat} {rest : List (Nat × List Nat)} (hev : s.events = (w, es) :: rest)
    {wB wT : Nat} (hnb : (R.prv w = wB ∧ R.nxt w = wT) ∨ (R.prv w = wT ∧ R.nxt w = wB))
    (hxB : R.x w < R.x wB) (hxT : R.x w < R.x wT)
    (hPlow : ∀ a ∈ flatE pre ++ [iv.lo], hY R a (R.x w) < (R.pt w).2)
    (hQhigh : ∀ a ∈ iv.hi :: flatE post, (R.pt w).2 < hY R a (R.x w))
    (g3 : ∀ a ∈ (flatE pre ++ [iv.lo]) ++ iv.hi :: flatE post, Span R (R.x w) a)
    (g5 : ∀ a ∈ (flatE pre ++ [iv.lo]) ++ (⟨s.edges.size, w, wB⟩ : AE) :: (⟨s.edges.size + 1, w, wT⟩ : AE) ::
      (iv.hi :: flatE post), Span R (R.x w) a)
    (g6 : ((flatE pre ++ [iv.lo]) ++ (⟨s.edges.size, w, wB⟩ : AE) :: (⟨s.edges.size + 1, w, wT⟩ : AE) ::
      (iv.hi :: flatE post)).Pairwise (Below R (R.x w)))
    (g7 : QCore R (R.x w)
      ((flatE pre ++ [iv.lo]) ++ (⟨s.edges.size, w, wB⟩ : AE) :: (⟨s.edges.size + 1, w, wT⟩ : AE) ::
        (iv.hi :: flatE post))
      (qAdd R wT (s.edges.size + 1) (qAdd R wB s.edges.size rest)))
    (g8 : Cross R (R.x w)
      ((flatE pre ++ [iv.lo]) ++ (⟨s.edges.size, w, wB⟩ : AE) :: (⟨s.edges.size + 1, w, wT⟩ : AE) ::
        (iv.hi :: flatE post))) :
    ∃ s', (handleNext : SM XQ Unit).run s = .ok ((), s') ∧ ∃ ivs', Inv R s' (R.x w) ivs' := by
  have hR := hI.ring
  have hq := hI.q
  have hflat : flatE (pre ++ iv :: post) = (flatE pre ++ [iv.lo]) ++ iv.hi :: flatE post := by simp
  rw [hev, hflat] at hq
  have hwq := hq.gt (w, es) List.mem_cons_self
  have hwn : w < R.n := hwq.1
  obtain ⟨hBn, hTn, hadjB, hadjT, hBT, hnbrs⟩ := start_nbrs hR hwn hnb
  have hid := hq.idinj
  obtain ⟨t1, t2, t3, t4, t5, t6, t7⟩ := start_tests hid g5 g6
  have hG := ids_eg hI.lk hI.q.idinj
  rw [hflat, List.map_append] at hG
  rw [List.map_append] at t5
  have hact : s.active = (flatE pre ++ [iv.lo]).map (·.id) ++ (iv.hi :: flatE post).map (·.id) := by
    rw [hI.act, hflat, List.map_append]
  have hevs : ∀ a ∈ rest, a.1 < s.verts.size := by
    intro a ha
    rw [hR.size]
    exact (hq.gt a (List.mem_cons_of_mem _ ha)).1
  have hlom : iv.lo ∈ (flatE pre ++ [iv.lo]) ++ iv.hi :: flatE post := by simp
  have hhim : iv.hi ∈ (flatE pre ++ [iv.lo]) ++ iv.hi :: flatE post := by simp
  have hyB : hY R (⟨s.edges.size, w, wB⟩ : AE) (R.x w) = (R.pt w).2 := lineY_left _ _
  have hyT : hY R (⟨s.edges.size + 1, w, wT⟩ : AE) (R.x w) = (R.pt w).2 := lineY_left _ _
  have hnd : ((flatE pre ++ [iv.lo]) ++ iv.hi :: flatE post).Nodup := by
    have := nodup_of_pairwise_below hI.sorted
    rw [hflat] at this; exact this
  have hnd' : (flatE pre ++ iv.lo :: iv.hi :: flatE post).Nodup := by simpa using hnd
  obtain ⟨hlohi, hothers⟩ := nodup_mid hnd'
  obtain ⟨hc1, hc2, hc3⟩ := Linked.mid hI.lk
  obtain ⟨c, hc, hrm, hh, ht⟩ := hc3
  have hlow := hPlow iv.lo (by simp)
  have hhigh := hQhigh iv.hi (by simp)
  have hidne : iv.lo.id ≠ iv.hi.id := fun e => hlohi (hid _ hlom _ hhim e)
  -- comparisons of the two bounding edges with the others
  have hpwB : ((flatE pre).map (·.id) ++ iv.lo.id :: (iv.hi :: flatE post).map (·.id)).Pairwise
      (CmpLt (Lf R ((flatE pre ++ [iv.lo]) ++ iv.hi :: flatE post))
        (Rf R ((flatE pre ++ [iv.lo]) ++ iv.hi :: flatE post)) (.fin (R.x w))) := by
    simpa using t5
  have hpwT : ((flatE pre ++ [iv.lo]).map (·.id) ++ iv.hi.id :: (flatE post).map (·.id)).Pairwise
      (CmpLt (Lf R ((flatE pre ++ [iv.lo]) ++ iv.hi :: flatE post))
        (Rf R ((flatE pre ++ [iv.lo]) ++ iv.hi :: flatE post)) (.fin (R.x w))) := by
    simpa using t5
  obtain ⟨b1, b2⟩ := pairwise_at hpwB
  obtain ⟨b3, b4⟩ := pairwise_at hpwT
  have s1 := g3 _ hlom
  have s2 := g3 _ hhim
  have hpc : partialCmpEdgeP (Lf R ((flatE pre ++ [iv.lo]) ++ iv.hi :: flatE post) iv.lo.id)
      (Rf R ((flatE pre ++ [iv.lo]) ++ iv.hi :: flatE post) iv.lo.id)
      (Lf R ((flatE pre ++ [iv.lo]) ++ iv.hi :: flatE post) iv.hi.id)
      (Rf R ((flatE pre ++ [iv.lo]) ++ iv.hi :: flatE post) iv.hi.id) (.fin (R.x w)) = some .lt := by
    rw [Lf_id hid hlom, Rf_id hid hlom, Lf_id hid hhim, Rf_id hid hhim]
    exact partialCmp_lt _ _ _ _ _ s1.lt s2.lt s1.le (le_of_lt s1.gt) s2.le (le_of_lt s2.gt)
      (lt_trans hlow hhigh)
  have hwob : wobP (Fq (R.pt w)) (Fq (R.pt wB))
      (Lf R ((flatE pre ++ [iv.lo]) ++ iv.hi :: flatE post) iv.lo.id)
      (Rf R ((flatE pre ++ [iv.lo]) ++ iv.hi :: flatE post) iv.lo.id) = false := by
    rw [Lf_id hid hlom, Rf_id hid hlom]
    exact wob_of_below hR hN (b := iv.lo) (anew := ⟨s.edges.size, w, wB⟩) (x0 := R.x w)
      s1 (g5 _ (by simp)) rfl (by rw [hyB]; exact hlow) (lv_ne_of_height (ne_of_lt hlow))
  have hwot : wotP (Fq (R.pt w)) (Fq (R.pt wT))
      (Lf R ((flatE pre ++ [iv.lo]) ++ iv.hi :: flatE post) iv.hi.id)
      (Rf R ((flatE pre ++ [iv.lo]) ++ iv.hi :: flatE post) iv.hi.id) = false := by
    rw [Lf_id hid hhim, Rf_id hid hhim]
    exact wot_of_above hR hN (t := iv.hi) (anew := ⟨s.edges.size + 1, w, wT⟩) (x0 := R.x w)
      s2 (g5 _ (by simp)) rfl (by rw [hyT]; exact hhigh) (Ne.symm (lv_ne_of_height (ne_of_gt hhigh)))
  obtain ⟨N4, out4, hrun, hN4, hsz4, hpt4, hp1, hp2, hp3⟩ := start_run_split s w (R.prv w) (R.nxt w) wB wT
    (R.prv wB) (R.nxt wB) (R.prv wT) (R.nxt wT) es rest (Fq (R.pt w)) (Fq (R.pt wB)) (Fq (R.pt wT))
    ((flatE pre ++ [iv.lo]).map (·.id)) ((iv.hi :: flatE post).map (·.id))
    (Lf R ((flatE pre ++ [iv.lo]) ++ iv.hi :: flatE post)) (Rf R ((flatE pre ++ [iv.lo]) ++ iv.hi :: flatE post))
    ((flatE pre).map (·.id)) ((flatE post).map (·.id)) iv.lo.id iv.hi.id
    ⟨Fq (R.pt iv.lo.rv), iv.ci, true, lastHi pre none, some iv.hi.id⟩
    ⟨Fq (R.pt iv.hi.rv), iv.ci, false, some iv.lo.id, nxtLo post none⟩ c
    hev (hR.get w hwn) hnb
    (hR.get wB hBn) (hR.get wT hTn) (ft_start _ _ _ hxB hxT) (ft_start _ _ _ hxT hxB)
    (ofEq_x_false (ne_of_gt hxB)) (ofEq_x_false (ne_of_gt hxT)) t6 t7 hevs hI.mono (by simp) (by simp)
    hact hG t1 t2 t3 t4 hc1 hc2 rfl rfl rfl hidne
    (fun k hk => (b1 k hk).2) (TriGeom.cmpEdgeP_self _ _ _) (fun k hk => (b2 k hk).1)
    (fun k hk => (b3 k hk).2) (TriGeom.cmpEdgeP_self _ _ _) (fun k hk => (b4 k hk).1)
    hpc hwob hwot hI.nok hc hrm
  refine ⟨_, hrun, pre ++ ([⟨iv.lo, ⟨s.edges.size, w, wB⟩, s.chains.size + 1⟩,
    ⟨⟨s.edges.size + 1, w, wT⟩, iv.hi, s.chains.size + 1 + 1⟩] ++ post), ?_⟩
  refine split_inv hI hev hBn hTn hc hh ht hN4 hsz4 hpt4 hp1 hp2 hp3 ?_ ?_ ?_ ?_ ?_ ?_ ?_ ?_ g5 g6 g7 g8
  · rfl
  · rfl
  · rfl
  · rfl
  · (unfold splitRes; with_reducible rfl)
  · rfl
  · rfl
  · rfl

end Cav.GenStepStart
