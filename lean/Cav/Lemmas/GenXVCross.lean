/-
  Failure side with equal abscissae, part 11 (geometry): two ring edges without a common vertex
  that are NOT apart (`SegApartV`) cross properly, when no vertex lies on another edge
  (`NoTouchV`) and the vertices are pairwise different points: `hasCrossing_of_not_apart`.
  The argument is made for the sheared points (pairwise different abscissae, `NA`): if an end
  point of one segment lay on the line of the other, it would lie outside that segment, the other
  segment would lie on one side of it, all four points would be collinear, and one of them would
  lie inside the other segment.
-/
import Cav.Lemmas.GenXVBase
import Cav.Lemmas.GenXMain

set_option linter.unusedSimpArgs false
set_option linter.unusedVariables false

namespace Cav.GenXV
open Cav Num Cav.Geo Cav.QuadGeom Cav.GenGeom Cav.GenInv Cav.GenValid Cav.GenVShear Cav.GenVBridge
open Cav.GenXGeom Cav.GenXMain

/-- `z` lies strictly between `x` and `y` -/
def Btw (x z y : Rat) : Prop := (x < z ∧ z < y) ∨ (y < z ∧ z < x)

/-- two segments with pairwise different abscissae of the end points, without touching, not apart -/
structure NA (A B C D : Q) : Prop where
  xab : A.1 ≠ B.1
  xcd : C.1 ≠ D.1
  xac : A.1 ≠ C.1
  xad : A.1 ≠ D.1
  xbc : B.1 ≠ C.1
  xbd : B.1 ≠ D.1
  t1 : Btw A.1 C.1 B.1 → orient A B C ≠ 0
  t2 : Btw A.1 D.1 B.1 → orient A B D ≠ 0
  t3 : Btw C.1 A.1 D.1 → orient C D A ≠ 0
  t4 : Btw C.1 B.1 D.1 → orient C D B ≠ 0
  o1 : orient A B C * orient A B D ≤ 0
  o2 : orient C D A * orient C D B ≤ 0
  s1 : ¬ (A.1 < C.1 ∧ A.1 < D.1 ∧ B.1 < C.1 ∧ B.1 < D.1)
  s2 : ¬ (C.1 < A.1 ∧ C.1 < B.1 ∧ D.1 < A.1 ∧ D.1 < B.1)

theorem btw_symm {x z y : Rat} (h : Btw x z y) : Btw y z x := by
  rcases h with h | h
  · exact Or.inr h
  · exact Or.inl h

theorem NA.swapR {A B C D : Q} (h : NA A B C D) : NA A B D C := by
  have e1 : orient D C A = - orient C D A := by unfold orient; ring
  have e2 : orient D C B = - orient C D B := by unfold orient; ring
  refine ⟨h.xab, Ne.symm h.xcd, h.xad, h.xac, h.xbd, h.xbc, h.t2, h.t1, ?_, ?_, ?_, ?_, ?_, ?_⟩
  · intro hb; rw [e1]; exact neg_ne_zero.mpr (h.t3 (btw_symm hb))
  · intro hb; rw [e2]; exact neg_ne_zero.mpr (h.t4 (btw_symm hb))
  · have := h.o1; linarith [mul_comm (orient A B C) (orient A B D)]
  · rw [e1, e2]; have := h.o2; linarith [neg_mul_neg (orient C D A) (orient C D B)]
  · intro ⟨a1, a2, a3, a4⟩; exact h.s1 ⟨a2, a1, a4, a3⟩
  · intro ⟨a1, a2, a3, a4⟩; exact h.s2 ⟨a3, a4, a1, a2⟩

theorem NA.symm {A B C D : Q} (h : NA A B C D) : NA C D A B :=
  ⟨h.xcd, h.xab, Ne.symm h.xac, Ne.symm h.xbc, Ne.symm h.xad, Ne.symm h.xbd, h.t3, h.t4, h.t1, h.t2,
    h.o2, h.o1, h.s2, h.s1⟩

theorem overlap_inside {a b c d : Rat} (hab : a ≠ b) (hcd : c ≠ d) (hac : a ≠ c) (had : a ≠ d)
    (hbc : b ≠ c) (hbd : b ≠ d)
    (s1 : ¬ (a < c ∧ a < d ∧ b < c ∧ b < d)) (s2 : ¬ (c < a ∧ c < b ∧ d < a ∧ d < b)) :
    Btw a c b ∨ Btw a d b ∨ Btw c a d ∨ Btw c b d := by
  unfold Btw
  grind

theorem orient_id1 (A B C D : Q) :
    orient C D A * (B.1 - C.1) - orient C D B * (A.1 - C.1) = - orient C A B * (D.1 - C.1) := by
  unfold orient; ring

theorem orient_id2 (A B C D : Q) :
    orient A B C - orient A B D = orient C D B - orient C D A := by
  unfold orient; ring

/-- no end point of one segment lies on the line of the other -/
theorem NA.p_ne {A B C D : Q} (h : NA A B C D) : orient A B C ≠ 0 := by
  intro hp
  -- `C` is outside the abscissa range of `A B`
  have hout : (C.1 < A.1 ∧ C.1 < B.1) ∨ (A.1 < C.1 ∧ B.1 < C.1) := by
    have hnb : ¬ Btw A.1 C.1 B.1 := fun hb => h.t1 hb hp
    unfold Btw at hnb
    have := h.xac; have := h.xbc
    grind
  have hcab : orient C A B = 0 := by
    have : orient C A B = orient A B C := by unfold orient; ring
    rw [this]; exact hp
  have hid := orient_id1 A B C D
  rw [hcab, neg_zero, zero_mul] at hid
  -- `A`, `B` on the same side of `C`: the two determinants have the same sign
  have hsame : 0 < (A.1 - C.1) * (B.1 - C.1) := by
    rcases hout with ⟨h1, h2⟩ | ⟨h1, h2⟩
    · exact mul_pos (by linarith) (by linarith)
    · exact mul_pos_of_neg_of_neg (by linarith) (by linarith)
  have hr : orient C D A = 0 := by
    by_contra hr
    have hsq : 0 < orient C D A * orient C D A := mul_self_pos.mpr hr
    -- r * s * (A.1 - C.1)^2 = r^2 * (A.1 - C.1) * (B.1 - C.1) > 0
    have key : orient C D A * orient C D B * ((A.1 - C.1) * (A.1 - C.1)) =
        orient C D A * orient C D A * ((A.1 - C.1) * (B.1 - C.1)) := by
      have : orient C D B * (A.1 - C.1) = orient C D A * (B.1 - C.1) := by linarith
      calc orient C D A * orient C D B * ((A.1 - C.1) * (A.1 - C.1))
          = orient C D A * (orient C D B * (A.1 - C.1)) * (A.1 - C.1) := by ring
        _ = orient C D A * (orient C D A * (B.1 - C.1)) * (A.1 - C.1) := by rw [this]
        _ = _ := by ring
    have hpos : 0 < orient C D A * orient C D B * ((A.1 - C.1) * (A.1 - C.1)) := by
      rw [key]; exact mul_pos hsq hsame
    have hAC : 0 < (A.1 - C.1) * (A.1 - C.1) := mul_self_pos.mpr (sub_ne_zero.mpr h.xac)
    have : 0 < orient C D A * orient C D B := by
      by_contra hc
      have := mul_nonpos_of_nonpos_of_nonneg (not_lt.mp hc) (le_of_lt hAC)
      linarith
    exact absurd h.o2 (not_le.mpr this)
  have hs : orient C D B = 0 := by
    rw [hr, zero_mul] at hid
    have : orient C D B * (A.1 - C.1) = 0 := by linarith
    rcases mul_eq_zero.mp this with e | e
    · exact e
    · exact absurd (sub_eq_zero.mp e) h.xac
  have hq : orient A B D = 0 := by
    have := orient_id2 A B C D
    rw [hp, hr, hs] at this
    linarith
  rcases overlap_inside h.xab h.xcd h.xac h.xad h.xbc h.xbd h.s1 h.s2 with b | b | b | b
  · exact h.t1 b hp
  · exact h.t2 b hq
  · exact h.t3 b hr
  · exact h.t4 b hs

/-- **segments that are neither apart nor touching cross properly** -/
theorem NA.cross {A B C D : Q} (h : NA A B C D) : QuadCases.Cross A B C D := by
  have p := h.p_ne
  have q := h.swapR.p_ne
  have r := h.symm.p_ne
  have s := h.symm.swapR.p_ne
  constructor
  · exact lt_of_le_of_ne h.o1 (mul_ne_zero p q)
  · exact lt_of_le_of_ne h.o2 (mul_ne_zero r s)

variable {R : RingQ} {ε : Rat} {Vε : Array (Vtx XQ)}

theorem nxt_ne_self {R' : RingQ} {V' : Array (Vtx XQ)} (hR : RingOK R' V') {i : Nat} (hi : i < R'.n) :
    R'.nxt i ≠ i := by
  intro e
  have h1 := hR.prv_nxt i hi
  rw [e] at h1
  exact hR.ne i hi (h1.trans e.symm)

/-- **two ring edges without a common vertex that are not apart: a proper crossing** -/
theorem hasCrossing_of_not_apart (h : ShX R ε Vε) (hA : ¬ EdgesApartV R) : HasCrossing R := by
  unfold EdgesApartV at hA
  push Not at hA
  obtain ⟨i, hi, j, hj, n1, n2, n3, hna⟩ := hA
  have hR := h.ring
  have hni : R.nxt i < R.n := hR.nxt_lt i hi
  have hnj : R.nxt j < R.n := hR.nxt_lt j hj
  have n4 : R.nxt i ≠ R.nxt j := by
    intro e
    have := congrArg R.prv e
    have e1 : R.prv (R.nxt i) = i := hR.prv_nxt i hi
    have e2 : R.prv (R.nxt j) = j := hR.prv_nxt j hj
    rw [e1, e2] at this
    exact n1 this
  have dist : ∀ {a b : Nat}, a < R.n → b < R.n → a ≠ b → (shearRing ε R).x a ≠ (shearRing ε R).x b :=
    fun ha hb hab e => hab (hR.distinct _ _ ha hb e)
  unfold SegApartV at hna
  push Not at hna
  obtain ⟨o1, o2, s1, s2⟩ := hna
  have hT := h.noTouch
  have hTr : ∀ {u z : Nat}, u < R.n → z < R.n →
      Btw ((shearRing ε R).x u) ((shearRing ε R).x z) ((shearRing ε R).x (R.nxt u)) →
      orient ((shearRing ε R).pt u) ((shearRing ε R).pt (R.nxt u)) ((shearRing ε R).pt z) ≠ 0 :=
    fun hu hz hb => hT _ hu _ hz hb
  have hna' : NA ((shearRing ε R).pt i) ((shearRing ε R).pt (R.nxt i)) ((shearRing ε R).pt j)
      ((shearRing ε R).pt (R.nxt j)) := by
    refine ⟨dist hi hni (Ne.symm (nxt_ne_self hR hi)), dist hj hnj (Ne.symm (nxt_ne_self hR hj)),
      dist hi hj n1, dist hi hnj (Ne.symm n3), dist hni hj n2, dist hni hnj n4,
      hTr hi hj, hTr hi hnj, hTr hj hi, hTr hj hni, ?_, ?_, ?_, ?_⟩
    · rw [orient_ring, orient_ring]; exact o1
    · rw [orient_ring, orient_ring]; exact o2
    · intro ⟨a1, a2, a3, a4⟩
      have := s1 ((h.key _ _ hi hj).mp a1) ((h.key _ _ hi hnj).mp a2) ((h.key _ _ hni hj).mp a3)
      exact this ((h.key _ _ hni hnj).mp a4)
    · intro ⟨a1, a2, a3, a4⟩
      have := s2 ((h.key _ _ hj hi).mp a1) ((h.key _ _ hj hni).mp a2) ((h.key _ _ hnj hi).mp a3)
      exact this ((h.key _ _ hnj hni).mp a4)
  obtain ⟨c1, c2⟩ := hna'.cross
  refine ⟨i, hi, j, hj, n1, n2, n3, ?_, ?_⟩
  · rw [orient_ring, orient_ring] at c1; exact c1
  · rw [orient_ring, orient_ring] at c2; exact c2

end Cav.GenXV
