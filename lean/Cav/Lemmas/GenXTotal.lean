/-
  Totality in general position: the event loop from a state with `XInv` runs to the end (every
  event succeeds, `mono = true`) or stops with `.overlap` at an input vertex (`xloop_total`);
  the whole model (`total_of_general`); and in general position the absence of meeting points is
  the semantic validity `NoCross` (`noCross_of_noMeet`).
-/
import Cav.Lemmas.GenXMain

set_option linter.unusedSimpArgs false
set_option linter.unusedVariables false

namespace Cav.GenXTotal
open Cav Num Cav.Geo Cav.Sweep Cav.SweepRun Cav.TriRun Cav.QuadRun Cav.QuadGeom Cav.TriEvents
open Cav.SweepSetup Cav.GenGeom Cav.GenInv Cav.GenQueue Cav.GenOrder Cav.GenRing Cav.GenSetup
open Cav.GenLoop Cav.GenAccept Cav.GenValid Cav.GenXGeom Cav.GenXStep Cav.GenXLoop Cav.GenXMain
open Cav.GenStepBend

variable {R : RingQ} {V : Array (Vtx XQ)}

/-- **the event loop under `XInv`: it runs to the end, or it stops with `.overlap`** -/
theorem xloop_total (hS : NoSpike R) (hT : NoTouch R) : ∀ (fuel : Nat) (s : St XQ) (xs : Rat)
    (ivs : List IV), XInv R s xs ivs → meas R xs < fuel →
    (∃ s', (loop fuel).run s = .ok ((), s') ∧ s'.mono = true) ∨
      ∃ k z, z < R.n ∧ (loop fuel).run s = .error (.overlap k (Fq (R.pt z)))
  | 0, _, _, _, _, h => by omega
  | fuel + 1, s, xs, ivs, hX, hf => by
    rw [loop_succ_run]
    cases hev : s.events with
    | nil => exact Or.inl ⟨s, by simp, hX.inv.mono⟩
    | cons ev rest =>
      obtain ⟨w, es⟩ := ev
      have hq := hX.inv.q
      rw [hev] at hq
      have hwq := hq.gt (w, es) List.mem_cons_self
      rcases xstep hS hT hX hev with ⟨s1, hrun, ivs', hX'⟩ | ⟨k, hrun⟩
      · have hm : meas R (R.x w) < meas R xs := meas_lt hwq.1 hwq.2
        rcases xloop_total hS hT fuel s1 (R.x w) ivs' hX' (by omega) with ⟨s', hl, hmono⟩ | ⟨k, z, hz, hl⟩
        · refine Or.inl ⟨s', ?_, hmono⟩
          simp only [List.isEmpty_cons, Bool.false_eq_true, if_false, hrun]
          exact hl
        · refine Or.inr ⟨k, z, hz, ?_⟩
          simp only [List.isEmpty_cons, Bool.false_eq_true, if_false, hrun]
          exact hl
      · refine Or.inr ⟨k, w, hwq.1, ?_⟩
        simp only [List.isEmpty_cons, Bool.false_eq_true, if_false, hrun]

/-- **the model in general position: a triangle list with `mono = true`, or `.overlap` at an input
    vertex** -/
theorem total_of_general (polys : List (Array Q)) (h3 : ∀ p ∈ polys, 3 ≤ p.size)
    (hx : ((polys.flatMap Array.toList).map (·.1)).Nodup)
    (hS : NoSpike (ringOf polys)) (hT : NoTouch (ringOf polys)) :
    (∃ T, sweep (polys.map (fun p => p.map Fq)) = .ok T ∧
        sweepMon (polys.map (fun p => p.map Fq)) = .ok (T, true)) ∨
    (∃ k z, z < (ringOf polys).n ∧
      sweep (polys.map (fun p => p.map Fq)) = .error (.overlap k (Fq ((ringOf polys).pt z))) ∧
      sweepMon (polys.map (fun p => p.map Fq)) = .error (.overlap k (Fq ((ringOf polys).pt z)))) := by
  have hR := ringOK polys h3 hx
  obtain ⟨seen, evs, hset, hE⟩ := setup_all polys h3 hx
  obtain ⟨xs, hxs⟩ := exists_lt_all ((List.range (ringOf polys).n).map (ringOf polys).x)
  have hxs' : ∀ v, v < (ringOf polys).n → xs < (ringOf polys).x v :=
    fun v hv => hxs _ (List.mem_map.mpr ⟨v, List.mem_range.mpr hv, rfl⟩)
  have hX : XInv (ringOf polys) (stQ (vertsOf (cellsAll 0 polys)) evs) xs [] :=
    ⟨inv_init hR hE hxs', trivial⟩
  have hsz : (stQ (vertsOf (cellsAll 0 polys)) evs).verts.size = (ringOf polys).n := hR.size
  rcases xloop_total hS hT ((ringOf polys).n + 1) _ xs [] hX (Nat.lt_succ_of_le (meas_le xs)) with
    ⟨s', hl, hm⟩ | ⟨k, z, hz, hl⟩
  · left
    refine ⟨s'.out.reverse, ?_, ?_⟩
    · unfold sweep
      rw [run_eq, hset]
      simp only [hsz, hl]
    · unfold sweepMon
      rw [run_eq, hset]
      simp only [hsz, hl, hm]
  · right
    rw [← hsz] at hl
    obtain ⟨r1, r2⟩ := sweep_of_loop_error hset hl
    exact ⟨k, z, hz, r1, r2⟩

/-- in general position, without meeting points of ring edges that have no common vertex, two
    different ring edges have equal heights only in a common end point -/
theorem noCross_of_noMeet (hR : RingOK R V) (hS : NoSpike R) (hT : NoTouch R)
    (hM : ¬ ∃ u v u' v' x, MeetAt R u v u' v' x) : NoCross R := by
  intro u v u' v' hu hv hu' hv' h h' hlt hlt' hne x hxu hxu' hxv hxv' heq
  by_cases c1 : v = u'
  · exact Or.inr (Or.inr (Or.inl c1))
  by_cases c2 : u = v'
  · exact Or.inr (Or.inr (Or.inr c2))
  by_cases c3 : u = u'
  · left
    refine ⟨?_, c3⟩
    subst c3
    have c4 : v ≠ v' := fun e => hne ⟨rfl, e⟩
    by_contra hx
    have hx' : R.x u < x := lt_of_le_of_ne hxu (Ne.symm hx)
    have hsp := hS u hu ⟨fun hp => absurd hp (not_lt.mpr (le_of_lt (by
        rcases adj_cases h with e | e <;> rcases adj_cases h' with e' | e'
        · exact absurd (e.trans e'.symm) c4
        · rw [← e']; exact hlt'
        · rw [← e]; exact hlt
        · exact absurd (e.trans e'.symm) c4))),
      fun hp => absurd hp (not_lt.mpr (le_of_lt (by
        rcases adj_cases h with e | e <;> rcases adj_cases h' with e' | e'
        · exact absurd (e.trans e'.symm) c4
        · rw [← e]; exact hlt
        · rw [← e']; exact hlt'
        · exact absurd (e.trans e'.symm) c4)))⟩
    have ho : orient (R.pt u) (R.pt v) (R.pt v') ≠ 0 := by
      rcases adj_cases h with e | e <;> rcases adj_cases h' with e' | e'
      · exact absurd (e.trans e'.symm) c4
      · rw [e, e']
        intro h0; apply hsp
        have : orient (R.pt (R.prv u)) (R.pt u) (R.pt (R.nxt u)) =
            orient (R.pt u) (R.pt (R.nxt u)) (R.pt (R.prv u)) := by unfold orient; ring
        rw [this]; exact h0
      · rw [e, e']
        intro h0; apply hsp
        have : orient (R.pt (R.prv u)) (R.pt u) (R.pt (R.nxt u)) =
            - orient (R.pt u) (R.pt (R.prv u)) (R.pt (R.nxt u)) := by unfold orient; ring
        rw [this, h0, neg_zero]
      · exact absurd (e.trans e'.symm) c4
    exact fanL_ne _ _ _ hlt hlt' x hx' ho heq
  by_cases c4 : v = v'
  · right; left
    refine ⟨?_, c4⟩
    subst c4
    by_contra hx
    have hx' : x < R.x v := lt_of_le_of_ne hxv hx
    have hvu := adj_symm hR hu h
    have hvu' := adj_symm hR hu' h'
    have hsp := hS v hv ⟨fun _ => by
        rcases adj_cases hvu with e | e <;> rcases adj_cases hvu' with e' | e'
        · exact absurd (e.trans e'.symm) c3
        · rw [← e]; exact hlt
        · rw [← e']; exact hlt'
        · exact absurd (e.trans e'.symm) c3,
      fun _ => by
        rcases adj_cases hvu with e | e <;> rcases adj_cases hvu' with e' | e'
        · exact absurd (e.trans e'.symm) c3
        · rw [← e']; exact hlt'
        · rw [← e]; exact hlt
        · exact absurd (e.trans e'.symm) c3⟩
    have ho : orient (R.pt u) (R.pt u') (R.pt v) ≠ 0 := by
      rcases adj_cases hvu with e | e <;> rcases adj_cases hvu' with e' | e'
      · exact absurd (e.trans e'.symm) c3
      · rw [e, e']
        intro h0; apply hsp
        have : orient (R.pt (R.prv v)) (R.pt v) (R.pt (R.nxt v)) =
            orient (R.pt (R.nxt v)) (R.pt (R.prv v)) (R.pt v) := by unfold orient; ring
        rw [this]; exact h0
      · rw [e, e']
        intro h0; apply hsp
        have : orient (R.pt (R.prv v)) (R.pt v) (R.pt (R.nxt v)) =
            - orient (R.pt (R.prv v)) (R.pt (R.nxt v)) (R.pt v) := by unfold orient; ring
        rw [this, h0, neg_zero]
      · exact absurd (e.trans e'.symm) c3
    exact fanR_ne _ _ _ hlt hlt' x hx' ho heq
  · -- no common vertex: an interior meeting point is excluded by `hM`, an end point of one edge on
    -- the other edge by `NoTouch`
    exfalso
    have spE : Span R (R.x u) (⟨0, u, v⟩ : AE) := ⟨hu, hv, h, le_refl _, hlt⟩
    have spF : Span R (R.x u') (⟨0, u', v'⟩ : AE) := ⟨hu', hv', h', le_refl _, hlt'⟩
    have dist : ∀ {a b : Nat}, a < R.n → b < R.n → a ≠ b → R.x a ≠ R.x b :=
      fun ha hb hab e => hab (hR.distinct _ _ ha hb e)
    -- an end point `z` of one edge at the abscissa `x` lies strictly inside the other range
    have touchF : ∀ z, z < R.n → z ≠ u' → z ≠ v' → x = R.x z →
        lineY (R.pt u') (R.pt v') x = (R.pt z).2 → False := by
      intro z hz n1 n2 ex hy
      have h1 : R.x u' < R.x z := lt_of_le_of_ne (by rw [← ex]; exact hxu') (dist hu' hz (Ne.symm n1))
      have h2 : R.x z < R.x v' := lt_of_le_of_ne (by rw [← ex]; exact hxv') (dist hz hv' n2)
      exact off_edge hR hT spF hz h1 h2 (by rw [← ex]; exact hy)
    have touchE : ∀ z, z < R.n → z ≠ u → z ≠ v → x = R.x z →
        lineY (R.pt u) (R.pt v) x = (R.pt z).2 → False := by
      intro z hz n1 n2 ex hy
      have h1 : R.x u < R.x z := lt_of_le_of_ne (by rw [← ex]; exact hxu) (dist hu hz (Ne.symm n1))
      have h2 : R.x z < R.x v := lt_of_le_of_ne (by rw [← ex]; exact hxv) (dist hz hv n2)
      exact off_edge hR hT spE hz h1 h2 (by rw [← ex]; exact hy)
    rcases eq_or_lt_of_le hxu with e | l1
    · exact touchF u hu c3 c2 e.symm (by rw [← heq, ← e]; exact lineY_left _ _)
    rcases eq_or_lt_of_le hxv with e | r1
    · exact touchF v hv c1 c4 e (by rw [← heq, e]; exact lineY_right _ _ hlt)
    rcases eq_or_lt_of_le hxu' with e | l2
    · exact touchE u' hu' (Ne.symm c3) (Ne.symm c1) e.symm (by rw [heq, ← e]; exact lineY_left _ _)
    rcases eq_or_lt_of_le hxv' with e | r2
    · exact touchE v' hv' (Ne.symm c2) (Ne.symm c4) e (by rw [heq, e]; exact lineY_right _ _ hlt')
    exact hM ⟨u, v, u', v', x, hu, hv, hu', hv', h, h', c3, c2, c1, c4, l1, r1, l2, r2, heq⟩

/-- a meeting point contradicts the semantic validity -/
theorem noMeet_of_noCross (hN : NoCross R) : ¬ ∃ u v u' v' x, MeetAt R u v u' v' x := by
  rintro ⟨u, v, u', v', x, hM⟩
  rcases hN u v u' v' hM.hu hM.hv hM.hu' hM.hv' hM.adj hM.adj' (lt_trans hM.l1 hM.r1)
    (lt_trans hM.l2 hM.r2) (fun h => hM.n1 h.1) x (le_of_lt hM.l1) (le_of_lt hM.l2) (le_of_lt hM.r1)
    (le_of_lt hM.r2) hM.eq with ⟨-, e⟩ | ⟨-, e⟩ | e | e
  · exact hM.n1 e
  · exact hM.n4 e
  · exact hM.n3 e
  · exact hM.n2 e

end Cav.GenXTotal
