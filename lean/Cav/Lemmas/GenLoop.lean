/-
  General sweep invariant, part 25: THE EVENT LOOP.  From a state with the invariant the event
  loop never fails, never runs out of fuel (`verts.size + 1` suffices) and keeps the ghost flag.
-/
import Cav.Lemmas.GenStep

set_option linter.unusedSimpArgs false
set_option linter.unusedVariables false

namespace Cav.GenLoop
open Cav Num Cav.Geo Cav.Sweep Cav.TriRun Cav.QuadRun Cav.SweepOut Cav.TriEvents
open Cav.GenInv Cav.GenStep

variable {R : RingQ}

/-- number of vertices strictly to the right of the sweep line -/
def meas (R : RingQ) (xs : Rat) : Nat := (List.range R.n).countP (fun v => decide (xs < R.x v))

theorem countP_lt {β : Type} {p q : β → Bool} : ∀ {l : List β}, (∀ a ∈ l, q a = true → p a = true) →
    ∀ {w : β}, w ∈ l → p w = true → q w = false → l.countP q < l.countP p
  | [], _, w, hw, _, _ => by cases hw
  | a :: l, hqp, w, hw, hpw, hqw => by
    have hle : l.countP q ≤ l.countP p := by
      apply List.countP_mono_left
      intro x hx; exact hqp x (List.mem_cons_of_mem _ hx)
    rcases List.mem_cons.mp hw with rfl | hw
    · rw [List.countP_cons_of_pos hpw, List.countP_cons_of_neg (by rw [hqw]; simp)]
      omega
    · have ih := countP_lt (fun x hx => hqp x (List.mem_cons_of_mem _ hx)) hw hpw hqw
      by_cases hqa : q a = true
      · rw [List.countP_cons_of_pos hqa, List.countP_cons_of_pos (hqp a List.mem_cons_self hqa)]
        omega
      · rw [List.countP_cons_of_neg hqa]
        by_cases hpa : p a = true
        · rw [List.countP_cons_of_pos hpa]; omega
        · rw [List.countP_cons_of_neg hpa]; exact ih

theorem meas_le (xs : Rat) : meas R xs ≤ R.n := by
  unfold meas
  have := List.countP_le_length (p := fun v => decide (xs < R.x v)) (l := List.range R.n)
  simpa using this

theorem meas_lt {xs : Rat} {w : Nat} (hw : w < R.n) (h : xs < R.x w) : meas R (R.x w) < meas R xs := by
  unfold meas
  refine countP_lt ?_ (w := w) (List.mem_range.mpr hw) (by simpa using h) (by simp)
  intro a _ ha
  simp only [decide_eq_true_eq] at ha ⊢
  exact lt_trans h ha

/-- **the event loop from a state with the invariant** -/
theorem loop_ok (hN : NoCross R) : ∀ (fuel : Nat) (s : St XQ) (xs : Rat) (ivs : List IV),
    Inv R s xs ivs → meas R xs < fuel →
    ∃ s', (loop fuel).run s = .ok ((), s') ∧ s'.mono = true
  | 0, _, _, _, _, h => by omega
  | fuel + 1, s, xs, ivs, hI, hf => by
    rw [loop_succ_run]
    cases hev : s.events with
    | nil =>
      exact ⟨s, by simp, hI.mono⟩
    | cons ev rest =>
      obtain ⟨w, es⟩ := ev
      obtain ⟨s1, hrun, ivs', hI'⟩ := step hN hI hev
      have hq := hI.q
      rw [hev] at hq
      have hwq := hq.gt (w, es) List.mem_cons_self
      have hm : meas R (R.x w) < meas R xs := meas_lt hwq.1 hwq.2
      obtain ⟨s', hl, hmono⟩ := loop_ok hN fuel s1 (R.x w) ivs' hI' (by omega)
      refine ⟨s', ?_, hmono⟩
      simp only [List.isEmpty_cons, Bool.false_eq_true, if_false, hrun]
      exact hl

end Cav.GenLoop
