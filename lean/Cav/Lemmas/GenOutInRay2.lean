/-
  Tiling by the emitted triangles, part 4: the ray membership of a clockwise triangle lies between
  the open triangle (`strict_inside_ray`) and the closed triangle (`ray_closed`).

  The side of `q` with respect to the side opposite to the apex follows from the two others by the
  barycentric identity `bary`.
-/
import Cav.Lemmas.GenOutInRay

set_option linter.unusedVariables false
set_option linter.unusedSimpArgs false

namespace Cav.GenOutIn
open Cav Cav.Geo Cav.QuadGeom Cav.CvxEvents Cav.GenInv Cav.MonoGeom

/-- the barycentric identity on the abscissae -/
theorem bary (a b c q : Q) :
    orient b c q * (a.1 - q.1) + orient c a q * (b.1 - q.1) + orient a b q * (c.1 - q.1) = 0 := by
  unfold orient
  ring

theorem orient_rev (p r q : Q) : orient r p q = - orient p r q := by
  unfold orient
  ring

theorem orient_nonpos_of_le (a b s : Q) (h : a.1 < b.1) (hs : s.2 ≤ lineY a b s.1) :
    orient a b s ≤ 0 := by
  by_contra hc
  have := Cav.GenGeom.above_of_orient_pos a b s h (not_le.mp hc)
  linarith

/-- a spanning side and the sign of the determinant -/
theorem below_iff_orient {q p r : Q} (h1 : p.1 < q.1) (h2 : q.1 < r.1) :
    below q p r ↔ 0 < orient p r q := by
  rw [below_iff h1 h2]
  exact ⟨Cav.GenGeom.orient_pos_of_above p r q (lt_trans h1 h2),
    Cav.GenGeom.above_of_orient_pos p r q (lt_trans h1 h2)⟩

/-! ### a point strictly inside -/

/-- a point strictly inside is not on one side of the three corners (left) -/
theorem inside_not_allL {q a b c : Q} (h1 : orient a b q < 0) (h2 : orient b c q < 0)
    (h3 : orient c a q < 0) (ha : q.1 < a.1) (hb : q.1 < b.1) (hc : q.1 < c.1) : False := by
  have e := bary a b c q
  have p1 := mul_neg_of_neg_of_pos h2 (sub_pos.mpr ha)
  have p2 := mul_neg_of_neg_of_pos h3 (sub_pos.mpr hb)
  have p3 := mul_neg_of_neg_of_pos h1 (sub_pos.mpr hc)
  linarith

theorem inside_not_allR {q a b c : Q} (h1 : orient a b q < 0) (h2 : orient b c q < 0)
    (h3 : orient c a q < 0) (ha : a.1 < q.1) (hb : b.1 < q.1) (hc : c.1 < q.1) : False := by
  have e := bary a b c q
  have p1 := mul_pos_of_neg_of_neg h2 (sub_neg.mpr ha)
  have p2 := mul_pos_of_neg_of_neg h3 (sub_neg.mpr hb)
  have p3 := mul_pos_of_neg_of_neg h1 (sub_neg.mpr hc)
  linarith

theorem inside_apexL {q a b c : Q} (ho : orient a b c < 0) (h1 : orient a b q < 0)
    (h3 : orient c a q < 0) (ha : a.1 < q.1) (hb : q.1 < b.1) (hc : q.1 < c.1) :
    rayCount q a b c % 2 = 1 := by
  rw [odd_apexL ho ha hb hc, below_iff_orient ha hc, below_iff_orient ha hb]
  rw [orient_rev a c q] at h3
  constructor <;> linarith

theorem inside_apexR {q a b c : Q} (ho : orient a b c < 0) (h1 : orient a b q < 0)
    (h3 : orient c a q < 0) (ha : q.1 < a.1) (hb : b.1 < q.1) (hc : c.1 < q.1) :
    rayCount q a b c % 2 = 1 := by
  rw [odd_apexR ho ha hb hc, below_iff_orient hb ha, below_iff_orient hc ha]
  rw [orient_rev b a q] at h1
  constructor <;> linarith

/-- the corner abscissae need not be different -/
theorem strict_inside_ray' {q a b c : Q} (ho : orient a b c < 0)
    (hqa : q.1 ≠ a.1) (hqb : q.1 ≠ b.1) (hqc : q.1 ≠ c.1)
    (h1 : orient a b q < 0) (h2 : orient b c q < 0) (h3 : orient c a q < 0) :
    rayCount q a b c % 2 = 1 := by
  have ho1 : orient b c a < 0 := by rw [orient_rot]; exact ho
  have ho2 : orient c a b < 0 := by rw [orient_rot]; exact ho1
  rcases lt_or_gt_of_ne hqa with ha | ha <;> rcases lt_or_gt_of_ne hqb with hb | hb <;>
    rcases lt_or_gt_of_ne hqc with hc | hc
  · exact (inside_not_allL h1 h2 h3 ha hb hc).elim
  · rw [← rayCount_rot, ← rayCount_rot]
    exact inside_apexL ho2 h3 h2 hc ha hb
  · rw [← rayCount_rot]
    exact inside_apexL ho1 h2 h1 hb hc ha
  · exact inside_apexR ho h1 h3 ha hb hc
  · exact inside_apexL ho h1 h3 ha hb hc
  · rw [← rayCount_rot]
    exact inside_apexR ho1 h2 h1 hb hc ha
  · rw [← rayCount_rot, ← rayCount_rot]
    exact inside_apexR ho2 h3 h2 hc ha hb
  · exact (inside_not_allR h1 h2 h3 ha hb hc).elim

/-- (R4) a point strictly inside a clockwise triangle lies in it in the ray sense -/
theorem strict_inside_ray {q a b c : Q} (ho : orient a b c < 0)
    (hab : a.1 ≠ b.1) (hbc : b.1 ≠ c.1) (hca : c.1 ≠ a.1)
    (hqa : q.1 ≠ a.1) (hqb : q.1 ≠ b.1) (hqc : q.1 ≠ c.1) :
    orient a b q < 0 → orient b c q < 0 → orient c a q < 0 → rayCount q a b c % 2 = 1 :=
  strict_inside_ray' ho hqa hqb hqc

/-! ### a point of the triangle in the ray sense -/

theorem closed_apexL {q a b c : Q} (ho : orient a b c < 0) (ha : a.1 < q.1) (hb : q.1 < b.1)
    (hc : q.1 < c.1) (h : rayCount q a b c % 2 = 1) :
    orient a b q ≤ 0 ∧ orient b c q ≤ 0 ∧ orient c a q ≤ 0 := by
  rw [odd_apexL ho ha hb hc, below_iff_orient ha hc, below_iff_orient ha hb] at h
  obtain ⟨h3, h1⟩ := h
  have h1' : orient a b q ≤ 0 := not_lt.mp h1
  have h3' : orient c a q < 0 := by rw [orient_rev]; linarith
  refine ⟨h1', ?_, le_of_lt h3'⟩
  have e := bary a b c q
  have p2 := mul_neg_of_neg_of_pos h3' (sub_pos.mpr hb)
  have p3 := mul_nonpos_of_nonpos_of_nonneg h1' (le_of_lt (sub_pos.mpr hc))
  -- `orient b c q * (q.1 - a.1) ≤ 0`
  by_contra hcon
  have p1 := mul_pos (not_le.mp hcon) (sub_pos.mpr ha)
  linarith

theorem closed_apexR {q a b c : Q} (ho : orient a b c < 0) (ha : q.1 < a.1) (hb : b.1 < q.1)
    (hc : c.1 < q.1) (h : rayCount q a b c % 2 = 1) :
    orient a b q ≤ 0 ∧ orient b c q ≤ 0 ∧ orient c a q ≤ 0 := by
  rw [odd_apexR ho ha hb hc, below_iff_orient hb ha, below_iff_orient hc ha] at h
  obtain ⟨h1, h3⟩ := h
  have h3' : orient c a q ≤ 0 := not_lt.mp h3
  have h1' : orient a b q < 0 := by rw [orient_rev]; linarith
  refine ⟨le_of_lt h1', ?_, h3'⟩
  have e := bary a b c q
  have p2 := mul_nonneg_of_nonpos_of_nonpos h3' (le_of_lt (sub_neg.mpr hb))
  have p3 := mul_pos_of_neg_of_neg h1' (sub_neg.mpr hc)
  by_contra hcon
  have p1 := mul_pos (not_le.mp hcon) (sub_pos.mpr ha)
  linarith

/-- the corner abscissae need not be different -/
theorem ray_closed' {q a b c : Q} (ho : orient a b c < 0)
    (hqa : q.1 ≠ a.1) (hqb : q.1 ≠ b.1) (hqc : q.1 ≠ c.1) (h : rayCount q a b c % 2 = 1) :
    orient a b q ≤ 0 ∧ orient b c q ≤ 0 ∧ orient c a q ≤ 0 := by
  have ho1 : orient b c a < 0 := by rw [orient_rot]; exact ho
  have ho2 : orient c a b < 0 := by rw [orient_rot]; exact ho1
  rcases lt_or_gt_of_ne hqa with ha | ha <;> rcases lt_or_gt_of_ne hqb with hb | hb <;>
    rcases lt_or_gt_of_ne hqc with hc | hc
  · rw [rayCount_allL (le_of_lt ha) (le_of_lt hb) (le_of_lt hc)] at h
    exact absurd h (by decide)
  · rw [← rayCount_rot, ← rayCount_rot] at h
    obtain ⟨k3, k1, k2⟩ := closed_apexL ho2 hc ha hb h
    exact ⟨k1, k2, k3⟩
  · rw [← rayCount_rot] at h
    obtain ⟨k2, k3, k1⟩ := closed_apexL ho1 hb hc ha h
    exact ⟨k1, k2, k3⟩
  · exact closed_apexR ho ha hb hc h
  · exact closed_apexL ho ha hb hc h
  · rw [← rayCount_rot] at h
    obtain ⟨k2, k3, k1⟩ := closed_apexR ho1 hb hc ha h
    exact ⟨k1, k2, k3⟩
  · rw [← rayCount_rot, ← rayCount_rot] at h
    obtain ⟨k3, k1, k2⟩ := closed_apexR ho2 hc ha hb h
    exact ⟨k1, k2, k3⟩
  · rw [rayCount_allR (le_of_lt ha) (le_of_lt hb) (le_of_lt hc)] at h
    exact absurd h (by decide)

/-- (R4) a point of a clockwise triangle in the ray sense lies in the closed triangle -/
theorem ray_closed {q a b c : Q} (ho : orient a b c < 0)
    (hab : a.1 ≠ b.1) (hbc : b.1 ≠ c.1) (hca : c.1 ≠ a.1)
    (hqa : q.1 ≠ a.1) (hqb : q.1 ≠ b.1) (hqc : q.1 ≠ c.1) :
    rayCount q a b c % 2 = 1 → orient a b q ≤ 0 ∧ orient b c q ≤ 0 ∧ orient c a q ≤ 0 :=
  ray_closed' ho hqa hqb hqc

end Cav.GenOutIn
