/-
  Helper lemmas for `Thm/C01Trig`: the sine on `[0,1]` and its Taylor polynomial of degree 31,
  with the remainder obtained from `Complex.exp_bound` by taking imaginary parts.
-/
import Cav.Lemmas.AccApproxExp
import Mathlib.Analysis.Complex.Trigonometric
import Mathlib.Analysis.Complex.Norm

open Cav Num
namespace Cav.C01Trig
open Cav.C01 Cav.C01Approx

/-- the imaginary part of `I^m` as a rational: `0, 1, 0, -1, …` -/
def iPowIm (m : Nat) : Rat := if m % 4 = 1 then 1 else if m % 4 = 3 then -1 else 0

/-- the first `n` Taylor coefficients of `sin`: `[0, 1/1!, 0, -1/3!, 0, 1/5!, …]` -/
def sinCoeffs (n : Nat) : List Rat :=
  (List.range n).map (fun k => iPowIm k / (k.factorial : Rat))

theorem sinCoeffs_length (n : Nat) : (sinCoeffs n).length = n := by simp [sinCoeffs]

theorem I_pow_im (m : Nat) : (Complex.I ^ m).im = ((iPowIm m : Rat) : ℝ) := by
  rw [Complex.I_pow_eq_pow_mod]
  unfold iPowIm
  have h4 : m % 4 < 4 := Nat.mod_lt _ (by norm_num)
  generalize m % 4 = r at h4
  interval_cases r <;> simp [pow_succ]

/-- the real polynomial of `sinCoeffs n` is the imaginary part of the Taylor sum of `exp (x I)` -/
theorem evalPolyR_sinCoeffs (n : Nat) (x : ℝ) :
    evalPolyR (sinCoeffs n) x =
      (∑ m ∈ Finset.range n, ((x : ℂ) * Complex.I) ^ m / (m.factorial : ℂ)).im := by
  unfold evalPolyR
  rw [sinCoeffs_length, Complex.im_sum]
  apply Finset.sum_congr rfl
  intro k hk
  have hk' := Finset.mem_range.mp hk
  have : (sinCoeffs n).getD k 0 = iPowIm k / (k.factorial : Rat) := by
    simp [sinCoeffs, List.getD_eq_getElem?_getD, hk']
  rw [this]
  have h2 : ((x : ℂ) * Complex.I) ^ k / (k.factorial : ℂ) =
      (((x ^ k / (k.factorial : ℝ) : ℝ)) : ℂ) * Complex.I ^ k := by
    push_cast; ring
  rw [h2, Complex.im_ofReal_mul, I_pow_im]
  push_cast; ring

/-- on `[-1,1]` the degree-31 Taylor polynomial of `sin` is within `1e-35` of `sin` -/
theorem sin_taylor32 (x : ℝ) (hx : |x| ≤ 1) :
    |Real.sin x - evalPolyR (sinCoeffs 32) x| ≤ 1 / 10 ^ 35 := by
  rw [evalPolyR_sinCoeffs, ← Complex.exp_ofReal_mul_I_im, ← Complex.sub_im]
  refine le_trans (Complex.abs_im_le_norm _) ?_
  have hn : ‖(x : ℂ) * Complex.I‖ = |x| := by simp
  have h := Complex.exp_bound (x := (x : ℂ) * Complex.I) (by rw [hn]; exact hx) (n := 32)
    (by norm_num)
  refine le_trans h ?_
  rw [hn]
  have h1 : |x| ^ 32 ≤ 1 := pow_le_one₀ (abs_nonneg _) hx
  have h2 : (0 : ℝ) ≤ ((Nat.succ 32 : ℕ) : ℝ) * ((Nat.factorial 32 : ℝ) * ((32 : ℕ) : ℝ))⁻¹ := by
    positivity
  refine le_trans (mul_le_mul_of_nonneg_right h1 h2) ?_
  rw [factorial_32]
  norm_num

/-- `Σ_{k<16} 1/(2k+1)! ≤ 2` -/
theorem absPolyAt_sinCoeffs_le : absPolyAt (sinCoeffs 32) (max |(0 : Rat)| |(1 : Rat)|) ≤ 2 := by
  decide +kernel

/-! ### the cosine: real parts -/

/-- the real part of `I^m` as a rational: `1, 0, -1, 0, …` -/
def iPowRe (m : Nat) : Rat := if m % 4 = 0 then 1 else if m % 4 = 2 then -1 else 0

/-- the first `n` Taylor coefficients of `cos`: `[1, 0, -1/2!, 0, 1/4!, …]` -/
def cosCoeffs (n : Nat) : List Rat :=
  (List.range n).map (fun k => iPowRe k / (k.factorial : Rat))

theorem cosCoeffs_length (n : Nat) : (cosCoeffs n).length = n := by simp [cosCoeffs]

theorem I_pow_re (m : Nat) : (Complex.I ^ m).re = ((iPowRe m : Rat) : ℝ) := by
  rw [Complex.I_pow_eq_pow_mod]
  unfold iPowRe
  have h4 : m % 4 < 4 := Nat.mod_lt _ (by norm_num)
  generalize m % 4 = r at h4
  interval_cases r <;> simp [pow_succ]

/-- the real polynomial of `cosCoeffs n` is the real part of the Taylor sum of `exp (x I)` -/
theorem evalPolyR_cosCoeffs (n : Nat) (x : ℝ) :
    evalPolyR (cosCoeffs n) x =
      (∑ m ∈ Finset.range n, ((x : ℂ) * Complex.I) ^ m / (m.factorial : ℂ)).re := by
  unfold evalPolyR
  rw [cosCoeffs_length, Complex.re_sum]
  apply Finset.sum_congr rfl
  intro k hk
  have hk' := Finset.mem_range.mp hk
  have : (cosCoeffs n).getD k 0 = iPowRe k / (k.factorial : Rat) := by
    simp [cosCoeffs, List.getD_eq_getElem?_getD, hk']
  rw [this]
  have h2 : ((x : ℂ) * Complex.I) ^ k / (k.factorial : ℂ) =
      (((x ^ k / (k.factorial : ℝ) : ℝ)) : ℂ) * Complex.I ^ k := by
    push_cast; ring
  rw [h2, Complex.re_ofReal_mul, I_pow_re]
  push_cast; ring

/-- on `[-1,1]` the degree-30 Taylor polynomial of `cos` is within `1e-35` of `cos` -/
theorem cos_taylor32 (x : ℝ) (hx : |x| ≤ 1) :
    |Real.cos x - evalPolyR (cosCoeffs 32) x| ≤ 1 / 10 ^ 35 := by
  rw [evalPolyR_cosCoeffs, ← Complex.exp_ofReal_mul_I_re, ← Complex.sub_re]
  refine le_trans (Complex.abs_re_le_norm _) ?_
  have hn : ‖(x : ℂ) * Complex.I‖ = |x| := by simp
  have h := Complex.exp_bound (x := (x : ℂ) * Complex.I) (by rw [hn]; exact hx) (n := 32)
    (by norm_num)
  refine le_trans h ?_
  rw [hn]
  have h1 : |x| ^ 32 ≤ 1 := pow_le_one₀ (abs_nonneg _) hx
  have h2 : (0 : ℝ) ≤ ((Nat.succ 32 : ℕ) : ℝ) * ((Nat.factorial 32 : ℝ) * ((32 : ℕ) : ℝ))⁻¹ := by
    positivity
  refine le_trans (mul_le_mul_of_nonneg_right h1 h2) ?_
  rw [factorial_32]
  norm_num

/-- `Σ_{k<16} 1/(2k)! ≤ 2` -/
theorem absPolyAt_cosCoeffs_le : absPolyAt (cosCoeffs 32) (max |(0 : Rat)| |(1 : Rat)|) ≤ 2 := by
  decide +kernel

end Cav.C01Trig
