/-
  The Bend and End events from the canonical two-edge state `stC` with a back-chain of arbitrary
  length: the effect of `backTriangulate` on the node array is a hypothesis (`hbt`, supplied by
  the fan lemmas of `MonoChain.lean`), everything else is evaluated symbolically as in
  `CvxEvents.lean`.
-/
import Cav.Lemmas.CvxEvents
import Cav.Lemmas.MonoChain

set_option linter.unusedSimpArgs false
set_option linter.unusedVariables false

namespace Cav.MonoEvents
open Cav Num Cav.Sweep Cav.SweepRun Cav.TriRun Cav.QuadRun Cav.TriEvents Cav.CvxHeap Cav.CvxEvents
open Cav.MonoHeap

section
variable (V : Array (Vtx XQ)) (x : XQ) (N N2 : Array (Node XQ)) (rm iB iT : Nat)
  (B T p q1 q2 rp rO : Pt XQ) (vi pr nx r vO : Nat) (a1 a2 a3 a4 a5 a6 a7 a8 : Nat)
  (out ts : List Tri) (o : Ordering) (mx : XQ) (hB hT : Node XQ) (u1 u2 u3 u4 : Option Nat)

/-- Bend on the bottom chain (edge 0): new head, then `backTriangulate` from the head -/
theorem bendB_gen
    (hNB : N[iB]? = some hB)
    (hbt : (backTriangulate ⟨N.size, N.size, iT⟩ false).run
        (stC V p.x (appH N iB hB p) N.size N.size iT p rO [(vO, [1])] out) =
        .ok ((), stC V p.x N2 N.size N.size iT p rO [(vO, [1])] (ts ++ out)))
    (l1 : N2[N.size]? = some ⟨p, u1, u2⟩) (l2 : N2[iT]? = some ⟨T, u3, u4⟩)
    (hv : V[vi]? = some ⟨p, pr, nx⟩) (h1 : V[pr]? = some ⟨q1, a1, a2⟩)
    (h2 : V[nx]? = some ⟨q2, a3, a4⟩)
    (hft : fromTriplet p q1 q2 = some .bend)
    (hr : (if q1.ge q2 = true then pr else nx) = r) (hrp : V[r]? = some ⟨rp, a5, a6⟩)
    (hO : V[vO]? = some ⟨rO, a7, a8⟩)
    (hfin : Num.isFinite mx = true)
    (hx : ofEq rp.x p.x = false)
    (hmx : minTotal rp.x rO.x = mx)
    (hov1 : ofEq rp.x rO.x = true →
      ofGt (yExtrap p rp rp.x true) (yExtrap T rO rp.x true) = false)
    (hov2 : ofEq rp.x rO.x = false → cmpAtP p rp T rO mx true = .lt)
    (ho : rp.cmp rO = o) :
    Runs (stC V x N rm iB iT p rO [(vi, [0]), (vO, [1])] out)
      (.ok ((), stC V p.x N2 N.size N.size iT rp rO (evMerge o r 0 vO [1]) (ts ++ out)))
      handleNext := by
  unfold stC at hbt
  unfold stC handleNext
  sm_steps [hv, h1, h2, hft]
  unfold handleBend
  sm_steps [hv, h1, h2, hft, hr, hrp, hO, hx, verticalIsCrossed, verticalIsCrossed.go]
  sm_by (run_chainAppend_head _ _ _ _ hNB)
  sm_bind
  sm_by hbt
  cases hxe : ofEq rp.x rO.x
  · have hov := hov2 hxe
    sm_steps [hrp, hr, hxe, hmx, hov, hfin, l1, l2, willOverlapBot, willOverlapTop, run_cmpAt, lpt?, lptD]
    cases o <;> (refine Runs.final ?_; sm_run [hrp, hO, ho, eventsAdd, eventsAdd.go, evMerge])
  · have hov := hov1 hxe
    sm_steps [hrp, hr, hxe, hmx, hov, hfin, l1, l2, willOverlapBot, willOverlapTop, run_yAt, lpt?, lptD]
    cases o <;> (refine Runs.final ?_; sm_run [hrp, hO, ho, eventsAdd, eventsAdd.go, evMerge])

/-- Bend on the top chain (edge 1): new tail, then `backTriangulate` from the tail -/
theorem bendT_gen
    (hNT : N[iT]? = some hT)
    (hbt : (backTriangulate ⟨N.size, iB, N.size⟩ true).run
        (stC V p.x (appT N iT hT p) N.size iB N.size rO p [(vO, [0])] out) =
        .ok ((), stC V p.x N2 N.size iB N.size rO p [(vO, [0])] (ts ++ out)))
    (l1 : N2[iB]? = some ⟨B, u1, u2⟩) (l2 : N2[N.size]? = some ⟨p, u3, u4⟩)
    (hv : V[vi]? = some ⟨p, pr, nx⟩) (h1 : V[pr]? = some ⟨q1, a1, a2⟩)
    (h2 : V[nx]? = some ⟨q2, a3, a4⟩)
    (hft : fromTriplet p q1 q2 = some .bend)
    (hr : (if q1.ge q2 = true then pr else nx) = r) (hrp : V[r]? = some ⟨rp, a5, a6⟩)
    (hO : V[vO]? = some ⟨rO, a7, a8⟩)
    (hfin : Num.isFinite mx = true)
    (hx : ofEq rp.x p.x = false)
    (hmx : minTotal rp.x rO.x = mx)
    (hov1 : ofEq rp.x rO.x = true →
      ofLt (yExtrap p rp rp.x true) (yExtrap B rO rp.x true) = false)
    (hov2 : ofEq rp.x rO.x = false → cmpAtP p rp B rO mx true = .gt)
    (ho : rp.cmp rO = o) :
    Runs (stC V x N rm iB iT rO p [(vi, [1]), (vO, [0])] out)
      (.ok ((), stC V p.x N2 N.size iB N.size rO rp (evMerge o r 1 vO [0]) (ts ++ out)))
      handleNext := by
  unfold stC at hbt
  unfold stC handleNext
  sm_steps [hv, h1, h2, hft]
  unfold handleBend
  sm_steps [hv, h1, h2, hft, hr, hrp, hO, hx, verticalIsCrossed, verticalIsCrossed.go]
  sm_by (run_chainAppend_tail _ _ _ _ hNT)
  sm_bind
  sm_by hbt
  cases hxe : ofEq rp.x rO.x
  · have hov := hov2 hxe
    sm_steps [hrp, hr, hxe, hmx, hov, hfin, l1, l2, willOverlapBot, willOverlapTop, run_cmpAt, lpt?, lptD]
    cases o <;> (refine Runs.final ?_; sm_run [hrp, hO, ho, eventsAdd, eventsAdd.go, evMerge])
  · have hov := hov1 hxe
    sm_steps [hrp, hr, hxe, hmx, hov, hfin, l1, l2, willOverlapBot, willOverlapTop, run_yAt, lpt?, lptD]
    cases o <;> (refine Runs.final ?_; sm_run [hrp, hO, ho, eventsAdd, eventsAdd.go, evMerge])

/-- the End event: both edges are removed, new tail, `backTriangulate` from the tail -/
theorem end_gen (es : List Nat)
    (hNB : N[iB]? = some ⟨B, u1, u2⟩) (hNT : N[iT]? = some ⟨T, u3, u4⟩)
    (hbt : (backTriangulate ⟨N.size, iB, N.size⟩ true).run
        (stE V p.x (appT N iT ⟨T, u3, u4⟩ p) N.size iB N.size p p out) =
        .ok ((), stE V p.x N2 N.size iB N.size p p (ts ++ out)))
    (hv : V[vi]? = some ⟨p, pr, nx⟩) (h1 : V[pr]? = some ⟨q1, a1, a2⟩)
    (h2 : V[nx]? = some ⟨q2, a3, a4⟩)
    (hft : fromTriplet p q1 q2 = some .end_)
    (hes : es = [0, 1] ∨ es = [1, 0])
    (hfin : Num.isFinite x = true)
    (hg1 : ofGe (B.grad p) (T.grad p) = true) (hg2 : ofGe (T.grad p) (B.grad p) = false)
    (hc : cmpEdgeP B p T p x = .lt) :
    Runs (stC V x N rm iB iT p p [(vi, es)] out)
      (.ok ((), stE V p.x N2 N.size iB N.size p p (ts ++ out))) handleNext := by
  unfold stE at hbt
  unfold stC stE handleNext
  sm_steps [hv, h1, h2, hft]
  unfold handleEnd
  rcases hes with rfl | rfl
  all_goals
    sm_steps [hNB, hNT, hfin, hg1, hg2, hc, cmpEdgeP_self, run_edgeGrad, run_cmpEdge, lpt?, lptD,
      activeRemove, search, searchPos, cmpAll, isMono]
    sm_by (run_chainAppend_tail _ _ _ _ hNT)
    sm_bind
    sm_by hbt
    sm_eval

end

end Cav.MonoEvents
