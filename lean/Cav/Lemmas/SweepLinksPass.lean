/-
  Partner links and the `RefCell` borrow panic, part 2: a sized triple `PL Pre Post N C D E G m`
  with separate invariant families before and after (here `WS r V` and `W V`), the handlers
  and one pass of `handle_next`: from a well-formed heap in which the cells of the registered
  edges are `SOk`, a pass does not raise the borrow panic.
-/
import Cav.Lemmas.SweepLinks

set_option linter.unusedSectionVars false
set_option linter.unusedVariables false

namespace Cav.SweepLinks
open Cav Num Cav.Sweep Cav.SweepRun Cav.SweepHoare Cav.SweepHeap

variable {α : Type} {β γ : Type}

/-- from `Pre N C D` to `Post N' C' D'` with `N ≤ N'`, `C ≤ C'`, `D ≤ D'`; errors within `E` -/
def PL (Pre Post : Nat → Nat → Nat → St α → Prop) (N C D : Nat) (E : SErr α → Prop)
    (G : β → Nat → Nat → Nat → Prop) (m : SM α β) : Prop :=
  ∀ s, Pre N C D s → match m.run s with
    | .ok (b, s') => ∃ N' C' D', N ≤ N' ∧ C ≤ C' ∧ D ≤ D' ∧ Post N' C' D' s' ∧ G b N' C' D'
    | .error e => E e

variable {Pre Mid Post : Nat → Nat → Nat → St α → Prop} {N C D : Nat} {E : SErr α → Prop}

theorem PL.intro {G : β → Nat → Nat → Nat → Prop} {m : SM α β}
    (h : ∀ s, Pre N C D s → match m.run s with
      | .ok (b, s') => ∃ N' C' D', N ≤ N' ∧ C ≤ C' ∧ D ≤ D' ∧ Post N' C' D' s' ∧ G b N' C' D'
      | .error e => E e) : PL Pre Post N C D E G m := h

theorem PL.ok {G : β → Nat → Nat → Nat → Prop} {m : SM α β} (h : PL Pre Post N C D E G m)
    {s s' : St α} {b : β} (hs : Pre N C D s) (hr : m.run s = .ok (b, s')) :
    ∃ N' C' D', N ≤ N' ∧ C ≤ C' ∧ D ≤ D' ∧ Post N' C' D' s' ∧ G b N' C' D' := by
  have := h s hs; rw [hr] at this; exact this

theorem PL.err {G : β → Nat → Nat → Nat → Prop} {m : SM α β} (h : PL Pre Post N C D E G m)
    {s : St α} {e : SErr α} (hs : Pre N C D s) (hr : m.run s = .error e) : E e := by
  have := h s hs; rw [hr] at this; exact this

theorem PL.pure {G : β → Nat → Nat → Nat → Prop} {b : β} (hpp : ∀ s, Pre N C D s → Post N C D s)
    (h : G b N C D) : PL Pre Post N C D E G (Pure.pure b : SM α β) :=
  fun s hs => ⟨N, C, D, Nat.le_refl _, Nat.le_refl _, Nat.le_refl _, hpp s hs, h⟩

theorem PL.throw {G : β → Nat → Nat → Nat → Prop} {e : SErr α} (h : E e) :
    PL Pre Post N C D E G (MonadExcept.throw e : SM α β) := fun _ _ => h

theorem PL.bind {G1 : β → Nat → Nat → Nat → Prop} {G : γ → Nat → Nat → Nat → Prop} {m : SM α β}
    {f : β → SM α γ} (hm : PL Pre Mid N C D E G1 m)
    (hf : ∀ b N' C' D', N ≤ N' → C ≤ C' → D ≤ D' → G1 b N' C' D' → PL Mid Post N' C' D' E G (f b)) :
    PL Pre Post N C D E G (m >>= f) := by
  intro s hs
  rw [run_bind]
  have h1 := hm s hs
  cases hr : m.run s with
  | error e => rw [hr] at h1; exact h1
  | ok p =>
    obtain ⟨b, s1⟩ := p
    rw [hr] at h1
    obtain ⟨N', C', D', hN, hC, hD, hw, hg⟩ := h1
    have h2 := hf b N' C' D' hN hC hD hg s1 hw
    simp only
    cases hr2 : (f b).run s1 with
    | error e => rw [hr2] at h2; exact h2
    | ok q =>
      obtain ⟨c, s2⟩ := q
      rw [hr2] at h2
      obtain ⟨N'', C'', D'', hN', hC', hD', hw', hg'⟩ := h2
      exact ⟨N'', C'', D'', Nat.le_trans hN hN', Nat.le_trans hC hC', Nat.le_trans hD hD', hw', hg'⟩

/-- a program that keeps the sizes and `Pre`, given by a `Pres` lemma -/
theorem PL.of_pres {G1 : β → Prop} {G : β → Nat → Nat → Nat → Prop} {m : SM α β}
    (hm : Pres (Pre N C D) E G1 m) (hpp : ∀ s, Pre N C D s → Post N C D s)
    (h : ∀ b, G1 b → G b N C D) : PL Pre Post N C D E G m := by
  intro s hs
  cases hr : m.run s with
  | error e => exact hm.err hs hr
  | ok p =>
    obtain ⟨b, s1⟩ := p
    obtain ⟨hw, hg⟩ := hm.ok hs hr
    exact ⟨N, C, D, Nat.le_refl _, Nat.le_refl _, Nat.le_refl _, hpp s1 hw, h b hg⟩

theorem PL.bind_same {G1 : β → Prop} {G : γ → Nat → Nat → Nat → Prop} {m : SM α β}
    {f : β → SM α γ} (hm : Pres (Pre N C D) E G1 m)
    (hf : ∀ b, G1 b → PL Pre Post N C D E G (f b)) : PL Pre Post N C D E G (m >>= f) := by
  refine PL.bind (Mid := Pre) (G1 := fun b N' C' D' => G1 b ∧ N' = N ∧ C' = C ∧ D' = D)
    (PL.of_pres hm (fun _ h => h) (fun b hb => ⟨hb, rfl, rfl, rfl⟩)) ?_
  rintro b N' C' D' - - - ⟨hb, rfl, rfl, rfl⟩
  exact hf b hb

theorem PL.mono {G1 G : β → Nat → Nat → Nat → Prop} {m : SM α β} (hm : PL Pre Mid N C D E G1 m)
    (hpp : ∀ N' C' D' s, Mid N' C' D' s → Post N' C' D' s)
    (h : ∀ b N' C' D', N ≤ N' → C ≤ C' → D ≤ D' → G1 b N' C' D' → G b N' C' D') :
    PL Pre Post N C D E G m := by
  intro s hs
  have h1 := hm s hs
  cases hr : m.run s with
  | error e => rw [hr] at h1; exact h1
  | ok p =>
    obtain ⟨b, s1⟩ := p
    rw [hr] at h1
    obtain ⟨N', C', D', hN, hC, hD, hw, hg⟩ := h1
    exact ⟨N', C', D', hN, hC, hD, hpp _ _ _ _ hw, h b N' C' D' hN hC hD hg⟩

/-- weaker precondition -/
theorem PL.weaken_pre {Pre' : Nat → Nat → Nat → St α → Prop} {G : β → Nat → Nat → Nat → Prop}
    {m : SM α β} (hpp : ∀ s, Pre N C D s → Pre' N C D s) (h : PL Pre' Post N C D E G m) :
    PL Pre Post N C D E G m := fun s hs => h s (hpp s hs)

theorem PL.modify {G : PUnit → Nat → Nat → Nat → Prop} {f : St α → St α}
    (hf : ∀ s, Pre N C D s → Pre N C D (f s)) (hpp : ∀ s, Pre N C D s → Post N C D s)
    (h : G ⟨⟩ N C D) : PL Pre Post N C D E G (modify f : SM α PUnit) :=
  fun s hs => ⟨N, C, D, Nat.le_refl _, Nat.le_refl _, Nat.le_refl _, hpp _ (hf s hs), h⟩

theorem PL.set {G : PUnit → Nat → Nat → Nat → Prop} {t : St α} (ht : Pre N C D t)
    (hpp : ∀ s, Pre N C D s → Post N C D s) (h : G ⟨⟩ N C D) :
    PL Pre Post N C D E G (set t : SM α PUnit) :=
  fun _ _ => ⟨N, C, D, Nat.le_refl _, Nat.le_refl _, Nat.le_refl _, hpp _ ht, h⟩

theorem PL.pure_bind {G : γ → Nat → Nat → Nat → Prop} {a : β} {f : β → SM α γ}
    (h : PL Pre Post N C D E G (f a)) : PL Pre Post N C D E G (Pure.pure a >>= f) := by
  rwa [LawfulMonad.pure_bind]

theorem PL.throw_bind {G : γ → Nat → Nat → Nat → Prop} {e : SErr α} {f : β → SM α γ}
    (h : E e) : PL Pre Post N C D E G ((MonadExcept.throw e : SM α β) >>= f) := by
  apply PL.intro; intro s _
  rw [run_bind]; exact h

/-- the triple `PW` of the heap invariant is `PL (W V) (W V)` -/
theorem PL.of_pw {V : Array (Vtx α)} {G : β → Nat → Nat → Nat → Prop} {m : SM α β}
    (h : PW V N C D E G m) : PL (W V) (W V) N C D E G m := by
  intro s hs
  cases hr : m.run s with
  | error e => exact h.err hs hr
  | ok p => obtain ⟨b, s1⟩ := p; exact h.ok hs hr

/-- forget the `SOk` part of the invariant -/
theorem PL.drop {r : List Nat} {V : Array (Vtx α)} {G : β → Nat → Nat → Nat → Prop} {m : SM α β}
    (h : PL (W V) Post N C D E G m) : PL (WS r V) Post N C D E G m :=
  PL.weaken_pre (fun _ hs => hs.1) h

/-- an allocating program that keeps `W` and does not touch the edge cells keeps `WS` -/
theorem PL.ws_of_pw {r : List Nat} {V : Array (Vtx α)} {G : β → Nat → Nat → Nat → Prop}
    {m : SM α β} (h : PW V N C D E G m)
    (hfr : ∀ s b s', m.run s = .ok (b, s') → s'.edges = s.edges) :
    PL (WS r V) (WS r V) N C D E G m := by
  intro s hs
  cases hr : m.run s with
  | error e => exact h.err hs.1 hr
  | ok p =>
    obtain ⟨b, s1⟩ := p
    obtain ⟨N', C', D', hN, hC, hD, hw, hg⟩ := h.ok hs.1 hr
    exact ⟨N', C', D', hN, hC, hD, ⟨hw, sOn_congr s s1 (hfr s b s1 hr) hs.2⟩, hg⟩

attribute [irreducible] PL

/-! ### automation -/

open Lean Meta Elab Tactic in
/-- looks up the lemma `f_wsa` (allocating program under `WS`) for the program of the goal -/
elab "wsa_lookup" : tactic => do
  let g ← getMainGoal
  let t := (← instantiateMVars (← g.getType)).consumeMData
  unless t.isApp do throwError "wsa_lookup: not an application"
  let prog := t.appArg!
  let .const c _ := prog.getAppFn | throwError "wsa_lookup: no head constant"
  let base := c.replacePrefix `Cav.Sweep .anonymous
  if base == c then throwError "wsa_lookup: not a model function"
  let str := (base.toString (escape := false)).replace "." "_"
  let id := mkIdent (Name.mkSimple (str ++ "_wsa"))
  evalTactic (← `(tactic| (apply $id <;> first | assumption | ws_side)))

open Lean Meta Elab Tactic in
/-- looks up the lemma `f_wn` (under `W`, no borrow panic) for the program of the goal -/
elab "wn_lookup" : tactic => do
  let g ← getMainGoal
  let t := (← instantiateMVars (← g.getType)).consumeMData
  unless t.isApp do throwError "wn_lookup: not an application"
  let prog := t.appArg!
  let .const c _ := prog.getAppFn | throwError "wn_lookup: no head constant"
  let base := c.replacePrefix `Cav.Sweep .anonymous
  if base == c then throwError "wn_lookup: not a model function"
  let str := (base.toString (escape := false)).replace "." "_"
  let id := mkIdent (Name.mkSimple (str ++ "_wn"))
  evalTactic (← `(tactic| (apply $id <;> first | assumption | ws_side)))

macro_rules | `(tactic| pres_prim) => `(tactic| wn_lookup)

open Lean Meta Elab Tactic in
/-- closes the goal with a hypothesis `∀ …, PL …` (induction hypothesis or join point) -/
elab "apply_pl_hyp" : tactic => do
  let g ← getMainGoal
  let others := (← getUnsolvedGoals).filter (· != g)
  g.withContext do
    for ld in (← getLCtx) do
      if ld.isImplementationDetail then continue
      let isPL ← forallTelescopeReducing ld.type fun _ body => do
        let body ← whnfR body
        return body.getAppFn.isConstOf ``PL
      if isPL then
        let saved ← saveState
        try
          let gs ← g.apply ld.toExpr
          setGoals gs
          evalTactic (← `(tactic| all_goals (first | assumption | omega)))
          let ok := (← getUnsolvedGoals).isEmpty
          if ok then
            setGoals others
            return
          else
            restoreState saved
        catch _ =>
          restoreState saved
    throwError "apply_pl_hyp: no hypothesis applies"

open Lean Meta Elab Tactic in
/-- Join points for `PL` goals.  A join point is inlined when its call sites are under a
    `match _[_]? with …` (the `r_edges[i]` look-ups) or under a `match` on two discriminants
    (the guard on the nesting partners in `handleStart`: the continuation needs the facts of the
    branch) or are the two branches of `if c then throw … else continue`; otherwise it is verified once, for all later sizes. -/
elab "pl_jp" : tactic => do
  let g ← getMainGoal
  g.withContext do
    let t := (← instantiateMVars (← g.getType)).consumeMData
    unless t.getAppFn.isConstOf ``PL do throwError "pl_jp: not a PL goal"
    let args := t.getAppArgs
    unless args.size == 10 do throwError "pl_jp: arity"
    let prog := args[9]!
    match prog with
    | .letE n ty v b _ =>
      let isJp ← forallTelescope ty fun xs r => do
        if xs.size == 0 then return false
        let progTy ← inferType prog
        isDefEq r progTy
      unless isJp do throwError "pl_jp: not a join point"
      let isIdx : Bool :=
        b.getAppFn.isConst && b.getAppArgs.any fun a => a.isAppOf ``GetElem?.getElem?
      let isTwo ← (do
        match b.getAppFn with
        | .const c _ =>
          match ← getMatcherInfo? c with
          | some info => pure (info.numDiscrs == 2)
          | none => pure false
        | _ => pure false)
      -- `if c then throw … >>= jp else jp ()`: a single live path, inlining is free
      let isGuardIf : Bool :=
        b.isAppOfArity ``ite 5 &&
          (let t := b.getAppArgs[3]!
           progClass t == `bind && t.getAppNumArgs == 6 && progClass t.getAppArgs[4]! == `throw)
      if isIdx || isTwo || isGuardIf then
        let g' ← mkFreshExprSyntheticOpaqueMVar (mkAppN t.getAppFn (args.set! 9 (b.instantiate1 v)))
        g.assign g'
        replaceMainGoal [g'.mvarId!]
      else
        let nat := mkConst ``Nat
        let okOf (f : Expr) : MetaM Expr :=
          withLocalDeclD `N' nat fun n' => withLocalDeclD `C' nat fun c' =>
          withLocalDeclD `D' nat fun d' => do
            let hN ← mkAppM ``LE.le #[args[4]!, n']
            let hC ← mkAppM ``LE.le #[args[5]!, c']
            let hD ← mkAppM ``LE.le #[args[6]!, d']
            let body ← forallTelescope ty fun xs _ => do
              let a := ((args.set! 4 n').set! 5 c').set! 6 d'
              mkForallFVars xs (mkAppN t.getAppFn (a.set! 9 (mkAppN f xs).headBeta))
            let body ← mkArrow hD body
            let body ← mkArrow hC body
            let body ← mkArrow hN body
            mkForallFVars #[n', c', d'] body
        let goal1Ty ← okOf v
        let goal2Ty ← withLocalDeclD n ty fun jp => do
          let hjpTy ← okOf jp
          withLocalDeclD `hjp hjpTy fun hjp => do
            mkForallFVars #[jp, hjp] (mkAppN t.getAppFn (args.set! 9 (b.instantiate1 jp)))
        let g1 ← mkFreshExprSyntheticOpaqueMVar goal1Ty
        let g2 ← mkFreshExprSyntheticOpaqueMVar goal2Ty
        g.assign (mkApp2 g2 v g1)
        replaceMainGoal [g1.mvarId!, g2.mvarId!]
    | _ => throwError "pl_jp: the program is not a `have`"

/-- `Pre → Post` at the end of a branch: identity or `WS → W` -/
macro "pl_post" : tactic => `(tactic| first
  | exact fun _ h => h
  | exact fun _ h => h.1
  | exact fun _ _ _ _ h => h
  | exact fun _ _ _ _ h => h.1)

/-- one step of the calculus -/
macro "pl_step" : tactic => `(tactic| first
  | pl_jp
  | jp_intro
  | (guard_prog pure; apply PL.pure; (· pl_post); (· ws_side))
  | (guard_prog throw; refine PL.throw ?_; ws_side)
  | (guard_bind_of throw; refine PL.throw_bind ?_; ws_side)
  | (guard_bind_of pure; refine PL.pure_bind ?_)
  | (guard_prog prim; apply PL.set; (· ws_side); (· pl_post); (· ws_side))
  | (guard_prog prim; apply PL.modify; (· intro _ _; ws_side); (· pl_post); (· ws_side))
  | (guard_prog prim; apply_pl_hyp)
  | (guard_bind_of prim; apply PL.bind_same; (· pres_prim))
  | (guard_bind_of prim; apply PL.bind; (· first | apply_pl_hyp | wsa_lookup | (apply PL.of_pw; wa_lookup)))
  | (guard_prog prim; apply PL.of_pres; (· pres_prim); (· pl_post); (· intros; ws_side))
  | (guard_prog prim; apply PL.mono; (· first | apply_pl_hyp | wsa_lookup | (apply PL.of_pw; wa_lookup));
      (· pl_post); (· intros; ws_side))
  | (guard_bind; apply PL.bind (G1 := fun _ _ _ _ => True))
  | intro_clean
  | split)

macro "pl_auto" : tactic => `(tactic| repeat pl_step)

/-! ### allocation under `WS` -/

variable [Num α] {r : List Nat} {V : Array (Vtx α)}

theorem newNode_wsa (p : Pt α) :
    PL (WS r V) (WS r V) N C D E (fun i N' C' D' => i = N ∧ N' = N + 1 ∧ C' = C ∧ D' = D)
      (newNode p : SM α _) :=
  PL.ws_of_pw (newNode_wa p) (by intro s b s' h; cases h; rfl)

theorem chainAppend_wsa (c : Chain) (hc : ChainOk N c) (p : Pt α) (b : Bool) :
    PL (WS r V) (WS r V) N C D E (fun c' N' C' D' => ChainOk N' c')
      (chainAppend c p b : SM α _) := by
  unfold chainAppend; pl_auto

/-! ### the handlers -/

theorem handleBend_nb (hE : OkErr E) (p : Pt α) (lp1 lp2 : Nat) (h1 : lp1 < V.size)
    (h2 : lp2 < V.size) (hr : ∀ e ∈ r, e < D) :
    PL (WS r V) (W V) N C D E (fun _ _ _ _ => True) (handleBend p lp1 lp2 r : SM α _) := by
  unfold handleBend; pl_auto


open Lean Meta Elab Tactic in
/-- succeeds iff at least `n` hypotheses mention `SOk` -/
elab "guard_sok " n:num : tactic => do
  let g ← getMainGoal
  g.withContext do
    let mut k := 0
    for ld in (← getLCtx) do
      if ld.isImplementationDetail then continue
      let ty ← instantiateMVars ld.type
      if (ty.find? fun e => e.isConstOf ``SOk).isSome then k := k + 1
    unless k ≥ n.getNat do throwError "guard_sok: only {k}"

/-- in `handleEnd`, once the cells of both registered edges have been read (for the gradients
    and as `b`, `t`), the `SOk` part of the invariant is no longer needed -/
macro "end_drop" : tactic => `(tactic| (guard_sok 4; refine PL.drop ?_))

theorem handleEnd_nb (hE : OkErr E) (p : Pt α) (hr : ∀ e ∈ r, e < D) :
    PL (WS r V) (W V) N C D E (fun _ _ _ _ => True) (handleEnd p r : SM α _) := by
  unfold handleEnd; repeat (first | end_drop | pl_step)


set_option maxHeartbeats 3200000 in
/-- the borrow check of `handleStart` repeats a guard that already threw `.overlap`: dead code
    (the `SOk` cells are not needed here) -/
theorem handleStart_nb (hE : OkErr E) (p : Pt α) (lp1 lp2 : Nat) (h1 : lp1 < V.size)
    (h2 : lp2 < V.size) :
    PL (WS r V) (W V) N C D E (fun _ _ _ _ => True) (handleStart p lp1 lp2 : SM α _) := by
  refine PL.drop ?_
  unfold handleStart; pl_auto

end Cav.SweepLinks
