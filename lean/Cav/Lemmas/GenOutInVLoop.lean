/-
  Tiling WITHOUT the hypothesis of distinct abscissae, part 3: every event keeps `XInvTV`
  (`xstepTV`), the event loop (`tloopV`), and the ghost triples of the result
  (`ghostV_of_shOK`): the triangles returned by the model are, in reverse order of emission, the
  sorted versions of the UNSHEARED images of clockwise triples `Tg` of SHEARED points whose measures
  add up, for every antisymmetric weight, to the signed weight of the SHEARED ring.
-/
import Cav.Lemmas.GenOutInVXBend
import Cav.Lemmas.GenOutInVXBendHi
import Cav.Lemmas.GenOutInVXClose
import Cav.Lemmas.GenOutInVXMerge
import Cav.Lemmas.GenOutInVXStart
import Cav.Lemmas.GenOutInVXSplit
import Cav.Lemmas.GenOutVLoop

set_option linter.unusedVariables false
set_option linter.unusedSimpArgs false

namespace Cav.GenOutInV
open Cav Num Cav.Geo Cav.Sweep Cav.SweepRun Cav.TriRun Cav.QuadRun Cav.QuadGeom Cav.SweepOut Cav.CvxEvents
open Cav.CvxLoop Cav.TriEvents Cav.GenNodes Cav.GenInv Cav.GenQueue Cav.GenOutShape Cav.GenOutDefs
open Cav.GenOutInv Cav.GenOutCount Cav.GenStep Cav.GenLoop Cav.GenOutLoop Cav.GenOutFinal Cav.GenRing
open Cav.GenSetup Cav.GenAccept Cav.SweepSetup Cav.MonoGeom
open Cav.GenVShear Cav.GenVBridge Cav.GenVInv Cav.GenVAccept Cav.GenVSetup
open Cav.GenOutV Cav.GenOutVX Cav.GenOutVStep Cav.GenOutVLoop Cav.GenOutIn
open Cav.GenGeom hiding Q

variable {R : RingQ} {ε : Rat} {Vε : Array (Vtx XQ)}

/-- **every event keeps the strengthened invariant**, equal abscissae and vertical edges allowed -/
theorem xstepTV (hSh : ShOK R ε Vε) {s : St XQ} {xs X : Rat} {ivs : List IV} {G : Nat → CH}
    (hT : XInvTV R ε s xs X ivs G)
    {w : Nat} {es : List Nat} {rest : List (Nat × List Nat)} (hev : s.events = (w, es) :: rest) :
    ∃ s' ivs' G', (handleNext : SM XQ Unit).run s = .ok ((), s') ∧
      XInvTV R ε s' ((shearRing ε R).x w) (R.x w) ivs' G' := by
  have hX := hT.base
  have hI := hX.inv
  have hR := hSh.ring
  have hN := hSh.nocross
  have hq := hI.q
  rw [hev] at hq
  have hwn : w < R.n := (hq.gt (w, es) List.mem_cons_self).1
  have hpn := hR.prv_lt w hwn
  have hnn := hR.nxt_lt w hwn
  have hp : (shearRing ε R).x (R.prv w) ≠ (shearRing ε R).x w := by
    intro e
    have e' := hR.distinct _ _ hpn hwn e
    have h1 := hR.nxt_prv w hwn
    rw [e'] at h1
    exact hR.ne w hwn (e'.trans h1.symm)
  have hn : (shearRing ε R).x (R.nxt w) ≠ (shearRing ε R).x w := by
    intro e
    have e' := hR.distinct _ _ hnn hwn e
    have h1 := hR.prv_nxt w hwn
    rw [e'] at h1
    exact hR.ne w hwn (h1.trans e'.symm)
  have bend : ∀ {u w' : Nat}, ((R.prv w = u ∧ R.nxt w = w') ∨ (R.prv w = w' ∧ R.nxt w = u)) →
      (shearRing ε R).x u < (shearRing ε R).x w → (shearRing ε R).x w < (shearRing ε R).x w' →
      ∃ s' ivs' G', (handleNext : SM XQ Unit).run s = .ok ((), s') ∧
        XInvTV R ε s' ((shearRing ε R).x w) (R.x w) ivs' G' := by
    intro u w' hnb hxu hxw'
    obtain ⟨pre, iv, post, rfl, hB | hB⟩ := stepW_bend_x hSh hI hev hnb hxu hxw'
    · obtain ⟨s', G', hr, hX'⟩ := xbendV_loT hSh hT hev hnb hxu hxw' hB
      exact ⟨s', _, G', hr, hX'⟩
    · obtain ⟨s', G', hr, hX'⟩ := xbendV_hiT hSh hT hev hnb hxu hxw' hB
      exact ⟨s', _, G', hr, hX'⟩
  have start : ∀ {wB wT : Nat}, ((R.prv w = wB ∧ R.nxt w = wT) ∨ (R.prv w = wT ∧ R.nxt w = wB)) →
      (shearRing ε R).x w < (shearRing ε R).x wB → (shearRing ε R).x w < (shearRing ε R).x wT →
      0 < orient ((shearRing ε R).pt w) ((shearRing ε R).pt wB) ((shearRing ε R).pt wT) →
      ∃ s' ivs' G', (handleNext : SM XQ Unit).run s = .ok ((), s') ∧
        XInvTV R ε s' ((shearRing ε R).x w) (R.x w) ivs' G' := by
    intro wB wT hnb hxB hxT ho
    rcases stepW_start_x hSh hI hev hnb hxB hxT ho with ⟨pre, post, rfl, hS⟩ | ⟨pre, iv, post, rfl, hS⟩
    · obtain ⟨s', G', hr, hX'⟩ := xstartV_properT hSh hT hev hnb hxB hxT ho hS
      exact ⟨s', _, G', hr, hX'⟩
    · obtain ⟨s', G', hr, hX'⟩ := xstartV_splitT hSh hT hev hnb hxB hxT ho hS
      exact ⟨s', _, G', hr, hX'⟩
  rcases lt_or_gt_of_ne hp with h0 | h0 <;> rcases lt_or_gt_of_ne hn with h1 | h1
  · rcases stepW_end_x hSh hI hev h0 h1 with ⟨pre, iv, post, rfl, hE⟩ | ⟨pre, iv1, iv2, post, rfl, hE⟩
    · obtain ⟨s', G', hr, hX'⟩ := xendV_closeT hSh hT hev h0 h1 hE
      exact ⟨s', _, G', hr, hX'⟩
    · obtain ⟨s', G', hr, hX'⟩ := xendV_mergeT hSh hT hev h0 h1 hE
      exact ⟨s', _, G', hr, hX'⟩
  · exact bend (Or.inl ⟨rfl, rfl⟩) h0 h1
  · exact bend (Or.inr ⟨rfl, rfl⟩) h1 h0
  · have hne : R.prv w ≠ R.nxt w := hR.ne w hwn
    rcases lt_trichotomy 0 (orient ((shearRing ε R).pt w) ((shearRing ε R).pt (R.prv w))
        ((shearRing ε R).pt (R.nxt w))) with ho | ho | ho
    · exact start (Or.inl ⟨rfl, rfl⟩) h0 h1 ho
    · exfalso
      rcases le_total ((shearRing ε R).x (R.prv w)) ((shearRing ε R).x (R.nxt w)) with hle | hle
      · exact fan_ne hN hwn hpn hnn (Or.inr rfl) (Or.inl rfl) hne h0 h1 hle ho.symm
      · apply fan_ne hN hwn hnn hpn (Or.inl rfl) (Or.inr rfl) (Ne.symm hne) h1 h0 hle
        show orient ((shearRing ε R).pt w) ((shearRing ε R).pt (R.nxt w)) ((shearRing ε R).pt (R.prv w)) = 0
        have := orient_swap ((shearRing ε R).pt w) ((shearRing ε R).pt (R.prv w)) ((shearRing ε R).pt (R.nxt w))
        linarith
    · refine start (Or.inr ⟨rfl, rfl⟩) h1 h0 ?_
      have := orient_swap ((shearRing ε R).pt w) ((shearRing ε R).pt (R.prv w)) ((shearRing ε R).pt (R.nxt w))
      linarith

/-- the ghost triples when the queue is empty -/
theorem xinvTV_final (hSh : ShOK R ε Vε) {s : St XQ} {xs X : Rat} {ivs : List IV} {G : Nat → CH}
    (hT : XInvTV R ε s xs X ivs G) (hev : s.events = []) :
    s.mono = true ∧ ∃ Tg : List (Q × Q × Q), s.out = Tg.map (sqU ε) ∧
      (∀ t ∈ Tg, orient t.1 t.2.1 t.2.2 < 0) ∧
      ∀ ω, AS ω → muSum ω Tg = areaW (shearRing ε R) ω := by
  have hI := hT.base.inv
  have hq := hI.q
  rw [hev] at hq
  obtain ⟨hE, hall⟩ := all_done hSh.ring hq hI.cross
  have hivs : ivs = [] := by
    cases ivs with
    | nil => rfl
    | cons a r => simp at hE
  subst hivs
  obtain ⟨Tg, h1, h2, h3⟩ := hT.gen
  refine ⟨hI.mono, Tg, h1, h2, fun ω hω => ?_⟩
  rw [h3 ω hω, wDoneW_right hSh.ring ω hall]
  simp

/-- **the event loop from a state with `XInvTV`** -/
theorem tloopV (hSh : ShOK R ε Vε) : ∀ (fuel : Nat) (s : St XQ) (xs X : Rat) (ivs : List IV)
    (G : Nat → CH), XInvTV R ε s xs X ivs G → meas (shearRing ε R) xs < fuel →
    ∃ s', (loop fuel).run s = .ok ((), s') ∧ s'.mono = true ∧
      ∃ Tg : List (Q × Q × Q), s'.out = Tg.map (sqU ε) ∧ (∀ t ∈ Tg, orient t.1 t.2.1 t.2.2 < 0) ∧
        ∀ ω, AS ω → muSum ω Tg = areaW (shearRing ε R) ω
  | 0, _, _, _, _, _, _, h => by omega
  | fuel + 1, s, xs, X, ivs, G, hT, hf => by
    rw [loop_succ_run]
    cases hev : s.events with
    | nil =>
      exact ⟨s, by simp, xinvTV_final hSh hT hev⟩
    | cons ev rest =>
      obtain ⟨w, es⟩ := ev
      obtain ⟨s1, ivs', G', hrun, hT'⟩ := xstepTV hSh hT hev
      have hq := hT.base.inv.q
      rw [hev] at hq
      have hwq := hq.gt (w, es) List.mem_cons_self
      have hm : meas (shearRing ε R) ((shearRing ε R).x w) < meas (shearRing ε R) xs :=
        meas_lt hwq.1 hwq.2
      obtain ⟨s', hl, hrest⟩ := tloopV hSh fuel s1 _ _ ivs' G' hT' (by omega)
      refine ⟨s', ?_, hrest⟩
      simp only [List.isEmpty_cons, Bool.false_eq_true, if_false, hrun]
      exact hl

/-- `XInvTV` holds after the set-up phase -/
theorem xinvTV_init (hSh : ShOK R ε Vε) {V : Array (Vtx XQ)} {evs : List (Nat × List Nat)} {xs X : Rat}
    (hI : InvV R ε (stQ V evs) xs X []) (hxs : ∀ v, v < R.n → xs < (shearRing ε R).x v) :
    XInvTV R ε (stQ V evs) xs X [] (fun _ => ⟨[], (0, (0, 0)), []⟩) := by
  refine ⟨xinvV_init hSh hI hxs, [], rfl, fun t h => (by cases h), fun ω hω => ?_⟩
  rw [wDoneW_left hSh.ring ω hxs]
  simp

/-- **the ghost triples of the result**, no hypothesis on the abscissae of the polygons -/
theorem ghostV_of_shOK (polys : List (Array (Rat × Rat))) (h3 : ∀ p ∈ polys, 3 ≤ p.size)
    (hSh : ShOK (ringOf polys) ε Vε) :
    ∃ Tg : List (Q × Q × Q),
      sweepMon (polys.map (fun p => p.map Fq)) = .ok ((Tg.map (sqU ε)).reverse, true) ∧
      (∀ t ∈ Tg, orient t.1 t.2.1 t.2.2 < 0) ∧
      ∀ ω, AS ω → muSum ω Tg = areaW (shearRing ε (ringOf polys)) ω := by
  obtain ⟨seen, evs, hset, hE⟩ := setupV_all polys h3 hSh
  obtain ⟨xs, hxs⟩ := exists_lt_all
    ((List.range (ringOf polys).n).map (shearRing ε (ringOf polys)).x)
  obtain ⟨X, hX⟩ := exists_lt_all ((List.range (ringOf polys).n).map (ringOf polys).x)
  have hxs' : ∀ v, v < (ringOf polys).n → xs < (shearRing ε (ringOf polys)).x v :=
    fun v hv => hxs _ (List.mem_map.mpr ⟨v, List.mem_range.mpr hv, rfl⟩)
  have hI : InvV (ringOf polys) ε (stQ (vertsOf (cellsAll 0 polys)) evs) xs X [] :=
    invV_init hSh (vget_vertsOf polys) hE hxs'
      (fun v hv => le_of_lt (hX _ (List.mem_map.mpr ⟨v, List.mem_range.mpr hv, rfl⟩)))
  obtain ⟨s', hl, hm, Tg, ho, hneg, hid⟩ := tloopV hSh ((ringOf polys).n + 1) _ xs X [] _
    (xinvTV_init hSh hI hxs') (Nat.lt_succ_of_le (meas_le xs))
  refine ⟨Tg, ?_, hneg, hid⟩
  unfold sweepMon
  rw [run_eq, hset]
  have hsz : (stQ (vertsOf (cellsAll 0 polys)) evs).verts.size = (ringOf polys).n := (vget_vertsOf polys).1
  simp only [hsz, hl, hm, ho]

end Cav.GenOutInV
