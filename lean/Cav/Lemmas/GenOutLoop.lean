/-
  Output of the sweep on general valid input, part 8: every event keeps the strengthened
  invariant (`xstep`), the event loop (`xloop`), and the final state: no in-interval is left, all
  vertices are processed, `out.length = triCountR R`, `areaSum out = areaR R`.
-/
import Cav.Lemmas.GenOutXBend
import Cav.Lemmas.GenOutXBendHi
import Cav.Lemmas.GenOutXClose
import Cav.Lemmas.GenOutXMerge
import Cav.Lemmas.GenOutXStart
import Cav.Lemmas.GenOutXSplit
import Cav.Lemmas.GenLoop

set_option linter.unusedVariables false
set_option linter.unusedSimpArgs false

namespace Cav.GenOutLoop
open Cav Num Cav.Geo Cav.Sweep Cav.TriRun Cav.QuadRun Cav.QuadGeom Cav.SweepOut Cav.CvxEvents Cav.CvxLoop
open Cav.TriEvents Cav.GenNodes Cav.GenInv Cav.GenQueue Cav.GenOutShape Cav.GenOutDefs Cav.GenOutInv
open Cav.GenOutCount Cav.GenStep Cav.GenLoop Cav.GenOutBend Cav.GenOutEnd Cav.GenOutStart
open Cav.GenOutXBend Cav.GenOutXEnd Cav.GenOutXStart
open Cav.GenGeom hiding Q

variable {R : RingQ}

/-- **every event keeps the strengthened invariant** -/
theorem xstep (hN : NoCross R) {s : St XQ} {xs : Rat} {ivs : List IV} {G : Nat → CH}
    (hX : XInv R s xs ivs G)
    {w : Nat} {es : List Nat} {rest : List (Nat × List Nat)} (hev : s.events = (w, es) :: rest) :
    ∃ s' ivs' G', (handleNext : SM XQ Unit).run s = .ok ((), s') ∧ XInv R s' (R.x w) ivs' G' := by
  have hI := hX.inv
  have hR := hI.ring
  have hq := hI.q
  rw [hev] at hq
  have hwn : w < R.n := (hq.gt (w, es) List.mem_cons_self).1
  have hpn := hR.prv_lt w hwn
  have hnn := hR.nxt_lt w hwn
  have hp : R.x (R.prv w) ≠ R.x w := by
    intro e
    have e' := hR.distinct _ _ hpn hwn e
    have h1 := hR.nxt_prv w hwn
    rw [e'] at h1
    exact hR.ne w hwn (e'.trans h1.symm)
  have hn : R.x (R.nxt w) ≠ R.x w := by
    intro e
    have e' := hR.distinct _ _ hnn hwn e
    have h1 := hR.prv_nxt w hwn
    rw [e'] at h1
    exact hR.ne w hwn (h1.trans e'.symm)
  have bend : ∀ {u w' : Nat}, ((R.prv w = u ∧ R.nxt w = w') ∨ (R.prv w = w' ∧ R.nxt w = u)) →
      R.x u < R.x w → R.x w < R.x w' →
      ∃ s' ivs' G', (handleNext : SM XQ Unit).run s = .ok ((), s') ∧ XInv R s' (R.x w) ivs' G' := by
    intro u w' hnb hxu hxw'
    obtain ⟨pre, iv, post, rfl, hB | hB⟩ := step_bend_x hN hI hev hnb hxu hxw'
    · obtain ⟨s', G', hr, hX'⟩ := xbend_lo hX hev hnb hxu hxw' hB
      exact ⟨s', _, G', hr, hX'⟩
    · obtain ⟨s', G', hr, hX'⟩ := xbend_hi hX hev hnb hxu hxw' hB
      exact ⟨s', _, G', hr, hX'⟩
  have start : ∀ {wB wT : Nat}, ((R.prv w = wB ∧ R.nxt w = wT) ∨ (R.prv w = wT ∧ R.nxt w = wB)) →
      R.x w < R.x wB → R.x w < R.x wT → 0 < orient (R.pt w) (R.pt wB) (R.pt wT) →
      ∃ s' ivs' G', (handleNext : SM XQ Unit).run s = .ok ((), s') ∧ XInv R s' (R.x w) ivs' G' := by
    intro wB wT hnb hxB hxT ho
    rcases step_start_x hN hI hev hnb hxB hxT ho with ⟨pre, post, rfl, hS⟩ | ⟨pre, iv, post, rfl, hS⟩
    · obtain ⟨s', G', hr, hX'⟩ := xstart_proper hX hev hnb hxB hxT ho hS
      exact ⟨s', _, G', hr, hX'⟩
    · obtain ⟨s', G', hr, hX'⟩ := xstart_split hX hev hnb hxB hxT ho hS
      exact ⟨s', _, G', hr, hX'⟩
  rcases lt_or_gt_of_ne hp with h0 | h0 <;> rcases lt_or_gt_of_ne hn with h1 | h1
  · rcases step_end_x hN hI hev h0 h1 with ⟨pre, iv, post, rfl, hE⟩ | ⟨pre, iv1, iv2, post, rfl, hE⟩
    · obtain ⟨s', G', hr, hX'⟩ := xend_close hX hev h0 h1 hE
      exact ⟨s', _, G', hr, hX'⟩
    · obtain ⟨s', G', hr, hX'⟩ := xend_merge hN hX hev h0 h1 hE
      exact ⟨s', _, G', hr, hX'⟩
  · exact bend (Or.inl ⟨rfl, rfl⟩) h0 h1
  · exact bend (Or.inr ⟨rfl, rfl⟩) h1 h0
  · have hne : R.prv w ≠ R.nxt w := hR.ne w hwn
    rcases lt_trichotomy 0 (orient (R.pt w) (R.pt (R.prv w)) (R.pt (R.nxt w))) with ho | ho | ho
    · exact start (Or.inl ⟨rfl, rfl⟩) h0 h1 ho
    · exfalso
      rcases le_total (R.x (R.prv w)) (R.x (R.nxt w)) with hle | hle
      · exact fan_ne hN hwn hpn hnn (Or.inr rfl) (Or.inl rfl) hne h0 h1 hle ho.symm
      · apply fan_ne hN hwn hnn hpn (Or.inl rfl) (Or.inr rfl) (Ne.symm hne) h1 h0 hle
        have := orient_swap (R.pt w) (R.pt (R.prv w)) (R.pt (R.nxt w))
        linarith
    · refine start (Or.inr ⟨rfl, rfl⟩) h1 h0 ?_
      have := orient_swap (R.pt w) (R.pt (R.prv w)) (R.pt (R.nxt w))
      linarith

/-- when the queue is empty every vertex has been processed -/
theorem all_done {V : Array (Vtx XQ)} (hR : RingOK R V) {xs : Rat} {E : List AE}
    (h : QCore R xs E []) (hc : Cross R xs E) : E = [] ∧ ∀ v, v < R.n → R.x v ≤ xs := by
  have hE : E = [] := by
    cases E with
    | nil => rfl
    | cons a r =>
      obtain ⟨es, hm⟩ := h.regAll a List.mem_cons_self
      cases hm
  subst hE
  refine ⟨rfl, ?_⟩
  have main : ∀ k v, v < R.n →
      (List.range R.n).countP (fun i => decide (R.x i < R.x v)) = k → xs < R.x v → False := by
    intro k
    induction k using Nat.strong_induction_on with
    | _ k ih =>
      intro v hv hk hx
      have hp := hR.prv_lt v hv
      have hn := hR.nxt_lt v hv
      have step : ∀ u, u < R.n → Adj R v u → R.x u < R.x v → False := by
        intro u hu hadj hux
        by_cases hus : R.x u ≤ xs
        · obtain ⟨a, ha, -⟩ := hc u v hu hv (adj_symm hR hv hadj) hus hx
          cases ha
        · have hus : xs < R.x u := not_le.mp hus
          have hcnt : (List.range R.n).countP (fun i => decide (R.x i < R.x u)) < k := by
            rw [← hk]
            apply SweepEvents.countP_lt_countP
            · intro i _ hi
              simp only [decide_eq_true_eq] at hi ⊢
              exact lt_trans hi hux
            · exact ⟨u, List.mem_range.mpr hu, by simpa using hux, by simp⟩
          exact ih _ hcnt u hu rfl hus
      by_cases hst : IsStart R v
      · obtain ⟨es', hm⟩ := h.starts v hv hx hst
        cases hm
      · unfold IsStart at hst
        rw [not_and_or] at hst
        rcases hst with hst | hst
        · have hne : R.x (R.prv v) ≠ R.x v := by
            intro he
            have := hR.distinct _ _ hp hv he
            have h2 := hR.nxt_prv v hv
            rw [this] at h2
            exact hR.ne v hv (this.trans h2.symm)
          exact step _ hp (Or.inr rfl) (lt_of_le_of_ne (not_lt.mp hst) hne)
        · have hne : R.x (R.nxt v) ≠ R.x v := by
            intro he
            have := hR.distinct _ _ hn hv he
            have h2 := hR.prv_nxt v hv
            rw [this] at h2
            exact hR.ne v hv (h2.trans this.symm)
          exact step _ hn (Or.inl rfl) (lt_of_le_of_ne (not_lt.mp hst) hne)
  intro v hv
  by_contra hx
  exact main _ v hv rfl (not_le.mp hx)

/-- what the strengthened invariant says when the queue is empty -/
theorem xinv_final {s : St XQ} {xs : Rat} {ivs : List IV} {G : Nat → CH} (hX : XInv R s xs ivs G)
    (hev : s.events = []) :
    s.mono = true ∧ s.out.length = triCountR R ∧ areaSum s.out = areaR R ∧ (∀ v, v < R.n → Coh R v) ∧
      (∀ v, v < R.n → (∀ u, u < R.n → R.x u ≤ R.x v) → vWeight R v = 0) ∧
      ∀ tr ∈ s.out, 0 < triArea tr := by
  have hI := hX.inv
  have hq := hI.q
  rw [hev] at hq
  obtain ⟨hE, hall⟩ := all_done hI.ring hq hI.cross
  have hivs : ivs = [] := by
    cases ivs with
    | nil => rfl
    | cons a r => simp at hE
  subst hivs
  obtain ⟨h1, h2⟩ := cnt_wDone_right hI.ring hall
  refine ⟨hI.mono, ?_, ?_, fun v hv => hX.coh v hv (hall v hv),
    fun v hv hmax => hX.fin rfl v hv (hall v hv) (fun u hu _ => hmax u hu), hX.posA⟩
  · have := hX.count
    simpa [h1] using this
  · have := hX.area
    simpa [h2] using this

/-- **the event loop from a state with the strengthened invariant** -/
theorem xloop (hN : NoCross R) : ∀ (fuel : Nat) (s : St XQ) (xs : Rat) (ivs : List IV) (G : Nat → CH),
    XInv R s xs ivs G → meas R xs < fuel →
    ∃ s', (loop fuel).run s = .ok ((), s') ∧ s'.mono = true ∧ s'.out.length = triCountR R ∧
      areaSum s'.out = areaR R ∧ (∀ v, v < R.n → Coh R v) ∧
      (∀ v, v < R.n → (∀ u, u < R.n → R.x u ≤ R.x v) → vWeight R v = 0) ∧
      ∀ tr ∈ s'.out, 0 < triArea tr
  | 0, _, _, _, _, _, h => by omega
  | fuel + 1, s, xs, ivs, G, hX, hf => by
    rw [loop_succ_run]
    cases hev : s.events with
    | nil =>
      exact ⟨s, by simp, xinv_final hX hev⟩
    | cons ev rest =>
      obtain ⟨w, es⟩ := ev
      obtain ⟨s1, ivs', G', hrun, hX'⟩ := xstep hN hX hev
      have hq := hX.inv.q
      rw [hev] at hq
      have hwq := hq.gt (w, es) List.mem_cons_self
      have hm : meas R (R.x w) < meas R xs := meas_lt hwq.1 hwq.2
      obtain ⟨s', hl, hrest⟩ := xloop hN fuel s1 (R.x w) ivs' G' hX' (by omega)
      refine ⟨s', ?_, hrest⟩
      simp only [List.isEmpty_cons, Bool.false_eq_true, if_false, hrun]
      exact hl

/-- the strengthened invariant holds after the set-up phase -/
theorem xinv_init {V : Array (Vtx XQ)} (hR : RingOK R V) {evs : List (Nat × List Nat)} {xs : Rat}
    (hI : Inv R (stQ V evs) xs []) (hxs : ∀ v, v < R.n → xs < R.x v) :
    XInv R (stQ V evs) xs [] (fun _ => ⟨[], (0, (0, 0)), []⟩) := by
  obtain ⟨h1, h2⟩ := cnt_wDone_left hR hxs
  refine ⟨hI, fun iv h => (by cases h), List.nodup_nil, fun iv h => (by cases h), ?_, ?_, ?_, ?_,
    fun tr h => (by simp [stQ] at h)⟩
  · simp [stQ, h1]
  · simp [stQ, h2, areaSum]
  · intro v hv hle
    exact absurd (hxs v hv) (not_lt.mpr hle)
  · intro _ v hv hle _
    exact absurd (hxs v hv) (not_lt.mpr hle)

end Cav.GenOutLoop
