/-
  General sweep invariant, part 2 (queries on an arbitrary heap): run lemmas for the programs that
  only read the state (`willOverlapBot/Top`, `searchPos`, `cmpAll`, `search`, `partialCmpEdge`)
  from an ARBITRARY state, in terms of the pure comparators `cmpEdgeP`, `cmpAtP` of the
  symbolic executor; the pure mirror of `eventsAdd`.
-/
import Cav.Lemmas.GenNodes
import Cav.Lemmas.QuadRun

set_option linter.unusedSimpArgs false
set_option linter.unusedVariables false
set_option linter.unusedSectionVars false

namespace Cav.GenQuery
open Cav Num Cav.Sweep Cav.SweepRun Cav.TriRun Cav.QuadRun Cav.GenNodes

variable {α : Type} [Num α]

theorem lpt_isSome {s : St α} {e : Edge α} {l : Pt α} (h : lpt? s e = some l) :
    (lpt? s e).isSome = true := by rw [h]; rfl

theorem lptD_eq {s : St α} {e : Edge α} {l : Pt α} (h : lpt? s e = some l) : lptD s e = l := by
  unfold lptD; rw [h]; rfl

/-! ### `willOverlapBot`, `willOverlapTop` -/

/-- pure mirror of the test of `willOverlapBot` -/
def wobP (le re lb rb : Pt α) : Bool :=
  if ofEq re.x rb.x then ofLt (yExtrap le re re.x true) (yExtrap lb rb re.x true)
  else cmpAtP le re lb rb (minTotal re.x rb.x) true != .gt

/-- pure mirror of the test of `willOverlapTop` -/
def wotP (le re lt rt : Pt α) : Bool :=
  if ofEq re.x rt.x then ofGt (yExtrap le re re.x true) (yExtrap lt rt re.x true)
  else cmpAtP le re lt rt (minTotal re.x rt.x) true != .lt

theorem run_wob_none (s : St α) (ei : Nat) (sb : Bool) (e : Edge α) (he : s.edges[ei]? = some e)
    (hb : e.bPart = none) : (willOverlapBot ei sb).run s = .ok (false, s) := by
  unfold willOverlapBot
  simp only [↓run_bind, run_getEdge, he, hb, run_pure]

theorem run_wot_none (s : St α) (ei : Nat) (sb : Bool) (e : Edge α) (he : s.edges[ei]? = some e)
    (hb : e.tPart = none) : (willOverlapTop ei sb).run s = .ok (false, s) := by
  unfold willOverlapTop
  simp only [↓run_bind, run_getEdge, he, hb, run_pure]

theorem run_wob_some (s : St α) (ei bi : Nat) (sb : Bool) (e bp : Edge α) (le lb : Pt α)
    (he : s.edges[ei]? = some e) (hb : e.bPart = some bi) (hne : bi ≠ ei)
    (hbp : s.edges[bi]? = some bp) (hle : lpt? s e = some le) (hlb : lpt? s bp = some lb) :
    (willOverlapBot ei sb).run s = .ok (wobP le e.rpt lb bp.rpt, s) := by
  unfold willOverlapBot wobP
  have hbeq : (bi == ei) = false := by simpa using hne
  simp only [↓run_bind, run_getEdge, he, hb, hbp, hbeq, Bool.and_false, Bool.false_eq_true, if_false,
    run_pure]
  by_cases hx : ofEq e.rpt.x bp.rpt.x = true
  · simp only [hx, if_true, ↓run_bind, run_yAt e _ _ s (lpt_isSome hle),
      run_yAt bp _ _ s (lpt_isSome hlb), run_pure, lptD_eq hle, lptD_eq hlb]
  · simp only [hx, Bool.false_eq_true, if_false, ↓run_bind,
      run_cmpAt e bp _ _ s (lpt_isSome hle) (lpt_isSome hlb), run_pure, lptD_eq hle, lptD_eq hlb]

theorem run_wot_some (s : St α) (ei ti : Nat) (sb : Bool) (e tp : Edge α) (le lt : Pt α)
    (he : s.edges[ei]? = some e) (hb : e.tPart = some ti) (hne : ti ≠ ei)
    (htp : s.edges[ti]? = some tp) (hle : lpt? s e = some le) (hlt : lpt? s tp = some lt) :
    (willOverlapTop ei sb).run s = .ok (wotP le e.rpt lt tp.rpt, s) := by
  unfold willOverlapTop wotP
  have hbeq : (ti == ei) = false := by simpa using hne
  simp only [↓run_bind, run_getEdge, he, hb, htp, hbeq, Bool.and_false, Bool.false_eq_true, if_false,
    run_pure]
  by_cases hx : ofEq e.rpt.x tp.rpt.x = true
  · simp only [hx, if_true, ↓run_bind, run_yAt e _ _ s (lpt_isSome hle),
      run_yAt tp _ _ s (lpt_isSome hlt), run_pure, lptD_eq hle, lptD_eq hlt]
  · simp only [hx, Bool.false_eq_true, if_false, ↓run_bind,
      run_cmpAt e tp _ _ s (lpt_isSome hle) (lpt_isSome hlt), run_pure, lptD_eq hle, lptD_eq hlt]

/-! ### ordered look-ups -/

/-- the geometry of the stored edge `k`: left point (read through its chain) and right point -/
def EG (s : St α) (k : Nat) (l r : Pt α) : Prop :=
  ∃ e, s.edges[k]? = some e ∧ lpt? s e = some l ∧ e.rpt = r

/-- the comparisons of a key with the stored edges `l` are `cs` -/
def Cmps (s : St α) (lk rk : Pt α) : List Nat → List Ordering → Prop
  | [], [] => True
  | k :: ks, c :: cs => (∃ l r, EG s k l r ∧ cmpEdgeP lk rk l r s.x = c) ∧ Cmps s lk rk ks cs
  | _, _ => False

theorem lpt_congr {s s' : St α} (h2 : s'.chains = s.chains) (h3 : s'.nodes = s.nodes) (e : Edge α) :
    lpt? s' e = lpt? s e := by
  unfold lpt?; rw [h2, h3]

theorem EG.congr {s s' : St α} (h1 : s'.edges = s.edges) (h2 : s'.chains = s.chains)
    (h3 : s'.nodes = s.nodes) {k : Nat} {l r : Pt α} (h : EG s k l r) : EG s' k l r := by
  obtain ⟨e, he, hl, hr⟩ := h
  exact ⟨e, by rw [h1]; exact he, by rw [lpt_congr h2 h3]; exact hl, hr⟩

theorem Cmps.congr {s s' : St α} (h1 : s'.edges = s.edges) (h2 : s'.chains = s.chains)
    (h3 : s'.nodes = s.nodes) (h4 : s'.x = s.x) {lk rk : Pt α} :
    ∀ {l : List Nat} {cs : List Ordering}, Cmps s lk rk l cs → Cmps s' lk rk l cs
  | [], [], _ => trivial
  | k :: ks, c :: cs, h => by
    obtain ⟨⟨l, r, hg, hc⟩, hrest⟩ := h
    exact ⟨⟨l, r, hg.congr h1 h2 h3, by rw [h4]; exact hc⟩, Cmps.congr h1 h2 h3 h4 hrest⟩
  | [], _ :: _, h => by cases h
  | _ :: _, [], h => by cases h

/-- result of the scan of `searchPos` on the comparison results -/
def posOf : List Ordering → Nat → Nat × Bool
  | [], i => (i, false)
  | .gt :: r, i => posOf r (i + 1)
  | .eq :: _, i => (i, true)
  | .lt :: _, i => (i, false)

theorem run_cmpEdge' (a b : Edge α) (s : St α) (la lb : Pt α) (ha : lpt? s a = some la)
    (hb : lpt? s b = some lb) :
    (cmpEdge a b).run s = .ok (cmpEdgeP la a.rpt lb b.rpt s.x, s) := by
  rw [run_cmpEdge a b s (lpt_isSome ha) (lpt_isSome hb), lptD_eq ha, lptD_eq hb]

theorem run_cmpAll (key : Edge α) (lk : Pt α) (s : St α) (hk : lpt? s key = some lk) :
    ∀ (l : List Nat) (cs : List Ordering), Cmps s lk key.rpt l cs →
      (cmpAll key l).run s = .ok (cs, s)
  | [], [], _ => rfl
  | k :: ks, c :: cs, h => by
    obtain ⟨⟨l, r, ⟨e, he, hl, hr⟩, hc⟩, hrest⟩ := h
    unfold cmpAll
    simp only [↓run_bind, run_getEdge, he, run_cmpEdge' key e s lk l hk hl, hr, hc,
      run_cmpAll key lk s hk ks cs hrest, run_pure]
  | [], _ :: _, h => by cases h
  | _ :: _, [], h => by cases h

theorem run_searchPos (key : Edge α) (lk : Pt α) (s : St α) (hk : lpt? s key = some lk) :
    ∀ (l : List Nat) (cs : List Ordering) (i : Nat), Cmps s lk key.rpt l cs →
      (searchPos key l i).run s = .ok (posOf cs i, s)
  | [], [], i, _ => rfl
  | k :: ks, c :: cs, i, h => by
    obtain ⟨⟨l, r, ⟨e, he, hl, hr⟩, hc⟩, hrest⟩ := h
    unfold searchPos
    simp only [↓run_bind, run_getEdge, he, run_cmpEdge' key e s lk l hk hl, hr, hc]
    cases c
    · simp only [posOf, run_pure]
    · simp only [posOf, run_pure]
    · simp only [posOf]
      exact run_searchPos key lk s hk ks cs (i + 1) hrest
  | [], _ :: _, _, h => by cases h
  | _ :: _, [], _, h => by cases h

/-- `search` from an arbitrary state: the result of the scan and the ghost flag -/
theorem run_search (key : Edge α) (lk : Pt α) (s : St α) (hk : lpt? s key = some lk)
    (l : List Nat) (cs : List Ordering) (h : Cmps s lk key.rpt l cs) :
    (search key l).run s = .ok (posOf cs 0, { s with mono := s.mono && isMono cs }) := by
  unfold search
  have hc := run_cmpAll key lk s hk l cs h
  have e1 : (noteMono key l).run s = .ok ((), { s with mono := s.mono && isMono cs }) := by
    rw [run_noteMono, hc]
  rw [run_bind, e1]
  have h' : Cmps { s with mono := s.mono && isMono cs } lk key.rpt l cs :=
    Cmps.congr (s := s) (s' := { s with mono := s.mono && isMono cs }) rfl rfl rfl rfl h
  exact run_searchPos key lk _ (by rw [lpt_congr rfl rfl]; exact hk) l cs 0 h'

/-! ### comparison lists of a sorted active list -/

theorem posOf_gt_lt (a : List Ordering) (b : List Ordering) (ha : ∀ c ∈ a, c = .gt)
    (hb : ∀ c ∈ b, c = .lt) (i : Nat) : posOf (a ++ b) i = (i + a.length, false) := by
  induction a generalizing i with
  | nil =>
    cases b with
    | nil => rfl
    | cons c b => have := hb c List.mem_cons_self; subst this; rfl
  | cons c a ih =>
    have := ha c List.mem_cons_self
    subst this
    simp only [List.cons_append, posOf, List.length_cons]
    rw [ih (fun c hc => ha c (List.mem_cons_of_mem _ hc))]
    congr 1; omega

theorem posOf_gt_eq (a : List Ordering) (b : List Ordering) (ha : ∀ c ∈ a, c = .gt) (i : Nat) :
    posOf (a ++ .eq :: b) i = (i + a.length, true) := by
  induction a generalizing i with
  | nil => rfl
  | cons c a ih =>
    have := ha c List.mem_cons_self
    subst this
    simp only [List.cons_append, posOf, List.length_cons]
    rw [ih (fun c hc => ha c (List.mem_cons_of_mem _ hc))]
    congr 1; omega

theorem all_lt_of (b : List Ordering) (hb : ∀ c ∈ b, c = .lt) : b.all (· == .lt) = true := by
  rw [List.all_eq_true]
  intro c hc
  rw [hb c hc]; rfl

theorem isMono_gt_lt (a b : List Ordering) (ha : ∀ c ∈ a, c = .gt) (hb : ∀ c ∈ b, c = .lt) :
    isMono (a ++ b) = true := by
  induction a with
  | nil =>
    cases b with
    | nil => rfl
    | cons c b =>
      have := hb c List.mem_cons_self; subst this
      exact all_lt_of b (fun c hc => hb c (List.mem_cons_of_mem _ hc))
  | cons c a ih =>
    have := ha c List.mem_cons_self; subst this
    exact ih (fun c hc => ha c (List.mem_cons_of_mem _ hc))

theorem isMono_gt_eq_lt (a b : List Ordering) (ha : ∀ c ∈ a, c = .gt) (hb : ∀ c ∈ b, c = .lt) :
    isMono (a ++ .eq :: b) = true := by
  induction a with
  | nil => exact all_lt_of b hb
  | cons c a ih =>
    have := ha c List.mem_cons_self; subst this
    exact ih (fun c hc => ha c (List.mem_cons_of_mem _ hc))

/-- comparison lists of a concatenation -/
theorem Cmps.append {s : St α} {lk rk : Pt α} : ∀ {l1 l2 : List Nat} {c1 c2 : List Ordering},
    Cmps s lk rk l1 c1 → Cmps s lk rk l2 c2 → Cmps s lk rk (l1 ++ l2) (c1 ++ c2)
  | [], _, [], _, _, h2 => h2
  | k :: ks, _, c :: cs, _, h1, h2 => ⟨h1.1, Cmps.append h1.2 h2⟩
  | [], _, _ :: _, _, h1, _ => by cases h1
  | _ :: _, _, [], _, h1, _ => by cases h1

/-- a constant comparison list -/
theorem Cmps.const {s : St α} {lk rk : Pt α} (c : Ordering) : ∀ (l : List Nat),
    (∀ k ∈ l, ∃ l' r, EG s k l' r ∧ cmpEdgeP lk rk l' r s.x = c) →
    Cmps s lk rk l (l.map fun _ => c)
  | [], _ => trivial
  | k :: ks, h => ⟨h k List.mem_cons_self, Cmps.const c ks (fun k' hk' => h k' (List.mem_cons_of_mem _ hk'))⟩

/-! ### `partialCmpEdge` -/

theorem run_partialCmpEdge' (a b : Edge α) (s : St α) (la lb : Pt α) (ha : lpt? s a = some la)
    (hb : lpt? s b = some lb) :
    (partialCmpEdge a b).run s = .ok (partialCmpEdgeP la a.rpt lb b.rpt s.x, s) := by
  rw [run_partialCmpEdge a b s (lpt_isSome ha) (lpt_isSome hb), lptD_eq ha, lptD_eq hb]

/-! ### `eventsAdd` -/

/-- pure mirror of `eventsAdd.go` on the vertex ring `V` -/
def evAdd (V : Array (Vtx α)) (p : Pt α) (vi ei : Nat) :
    List (Nat × List Nat) → List (Nat × List Nat)
  | [] => [(vi, [ei])]
  | (k, es) :: rest =>
    match V[k]? with
    | none => []
    | some v =>
      match p.cmp v.p with
      | .lt => (vi, [ei]) :: (k, es) :: rest
      | .eq => (k, es ++ [ei]) :: rest
      | .gt => (k, es) :: evAdd V p vi ei rest

theorem evAdd_keys (V : Array (Vtx α)) (p : Pt α) (vi ei : Nat) :
    ∀ (l : List (Nat × List Nat)) (a : Nat × List Nat), a ∈ evAdd V p vi ei l →
      a.1 = vi ∨ ∃ b ∈ l, b.1 = a.1
  | [], a, h => by
    simp only [evAdd, List.mem_singleton] at h
    exact Or.inl (by rw [h])
  | (k, es) :: rest, a, h => by
    unfold evAdd at h
    cases hv : V[k]? with
    | none => rw [hv] at h; cases h
    | some v =>
      rw [hv] at h
      simp only at h
      cases hc : p.cmp v.p with
      | lt =>
        rw [hc] at h
        rcases List.mem_cons.mp h with rfl | h
        · exact Or.inl rfl
        · exact Or.inr ⟨a, h, rfl⟩
      | eq =>
        rw [hc] at h
        rcases List.mem_cons.mp h with rfl | h
        · exact Or.inr ⟨(k, es), List.mem_cons_self, rfl⟩
        · exact Or.inr ⟨a, List.mem_cons_of_mem _ h, rfl⟩
      | gt =>
        rw [hc] at h
        rcases List.mem_cons.mp h with rfl | h
        · exact Or.inr ⟨(k, es), List.mem_cons_self, rfl⟩
        · rcases evAdd_keys V p vi ei rest a h with h' | ⟨b, hb, e⟩
          · exact Or.inl h'
          · exact Or.inr ⟨b, List.mem_cons_of_mem _ hb, e⟩

theorem run_eventsAdd_go (vi ei : Nat) (p : Pt α) (s : St α) :
    ∀ (l : List (Nat × List Nat)), (∀ a ∈ l, a.1 < s.verts.size) →
      (eventsAdd.go vi ei p l).run s = .ok (evAdd s.verts p vi ei l, s)
  | [], _ => rfl
  | (k, es) :: rest, h => by
    have hk : k < s.verts.size := h (k, es) List.mem_cons_self
    obtain ⟨v, hv⟩ := get_of_lt hk
    unfold eventsAdd.go evAdd
    simp only [↓run_bind, run_getVtx, hv, run_pure]
    cases p.cmp v.p
    · rfl
    · rfl
    · simp only [↓run_bind, run_eventsAdd_go vi ei p s rest
        (fun a ha => h a (List.mem_cons_of_mem _ ha)), run_pure]

theorem run_eventsAdd (vi ei : Nat) (s : St α) (v : Vtx α) (hv : s.verts[vi]? = some v)
    (h : ∀ a ∈ s.events, a.1 < s.verts.size) :
    (eventsAdd vi ei).run s = .ok ((), { s with events := evAdd s.verts v.p vi ei s.events }) := by
  unfold eventsAdd
  simp only [↓run_bind, run_get, run_getVtx, hv, run_eventsAdd_go vi ei v.p s s.events h,
    run_modify, run_pure]

end Cav.GenQuery
