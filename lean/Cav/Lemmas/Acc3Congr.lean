/-
  Helper lemmas for `Thm/C08Accuracy`: the triangle routine only evaluates its integrand at points
  of the (closed) triangle — every abscissa of every panel lies inside the panel, every panel of
  the outer run inside `[0,1]`, every panel of an inner run inside `[0, 1−s]`.  Hence two
  integrands that agree on the triangle give the same run (`gkTriangle_congr`), and the accuracy
  theorem only needs the integrand to be the polynomial ON the triangle
  (`gkTriangle_terms_accuracy_local`).
-/
import Cav.Lemmas.Acc3Tot

namespace Cav.Acc3
open Cav Num Cav.Acc2 Cav.C01 Cav.Quad2D Cav.C09Accuracy

/-- `x ∈ [lo, hi]` -/
def In (lo hi x : Rat) : Prop := lo ≤ x ∧ x ≤ hi

theorem denorm_in {lo hi a b x : Rat} (ha : In lo hi a) (hb : In lo hi b) (hx : -1 < x ∧ x < 1) :
    In lo hi (denorm a b x) := by
  have e : denorm a b x = a * ((1 - x) / 2) + b * ((1 + x) / 2) := by
    unfold denorm; rw [QuadTiling.two_eq]; ring
  have w1 : 0 ≤ (1 - x) / 2 := by linarith [hx.2]
  have w2 : 0 ≤ (1 + x) / 2 := by linarith [hx.1]
  rw [e]
  constructor
  · nlinarith [mul_nonneg (sub_nonneg.mpr ha.1) w1, mul_nonneg (sub_nonneg.mpr hb.1) w2]
  · nlinarith [mul_nonneg (sub_nonneg.mpr ha.2) w1, mul_nonneg (sub_nonneg.mpr hb.2) w2]

theorem mid_in {lo hi a b : Rat} (ha : In lo hi a) (hb : In lo hi b) :
    In lo hi ((a + b) / Num.two) := by
  rw [QuadTiling.two_eq]
  constructor
  · linarith [ha.1, hb.1]
  · linarith [ha.2, hb.2]

/-! ### the 1-D routine -/

theorem gkApprox_congr (f f' : Rat → Rat) (lo hi : Rat) (h : ∀ x, In lo hi x → f x = f' x)
    (a b : Rat) (ha : In lo hi a) (hb : In lo hi b) : gkApprox f a b = gkApprox f' a b := by
  unfold gkApprox symRule
  rw [unitRule_congr Gen.g10 (fun x => f (denorm a b x)) (fun x => f' (denorm a b x))
      (fun x hx => h _ (denorm_in ha hb (g10_unitNodes_in_unit x hx))),
    unitRule_congr Gen.k21 (fun x => f (denorm a b x)) (fun x => f' (denorm a b x))
      (fun x hx => h _ (denorm_in ha hb (k21_unitNodes_in_unit x hx)))]

theorem gk1dLoop_congr (f f' : Rat → Rat) (lo hi : Rat) (h : ∀ x, In lo hi x → f x = f' x)
    (tol : Rat) :
    ∀ (fuel : Nat) (accu : Rat) (set : List (Panel Rat)) (tr : List (Rat × Rat)),
      (∀ p ∈ set, In lo hi p.a ∧ In lo hi p.b) →
      gk1dLoop f tol fuel accu set tr = gk1dLoop f' tol fuel accu set tr := by
  intro fuel
  induction fuel with
  | zero => intro accu set tr _; rfl
  | succ n ih =>
    intro accu set tr hinv
    unfold gk1dLoop
    by_cases hn : Num.isNaN accu = true
    · simp only [hn, if_true]
    · by_cases hl : Num.lt accu tol = true
      · simp only [hn, hl, if_true, Bool.false_eq_true, if_false]
      · simp only [hn, hl, Bool.false_eq_true, if_false]
        cases hs : set.getLast? with
        | none => rfl
        | some iv =>
          simp only []
          have hiv := hinv iv (List.mem_of_getLast? hs)
          have hm := mid_in hiv.1 hiv.2
          by_cases hb : Num.bne iv.a iv.b = true
          · simp only [hb, if_true]
            rw [gkApprox_congr f f' lo hi h iv.a _ hiv.1 hm,
              gkApprox_congr f f' lo hi h _ iv.b hm hiv.2]
            apply ih
            intro p hp
            rcases QuadTiling.mem_setInsert (XQLaws.mem_setRemove hp) with rfl | hp
            · exact ⟨hm, hiv.2⟩
            · rcases QuadTiling.mem_setInsert hp with rfl | hp
              · exact ⟨hiv.1, hm⟩
              · exact hinv p hp
          · simp only [hb, Bool.false_eq_true, if_false]
            apply ih
            intro p hp
            exact hinv p (XQLaws.mem_setRemove hp)

theorem gk1d_congr (f f' : Rat → Rat) (a b : Rat)
    (h : ∀ x, In (min a b) (max a b) x → f x = f' x) (tol : Rat) (mi : Option Nat) :
    gk1d f a b tol mi = gk1d f' a b tol mi := by
  have ha : In (min a b) (max a b) a := ⟨min_le_left _ _, le_max_left _ _⟩
  have hb : In (min a b) (max a b) b := ⟨min_le_right _ _, le_max_right _ _⟩
  unfold gk1d
  by_cases hab : Num.beq a b = true
  · simp only [hab, if_true]
  · simp only [hab, Bool.false_eq_true, if_false]
    rw [gkApprox_congr f f' _ _ h a b ha hb]
    apply gk1dLoop_congr f f' _ _ h
    intro p hp
    rw [List.mem_singleton.mp hp]
    exact ⟨ha, hb⟩

/-! ### nested -/

theorem nested_go_congr (a b : Rat)
    (inner inner' : Rat → Except IntegErr (Rat × Rat) × InnerCall Rat) :
    ∀ (rest : List (Rat × Rat)) (s accu : Rat) (calls : List (InnerCall Rat)),
      (∀ nw ∈ rest, inner (-nw.1) = inner' (-nw.1) ∧ inner nw.1 = inner' nw.1) →
      nested.go a b inner rest s accu calls = nested.go a b inner' rest s accu calls := by
  intro rest
  induction rest with
  | nil => intro s accu calls _; rfl
  | cons p rest ih =>
    intro s accu calls hin
    obtain ⟨n, w⟩ := p
    have h1 := hin (n, w) List.mem_cons_self
    simp only [nested.go, h1.1, h1.2]
    cases (inner' (-n)).1 with
    | error e => rfl
    | ok nres =>
      cases (inner' n).1 with
      | error e => rfl
      | ok pres =>
        exact ih _ _ _ (fun nw hnw => hin nw (List.mem_cons_of_mem _ hnw))

/-- `nested` only looks at `f` through the inner runs at its unit nodes -/
theorem nested_congr (f f' : Rat → Rat → Rat) (a b : Rat) (iAB : Rat → Rat × Rat) (tol : Rat)
    (mi : Option Nat) (rule : List (Rat × Rat))
    (h : ∀ x ∈ unitNodes rule,
      gk1d (fun y => f (denorm a b x) y) (iAB (denorm a b x)).1 (iAB (denorm a b x)).2 tol mi =
        gk1d (fun y => f' (denorm a b x) y) (iAB (denorm a b x)).1 (iAB (denorm a b x)).2 tol mi) :
    nested f a b iAB tol mi rule = nested f' a b iAB tol mi rule := by
  cases rule with
  | nil => rfl
  | cons p rest =>
    obtain ⟨n0, w0⟩ := p
    rw [unitNodes_cons] at h
    simp only [nested, Num.beq, QuadTiling.zero_eq, decide_eq_true_eq]
    by_cases h0 : n0 = 0
    · simp only [h0, if_true, List.forall_mem_cons, forall_flatMap_iff] at h ⊢
      rw [h.1]
      cases (gk1d (fun y => f' (denorm a b 0) y) (iAB (denorm a b 0)).1 (iAB (denorm a b 0)).2
          tol mi).res with
      | error e => rfl
      | ok res =>
        simp only []
        apply nested_go_congr
        intro nw hnw
        simp only [(h.2 nw hnw).1, (h.2 nw hnw).2, and_self]
    · simp only [h0, if_false, forall_flatMap_iff] at h ⊢
      apply nested_go_congr
      intro nw hnw
      simp only [(h nw hnw).1, (h nw hnw).2, and_self]

/-! ### the 2-D routine on the unit simplex -/

/-- the inner bounds of the triangle routine -/
def simplexAB : Rat → Rat × Rat := fun u1 => (Num.zero, Num.one - u1)

/-- `f` and `f'` agree on the closed unit simplex `0 ≤ s`, `0 ≤ r`, `s + r ≤ 1` -/
def EqOnSimplex (f f' : Rat → Rat → Rat) : Prop :=
  ∀ s r : Rat, 0 ≤ s → 0 ≤ r → s + r ≤ 1 → f s r = f' s r

theorem inner_congr (f f' : Rat → Rat → Rat) (h : EqOnSimplex f f') (s : Rat) (hs : In 0 1 s)
    (tol : Rat) (mi : Option Nat) :
    gk1d (fun y => f s y) (simplexAB s).1 (simplexAB s).2 tol mi =
      gk1d (fun y => f' s y) (simplexAB s).1 (simplexAB s).2 tol mi := by
  apply gk1d_congr
  intro r hr
  simp only [simplexAB, QuadTiling.zero_eq, rone] at hr
  have h1 : (0 : Rat) ≤ 1 - s := by linarith [hs.2]
  rw [min_eq_left h1, max_eq_right h1] at hr
  exact h s r hs.1 hr.1 (by linarith [hr.2])

theorem gkApprox2_congr (f f' : Rat → Rat → Rat) (h : EqOnSimplex f f') (tol : Rat)
    (mi : Option Nat) (a b : Rat) (ha : In 0 1 a) (hb : In 0 1 b) :
    gkApprox2 f simplexAB tol mi a b = gkApprox2 f' simplexAB tol mi a b := by
  unfold gkApprox2
  rw [nested_congr f f' a b simplexAB _ mi Gen.g10
      (fun x hx => inner_congr f f' h _ (denorm_in ha hb (g10_unitNodes_in_unit x hx)) _ mi),
    nested_congr f f' a b simplexAB _ mi Gen.k21
      (fun x hx => inner_congr f f' h _ (denorm_in ha hb (k21_unitNodes_in_unit x hx)) _ mi)]

theorem gk2dLoop_congr (f f' : Rat → Rat → Rat) (h : EqOnSimplex f f') (tol : Rat)
    (mi : Option Nat) :
    ∀ (fuel : Nat) (accu : Rat) (set : List (Panel Rat))
      (tr : List (Rat × Rat × List (InnerCall Rat) × List (InnerCall Rat))),
      (∀ p ∈ set, In 0 1 p.a ∧ In 0 1 p.b) →
      gk2dLoop f simplexAB tol mi fuel accu set tr = gk2dLoop f' simplexAB tol mi fuel accu set tr := by
  intro fuel
  induction fuel with
  | zero => intro accu set tr _; rfl
  | succ n ih =>
    intro accu set tr hinv
    unfold gk2dLoop
    by_cases hn : Num.isNaN accu = true
    · simp only [hn, if_true]
    · by_cases hl : Num.lt accu tol = true
      · simp only [hn, hl, if_true, Bool.false_eq_true, if_false]
      · simp only [hn, hl, Bool.false_eq_true, if_false]
        cases hs : set.getLast? with
        | none => rfl
        | some iv =>
          simp only []
          have hiv := hinv iv (List.mem_of_getLast? hs)
          have hm := mid_in hiv.1 hiv.2
          by_cases hb : Num.bne iv.a iv.b = true
          · simp only [hb, if_true]
            rw [gkApprox2_congr f f' h tol mi iv.a _ hiv.1 hm,
              gkApprox2_congr f f' h tol mi _ iv.b hm hiv.2]
            cases (gkApprox2 f' simplexAB tol mi iv.a ((iv.a + iv.b) / Num.two)).1 with
            | error e => rfl
            | ok left =>
              cases (gkApprox2 f' simplexAB tol mi ((iv.a + iv.b) / Num.two) iv.b).1 with
              | error e => rfl
              | ok right =>
                simp only []
                apply ih
                intro p hp
                rcases QuadTiling.mem_setInsert (XQLaws.mem_setRemove hp) with rfl | hp
                · exact ⟨hm, hiv.2⟩
                · rcases QuadTiling.mem_setInsert hp with rfl | hp
                  · exact ⟨hiv.1, hm⟩
                  · exact hinv p hp
          · simp only [hb, Bool.false_eq_true, if_false]
            apply ih
            intro p hp
            exact hinv p (XQLaws.mem_setRemove hp)

theorem gk2d_simplex_congr (f f' : Rat → Rat → Rat) (h : EqOnSimplex f f') (tol : Rat)
    (mi : Option Nat) :
    gk2d f Num.zero Num.one simplexAB tol mi = gk2d f' Num.zero Num.one simplexAB tol mi := by
  have h0 : In 0 1 (Num.zero : Rat) := by rw [QuadTiling.zero_eq]; exact ⟨le_refl _, zero_le_one⟩
  have h1 : In 0 1 (Num.one : Rat) := by rw [rone]; exact ⟨zero_le_one, le_refl _⟩
  unfold gk2d
  by_cases hab : Num.beq (Num.zero : Rat) Num.one = true
  · simp only [hab, if_true]
  · simp only [hab, Bool.false_eq_true, if_false]
    rw [gkApprox2_congr f f' h tol mi _ _ h0 h1]
    cases (gkApprox2 f' simplexAB tol mi Num.zero Num.one).1 with
    | error e => rfl
    | ok va =>
      simp only []
      apply gk2dLoop_congr f f' h
      intro p hp
      rw [List.mem_singleton.mp hp]
      exact ⟨h0, h1⟩

/-! ### the triangle routine -/

/-- `P` holds at every point of the closed triangle `t` (barycentric coordinates
    `(1 − s − r, s, r)`) -/
def OnTri (t : (Rat × Rat) × (Rat × Rat) × (Rat × Rat)) (P : Rat → Rat → Prop) : Prop :=
  ∀ s r : Rat, 0 ≤ s → 0 ≤ r → s + r ≤ 1 →
    P ((1 - s - r) * t.1.1 + s * t.2.1.1 + r * t.2.2.1)
      ((1 - s - r) * t.1.2 + s * t.2.1.2 + r * t.2.2.2)

theorem OnTri.of_forall {t : (Rat × Rat) × (Rat × Rat) × (Rat × Rat)} {P : Rat → Rat → Prop}
    (h : ∀ x y, P x y) : OnTri t P := fun _ _ _ _ _ => h _ _

/-- **the triangle routine only looks at the integrand on the triangle** -/
theorem gkTriangle_congr (f f' : Rat → Rat → Rat) (t : (Rat × Rat) × (Rat × Rat) × (Rat × Rat))
    (h : OnTri t (fun x y => f x y = f' x y)) (tol : Rat) (mi : Option Nat) :
    gkTriangle f t tol mi = gkTriangle f' t tol mi := by
  unfold gkTriangle
  apply gk2d_simplex_congr
  intro s r hs hr hsr
  obtain ⟨p0, p1, p2⟩ := t
  show triFactor (p0, p1, p2) * f _ _ = triFactor (p0, p1, p2) * f' _ _
  rw [rone]
  rw [h s r hs hr hsr]

/-- `C09Accuracy.gkTriangle_poly_accuracy` with the integrand a polynomial of total degree ≤ 30
    ON THE TRIANGLE only -/
theorem gkTriangle_terms_accuracy_local (terms : List (Nat × Nat × Rat)) (hdeg : DegLe 30 terms)
    (f : Rat → Rat → Rat) (t : (Rat × Rat) × (Rat × Rat) × (Rat × Rat))
    (hf : OnTri t (fun x y => f x y = evalTerms terms x y)) (tol : Rat) (mi : Option Nat)
    (v e : Rat) (h : (gkTriangle f t tol mi).res = .ok (v, e)) :
    |v - triExactQ terms t| ≤ triBoundQ terms t ∧ e < tol ∧ 0 ≤ e := by
  rw [gkTriangle_congr f (evalTerms terms) t hf] at h
  exact gkTriangle_terms_accuracy terms hdeg _ (fun _ _ => rfl) t tol mi v e h

end Cav.Acc3
