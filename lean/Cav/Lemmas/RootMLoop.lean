/-
  Helper lemmas for `Thm/C11Mono` (completeness direction of C11 at the level of the sampling
  grid): which cells of the shifted grid the loop `splitLoop` visits, and what it does there.

  * `splitLoop_ok_inv_full`: the invariant lemma of `SplitL` with ALL branch tests handed over
  * `splitLoop_roots_kept`: the accumulator survives into a successful result
  * `signum_ne_iff_mul_neg`, `leftZero_false_of_ne`, `rightZero_false_of_ne`, `cellL_of_ne`,
    `cellR_of_ne`: a cell whose two grid ends have non-zero derivative is handled by the third
    (Brent / skip) branch, on the un-stepped ends
  * `splitLoop_reach`: a cell `k` whose LEFT grid end has non-zero derivative is visited (the loop
    cannot jump over it), unless an earlier Brent call failed
  * `splitLoop_at_change_ok`, `splitLoop_at_change_error`, `splitLoop_at_same`: what the visit does
  * `splitLoop_length_all_ne`: the number of points when no grid derivative vanishes
-/
import Cav.Lemmas.RootSplit

namespace Cav.C11Mono
open Cav Num Gen Cav.SplitL Cav.BrentL Cav.C13Split Cav.C11Roots

section Structural
variable {α : Type} [Num α]

/-- `SplitL.splitLoop_ok_inv` with the branch conditions of all four continuing branches -/
theorem splitLoop_ok_inv_full {f : AD α → AD α} {tol : α} {m : Nat} {xSign : α} {xv : Array α}
    {dfv : Array (α × α)} (P : Nat → List α → Prop)
    (h1 : ∀ i roots, P i roots → i < xv.size → leftZero f tol xv dfv i = true →
      P (i + 1) (xv.getD (i - 1) zero :: roots))
    (h2 : ∀ i roots, P i roots → i < xv.size → rightZero f tol xv dfv i = true →
      P (i + 2) (xv.getD i zero :: roots))
    (h3 : ∀ i roots r, P i roots → i < xv.size → ¬ leftZero f tol xv dfv i = true →
      ¬ rightZero f tol xv dfv i = true →
      Num.bne (signum (cellL f tol xSign xv dfv i).2) (signum (cellR f tol xSign xv dfv i).2) = true →
      findRootBrent (cellL f tol xSign xv dfv i).1 (cellR f tol xSign xv dfv i).1
        (fun x => D1.df f x) tol m = .ok r → P (i + 1) (r :: roots))
    (h4 : ∀ i roots, P i roots → i < xv.size → P (i + 1) roots) {res : List α} :
    ∀ (fuel i : Nat) (roots : List α), P i roots →
      splitLoop f tol m xSign xv dfv fuel i roots = .ok res →
      ∃ i' roots', P i' roots' ∧ res = roots'.reverse := by
  intro fuel
  induction fuel with
  | zero =>
    intro i roots hP h
    rw [splitLoop_zero] at h
    exact ⟨i, roots, hP, by cases h; rfl⟩
  | succ fuel ih =>
    intro i roots hP h
    rw [splitLoop_succ] at h
    by_cases hi : i < xv.size
    · rw [if_pos hi] at h
      by_cases c1 : leftZero f tol xv dfv i = true
      · rw [if_pos c1] at h
        exact ih _ _ (h1 i roots hP hi c1) h
      · rw [if_neg c1] at h
        by_cases c2 : rightZero f tol xv dfv i = true
        · rw [if_pos c2] at h
          exact ih _ _ (h2 i roots hP hi c2) h
        · rw [if_neg c2] at h
          by_cases c3 : Num.bne (signum (cellL f tol xSign xv dfv i).2)
              (signum (cellR f tol xSign xv dfv i).2) = true
          · rw [if_pos c3] at h
            cases hbr : findRootBrent (cellL f tol xSign xv dfv i).1 (cellR f tol xSign xv dfv i).1
                (fun x => D1.df f x) tol m with
            | ok r =>
              rw [hbr] at h
              exact ih _ _ (h3 i roots r hP hi c1 c2 c3 hbr) h
            | error e =>
              rw [hbr] at h
              cases h
          · rw [if_neg c3] at h
            exact ih _ _ (h4 i roots hP hi) h
    · rw [if_neg hi] at h
      exact ⟨i, roots, hP, by cases h; rfl⟩

/-- whatever is in the accumulator is in a successful result -/
theorem splitLoop_roots_kept (f : AD α → AD α) (tol : α) (m : Nat) (xSign : α) (xv : Array α)
    (dfv : Array (α × α)) (fuel i : Nat) (roots res : List α)
    (h : splitLoop f tol m xSign xv dfv fuel i roots = .ok res) : ∀ r ∈ roots, r ∈ res := by
  obtain ⟨i', roots', hP, rfl⟩ :=
    splitLoop_ok_inv (f := f) (tol := tol) (m := m) (xSign := xSign) (xv := xv) (dfv := dfv)
      (fun _ rs => ∀ r ∈ roots, r ∈ rs)
      (fun j rs hP _ r hr => List.mem_cons_of_mem _ (hP r hr))
      (fun j rs hP _ r hr => List.mem_cons_of_mem _ (hP r hr))
      (fun j rs r' hP _ _ r hr => List.mem_cons_of_mem _ (hP r hr))
      (fun j rs hP _ => hP)
      fuel i roots (fun r hr => hr) h
  intro r hr
  exact List.mem_reverse.mpr (hP r hr)

end Structural

/-! ## `Rat` -/

/-- for non-zero rationals: different `signum` iff the product is negative -/
theorem signum_ne_iff_mul_neg {a b : Rat} (ha : a ≠ 0) (hb : b ≠ 0) :
    Num.bne (signum a) (signum b) = true ↔ a * b < 0 := by
  rw [bne_iff, signum_rat, signum_rat]
  rcases lt_or_gt_of_ne ha with ha' | ha' <;> rcases lt_or_gt_of_ne hb with hb' | hb'
  · rw [if_pos ha', if_pos hb']
    have := mul_pos_of_neg_of_neg ha' hb'
    constructor
    · intro h; exact absurd rfl h
    · intro h; linarith
  · rw [if_pos ha', if_neg (not_lt.mpr (le_of_lt hb'))]
    have := mul_neg_of_neg_of_pos ha' hb'
    constructor
    · intro _; exact this
    · intro _; norm_num
  · rw [if_neg (not_lt.mpr (le_of_lt ha')), if_pos hb']
    have := mul_neg_of_pos_of_neg ha' hb'
    constructor
    · intro _; exact this
    · intro _; norm_num
  · rw [if_neg (not_lt.mpr (le_of_lt ha')), if_neg (not_lt.mpr (le_of_lt hb'))]
    have := mul_pos ha' hb'
    constructor
    · intro h; exact absurd rfl h
    · intro h; linarith

section Cell
variable (f : AD Rat → AD Rat) (tol σ : Rat) (m : Nat) (X : Array Rat)

/-- the derivative table of the model -/
abbrev tab : Array (Rat × Rat) := X.map (fun x => D1.fdf f x)

theorem leftZero_false_of_ne (i : Nat) (hi : i - 1 < X.size) (h : D1.df f (X.getD (i - 1) 0) ≠ 0) :
    ¬ leftZero f tol X (tab f X) i = true := fun hz => h (leftZero_rat f tol X i hi hz).1

theorem rightZero_false_of_ne (i : Nat) (hi : i < X.size) (h : D1.df f (X.getD i 0) ≠ 0) :
    ¬ rightZero f tol X (tab f X) i = true := fun hz => h (rightZero_rat f tol X i hi hz).1

/-- a non-zero derivative at the left grid end: the left bracket end is the grid point itself -/
theorem cellL_of_ne (i : Nat) (hi : i - 1 < X.size) (h : D1.df f (X.getD (i - 1) 0) ≠ 0) :
    cellL f tol σ X (tab f X) i = (X.getD (i - 1) 0, D1.df f (X.getD (i - 1) 0)) := by
  unfold cellL
  rw [dfv_getD f X (i - 1) hi, if_neg (by rw [beq_iff, zero_eq]; exact h), zero_eq]

theorem cellR_of_ne (i : Nat) (hi : i < X.size) (h : D1.df f (X.getD i 0) ≠ 0) :
    cellR f tol σ X (tab f X) i = (X.getD i 0, D1.df f (X.getD i 0)) := by
  unfold cellR
  rw [dfv_getD f X i hi, if_neg (by rw [beq_iff, zero_eq]; exact h), zero_eq]

/-- the Brent call that the loop makes for cell `j` (on the possibly stepped-off ends) -/
abbrev cellBrent (j : Nat) : Except SearchErr Rat :=
  findRootBrent (cellL f tol σ X (tab f X) j).1 (cellR f tol σ X (tab f X) j).1
    (fun x => D1.df f x) tol m

/-- **the loop cannot jump over a cell whose left grid end has non-zero derivative.**  Started at
    `i ≤ k` with enough fuel, the run equals a run started AT `k` (with a longer accumulator), or
    it has already stopped with the error of a failed Brent call of an earlier cell `j < k`. -/
theorem splitLoop_reach (k : Nat) (hk : k < X.size) (hL : D1.df f (X.getD (k - 1) 0) ≠ 0) :
    ∀ (fuel i : Nat) (roots : List Rat), 1 ≤ i → i ≤ k → k + 1 ≤ fuel + i →
      (∃ fuel' roots', splitLoop f tol m σ X (tab f X) fuel i roots =
          splitLoop f tol m σ X (tab f X) (fuel' + 1) k roots') ∨
      (∃ j e, i ≤ j ∧ j < k ∧ cellBrent f tol σ m X j = .error e ∧
        splitLoop f tol m σ X (tab f X) fuel i roots = .error (.root e)) := by
  intro fuel
  induction fuel with
  | zero => intro i roots _ h2 h3; omega
  | succ fuel ih =>
    intro i roots h1 h2 h3
    rcases Nat.eq_or_lt_of_le h2 with rfl | hlt
    · exact Or.inl ⟨fuel, roots, rfl⟩
    · have hi : i < X.size := by omega
      have lift : ∀ {i' roots'}, i ≤ i' →
          ((∃ fuel' roots'', splitLoop f tol m σ X (tab f X) fuel i' roots' =
              splitLoop f tol m σ X (tab f X) (fuel' + 1) k roots'') ∨
            (∃ j e, i' ≤ j ∧ j < k ∧ cellBrent f tol σ m X j = .error e ∧
              splitLoop f tol m σ X (tab f X) fuel i' roots' = .error (.root e))) →
          ∀ {lhs}, lhs = splitLoop f tol m σ X (tab f X) fuel i' roots' →
          ((∃ fuel' roots'', lhs = splitLoop f tol m σ X (tab f X) (fuel' + 1) k roots'') ∨
            (∃ j e, i ≤ j ∧ j < k ∧ cellBrent f tol σ m X j = .error e ∧ lhs = .error (.root e))) := by
        intro i' roots' hii hh lhs e
        rcases hh with ⟨a, b, hab⟩ | ⟨j, e', g1, g2, g3, g4⟩
        · exact Or.inl ⟨a, b, e.trans hab⟩
        · exact Or.inr ⟨j, e', by omega, g2, g3, e.trans g4⟩
      rw [splitLoop_succ, if_pos hi]
      by_cases c1 : leftZero f tol X (tab f X) i = true
      · rw [if_pos c1]
        exact lift (by omega) (ih (i + 1) _ (by omega) (by omega) (by omega)) rfl
      · rw [if_neg c1]
        by_cases c2 : rightZero f tol X (tab f X) i = true
        · rw [if_pos c2]
          have hne : i + 1 ≠ k := by
            intro e
            apply hL
            have : k - 1 = i := by omega
            rw [this]
            exact (rightZero_rat f tol X i hi c2).1
          exact lift (by omega) (ih (i + 2) _ (by omega) (by omega) (by omega)) rfl
        · rw [if_neg c2]
          by_cases c3 : Num.bne (signum (cellL f tol σ X (tab f X) i).2)
              (signum (cellR f tol σ X (tab f X) i).2) = true
          · rw [if_pos c3]
            cases hbr : findRootBrent (cellL f tol σ X (tab f X) i).1 (cellR f tol σ X (tab f X) i).1
                (fun x => D1.df f x) tol m with
            | ok r =>
              exact lift (by omega) (ih (i + 1) _ (by omega) (by omega) (by omega)) rfl
            | error e =>
              exact Or.inr ⟨i, e, le_refl _, hlt, hbr, rfl⟩
          · rw [if_neg c3]
            exact lift (by omega) (ih (i + 1) _ (by omega) (by omega) (by omega)) rfl

/-- the visit of a cell whose grid ends have derivatives of opposite strict sign: Brent is called
    on the two grid points; a result is recorded ... -/
theorem splitLoop_at_change_ok (k : Nat) (h1 : 1 ≤ k) (hk : k < X.size)
    (hs : D1.df f (X.getD (k - 1) 0) * D1.df f (X.getD k 0) < 0) (fuel : Nat) (roots : List Rat)
    (r : Rat)
    (hbr : findRootBrent (X.getD (k - 1) 0) (X.getD k 0) (fun x => D1.df f x) tol m = .ok r) :
    splitLoop f tol m σ X (tab f X) (fuel + 1) k roots =
      splitLoop f tol m σ X (tab f X) fuel (k + 1) (r :: roots) := by
  have hL : D1.df f (X.getD (k - 1) 0) ≠ 0 := by rintro e; rw [e, zero_mul] at hs; exact lt_irrefl _ hs
  have hR : D1.df f (X.getD k 0) ≠ 0 := by rintro e; rw [e, mul_zero] at hs; exact lt_irrefl _ hs
  rw [splitLoop_succ, if_pos hk, if_neg (leftZero_false_of_ne f tol X k (by omega) hL),
    if_neg (rightZero_false_of_ne f tol X k hk hR), cellL_of_ne f tol σ X k (by omega) hL,
    cellR_of_ne f tol σ X k hk hR, if_pos ((signum_ne_iff_mul_neg hL hR).mpr hs)]
  dsimp only
  rw [hbr]

/-- ... and an error is returned -/
theorem splitLoop_at_change_error (k : Nat) (h1 : 1 ≤ k) (hk : k < X.size)
    (hs : D1.df f (X.getD (k - 1) 0) * D1.df f (X.getD k 0) < 0) (fuel : Nat) (roots : List Rat)
    (e : SearchErr)
    (hbr : findRootBrent (X.getD (k - 1) 0) (X.getD k 0) (fun x => D1.df f x) tol m = .error e) :
    splitLoop f tol m σ X (tab f X) (fuel + 1) k roots = .error (.root e) := by
  have hL : D1.df f (X.getD (k - 1) 0) ≠ 0 := by rintro e; rw [e, zero_mul] at hs; exact lt_irrefl _ hs
  have hR : D1.df f (X.getD k 0) ≠ 0 := by rintro e; rw [e, mul_zero] at hs; exact lt_irrefl _ hs
  rw [splitLoop_succ, if_pos hk, if_neg (leftZero_false_of_ne f tol X k (by omega) hL),
    if_neg (rightZero_false_of_ne f tol X k hk hR), cellL_of_ne f tol σ X k (by omega) hL,
    cellR_of_ne f tol σ X k hk hR, if_pos ((signum_ne_iff_mul_neg hL hR).mpr hs)]
  dsimp only
  rw [hbr]

/-- the visit of a cell whose grid ends have derivatives of the same strict sign: nothing happens -/
theorem splitLoop_at_same (k : Nat) (h1 : 1 ≤ k) (hk : k < X.size)
    (hs : 0 < D1.df f (X.getD (k - 1) 0) * D1.df f (X.getD k 0)) (fuel : Nat) (roots : List Rat) :
    splitLoop f tol m σ X (tab f X) (fuel + 1) k roots =
      splitLoop f tol m σ X (tab f X) fuel (k + 1) roots := by
  have hL : D1.df f (X.getD (k - 1) 0) ≠ 0 := by rintro e; rw [e, zero_mul] at hs; exact lt_irrefl _ hs
  have hR : D1.df f (X.getD k 0) ≠ 0 := by rintro e; rw [e, mul_zero] at hs; exact lt_irrefl _ hs
  rw [splitLoop_succ, if_pos hk, if_neg (leftZero_false_of_ne f tol X k (by omega) hL),
    if_neg (rightZero_false_of_ne f tol X k hk hR), cellL_of_ne f tol σ X k (by omega) hL,
    cellR_of_ne f tol σ X k hk hR,
    if_neg (fun h => by have := (signum_ne_iff_mul_neg hL hR).mp h; linarith)]

/-- the cells `j ∈ [i, i + n)` whose grid ends have derivatives of opposite strict sign -/
def changeCells (i n : Nat) : List Nat :=
  (List.range' i n).filter (fun j => decide (D1.df f (X.getD (j - 1) 0) * D1.df f (X.getD j 0) < 0))

/-- no derivative of the table vanishes: one point per sign-change cell is appended -/
theorem splitLoop_length_all_ne (hne : ∀ j, j < X.size → D1.df f (X.getD j 0) ≠ 0) (res : List Rat) :
    ∀ (fuel i : Nat) (roots : List Rat), 1 ≤ i → X.size ≤ fuel + i →
      splitLoop f tol m σ X (tab f X) fuel i roots = .ok res →
      res.length = roots.length + (changeCells f X i (X.size - i)).length := by
  intro fuel
  induction fuel with
  | zero =>
    intro i roots _ h2 h
    rw [splitLoop_zero] at h
    cases h
    have : X.size - i = 0 := by omega
    simp [changeCells, this]
  | succ fuel ih =>
    intro i roots h1 h2 h
    by_cases hi : i < X.size
    · have hL := hne (i - 1) (by omega)
      have hR := hne i hi
      have hstep : X.size - i = (X.size - (i + 1)) + 1 := by omega
      have hcc : ∀ b : Bool, decide (D1.df f (X.getD (i - 1) 0) * D1.df f (X.getD i 0) < 0) = b →
          (changeCells f X i (X.size - i)).length =
            (if b then 1 else 0) + (changeCells f X (i + 1) (X.size - (i + 1))).length := by
        intro b hb
        unfold changeCells
        rw [hstep, List.range'_succ, List.filter_cons, hb]
        cases b
        · simp
        · simp; omega
      by_cases hs : D1.df f (X.getD (i - 1) 0) * D1.df f (X.getD i 0) < 0
      · cases hbr : findRootBrent (X.getD (i - 1) 0) (X.getD i 0) (fun x => D1.df f x) tol m with
        | ok r =>
          rw [splitLoop_at_change_ok f tol σ m X i h1 hi hs fuel roots r hbr] at h
          have := ih (i + 1) _ (by omega) (by omega) h
          rw [this, hcc true (by simpa using hs)]
          simp only [List.length_cons, if_true]
          omega
        | error e =>
          rw [splitLoop_at_change_error f tol σ m X i h1 hi hs fuel roots e hbr] at h; cases h
      · have hs' : 0 < D1.df f (X.getD (i - 1) 0) * D1.df f (X.getD i 0) :=
          lt_of_le_of_ne (not_lt.mp hs) (Ne.symm (mul_ne_zero hL hR))
        rw [splitLoop_at_same f tol σ m X i h1 hi hs'] at h
        have := ih (i + 1) _ (by omega) (by omega) h
        rw [this, hcc false (by simpa using hs)]
        simp
    · rw [splitLoop_succ, if_neg hi] at h
      cases h
      have : X.size - i = 0 := by omega
      simp [changeCells, this]

end Cell

end Cav.C11Mono
