/-
  What `nodeTriangulate` does to the state (C03): it only re-links nodes (points stored in the
  node heap never change) and every triangle it emits is `sort3` of three node points on which
  `clockwiseSign` answered `C`.
-/
import Cav.Lemmas.SweepRun

namespace Cav.SweepOut
open Cav Num Cav.Sweep Cav.SweepRun
variable {α : Type} [Num α]

/-- the point stored in node cell `i` -/
def ptAt (nodes : Array (Node α)) (i : Nat) : Option (Pt α) := (nodes[i]?).map (·.p)

/-- same size and the same point in every cell -/
def SamePts (a b : Array (Node α)) : Prop :=
  a.size = b.size ∧ ∀ i, ptAt a i = ptAt b i

omit [Num α] in
theorem SamePts.refl (a : Array (Node α)) : SamePts a a := ⟨rfl, fun _ => rfl⟩

omit [Num α] in
theorem SamePts.trans {a b c : Array (Node α)} (h1 : SamePts a b) (h2 : SamePts b c) : SamePts a c :=
  ⟨h1.1.trans h2.1, fun i => (h1.2 i).trans (h2.2 i)⟩

omit [Num α] in
theorem SamePts.symm {a b : Array (Node α)} (h : SamePts a b) : SamePts b a :=
  ⟨h.1.symm, fun i => (h.2 i).symm⟩

omit [Num α] in
/-- overwriting a cell with a node carrying the same point keeps all points -/
theorem samePts_set (a : Array (Node α)) (i : Nat) (n n' : Node α) (h : a[i]? = some n)
    (hp : n'.p = n.p) : SamePts (a.setIfInBounds i n') a := by
  refine ⟨by simp, fun j => ?_⟩
  unfold ptAt
  by_cases hij : i = j
  · subst hij
    have hi : i < a.size := by
      rcases Nat.lt_or_ge i a.size with h' | h'
      · exact h'
      · rw [Array.getElem?_eq_none h'] at h; cases h
    simp [Array.getElem?_setIfInBounds_self_of_lt hi, h, hp]
  · rw [Array.getElem?_setIfInBounds_ne hij]

/-- `t` is `sort3` of the points of three node cells that make a clockwise (`C`) turn -/
def IsCwTriple (nodes : Array (Node α)) (t : Pt α × Pt α × Pt α) : Prop :=
  ∃ i1 i2 i3 p1 p2 p3, ptAt nodes i1 = some p1 ∧ ptAt nodes i2 = some p2 ∧ ptAt nodes i3 = some p3 ∧
    clockwiseSign p1 p2 p3 = .c ∧ t = sort3 p1 p2 p3

theorem IsCwTriple.of_samePts {a b : Array (Node α)} (h : SamePts a b) {t : Pt α × Pt α × Pt α}
    (ht : IsCwTriple a t) : IsCwTriple b t := by
  obtain ⟨i1, i2, i3, p1, p2, p3, h1, h2, h3, hc, rfl⟩ := ht
  exact ⟨i1, i2, i3, p1, p2, p3, (h.2 i1) ▸ h1, (h.2 i2) ▸ h2, (h.2 i3) ▸ h3, hc, rfl⟩

/-- everything except the node links and the output is untouched -/
def SameRest (s s' : St α) : Prop :=
  s'.x = s.x ∧ s'.verts = s.verts ∧ s'.chains = s.chains ∧ s'.edges = s.edges ∧
    s'.active = s.active ∧ s'.events = s.events

/-- the part of one round of `nodeTriangulate` after the triple has been selected -/
def ntBody (from_ : Nat) (bw : Bool) (fuel : Nat) (trip : Option (Nat × Nat × Nat)) : SM α Unit :=
  match trip with
  | none => pure ()
  | some (i1, i2, i3) => do
    let p1 := (← getNode i1).p
    let p2 := (← getNode i2).p
    let p3 := (← getNode i3).p
    if clockwiseSign p1 p2 p3 == .c then
      let n1 ← getNode i1
      setNode i1 { n1 with next := some i3 }
      let n3 ← getNode i3
      setNode i3 { n3 with prev := some i1 }
      modify fun s => { s with out := sort3 p1 p2 p3 :: s.out }
      nodeTriangulate from_ bw fuel
    else pure ()

theorem nt_succ_ok (from_ : Nat) (bw : Bool) (fuel : Nat) (s s' : St α)
    (h : (nodeTriangulate from_ bw (fuel + 1)).run s = .ok ((), s')) :
    ∃ trip, (ntBody from_ bw fuel trip).run s = .ok ((), s') := by
  unfold nodeTriangulate at h
  cases bw
  · simp only [Bool.false_eq_true, if_false, bind_ok, getNode_ok] at h
    obtain ⟨n1, s1, ⟨hn1, rfl⟩, h⟩ := h
    split at h
    · exact ⟨none, h⟩
    · simp only [bind_ok, getNode_ok] at h
      obtain ⟨n2, s2, ⟨hn2, rfl⟩, h⟩ := h
      split at h
      · exact ⟨none, h⟩
      · exact ⟨some (_, _, _), h⟩
  · simp only [if_true, bind_ok, getNode_ok] at h
    obtain ⟨n1, s1, ⟨hn1, rfl⟩, h⟩ := h
    split at h
    · exact ⟨none, h⟩
    · simp only [bind_ok, getNode_ok] at h
      obtain ⟨n2, s2, ⟨hn2, rfl⟩, h⟩ := h
      split at h
      · exact ⟨none, h⟩
      · exact ⟨some (_, _, _), h⟩

/-- **C03**: `nodeTriangulate` prepends to `out` only `sort3`s of clockwise node triples, keeps
    every node point, and touches nothing else. -/
theorem nodeTriangulate_out (from_ : Nat) (bw : Bool) (fuel : Nat) (s s' : St α)
    (h : (nodeTriangulate from_ bw fuel).run s = .ok ((), s')) :
    ∃ new, s'.out = new ++ s.out ∧ (∀ t ∈ new, IsCwTriple s.nodes t) ∧
      SamePts s'.nodes s.nodes ∧ SameRest s s' := by
  induction fuel generalizing s with
  | zero =>
    unfold nodeTriangulate at h
    cases h
    exact ⟨[], rfl, by simp, SamePts.refl _, rfl, rfl, rfl, rfl, rfl, rfl⟩
  | succ fuel ih =>
    obtain ⟨trip, hb⟩ := nt_succ_ok from_ bw fuel s s' h
    clear h
    rcases trip with _ | ⟨i1, i2, i3⟩
    · cases hb
      exact ⟨[], rfl, by simp, SamePts.refl _, rfl, rfl, rfl, rfl, rfl, rfl⟩
    · simp only [ntBody, bind_ok, getNode_ok] at hb
      obtain ⟨n1, s0, ⟨h1, hs0⟩, n2, sb, ⟨h2, hsb⟩, n3, sc, ⟨h3, hsc⟩, hb⟩ := hb
      subst hsc hsb hs0
      split at hb
      · rename_i hc
        simp only [bind_ok, getNode_ok, run_setNode, run_modify, Except.ok.injEq, Prod.mk.injEq,
          true_and, exists_eq_left'] at hb
        obtain ⟨m1, sd, ⟨hm1, hsd⟩, u1, m3, se, ⟨hm3, hse⟩, u2, u3, hrec⟩ := hb
        subst hse hsd
        obtain ⟨new, hout, hnew, hpts, hrest⟩ := ih _ hrec
        have hA : SamePts (sd.nodes.setIfInBounds i1 { p := m1.p, prev := m1.prev, next := some i3 })
            sd.nodes := samePts_set _ _ m1 _ hm1 rfl
        have hB := samePts_set _ i3 m3 { p := m3.p, prev := some i1, next := m3.next } hm3 rfl
        have hAB := hB.trans hA
        refine ⟨new ++ [sort3 n1.p n2.p n3.p], ?_, ?_, hpts.trans hAB, hrest⟩
        · simpa using hout
        · intro t ht
          rcases List.mem_append.mp ht with ht | ht
          · exact (hnew t ht).of_samePts hAB
          · simp only [List.mem_singleton] at ht
            subst ht
            refine ⟨i1, i2, i3, n1.p, n2.p, n3.p, ?_, ?_, ?_, ?_, rfl⟩
            · simp [ptAt, h1]
            · simp [ptAt, h2]
            · simp [ptAt, h3]
            · simpa using hc
      · cases hb
        exact ⟨[], rfl, by simp, SamePts.refl _, rfl, rfl, rfl, rfl, rfl, rfl⟩

end Cav.SweepOut
