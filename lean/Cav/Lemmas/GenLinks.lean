/-
  General sweep invariant, part 9: lists of in-intervals and the linked cells — finding the
  in-interval of an active edge, replacing an in-interval in place, ids without duplicates.
-/
import Cav.Lemmas.GenStepBend

set_option linter.unusedSimpArgs false
set_option linter.unusedVariables false

namespace Cav.GenLinks
open Cav Num Cav.Geo Cav.Sweep Cav.TriRun Cav.QuadRun Cav.QuadGeom Cav.SweepOut
open Cav.GenNodes Cav.GenQuery Cav.GenGeom Cav.GenBend Cav.GenInv Cav.GenQueue Cav.GenOrder Cav.GenStepBend

variable {R : RingQ}

/-- the in-interval of an active edge -/
theorem mem_flatE {ivs : List IV} {a : AE} (h : a ∈ flatE ivs) :
    ∃ pre iv post, ivs = pre ++ iv :: post ∧ (a = iv.lo ∨ a = iv.hi) := by
  unfold flatE at h
  obtain ⟨iv, hiv, ha⟩ := List.mem_flatMap.mp h
  obtain ⟨pre, post, e⟩ := List.append_of_mem hiv
  refine ⟨pre, iv, post, e, ?_⟩
  simpa using ha

theorem lastHi_nil (b : Option Nat) : lastHi [] b = b := rfl
theorem lastHi_snoc (l : List IV) (iv : IV) (b : Option Nat) :
    lastHi (l ++ [iv]) b = some iv.hi.id := by
  rw [lastHi_append]; rfl

/-- `lastHi` is `b` on the empty list and the id of the upper edge of the last in-interval else -/
theorem lastHi_cases (l : List IV) (b : Option Nat) :
    (l = [] ∧ lastHi l b = b) ∨ ∃ l' iv, l = l' ++ [iv] ∧ lastHi l b = some iv.hi.id := by
  rcases List.eq_nil_or_concat l with rfl | ⟨l', iv, rfl⟩
  · exact Or.inl ⟨rfl, rfl⟩
  · right
    refine ⟨l', iv, List.concat_eq_append, ?_⟩
    rw [List.concat_eq_append, lastHi_snoc]

theorem nxtLo_cases (l : List IV) (a : Option Nat) :
    (l = [] ∧ nxtLo l a = a) ∨ ∃ iv l', l = iv :: l' ∧ nxtLo l a = some iv.lo.id := by
  cases l with
  | nil => exact Or.inl ⟨rfl, rfl⟩
  | cons iv l' => exact Or.inr ⟨iv, l', rfl, rfl⟩

/-- the stored ids of the active edges are pairwise different -/
theorem ids_nodup {xs : Rat} {L : List AE} (hP : L.Pairwise (Below R xs))
    (hid : ∀ a ∈ L, ∀ b ∈ L, a.id = b.id → a = b) : (L.map (·.id)).Nodup := by
  rw [List.nodup_map_iff_inj_on (nodup_of_pairwise_below hP)]
  intro a ha b hb e
  exact hid a ha b hb e

/-- replacing the in-interval `iv` by `iv'` with the same ids: the cells of the other
    in-intervals are framed, the three cells of `iv'` are given -/
theorem Linked.replace {s s' : St XQ} {pre post : List IV} {iv iv' : IV}
    (hl : Linked s R none (pre ++ iv :: post) none)
    (hlo : iv'.lo.id = iv.lo.id) (hhi : iv'.hi.id = iv.hi.id)
    (hfr : ∀ j ∈ pre ++ post, s'.edges[j.lo.id]? = s.edges[j.lo.id]? ∧
      s'.edges[j.hi.id]? = s.edges[j.hi.id]? ∧ s'.chains[j.ci]? = s.chains[j.ci]?)
    (hsz : s.nodes.size ≤ s'.nodes.size)
    (hpt : ∀ i, i < s.nodes.size → ptAt s'.nodes i = ptAt s.nodes i)
    (h1 : ECell s' R iv'.lo iv'.ci true (lastHi pre none) (some iv'.hi.id))
    (h2 : ECell s' R iv'.hi iv'.ci false (some iv'.lo.id) (nxtLo post none))
    (h3 : CCell s' R iv') :
    Linked s' R none (pre ++ iv' :: post) none := by
  rw [linked_append] at hl ⊢
  obtain ⟨hpre, -, -, -, hpost⟩ := hl
  refine ⟨?_, h1, h2, h3, ?_⟩
  · have : nxtLo (iv' :: post) none = nxtLo (iv :: post) none := by
      show some iv'.lo.id = some iv.lo.id
      rw [hlo]
    rw [this]
    exact Linked.frame (fun j hj => hfr j (List.mem_append_left _ hj)) hsz hpt hpre
  · rw [hhi]
    exact Linked.frame (fun j hj => hfr j (List.mem_append_right _ hj)) hsz hpt hpost

/-- the cells of an in-interval in the middle of the list -/
theorem Linked.mid {s : St XQ} {pre post : List IV} {iv : IV}
    (hl : Linked s R none (pre ++ iv :: post) none) :
    ECell s R iv.lo iv.ci true (lastHi pre none) (some iv.hi.id) ∧
      ECell s R iv.hi iv.ci false (some iv.lo.id) (nxtLo post none) ∧ CCell s R iv := by
  rw [linked_append] at hl
  exact ⟨hl.2.1, hl.2.2.1, hl.2.2.2.1⟩

end Cav.GenLinks
