/-
  The set-up loop of `triangulate_polygon_set` (`validPt`, `setupPolygon`, the polygon loop of
  `run`): a recursive reading of the `for` loops and the classification of the errors
  `.noPolygon`, `.nonFinite`, `.duplicate` (C15).
-/
import Cav.Lemmas.SweepNSE

set_option linter.unusedSectionVars false

namespace Cav.SweepSetup
open Cav Num Cav.Sweep Cav.SweepRun Cav.SweepHoare Cav.SweepNSE

variable {α : Type} [Num α]

/-- both coordinates pass `f64::is_finite` -/
def FinPt (p : Pt α) : Prop := (Num.isFinite p.x && Num.isFinite p.y) = true

instance (p : Pt α) : Decidable (FinPt p) := by unfold FinPt; exact inferInstance

/-! ### `validPt` -/

theorem validPt_nonFinite_iff (seen : List (Pt α)) (pt : Pt α) :
    validPt seen pt = .error .nonFinite ↔ ¬ FinPt pt := by
  unfold validPt FinPt
  by_cases h : (Num.isFinite pt.x && Num.isFinite pt.y) = true
  · simp only [h, if_true, not_true, iff_false]
    split <;> simp
  · simp [h]

theorem validPt_duplicate_iff (seen : List (Pt α)) (pt q : Pt α) :
    validPt seen pt = .error (.duplicate q) ↔
      q = pt ∧ FinPt pt ∧ ∃ s ∈ seen, s.eq pt = true := by
  unfold validPt FinPt
  by_cases h : (Num.isFinite pt.x && Num.isFinite pt.y) = true
  · simp only [h, if_true, true_and]
    by_cases h2 : seen.any (fun q => q.eq pt) = true
    · simp only [h2, if_true, Except.error.injEq, SErr.duplicate.injEq]
      rw [List.any_eq_true] at h2
      constructor
      · intro h'; exact ⟨h'.symm, h2⟩
      · intro h'; exact h'.1.symm
    · simp only [h2, Bool.false_eq_true, if_false]
      rw [List.any_eq_true] at h2
      simp [h2]
  · simp [h]

theorem validPt_ok_iff (seen seen' : List (Pt α)) (pt : Pt α) :
    validPt seen pt = .ok seen' ↔
      FinPt pt ∧ (∀ s ∈ seen, s.eq pt = false) ∧ seen' = pt :: seen := by
  unfold validPt FinPt
  by_cases h : (Num.isFinite pt.x && Num.isFinite pt.y) = true
  · simp only [h, if_true, true_and]
    by_cases h2 : seen.any (fun q => q.eq pt) = true
    · simp only [h2, if_true, reduceCtorEq, false_iff, not_and]
      rw [List.any_eq_true] at h2
      obtain ⟨s, hs, hse⟩ := h2
      intro hall; rw [hall s hs] at hse; cases hse
    · simp only [h2, Bool.false_eq_true, if_false, Except.ok.injEq]
      have : ∀ s ∈ seen, s.eq pt = false := by
        intro s hs
        cases hv : s.eq pt with
        | false => rfl
        | true => exact absurd (List.any_eq_true.mpr ⟨s, hs, hv⟩) h2
      constructor
      · intro h'; exact ⟨this, h'.symm⟩
      · intro h'; exact h'.2.symm
  · simp [h]

/-- `validPt` has exactly three outcomes -/
theorem validPt_cases (seen : List (Pt α)) (pt : Pt α) :
    validPt seen pt = .ok (pt :: seen) ∨ validPt seen pt = .error .nonFinite ∨
      validPt seen pt = .error (.duplicate pt) := by
  unfold validPt
  split
  · split
    · exact Or.inr (Or.inr rfl)
    · exact Or.inl rfl
  · exact Or.inr (Or.inl rfl)


/-! ### the vertex loop of `setupPolygon` -/

/-- one iteration of the set-up loop (same text as in `setupPolygon`) -/
def setupBody (poly : Array (Pt α)) (n base i : Nat) (seen0 : List (Pt α)) :
    SM α (ForInStep (List (Pt α))) := do
  let mut seen := seen0
  let pt := poly.getD i dummyPt
  match validPt seen pt with
  | .error e => throw e
  | .ok s' => seen := s'
  let prevP := poly.getD ((i + n - 1) % n) dummyPt
  let nextP := poly.getD ((i + 1) % n) dummyPt
  modify fun s => { s with verts := s.verts.push ⟨pt, base + (i + n - 1) % n, base + (i + 1) % n⟩ }
  match fromTriplet pt prevP nextP with
  | none => throw (.noPointType pt)
  | some .start => eventsInsertStart (base + i)
  | some _ => pure ()
  pure (.yield seen)

/-- `setupPolygon` is the size check followed by a left-to-right loop over the indices -/
theorem setupPolygon_eq (poly : Array (Pt α)) (seen : List (Pt α)) (s : St α) :
    (setupPolygon poly seen).run s =
      if poly.size < 3 then .error .noPolygon
      else (forIn (List.range' 0 poly.size 1) seen (setupBody poly poly.size s.verts.size)).run s := by
  unfold setupPolygon
  by_cases h : poly.size < 3
  · simp only [h, if_true]; rfl
  · simp only [h, if_false, Std.Legacy.Range.forIn_eq_forIn_range', Std.Legacy.Range.size]
    simp only [Nat.sub_zero, Nat.add_sub_cancel, Nat.div_one, bind_pure]
    rw [run_bind]
    rfl

theorem forIn_cons_run {ι σ : Type} (i : ι) (l : List ι) (b : σ) (f : ι → σ → SM α (ForInStep σ))
    (s : St α) :
    (forIn (i :: l) b f).run s =
      match (f i b).run s with
      | .ok (.yield b', s') => (forIn l b' f).run s'
      | .ok (.done b', s') => .ok (b', s')
      | .error e => .error e := by
  rw [List.forIn_cons, run_bind]
  cases h : (f i b).run s with
  | error e => rfl
  | ok p =>
    obtain ⟨r, s'⟩ := p
    cases r <;> rfl

theorem forIn_nil_run {ι σ : Type} (b : σ) (f : ι → σ → SM α (ForInStep σ)) (s : St α) :
    (forIn ([] : List ι) b f).run s = .ok (b, s) := rfl

/-- what one iteration does: either an error, or `yield (pt :: seen)` -/
theorem setupBody_run (poly : Array (Pt α)) (n base i : Nat) (seen : List (Pt α)) (s : St α) :
    (∃ e, (setupBody poly n base i seen).run s = .error e ∧
        (validPt seen (poly.getD i dummyPt) = .error e ∨
          (validPt seen (poly.getD i dummyPt) = .ok (poly.getD i dummyPt :: seen) ∧
            e ≠ .noPolygon ∧ e ≠ .nonFinite ∧ ∀ p, e ≠ .duplicate p))) ∨
    (∃ s', (setupBody poly n base i seen).run s = .ok (.yield (poly.getD i dummyPt :: seen), s') ∧
        validPt seen (poly.getD i dummyPt) = .ok (poly.getD i dummyPt :: seen)) := by
  unfold setupBody
  generalize poly.getD ((i + n - 1) % n) dummyPt = prevP
  generalize poly.getD ((i + 1) % n) dummyPt = nextP
  generalize poly.getD i dummyPt = pt
  rcases validPt_cases seen pt with hv | hv | hv
  · simp only [hv]
    cases hft : fromTriplet pt prevP nextP with
    | none =>
      left
      refine ⟨.noPointType pt, ?_, Or.inr ⟨trivial, ?_, ?_, ?_⟩⟩
      · simp only [run_bind, run_modify, run_throw]
      · simp
      · simp
      · simp
    | some k =>
      cases k with
      | start =>
        simp only [run_bind, run_modify]
        cases hev : (eventsInsertStart (base + i)).run
            { s with verts := s.verts.push ⟨pt, base + (i + n - 1) % n, base + (i + 1) % n⟩ } with
        | error e =>
          left
          exact ⟨e, rfl, Or.inr ⟨trivial, eventsInsertStart_error hev⟩⟩
        | ok r =>
          right
          exact ⟨r.2, rfl, trivial⟩
      | end_ =>
        right
        simp only [run_bind, run_modify]
        exact ⟨_, rfl, trivial⟩
      | bend =>
        right
        simp only [run_bind, run_modify]
        exact ⟨_, rfl, trivial⟩
  · left
    exact ⟨.nonFinite, by simp only [hv, run_bind, run_throw], Or.inl hv⟩
  · left
    exact ⟨.duplicate pt, by simp only [hv, run_bind, run_throw], Or.inl hv⟩


/-- classification of the outcome of a set-up loop that starts with the already discovered
    points `seen` (most recent first) and processes the points `pts` in order -/
def SetupPost (seen pts : List (Pt α)) : Except (SErr α) (List (Pt α) × St α) → Prop
  | .ok (seen', _) =>
      seen'.reverse = seen.reverse ++ pts ∧ (∀ p ∈ pts, FinPt p) ∧
        ∀ pre post p, pts = pre ++ p :: post → ∀ q ∈ seen.reverse ++ pre, q.eq p = false
  | .error .noPolygon => False
  | .error .nonFinite => ∃ p ∈ pts, ¬ FinPt p
  | .error (.duplicate p) =>
      FinPt p ∧ ∃ pre post q, pts = pre ++ p :: post ∧ q ∈ seen.reverse ++ pre ∧ q.eq p = true
  | .error _ => True

theorem SetupPost.nil (seen : List (Pt α)) (s : St α) : SetupPost seen [] (.ok (seen, s)) := by
  refine ⟨by simp, by simp, ?_⟩
  intro pre post p h
  cases pre <;> cases h

theorem SetupPost.cons {seen rest : List (Pt α)} {pt : Pt α}
    {r : Except (SErr α) (List (Pt α) × St α)}
    (hfin : FinPt pt) (hnew : ∀ s ∈ seen, s.eq pt = false) (h : SetupPost (pt :: seen) rest r) :
    SetupPost seen (pt :: rest) r := by
  match r, h with
  | .ok (seen', _), ⟨h1, h2, h3⟩ =>
    refine ⟨by simpa using h1, ?_, ?_⟩
    · intro p hp
      rcases List.mem_cons.mp hp with rfl | hp
      · exact hfin
      · exact h2 p hp
    · intro pre post p hsplit q hq
      cases pre with
      | nil =>
        simp only [List.nil_append, List.cons.injEq] at hsplit
        obtain ⟨rfl, -⟩ := hsplit
        simp only [List.append_nil, List.mem_reverse] at hq
        exact hnew q hq
      | cons a pre' =>
        simp only [List.cons_append, List.cons.injEq] at hsplit
        obtain ⟨rfl, hrest⟩ := hsplit
        apply h3 pre' post p hrest q
        simpa using hq
  | .error .noPolygon, h => exact h
  | .error .nonFinite, ⟨p, hp, hnf⟩ => exact ⟨p, List.mem_cons_of_mem _ hp, hnf⟩
  | .error (.duplicate p), ⟨hf, pre, post, q, hsplit, hq, he⟩ =>
    refine ⟨hf, pt :: pre, post, q, by simp [hsplit], ?_, he⟩
    simpa using hq
  | .error (.overlap _ _), _ => trivial
  | .error (.noPointType _), _ => trivial
  | .error (.panic _), _ => trivial
  | .error .oof, _ => trivial

/-- the loop over the indices `i, i+1, …, i+k-1` -/
theorem setupLoop_post (poly : Array (Pt α)) (n base : Nat) (k : Nat) :
    ∀ (i : Nat) (seen : List (Pt α)) (s : St α),
      SetupPost seen ((List.range' i k).map (fun j => poly.getD j dummyPt))
        ((forIn (List.range' i k 1) seen (setupBody poly n base)).run s) := by
  induction k with
  | zero => intro i seen s; exact SetupPost.nil seen s
  | succ k ih =>
    intro i seen s
    rw [List.range'_succ, forIn_cons_run, List.map_cons]
    rcases setupBody_run poly n base i seen s with ⟨e, he, hcase⟩ | ⟨s', hs', hv⟩
    · rw [he]
      rcases hcase with hv | ⟨-, h1, h2, h3⟩
      · rcases validPt_cases seen (poly.getD i dummyPt) with hv' | hv' | hv'
        · rw [hv'] at hv; cases hv
        · rw [hv'] at hv; cases hv
          exact ⟨_, List.mem_cons_self, (validPt_nonFinite_iff _ _).mp hv'⟩
        · rw [hv'] at hv; cases hv
          obtain ⟨-, hf, q, hq, hqe⟩ := (validPt_duplicate_iff _ _ _).mp hv'
          exact ⟨hf, [], _, q, rfl, by simpa using hq, hqe⟩
      · cases e with
        | noPolygon => exact absurd rfl h1
        | nonFinite => exact absurd rfl h2
        | duplicate p => exact absurd rfl (h3 p)
        | overlap _ _ => trivial
        | noPointType _ => trivial
        | panic _ => trivial
        | oof => trivial
    · rw [hs']
      obtain ⟨hf, hnew, -⟩ := (validPt_ok_iff _ _ _).mp hv
      exact SetupPost.cons hf hnew (ih (i + 1) _ s')

theorem range'_map_getD (poly : Array (Pt α)) :
    (List.range' 0 poly.size).map (fun j => poly.getD j dummyPt) = poly.toList := by
  apply List.ext_getElem
  · simp
  · intro i h1 h2
    simp at h1 h2
    simp [h2]

/-- classification of the outcome of `setupPolygon` -/
theorem setupPolygon_post (poly : Array (Pt α)) (seen : List (Pt α)) (s : St α) :
    (poly.size < 3 ∧ (setupPolygon poly seen).run s = .error .noPolygon) ∨
    (3 ≤ poly.size ∧ SetupPost seen poly.toList ((setupPolygon poly seen).run s)) := by
  rw [setupPolygon_eq]
  by_cases h : poly.size < 3
  · left; simp [h]
  · right
    simp only [h, if_false]
    refine ⟨Nat.le_of_not_lt h, ?_⟩
    have := setupLoop_post poly poly.size s.verts.size poly.size 0 seen s
    rwa [range'_map_getD] at this


/-! ### the polygon loop of `run` -/

/-- all input points in input order -/
def allPts (polys : List (Array (Pt α))) : List (Pt α) := polys.flatMap Array.toList

omit [Num α] in
@[simp] theorem allPts_nil : allPts ([] : List (Array (Pt α))) = [] := rfl
omit [Num α] in
@[simp] theorem allPts_cons (poly : Array (Pt α)) (rest : List (Array (Pt α))) :
    allPts (poly :: rest) = poly.toList ++ allPts rest := by
  simp [allPts]

theorem SetupPost.error_append {seen pts1 : List (Pt α)} (pts2 : List (Pt α)) {e : SErr α}
    (h : SetupPost seen pts1 (.error e)) : SetupPost seen (pts1 ++ pts2) (.error e) := by
  cases e with
  | noPolygon => exact h
  | nonFinite =>
    obtain ⟨p, hp, hnf⟩ := h
    exact ⟨p, List.mem_append_left _ hp, hnf⟩
  | duplicate p =>
    obtain ⟨hf, pre, post, q, hsplit, hq, he⟩ := h
    exact ⟨hf, pre, post ++ pts2, q, by simp [hsplit], hq, he⟩
  | overlap _ _ => trivial
  | noPointType _ => trivial
  | panic _ => trivial
  | oof => trivial

theorem SetupPost.append {seen seen1 pts1 pts2 : List (Pt α)} {s1 : St α}
    {r : Except (SErr α) (List (Pt α) × St α)}
    (h1 : SetupPost seen pts1 (.ok (seen1, s1))) (h2 : SetupPost seen1 pts2 r) :
    SetupPost seen (pts1 ++ pts2) r := by
  obtain ⟨e1, f1, d1⟩ := h1
  match r, h2 with
  | .ok (seen', _), ⟨e2, f2, d2⟩ =>
    refine ⟨by rw [e2, e1, List.append_assoc], ?_, ?_⟩
    · intro p hp
      rcases List.mem_append.mp hp with hp | hp
      · exact f1 p hp
      · exact f2 p hp
    · intro pre post p hsplit q hq
      rcases List.append_eq_append_iff.mp hsplit with ⟨a', ha1, ha2⟩ | ⟨c', hc1, hc2⟩
      · -- pre = pts1 ++ a', pts2 = a' ++ p :: post
        apply d2 a' post p ha2 q
        rw [e1]
        rw [ha1] at hq
        simpa [List.append_assoc] using hq
      · -- pts1 = pre ++ c', p :: post = c' ++ pts2
        cases c' with
        | nil =>
          simp only [List.nil_append] at hc2
          simp only [List.append_nil] at hc1
          apply d2 [] post p hc2.symm q
          rw [e1, hc1]
          simpa using hq
        | cons c cs =>
          simp only [List.cons_append, List.cons.injEq] at hc2
          obtain ⟨rfl, -⟩ := hc2
          exact d1 pre cs p hc1 q hq
  | .error .noPolygon, h => exact h
  | .error .nonFinite, ⟨p, hp, hnf⟩ => exact ⟨p, List.mem_append_right _ hp, hnf⟩
  | .error (.duplicate p), ⟨hf, pre, post, q, hsplit, hq, he⟩ =>
    refine ⟨hf, pts1 ++ pre, post, q, by simp [hsplit], ?_, he⟩
    rw [e1] at hq
    simpa [List.append_assoc] using hq
  | .error (.overlap _ _), _ => trivial
  | .error (.noPointType _), _ => trivial
  | .error (.panic _), _ => trivial
  | .error .oof, _ => trivial

/-- the body of the polygon loop of `run` -/
def polyBody (poly : Array (Pt α)) (seen : List (Pt α)) : SM α (ForInStep (List (Pt α))) := do
  let seen ← setupPolygon poly seen
  pure (.yield seen)

/-- classification of the outcome of the whole set-up phase -/
def PolysPost (seen : List (Pt α)) (polys : List (Array (Pt α))) :
    Except (SErr α) (List (Pt α) × St α) → Prop
  | .error .noPolygon => ∃ poly ∈ polys, poly.size < 3
  | .ok r => (∀ poly ∈ polys, 3 ≤ poly.size) ∧ SetupPost seen (allPts polys) (.ok r)
  | .error e => SetupPost seen (allPts polys) (.error e)

theorem polysLoop_post (polys : List (Array (Pt α))) :
    ∀ (seen : List (Pt α)) (s : St α),
      PolysPost seen polys ((forIn polys seen polyBody).run s) := by
  induction polys with
  | nil =>
    intro seen s
    exact ⟨by simp, SetupPost.nil seen s⟩
  | cons poly rest ih =>
    intro seen s
    rw [forIn_cons_run]
    have hb : (polyBody poly seen).run s =
        match (setupPolygon poly seen).run s with
        | .ok (seen', s') => .ok (.yield seen', s')
        | .error e => .error e := by
      unfold polyBody
      rw [run_bind]
      cases (setupPolygon poly seen).run s with
      | error e => rfl
      | ok r => rfl
    rw [hb]
    rcases setupPolygon_post poly seen s with ⟨hlt, herr⟩ | ⟨hge, hpost⟩
    · rw [herr]
      exact ⟨poly, List.mem_cons_self, hlt⟩
    · cases hr : (setupPolygon poly seen).run s with
      | error e =>
        rw [hr] at hpost
        have := SetupPost.error_append (allPts rest) hpost
        cases e with
        | noPolygon => exact absurd this (by simp [SetupPost])
        | nonFinite => exact this
        | duplicate p => exact this
        | overlap _ _ => trivial
        | noPointType _ => trivial
        | panic _ => trivial
        | oof => trivial
      | ok r =>
        obtain ⟨seen1, s1⟩ := r
        rw [hr] at hpost
        have h2 := ih seen1 s1
        show PolysPost seen (poly :: rest) ((forIn rest seen1 polyBody).run s1)
        cases hr2 : (forIn rest seen1 polyBody).run s1 with
        | ok r2 =>
          rw [hr2] at h2
          obtain ⟨hsz, hp2⟩ := h2
          refine ⟨?_, SetupPost.append hpost hp2⟩
          intro q hq
          rcases List.mem_cons.mp hq with rfl | hq
          · exact hge
          · exact hsz q hq
        | error e =>
          rw [hr2] at h2
          cases e with
          | noPolygon =>
            obtain ⟨q, hq, hlt⟩ := h2
            exact ⟨q, List.mem_cons_of_mem _ hq, hlt⟩
          | nonFinite =>
            have h2' : SetupPost seen1 (allPts rest)
              (.error .nonFinite : Except (SErr α) (List (Pt α) × St α)) := h2
            exact SetupPost.append hpost h2'
          | duplicate p =>
            have h2' : SetupPost seen1 (allPts rest)
              (.error (.duplicate p) : Except (SErr α) (List (Pt α) × St α)) := h2
            exact SetupPost.append hpost h2'
          | overlap _ _ => trivial
          | noPointType _ => trivial
          | panic _ => trivial
          | oof => trivial

/-- `run` is the polygon loop followed by the event loop -/
theorem run_eq (polys : List (Array (Pt α))) (s : St α) :
    (Sweep.run polys).run s =
      match (forIn polys ([] : List (Pt α)) polyBody).run s with
      | .ok (_, s1) => (loop (s1.verts.size + 1)).run s1
      | .error e => .error e := by
  unfold Sweep.run
  rw [run_bind]
  have : (forIn polys ([] : List (Pt α)) fun poly __s => do
      let seen ← setupPolygon poly __s
      pure (ForInStep.yield seen)) = forIn polys ([] : List (Pt α)) polyBody := rfl
  rw [this]
  cases (forIn polys ([] : List (Pt α)) polyBody).run s with
  | error e => rfl
  | ok r => rfl


/-- an error of `sweep` comes from the set-up phase or from the event loop -/
theorem sweep_error {polys : List (Array (Pt α))} {e : SErr α} (h : sweep polys = .error e) :
    (forIn polys ([] : List (Pt α)) polyBody).run (initSt : St α) = .error e ∨
      ∃ fuel s1, (loop fuel).run (s1 : St α) = .error e := by
  unfold sweep at h
  rw [run_eq] at h
  cases hs : (forIn polys ([] : List (Pt α)) polyBody).run (initSt : St α) with
  | error e' =>
    rw [hs] at h
    simp only [Except.error.injEq] at h
    exact Or.inl (by rw [h])
  | ok r =>
    rw [hs] at h
    right
    refine ⟨r.2.verts.size + 1, r.2, ?_⟩
    cases hl : (loop (r.2.verts.size + 1)).run r.2 with
    | error e' =>
      simp only [hl] at h
      simp only [Except.error.injEq] at h
      rw [h]
    | ok r' => simp only [hl] at h; cases h

theorem sweep_setup_error {polys : List (Array (Pt α))} {e : SErr α}
    (he : e = .noPolygon ∨ e = .nonFinite ∨ ∃ p, e = .duplicate p) (h : sweep polys = .error e) :
    PolysPost [] polys (.error e : Except (SErr α) (List (Pt α) × St α)) := by
  rcases sweep_error h with h1 | ⟨fuel, s1, h1⟩
  · have := polysLoop_post polys [] (initSt : St α)
    rwa [h1] at this
  · obtain ⟨a, b, c⟩ := loop_error h1
    rcases he with rfl | rfl | ⟨p, rfl⟩
    · exact absurd rfl a
    · exact absurd rfl b
    · exact absurd rfl (c p)

theorem sweep_noPolygon {polys : List (Array (Pt α))} (h : sweep polys = .error .noPolygon) :
    ∃ poly ∈ polys, poly.size < 3 :=
  sweep_setup_error (Or.inl rfl) h

theorem sweep_nonFinite {polys : List (Array (Pt α))} (h : sweep polys = .error .nonFinite) :
    ∃ poly ∈ polys, ∃ p ∈ poly.toList, ¬ FinPt p := by
  obtain ⟨p, hp, hnf⟩ := sweep_setup_error (Or.inr (Or.inl rfl)) h
  obtain ⟨poly, hpoly, hpp⟩ := List.mem_flatMap.mp hp
  exact ⟨poly, hpoly, p, hpp, hnf⟩

theorem sweep_duplicate {polys : List (Array (Pt α))} {p : Pt α}
    (h : sweep polys = .error (.duplicate p)) :
    FinPt p ∧ ∃ pre post q, allPts polys = pre ++ p :: post ∧ q ∈ pre ∧ q.eq p = true := by
  obtain ⟨hf, pre, post, q, hsplit, hq, he⟩ := sweep_setup_error (Or.inr (Or.inr ⟨p, rfl⟩)) h
  exact ⟨hf, pre, post, q, hsplit, by simpa using hq, he⟩

theorem sweep_nil : sweep ([] : List (Array (Pt α))) = .ok [] := by
  unfold sweep
  rw [run_eq, forIn_nil_run]
  rfl

/-- completeness, first polygon: too few vertices -/
theorem sweep_first_small (poly : Array (Pt α)) (rest : List (Array (Pt α)))
    (h : poly.size < 3) : sweep (poly :: rest) = .error .noPolygon := by
  unfold sweep
  rw [run_eq, forIn_cons_run]
  have : (polyBody poly []).run (initSt : St α) = .error .noPolygon := by
    unfold polyBody
    rw [run_bind, setupPolygon_eq]
    simp [h]
  rw [this]

/-- completeness, first polygon: first vertex not finite -/
theorem sweep_first_nonFinite (poly : Array (Pt α)) (rest : List (Array (Pt α)))
    (h : 3 ≤ poly.size) (hnf : ¬ FinPt (poly.getD 0 dummyPt)) :
    sweep (poly :: rest) = .error .nonFinite := by
  unfold sweep
  rw [run_eq, forIn_cons_run]
  have : (polyBody poly []).run (initSt : St α) = .error .nonFinite := by
    unfold polyBody
    rw [run_bind, setupPolygon_eq]
    have h3 : ¬ poly.size < 3 := Nat.not_lt.mpr h
    simp only [h3, if_false]
    obtain ⟨k, hk⟩ : ∃ k, poly.size = k + 1 := ⟨poly.size - 1, by omega⟩
    rw [hk, List.range'_succ, forIn_cons_run]
    have hv := (validPt_nonFinite_iff ([] : List (Pt α)) (poly.getD 0 dummyPt)).mpr hnf
    rcases setupBody_run poly (k + 1) (initSt : St α).verts.size 0 [] (initSt : St α) with
      ⟨e, he, hcase⟩ | ⟨s', hs', hv'⟩
    · rw [he]
      rcases hcase with hv' | ⟨hv', -⟩
      · rw [hv] at hv'; cases hv'; rfl
      · rw [hv] at hv'; cases hv'
    · rw [hv] at hv'; cases hv'
  rw [this]


/-- a successful run has validated its whole input: every polygon has at least three vertices,
    every point is finite, and no point is `Pt.eq` to an earlier one -/
theorem sweep_ok_valid {polys : List (Array (Pt α))} {tris : List (Pt α × Pt α × Pt α)}
    (h : sweep polys = .ok tris) :
    (∀ poly ∈ polys, 3 ≤ poly.size) ∧ (∀ p ∈ allPts polys, FinPt p) ∧
      ∀ pre post p, allPts polys = pre ++ p :: post → ∀ q ∈ pre, q.eq p = false := by
  unfold sweep at h
  rw [run_eq] at h
  have hpost := polysLoop_post polys [] (initSt : St α)
  cases hs : (forIn polys ([] : List (Pt α)) polyBody).run (initSt : St α) with
  | error e => rw [hs] at h; cases h
  | ok r =>
    rw [hs] at hpost
    obtain ⟨hsz, -, hfin, hdup⟩ := hpost
    refine ⟨hsz, hfin, ?_⟩
    intro pre post p hsplit q hq
    exact hdup pre post p hsplit q (by simpa using hq)

end Cav.SweepSetup
