/-
  Output of the sweep on general valid input, part 3: THE STRENGTHENED INVARIANT `XInv`.

  On top of the general sweep invariant `Inv R s xs ivs` (`GenInv.lean`) a ghost map `G` gives,
  for the chain id of every in-interval, the description `CH` of its back-chain:
  * heap (`ChainOK.cell`, `.seg`): the chain cell has the head, tail and rightmost node of the
    description and the node cells are linked as the list `(G ci).l` says;
  * shape (`ChainOK.shape`): `Shape` between the current lower and upper edge of the in-interval;
  * `nd`: the node indices of all chains are pairwise different;
  * `flags`: lower edges of in-intervals are lower boundary edges (`isLo`), upper edges are not;
  * `count`: `out.length + Σ (chain lengths) = cnt R xs + #intervals`;
  * `area`: `areaSum out = wDone R xs + Σ pathSum (chain)`;
  * `coh`: every processed vertex is coherent (`Coh`: the region stays on the same side of the
    polygon walked through the vertex);
  * `fin`: when no in-interval is open, the rightmost processed vertex has weight `0` (the last
    event was a closing End);
  * `posA`: every emitted triangle has positive area.
-/
import Cav.Lemmas.GenOutShape
import Cav.Lemmas.GenOutCount
import Cav.Lemmas.GenLinks2

set_option linter.unusedVariables false
set_option linter.unusedSimpArgs false

namespace Cav.GenOutInv
open Cav Num Cav.Geo Cav.Sweep Cav.TriRun Cav.QuadRun Cav.QuadGeom Cav.SweepOut Cav.CvxEvents Cav.CvxLoop
open Cav.GenNodes Cav.GenInv Cav.MonoGeom Cav.MonoHeap Cav.MonoFan Cav.GenOutShape
open Cav.GenOutDefs Cav.GenLinks
open Cav.GenGeom hiding Q

/-! ### chains in the heap -/

theorem Seg.pt {N : Array (Node XQ)} : ∀ {l : List (Nat × Q)} {a e : Option Nat}, Seg N a (hp l) e →
    ∀ x ∈ l, ptAt N x.1 = some (Fq x.2)
  | [], _, _, _, x, hx => by cases hx
  | y :: rest, a, e, hs, x, hx => by
    obtain ⟨h1, h2⟩ := hs
    rcases List.mem_cons.mp hx with rfl | hx
    · unfold ptAt; rw [h1]; rfl
    · exact Seg.pt h2 x hx

theorem hp_reverse (l : List (Nat × Q)) : hp l.reverse = (hp l).reverse := by simp [hp]

theorem hp_cons (x : Nat × Q) (l : List (Nat × Q)) : hp (x :: l) = (x.1, Fq x.2) :: hp l := rfl

theorem hp_length (l : List (Nat × Q)) : (hp l).length = l.length := by simp [hp]

theorem Seg.idx_lt {N : Array (Node XQ)} {l : List (Nat × Q)} {a e : Option Nat} (h : Seg N a (hp l) e) :
    ∀ x ∈ l, x.1 < N.size := by
  intro x hx
  have := MonoHeap.Seg.lt h (x.1, Fq x.2) (by
    unfold hp; exact List.mem_map.mpr ⟨x, hx, rfl⟩)
  exact this

/-- a chain whose cells are untouched stays linked -/
theorem Seg.frame {N N' : Array (Node XQ)} {l : List (Nat × Q)} {a e : Option Nat}
    (h : Seg N a (hp l) e) (hfr : ∀ x ∈ l, N'[x.1]? = N[x.1]?) : Seg N' a (hp l) e := by
  refine Seg.congr ?_ h
  intro i hi
  rw [hp_fst] at hi
  obtain ⟨x, hx, rfl⟩ := List.mem_map.mp hi
  exact hfr x hx

/-! ### the invariant -/

structure ChainOK (R : RingQ) (s : St XQ) (xs : Rat) (iv : IV) (c : CH) : Prop where
  cell : ∃ ch, s.chains[iv.ci]? = some ch ∧ ch.head = c.hd.1 ∧ ch.tail = c.tl.1 ∧ ch.rm = c.m.1
  seg : Seg s.nodes none (hp c.l) none
  shape : Shape c xs (R.pt iv.lo.lv) (R.pt iv.lo.rv) (R.pt iv.hi.lv) (R.pt iv.hi.rv)

/-- the node indices of all chains -/
def idxs (G : Nat → CH) (ivs : List IV) : List Nat := ivs.flatMap fun iv => (G iv.ci).l.map Prod.fst
/-- the total length of the chains -/
def lenSum (G : Nat → CH) (ivs : List IV) : Nat := (ivs.map fun iv => (G iv.ci).l.length).sum
/-- the total path sum of the chains -/
def pathTot (G : Nat → CH) (ivs : List IV) : Rat :=
  (ivs.map fun iv => pathSum ((G iv.ci).l.map Prod.snd)).sum

@[simp] theorem idxs_nil (G : Nat → CH) : idxs G [] = [] := rfl
@[simp] theorem idxs_cons (G : Nat → CH) (iv : IV) (r : List IV) :
    idxs G (iv :: r) = (G iv.ci).l.map Prod.fst ++ idxs G r := rfl
@[simp] theorem idxs_append (G : Nat → CH) (a b : List IV) : idxs G (a ++ b) = idxs G a ++ idxs G b := by
  simp [idxs]
@[simp] theorem lenSum_nil (G : Nat → CH) : lenSum G [] = 0 := rfl
@[simp] theorem lenSum_cons (G : Nat → CH) (iv : IV) (r : List IV) :
    lenSum G (iv :: r) = (G iv.ci).l.length + lenSum G r := by simp [lenSum]
@[simp] theorem lenSum_append (G : Nat → CH) (a b : List IV) : lenSum G (a ++ b) = lenSum G a + lenSum G b := by
  simp [lenSum]
@[simp] theorem pathTot_nil (G : Nat → CH) : pathTot G [] = 0 := rfl
@[simp] theorem pathTot_cons (G : Nat → CH) (iv : IV) (r : List IV) :
    pathTot G (iv :: r) = pathSum ((G iv.ci).l.map Prod.snd) + pathTot G r := by simp [pathTot]
@[simp] theorem pathTot_append (G : Nat → CH) (a b : List IV) :
    pathTot G (a ++ b) = pathTot G a + pathTot G b := by
  simp [pathTot]

theorem idxs_congr {G G' : Nat → CH} {l : List IV} (h : ∀ j ∈ l, G' j.ci = G j.ci) : idxs G' l = idxs G l := by
  unfold idxs
  induction l with
  | nil => rfl
  | cons a r ih =>
    simp only [List.flatMap_cons]
    rw [h a List.mem_cons_self, ih (fun j hj => h j (List.mem_cons_of_mem _ hj))]

theorem lenSum_congr {G G' : Nat → CH} {l : List IV} (h : ∀ j ∈ l, G' j.ci = G j.ci) :
    lenSum G' l = lenSum G l := by
  unfold lenSum
  congr 1
  exact List.map_congr_left (fun j hj => by rw [h j hj])

theorem pathTot_congr {G G' : Nat → CH} {l : List IV} (h : ∀ j ∈ l, G' j.ci = G j.ci) :
    pathTot G' l = pathTot G l := by
  unfold pathTot
  congr 1
  exact List.map_congr_left (fun j hj => by rw [h j hj])

theorem mem_idxs {G : Nat → CH} {l : List IV} {k : Nat} :
    k ∈ idxs G l ↔ ∃ j ∈ l, ∃ x ∈ (G j.ci).l, x.1 = k := by
  unfold idxs
  simp only [List.mem_flatMap, List.mem_map]

structure XInv (R : RingQ) (s : St XQ) (xs : Rat) (ivs : List IV) (G : Nat → CH) : Prop where
  inv : Inv R s xs ivs
  ok : ∀ iv ∈ ivs, ChainOK R s xs iv (G iv.ci)
  nd : (idxs G ivs).Nodup
  flags : ∀ iv ∈ ivs, isLo R iv.lo.lv iv.lo.rv ∧ ¬ isLo R iv.hi.lv iv.hi.rv
  count : s.out.length + lenSum G ivs = cnt R xs + ivs.length
  area : areaSum s.out = wDone R xs + pathTot G ivs
  coh : ∀ v, v < R.n → R.x v ≤ xs → Coh R v
  fin : ivs = [] → ∀ v, v < R.n → R.x v ≤ xs → (∀ u, u < R.n → R.x u ≤ xs → R.x u ≤ R.x v) →
    vWeight R v = 0
  posA : ∀ tr ∈ s.out, 0 < triArea tr

/-! ### consequences -/

/-- the head and the tail of the description carry the left ends of the two edges -/
theorem ChainOK.ends {R : RingQ} {s : St XQ} {xs : Rat} {iv : IV} {c : CH} (h : ChainOK R s xs iv c)
    (hc : CCell s R iv) : c.hd.2 = R.pt iv.lo.lv ∧ c.tl.2 = R.pt iv.hi.lv := by
  obtain ⟨ch, hch, hh, ht, -⟩ := h.cell
  obtain ⟨ch', hch', -, hph, hpt⟩ := hc
  rw [hch] at hch'
  cases hch'
  have hmem_hd : c.hd ∈ c.l := by
    have := c.head_l
    exact List.mem_of_mem_head? (by rw [this]; rfl)
  have hmem_tl : c.tl ∈ c.l := by
    have := c.last_l
    exact List.mem_of_getLast? this
  have p1 := Seg.pt h.seg c.hd hmem_hd
  have p2 := Seg.pt h.seg c.tl hmem_tl
  rw [← hh, hph] at p1
  rw [← ht, hpt] at p2
  exact ⟨(Fq_inj (Option.some.inj p1)).symm, (Fq_inj (Option.some.inj p2)).symm⟩

/-- all chain indices are valid node cells -/
theorem XInv.idx_lt {R : RingQ} {s : St XQ} {xs : Rat} {ivs : List IV} {G : Nat → CH}
    (h : XInv R s xs ivs G) : ∀ k ∈ idxs G ivs, k < s.nodes.size := by
  intro k hk
  obtain ⟨j, hj, x, hx, rfl⟩ := mem_idxs.mp hk
  exact Seg.idx_lt (h.ok j hj).seg x hx

/-- the chain of an untouched in-interval: same chain cell, node cells untouched, the sweep line
    has moved to the right -/
theorem ChainOK.transfer {R : RingQ} {s s' : St XQ} {xs xs' : Rat} {iv : IV} {c : CH}
    (h : ChainOK R s xs iv c) (hch : s'.chains[iv.ci]? = s.chains[iv.ci]?)
    (hfr : ∀ x ∈ c.l, s'.nodes[x.1]? = s.nodes[x.1]?) (hx : xs ≤ xs') : ChainOK R s' xs' iv c :=
  ⟨by rw [hch]; exact h.cell, Seg.frame h.seg hfr, h.shape.mono hx⟩

/-- `Nodup` after replacing the indices of one chain by a fresh index in front of a sublist -/
theorem nodup_replace {A B old sub : List Nat} {n : Nat} (h : (A ++ old ++ B).Nodup)
    (hsub : sub.Sublist old) (hn : ∀ k ∈ A ++ old ++ B, k ≠ n) : (A ++ (n :: sub) ++ B).Nodup := by
  have h1 : (A ++ sub ++ B).Sublist (A ++ old ++ B) :=
    List.Sublist.append (List.Sublist.append (List.Sublist.refl A) hsub) (List.Sublist.refl B)
  have h2 : (A ++ sub ++ B).Nodup := h.sublist h1
  have e : A ++ (n :: sub) ++ B = A ++ n :: (sub ++ B) := by simp
  rw [e]
  apply List.nodup_middle.mpr
  rw [List.nodup_cons]
  refine ⟨?_, by simpa using h2⟩
  intro hm
  have : n ∈ A ++ sub ++ B := by simpa using hm
  exact hn n (h1.subset this) rfl

end Cav.GenOutInv
