/-
  Output of the sweep on general valid input: a single polygon of a valid set is a valid set; the
  leftmost vertex of a polygon inside the vertex ring (a Start vertex; its lower neighbour; the
  walking direction there); in the ring of the single polygon no edge passes below the leftmost
  vertex.
-/
import Cav.Thm.C04General
import Cav.Lemmas.GenOutPolyDefs
import Cav.Lemmas.GenOrder
import Cav.Lemmas.GenStep

set_option linter.unusedSimpArgs false
set_option linter.unusedVariables false

namespace Cav.GenOutSub
open Cav Num Cav.Geo Cav.Sweep Cav.QuadGeom Cav.GenInv Cav.GenRing Cav.GenValid Cav.GenStep
open Cav.GenOrder Cav.GenOutDefs Cav.GenOutPoly Cav.CvxPoly Cav.C04General
open Cav.GenGeom hiding Q

/-! ### (I0) the block of a member polygon -/

theorem mem_decomp_aux : ∀ (polys : List (Array Q)) (base : Nat) (P : Array Q), P ∈ polys →
    ∃ Cd Cr, cellsAll base polys = Cd ++ cellsOf (base + Cd.length) P ++ Cr
  | [], _, _, h => by cases h
  | p :: r, base, P, h => by
    rcases List.mem_cons.mp h with rfl | h
    · exact ⟨[], cellsAll (base + P.size) r, by simp [cellsAll]⟩
    · obtain ⟨Cd, Cr, hC⟩ := mem_decomp_aux r (base + p.size) P h
      refine ⟨cellsOf base p ++ Cd, Cr, ?_⟩
      simp only [cellsAll]
      rw [hC]
      simp only [List.length_append, cellsOf_length, List.append_assoc, Nat.add_assoc]

/-- a member polygon occupies a block of the cell list -/
theorem mem_decomp {polys : List (Array Q)} {P : Array Q} (h : P ∈ polys) :
    ∃ Cd Cr, cellsAll 0 polys = Cd ++ cellsOf Cd.length P ++ Cr := by
  obtain ⟨Cd, Cr, hC⟩ := mem_decomp_aux polys 0 P h
  rw [Nat.zero_add] at hC
  exact ⟨Cd, Cr, hC⟩

theorem blocks_decomp_aux : ∀ (polys : List (Array Q)) (base b : Nat) (P : Array Q),
    (b, P) ∈ blocks base polys →
    P ∈ polys ∧ ∃ Cd Cr, base + Cd.length = b ∧
      cellsAll base polys = Cd ++ cellsOf (base + Cd.length) P ++ Cr
  | [], _, _, _, h => by simp [blocks] at h
  | p :: r, base, b, P, h => by
    simp only [blocks, List.mem_cons, Prod.mk.injEq] at h
    rcases h with ⟨rfl, rfl⟩ | h
    · exact ⟨List.mem_cons_self, [], cellsAll (b + P.size) r, by simp, by simp [cellsAll]⟩
    · obtain ⟨hm, Cd, Cr, hb, hC⟩ := blocks_decomp_aux r (base + p.size) b P h
      refine ⟨List.mem_cons_of_mem _ hm, cellsOf base p ++ Cd, Cr, ?_, ?_⟩
      · simp only [List.length_append, cellsOf_length]
        omega
      · simp only [cellsAll]
        rw [hC]
        simp only [List.length_append, cellsOf_length, List.append_assoc, Nat.add_assoc]

/-- a block of `blocks 0 polys` is the block of a member polygon in the cell list -/
theorem blocks_decomp {polys : List (Array Q)} {b : Nat} {P : Array Q} (h : (b, P) ∈ blocks 0 polys) :
    P ∈ polys ∧ ∃ Cd Cr, Cd.length = b ∧ cellsAll 0 polys = Cd ++ cellsOf Cd.length P ++ Cr := by
  obtain ⟨hm, Cd, Cr, hb, hC⟩ := blocks_decomp_aux polys 0 b P h
  rw [Nat.zero_add] at hb hC
  exact ⟨hm, Cd, Cr, hb, hC⟩

/-! ### the ring of a single polygon and the block of the polygon in the big ring -/

theorem single_cells (P : Array Q) :
    cellsAll 0 [P] = ([] : List Cell) ++ cellsOf ([] : List Cell).length P ++ [] := by
  simp [cellsAll]

theorem single_n (P : Array Q) : (ringOf [P]).n = P.size := by
  show (cellsAll 0 [P]).length = P.size
  simp [cellsAll, cellsOf_length]

/-- the ring of a single polygon -/
theorem single_facts (P : Array Q) {i : Nat} (hi : i < P.size) :
    (ringOf [P]).pt i = P.getD i (0, 0) ∧ (ringOf [P]).prv i = (i + P.size - 1) % P.size ∧
      (ringOf [P]).nxt i = (i + 1) % P.size := by
  obtain ⟨e1, e2, e3, -⟩ := block_facts (single_cells P) hi
  simp only [List.length_nil, Nat.zero_add] at e1 e2 e3
  exact ⟨e1, e2, e3⟩

/-- the block of `P` in the big ring is the ring of `[P]` shifted by the base -/
theorem block_single {polys : List (Array Q)} {Cd Cr : List Cell} {P : Array Q}
    (hC : cellsAll 0 polys = Cd ++ cellsOf Cd.length P ++ Cr) {i : Nat} (hi : i < P.size) :
    (ringOf polys).pt (Cd.length + i) = (ringOf [P]).pt i ∧
    (ringOf polys).prv (Cd.length + i) = Cd.length + (ringOf [P]).prv i ∧
    (ringOf polys).nxt (Cd.length + i) = Cd.length + (ringOf [P]).nxt i ∧
    (ringOf [P]).prv i < P.size ∧ (ringOf [P]).nxt i < P.size ∧
    Cd.length + i < (ringOf polys).n := by
  obtain ⟨e1, e2, e3, e4⟩ := block_facts hC hi
  obtain ⟨f1, f2, f3⟩ := single_facts P hi
  have hpos : 0 < P.size := by omega
  refine ⟨e1.trans f1.symm, by rw [f2]; exact e2, by rw [f3]; exact e3, by rw [f2]; exact Nat.mod_lt _ hpos,
    by rw [f3]; exact Nat.mod_lt _ hpos, ?_⟩
  show Cd.length + i < (cellsAll 0 polys).length
  omega

/-! ### (I1) a single polygon of a valid set is a valid set -/

theorem nodup_single {polys : List (Array Q)} {P : Array Q} (hm : P ∈ polys)
    (hx : ((polys.flatMap Array.toList).map (·.1)).Nodup) :
    (([P].flatMap Array.toList).map (·.1)).Nodup := by
  obtain ⟨l1, l2, rfl⟩ := List.append_of_mem hm
  simp only [List.flatMap_append, List.flatMap_cons, List.map_append] at hx
  have h1 := (List.nodup_append.mp hx).2.1
  have h2 := (List.nodup_append.mp h1).1
  simpa using h2

theorem edgesApart_single {polys : List (Array Q)} {Cd Cr : List Cell} {P : Array Q}
    (hC : cellsAll 0 polys = Cd ++ cellsOf Cd.length P ++ Cr) (hA : EdgesApart (ringOf polys)) :
    EdgesApart (ringOf [P]) := by
  intro i hi j hj hij hni hnj
  rw [single_n] at hi hj
  obtain ⟨ei, -, eni, -, hnil, hib⟩ := block_single hC hi
  obtain ⟨ej, -, enj, -, hnjl, hjb⟩ := block_single hC hj
  have eni' := (block_single hC hnil).1
  have enj' := (block_single hC hnjl).1
  have := hA _ hib _ hjb (by omega) (by rw [eni]; omega) (by rw [enj]; omega)
  rw [eni, enj, ei, ej, eni', enj'] at this
  exact this

theorem noSpike_single {polys : List (Array Q)} {Cd Cr : List Cell} {P : Array Q}
    (hC : cellsAll 0 polys = Cd ++ cellsOf Cd.length P ++ Cr) (hS : NoSpike (ringOf polys)) :
    NoSpike (ringOf [P]) := by
  intro i hi hiff
  rw [single_n] at hi
  obtain ⟨ei, epi, eni, hpil, hnil, hib⟩ := block_single hC hi
  have epi' := (block_single hC hpil).1
  have eni' := (block_single hC hnil).1
  have := hS _ hib
  simp only [RingQ.x] at this hiff
  rw [epi, eni, ei, epi', eni'] at this
  exact this hiff

/-- **a single polygon of a valid set is a valid set** -/
theorem valid_single {polys : List (Array Q)} {P : Array Q} (hv : ValidSet polys) (hm : P ∈ polys) :
    ValidSet [P] := by
  obtain ⟨h3, hx, hA, hS⟩ := hv
  obtain ⟨Cd, Cr, hC⟩ := mem_decomp hm
  refine ⟨?_, nodup_single hm hx, edgesApart_single hC hA, noSpike_single hC hS⟩
  intro p hp
  rw [List.mem_singleton] at hp
  rw [hp]
  exact h3 P hm

/-! ### (I2) the leftmost vertex of a polygon -/

/-- the step function of `leftIdx` -/
abbrev leftStep (P : Array Q) (best i : Nat) : Nat :=
  if (P.getD i (0, 0)).1 < (P.getD best (0, 0)).1 then i else best

theorem leftFold (P : Array Q) : ∀ (l : List Nat) (best : Nat), best < P.size → (∀ i ∈ l, i < P.size) →
    l.foldl (leftStep P) best < P.size ∧
    (P.getD (l.foldl (leftStep P) best) (0, 0)).1 ≤ (P.getD best (0, 0)).1 ∧
    ∀ i ∈ l, (P.getD (l.foldl (leftStep P) best) (0, 0)).1 ≤ (P.getD i (0, 0)).1
  | [], best, hb, _ => ⟨hb, le_refl _, fun i h => by cases h⟩
  | a :: r, best, hb, hl => by
    have ha : a < P.size := hl a List.mem_cons_self
    have hcase : ((P.getD a (0, 0)).1 < (P.getD best (0, 0)).1 ∧ leftStep P best a = a) ∨
        (¬ (P.getD a (0, 0)).1 < (P.getD best (0, 0)).1 ∧ leftStep P best a = best) := by
      by_cases h : (P.getD a (0, 0)).1 < (P.getD best (0, 0)).1
      · exact Or.inl ⟨h, if_pos h⟩
      · exact Or.inr ⟨h, if_neg h⟩
    have hs : leftStep P best a < P.size := by
      rcases hcase with ⟨-, e⟩ | ⟨-, e⟩ <;> rw [e] <;> assumption
    obtain ⟨h1, h2, h3⟩ := leftFold P r (leftStep P best a) hs (fun i hi => hl i (List.mem_cons_of_mem _ hi))
    have hsb : (P.getD (leftStep P best a) (0, 0)).1 ≤ (P.getD best (0, 0)).1 := by
      rcases hcase with ⟨h, e⟩ | ⟨h, e⟩
      · rw [e]; exact le_of_lt h
      · exact le_of_eq (by rw [e])
    have hsa : (P.getD (leftStep P best a) (0, 0)).1 ≤ (P.getD a (0, 0)).1 := by
      rcases hcase with ⟨h, e⟩ | ⟨h, e⟩
      · exact le_of_eq (by rw [e])
      · rw [e]; exact not_lt.mp h
    refine ⟨h1, le_trans h2 hsb, ?_⟩
    intro i hi
    rcases List.mem_cons.mp hi with rfl | hi
    · exact le_trans h2 hsa
    · exact h3 i hi

theorem leftIdx_eq (P : Array Q) : leftIdx P = (List.range P.size).foldl (leftStep P) 0 := rfl

theorem leftIdx_lt' {P : Array Q} (h : 0 < P.size) : leftIdx P < P.size := by
  rw [leftIdx_eq]
  exact (leftFold P _ 0 h (fun i hi => List.mem_range.mp hi)).1

theorem leftIdx_min' {P : Array Q} (i : Nat) (hi : i < P.size) :
    (P.getD (leftIdx P) (0, 0)).1 ≤ (P.getD i (0, 0)).1 := by
  rw [leftIdx_eq]
  exact (leftFold P _ 0 (by omega) (fun i hi => List.mem_range.mp hi)).2.2 i (List.mem_range.mpr hi)

/-! ### Start vertices of a ring -/

section ring
variable {R : RingQ} {V : Array (Vtx XQ)}

theorem prv_ne_self (hR : RingOK R V) {w : Nat} (hw : w < R.n) : R.prv w ≠ w := by
  intro e
  have h1 := hR.nxt_prv w hw
  rw [e] at h1
  exact hR.ne w hw (e.trans h1.symm)

theorem nxt_ne_self (hR : RingOK R V) {w : Nat} (hw : w < R.n) : R.nxt w ≠ w := by
  intro e
  have h1 := hR.prv_nxt w hw
  rw [e] at h1
  exact hR.ne w hw (h1.trans e.symm)

/-- the upper one of the two ring neighbours of a Start vertex `v` -/
def upperNbr (R : RingQ) (v : Nat) : Nat := if lowerNbr R v = R.prv v then R.nxt v else R.prv v

/-- at a Start vertex the two edges are not collinear -/
theorem start_orient_ne (hR : RingOK R V) (hN : NoCross R) {v : Nat} (hv : v < R.n)
    (h0 : R.x v < R.x (R.prv v)) (h1 : R.x v < R.x (R.nxt v)) :
    orient (R.pt v) (R.pt (R.prv v)) (R.pt (R.nxt v)) ≠ 0 := by
  have hpn := hR.prv_lt v hv
  have hnn := hR.nxt_lt v hv
  have hne : R.prv v ≠ R.nxt v := hR.ne v hv
  intro ho
  rcases le_total (R.x (R.prv v)) (R.x (R.nxt v)) with hle | hle
  · exact fan_ne hN hv hpn hnn (Or.inr rfl) (Or.inl rfl) hne h0 h1 hle ho
  · apply fan_ne hN hv hnn hpn (Or.inl rfl) (Or.inr rfl) (Ne.symm hne) h1 h0 hle
    have := orient_swap (R.pt v) (R.pt (R.prv v)) (R.pt (R.nxt v))
    linarith

/-- the lower and the upper neighbour of a Start vertex -/
theorem start_nbrs (hR : RingOK R V) (hN : NoCross R) {v : Nat} (hv : v < R.n)
    (h0 : R.x v < R.x (R.prv v)) (h1 : R.x v < R.x (R.nxt v)) :
    ((R.prv v = lowerNbr R v ∧ R.nxt v = upperNbr R v) ∨
      (R.prv v = upperNbr R v ∧ R.nxt v = lowerNbr R v)) ∧
    0 < orient (R.pt v) (R.pt (lowerNbr R v)) (R.pt (upperNbr R v)) ∧
    R.x v < R.x (lowerNbr R v) ∧ R.x v < R.x (upperNbr R v) := by
  have hne : R.prv v ≠ R.nxt v := hR.ne v hv
  have hon := start_orient_ne hR hN hv h0 h1
  by_cases ho : 0 < orient (R.pt v) (R.pt (R.prv v)) (R.pt (R.nxt v))
  · have eB : lowerNbr R v = R.prv v := if_pos ho
    have eT : upperNbr R v = R.nxt v := if_pos eB
    rw [eB, eT]
    exact ⟨Or.inl ⟨rfl, rfl⟩, ho, h0, h1⟩
  · have eB : lowerNbr R v = R.nxt v := if_neg ho
    have eT : upperNbr R v = R.prv v := if_neg (by rw [eB]; exact Ne.symm hne)
    rw [eB, eT]
    refine ⟨Or.inr ⟨rfl, rfl⟩, ?_, h1, h0⟩
    have := orient_swap (R.pt v) (R.pt (R.prv v)) (R.pt (R.nxt v))
    rcases lt_or_gt_of_ne hon with h | h
    · linarith
    · exact absurd h ho

/-- `R.nxt v` is the lower neighbour of a Start vertex iff the determinant of `prv, v, nxt` is
    positive -/
theorem nxt_lower_iff (hR : RingOK R V) (hN : NoCross R) {v : Nat} (hv : v < R.n)
    (h0 : R.x v < R.x (R.prv v)) (h1 : R.x v < R.x (R.nxt v)) :
    0 < orient (R.pt (R.prv v)) (R.pt v) (R.pt (R.nxt v)) ↔ R.nxt v = lowerNbr R v := by
  have hne : R.prv v ≠ R.nxt v := hR.ne v hv
  have hon := start_orient_ne hR hN hv h0 h1
  have e : orient (R.pt (R.prv v)) (R.pt v) (R.pt (R.nxt v)) =
      - orient (R.pt v) (R.pt (R.prv v)) (R.pt (R.nxt v)) := by unfold orient; ring
  rw [e]
  by_cases ho : 0 < orient (R.pt v) (R.pt (R.prv v)) (R.pt (R.nxt v))
  · have eB : lowerNbr R v = R.prv v := if_pos ho
    rw [eB]
    constructor
    · intro h; linarith
    · intro h; exact absurd h.symm hne
  · have eB : lowerNbr R v = R.nxt v := if_neg ho
    rw [eB]
    constructor
    · intro _; rfl
    · intro _
      rcases lt_or_gt_of_ne hon with h | h
      · linarith
      · exact absurd h ho

/-- the walking sign at a Start vertex in terms of its lower edge -/
theorem walkSign_start (hR : RingOK R V) (hN : NoCross R) {v : Nat} (hv : v < R.n)
    (h0 : R.x v < R.x (R.prv v)) (h1 : R.x v < R.x (R.nxt v)) (hc : Coh R v) :
    walkSign R v = (if R.nxt v = lowerNbr R v then 1 else -1) *
      (if isLo R v (lowerNbr R v) then 1 else -1) := by
  have hne : R.prv v ≠ R.nxt v := hR.ne v hv
  have hw : walkSign R v = if isLo R v (R.nxt v) then 1 else -1 := by
    unfold walkSign; rw [if_pos h1]
  rw [hw]
  by_cases hl : R.nxt v = lowerNbr R v
  · rw [if_pos hl, ← hl, one_mul]
  · have eB : lowerNbr R v = R.prv v := by
      unfold lowerNbr at hl ⊢
      by_cases ho : 0 < orient (R.pt v) (R.pt (R.prv v)) (R.pt (R.nxt v))
      · rw [if_pos ho]
      · rw [if_neg ho] at hl; exact absurd rfl hl
    have hc' : isLo R v (R.prv v) ↔ ¬ isLo R v (R.nxt v) := by
      unfold Coh at hc
      rw [if_neg (not_lt.mpr (le_of_lt h0)), if_pos h1] at hc
      exact hc
    rw [if_neg hl, eB]
    by_cases hi : isLo R v (R.nxt v)
    · rw [if_pos hi, if_neg (fun h => (hc'.mp h) hi)]; norm_num
    · rw [if_neg hi, if_pos (hc'.mpr hi)]; norm_num

/-! ### no edge passes below the globally leftmost vertex -/

theorem sum_map_zero {α : Type} (f : α → Nat) : ∀ (l : List α), (∀ i ∈ l, f i = 0) → (l.map f).sum = 0
  | [], _ => rfl
  | a :: r, h => by
    rw [List.map_cons, List.sum_cons, h a List.mem_cons_self,
      sum_map_zero f r (fun i hi => h i (List.mem_cons_of_mem _ hi))]

/-- the globally leftmost vertex is a Start vertex -/
theorem leftmost_start (hR : RingOK R V) {v : Nat} (hv : v < R.n)
    (hmin : ∀ u, u < R.n → R.x v ≤ R.x u) : R.x v < R.x (R.prv v) ∧ R.x v < R.x (R.nxt v) := by
  have hpn := hR.prv_lt v hv
  have hnn := hR.nxt_lt v hv
  exact ⟨lt_of_le_of_ne (hmin _ hpn) (fun e => prv_ne_self hR hv (hR.distinct _ _ hv hpn e).symm),
    lt_of_le_of_ne (hmin _ hnn) (fun e => nxt_ne_self hR hv (hR.distinct _ _ hv hnn e).symm)⟩

/-- no ring edge passes below the lower edge of the globally leftmost vertex -/
theorem not_EBelow_leftmost (hR : RingOK R V) (hN : NoCross R) {v : Nat} (hv : v < R.n)
    (hmin : ∀ u, u < R.n → R.x v ≤ R.x u) {u' v' : Nat} (hu' : u' < R.n) (hadj : Adj R u' v') :
    ¬ EBelow R v (lowerNbr R v) u' v' := by
  obtain ⟨h0, h1⟩ := leftmost_start hR hv hmin
  obtain ⟨hnb, ho, -, -⟩ := start_nbrs hR hN hv h0 h1
  rintro ⟨hle, hlt, hb⟩
  have e : u' = v := hR.distinct u' v hu' hv (le_antisymm hle (hmin u' hu'))
  subst e
  have hv' : v' = lowerNbr R u' ∨ v' = upperNbr R u' := by
    rcases hadj with h | h <;> rcases hnb with ⟨e1, e2⟩ | ⟨e1, e2⟩
    · exact Or.inr (h.symm.trans e2)
    · exact Or.inl (h.symm.trans e2)
    · exact Or.inl (h.symm.trans e1)
    · exact Or.inr (h.symm.trans e1)
  rcases hv' with e | e
  · rw [e] at hb
    exact below_irrefl _ _ hb
  · rw [e] at hb
    rcases hb with h | ⟨-, -, h⟩
    · have e1 : lineY (R.pt u') (R.pt (upperNbr R u')) (R.x u') = (R.pt u').2 := lineY_left _ _
      have e2 : lineY (R.pt u') (R.pt (lowerNbr R u')) (R.x u') = (R.pt u').2 := lineY_left _ _
      change lineY (R.pt u') (R.pt (upperNbr R u')) (R.x u') <
        lineY (R.pt u') (R.pt (lowerNbr R u')) (R.x u') at h
      rw [e1, e2] at h
      exact lt_irrefl _ h
    · change 0 < orient (R.pt u') (R.pt (upperNbr R u')) (R.pt (lowerNbr R u')) at h
      have := orient_swap (R.pt u') (R.pt (lowerNbr R u')) (R.pt (upperNbr R u'))
      linarith

/-- **no ring edge passes below the globally leftmost vertex** -/
theorem nBelow_leftmost (hR : RingOK R V) (hN : NoCross R) {v : Nat} (hv : v < R.n)
    (hmin : ∀ u, u < R.n → R.x v ≤ R.x u) : nBelow R v (lowerNbr R v) = 0 := by
  unfold nBelow
  apply sum_map_zero
  intro u' hu'
  have hu : u' < R.n := List.mem_range.mp hu'
  rw [if_neg (not_EBelow_leftmost hR hN hv hmin hu (Or.inl rfl)),
    if_neg (not_EBelow_leftmost hR hN hv hmin hu (Or.inr rfl))]

end ring

/-! ### (I3) the leftmost vertex of a polygon in the ring -/

section block
variable {polys : List (Array Q)} {Cd Cr : List Cell} {P : Array Q}

/-- the leftmost vertex of a polygon is a vertex of the ring and a Start vertex -/
theorem left_start (h3 : ∀ p ∈ polys, 3 ≤ p.size) (hx : ((polys.flatMap Array.toList).map (·.1)).Nodup)
    (hC : cellsAll 0 polys = Cd ++ cellsOf Cd.length P ++ Cr) (hm : P ∈ polys) :
    Cd.length + leftIdx P < (ringOf polys).n ∧
    (ringOf polys).x (Cd.length + leftIdx P) <
      (ringOf polys).x ((ringOf polys).prv (Cd.length + leftIdx P)) ∧
    (ringOf polys).x (Cd.length + leftIdx P) <
      (ringOf polys).x ((ringOf polys).nxt (Cd.length + leftIdx P)) := by
  have hR := ringOK polys h3 hx
  have hP := h3 P hm
  have hL : leftIdx P < P.size := leftIdx_lt' (by omega)
  obtain ⟨e1, e2, e3, e4⟩ := block_facts hC hL
  have hv : Cd.length + leftIdx P < (ringOf polys).n := by
    show _ < (cellsAll 0 polys).length
    omega
  have hpos : 0 < P.size := by omega
  have hp := Nat.mod_lt (leftIdx P + P.size - 1) hpos
  have hn := Nat.mod_lt (leftIdx P + 1) hpos
  have f1 := (block_facts hC hp).1
  have g1 := (block_facts hC hn).1
  have hpn := hR.prv_lt _ hv
  have hnn := hR.nxt_lt _ hv
  refine ⟨hv, lt_of_le_of_ne ?_ (fun e => prv_ne_self hR hv (hR.distinct _ _ hv hpn e).symm),
    lt_of_le_of_ne ?_ (fun e => nxt_ne_self hR hv (hR.distinct _ _ hv hnn e).symm)⟩
  · show ((ringOf polys).pt _).1 ≤ ((ringOf polys).pt ((ringOf polys).prv _)).1
    change ((ringOfCells _).pt _).1 ≤ ((ringOfCells _).pt ((ringOfCells _).prv _)).1
    rw [e2, e1, f1]
    exact leftIdx_min' _ hp
  · change ((ringOfCells _).pt _).1 ≤ ((ringOfCells _).pt ((ringOfCells _).nxt _)).1
    rw [e3, e1, g1]
    exact leftIdx_min' _ hn

/-- the neighbours of the leftmost vertex: the lower one `lowerNbr` and the upper one `upperNbr` -/
theorem left_nbrs (h3 : ∀ p ∈ polys, 3 ≤ p.size) (hx : ((polys.flatMap Array.toList).map (·.1)).Nodup)
    (hN : NoCross (ringOf polys))
    (hC : cellsAll 0 polys = Cd ++ cellsOf Cd.length P ++ Cr) (hm : P ∈ polys) :
    (((ringOf polys).prv (Cd.length + leftIdx P) = lowerNbr (ringOf polys) (Cd.length + leftIdx P) ∧
        (ringOf polys).nxt (Cd.length + leftIdx P) = upperNbr (ringOf polys) (Cd.length + leftIdx P)) ∨
      ((ringOf polys).prv (Cd.length + leftIdx P) = upperNbr (ringOf polys) (Cd.length + leftIdx P) ∧
        (ringOf polys).nxt (Cd.length + leftIdx P) = lowerNbr (ringOf polys) (Cd.length + leftIdx P))) ∧
    0 < orient ((ringOf polys).pt (Cd.length + leftIdx P))
      ((ringOf polys).pt (lowerNbr (ringOf polys) (Cd.length + leftIdx P)))
      ((ringOf polys).pt (upperNbr (ringOf polys) (Cd.length + leftIdx P))) ∧
    (ringOf polys).x (Cd.length + leftIdx P) <
      (ringOf polys).x (lowerNbr (ringOf polys) (Cd.length + leftIdx P)) ∧
    (ringOf polys).x (Cd.length + leftIdx P) <
      (ringOf polys).x (upperNbr (ringOf polys) (Cd.length + leftIdx P)) := by
  obtain ⟨hv, h0, h1⟩ := left_start h3 hx hC hm
  exact start_nbrs (ringOK polys h3 hx) hN hv h0 h1

/-- the polygon is walked counter-clockwise through its leftmost vertex iff the next vertex is the
    lower neighbour -/
theorem ccwAtLeft_iff (h3 : ∀ p ∈ polys, 3 ≤ p.size) (hx : ((polys.flatMap Array.toList).map (·.1)).Nodup)
    (hN : NoCross (ringOf polys))
    (hC : cellsAll 0 polys = Cd ++ cellsOf Cd.length P ++ Cr) (hm : P ∈ polys) :
    ccwAtLeft P ↔
      (ringOf polys).nxt (Cd.length + leftIdx P) = lowerNbr (ringOf polys) (Cd.length + leftIdx P) := by
  obtain ⟨hv, h0, h1⟩ := left_start h3 hx hC hm
  rw [← nxt_lower_iff (ringOK polys h3 hx) hN hv h0 h1]
  have hP := h3 P hm
  have hpos : 0 < P.size := by omega
  have hL : leftIdx P < P.size := leftIdx_lt' hpos
  obtain ⟨e1, e2, e3, e4⟩ := block_facts hC hL
  have hp := Nat.mod_lt (leftIdx P + P.size - 1) hpos
  have hn := Nat.mod_lt (leftIdx P + 1) hpos
  have f1 := (block_facts hC hp).1
  have g1 := (block_facts hC hn).1
  have c1 : (ringOf polys).pt ((ringOf polys).prv (Cd.length + leftIdx P)) =
      cyc P (leftIdx P + P.size - 1) := by
    change (ringOfCells _).pt ((ringOfCells _).prv _) = _
    rw [e2, f1]; rfl
  have c2 : (ringOf polys).pt (Cd.length + leftIdx P) = cyc P (leftIdx P) := by
    change (ringOfCells _).pt _ = _
    rw [e1]; unfold cyc; rw [Nat.mod_eq_of_lt hL]
  have c3 : (ringOf polys).pt ((ringOf polys).nxt (Cd.length + leftIdx P)) =
      cyc P (leftIdx P + 1) := by
    change (ringOfCells _).pt ((ringOfCells _).nxt _) = _
    rw [e3, g1]; rfl
  unfold ccwAtLeft
  rw [c1, c2, c3]

/-- **the walking sign at the leftmost vertex of a polygon** -/
theorem walkSign_left (h3 : ∀ p ∈ polys, 3 ≤ p.size) (hx : ((polys.flatMap Array.toList).map (·.1)).Nodup)
    (hN : NoCross (ringOf polys))
    (hC : cellsAll 0 polys = Cd ++ cellsOf Cd.length P ++ Cr) (hm : P ∈ polys)
    (hc : Coh (ringOf polys) (Cd.length + leftIdx P)) :
    walkSign (ringOf polys) (Cd.length + leftIdx P) = (if ccwAtLeft P then 1 else -1) *
      (if isLo (ringOf polys) (Cd.length + leftIdx P)
        (lowerNbr (ringOf polys) (Cd.length + leftIdx P)) then 1 else -1) := by
  obtain ⟨hv, h0, h1⟩ := left_start h3 hx hC hm
  rw [walkSign_start (ringOK polys h3 hx) hN hv h0 h1 hc]
  have := ccwAtLeft_iff h3 hx hN hC hm
  by_cases hcc : ccwAtLeft P
  · rw [if_pos hcc, if_pos (this.mp hcc)]
  · rw [if_neg hcc, if_neg (fun h => hcc (this.mpr h))]

end block

/-! ### (I4) the ring of a single polygon: nothing below the leftmost vertex -/

section single
variable {P : Array Q}

theorem single_leftmost (h3 : 3 ≤ P.size) :
    leftIdx P < (ringOf [P]).n ∧
      ∀ u, u < (ringOf [P]).n → (ringOf [P]).x (leftIdx P) ≤ (ringOf [P]).x u := by
  have hL : leftIdx P < P.size := leftIdx_lt' (by omega)
  refine ⟨by rw [single_n]; exact hL, ?_⟩
  intro u hu
  rw [single_n] at hu
  show ((ringOf [P]).pt _).1 ≤ ((ringOf [P]).pt _).1
  rw [(single_facts P hL).1, (single_facts P hu).1]
  exact leftIdx_min' u hu

theorem single_h3 (h3 : 3 ≤ P.size) : ∀ p ∈ [P], 3 ≤ p.size := by
  intro p hp
  rw [List.mem_singleton] at hp
  rw [hp]; exact h3

/-- in the ring of a single polygon no edge passes below the leftmost vertex -/
theorem single_nBelow (h3 : 3 ≤ P.size) (hx : (([P].flatMap Array.toList).map (·.1)).Nodup)
    (hN : NoCross (ringOf [P])) :
    nBelow (ringOf [P]) (leftIdx P) (lowerNbr (ringOf [P]) (leftIdx P)) = 0 := by
  obtain ⟨hv, hmin⟩ := single_leftmost h3
  exact nBelow_leftmost (ringOK [P] (single_h3 h3) hx) hN hv hmin

theorem single_isLo (h3 : 3 ≤ P.size) (hx : (([P].flatMap Array.toList).map (·.1)).Nodup)
    (hN : NoCross (ringOf [P])) :
    isLo (ringOf [P]) (leftIdx P) (lowerNbr (ringOf [P]) (leftIdx P)) := by
  unfold isLo
  rw [single_nBelow h3 hx hN]

/-- **a single polygon is not hole-like** -/
theorem single_not_holeLike (h3 : 3 ≤ P.size) (hx : (([P].flatMap Array.toList).map (·.1)).Nodup)
    (hN : NoCross (ringOf [P])) : ¬ holeLike (ringOf [P]) 0 P := by
  unfold holeLike
  rw [Nat.zero_add]
  exact fun h => h (single_isLo h3 hx hN)

/-- the same for a member of a valid set -/
theorem valid_single_not_holeLike {polys : List (Array Q)} (hv : ValidSet polys) (hm : P ∈ polys) :
    ¬ holeLike (ringOf [P]) 0 P := by
  have hv1 := valid_single hv hm
  exact single_not_holeLike (hv1.1 P List.mem_cons_self) hv1.2.1 (valid_noCross [P] hv1)

end single

end Cav.GenOutSub
