/-
  Helper lemmas for `Thm/C07Approx` (accuracy of the value attached to a display piece when the
  integrand `f·g'` is only CLOSE to a polynomial of degree ≤ 31).

  * `gk1d_approx_piece`, `gk1d_approx_piece_real`: `Thm/C01Approx` for ALL bounds (the
    degenerate call `a = b` returns `(0, 0)` and every bound is `0`);
  * `rs_piece_gk1d_any`, `cav_piece_gk1d_any`: a piece that carries a value carries the result
    of the quadrature of `f·g'` over exactly that piece, arbitrary closures;
  * `chain_integral_sum`: the interval integrals of a continuous function over the pieces of a
    chain add up;  `abs_sum_sub_sum_le_real`: piece errors add up.
-/
import Cav.Thm.C01Approx
import Cav.Thm.C07
import Cav.Thm.C07Accuracy

open Cav Num Gen
namespace Cav.C07Approx
open Cav.C01 Cav.C01Approx Cav.C07Accuracy

/-! ### one quadrature call, all bounds -/

/-- the rational accuracy bound of one piece for the approximable class -/
def pieceBoundApprox (cs : List Rat) (δ a b : Rat) : Rat :=
  |(b - a) / 2| * (1 / 10 ^ 16 * absPolyAt cs (max |a| |b|) + kronrodW * δ)

/-- the real accuracy bound of one piece: quadrature defect + rounding/approximation seen by
    the rule (`W·(ε+η)`) + approximation of the true integrand by the polynomial (`|b−a|·ε`) -/
noncomputable def pieceBoundR (cs : List Rat) (ε η : ℝ) (a b : Rat) : ℝ :=
  |((b : ℝ) - a) / 2| * (1 / 10 ^ 16 * ((absPolyAt cs (max |a| |b|) : Rat) : ℝ) +
    (kronrodW : ℝ) * (ε + η)) + |(b : ℝ) - a| * ε

theorem gk1d_same (f : Rat → Rat) (a tol : Rat) (mi : Option Nat) :
    (gk1d f a a tol mi).res = .ok (0, 0) := by
  have hb : Num.beq a a = true := decide_eq_true rfl
  have := (C10.gk1d_eq_bounds f a a tol mi hb).1
  rwa [QuadTiling.zero_eq] at this

/-- `gk1d` on an integrand within `δ` of a polynomial of degree ≤ 31, ANY bounds -/
theorem gk1d_approx_piece (cs : List Rat) (hdeg : cs.length ≤ 32) (f : Rat → Rat)
    (a b tol δ : Rat) (mi : Option Nat) (v e : Rat)
    (hf : a ≠ b → ∀ x, min a b ≤ x → x ≤ max a b → |f x - evalPoly cs x| ≤ δ)
    (h : (gk1d f a b tol mi).res = .ok (v, e)) :
    |v - exactInt cs a b| ≤ pieceBoundApprox cs δ a b ∧ 0 ≤ e ∧
      ((a ≠ b ∨ 0 < tol) → e < tol) := by
  by_cases hab : a = b
  · subst hab
    rw [gk1d_same] at h
    cases h
    rw [exactInt_same, pieceBoundApprox]
    refine ⟨by simp, le_refl _, ?_⟩
    rintro (h1 | h1)
    · exact absurd rfl h1
    · exact h1
  · obtain ⟨h1, h2, h3⟩ := gk1d_approx_accuracy_rat cs hdeg f a b tol δ mi v e hab (hf hab) h
    exact ⟨h1, h3, fun _ => h2⟩

/-- the same against the interval integral of a continuous real function -/
theorem gk1d_approx_piece_real (cs : List Rat) (hdeg : cs.length ≤ 32) (F : ℝ → ℝ)
    (hFc : Continuous F) (f : Rat → Rat) (a b tol : Rat) (ε η : ℝ) (mi : Option Nat) (v e : Rat)
    (hF : a ≠ b → ∀ x ∈ Set.uIcc (a : ℝ) (b : ℝ), |F x - evalPolyR cs x| ≤ ε)
    (hf : a ≠ b → ∀ x : Rat, min a b ≤ x → x ≤ max a b → |((f x : Rat) : ℝ) - F (x : ℝ)| ≤ η)
    (h : (gk1d f a b tol mi).res = .ok (v, e)) :
    |(v : ℝ) - ∫ x in (a : ℝ)..(b : ℝ), F x| ≤ pieceBoundR cs ε η a b ∧ 0 ≤ e ∧
      ((a ≠ b ∨ 0 < tol) → e < tol) := by
  by_cases hab : a = b
  · subst hab
    rw [gk1d_same] at h
    cases h
    rw [intervalIntegral.integral_same, pieceBoundR]
    refine ⟨by simp, le_refl _, ?_⟩
    rintro (h1 | h1)
    · exact absurd rfl h1
    · exact h1
  · obtain ⟨h1, h2, h3⟩ := gk1d_approx_accuracy_continuous cs hdeg F hFc f a b tol ε η mi v e hab
      (hF hab) (hf hab) h
    exact ⟨h1, h3, fun _ => h2⟩

/-! ### what the value of a piece is -/

/-- RS display, arbitrary closures: a piece carrying a value carries the quadrature of `f·g'`
    over that piece -/
theorem rs_piece_gk1d_any (f g : AD Rat → AD Rat) (ivs : List (Rat × Rat)) (cfg : Cfg2D Rat)
    (ds : List (Disp2D Rat)) (h : genDisplayRs f g ivs cfg = .ok ds)
    (d : Disp2D Rat) (hd : d ∈ ds) (w : Rat × Rat) (hw : d.integ = some w) :
    (gk1d (fun x => D1.f f x * D1.df g x) d.a d.b cfg.tol (some cfg.maxIntIters)).res = .ok w := by
  have hc : cfg.computeInteg = true := by
    by_contra hn
    have := (C07.rs_integ_none_iff _ _ _ _ _ h d hd).mpr (by simpa using hn)
    rw [this] at hw; cases hw
  obtain ⟨w', hw', hg⟩ := C07.rs_piece_integ_is_gk1d _ _ _ _ _ h d hd hc
  rw [hw] at hw'; cases hw'
  exact hg

/-- Cavalieri display, arbitrary closures: integrator `g = cavG f c (c 0)` -/
theorem cav_piece_gk1d_any (f c : AD Rat → AD Rat) (ivs : List (Rat × Rat)) (cfg : Cfg2D Rat)
    (ds : List (Disp2D Rat)) (h : genDisplayCav f c ivs cfg = .ok ds)
    (d : Disp2D Rat) (hd : d ∈ ds) (w : Rat × Rat) (hw : d.integ = some w) :
    (gk1d (fun x => D1.f f x * D1.df (cavG f c (D1.f c zero)) x) d.a d.b cfg.tol
      (some cfg.maxIntIters)).res = .ok w := by
  have hc : cfg.computeInteg = true := by
    by_contra hn
    have := (C07.integ_none_iff _ _ _ _ _ h d hd).mpr (by simpa using hn)
    rw [this] at hw; cases hw
  obtain ⟨w', hw', hg⟩ := C07.piece_integ_is_gk1d _ _ _ _ _ h d hd hc
  rw [hw] at hw'; cases hw'
  exact hg

/-! ### sums over the pieces -/

theorem abs_sum_sub_sum_le_real {ι : Type} (L : List ι) (f g B : ι → ℝ)
    (h : ∀ p ∈ L, |f p - g p| ≤ B p) :
    |(L.map f).sum - (L.map g).sum| ≤ (L.map B).sum := by
  induction L with
  | nil => simp
  | cons p ps ih =>
    simp only [List.map_cons, List.sum_cons]
    have h1 := h p List.mem_cons_self
    have h2 := ih (fun q hq => h q (List.mem_cons_of_mem _ hq))
    calc |f p + (ps.map f).sum - (g p + (ps.map g).sum)|
        = |(f p - g p) + ((ps.map f).sum - (ps.map g).sum)| := by congr 1; ring
      _ ≤ |f p - g p| + |(ps.map f).sum - (ps.map g).sum| := abs_add_le _ _
      _ ≤ B p + (ps.map B).sum := add_le_add h1 h2

/-- the interval integrals of a continuous function over the pieces of a chain from `a` to `b`
    add up to the integral from `a` to `b` (whatever the order of the split points) -/
theorem chain_integral_sum (F : ℝ → ℝ) (hFc : Continuous F) (a b : Rat) (L : List (Rat × Rat))
    (h : C02.IsChain a b L) :
    (L.map (fun p => ∫ x in (p.1 : ℝ)..(p.2 : ℝ), F x)).sum = ∫ x in (a : ℝ)..(b : ℝ), F x := by
  induction L generalizing a with
  | nil => exact absurd h (by simp [C02.IsChain])
  | cons p rest ih =>
    cases rest with
    | nil =>
      obtain ⟨h1, h2⟩ := h
      simp [h1, h2]
    | cons q rest' =>
      obtain ⟨h1, h2⟩ := h
      rw [List.map_cons, List.sum_cons, ih _ h2, h1]
      exact intervalIntegral.integral_add_adjacent_intervals (hFc.intervalIntegrable _ _)
        (hFc.intervalIntegrable _ _)

/-- sum of the piece errors against the integral over `[a,b]`, given a per-piece bound -/
theorem total_of_pieces_real (F : ℝ → ℝ) (hFc : Continuous F) (a b : Rat)
    (ds : List (Disp2D Rat)) (hch : C02.IsChain a b (ds.map fun d => (d.a, d.b)))
    (B : Disp2D Rat → ℝ)
    (hp : ∀ d ∈ ds, |((reportedValue d : Rat) : ℝ) - ∫ x in (d.a : ℝ)..(d.b : ℝ), F x| ≤ B d) :
    |(((ds.map reportedValue).sum : Rat) : ℝ) - ∫ x in (a : ℝ)..(b : ℝ), F x| ≤
      (ds.map B).sum := by
  have hs := chain_integral_sum F hFc a b _ hch
  rw [List.map_map] at hs
  rw [← hs, Rat.cast_list_sum, List.map_map]
  exact abs_sum_sub_sum_le_real ds _ _ B hp

/-! ### directed chains: the pieces lie in `[a,b]` and the bounds add up to the bound of `[a,b]` -/

/-- a piece of a directed chain lies in the closed hull of `a, b` -/
theorem chain_piece_hull {a b : Rat} {L : List (Rat × Rat)} (hc : C02.IsChain a b L)
    (hd : C02.Directed a b L) (hab : a ≠ b) (p : Rat × Rat) (hp : p ∈ L) :
    min a b ≤ min p.1 p.2 ∧ max p.1 p.2 ≤ max a b := by
  rcases chain_piece_bounds hc hd hab p hp with ⟨h0, h1, h2, h3⟩ | ⟨h0, h1, h2, h3⟩
  · rw [min_eq_left h0.le, max_eq_right h0.le, min_eq_left h2.le, max_eq_right h2.le]
    exact ⟨h1, h3⟩
  · rw [min_eq_right h0.le, max_eq_left h0.le, min_eq_right h2.le, max_eq_left h2.le]
    exact ⟨h1, h3⟩

/-- the real piece lies in the real interval -/
theorem chain_piece_uIcc {a b : Rat} {L : List (Rat × Rat)} (hc : C02.IsChain a b L)
    (hd : C02.Directed a b L) (hab : a ≠ b) (p : Rat × Rat) (hp : p ∈ L) :
    Set.uIcc (p.1 : ℝ) (p.2 : ℝ) ⊆ Set.uIcc (a : ℝ) (b : ℝ) := by
  obtain ⟨h1, h2⟩ := chain_piece_hull hc hd hab p hp
  intro x hx
  rw [Set.uIcc, Set.mem_Icc] at hx ⊢
  have h1' := (Rat.cast_le (K := ℝ)).mpr h1
  have h2' := (Rat.cast_le (K := ℝ)).mpr h2
  rw [Rat.cast_min, Rat.cast_min] at h1'
  rw [Rat.cast_max, Rat.cast_max] at h2'
  exact ⟨le_trans h1' hx.1, le_trans hx.2 h2'⟩

/-- for a directed chain the real piece bounds sum to at most the bound of the whole interval -/
theorem pieceBoundR_sum_le (cs : List Rat) (ε η : ℝ) (a b : Rat) (hab : a ≠ b)
    (L : List (Rat × Rat)) (hc : C02.IsChain a b L) (hd : C02.Directed a b L) :
    (L.map (fun p => pieceBoundR cs ε η p.1 p.2)).sum ≤ pieceBoundR cs ε η a b := by
  have h1 : (L.map (fun p => pieceBoundR cs ε η p.1 p.2)).sum ≤
      (L.map (fun p => ((|p.2 - p.1| : Rat) : ℝ) *
        (1 / 2 * (1 / 10 ^ 16 * ((absPolyAt cs (max |a| |b|) : Rat) : ℝ) +
          (kronrodW : ℝ) * (ε + η)) + ε))).sum := by
    apply List.sum_le_sum
    intro p hp
    have hmono : ((absPolyAt cs (max |p.1| |p.2|) : Rat) : ℝ) ≤
        ((absPolyAt cs (max |a| |b|) : Rat) : ℝ) :=
      (Rat.cast_le (K := ℝ)).mpr (absPolyAt_mono cs
        (le_trans (abs_nonneg p.1) (le_max_left _ _)) (chain_piece_abs_le hc hd hab p hp))
    have ht : (0 : ℝ) ≤ |(p.2 : ℝ) - p.1| := abs_nonneg _
    simp only [pieceBoundR]
    rw [abs_div, abs_two, Rat.cast_abs, Rat.cast_sub]
    nlinarith [mul_nonneg ht (sub_nonneg.mpr hmono)]
  refine le_trans h1 (le_of_eq ?_)
  have hs := congrArg (fun q : Rat => (q : ℝ)) (chain_abs_length_sum hc hd hab)
  simp only [Rat.cast_list_sum, List.map_map] at hs
  rw [List.sum_map_mul_right]
  have : (L.map (fun p : Rat × Rat => ((|p.2 - p.1| : Rat) : ℝ))).sum = ((|b - a| : Rat) : ℝ) := by
    rw [← hs]; rfl
  rw [this, pieceBoundR, abs_div, abs_two, Rat.cast_abs, Rat.cast_sub]
  ring

end Cav.C07Approx
