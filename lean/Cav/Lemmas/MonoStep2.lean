/-
  Preservation of the invariant `MInv` by a Bend on the top chain (`stepT`) and the End event
  (`stepE`).
-/
import Cav.Lemmas.MonoStep

set_option linter.unusedSimpArgs false
set_option linter.unusedVariables false

namespace Cav.MonoStep
open Cav Num Cav.Geo Cav.Sweep Cav.SweepRun Cav.TriRun Cav.QuadRun Cav.TriEvents Cav.QuadGeom
open Cav.CvxHeap Cav.CvxEvents Cav.CvxFlows Cav.CvxGeom Cav.CvxLoop Cav.MonoHeap Cav.MonoGeom
open Cav.MonoFan Cav.MonoConv Cav.MonoFlows Cav.MonoInv Cav.MonoRun

section
variable {V : Array (Vtx XQ)} {mB mT : Nat} {bi ti : Nat → Nat} {b t : Nat → Rat × Rat}

/-- the complete fan from a new tail over a chain linked from the head (mode A): the tail view,
    its fan and its first pair -/
theorem modeA_tail (hC : MConv V mB mT bi ti b t) {i j : Nat} (hi : i < mB) (hj : j < mT)
    {N : Array (Node XQ)} {iB iT : Nat} {l : List (Nat × Q)} (xs : Rat)
    (x1 : (b i).1 ≤ xs) (x4 : xs < (t (j + 1)).1)
    (hseg : Seg N none (hp l) none) (hG : CG 1 b i iB iT (t j) N.size l) :
    ∃ r0 ys, l = (iB, b i) :: r0 ∧ l.reverse = (iT, t j) :: ys ∧
      l.reverse = r0.reverse ++ [(iB, b i)] ∧ l.reverse.getLast? = some (iB, b i) ∧
      SegR N none (hp l.reverse) none ∧ ((l.reverse).map Prod.fst).Nodup ∧
      FanQ (-1) (t (j + 1)) ((r0.reverse ++ [(iB, b i)]).map Prod.snd) := by
  obtain ⟨r0, hr0⟩ := hG.first
  obtain ⟨ys, hys⟩ := List.getLast?_eq_some_iff.mp hG.last
  have hrev : l.reverse = r0.reverse ++ [(iB, b i)] := by rw [hr0]; simp
  refine ⟨r0, ys.reverse, hr0, by rw [hys]; simp, hrev, by rw [hrev]; simp, ?_, ?_, ?_⟩
  · have := (seg_iff_segR N (hp l) none none).mp hseg
    simpa [hp] using this
  · rw [List.map_reverse]; exact List.nodup_reverse.mpr hG.nd
  · rw [← hrev]
    have hxi : XInc ((l.reverse).map Prod.snd) := by
      rw [List.map_reverse]; exact XDec.reverse hG.xd
    have hnt : NoTurn (-1) ((l.reverse).map Prod.snd) := by
      rw [List.map_reverse]; exact NoTurn.reverse hG.nt
    apply fan_first (-1) (t (j + 1)) _ hxi hnt
    · intro q hq
      obtain ⟨x, hx, rfl⟩ := mem_pts hq
      have hle : x.2.1 ≤ (b i).1 := hG.x_le x (List.mem_reverse.mp hx)
      linarith
    · intro c0 c1 r hc
      obtain ⟨e0, k, hk0, hki, e1, hlt'⟩ := hG.first_two_rev hc
      subst e0; subst e1
      have hkx : (b k).1 < (t (j + 1)).1 := by
        obtain ⟨x, hx, hx2⟩ := mem_pts (l := l.reverse) (q := b k) (by rw [hc]; simp)
        have := hG.x_le x (List.mem_reverse.mp hx)
        rw [hx2] at this; linarith
      have := hC.sB k j hk0 (by omega) hj hlt' hkx
      have e : orient (t (j + 1)) (t j) (b k) = - orient (t j) (t (j + 1)) (b k) := by
        unfold orient; ring
      rw [e]; linarith

/-- a Bend on the top chain keeps the invariant -/
theorem stepT (hC : MConv V mB mT bi ti b t) {i j : Nat} (hi : i < mB) (hj1 : j + 1 < mT)
    (hlt : (t (j + 1)).1 < (b (i + 1)).1) {s : St XQ} (hinv : MInv V mB mT bi ti b t i j s) :
    ∃ s', Runs s (.ok ((), s')) handleNext ∧ MInv V mB mT bi ti b t i (j + 1) s' := by
  obtain ⟨xs, N, rm, iB, iT, evs, out, l, rfl, x1, x2, x3, x4, hq, hmode⟩ := hinv
  have hev : evs = [(ti (j + 1), [1]), (bi (i + 1), [0])] := by
    rcases hq with ⟨-, e2, -⟩ | ⟨h, -⟩ | ⟨-, h⟩
    · omega
    · exact absurd hlt (lt_asymm h)
    · exact h
  subst hev
  have xnew : (t (j + 1)).1 < (t (j + 2)).1 := hC.xT (j + 1) hj1
  have x1' : (b i).1 ≤ (t (j + 1)).1 := le_of_lt (lt_of_le_of_lt x1 x4)
  have hq' := hC.queue_T i (j + 1) hi hj1
  have hut : IsVtx mB mT b t (Fq (t (j + 1))) := isVtx_t (j + 1) (by omega)
  rcases hmode with ⟨hseg, hG, hcnt, hok, harea⟩ | ⟨hseg, hG, hcnt, hok, harea⟩
  · -- mode A: the new tail sees the whole chain
    obtain ⟨r0, ys, hr0, hfirstT, hrev, hlastT, hsegT, hndT, hfan⟩ :=
      modeA_tail hC hi (by omega) xs x1 x4 hseg hG
    have hxg : (t (j + 1)).1 ≠ (iB, b i).2.1 := ne_of_gt (lt_of_le_of_lt x1 x4)
    obtain ⟨N2, hrun, hseg2, hsz⟩ := top_run hC hi hj1 xs N rm iB iT out x1 x4 hlt l.reverse
      ys hfirstT hlastT hsegT hndT (by simpa using hG.len) hrev hfan
      (fun h r e => by cases e) hxg (fun h r e => by cases e)
    have hG' := hG.other_end (c' := t) (ic' := j) (u := t (j + 1)) rfl (lt_of_le_of_lt x1 x4)
    have hv : ∀ q ∈ (r0.reverse ++ [(iB, b i)]).map Prod.snd, IsVtx mB mT b t (Fq q) := by
      intro q hq
      rw [← hrev] at hq
      obtain ⟨x, hx, rfl⟩ := mem_pts hq
      exact hG.all (P := fun q => IsVtx mB mT b t (Fq q)) (isV_b hC i (by omega))
        (isVtx_t j (by omega)) x (List.mem_reverse.mp hx)
    obtain ⟨p1, p2, p3⟩ := trisB_props (t (j + 1)) hut _ hfan hv
    rw [← hrev] at p2 p3
    obtain ⟨c1, c2⟩ := acct_other 1 (t (j + 1)) (b i) (t j) iB iT N.size l out _
      (chainSum b i - chainSum t j) (i + j + 1) hG.first hG.last p3 (by rw [p2]; ring) hcnt harea
    rw [hrev] at c1 c2
    refine ⟨_, hrun, (t (j + 1)).1, N2, N.size, iB, N.size, _, _, [(N.size, t (j + 1)), (iB, b i)],
      rfl, x1', le_refl _, hlt, xnew, hq', Or.inr ⟨hseg2, ?_, ?_, ?_, ?_⟩⟩
    · rw [hsz]; exact hG'
    · simp only [List.length_cons, List.length_nil]; omega
    · intro tr htr
      rcases List.mem_append.mp htr with h | h
      · exact p1 tr h
      · exact hok tr h
    · rw [c2]; simp only [chainSum, List.map_cons, List.map_nil, pathSum]
      unfold cross; ring
  · -- mode B: the maximal fan from the new tail
    obtain ⟨r0, hr0⟩ := hG.first
    obtain ⟨mid, g, rest, hs, hfan, hstop⟩ := fanQ_split (-1) (t (j + 1)) l hG.ne_nil
    have hgl : g ∈ l := by rw [hs]; simp
    have hxg : (t (j + 1)).1 ≠ g.2.1 :=
      ne_of_gt (lt_of_le_of_lt (hG.x_le g hgl) (hC.xT j (by omega)))
    obtain ⟨N2, hrun, hseg2, hsz⟩ := top_run hC hi hj1 xs N rm iB iT out x1 x4 hlt l r0 hr0
      hG.last hseg hG.nd hG.len hs hfan hstop hxg (stop_x hG.xd hs)
    have hG' := hG.same_end (u := t (j + 1)) rfl (hC.xT j (by omega)) hs hstop
    have hv : ∀ q ∈ (mid ++ [g]).map Prod.snd, IsVtx mB mT b t (Fq q) := by
      intro q hq
      obtain ⟨x, hx, rfl⟩ := mem_pts hq
      have hxl : x ∈ l := by
        rw [hs]
        rcases List.mem_append.mp hx with h | h
        · exact List.mem_append_left _ h
        · simp only [List.mem_singleton] at h; subst h; simp
      exact hG.all (P := fun q => IsVtx mB mT b t (Fq q)) (isV_t hC j (by omega))
        (isVtx_b i (by omega)) x hxl
    obtain ⟨p1, p2, p3⟩ := trisB_props (t (j + 1)) hut _ hfan hv
    obtain ⟨c1, c2⟩ := acct_same (-1) (t (j + 1)) (t j) iT N.size l mid g rest out _
      (chainSum b i - chainSum t j) (i + j + 1) hs hG.first p3 (by rw [p2]; ring) hcnt harea
    refine ⟨_, hrun, (t (j + 1)).1, N2, N.size, iB, N.size, _, _, (N.size, t (j + 1)) :: g :: rest,
      rfl, x1', le_refl _, hlt, xnew, hq', Or.inr ⟨hseg2, by rw [hsz]; exact hG', ?_, ?_, ?_⟩⟩
    · rw [c1]; omega
    · intro tr htr
      rcases List.mem_append.mp htr with h | h
      · exact p1 tr h
      · exact hok tr h
    · rw [c2]; simp only [chainSum]; ring

end

end Cav.MonoStep
