/-
  The End event from the invariant `MInv`: the whole remaining back-chain is cut (`stepE`), and
  the Start event establishes the invariant (`stepS`).
-/
import Cav.Lemmas.MonoStep2

set_option linter.unusedSimpArgs false
set_option linter.unusedVariables false

namespace Cav.MonoStep
open Cav Num Cav.Geo Cav.Sweep Cav.SweepRun Cav.TriRun Cav.QuadRun Cav.TriEvents Cav.QuadGeom
open Cav.CvxHeap Cav.CvxEvents Cav.CvxFlows Cav.CvxGeom Cav.CvxLoop Cav.MonoHeap Cav.MonoGeom
open Cav.MonoFan Cav.MonoConv Cav.MonoFlows Cav.MonoInv Cav.MonoRun

/-- the state after the End event -/
def MFinal (V : Array (Vtx XQ)) (mB mT : Nat) (b t : Nat → Q) (s : St XQ) : Prop :=
  ∃ x N rm iB iT rB rT out, s = stE V x N rm iB iT rB rT out ∧ out.length = mB + mT - 2 ∧
    (∀ tr ∈ out, TriOK mB mT b t tr ∧ 0 < triArea tr) ∧ areaSum out = SAtot mB mT b t

section
variable {V : Array (Vtx XQ)} {mB mT : Nat} {bi ti : Nat → Nat} {b t : Nat → Rat × Rat}

theorem stepE (hC : MConv V mB mT bi ti b t) {i j : Nat} (ei : i + 1 = mB) (ej : j + 1 = mT)
    {s : St XQ} (hinv : MInv V mB mT bi ti b t i j s) :
    ∃ s', Runs s (.ok ((), s')) handleNext ∧ MFinal V mB mT b t s' := by
  obtain ⟨xs, N, rm, iB, iT, evs, out, l, rfl, x1, x2, x3, x4, hq, hmode⟩ := hinv
  have hpR : b (i + 1) = t (j + 1) := by rw [ei, ej]; exact hC.pR
  have hes : ∃ es, evs = [(bi mB, es)] ∧ (es = [0, 1] ∨ es = [1, 0]) := by
    rcases hq with ⟨-, -, h | h⟩ | ⟨h, -⟩ | ⟨h, -⟩
    · exact ⟨_, h, Or.inl rfl⟩
    · exact ⟨_, h, Or.inr rfl⟩
    · rw [hpR] at h; exact absurd h (lt_irrefl _)
    · rw [hpR] at h; exact absurd h (lt_irrefl _)
  obtain ⟨es, rfl, hes⟩ := hes
  rw [← hpR, ei]
  rw [ei] at x3
  have hR : IsVtx mB mT b t (Fq (b mB)) := isVtx_b mB (le_refl _)
  have hx4 : xs < (t (j + 1)).1 := x4
  have hSA : SAtot mB mT b t =
      chainSum b i - chainSum t j + cross (b i) (b mB) - cross (t j) (b mB) := by
    unfold SAtot
    rw [← ei, ← ej]
    simp only [chainSum]
    rw [← hpR, ei]; ring
  rcases hmode with ⟨hseg, hG, hcnt, hok, harea⟩ | ⟨hseg, hG, hcnt, hok, harea⟩
  · -- mode A: the new tail sees the whole chain
    obtain ⟨r0, ys, hr0, hfirstT, hrev, hlastT, hsegT, hndT, hfan⟩ :=
      modeA_tail hC (by omega) (by omega) xs x1 x4 hseg hG
    have eR : t (j + 1) = b mB := by rw [← hpR, ei]
    rw [eR] at hfan
    have hxg : (b mB).1 ≠ (iB, b i).2.1 := ne_of_gt (lt_of_le_of_lt x1 x3)
    obtain ⟨N2, hrun, hseg2, hsz⟩ := end_run hC ei ej xs N rm iB iT out es hes x1 x2 x3 l.reverse
      ys hfirstT hlastT hsegT hndT (by simpa using hG.len) hrev hfan
      (fun h r e => by cases e) hxg (fun h r e => by cases e)
    have hv : ∀ q ∈ (r0.reverse ++ [(iB, b i)]).map Prod.snd, IsVtx mB mT b t (Fq q) := by
      intro q hq
      rw [← hrev] at hq
      obtain ⟨x, hx, rfl⟩ := mem_pts hq
      exact hG.all (P := fun q => IsVtx mB mT b t (Fq q)) (isV_b hC i (by omega))
        (isVtx_t j (by omega)) x (List.mem_reverse.mp hx)
    obtain ⟨p1, p2, p3⟩ := trisB_props (b mB) hR _ hfan hv
    rw [← hrev] at p2 p3
    obtain ⟨c1, c2⟩ := acct_other 1 (b mB) (b i) (t j) iB iT N.size l out _
      (chainSum b i - chainSum t j) (i + j + 1) hG.first hG.last p3 (by rw [p2]; ring) hcnt harea
    rw [hrev] at c1 c2
    refine ⟨_, hrun, _, _, _, _, _, _, _, _, rfl, by omega, ?_, ?_⟩
    · intro tr htr
      rcases List.mem_append.mp htr with h | h
      · exact p1 tr h
      · exact hok tr h
    · rw [c2, hSA]; simp only [pathSum]; unfold cross; ring
  · -- mode B: the last edge is seen, hence the whole chain
    obtain ⟨r0, hr0⟩ := hG.first
    obtain ⟨ys, hys⟩ := List.getLast?_eq_some_iff.mp hG.last
    have hfan : FanQ (-1) (b mB) ((ys ++ [(iB, b i)]).map Prod.snd) := by
      rw [← hys]
      apply fan_last (-1) (b mB) _ hG.xd hG.nt
      · intro q hq
        obtain ⟨x, hx, rfl⟩ := mem_pts hq
        have hle : x.2.1 ≤ (t j).1 := hG.x_le x hx
        linarith
      · intro pre y z hc
        obtain ⟨e0, k, hk0, hkj, e1, hlt'⟩ := hG.last_two hc
        subst e0; subst e1
        have hkx : (t k).1 < (b (i + 1)).1 := by
          obtain ⟨x, hx, hx2⟩ := mem_pts (l := l) (q := t k) (by rw [hc]; simp)
          have := hG.x_le x hx
          rw [hx2] at this; rw [ei]; linarith
        have := hC.sT k i hk0 (by omega) (by omega) hlt' hkx
        rw [ei] at this
        have e : orient (b mB) (t k) (b i) = orient (b i) (b mB) (t k) := by
          unfold orient; ring
        rw [e]; linarith
    have hxg : (b mB).1 ≠ (iB, b i).2.1 := ne_of_gt (lt_of_le_of_lt x1 x3)
    obtain ⟨N2, hrun, hseg2, hsz⟩ := end_run hC ei ej xs N rm iB iT out es hes x1 x2 x3 l
      r0 hr0 hG.last hseg hG.nd hG.len hys hfan
      (fun h r e => by cases e) hxg (fun h r e => by cases e)
    have hv : ∀ q ∈ (ys ++ [(iB, b i)]).map Prod.snd, IsVtx mB mT b t (Fq q) := by
      intro q hq
      rw [← hys] at hq
      obtain ⟨x, hx, rfl⟩ := mem_pts hq
      exact hG.all (P := fun q => IsVtx mB mT b t (Fq q)) (isV_t hC j (by omega))
        (isVtx_b i (by omega)) x hx
    obtain ⟨p1, p2, p3⟩ := trisB_props (b mB) hR _ hfan hv
    obtain ⟨c1, c2⟩ := acct_same (-1) (b mB) (t j) iT N.size l ys (iB, b i) [] out _
      (chainSum b i - chainSum t j) (i + j + 1) hys hG.first p3 (by rw [p2]; ring) hcnt harea
    refine ⟨_, hrun, _, _, _, _, _, _, _, _, rfl, ?_, ?_, ?_⟩
    · simp only [List.length_cons, List.length_nil] at c1; omega
    · intro tr htr
      rcases List.mem_append.mp htr with h | h
      · exact p1 tr h
      · exact hok tr h
    · rw [c2, hSA]; simp only [List.map_cons, List.map_nil, pathSum]; unfold cross; ring

/-- the Start event establishes the invariant -/
theorem stepS (hC : MConv V mB mT bi ti b t) :
    ∃ s', Runs (stQ V [(bi 0, [])]) (.ok ((), s')) handleNext ∧ MInv V mB mT bi ti b t 0 0 s' := by
  have h3 := hC.three
  have hB := hC.hB
  have hT := hC.hT
  obtain ⟨l1, l2, hL, hl⟩ := hC.vL
  obtain ⟨a1, a2, h1⟩ := hC.lkB 1 hB
  obtain ⟨a3, a4, h2⟩ := hC.lkT 1 hT
  have xLB : (b 0).1 < (b 1).1 := hC.xB 0 (by omega)
  have xLT : (b 0).1 < (t 1).1 := by rw [hC.p0]; exact hC.xT 0 (by omega)
  have ho : 0 < orient (b 0) (b 1) (t 1) := by
    rcases lt_trichotomy (b 1).1 (t 1).1 with h | h | h
    · have h1B : 1 < mB := by
        rcases Nat.lt_or_ge 1 mB with h' | h'
        · exact h'
        · exfalso
          have e : mB = 1 := by omega
          have := hC.xT_le_R 1 hT
          rw [e] at this; linarith
      have := hC.sB 1 0 (by omega) h1B (by omega) (by rw [← hC.p0]; exact xLB) h
      rw [hC.p0]
      have e : orient (t 0) (b 1) (t 1) = - orient (t 0) (t (0 + 1)) (b 1) := by
        unfold orient; ring
      rw [e]; linarith
    · exfalso
      obtain ⟨e1, e2⟩ := hC.pend_x 1 1 (by omega) hB (by omega) hT h
      omega
    · have h1T : 1 < mT := by
        rcases Nat.lt_or_ge 1 mT with h' | h'
        · exact h'
        · exfalso
          have e : mT = 1 := by omega
          have := hC.xB_le_R 1 hB
          rw [hC.pR, e] at this; linarith
      exact hC.sT 1 0 (by omega) h1T (by omega) xLT h
  have hrun := start_fin V (b 1) (t 1) (bi 1) a1 a2 (bi 0) (ti 1) l1 l2 a3 a4 (b 0) hL hl h1 h2
    xLB xLT ho
  refine ⟨_, hrun, (b 0).1, _, 0, 0, 0, _, [], [(0, b 0)], rfl, le_refl _, by rw [hC.p0], xLB, xLT,
    hC.queue_T 0 0 (by omega) (by omega), Or.inl ⟨⟨rfl, trivial⟩, ?_, ?_⟩⟩
  · refine ⟨by simp, by simp, by simp, ⟨[], rfl⟩, by simp [hC.p0], trivial, trivial, by simp⟩
  · refine ⟨by simp, by simp, ?_⟩
    simp [areaSum, chainSum, pathSum]

theorem MInv.events_ne {i j : Nat} {s : St XQ} (h : MInv V mB mT bi ti b t i j s) :
    s.events.isEmpty = false := by
  obtain ⟨xs, N, rm, iB, iT, evs, out, l, rfl, -, -, -, -, hq, -⟩ := h
  rcases hq with ⟨-, -, h | h⟩ | ⟨-, h⟩ | ⟨-, h⟩ <;> (rw [h]; rfl)

/-- **the event loop from a state satisfying the invariant** -/
theorem loop_minv (hC : MConv V mB mT bi ti b t) :
    ∀ (k i j : Nat), i < mB → j < mT → (mB - 1 - i) + (mT - 1 - j) = k →
    ∀ (s : St XQ), MInv V mB mT bi ti b t i j s → ∀ fuel, k + 2 ≤ fuel →
      ∃ s', (loop fuel).run s = .ok ((), s') ∧ MFinal V mB mT b t s' := by
  intro k
  induction k with
  | zero =>
    intro i j hi hj hk s hinv fuel hf
    obtain ⟨fuel, rfl⟩ : ∃ f, fuel = f + 2 := ⟨fuel - 2, by omega⟩
    obtain ⟨s', hrun, hfin⟩ := stepE hC (by omega) (by omega) hinv
    rw [loop_step_run hrun hinv.events_ne, loop_succ_run]
    obtain ⟨x, N, rm, iB, iT, rB, rT, out, rfl, h⟩ := hfin
    exact ⟨_, rfl, _, _, _, _, _, _, _, _, rfl, h⟩
  | succ k ih =>
    intro i j hi hj hk s hinv fuel hf
    obtain ⟨fuel, rfl⟩ : ∃ f, fuel = f + 1 := ⟨fuel - 1, by omega⟩
    rcases lt_trichotomy (b (i + 1)).1 (t (j + 1)).1 with h | h | h
    · have hi1 : i + 1 < mB := by
        rcases Nat.lt_or_ge (i + 1) mB with h' | h'
        · exact h'
        · exfalso
          have e : i + 1 = mB := by omega
          have := hC.xT_le_R (j + 1) (by omega)
          rw [e] at h; linarith
      obtain ⟨s1, hrun, hinv1⟩ := stepB hC hi1 hj h hinv
      rw [loop_step_run hrun hinv.events_ne]
      exact ih (i + 1) j hi1 hj (by omega) s1 hinv1 fuel (by omega)
    · exfalso
      obtain ⟨e1, e2⟩ := hC.pend_x (i + 1) (j + 1) (by omega) (by omega) (by omega) (by omega) h
      omega
    · have hj1 : j + 1 < mT := by
        rcases Nat.lt_or_ge (j + 1) mT with h' | h'
        · exact h'
        · exfalso
          have e : j + 1 = mT := by omega
          have := hC.xB_le_R (i + 1) (by omega)
          rw [e, ← hC.pR] at h; linarith
      obtain ⟨s1, hrun, hinv1⟩ := stepT hC hi hj1 h hinv
      rw [loop_step_run hrun hinv.events_ne]
      exact ih i (j + 1) hi hj1 (by omega) s1 hinv1 fuel (by omega)

/-- **the whole event loop** of a simple x-monotone polygon -/
theorem loop_mono (hC : MConv V mB mT bi ti b t) (fuel : Nat) (hf : mB + mT + 1 ≤ fuel) :
    ∃ s', (loop fuel).run (stQ V [(bi 0, [])]) = .ok ((), s') ∧ s'.mono = true ∧
      s'.out.length = mB + mT - 2 ∧ (∀ tr ∈ s'.out, TriOK mB mT b t tr ∧ 0 < triArea tr) ∧
      areaSum s'.out = SAtot mB mT b t := by
  have h3 := hC.three
  have hB := hC.hB
  have hT := hC.hT
  obtain ⟨fuel, rfl⟩ : ∃ f, fuel = f + 1 := ⟨fuel - 1, by omega⟩
  obtain ⟨s0, hrun, hinv⟩ := stepS hC
  rw [loop_step_run hrun rfl]
  obtain ⟨s', hs', x, N, rm, iB, iT, rB, rT, out, rfl, h1, h2, h3⟩ :=
    loop_minv hC (mB + mT - 2) 0 0 (by omega) (by omega) (by omega) s0 hinv fuel (by omega)
  exact ⟨_, hs', rfl, h1, h2, h3⟩

end

end Cav.MonoStep
