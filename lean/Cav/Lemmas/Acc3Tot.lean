/-
  Helper lemmas for `Thm/C08Accuracy`: finite triangles of the sweep, the exact value and the
  bound of one triangle as rational numbers, the constant integrand in closed form, sums over a
  triangulation.
-/
import Cav.Thm.C09Accuracy
import Cav.Lemmas.Acc3AD
import Cav.Lemmas.SweepCorners

namespace Cav.Acc3
open Cav Num Cav.Gen Cav.Geo Cav.Acc2 Cav.DispL Cav.C01 Cav.C09Accuracy Cav.C07Accuracy

/-! ### finite triangles -/

/-- the corners of a sweep triangle as rational pairs (junk `0` for non-finite coordinates) -/
def triQ (tr : Pt XQ × Pt XQ × Pt XQ) : (Rat × Rat) × (Rat × Rat) × (Rat × Rat) :=
  (toQ tr.1, toQ tr.2.1, toQ tr.2.2)

/-- the same for a stored triangle `Disp3D.triag` -/
def ratTri (T : P2 XQ × P2 XQ × P2 XQ) : (Rat × Rat) × (Rat × Rat) × (Rat × Rat) :=
  ((toRat T.1.1, toRat T.1.2), (toRat T.2.1.1, toRat T.2.1.2), (toRat T.2.2.1, toRat T.2.2.2))

theorem ratTri_triOf (tr : Pt XQ × Pt XQ × Pt XQ) : ratTri (triOf tr) = triQ tr := rfl

theorem ratTri_finTri (t : (Rat × Rat) × (Rat × Rat) × (Rat × Rat)) : ratTri (finTri t) = t := rfl

/-- all three corners have finite coordinates -/
def FinTri (tr : Pt XQ × Pt XQ × Pt XQ) : Prop := Finite tr.1 ∧ Finite tr.2.1 ∧ Finite tr.2.2

theorem triOf_fin {tr : Pt XQ × Pt XQ × Pt XQ} (h : FinTri tr) : triOf tr = finTri (triQ tr) := by
  obtain ⟨p, q, r⟩ := tr
  obtain ⟨⟨a, b, rfl⟩, ⟨c, d, rfl⟩, ⟨e, f, rfl⟩⟩ := h
  rfl

/-- the triangles of a successful sweep of finite polygons are finite -/
theorem sweep_finTri {polys : List (Array (Pt XQ))} {tris : List (Pt XQ × Pt XQ × Pt XQ)}
    (hfin : ∀ p ∈ SweepSetup.allPts polys, Finite p) (h : sweep polys = .ok tris) :
    ∀ tr ∈ tris, FinTri tr := by
  intro tr htr
  obtain ⟨h1, h2, h3⟩ := SweepCorners.sweep_corners h tr htr
  exact ⟨hfin _ h1, hfin _ h2, hfin _ h3⟩

theorem sweep_of_sweepMon {polys : List (Array (Pt XQ))} {T : List (Pt XQ × Pt XQ × Pt XQ)}
    {b : Bool} (h : sweepMon polys = .ok (T, b)) : sweep polys = .ok T := by
  unfold sweepMon at h
  unfold sweep
  cases hr : (Sweep.run polys).run (Sweep.initSt : St XQ) with
  | error e => rw [hr] at h; cases h
  | ok r =>
    rw [hr] at h
    simp only [Except.ok.injEq, Prod.mk.injEq] at h
    simp only [h.1]

/-! ### the exact value of one triangle -/

/-- **the exact value for one triangle** `t = (p0, p1, p2)` and the polynomial with the given
    terms: the iterated integral over the unit simplex of the transformed integrand,
    `∫_0^1 (∫_0^{1−s} triFactor t · f(p0 + s(p1−p0) + r(p2−p0)) dr) ds`, as a rational number
    (the inner integral is the polynomial `triInner (triPoly terms t)`) -/
def triExactQ (terms : List (Nat × Nat × Rat)) (t : (Rat × Rat) × (Rat × Rat) × (Rat × Rat)) : Rat :=
  exactInt (triInner (triPoly terms t)) 0 1

/-- … as Mathlib's interval integral (the form used in `C09Accuracy.gkTriangle_poly_accuracy`) -/
noncomputable def triIntegral (terms : List (Nat × Nat × Rat))
    (t : (Rat × Rat) × (Rat × Rat) × (Rat × Rat)) : ℝ :=
  ∫ s in ((0 : Rat) : ℝ)..((1 : Rat) : ℝ), evalPolyR (triInner (triPoly terms t)) s

theorem triIntegral_eq (terms : List (Nat × Nat × Rat))
    (t : (Rat × Rat) × (Rat × Rat) × (Rat × Rat)) :
    triIntegral terms t = ((triExactQ terms t : Rat) : ℝ) :=
  integral_eq_exactInt _ 0 1

/-- the inner integral at every rational outer abscissa `s` -/
theorem triInner_spec (terms : List (Nat × Nat × Rat))
    (t : (Rat × Rat) × (Rat × Rat) × (Rat × Rat)) (s : Rat) :
    (∀ r : Rat, evalPoly (coeffsAt (triPoly terms t) s) r = triIntegrand (evalTerms terms) t s r) ∧
    ∫ r in ((0 : Rat) : ℝ)..((1 - s : Rat) : ℝ), evalPolyR (coeffsAt (triPoly terms t) s) r =
      evalPolyR (triInner (triPoly terms t)) (s : ℝ) := by
  refine ⟨fun r => evalPoly2_triPoly terms t s r, ?_⟩
  rw [integral_eq_exactInt, ← evalPoly_triInner, evalPolyR_cast]

/-- the bound for one triangle -/
def triBoundQ (terms : List (Nat × Nat × Rat)) (t : (Rat × Rat) × (Rat × Rat) × (Rat × Rat)) : Rat :=
  triBound (triPoly terms t)

/-- `gkTriangle_poly_accuracy` as an inequality between rational numbers -/
theorem gkTriangle_terms_accuracy (terms : List (Nat × Nat × Rat)) (hdeg : DegLe 30 terms)
    (f : Rat → Rat → Rat) (hf : ∀ x y, f x y = evalTerms terms x y)
    (t : (Rat × Rat) × (Rat × Rat) × (Rat × Rat)) (tol : Rat) (mi : Option Nat) (v e : Rat)
    (h : (gkTriangle f t tol mi).res = .ok (v, e)) :
    |v - triExactQ terms t| ≤ triBoundQ terms t ∧ e < tol ∧ 0 ≤ e := by
  obtain ⟨-, -, h3, h4⟩ := gkTriangle_poly_accuracy terms hdeg f hf t tol mi v e h
  refine ⟨?_, h4⟩
  have h5 : triIntegral terms t = _ := triIntegral_eq terms t
  unfold triIntegral at h5
  rw [h5, ← Rat.cast_sub, ← Rat.cast_abs, Rat.cast_le] at h3
  exact h3

/-! ### twice the area -/

/-- `triFactor` of the rational corners is the absolute orientation determinant -/
theorem triFactor_triQ (tr : Pt XQ × Pt XQ × Pt XQ) :
    triFactor (triQ tr) = |orientPt tr.1 tr.2.1 tr.2.2| := by
  show Num.abs _ = _
  rw [numAbs_eq]
  unfold orientPt orient
  congr 1
  ring

/-! ### the constant integrand in closed form -/

theorem triPoly_const (k : Rat) (t : (Rat × Rat) × (Rat × Rat) × (Rat × Rat)) :
    triPoly [(0, 0, k)] t = [[triFactor t * k]] := by
  simp [triPoly, triPolyAux, triMono, mulLinPow]

theorem triInner_const (A : Rat) : triInner [[A]] = [A, -A] := by
  simp [triInner, triInnerAux, polyMul, polyScale, polyMulX]

/-- constant integrand `k`: the exact value is `k · area(t)` (`triFactor t` is twice the area) -/
theorem triExactQ_const (k : Rat) (t : (Rat × Rat) × (Rat × Rat) × (Rat × Rat)) :
    triExactQ [(0, 0, k)] t = k * (triFactor t / 2) := by
  rw [triExactQ, triPoly_const, triInner_const, exactInt_eq_antiDeriv]
  simp [antiDeriv, intAux]
  ring

/-- the relative accuracy constant of the constant integrand: `1e-16 · (3/2 + 1/(4e16))` -/
def constRel : Rat := 1 / 10 ^ 16 * (3 / 2 + 1 / (4 * 10 ^ 16))

/-- constant integrand `k`: the bound is `|k| · 2·area(t) · constRel` -/
theorem triBoundQ_const (k : Rat) (t : (Rat × Rat) × (Rat × Rat) × (Rat × Rat)) :
    triBoundQ [(0, 0, k)] t = |k| * triFactor t * constRel := by
  have hf : 0 ≤ triFactor t := by
    obtain ⟨p0, p1, p2⟩ := t
    show 0 ≤ Num.abs _
    rw [numAbs_eq]
    exact abs_nonneg _
  unfold triBoundQ triBound triBoundOf triEps constRel
  rw [triPoly_const, triInner_const]
  simp [absPolyAt, norm2, normL1, abs_mul, abs_of_nonneg hf]
  ring

/-! ### sums over a triangulation -/

/-- pointwise bounds add up -/
theorem sum_abs_sub_le {β γ : Type} (R : β → γ → Prop) (a : γ → Rat) (b c : β → Rat) :
    ∀ {l : List β} {r : List γ}, Forall2 R l r →
      (∀ x ∈ l, ∀ y, R x y → |a y - b x| ≤ c x) →
      |(r.map a).sum - (l.map b).sum| ≤ (l.map c).sum := by
  intro l r hf
  induction hf with
  | nil => intro _; simp
  | @cons x y l r hxy _ ih =>
    intro h
    have h1 := h x List.mem_cons_self y hxy
    have h2 := ih (fun x' hx' y' hR => h x' (List.mem_cons_of_mem _ hx') y' hR)
    simp only [List.map_cons, List.sum_cons]
    have : a y + (r.map a).sum - (b x + (l.map b).sum) =
        (a y - b x) + ((r.map a).sum - (l.map b).sum) := by ring
    rw [this]
    exact le_trans (abs_add_le _ _) (add_le_add h1 h2)

end Cav.Acc3
