/-
  `curveIdx` over `Rat`: the intermediate attachment indices
  `round((len-1)·(j+1)/(k+1))`, `j < k`, are `≤ len-1` and non-decreasing in `j`.
-/
import Cav.Model.Disp2D
import Cav.Lemmas.DispHelpers
import Mathlib.Data.Rat.Floor
import Mathlib.Algebra.Order.Floor.Ring

namespace Cav.DispL
open Cav Num Gen

theorem ratRound_nonneg (x : Rat) (hx : 0 ≤ x) : ratRound x = ((⌊x + 1/2⌋ : Int) : Rat) := by
  unfold ratRound
  rw [if_neg (not_lt.mpr hx)]
  rfl

theorem toNat_ratRound (x : Rat) (hx : 0 ≤ x) :
    (Num.toNat (Num.round x) : Nat) = ⌊x + 1/2⌋.toNat := by
  show (ratRound x).floor.toNat = _
  rw [ratRound_nonneg x hx]
  show (⌊((⌊x + 1/2⌋ : Int) : Rat)⌋).toNat = _
  rw [Int.floor_intCast]

/-- the attachment index for the `j`-th intermediate curve (`j = 0 … k-1`) -/
def midIdx (len k j : Nat) : Nat :=
  Num.toNat (Num.round ((Num.ofNat (len - 1) * Num.ofNat (j + 1) : Rat) / Num.ofNat (k + 1)))

theorem midArg_nonneg (len k j : Nat) :
    (0 : Rat) ≤ ((len - 1 : Nat) : Rat) * ((j + 1 : Nat) : Rat) / ((k + 1 : Nat) : Rat) := by
  positivity

theorem midIdx_eq (len k j : Nat) :
    midIdx len k j = ⌊((len - 1 : Nat) : Rat) * ((j + 1 : Nat) : Rat) / ((k + 1 : Nat) : Rat) + 1/2⌋.toNat := by
  unfold midIdx
  rw [← toNat_ratRound _ (midArg_nonneg len k j)]
  rfl

theorem midIdx_le (len k j : Nat) (hj : j < k) : midIdx len k j ≤ len - 1 := by
  rw [midIdx_eq, Int.toNat_le, ← Int.lt_add_one_iff, Int.floor_lt]
  have hk : (0 : Rat) < ((k + 1 : Nat) : Rat) := by positivity
  have h1 : ((j + 1 : Nat) : Rat) ≤ ((k + 1 : Nat) : Rat) := by exact_mod_cast (by omega : j + 1 ≤ k + 1)
  have h0 : (0 : Rat) ≤ ((len - 1 : Nat) : Rat) := by positivity
  have : ((len - 1 : Nat) : Rat) * ((j + 1 : Nat) : Rat) / ((k + 1 : Nat) : Rat) ≤ ((len - 1 : Nat) : Rat) := by
    rw [div_le_iff₀ hk]
    exact mul_le_mul_of_nonneg_left h1 h0
  push_cast at this ⊢
  linarith

theorem midIdx_mono (len k : Nat) {j j' : Nat} (h : j ≤ j') : midIdx len k j ≤ midIdx len k j' := by
  rw [midIdx_eq, midIdx_eq]
  apply Int.toNat_le_toNat
  apply Int.floor_mono
  have hk : (0 : Rat) < ((k + 1 : Nat) : Rat) := by positivity
  have h1 : ((j + 1 : Nat) : Rat) ≤ ((j' + 1 : Nat) : Rat) := by exact_mod_cast (by omega : j + 1 ≤ j' + 1)
  have h0 : (0 : Rat) ≤ ((len - 1 : Nat) : Rat) := by positivity
  have : ((len - 1 : Nat) : Rat) * ((j + 1 : Nat) : Rat) / ((k + 1 : Nat) : Rat) ≤
      ((len - 1 : Nat) : Rat) * ((j' + 1 : Nat) : Rat) / ((k + 1 : Nat) : Rat) := by
    apply div_le_div_of_nonneg_right _ (le_of_lt hk)
    exact mul_le_mul_of_nonneg_left h1 h0
  linarith

theorem curveIdx_eq (len k : Nat) :
    curveIdx (α := Rat) len k = [0] ++ ((List.range k).map (midIdx len k)).filter (· < len) ++ [len - 1] := rfl

end Cav.DispL
