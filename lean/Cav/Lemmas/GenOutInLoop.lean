/-
  Tiling by the emitted triangles, part 6: every event keeps `XInvT`, the event loop, and the
  ghost triples at the end: for every antisymmetric weight the measures of the emitted triangles
  add up to the signed weight of the ring.
-/
import Cav.Lemmas.GenOutInXBend
import Cav.Lemmas.GenOutInXBendHi
import Cav.Lemmas.GenOutInXClose
import Cav.Lemmas.GenOutInXMerge
import Cav.Lemmas.GenOutInXStart
import Cav.Lemmas.GenOutInXSplit
import Cav.Lemmas.GenOutFinal

set_option linter.unusedVariables false
set_option linter.unusedSimpArgs false

namespace Cav.GenOutIn
open Cav Num Cav.Geo Cav.Sweep Cav.SweepRun Cav.TriRun Cav.QuadRun Cav.QuadGeom Cav.SweepOut Cav.CvxEvents Cav.CvxLoop
open Cav.TriEvents Cav.GenNodes Cav.GenInv Cav.GenQueue Cav.GenRing Cav.GenSetup Cav.GenAccept Cav.SweepSetup
open Cav.GenOutShape Cav.GenOutDefs Cav.GenOutInv Cav.MonoGeom
open Cav.GenOutCount Cav.GenStep Cav.GenLoop Cav.GenOutBend Cav.GenOutEnd Cav.GenOutStart Cav.GenOutLoop
open Cav.GenGeom hiding Q

variable {R : RingQ}

/-- **every event keeps the strengthened invariant** -/
theorem xstepT (hN : NoCross R) {s : St XQ} {xs : Rat} {ivs : List IV} {G : Nat → CH}
    (hT : XInvT R s xs ivs G)
    {w : Nat} {es : List Nat} {rest : List (Nat × List Nat)} (hev : s.events = (w, es) :: rest) :
    ∃ s' ivs' G', (handleNext : SM XQ Unit).run s = .ok ((), s') ∧ XInvT R s' (R.x w) ivs' G' := by
  have hX := hT.base
  have hI := hX.inv
  have hR := hI.ring
  have hq := hI.q
  rw [hev] at hq
  have hwn : w < R.n := (hq.gt (w, es) List.mem_cons_self).1
  have hpn := hR.prv_lt w hwn
  have hnn := hR.nxt_lt w hwn
  have hp : R.x (R.prv w) ≠ R.x w := by
    intro e
    have e' := hR.distinct _ _ hpn hwn e
    have h1 := hR.nxt_prv w hwn
    rw [e'] at h1
    exact hR.ne w hwn (e'.trans h1.symm)
  have hn : R.x (R.nxt w) ≠ R.x w := by
    intro e
    have e' := hR.distinct _ _ hnn hwn e
    have h1 := hR.prv_nxt w hwn
    rw [e'] at h1
    exact hR.ne w hwn (h1.trans e'.symm)
  have bend : ∀ {u w' : Nat}, ((R.prv w = u ∧ R.nxt w = w') ∨ (R.prv w = w' ∧ R.nxt w = u)) →
      R.x u < R.x w → R.x w < R.x w' →
      ∃ s' ivs' G', (handleNext : SM XQ Unit).run s = .ok ((), s') ∧ XInvT R s' (R.x w) ivs' G' := by
    intro u w' hnb hxu hxw'
    obtain ⟨pre, iv, post, rfl, hB | hB⟩ := step_bend_x hN hI hev hnb hxu hxw'
    · obtain ⟨s', G', hr, hX'⟩ := xbend_loT hT hev hnb hxu hxw' hB
      exact ⟨s', _, G', hr, hX'⟩
    · obtain ⟨s', G', hr, hX'⟩ := xbend_hiT hT hev hnb hxu hxw' hB
      exact ⟨s', _, G', hr, hX'⟩
  have start : ∀ {wB wT : Nat}, ((R.prv w = wB ∧ R.nxt w = wT) ∨ (R.prv w = wT ∧ R.nxt w = wB)) →
      R.x w < R.x wB → R.x w < R.x wT → 0 < orient (R.pt w) (R.pt wB) (R.pt wT) →
      ∃ s' ivs' G', (handleNext : SM XQ Unit).run s = .ok ((), s') ∧ XInvT R s' (R.x w) ivs' G' := by
    intro wB wT hnb hxB hxT ho
    rcases step_start_x hN hI hev hnb hxB hxT ho with ⟨pre, post, rfl, hS⟩ | ⟨pre, iv, post, rfl, hS⟩
    · obtain ⟨s', G', hr, hX'⟩ := xstart_properT hT hev hnb hxB hxT ho hS
      exact ⟨s', _, G', hr, hX'⟩
    · obtain ⟨s', G', hr, hX'⟩ := xstart_splitT hT hev hnb hxB hxT ho hS
      exact ⟨s', _, G', hr, hX'⟩
  rcases lt_or_gt_of_ne hp with h0 | h0 <;> rcases lt_or_gt_of_ne hn with h1 | h1
  · rcases step_end_x hN hI hev h0 h1 with ⟨pre, iv, post, rfl, hE⟩ | ⟨pre, iv1, iv2, post, rfl, hE⟩
    · obtain ⟨s', G', hr, hX'⟩ := xend_closeT hT hev h0 h1 hE
      exact ⟨s', _, G', hr, hX'⟩
    · obtain ⟨s', G', hr, hX'⟩ := xend_mergeT hN hT hev h0 h1 hE
      exact ⟨s', _, G', hr, hX'⟩
  · exact bend (Or.inl ⟨rfl, rfl⟩) h0 h1
  · exact bend (Or.inr ⟨rfl, rfl⟩) h1 h0
  · have hne : R.prv w ≠ R.nxt w := hR.ne w hwn
    rcases lt_trichotomy 0 (orient (R.pt w) (R.pt (R.prv w)) (R.pt (R.nxt w))) with ho | ho | ho
    · exact start (Or.inl ⟨rfl, rfl⟩) h0 h1 ho
    · exfalso
      rcases le_total (R.x (R.prv w)) (R.x (R.nxt w)) with hle | hle
      · exact fan_ne hN hwn hpn hnn (Or.inr rfl) (Or.inl rfl) hne h0 h1 hle ho.symm
      · apply fan_ne hN hwn hnn hpn (Or.inl rfl) (Or.inr rfl) (Ne.symm hne) h1 h0 hle
        have := orient_swap (R.pt w) (R.pt (R.prv w)) (R.pt (R.nxt w))
        linarith
    · refine start (Or.inr ⟨rfl, rfl⟩) h1 h0 ?_
      have := orient_swap (R.pt w) (R.pt (R.prv w)) (R.pt (R.nxt w))
      linarith


/-- the ghost triples when the queue is empty -/
theorem xinvT_final {s : St XQ} {xs : Rat} {ivs : List IV} {G : Nat → CH} (hT : XInvT R s xs ivs G)
    (hev : s.events = []) :
    s.mono = true ∧ ∃ Tg : List (Q × Q × Q), s.out = Tg.map sq ∧ (∀ t ∈ Tg, orient t.1 t.2.1 t.2.2 < 0) ∧
      ∀ ω, AS ω → muSum ω Tg = areaW R ω := by
  have hI := hT.base.inv
  have hq := hI.q
  rw [hev] at hq
  obtain ⟨hE, hall⟩ := all_done hI.ring hq hI.cross
  have hivs : ivs = [] := by
    cases ivs with
    | nil => rfl
    | cons a r => simp at hE
  subst hivs
  obtain ⟨Tg, h1, h2, h3⟩ := hT.gen
  refine ⟨hI.mono, Tg, h1, h2, fun ω hω => ?_⟩
  rw [h3 ω hω, wDoneW_right hI.ring ω hall]
  simp

/-- **the event loop from a state with `XInvT`** -/
theorem tloop (hN : NoCross R) : ∀ (fuel : Nat) (s : St XQ) (xs : Rat) (ivs : List IV) (G : Nat → CH),
    XInvT R s xs ivs G → meas R xs < fuel →
    ∃ s', (loop fuel).run s = .ok ((), s') ∧ s'.mono = true ∧
      ∃ Tg : List (Q × Q × Q), s'.out = Tg.map sq ∧ (∀ t ∈ Tg, orient t.1 t.2.1 t.2.2 < 0) ∧
        ∀ ω, AS ω → muSum ω Tg = areaW R ω
  | 0, _, _, _, _, _, h => by omega
  | fuel + 1, s, xs, ivs, G, hT, hf => by
    rw [loop_succ_run]
    cases hev : s.events with
    | nil =>
      exact ⟨s, by simp, xinvT_final hT hev⟩
    | cons ev rest =>
      obtain ⟨w, es⟩ := ev
      obtain ⟨s1, ivs', G', hrun, hT'⟩ := xstepT hN hT hev
      have hq := hT.base.inv.q
      rw [hev] at hq
      have hwq := hq.gt (w, es) List.mem_cons_self
      have hm : meas R (R.x w) < meas R xs := meas_lt hwq.1 hwq.2
      obtain ⟨s', hl, hrest⟩ := tloop hN fuel s1 (R.x w) ivs' G' hT' (by omega)
      refine ⟨s', ?_, hrest⟩
      simp only [List.isEmpty_cons, Bool.false_eq_true, if_false, hrun]
      exact hl

/-- `XInvT` holds after the set-up phase -/
theorem xinvT_init {V : Array (Vtx XQ)} (hR : RingOK R V) {evs : List (Nat × List Nat)} {xs : Rat}
    (hI : Inv R (stQ V evs) xs []) (hxs : ∀ v, v < R.n → xs < R.x v) :
    XInvT R (stQ V evs) xs [] (fun _ => ⟨[], (0, (0, 0)), []⟩) := by
  refine ⟨xinv_init hR hI hxs, [], rfl, fun t h => (by cases h), fun ω hω => ?_⟩
  rw [wDoneW_left hR ω hxs]
  simp

/-- **the ghost triples of the result**: the triangles returned by the model are, in reverse order
    of emission, the sorted versions of clockwise rational triples whose measures add up, for every
    antisymmetric weight, to the signed weight of the ring -/
theorem ghost_of_noCross (polys : List (Array (Rat × Rat))) (h3 : ∀ p ∈ polys, 3 ≤ p.size)
    (hx : ((polys.flatMap Array.toList).map (·.1)).Nodup) (hN : NoCross (ringOf polys)) :
    ∃ Tg : List (Q × Q × Q), sweepMon (polys.map (fun p => p.map Fq)) = .ok ((Tg.map sq).reverse, true) ∧
      (∀ t ∈ Tg, orient t.1 t.2.1 t.2.2 < 0) ∧
      ∀ ω, AS ω → muSum ω Tg = areaW (ringOf polys) ω := by
  have hR := ringOK polys h3 hx
  obtain ⟨seen, evs, hset, hE⟩ := setup_all polys h3 hx
  obtain ⟨xs, hxs⟩ := exists_lt_all ((List.range (ringOf polys).n).map (ringOf polys).x)
  have hxs' : ∀ v, v < (ringOf polys).n → xs < (ringOf polys).x v :=
    fun v hv => hxs _ (List.mem_map.mpr ⟨v, List.mem_range.mpr hv, rfl⟩)
  have hI : Inv (ringOf polys) (stQ (vertsOf (cellsAll 0 polys)) evs) xs [] := inv_init hR hE hxs'
  obtain ⟨s', hl, hm, Tg, ho, hneg, hid⟩ := tloop hN ((ringOf polys).n + 1) _ xs [] _
    (xinvT_init hR hI hxs') (Nat.lt_succ_of_le (meas_le xs))
  refine ⟨Tg, ?_, hneg, hid⟩
  unfold sweepMon
  rw [run_eq, hset]
  have hsz : (stQ (vertsOf (cellsAll 0 polys)) evs).verts.size = (ringOf polys).n := hR.size
  simp only [hsz, hl, hm, ho]

end Cav.GenOutIn
