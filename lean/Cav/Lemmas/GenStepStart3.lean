/-
  General sweep invariant, part 22: the proper Start event (the new vertex lies between two
  in-intervals, below the first or above the last) keeps the invariant.
-/
import Cav.Lemmas.GenStepStart2

set_option linter.unusedSimpArgs false
set_option linter.unusedVariables false

namespace Cav.GenStepStart
open Cav Num Cav.Geo Cav.Sweep Cav.TriRun Cav.QuadRun Cav.QuadGeom Cav.CvxFlows Cav.SweepOut
open Cav.GenNodes Cav.GenQuery Cav.GenGeom Cav.GenBend Cav.GenInv Cav.GenQueue Cav.GenOrder
open Cav.GenLinks Cav.GenStepBend Cav.GenStepEnd Cav.GenStart Cav.TriEvents

variable {R : RingQ}

/-- the queue after the two insertions of a Start event -/
theorem start_events {V : Array (Vtx XQ)} (hR : RingOK R V) {xs : Rat} {E : List AE} {w wB wT : Nat}
    {es : List Nat} {rest : List (Nat × List Nat)} (hq : QCore R xs E ((w, es) :: rest))
    (hBn : wB < R.n) (hTn : wT < R.n) (D D' : Nat) :
    evAdd V (Fq (R.pt wT)) wT D' (evAdd V (Fq (R.pt wB)) wB D rest) = qAdd R wT D' (qAdd R wB D rest) := by
  have hrest : ∀ a ∈ rest, a.1 < R.n := fun a ha => (hq.gt a (List.mem_cons_of_mem _ ha)).1
  rw [evAdd_eq_qAdd hR wB D hBn rest hrest]
  refine evAdd_eq_qAdd hR wT D' hTn _ ?_
  intro a ha
  rcases key_qAdd wB D rest (List.Pairwise.of_cons hq.sorted) a ha with h | ⟨b, hb, e⟩
  · rw [h]; exact hBn
  · rw [← e]; exact hrest b hb

/-- an edge strictly below (or above) the vertex `w` at its abscissa does not start there -/
theorem lv_ne_of_height {a : AE} {w : Nat} (h : hY R a (R.x w) ≠ (R.pt w).2) : a.lv ≠ w := by
  intro e
  apply h
  show lineY (R.pt a.lv) (R.pt a.rv) (R.pt w).1 = _
  rw [e]
  exact lineY_left _ _

/-- **the proper Start keeps the invariant** -/
theorem step_start_proper (hN : NoCross R) {s : St XQ} {xs : Rat} {pre post : List IV}
    (hI : Inv R s xs (pre ++ post))
    {w : Nat} {es : List Nat} {rest : List (Nat × List Nat)} (hev : s.events = (w, es) :: rest)
    {wB wT : Nat} (hnb : (R.prv w = wB ∧ R.nxt w = wT) ∨ (R.prv w = wT ∧ R.nxt w = wB))
    (hxB : R.x w < R.x wB) (hxT : R.x w < R.x wT)
    (hPlow : ∀ a ∈ flatE pre, hY R a (R.x w) < (R.pt w).2)
    (hQhigh : ∀ a ∈ flatE post, (R.pt w).2 < hY R a (R.x w))
    (g3 : ∀ a ∈ flatE pre ++ flatE post, Span R (R.x w) a)
    (g4 : (flatE pre ++ flatE post).Pairwise (fun a b => hY R a (R.x w) < hY R b (R.x w)))
    (g5 : ∀ a ∈ flatE pre ++ (⟨s.edges.size, w, wB⟩ : AE) :: (⟨s.edges.size + 1, w, wT⟩ : AE) :: flatE post,
      Span R (R.x w) a)
    (g6 : (flatE pre ++ (⟨s.edges.size, w, wB⟩ : AE) :: (⟨s.edges.size + 1, w, wT⟩ : AE) :: flatE post).Pairwise
      (Below R (R.x w)))
    (g7 : QCore R (R.x w)
      (flatE pre ++ (⟨s.edges.size, w, wB⟩ : AE) :: (⟨s.edges.size + 1, w, wT⟩ : AE) :: flatE post)
      (qAdd R wT (s.edges.size + 1) (qAdd R wB s.edges.size rest)))
    (g8 : Cross R (R.x w)
      (flatE pre ++ (⟨s.edges.size, w, wB⟩ : AE) :: (⟨s.edges.size + 1, w, wT⟩ : AE) :: flatE post)) :
    ∃ s', (handleNext : SM XQ Unit).run s = .ok ((), s') ∧ ∃ ivs', Inv R s' (R.x w) ivs' := by
  have hR := hI.ring
  have hq := hI.q
  rw [hev, flatE_append] at hq
  have hwq := hq.gt (w, es) List.mem_cons_self
  have hwn : w < R.n := hwq.1
  obtain ⟨hBn, hTn, hadjB, hadjT, hBT, hnbrs⟩ := start_nbrs hR hwn hnb
  have hid := hq.idinj
  obtain ⟨t1, t2, t3, t4, t5, t6, t7⟩ := start_tests hid g5 g6
  have hG := ids_eg hI.lk hI.q.idinj
  rw [flatE_append, List.map_append] at hG
  rw [List.map_append] at t5
  have hact : s.active = (flatE pre).map (·.id) ++ (flatE post).map (·.id) := by
    rw [hI.act, flatE_append, List.map_append]
  have hevs : ∀ a ∈ rest, a.1 < s.verts.size := by
    intro a ha
    rw [hR.size]
    exact (hq.gt a (List.mem_cons_of_mem _ ha)).1
  have hlk := hI.lk
  rw [linked_append] at hlk
  obtain ⟨hlpre, hlpost⟩ := hlk
  have hmemP : ∀ x ∈ flatE pre, x ∈ flatE pre ++ flatE post := fun x hx => List.mem_append_left _ hx
  have hmemQ : ∀ x ∈ flatE post, x ∈ flatE pre ++ flatE post := fun x hx => List.mem_append_right _ hx
  have hyB : hY R (⟨s.edges.size, w, wB⟩ : AE) (R.x w) = (R.pt w).2 := lineY_left _ _
  have hyT : hY R (⟨s.edges.size + 1, w, wT⟩ : AE) (R.x w) = (R.pt w).2 := lineY_left _ _
  have hnd : (flatE pre ++ flatE post).Nodup := by
    have := nodup_of_pairwise_below hI.sorted
    rw [flatE_append] at this; exact this
  have hprepost : ∀ x ∈ flatE pre, ∀ y ∈ flatE post, x.id ≠ y.id := by
    intro x hx y hy e
    have := hid x (hmemP x hx) y (hmemQ y hy) e
    subst this
    rw [List.nodup_append] at hnd
    exact hnd.2.2 x hx x hy rfl
  have hidlt : ∀ a ∈ flatE pre ++ flatE post, a.id < s.edges.size := by
    intro a ha
    rw [← flatE_append] at ha
    obtain ⟨e, he, -⟩ := Linked.eg hI.lk a ha
    exact lt_of_get' he
  have hbb : ∀ bb, ((flatE pre).map (·.id)).getLast? = some bb → ∃ cbb, s.edges[bb]? = some cbb ∧
      cbb.bofIn = false ∧ wobP (Fq (R.pt w)) (Fq (R.pt wB)) (Lf R (flatE pre ++ flatE post) bb)
        (Rf R (flatE pre ++ flatE post) bb) = false := by
    intro bb h
    rw [ids_getLast] at h
    obtain ⟨pre', ivb, e1, rfl⟩ := lastHi_eq_some h
    obtain ⟨_, _, -, hcb, -⟩ := Linked.mem hlpre ivb (by rw [e1]; simp)
    have hm : ivb.hi ∈ flatE pre := by rw [e1]; simp
    refine ⟨_, hcb, rfl, ?_⟩
    rw [Lf_id hid (hmemP _ hm), Rf_id hid (hmemP _ hm)]
    exact wob_of_below hR hN (b := ivb.hi) (anew := ⟨s.edges.size, w, wB⟩) (x0 := R.x w)
      (g3 _ (hmemP _ hm)) (g5 _ (by simp)) rfl (by rw [hyB]; exact hPlow _ hm)
      (lv_ne_of_height (ne_of_lt (hPlow _ hm)))
  have htt : ∀ tt, ((flatE post).map (·.id)).head? = some tt → ∃ ctt, s.edges[tt]? = some ctt ∧
      ctt.bofIn = true ∧ wotP (Fq (R.pt w)) (Fq (R.pt wT)) (Lf R (flatE pre ++ flatE post) tt)
        (Rf R (flatE pre ++ flatE post) tt) = false := by
    intro tt h
    rw [ids_head] at h
    obtain ⟨ivt, post', e1, rfl⟩ := nxtLo_eq_some h
    obtain ⟨_, _, hct, -, -⟩ := Linked.mem hlpost ivt (by rw [e1]; simp)
    have hm : ivt.lo ∈ flatE post := by rw [e1]; simp
    refine ⟨_, hct, rfl, ?_⟩
    rw [Lf_id hid (hmemQ _ hm), Rf_id hid (hmemQ _ hm)]
    exact wot_of_above hR hN (t := ivt.lo) (anew := ⟨s.edges.size + 1, w, wT⟩) (x0 := R.x w)
      (g3 _ (hmemQ _ hm)) (g5 _ (by simp)) rfl (by rw [hyT]; exact hQhigh _ hm)
      (Ne.symm (lv_ne_of_height (ne_of_gt (hQhigh _ hm))))
  have hpc : ∀ bb tt, ((flatE pre).map (·.id)).getLast? = some bb →
      ((flatE post).map (·.id)).head? = some tt → bb ≠ tt ∧
      partialCmpEdgeP (Lf R (flatE pre ++ flatE post) bb) (Rf R (flatE pre ++ flatE post) bb)
        (Lf R (flatE pre ++ flatE post) tt) (Rf R (flatE pre ++ flatE post) tt) (.fin (R.x w)) = some .lt := by
    intro bb tt h1 h2
    rw [ids_getLast] at h1
    rw [ids_head] at h2
    obtain ⟨pre', ivb, e1, rfl⟩ := lastHi_eq_some h1
    obtain ⟨ivt, post', e2, rfl⟩ := nxtLo_eq_some h2
    have hm1 : ivb.hi ∈ flatE pre := by rw [e1]; simp
    have hm2 : ivt.lo ∈ flatE post := by rw [e2]; simp
    refine ⟨hprepost _ hm1 _ hm2, ?_⟩
    rw [Lf_id hid (hmemP _ hm1), Rf_id hid (hmemP _ hm1), Lf_id hid (hmemQ _ hm2), Rf_id hid (hmemQ _ hm2)]
    have s1 := g3 _ (hmemP _ hm1)
    have s2 := g3 _ (hmemQ _ hm2)
    exact partialCmp_lt _ _ _ _ _ s1.lt s2.lt s1.le (le_of_lt s1.gt) s2.le (le_of_lt s2.gt)
      (lt_trans (hPlow _ hm1) (hQhigh _ hm2))
  obtain ⟨E', hrun, hPE⟩ := start_run_proper s w (R.prv w) (R.nxt w) wB wT _ _ _ _ es rest
    (Fq (R.pt w)) (Fq (R.pt wB)) (Fq (R.pt wT)) ((flatE pre).map (·.id)) ((flatE post).map (·.id))
    (Lf R (flatE pre ++ flatE post)) (Rf R (flatE pre ++ flatE post)) hev (hR.get w hwn) hnb
    (hR.get wB hBn) (hR.get wT hTn) (ft_start _ _ _ hxB hxT) (ft_start _ _ _ hxT hxB)
    (ofEq_x_false (ne_of_gt hxB)) (ofEq_x_false (ne_of_gt hxT)) t6 t7 hevs hI.mono hact hG t1 t2 t3 t4 t5
    (fun k _ => TriGeom.cmpEdgeP_self _ _ _) hbb htt hpc
  rw [ids_getLast, ids_head] at hPE
  refine ⟨_, hrun, pre ++ ⟨⟨s.edges.size, w, wB⟩, ⟨s.edges.size + 1, w, wT⟩, s.chains.size⟩ :: post, ?_⟩
  have hflat' : flatE (pre ++ (⟨⟨s.edges.size, w, wB⟩, ⟨s.edges.size + 1, w, wT⟩, s.chains.size⟩ : IV) :: post) =
      flatE pre ++ (⟨s.edges.size, w, wB⟩ : AE) :: (⟨s.edges.size + 1, w, wT⟩ : AE) :: flatE post := by simp
  have hcilt : ∀ j ∈ pre ++ post, j.ci < s.chains.size := by
    intro j hj
    obtain ⟨_, _, -, -, c, hc, -⟩ := Linked.mem hI.lk j hj
    exact lt_of_get' hc
  have hptN : ∀ i, i < s.nodes.size → ptAt (s.nodes.push ⟨Fq (R.pt w), none, none⟩) i = ptAt s.nodes i :=
    fun i hi => ptAt_push_lt _ _ hi
  have hszN : s.nodes.size ≤ (s.nodes.push ⟨Fq (R.pt w), none, none⟩).size := by
    rw [Array.size_push]; omega
  have hchain : ∀ j ∈ pre ++ post,
      (s.chains.push ⟨s.nodes.size, s.nodes.size, s.nodes.size⟩)[j.ci]? = s.chains[j.ci]? := by
    intro j hj
    have := hcilt j hj
    rw [Array.getElem?_push_lt this, ← Array.getElem?_eq_getElem this]
  refine ⟨hR, hI.mono, fun _ => rfl, ?_, ?_, ?_, ?_, ?_, ?_, ?_, ?_⟩
  · show (flatE pre).map (·.id) ++ s.edges.size :: (s.edges.size + 1) :: (flatE post).map (·.id) = _
    rw [hflat']; simp
  · have := hI.cind
    rw [List.map_append] at this
    rw [List.map_append, List.map_cons]
    have hfresh : s.chains.size ∉ pre.map (·.ci) ++ post.map (·.ci) := by
      intro hm
      rw [← List.map_append] at hm
      obtain ⟨j, hj, e⟩ := List.mem_map.mp hm
      have := hcilt j hj
      omega
    rw [List.nodup_append] at this ⊢
    obtain ⟨n1, n2, n3⟩ := this
    refine ⟨n1, List.nodup_cons.mpr ⟨fun h => hfresh (List.mem_append_right _ h), n2⟩, ?_⟩
    intro a ha b hb
    rcases List.mem_cons.mp hb with rfl | hb
    · rintro rfl
      exact hfresh (List.mem_append_left _ ha)
    · exact n3 a ha b hb
  · rw [linked_append]
    constructor
    · -- the in-intervals below
      show Linked _ R none pre (some s.edges.size)
      refine Linked.set_above hlpre ?_ ?_ hszN hptN ?_
      · intro j hj
        have hjm := mem_flatE_of hj
        refine ⟨hPE.fr _ (hidlt _ (hmemP _ hjm.1)) ?_ ?_, hchain j (List.mem_append_left _ hj)⟩
        · intro e
          obtain ⟨pre', ivb, e1, e2⟩ := lastHi_eq_some e
          exact Linked.lo_ne_hi hlpre (j := j) (k := ivb) hj (by rw [e1]; simp) e2
        · intro e
          obtain ⟨ivt, post', e1, e2⟩ := nxtLo_eq_some e
          exact hprepost _ hjm.1 ivt.lo (by rw [e1]; simp) e2
      · intro j hj
        have hjpre : j ∈ pre := List.mem_of_mem_dropLast hj
        have hjm := mem_flatE_of hjpre
        refine hPE.fr _ (hidlt _ (hmemP _ hjm.2)) ?_ ?_
        · intro e
          obtain ⟨pre', ivb, e1, e2⟩ := lastHi_eq_some e
          rw [e1, List.dropLast_concat] at hj
          have hndpre : (flatE pre' ++ ivb.lo :: ivb.hi :: ([] : List AE)).Nodup := by
            have := (List.nodup_append.mp hnd).1
            rw [e1] at this
            simpa using this
          have := (nodup_mid hndpre).2 j.hi (by simpa using (mem_flatE_of hj).2)
          apply this.2
          exact hid _ (hmemP _ hjm.2) _ (hmemP _ (by rw [e1]; simp)) e2
        · intro e
          obtain ⟨ivt, post', e1, e2⟩ := nxtLo_eq_some e
          exact hprepost _ hjm.2 ivt.lo (by rw [e1]; simp) e2
      · intro pre' ivb e1
        have hcb : ECell s R ivb.hi ivb.ci false (some ivb.lo.id) (nxtLo post none) := by
          have := hlpre
          rw [e1, linked_append] at this
          exact this.2.2.1
        exact hPE.bb ivb.hi.id _ (by rw [e1, lastHi_snoc]) hcb
    · refine ⟨?_, ?_, ?_, ?_⟩
      · exact hPE.bot
      · show E'[s.edges.size + 1]? = _
        rw [hPE.top]
      · refine ⟨_, Array.getElem?_push_size, ?_, ptAt_push_size _ _, ptAt_push_size _ _⟩
        show s.nodes.size < (s.nodes.push _).size
        rw [Array.size_push]; omega
      · -- the in-intervals above
        refine Linked.set_below hlpost ?_ ?_ hszN hptN ?_
        · intro j hj
          have hjm := mem_flatE_of hj
          refine ⟨hPE.fr _ (hidlt _ (hmemQ _ hjm.2)) ?_ ?_, hchain j (List.mem_append_right _ hj)⟩
          · intro e
            obtain ⟨pre', ivb, e1, e2⟩ := lastHi_eq_some e
            exact hprepost ivb.hi (by rw [e1]; simp) _ hjm.2 e2.symm
          · intro e
            obtain ⟨ivt, post', e1, e2⟩ := nxtLo_eq_some e
            exact Linked.lo_ne_hi hlpost (j := ivt) (k := j) (by rw [e1]; simp) hj e2.symm
        · intro j hj
          have hjpost : j ∈ post := List.mem_of_mem_tail hj
          have hjm := mem_flatE_of hjpost
          refine hPE.fr _ (hidlt _ (hmemQ _ hjm.1)) ?_ ?_
          · intro e
            obtain ⟨pre', ivb, e1, e2⟩ := lastHi_eq_some e
            exact hprepost ivb.hi (by rw [e1]; simp) _ hjm.1 e2.symm
          · intro e
            obtain ⟨ivt, post', e1, e2⟩ := nxtLo_eq_some e
            rw [e1, List.tail_cons] at hj
            have hndpost : (([] : List AE) ++ ivt.lo :: ivt.hi :: flatE post').Nodup := by
              have := (List.nodup_append.mp hnd).2.1
              rw [e1] at this
              simpa using this
            have := (nodup_mid hndpost).2 j.lo (by simpa using (mem_flatE_of hj).1)
            apply this.1
            exact hid _ (hmemQ _ hjm.1) _ (hmemQ _ (by rw [e1]; simp)) e2
        · intro ivt post' e1
          have hct : ECell s R ivt.lo ivt.ci true (lastHi pre none) (some ivt.hi.id) := by
            have := hlpost
            rw [e1] at this
            exact this.1
          exact hPE.tt ivt.lo.id _ (by rw [e1]; rfl) hct
  · exact nodesOk_push hI.nok _ (oLt_none _) (oLt_none _)
  · rw [hflat']; exact g5
  · rw [hflat']; exact g6
  · rw [hflat']
    show QCore R (R.x w) _ (evAdd s.verts (Fq (R.pt wT)) wT (s.edges.size + 1)
      (evAdd s.verts (Fq (R.pt wB)) wB s.edges.size rest))
    rw [start_events hR hq hBn hTn]
    exact g7
  · rw [hflat']; exact g8

end Cav.GenStepStart
