/-
  Event chains of a SELF-INTERSECTING quadrilateral (bow-tie) in general position
  (`p1.x < p2.x < p3.x < p4.x`), evaluated symbolically on the sweep model up to the event whose
  handler reports the overlap.  As in `QuadEvents{O,A,Z}.lean` the vertex ring `V` is abstract
  (look-ups at the four vertices, both ring orientations `ori`), the points are abstract, and the
  outcome of every pure geometric test of the model is a hypothesis `g…`.

  In all eight configurations the error is reported at the SECOND event (the vertex `p2`):
  * rings `A` (`p1 p2 p3 p4`) and `O` (`p1 p2 p4 p3`): `p2` is a Bend; after the edge `p1 p2` has
    been replaced by the edge out of `p2`, its nesting partner (the other edge out of `p1`) is on
    the wrong side at the nearer right end point: `will_overlap_bot` / `will_overlap_top` of the
    Bend arm;
  * ring `Z` (`p1 p3 p2 p4`): `p2` is a second Start lying outside the wedge of the two edges out
    of `p1`; one new edge gets an edge out of `p1` as nesting partner and is on the wrong side of
    it at `p3.x`: `will_overlap_top` (Start below the wedge) / `will_overlap_bot` (Start above the
    wedge) of the Start arm.
-/
import Cav.Lemmas.BowRun

set_option linter.unusedSimpArgs false
set_option linter.unusedVariables false
set_option maxRecDepth 4000

namespace Cav.BowEvents
open Cav Num Cav.Sweep Cav.SweepRun Cav.TriRun Cav.QuadRun Cav.TriEvents Cav.BowRun

/-- ring `p1 p2 p3 p4`, `p2` above the edge `p1 p4`, `p3` below it: `will_overlap_bot` at the Bend `p2` -/
theorem bow_At (ori : Bool) (V : Array (Vtx XQ)) (i1 i2 i3 i4 : Nat) (p1 p2 p3 p4 : Pt XQ)
    (h1 : V[i1]? = some ⟨p1, (nb ori i4 i2).1, (nb ori i4 i2).2⟩)
    (h2 : V[i2]? = some ⟨p2, (nb ori i1 i3).1, (nb ori i1 i3).2⟩)
    (h3 : V[i3]? = some ⟨p3, (nb ori i2 i4).1, (nb ori i2 i4).2⟩)
    (h4 : V[i4]? = some ⟨p4, (nb ori i3 i1).1, (nb ori i3 i1).2⟩)
    (hO : Ord4 p1 p2 p3 p4)
    (g1 : cmpEdgeP p1 p4 p1 p2 p1.x = .lt)
    (g2 : cmpEdgeP p1 p2 p1 p4 p1.x = .gt)
    (g3 : cmpAtP p2 p3 p1 p4 p3.x true = .lt) :
    Runs (stQ V [(i1, [])]) (.error (.overlap .bend p2)) (loop 5) := by
  obtain ⟨f1, f2, f3, f4, c11, c12, c13, c14, c21, c22, c23, c24, c31, c32, c33, c34, c41, c42, c43, c44, e12, e13, e14, e21, e23, e24, e31, e32, e34, e41, e42, e43, x11, x12, x13, x14, x21, x22, x23, x24, x31, x32, x33, x34, x41, x42, x43, x44, m12, m13, m14, m21, m23, m24, m31, m32, m34, m41, m42, m43⟩ := hO
  unfold stQ
  cases ori <;> simp only [nb, if_true, if_false, Bool.false_eq_true] at h1 h2 h3 h4
  all_goals
    qev [g1, g2, g3]
    qev_err [g1, g2, g3]

/-- ring `p1 p2 p3 p4`, `p2` below the edge `p1 p4`, `p3` above it: `will_overlap_top` at the Bend `p2` -/
theorem bow_Ab (ori : Bool) (V : Array (Vtx XQ)) (i1 i2 i3 i4 : Nat) (p1 p2 p3 p4 : Pt XQ)
    (h1 : V[i1]? = some ⟨p1, (nb ori i4 i2).1, (nb ori i4 i2).2⟩)
    (h2 : V[i2]? = some ⟨p2, (nb ori i1 i3).1, (nb ori i1 i3).2⟩)
    (h3 : V[i3]? = some ⟨p3, (nb ori i2 i4).1, (nb ori i2 i4).2⟩)
    (h4 : V[i4]? = some ⟨p4, (nb ori i3 i1).1, (nb ori i3 i1).2⟩)
    (hO : Ord4 p1 p2 p3 p4)
    (g1 : cmpEdgeP p1 p2 p1 p4 p1.x = .lt)
    (g2 : cmpEdgeP p1 p4 p1 p2 p1.x = .gt)
    (g3 : cmpAtP p2 p3 p1 p4 p3.x true = .gt) :
    Runs (stQ V [(i1, [])]) (.error (.overlap .bend p2)) (loop 5) := by
  obtain ⟨f1, f2, f3, f4, c11, c12, c13, c14, c21, c22, c23, c24, c31, c32, c33, c34, c41, c42, c43, c44, e12, e13, e14, e21, e23, e24, e31, e32, e34, e41, e42, e43, x11, x12, x13, x14, x21, x22, x23, x24, x31, x32, x33, x34, x41, x42, x43, x44, m12, m13, m14, m21, m23, m24, m31, m32, m34, m41, m42, m43⟩ := hO
  unfold stQ
  cases ori <;> simp only [nb, if_true, if_false, Bool.false_eq_true] at h1 h2 h3 h4
  all_goals
    qev [g1, g2, g3]
    qev_err [g1, g2, g3]

/-- ring `p1 p2 p4 p3`, `p2` below the edge `p1 p3`, the edge `p2 p4` above `p3`: `will_overlap_top` at the Bend `p2` -/
theorem bow_Oa (ori : Bool) (V : Array (Vtx XQ)) (i1 i2 i3 i4 : Nat) (p1 p2 p3 p4 : Pt XQ)
    (h1 : V[i1]? = some ⟨p1, (nb ori i2 i3).1, (nb ori i2 i3).2⟩)
    (h2 : V[i2]? = some ⟨p2, (nb ori i4 i1).1, (nb ori i4 i1).2⟩)
    (h3 : V[i3]? = some ⟨p3, (nb ori i1 i4).1, (nb ori i1 i4).2⟩)
    (h4 : V[i4]? = some ⟨p4, (nb ori i3 i2).1, (nb ori i3 i2).2⟩)
    (hO : Ord4 p1 p2 p3 p4)
    (g1 : cmpEdgeP p1 p2 p1 p3 p1.x = .lt)
    (g2 : cmpEdgeP p1 p3 p1 p2 p1.x = .gt)
    (g3 : cmpAtP p2 p4 p1 p3 p3.x true = .gt) :
    Runs (stQ V [(i1, [])]) (.error (.overlap .bend p2)) (loop 5) := by
  obtain ⟨f1, f2, f3, f4, c11, c12, c13, c14, c21, c22, c23, c24, c31, c32, c33, c34, c41, c42, c43, c44, e12, e13, e14, e21, e23, e24, e31, e32, e34, e41, e42, e43, x11, x12, x13, x14, x21, x22, x23, x24, x31, x32, x33, x34, x41, x42, x43, x44, m12, m13, m14, m21, m23, m24, m31, m32, m34, m41, m42, m43⟩ := hO
  unfold stQ
  cases ori <;> simp only [nb, if_true, if_false, Bool.false_eq_true] at h1 h2 h3 h4
  all_goals
    qev [g1, g2, g3]
    qev_err [g1, g2, g3]

/-- ring `p1 p2 p4 p3`, `p2` above the edge `p1 p3`, the edge `p2 p4` below `p3`: `will_overlap_bot` at the Bend `p2` -/
theorem bow_Ob (ori : Bool) (V : Array (Vtx XQ)) (i1 i2 i3 i4 : Nat) (p1 p2 p3 p4 : Pt XQ)
    (h1 : V[i1]? = some ⟨p1, (nb ori i2 i3).1, (nb ori i2 i3).2⟩)
    (h2 : V[i2]? = some ⟨p2, (nb ori i4 i1).1, (nb ori i4 i1).2⟩)
    (h3 : V[i3]? = some ⟨p3, (nb ori i1 i4).1, (nb ori i1 i4).2⟩)
    (h4 : V[i4]? = some ⟨p4, (nb ori i3 i2).1, (nb ori i3 i2).2⟩)
    (hO : Ord4 p1 p2 p3 p4)
    (g1 : cmpEdgeP p1 p3 p1 p2 p1.x = .lt)
    (g2 : cmpEdgeP p1 p2 p1 p3 p1.x = .gt)
    (g3 : cmpAtP p2 p4 p1 p3 p3.x true = .lt) :
    Runs (stQ V [(i1, [])]) (.error (.overlap .bend p2)) (loop 5) := by
  obtain ⟨f1, f2, f3, f4, c11, c12, c13, c14, c21, c22, c23, c24, c31, c32, c33, c34, c41, c42, c43, c44, e12, e13, e14, e21, e23, e24, e31, e32, e34, e41, e42, e43, x11, x12, x13, x14, x21, x22, x23, x24, x31, x32, x33, x34, x41, x42, x43, x44, m12, m13, m14, m21, m23, m24, m31, m32, m34, m41, m42, m43⟩ := hO
  unfold stQ
  cases ori <;> simp only [nb, if_true, if_false, Bool.false_eq_true] at h1 h2 h3 h4
  all_goals
    qev [g1, g2, g3]
    qev_err [g1, g2, g3]

/-- ring `p1 p3 p2 p4`, edge `p1 p3` below edge `p1 p4`, `p2` below both, the edge `p2 p4` above `p3`: `will_overlap_top` at the Start `p2` -/
theorem bow_Zb34 (ori : Bool) (V : Array (Vtx XQ)) (i1 i2 i3 i4 : Nat) (p1 p2 p3 p4 : Pt XQ)
    (h1 : V[i1]? = some ⟨p1, (nb ori i4 i3).1, (nb ori i4 i3).2⟩)
    (h2 : V[i2]? = some ⟨p2, (nb ori i3 i4).1, (nb ori i3 i4).2⟩)
    (h3 : V[i3]? = some ⟨p3, (nb ori i1 i2).1, (nb ori i1 i2).2⟩)
    (h4 : V[i4]? = some ⟨p4, (nb ori i2 i1).1, (nb ori i2 i1).2⟩)
    (hO : Ord4 p1 p2 p3 p4)
    (g1 : cmpEdgeP p1 p3 p1 p4 p1.x = .lt)
    (g2 : cmpEdgeP p1 p4 p1 p3 p1.x = .gt)
    (g3 : cmpEdgeP p2 p3 p2 p4 p2.x = .lt)
    (g4 : cmpEdgeP p2 p4 p2 p3 p2.x = .gt)
    (g5 : cmpEdgeP p2 p3 p1 p3 p2.x = .lt)
    (g6 : cmpEdgeP p2 p3 p1 p4 p2.x = .lt)
    (g7 : cmpEdgeP p2 p4 p1 p3 p2.x = .lt)
    (g8 : cmpEdgeP p2 p4 p1 p4 p2.x = .lt)
    (g9 : cmpEdgeP p1 p3 p1 p4 p2.x = .lt)
    (g10 : cmpAtP p2 p4 p1 p3 p3.x true = .gt) :
    Runs (stQ V [(i1, []), (i2, [])]) (.error (.overlap .start p2)) (loop 5) := by
  obtain ⟨f1, f2, f3, f4, c11, c12, c13, c14, c21, c22, c23, c24, c31, c32, c33, c34, c41, c42, c43, c44, e12, e13, e14, e21, e23, e24, e31, e32, e34, e41, e42, e43, x11, x12, x13, x14, x21, x22, x23, x24, x31, x32, x33, x34, x41, x42, x43, x44, m12, m13, m14, m21, m23, m24, m31, m32, m34, m41, m42, m43⟩ := hO
  unfold stQ
  cases ori <;> simp only [nb, if_true, if_false, Bool.false_eq_true] at h1 h2 h3 h4
  all_goals
    qev [g1, g2, g3, g4, g5, g6, g7, g8, g9, g10]
    qev_err [g1, g2, g3, g4, g5, g6, g7, g8, g9, g10]

/-- ring `p1 p3 p2 p4`, edge `p1 p4` below edge `p1 p3`, `p2` below both, `p3` above the edge `p1 p4`: `will_overlap_top` at the Start `p2` -/
theorem bow_Zb43 (ori : Bool) (V : Array (Vtx XQ)) (i1 i2 i3 i4 : Nat) (p1 p2 p3 p4 : Pt XQ)
    (h1 : V[i1]? = some ⟨p1, (nb ori i4 i3).1, (nb ori i4 i3).2⟩)
    (h2 : V[i2]? = some ⟨p2, (nb ori i3 i4).1, (nb ori i3 i4).2⟩)
    (h3 : V[i3]? = some ⟨p3, (nb ori i1 i2).1, (nb ori i1 i2).2⟩)
    (h4 : V[i4]? = some ⟨p4, (nb ori i2 i1).1, (nb ori i2 i1).2⟩)
    (hO : Ord4 p1 p2 p3 p4)
    (g1 : cmpEdgeP p1 p4 p1 p3 p1.x = .lt)
    (g2 : cmpEdgeP p1 p3 p1 p4 p1.x = .gt)
    (g3 : cmpEdgeP p2 p4 p2 p3 p2.x = .lt)
    (g4 : cmpEdgeP p2 p3 p2 p4 p2.x = .gt)
    (g5 : cmpEdgeP p2 p4 p1 p4 p2.x = .lt)
    (g6 : cmpEdgeP p2 p4 p1 p3 p2.x = .lt)
    (g7 : cmpEdgeP p2 p3 p1 p4 p2.x = .lt)
    (g8 : cmpEdgeP p2 p3 p1 p3 p2.x = .lt)
    (g9 : cmpEdgeP p1 p4 p1 p3 p2.x = .lt)
    (g10 : cmpAtP p2 p3 p1 p4 p3.x true = .gt) :
    Runs (stQ V [(i1, []), (i2, [])]) (.error (.overlap .start p2)) (loop 5) := by
  obtain ⟨f1, f2, f3, f4, c11, c12, c13, c14, c21, c22, c23, c24, c31, c32, c33, c34, c41, c42, c43, c44, e12, e13, e14, e21, e23, e24, e31, e32, e34, e41, e42, e43, x11, x12, x13, x14, x21, x22, x23, x24, x31, x32, x33, x34, x41, x42, x43, x44, m12, m13, m14, m21, m23, m24, m31, m32, m34, m41, m42, m43⟩ := hO
  unfold stQ
  cases ori <;> simp only [nb, if_true, if_false, Bool.false_eq_true] at h1 h2 h3 h4
  all_goals
    qev [g1, g2, g3, g4, g5, g6, g7, g8, g9, g10]
    qev_err [g1, g2, g3, g4, g5, g6, g7, g8, g9, g10]

/-- ring `p1 p3 p2 p4`, edge `p1 p3` below edge `p1 p4`, `p2` above both, `p3` below the edge `p1 p4`: `will_overlap_bot` at the Start `p2` -/
theorem bow_Za34 (ori : Bool) (V : Array (Vtx XQ)) (i1 i2 i3 i4 : Nat) (p1 p2 p3 p4 : Pt XQ)
    (h1 : V[i1]? = some ⟨p1, (nb ori i4 i3).1, (nb ori i4 i3).2⟩)
    (h2 : V[i2]? = some ⟨p2, (nb ori i3 i4).1, (nb ori i3 i4).2⟩)
    (h3 : V[i3]? = some ⟨p3, (nb ori i1 i2).1, (nb ori i1 i2).2⟩)
    (h4 : V[i4]? = some ⟨p4, (nb ori i2 i1).1, (nb ori i2 i1).2⟩)
    (hO : Ord4 p1 p2 p3 p4)
    (g1 : cmpEdgeP p1 p3 p1 p4 p1.x = .lt)
    (g2 : cmpEdgeP p1 p4 p1 p3 p1.x = .gt)
    (g3 : cmpEdgeP p2 p3 p2 p4 p2.x = .lt)
    (g4 : cmpEdgeP p2 p4 p2 p3 p2.x = .gt)
    (g5 : cmpEdgeP p2 p3 p1 p3 p2.x = .gt)
    (g6 : cmpEdgeP p2 p3 p1 p4 p2.x = .gt)
    (g7 : cmpEdgeP p2 p4 p1 p3 p2.x = .gt)
    (g8 : cmpEdgeP p2 p4 p1 p4 p2.x = .gt)
    (g9 : cmpEdgeP p1 p4 p1 p3 p2.x = .gt)
    (g10 : cmpAtP p2 p3 p1 p4 p3.x true = .lt) :
    Runs (stQ V [(i1, []), (i2, [])]) (.error (.overlap .start p2)) (loop 5) := by
  obtain ⟨f1, f2, f3, f4, c11, c12, c13, c14, c21, c22, c23, c24, c31, c32, c33, c34, c41, c42, c43, c44, e12, e13, e14, e21, e23, e24, e31, e32, e34, e41, e42, e43, x11, x12, x13, x14, x21, x22, x23, x24, x31, x32, x33, x34, x41, x42, x43, x44, m12, m13, m14, m21, m23, m24, m31, m32, m34, m41, m42, m43⟩ := hO
  unfold stQ
  cases ori <;> simp only [nb, if_true, if_false, Bool.false_eq_true] at h1 h2 h3 h4
  all_goals
    qev [g1, g2, g3, g4, g5, g6, g7, g8, g9, g10]
    qev_err [g1, g2, g3, g4, g5, g6, g7, g8, g9, g10]

/-- ring `p1 p3 p2 p4`, edge `p1 p4` below edge `p1 p3`, `p2` above both, the edge `p2 p4` below `p3`: `will_overlap_bot` at the Start `p2` -/
theorem bow_Za43 (ori : Bool) (V : Array (Vtx XQ)) (i1 i2 i3 i4 : Nat) (p1 p2 p3 p4 : Pt XQ)
    (h1 : V[i1]? = some ⟨p1, (nb ori i4 i3).1, (nb ori i4 i3).2⟩)
    (h2 : V[i2]? = some ⟨p2, (nb ori i3 i4).1, (nb ori i3 i4).2⟩)
    (h3 : V[i3]? = some ⟨p3, (nb ori i1 i2).1, (nb ori i1 i2).2⟩)
    (h4 : V[i4]? = some ⟨p4, (nb ori i2 i1).1, (nb ori i2 i1).2⟩)
    (hO : Ord4 p1 p2 p3 p4)
    (g1 : cmpEdgeP p1 p4 p1 p3 p1.x = .lt)
    (g2 : cmpEdgeP p1 p3 p1 p4 p1.x = .gt)
    (g3 : cmpEdgeP p2 p4 p2 p3 p2.x = .lt)
    (g4 : cmpEdgeP p2 p3 p2 p4 p2.x = .gt)
    (g5 : cmpEdgeP p2 p4 p1 p4 p2.x = .gt)
    (g6 : cmpEdgeP p2 p4 p1 p3 p2.x = .gt)
    (g7 : cmpEdgeP p2 p3 p1 p4 p2.x = .gt)
    (g8 : cmpEdgeP p2 p3 p1 p3 p2.x = .gt)
    (g9 : cmpEdgeP p1 p3 p1 p4 p2.x = .gt)
    (g10 : cmpAtP p2 p4 p1 p3 p3.x true = .lt) :
    Runs (stQ V [(i1, []), (i2, [])]) (.error (.overlap .start p2)) (loop 5) := by
  obtain ⟨f1, f2, f3, f4, c11, c12, c13, c14, c21, c22, c23, c24, c31, c32, c33, c34, c41, c42, c43, c44, e12, e13, e14, e21, e23, e24, e31, e32, e34, e41, e42, e43, x11, x12, x13, x14, x21, x22, x23, x24, x31, x32, x33, x34, x41, x42, x43, x44, m12, m13, m14, m21, m23, m24, m31, m32, m34, m41, m42, m43⟩ := hO
  unfold stQ
  cases ori <;> simp only [nb, if_true, if_false, Bool.false_eq_true] at h1 h2 h3 h4
  all_goals
    qev [g1, g2, g3, g4, g5, g6, g7, g8, g9, g10]
    qev_err [g1, g2, g3, g4, g5, g6, g7, g8, g9, g10]

end Cav.BowEvents
