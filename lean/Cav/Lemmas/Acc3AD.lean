/-
  Helper lemmas for `Thm/C08Accuracy`: bivariate polynomials as closures on dual numbers
  (`adPoly2`, built from the GENERATED `AD.add`, `AD.mul` of `Gen/AD.lean`), the affine `c`-curve
  `cAff`, and the integrand `f · absJacobianDet g` of `gen_display_cav` (3-D) as the evaluation of an
  explicit list of terms; the image of all this under `XQ.fin` (the sweep runs over `XQ`).
-/
import Cav.Lemmas.Acc2Biv
import Cav.Lemmas.Acc3Xfer
import Cav.Thm.C08

namespace Cav.Acc3
open Cav Num Cav.Gen Cav.Geo Cav.Acc2 Cav.DispL Cav.C01

/-! ### the closures (every `Num α`) -/

section
variable {α : Type} [Num α]

/-- a constant as a dual number: tangent `0` -/
def adConst (c : α) : AD α := ⟨c, Num.zero⟩

/-- `x^n` by repeated `AD.mul` (`x^0 = 1`) -/
def adPow (x : AD α) : Nat → AD α
  | 0 => adConst Num.one
  | n + 1 => AD.mul (adPow x n) x

/-- one term `c · x^i · y^j` -/
def adTerm (p : AD α × AD α) (tm : Nat × Nat × α) : AD α :=
  AD.mul (AD.mul (adConst tm.2.2) (adPow p.1 tm.1)) (adPow p.2 tm.2.1)

/-- the polynomial `Σ c·x^i·y^j` over a list of terms `(i, j, c)` as a closure on dual numbers
    (what a user closure `|x, y| c₁·x^i₁·y^j₁ + (c₂·x^i₂·y^j₂ + …)` does) -/
def adPoly2 : List (Nat × Nat × α) → AD α × AD α → AD α
  | [], _ => adConst Num.zero
  | tm :: ts, p => AD.add (adTerm p tm) (adPoly2 ts p)

/-- the affine `c`-curve `c(z) = (a·z + k₁, b·z + k₂)` -/
def cAff (a b k1 k2 : α) (z : AD α) : AD α × AD α :=
  (AD.add (AD.mul (adConst a) z) (adConst k1), AD.add (AD.mul (adConst b) z) (adConst k2))

end

/-! ### over `Rat`: values and tangents -/

theorem rzero : (Num.zero : Rat) = 0 := QuadTiling.zero_eq
theorem rone : (Num.one : Rat) = 1 := by simp [Num.one, Num.ofNat]
theorem rofNat0 : (Num.ofNat 0 : Rat) = 0 := by simp [Num.ofNat]
theorem rofNat1 : (Num.ofNat 1 : Rat) = 1 := by simp [Num.ofNat]

theorem adPow_v (x d : Rat) (n : Nat) : (adPow ⟨x, d⟩ n).v = x ^ n := by
  induction n with
  | zero => simp [adPow, adConst, rone]
  | succ n ih => simp only [adPow, AD.mul, ih, pow_succ]

theorem adPow_d (x d : Rat) (n : Nat) : (adPow ⟨x, d⟩ n).d = (n : Rat) * x ^ (n - 1) * d := by
  induction n with
  | zero => simp [adPow, adConst, rzero]
  | succ n ih =>
    simp only [adPow, AD.mul, ih, adPow_v]
    cases n with
    | zero => simp
    | succ m =>
      simp only [Nat.add_sub_cancel, pow_succ]
      push_cast
      ring

/-- `∂/∂x` on term lists: `c·x^i·y^j ↦ (i·c)·x^(i−1)·y^j` -/
def dxTerms (terms : List (Nat × Nat × Rat)) : List (Nat × Nat × Rat) :=
  terms.map fun tm => (tm.1 - 1, tm.2.1, (tm.1 : Rat) * tm.2.2)

/-- `∂/∂y` on term lists -/
def dyTerms (terms : List (Nat × Nat × Rat)) : List (Nat × Nat × Rat) :=
  terms.map fun tm => (tm.1, tm.2.1 - 1, (tm.2.1 : Rat) * tm.2.2)

@[simp] theorem dxTerms_nil : dxTerms [] = [] := rfl
@[simp] theorem dyTerms_nil : dyTerms [] = [] := rfl
@[simp] theorem dxTerms_cons (tm : Nat × Nat × Rat) (ts : List (Nat × Nat × Rat)) :
    dxTerms (tm :: ts) = (tm.1 - 1, tm.2.1, (tm.1 : Rat) * tm.2.2) :: dxTerms ts := rfl
@[simp] theorem dyTerms_cons (tm : Nat × Nat × Rat) (ts : List (Nat × Nat × Rat)) :
    dyTerms (tm :: ts) = (tm.1, tm.2.1 - 1, (tm.2.1 : Rat) * tm.2.2) :: dyTerms ts := rfl

/-- value of the closure, any incoming tangents -/
theorem adPoly2_v (terms : List (Nat × Nat × Rat)) (x dx y dy : Rat) :
    (adPoly2 terms (⟨x, dx⟩, ⟨y, dy⟩)).v = evalTerms terms x y := by
  induction terms with
  | nil => simp [adPoly2, adConst, rzero]
  | cons tm ts ih =>
    simp only [adPoly2, adTerm, AD.add, AD.mul, adConst, adPow_v, ih, evalTerms_cons]

/-- tangent of the closure: `dx · ∂f/∂x + dy · ∂f/∂y` -/
theorem adPoly2_d (terms : List (Nat × Nat × Rat)) (x dx y dy : Rat) :
    (adPoly2 terms (⟨x, dx⟩, ⟨y, dy⟩)).d =
      dx * evalTerms (dxTerms terms) x y + dy * evalTerms (dyTerms terms) x y := by
  induction terms with
  | nil => simp [adPoly2, adConst, rzero]
  | cons tm ts ih =>
    simp only [adPoly2, adTerm, AD.add, AD.mul, adConst, adPow_v, adPow_d, ih, evalTerms_cons,
      dxTerms_cons, dyTerms_cons, rzero]
    ring

/-! ### arithmetic on term lists -/

/-- coefficientwise scaling -/
def scaleTerms (k : Rat) (terms : List (Nat × Nat × Rat)) : List (Nat × Nat × Rat) :=
  terms.map fun tm => (tm.1, tm.2.1, k * tm.2.2)

theorem evalTerms_scale (k : Rat) (terms : List (Nat × Nat × Rat)) (x y : Rat) :
    evalTerms (scaleTerms k terms) x y = k * evalTerms terms x y := by
  induction terms with
  | nil => simp [scaleTerms]
  | cons tm ts ih =>
    have : scaleTerms k (tm :: ts) = (tm.1, tm.2.1, k * tm.2.2) :: scaleTerms k ts := rfl
    rw [this, evalTerms_cons, evalTerms_cons, ih]
    ring

theorem evalTerms_append (A B : List (Nat × Nat × Rat)) (x y : Rat) :
    evalTerms (A ++ B) x y = evalTerms A x y + evalTerms B x y := by
  induction A with
  | nil => simp
  | cons tm ts ih => rw [List.cons_append, evalTerms_cons, evalTerms_cons, ih]; ring

/-- one term times a term list -/
def mulTerm (a : Nat × Nat × Rat) (B : List (Nat × Nat × Rat)) : List (Nat × Nat × Rat) :=
  B.map fun b => (a.1 + b.1, a.2.1 + b.2.1, a.2.2 * b.2.2)

/-- product of two term lists -/
def mulTerms : List (Nat × Nat × Rat) → List (Nat × Nat × Rat) → List (Nat × Nat × Rat)
  | [], _ => []
  | a :: A, B => mulTerm a B ++ mulTerms A B

theorem evalTerms_mulTerm (a : Nat × Nat × Rat) (B : List (Nat × Nat × Rat)) (x y : Rat) :
    evalTerms (mulTerm a B) x y = a.2.2 * x ^ a.1 * y ^ a.2.1 * evalTerms B x y := by
  induction B with
  | nil => simp [mulTerm]
  | cons b B ih =>
    have : mulTerm a (b :: B) = (a.1 + b.1, a.2.1 + b.2.1, a.2.2 * b.2.2) :: mulTerm a B := rfl
    rw [this, evalTerms_cons, evalTerms_cons, ih]
    simp only [pow_add]
    ring

theorem evalTerms_mulTerms (A B : List (Nat × Nat × Rat)) (x y : Rat) :
    evalTerms (mulTerms A B) x y = evalTerms A x y * evalTerms B x y := by
  induction A with
  | nil => simp [mulTerms]
  | cons a A ih =>
    rw [mulTerms, evalTerms_append, evalTerms_mulTerm, ih, evalTerms_cons]
    ring

/-- formal total degree of a term list is at most `d` -/
def DegLe (d : Nat) (terms : List (Nat × Nat × Rat)) : Prop := ∀ tm ∈ terms, tm.1 + tm.2.1 ≤ d

instance (d : Nat) (terms : List (Nat × Nat × Rat)) : Decidable (DegLe d terms) := by
  unfold DegLe; exact inferInstance

theorem DegLe.mono {d e : Nat} (h : d ≤ e) {terms : List (Nat × Nat × Rat)} (ht : DegLe d terms) :
    DegLe e terms := fun tm htm => le_trans (ht tm htm) h

theorem DegLe_scale (d : Nat) (k : Rat) (terms : List (Nat × Nat × Rat)) (h : DegLe d terms) :
    DegLe d (scaleTerms k terms) := by
  intro tm htm
  obtain ⟨t, ht, rfl⟩ := List.mem_map.mp htm
  exact h t ht

theorem DegLe_dx (d : Nat) (terms : List (Nat × Nat × Rat)) (h : DegLe d terms) :
    DegLe d (dxTerms terms) := by
  intro tm htm
  obtain ⟨t, ht, rfl⟩ := List.mem_map.mp htm
  have := h t ht
  simp only
  omega

theorem DegLe_dy (d : Nat) (terms : List (Nat × Nat × Rat)) (h : DegLe d terms) :
    DegLe d (dyTerms terms) := by
  intro tm htm
  obtain ⟨t, ht, rfl⟩ := List.mem_map.mp htm
  have := h t ht
  simp only
  omega

theorem DegLe_append (d : Nat) (A B : List (Nat × Nat × Rat)) (hA : DegLe d A) (hB : DegLe d B) :
    DegLe d (A ++ B) := by
  intro tm htm
  rcases List.mem_append.mp htm with h | h
  · exact hA tm h
  · exact hB tm h

theorem DegLe_mulTerms (d e : Nat) (A B : List (Nat × Nat × Rat)) (hA : DegLe d A)
    (hB : DegLe e B) : DegLe (d + e) (mulTerms A B) := by
  induction A with
  | nil => intro tm htm; simp [mulTerms] at htm
  | cons a A ih =>
    rw [mulTerms]
    refine DegLe_append _ _ _ ?_ (ih (fun t ht => hA t (List.mem_cons_of_mem _ ht)))
    intro tm htm
    obtain ⟨b, hb, rfl⟩ := List.mem_map.mp htm
    have h1 := hA a List.mem_cons_self
    have h2 := hB b hb
    simp only
    omega

/-! ### the Jacobian weight for the affine `c`-curve -/

/-- the terms of `det Dg = 1 − a·∂f/∂x − b·∂f/∂y` for `g(x,y) = (x − a·f, y − b·f)` -/
def detTerms (a b : Rat) (terms : List (Nat × Nat × Rat)) : List (Nat × Nat × Rat) :=
  (0, 0, 1) :: (scaleTerms (-a) (dxTerms terms) ++ scaleTerms (-b) (dyTerms terms))

theorem evalTerms_detTerms (a b : Rat) (terms : List (Nat × Nat × Rat)) (x y : Rat) :
    evalTerms (detTerms a b terms) x y =
      1 - a * evalTerms (dxTerms terms) x y - b * evalTerms (dyTerms terms) x y := by
  rw [detTerms, evalTerms_cons, evalTerms_append, evalTerms_scale, evalTerms_scale]
  simp only [pow_zero]
  ring

theorem DegLe_detTerms (d : Nat) (a b : Rat) (terms : List (Nat × Nat × Rat)) (h : DegLe d terms) :
    DegLe d (detTerms a b terms) := by
  intro tm htm
  rcases List.mem_cons.mp htm with rfl | htm
  · exact Nat.zero_le _
  · exact DegLe_append d _ _ (DegLe_scale d _ _ (DegLe_dx d _ h))
      (DegLe_scale d _ _ (DegLe_dy d _ h)) tm htm

/-- **the Jacobian weight** of `g(x) = x − c(f(x))` for the affine `c`-curve and ANY closure `f`:
    `|1 − a·f_x − b·f_y|`, the partial derivatives being the tangents `f` returns for the unit
    incoming tangents -/
theorem absJacobianDet_cAff (f : AD Rat × AD Rat → AD Rat) (a b k1 k2 x y : Rat) :
    absJacobianDet (gAD3 f (cAff a b k1 k2)) (x, y) =
      |1 - a * (f (⟨x, 1⟩, ⟨y, 0⟩)).d - b * (f (⟨x, 0⟩, ⟨y, 1⟩)).d| := by
  simp only [absJacobianDet, gAD3, cAff, AD.sub, AD.add, AD.mul, adConst, rzero, rofNat0, rofNat1,
    numAbs_eq]
  congr 1
  ring

/-- **(V1) the integrand of the model** for `f = adPoly2 terms` and the affine `c`-curve:
    `f(x,y) · |1 − a·f_x(x,y) − b·f_y(x,y)|` -/
theorem integrand3_adPoly2_cAff (terms : List (Nat × Nat × Rat)) (a b k1 k2 x y : Rat) :
    C08.integrand3 (adPoly2 terms) (cAff a b k1 k2) x y =
      evalTerms terms x y * |evalTerms (detTerms a b terms) x y| := by
  unfold C08.integrand3
  rw [absJacobianDet_cAff, adPoly2_d, adPoly2_d, evalTerms_detTerms]
  simp only [AD.ofF, adPoly2_v, one_mul, zero_mul, add_zero, zero_add]

/-- the terms of `f · σ·det Dg` (`σ = ±1` the sign of the determinant) -/
def cavTerms (σ a b : Rat) (terms : List (Nat × Nat × Rat)) : List (Nat × Nat × Rat) :=
  mulTerms terms (scaleTerms σ (detTerms a b terms))

theorem DegLe_cavTerms (d : Nat) (σ a b : Rat) (terms : List (Nat × Nat × Rat))
    (h : DegLe d terms) : DegLe (d + d) (cavTerms σ a b terms) :=
  DegLe_mulTerms d d _ _ h (DegLe_scale d _ _ (DegLe_detTerms d a b terms h))

/-- **(V1), at a point where `σ·det Dg ≥ 0`** (`σ = ±1`): the integrand is the evaluation of the
    explicit term list `cavTerms σ a b terms` -/
theorem integrand3_adPoly2_sign_at (terms : List (Nat × Nat × Rat)) (σ a b k1 k2 : Rat)
    (hσ : σ = 1 ∨ σ = -1) (x y : Rat) (hs : 0 ≤ σ * evalTerms (detTerms a b terms) x y) :
    C08.integrand3 (adPoly2 terms) (cAff a b k1 k2) x y = evalTerms (cavTerms σ a b terms) x y := by
  rw [integrand3_adPoly2_cAff, cavTerms, evalTerms_mulTerms, evalTerms_scale]
  congr 1
  rcases hσ with rfl | rfl
  · rw [one_mul] at hs ⊢
    exact abs_of_nonneg hs
  · rw [neg_one_mul] at hs ⊢
    exact abs_of_nonpos (by linarith)

/-- **(V1), determinant of constant sign `σ`** at every rational point -/
theorem integrand3_adPoly2_sign (terms : List (Nat × Nat × Rat)) (σ a b k1 k2 : Rat)
    (hσ : σ = 1 ∨ σ = -1) (hs : ∀ x y : Rat, 0 ≤ σ * evalTerms (detTerms a b terms) x y)
    (x y : Rat) :
    C08.integrand3 (adPoly2 terms) (cAff a b k1 k2) x y = evalTerms (cavTerms σ a b terms) x y :=
  integrand3_adPoly2_sign_at terms σ a b k1 k2 hσ x y (hs x y)

/-- **(V1)(a) constant `c`-curve** (`a = b = 0`, `g = id` up to a constant, `det Dg = 1`): the
    integrand is `f` itself -/
theorem integrand3_adPoly2_const (terms : List (Nat × Nat × Rat)) (k1 k2 x y : Rat) :
    C08.integrand3 (adPoly2 terms) (cAff 0 0 k1 k2) x y = evalTerms terms x y := by
  rw [integrand3_adPoly2_cAff, evalTerms_detTerms]
  simp

/-- the affine polynomial `p + q·x + r·y` as a term list -/
def affTerms (p q r : Rat) : List (Nat × Nat × Rat) := [(0, 0, p), (1, 0, q), (0, 1, r)]

theorem evalTerms_affTerms (p q r x y : Rat) : evalTerms (affTerms p q r) x y = p + q * x + r * y := by
  simp [affTerms, evalTerms]
  ring

/-- **(V1)(b) affine `f`, affine `c`**: `det Dg = 1 − a·q − b·r` is constant and the integrand is
    the affine polynomial `|1 − a·q − b·r| · (p + q·x + r·y)` -/
theorem integrand3_affine (p q r a b k1 k2 x y : Rat) :
    C08.integrand3 (adPoly2 (affTerms p q r)) (cAff a b k1 k2) x y =
      evalTerms (affTerms (p * |1 - a * q - b * r|) (q * |1 - a * q - b * r|)
        (r * |1 - a * q - b * r|)) x y := by
  rw [integrand3_adPoly2_cAff, evalTerms_detTerms, evalTerms_affTerms, evalTerms_affTerms]
  have h1 : evalTerms (dxTerms (affTerms p q r)) x y = q := by
    simp [affTerms, dxTerms, evalTerms]
  have h2 : evalTerms (dyTerms (affTerms p q r)) x y = r := by
    simp [affTerms, dyTerms, evalTerms]
  rw [h1, h2]
  ring

/-! ### the image under `XQ.fin` -/

/-- dual numbers with finite components -/
def finAD (z : AD Rat) : AD XQ := ⟨.fin z.v, .fin z.d⟩

/-- terms with finite coefficients -/
def finTerms (terms : List (Nat × Nat × Rat)) : List (Nat × Nat × XQ) :=
  terms.map fun tm => (tm.1, tm.2.1, XQ.fin tm.2.2)

theorem finAD_add (p q : AD Rat) : AD.add (finAD p) (finAD q) = finAD (AD.add p q) := rfl
theorem finAD_mul (p q : AD Rat) : AD.mul (finAD p) (finAD q) = finAD (AD.mul p q) := rfl
theorem finAD_sub (p q : AD Rat) : AD.sub (finAD p) (finAD q) = finAD (AD.sub p q) := by
  simp only [AD.sub, finAD, fin_sub]
theorem finAD_const (c : Rat) : adConst (XQ.fin c) = finAD (adConst c) := rfl

theorem finAD_pow (x : AD Rat) (n : Nat) : adPow (finAD x) n = finAD (adPow x n) := by
  induction n with
  | zero => rfl
  | succ n ih => simp only [adPow, ih, finAD_mul]

/-- `f` over `XQ` is the image of `f` over `Rat` on finite dual numbers -/
def HomF (F : AD XQ × AD XQ → AD XQ) (f : AD Rat × AD Rat → AD Rat) : Prop :=
  ∀ p q, F (finAD p, finAD q) = finAD (f (p, q))

/-- the same for the `c`-curve -/
def HomC (C : AD XQ → AD XQ × AD XQ) (c : AD Rat → AD Rat × AD Rat) : Prop :=
  ∀ z, C (finAD z) = (finAD (c z).1, finAD (c z).2)

theorem homF_adPoly2 (terms : List (Nat × Nat × Rat)) :
    HomF (adPoly2 (finTerms terms)) (adPoly2 terms) := by
  intro p q
  induction terms with
  | nil => rfl
  | cons tm ts ih =>
    have : finTerms (tm :: ts) = (tm.1, tm.2.1, XQ.fin tm.2.2) :: finTerms ts := rfl
    rw [this]
    simp only [adPoly2, adTerm, ih, finAD_const, finAD_pow, finAD_mul, finAD_add]

theorem homC_cAff (a b k1 k2 : Rat) :
    HomC (cAff (XQ.fin a) (XQ.fin b) (XQ.fin k1) (XQ.fin k2)) (cAff a b k1 k2) := by
  intro z
  simp only [cAff, finAD_const, finAD_mul, finAD_add]

/-- **the integrand over `XQ` at finite points is the image of the integrand over `Rat`** -/
theorem integrand3_fin (F : AD XQ × AD XQ → AD XQ) (f : AD Rat × AD Rat → AD Rat)
    (C : AD XQ → AD XQ × AD XQ) (c : AD Rat → AD Rat × AD Rat) (hF : HomF F f) (hC : HomC C c)
    (x y : Rat) :
    C08.integrand3 F C (.fin x) (.fin y) = XQ.fin (C08.integrand3 f c x y) := by
  have e0 : ∀ q : Rat, AD.ofF (XQ.fin q) = finAD (AD.ofF q) := fun _ => rfl
  have e1 : ∀ (q : Rat) (n : Nat), (AD.mk (XQ.fin q) (Num.ofNat n) : AD XQ) = finAD ⟨q, Num.ofNat n⟩ :=
    fun _ _ => rfl
  have hF' : ∀ p q, F (finAD p, finAD q) = finAD (f (p, q)) := hF
  have hC' : ∀ z, C (finAD z) = (finAD (c z).1, finAD (c z).2) := hC
  have hg : ∀ p q, gAD3 F C (finAD p, finAD q) = (finAD (gAD3 f c (p, q)).1, finAD (gAD3 f c (p, q)).2) := by
    intro p q
    simp only [gAD3, hF' p q, hC', finAD_sub]
  unfold C08.integrand3 absJacobianDet
  simp only [e0, e1, hF' _ _, hg]
  simp only [finAD, fin_mul, fin_sub, fin_abs]

end Cav.Acc3
