/-
  (M1) The fan lemma for `nodeTriangulate` / `backTriangulate` on a back-chain of arbitrary
  length: pure heap reasoning, independent of polygons.  A chain is a list of (node index,
  point) pairs read from the head (`Seg`) or from the tail (`SegR`); `nodeTriangulate` started at
  the first element cuts the triangles `first, q k, q (k+1)` as long as the clockwise test
  succeeds (`FanF` / `FanB`) and stops at the first failure or at the end of the chain.
-/
import Cav.Lemmas.CvxHeap

set_option linter.unusedSimpArgs false
set_option linter.unusedVariables false
set_option linter.unusedSectionVars false

namespace Cav.MonoHeap
open Cav Num Cav.Sweep Cav.SweepRun Cav.TriRun Cav.QuadRun Cav.CvxHeap

variable {α : Type} [Num α]

/-- index of the first element of a chain piece, or the link `e` behind it -/
def nxtOf (l : List (Nat × Pt α)) (e : Option Nat) : Option Nat :=
  match l with
  | [] => e
  | (i, _) :: _ => some i

/-- the cells of `l` are linked in this order, read from the head: `prev` of the first is `a`,
    `next` of the last is `e` -/
def Seg (N : Array (Node α)) : Option Nat → List (Nat × Pt α) → Option Nat → Prop
  | _, [], _ => True
  | a, (i, p) :: rest, e => N[i]? = some ⟨p, a, nxtOf rest e⟩ ∧ Seg N (some i) rest e

/-- the same read from the tail: `next` of the first is `a`, `prev` of the last is `e` -/
def SegR (N : Array (Node α)) : Option Nat → List (Nat × Pt α) → Option Nat → Prop
  | _, [], _ => True
  | a, (i, p) :: rest, e => N[i]? = some ⟨p, nxtOf rest e, a⟩ ∧ SegR N (some i) rest e

theorem Seg.congr {N N' : Array (Node α)} : ∀ {l : List (Nat × Pt α)} {a e : Option Nat},
    (∀ i ∈ l.map Prod.fst, N'[i]? = N[i]?) → Seg N a l e → Seg N' a l e
  | [], _, _, _, _ => trivial
  | (i, p) :: rest, a, e, h, hs => by
    obtain ⟨h1, h2⟩ := hs
    refine ⟨?_, Seg.congr (fun k hk => h k (by simp at hk ⊢; exact Or.inr hk)) h2⟩
    rw [h i (by simp)]; exact h1

theorem SegR.congr {N N' : Array (Node α)} : ∀ {l : List (Nat × Pt α)} {a e : Option Nat},
    (∀ i ∈ l.map Prod.fst, N'[i]? = N[i]?) → SegR N a l e → SegR N' a l e
  | [], _, _, _, _ => trivial
  | (i, p) :: rest, a, e, h, hs => by
    obtain ⟨h1, h2⟩ := hs
    refine ⟨?_, SegR.congr (fun k hk => h k (by simp at hk ⊢; exact Or.inr hk)) h2⟩
    rw [h i (by simp)]; exact h1

/-- the clockwise tests of a forward fan from the point `pf` over the points `q` -/
def FanF (pf : Pt α) : List (Pt α) → Prop
  | q0 :: q1 :: r => clockwiseSign pf q0 q1 = .c ∧ FanF pf (q1 :: r)
  | _ => True

/-- the triangles of a forward fan, most recent first (the order of `St.out`) -/
def trisF (pf : Pt α) : List (Pt α) → List (Pt α × Pt α × Pt α)
  | q0 :: q1 :: r => trisF pf (q1 :: r) ++ [sort3 pf q0 q1]
  | _ => []

/-- the clockwise tests of a backward fan from the point `pf` (the tail) -/
def FanB (pf : Pt α) : List (Pt α) → Prop
  | q0 :: q1 :: r => clockwiseSign q1 q0 pf = .c ∧ FanB pf (q1 :: r)
  | _ => True

def trisB (pf : Pt α) : List (Pt α) → List (Pt α × Pt α × Pt α)
  | q0 :: q1 :: r => trisB pf (q1 :: r) ++ [sort3 q1 q0 pf]
  | _ => []

/-- the fan stops behind `pg`: the chain ends, or the next test fails -/
def StopF (pf pg : Pt α) : List (Nat × Pt α) → Prop
  | [] => True
  | (_, ph) :: _ => clockwiseSign pf pg ph ≠ .c

def StopB (pf pg : Pt α) : List (Nat × Pt α) → Prop
  | [] => True
  | (_, ph) :: _ => clockwiseSign ph pg pf ≠ .c

theorem get_cut_other (N : Array (Node α)) (i1 i3 : Nat) (n1 n3 : Node α) (k : Nat)
    (h1 : k ≠ i1) (h3 : k ≠ i3) : (cut N i1 i3 n1 n3)[k]? = N[k]? := by
  simp [cut, Array.getElem?_setIfInBounds, h1.symm, h3.symm]

/-- one cut keeps the chain linked (forward view) -/
theorem seg_cut {N : Array (Node α)} {f m h : Nat} {pf pm ph : Pt α} {tl : List (Nat × Pt α)}
    {a : Option Nat}
    (hs : Seg N a ((f, pf) :: (m, pm) :: (h, ph) :: tl) none)
    (hnd : (((f, pf) :: (m, pm) :: (h, ph) :: tl).map Prod.fst).Nodup) :
    Seg (cut N f h ⟨pf, a, some m⟩ ⟨ph, some m, nxtOf tl none⟩) a ((f, pf) :: (h, ph) :: tl) none := by
  obtain ⟨hf, hm, hh, htl⟩ := hs
  simp only [List.map_cons, List.nodup_cons, List.mem_cons, not_or] at hnd
  obtain ⟨⟨nfm, nfh, nftl⟩, ⟨nmh, nmtl⟩, nhtl, ndtl⟩ := hnd
  refine ⟨?_, ?_, ?_⟩
  · exact cut_fst N f h _ _ (lt_of_get hf) nfh
  · exact cut_snd N f h _ _ (lt_of_get hh)
  · refine Seg.congr ?_ htl
    intro k hk
    exact get_cut_other N f h _ _ k (fun e => nftl (e ▸ hk)) (fun e => nhtl (e ▸ hk))

/-- one cut keeps the chain linked (backward view) -/
theorem segR_cut {N : Array (Node α)} {f m h : Nat} {pf pm ph : Pt α} {tl : List (Nat × Pt α)}
    {a : Option Nat}
    (hs : SegR N a ((f, pf) :: (m, pm) :: (h, ph) :: tl) none)
    (hnd : (((f, pf) :: (m, pm) :: (h, ph) :: tl).map Prod.fst).Nodup) :
    SegR (cut N h f ⟨ph, nxtOf tl none, some m⟩ ⟨pf, some m, a⟩) a ((f, pf) :: (h, ph) :: tl) none := by
  obtain ⟨hf, hm, hh, htl⟩ := hs
  simp only [List.map_cons, List.nodup_cons, List.mem_cons, not_or] at hnd
  obtain ⟨⟨nfm, nfh, nftl⟩, ⟨nmh, nmtl⟩, nhtl, ndtl⟩ := hnd
  refine ⟨?_, ?_, ?_⟩
  · exact cut_snd N h f _ _ (lt_of_get hf)
  · exact cut_fst N h f _ _ (lt_of_get hh) (Ne.symm nfh)
  · refine SegR.congr ?_ htl
    intro k hk
    exact get_cut_other N h f _ _ k (fun e => nhtl (e ▸ hk)) (fun e => nftl (e ▸ hk))

/-! ### one iteration of `nodeTriangulate` -/

theorem nt_zero (f : Nat) (bw : Bool) (s : St α) :
    (nodeTriangulate f bw 0).run s = .ok ((), s) := rfl

theorem nt_fwd_step (s : St α) (f m h : Nat) (pf pm ph : Pt α) (a x x' e3 : Option Nat) (k : Nat)
    (hf : s.nodes[f]? = some ⟨pf, a, some m⟩) (hm : s.nodes[m]? = some ⟨pm, x, some h⟩)
    (hh : s.nodes[h]? = some ⟨ph, x', e3⟩) (hne : f ≠ h) (hcw : clockwiseSign pf pm ph = .c) :
    (nodeTriangulate f false (k + 1)).run s =
      (nodeTriangulate f false k).run
        { s with nodes := cut s.nodes f h ⟨pf, a, some m⟩ ⟨ph, x', e3⟩,
                 out := sort3 pf pm ph :: s.out } := by
  have l1 := lt_of_get hf
  rw [nodeTriangulate]
  simp only [↓run_bind, run_pure, run_getNode, hf, hm, hh, hcw, Bool.false_eq_true, if_false,
    if_true, run_setNode, run_modify, Array.getElem?_setIfInBounds, hne, l1, beq_self_eq_true]
  rfl

theorem nt_fwd_stop2 (s : St α) (f g : Nat) (pf pg : Pt α) (a x : Option Nat) (k : Nat)
    (hf : s.nodes[f]? = some ⟨pf, a, some g⟩) (hg : s.nodes[g]? = some ⟨pg, x, none⟩) :
    (nodeTriangulate f false k).run s = .ok ((), s) := by
  cases k with
  | zero => rfl
  | succ k =>
    rw [nodeTriangulate]
    simp [↓run_bind, run_pure, run_getNode, hf, hg, -StateT.run_pure, -StateT.run_bind]

theorem nt_fwd_stop3 (s : St α) (f g h : Nat) (pf pg ph : Pt α) (a x x' e3 : Option Nat) (k : Nat)
    (hf : s.nodes[f]? = some ⟨pf, a, some g⟩) (hg : s.nodes[g]? = some ⟨pg, x, some h⟩)
    (hh : s.nodes[h]? = some ⟨ph, x', e3⟩) (hcw : clockwiseSign pf pg ph ≠ .c) :
    (nodeTriangulate f false k).run s = .ok ((), s) := by
  cases k with
  | zero => rfl
  | succ k =>
    rw [nodeTriangulate]
    simp [↓run_bind, run_pure, run_getNode, hf, hg, hh, hcw, -StateT.run_pure, -StateT.run_bind]

theorem nt_bwd_step (s : St α) (f m h : Nat) (pf pm ph : Pt α) (a x x' e3 : Option Nat) (k : Nat)
    (hf : s.nodes[f]? = some ⟨pf, some m, a⟩) (hm : s.nodes[m]? = some ⟨pm, some h, x⟩)
    (hh : s.nodes[h]? = some ⟨ph, e3, x'⟩) (hne : h ≠ f) (hcw : clockwiseSign ph pm pf = .c) :
    (nodeTriangulate f true (k + 1)).run s =
      (nodeTriangulate f true k).run
        { s with nodes := cut s.nodes h f ⟨ph, e3, x'⟩ ⟨pf, some m, a⟩,
                 out := sort3 ph pm pf :: s.out } := by
  have l1 := lt_of_get hh
  rw [nodeTriangulate]
  simp only [↓run_bind, run_pure, run_getNode, hf, hm, hh, hcw, if_false,
    if_true, run_setNode, run_modify, Array.getElem?_setIfInBounds, hne, l1, beq_self_eq_true]
  rfl

theorem nt_bwd_stop2 (s : St α) (f g : Nat) (pf pg : Pt α) (a x : Option Nat) (k : Nat)
    (hf : s.nodes[f]? = some ⟨pf, some g, a⟩) (hg : s.nodes[g]? = some ⟨pg, none, x⟩) :
    (nodeTriangulate f true k).run s = .ok ((), s) := by
  cases k with
  | zero => rfl
  | succ k =>
    rw [nodeTriangulate]
    simp [↓run_bind, run_pure, run_getNode, hf, hg, -StateT.run_pure, -StateT.run_bind]

theorem nt_bwd_stop3 (s : St α) (f g h : Nat) (pf pg ph : Pt α) (a x x' e3 : Option Nat) (k : Nat)
    (hf : s.nodes[f]? = some ⟨pf, some g, a⟩) (hg : s.nodes[g]? = some ⟨pg, some h, x⟩)
    (hh : s.nodes[h]? = some ⟨ph, e3, x'⟩) (hcw : clockwiseSign ph pg pf ≠ .c) :
    (nodeTriangulate f true k).run s = .ok ((), s) := by
  cases k with
  | zero => rfl
  | succ k =>
    rw [nodeTriangulate]
    simp [↓run_bind, run_pure, run_getNode, hf, hg, hh, hcw, -StateT.run_pure, -StateT.run_bind]

/-! ### the fan lemma -/

/-- **forward fan**: `nodeTriangulate` from the head `f` cuts the nodes `mid` (all tests succeed)
    and stops at `g` (end of the chain or a failing test) -/
theorem nt_fwd_fan : ∀ (mid : List (Nat × Pt α)) (s : St α) (f : Nat) (pf : Pt α) (a : Option Nat)
    (g : Nat) (pg : Pt α) (rest : List (Nat × Pt α)) (fuel : Nat),
    Seg s.nodes a ((f, pf) :: mid ++ (g, pg) :: rest) none →
    (((f, pf) :: mid ++ (g, pg) :: rest).map Prod.fst).Nodup →
    FanF pf (mid.map Prod.snd ++ [pg]) → StopF pf pg rest → mid.length ≤ fuel →
    ∃ N', (nodeTriangulate f false fuel).run s =
        .ok ((), { s with nodes := N', out := trisF pf (mid.map Prod.snd ++ [pg]) ++ s.out }) ∧
      Seg N' a ((f, pf) :: (g, pg) :: rest) none ∧ N'.size = s.nodes.size ∧
      (∀ k, k ≠ f → (∀ x ∈ mid, x.1 ≠ k) → k ≠ g → N'[k]? = s.nodes[k]?) := by
  intro mid
  induction mid with
  | nil =>
    intro s f pf a g pg rest fuel hs hnd hfan hstop hfuel
    refine ⟨s.nodes, ?_, hs, rfl, fun _ _ _ _ => rfl⟩
    obtain ⟨hf, hg, hr⟩ := hs
    cases rest with
    | nil => exact nt_fwd_stop2 s f g pf pg a _ fuel hf hg
    | cons hd tl =>
      obtain ⟨h, ph⟩ := hd
      obtain ⟨hh, -⟩ := hr
      exact nt_fwd_stop3 s f g h pf pg ph a _ _ _ fuel hf hg hh hstop
  | cons hd mid' ih =>
    intro s f pf a g pg rest fuel hs hnd hfan hstop hfuel
    obtain ⟨m, pm⟩ := hd
    obtain ⟨fuel, rfl⟩ : ∃ k, fuel = k + 1 := ⟨fuel - 1, by simp at hfuel; omega⟩
    -- the node behind `m`
    obtain ⟨h, ph, tl, htl, hcw, hfan', hmem⟩ : ∃ h ph tl, mid' ++ (g, pg) :: rest = (h, ph) :: tl ∧
        clockwiseSign pf pm ph = .c ∧ FanF pf (mid'.map Prod.snd ++ [pg]) ∧
        (h = g ∨ ∃ x ∈ mid', x.1 = h) := by
      cases mid' with
      | nil => exact ⟨g, pg, rest, rfl, hfan.1, trivial, Or.inl rfl⟩
      | cons hd2 mid'' =>
        obtain ⟨h, ph⟩ := hd2
        exact ⟨h, ph, mid'' ++ (g, pg) :: rest, rfl, hfan.1, hfan.2, Or.inr ⟨(h, ph), by simp, rfl⟩⟩
    have hs' : Seg s.nodes a ((f, pf) :: (m, pm) :: (h, ph) :: tl) none := by
      rw [← htl]; exact hs
    have hnd' : (((f, pf) :: (m, pm) :: (h, ph) :: tl).map Prod.fst).Nodup := by
      rw [← htl]; exact hnd
    obtain ⟨hf, hm, hh, hr⟩ := hs'
    have nfh : f ≠ h := by
      simp only [List.map_cons, List.nodup_cons, List.mem_cons, not_or] at hnd'
      exact hnd'.1.2.1
    rw [nt_fwd_step s f m h pf pm ph a _ _ _ fuel hf hm hh nfh hcw]
    have hseg := seg_cut (show Seg s.nodes a ((f, pf) :: (m, pm) :: (h, ph) :: tl) none from
      ⟨hf, hm, hh, hr⟩) hnd'
    rw [← htl] at hseg
    have hnd2 : (((f, pf) :: mid' ++ (g, pg) :: rest).map Prod.fst).Nodup := by
      simp only [List.cons_append, List.map_cons, List.nodup_cons, List.mem_cons, not_or] at hnd ⊢
      exact ⟨hnd.1.2, hnd.2.2⟩
    obtain ⟨N', hrun, hseg', hsz, hfr⟩ := ih
      { s with nodes := cut s.nodes f h ⟨pf, a, some m⟩ ⟨ph, some m, nxtOf tl none⟩,
               out := sort3 pf pm ph :: s.out } f pf a g pg rest fuel hseg hnd2 hfan' hstop
      (by simp at hfuel ⊢; omega)
    refine ⟨N', ?_, hseg', ?_, ?_⟩
    · rw [hrun]
      have : trisF pf (((m, pm) :: mid').map Prod.snd ++ [pg]) =
          trisF pf (mid'.map Prod.snd ++ [pg]) ++ [sort3 pf pm ph] := by
        cases mid' with
        | nil => simp only [List.nil_append, List.cons.injEq] at htl; obtain ⟨⟨-, rfl⟩, -⟩ := htl; rfl
        | cons hd2 mid'' =>
          simp only [List.cons_append, List.cons.injEq] at htl
          obtain ⟨rfl, -⟩ := htl
          rfl
      rw [this]
      simp
    · rw [hsz]; exact size_cut _ _ _ _ _
    · intro k hkf hkm hkg
      have hkh : k ≠ h := by
        rcases hmem with rfl | ⟨x, hx, rfl⟩
        · exact hkg
        · exact (hkm x (List.mem_cons_of_mem _ hx)).symm
      rw [hfr k hkf (fun x hx => hkm x (List.mem_cons_of_mem _ hx)) hkg]
      exact get_cut_other _ _ _ _ _ k hkf hkh

/-- **backward fan**: `nodeTriangulate` from the tail `f` (the chain read from the tail) cuts the nodes `mid` (all tests succeed)
    and stops at `g` (end of the chain or a failing test) -/
theorem nt_bwd_fan : ∀ (mid : List (Nat × Pt α)) (s : St α) (f : Nat) (pf : Pt α) (a : Option Nat)
    (g : Nat) (pg : Pt α) (rest : List (Nat × Pt α)) (fuel : Nat),
    SegR s.nodes a ((f, pf) :: mid ++ (g, pg) :: rest) none →
    (((f, pf) :: mid ++ (g, pg) :: rest).map Prod.fst).Nodup →
    FanB pf (mid.map Prod.snd ++ [pg]) → StopB pf pg rest → mid.length ≤ fuel →
    ∃ N', (nodeTriangulate f true fuel).run s =
        .ok ((), { s with nodes := N', out := trisB pf (mid.map Prod.snd ++ [pg]) ++ s.out }) ∧
      SegR N' a ((f, pf) :: (g, pg) :: rest) none ∧ N'.size = s.nodes.size ∧
      (∀ k, k ≠ f → (∀ x ∈ mid, x.1 ≠ k) → k ≠ g → N'[k]? = s.nodes[k]?) := by
  intro mid
  induction mid with
  | nil =>
    intro s f pf a g pg rest fuel hs hnd hfan hstop hfuel
    refine ⟨s.nodes, ?_, hs, rfl, fun _ _ _ _ => rfl⟩
    obtain ⟨hf, hg, hr⟩ := hs
    cases rest with
    | nil => exact nt_bwd_stop2 s f g pf pg a _ fuel hf hg
    | cons hd tl =>
      obtain ⟨h, ph⟩ := hd
      obtain ⟨hh, -⟩ := hr
      exact nt_bwd_stop3 s f g h pf pg ph a _ _ _ fuel hf hg hh hstop
  | cons hd mid' ih =>
    intro s f pf a g pg rest fuel hs hnd hfan hstop hfuel
    obtain ⟨m, pm⟩ := hd
    obtain ⟨fuel, rfl⟩ : ∃ k, fuel = k + 1 := ⟨fuel - 1, by simp at hfuel; omega⟩
    -- the node behind `m`
    obtain ⟨h, ph, tl, htl, hcw, hfan', hmem⟩ : ∃ h ph tl, mid' ++ (g, pg) :: rest = (h, ph) :: tl ∧
        clockwiseSign ph pm pf = .c ∧ FanB pf (mid'.map Prod.snd ++ [pg]) ∧
        (h = g ∨ ∃ x ∈ mid', x.1 = h) := by
      cases mid' with
      | nil => exact ⟨g, pg, rest, rfl, hfan.1, trivial, Or.inl rfl⟩
      | cons hd2 mid'' =>
        obtain ⟨h, ph⟩ := hd2
        exact ⟨h, ph, mid'' ++ (g, pg) :: rest, rfl, hfan.1, hfan.2, Or.inr ⟨(h, ph), by simp, rfl⟩⟩
    have hs' : SegR s.nodes a ((f, pf) :: (m, pm) :: (h, ph) :: tl) none := by
      rw [← htl]; exact hs
    have hnd' : (((f, pf) :: (m, pm) :: (h, ph) :: tl).map Prod.fst).Nodup := by
      rw [← htl]; exact hnd
    obtain ⟨hf, hm, hh, hr⟩ := hs'
    have nfh : f ≠ h := by
      simp only [List.map_cons, List.nodup_cons, List.mem_cons, not_or] at hnd'
      exact hnd'.1.2.1
    rw [nt_bwd_step s f m h pf pm ph a _ _ _ fuel hf hm hh (Ne.symm nfh) hcw]
    have hseg := segR_cut (show SegR s.nodes a ((f, pf) :: (m, pm) :: (h, ph) :: tl) none from
      ⟨hf, hm, hh, hr⟩) hnd'
    rw [← htl] at hseg
    have hnd2 : (((f, pf) :: mid' ++ (g, pg) :: rest).map Prod.fst).Nodup := by
      simp only [List.cons_append, List.map_cons, List.nodup_cons, List.mem_cons, not_or] at hnd ⊢
      exact ⟨hnd.1.2, hnd.2.2⟩
    obtain ⟨N', hrun, hseg', hsz, hfr⟩ := ih
      { s with nodes := cut s.nodes h f ⟨ph, nxtOf tl none, some m⟩ ⟨pf, some m, a⟩,
               out := sort3 ph pm pf :: s.out } f pf a g pg rest fuel hseg hnd2 hfan' hstop
      (by simp at hfuel ⊢; omega)
    refine ⟨N', ?_, hseg', ?_, ?_⟩
    · rw [hrun]
      have : trisB pf (((m, pm) :: mid').map Prod.snd ++ [pg]) =
          trisB pf (mid'.map Prod.snd ++ [pg]) ++ [sort3 ph pm pf] := by
        cases mid' with
        | nil => simp only [List.nil_append, List.cons.injEq] at htl; obtain ⟨⟨-, rfl⟩, -⟩ := htl; rfl
        | cons hd2 mid'' =>
          simp only [List.cons_append, List.cons.injEq] at htl
          obtain ⟨rfl, -⟩ := htl
          rfl
      rw [this]
      simp
    · rw [hsz]; exact size_cut _ _ _ _ _
    · intro k hkf hkm hkg
      have hkh : k ≠ h := by
        rcases hmem with rfl | ⟨x, hx, rfl⟩
        · exact hkg
        · exact (hkm x (List.mem_cons_of_mem _ hx)).symm
      rw [hfr k hkf (fun x hx => hkm x (List.mem_cons_of_mem _ hx)) hkg]
      exact get_cut_other _ _ _ _ _ k hkh hkf

end Cav.MonoHeap
