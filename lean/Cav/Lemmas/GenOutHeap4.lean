/-
  List-level (`Seg`) heap lemmas for the general sweep, part 4: `chainSplit` followed by the
  backward fan over the lower chain and the forward fan over the upper chain (`split_fans`).
-/
import Cav.Lemmas.GenOutHeap3

set_option linter.unusedSimpArgs false
set_option linter.unusedVariables false
set_option linter.unusedSectionVars false

namespace Cav.GenOutHeap
open Cav Num Cav.Sweep Cav.SweepRun Cav.TriRun Cav.QuadRun Cav.CvxHeap Cav.MonoHeap

variable {α : Type} [Num α]

/-- the tail of the upper chain after a split -/
theorem split_tail (n : Nat) (m : Nat) (pm : Pt α) (ly : List (Nat × Pt α))
    (hnd : (((m, pm) :: ly).map Prod.fst).Nodup)
    (c : Chain) (hrm : c.rm = m)
    (htail : some c.tail = (((m, pm) :: ly).getLast?).map Prod.fst) :
    some (if c.tail == c.rm then n + 1 else c.tail) =
      (((n + 1, pm) :: ly).getLast?).map Prod.fst := by
  cases ly with
  | nil =>
    simp only [List.getLast?_singleton, Option.map_some, Option.some.injEq] at htail ⊢
    rw [htail, hrm]; simp
  | cons hd ly' =>
    rw [List.getLast?_cons_cons] at htail ⊢
    rw [← htail]
    obtain ⟨x, hx, e⟩ := mem_of_getLast?_fst htail
    have : c.tail ≠ c.rm := by
      rw [hrm, ← e]
      exact (nodup_app_ne (A := [(m, pm)]) (B := hd :: ly') (x := (m, pm)) hnd (by simp) hx).symm
    simp [this]

/-- **(D3)** `chainSplit` followed by the backward fan over the lower chain and the forward fan
    over the upper chain -/
theorem split_fans (N : Array (Node α)) (lx : List (Nat × Pt α)) (m : Nat) (pm : Pt α)
    (ly : List (Nat × Pt α))
    (h : Seg N none (lx ++ (m, pm) :: ly) none)
    (hnd : ((lx ++ (m, pm) :: ly).map Prod.fst).Nodup)
    (c : Chain) (hrm : c.rm = m) (hhead : some c.head = ((lx ++ [(m, pm)]).head?).map Prod.fst)
    (htail : some c.tail = (((m, pm) :: ly).getLast?).map Prod.fst)
    (p : Pt α) (sm0 : St α) (hsm : sm0.nodes = N)
    {mid1 : List (Nat × Pt α)} {g1 : Nat} {pg1 : Pt α} {rest1 : List (Nat × Pt α)}
    (hs1 : (m, pm) :: lx.reverse = mid1 ++ (g1, pg1) :: rest1)
    (hfan1 : FanB p (mid1.map Prod.snd ++ [pg1])) (hstop1 : StopB p pg1 rest1)
    {mid2 : List (Nat × Pt α)} {g2 : Nat} {pg2 : Pt α} {rest2 : List (Nat × Pt α)}
    (hs2 : (N.size + 1, pm) :: ly = mid2 ++ (g2, pg2) :: rest2)
    (hfan2 : FanF p (mid2.map Prod.snd ++ [pg2])) (hstop2 : StopF p pg2 rest2) :
    ∃ N' N3 N4 bcBot bcTop,
      bcBot = (⟨N.size, c.head, N.size⟩ : Chain) ∧
      bcTop = (⟨N.size + 2, N.size + 2, if c.tail == c.rm then N.size + 1 else c.tail⟩ : Chain) ∧
      (chainSplit c p).run sm0 = .ok ((bcBot, bcTop), { sm0 with nodes := N' }) ∧
      (backTriangulate bcBot true).run { sm0 with nodes := N' } =
        .ok ((), { sm0 with nodes := N3, out := trisB p (mid1.map Prod.snd ++ [pg1]) ++ sm0.out }) ∧
      (backTriangulate bcTop false).run
          { sm0 with nodes := N3, out := trisB p (mid1.map Prod.snd ++ [pg1]) ++ sm0.out } =
        .ok ((), { sm0 with nodes := N4, out := trisF p (mid2.map Prod.snd ++ [pg2]) ++
          (trisB p (mid1.map Prod.snd ++ [pg1]) ++ sm0.out) }) ∧
      Seg N4 none (rest1.reverse ++ [(g1, pg1), (N.size, p)]) none ∧
      Seg N4 none ((N.size + 2, p) :: (g2, pg2) :: rest2) none ∧ N4.size = N.size + 3 ∧
      some bcTop.tail = (((g2, pg2) :: rest2).getLast?).map Prod.fst ∧
      (∀ k, k < N.size → (∀ x ∈ lx ++ (m, pm) :: ly, x.1 ≠ k) → N4[k]? = N[k]?) := by
  obtain ⟨N', hrun, hsz, hlow, hup, hfr⟩ := seg_split N lx m pm ly h hnd c hrm p sm0 hsm
  have hlt := Seg.lt h
  have hlen := Seg.length_le h hnd
  have hndL : ((lx ++ [(m, pm)]).map Prod.fst).Nodup := by
    have : (((lx ++ [(m, pm)]) ++ ly).map Prod.fst).Nodup := by simpa using hnd
    exact nodup_app_left this
  have hndR : (((m, pm) :: ly).map Prod.fst).Nodup := nodup_app_right hnd
  -- the lower chain
  have hlow' : Seg N' none ((lx ++ [(m, pm)]) ++ (N.size, p) :: []) none := by simpa using hlow
  have hndLow : (((lx ++ [(m, pm)]) ++ (N.size, p) :: []).map Prod.fst).Nodup := by
    apply nodup_insert_mid (by simpa using hndL)
    intro x hx
    rw [List.append_nil] at hx
    exact Nat.ne_of_lt (hlt x (by
      rcases List.mem_append.mp hx with hx | hx
      · exact List.mem_append_left _ hx
      · rw [List.mem_singleton] at hx; rw [hx]; simp))
  have hrev : (lx ++ [(m, pm)]).reverse = mid1 ++ (g1, pg1) :: rest1 := by
    rw [List.reverse_append, List.reverse_singleton, List.singleton_append]; exact hs1
  have hlen1 : mid1.length ≤ N'.size + 2 := by
    have h' := congrArg List.length hs1
    simp only [List.length_reverse, List.length_append, List.length_cons] at h' hlen
    omega
  obtain ⟨N3, hrun3, hseg3, hsz3, hfr3⟩ := bwd_fan_mid { sm0 with nodes := N' } (lx ++ [(m, pm)])
    N.size p [] none hlow' hndLow hrev hfan1 hstop1 (N'.size + 2) hlen1
  -- members of the two halves
  have hmemL : ∀ x ∈ mid1 ++ (g1, pg1) :: rest1, x ∈ lx ++ [(m, pm)] := by
    intro x hx
    rw [← hrev] at hx
    exact List.mem_reverse.mp hx
  have hmemR : ∀ x ∈ mid2 ++ (g2, pg2) :: rest2, x ∈ (N.size + 1, pm) :: ly := by
    intro x hx
    rw [← hs2] at hx
    exact hx
  have hltL : ∀ x ∈ lx ++ [(m, pm)], x.1 < N.size := by
    intro x hx
    apply hlt x
    rcases List.mem_append.mp hx with hx | hx
    · exact List.mem_append_left _ hx
    · rw [List.mem_singleton] at hx; rw [hx]; simp
  have hdisj : ∀ x ∈ lx ++ [(m, pm)], ∀ y ∈ ly, x.1 ≠ y.1 := by
    intro x hx y hy
    have : (((lx ++ [(m, pm)]) ++ ly).map Prod.fst).Nodup := by simpa using hnd
    exact nodup_app_ne this hx hy
  -- the upper chain is not touched by the backward fan
  have hup3 : Seg N3 none ((N.size + 2, p) :: (N.size + 1, pm) :: ly) none := by
    refine Seg.congr ?_ hup
    intro k hk
    rw [List.mem_map] at hk
    obtain ⟨y, hy, rfl⟩ := hk
    have hy' : N.size < y.1 ∨ y ∈ ly := by
      rcases List.mem_cons.mp hy with rfl | hy
      · left; show N.size < N.size + 2; omega
      · rcases List.mem_cons.mp hy with rfl | hy
        · left; show N.size < N.size + 1; omega
        · right; exact hy
    have hd : ∀ x ∈ mid1 ++ (g1, pg1) :: rest1, x.1 ≠ y.1 := by
      intro x hx
      rcases hy' with hy' | hy'
      · have := hltL x (hmemL x hx); omega
      · exact hdisj x (hmemL x hx) y hy'
    apply hfr3 y.1
    · rcases hy' with hy' | hy'
      · omega
      · exact Nat.ne_of_lt (hlt y (List.mem_append_right _ (List.mem_cons_of_mem _ hy')))
    · exact fun x hx => hd x (List.mem_append_left _ hx)
    · exact fun e => hd (g1, pg1) (by simp) e.symm
  have hup3' : Seg N3 none ([] ++ (N.size + 2, p) :: (N.size + 1, pm) :: ly) none := hup3
  have hndUp : (([] ++ (N.size + 2, p) :: (N.size + 1, pm) :: ly).map Prod.fst).Nodup := by
    have hndy : (ly.map Prod.fst).Nodup := nodup_app_right (A := [(m, pm)]) hndR
    have hlty : ∀ x ∈ ly, x.1 < N.size := fun x hx =>
      hlt x (List.mem_append_right _ (List.mem_cons_of_mem _ hx))
    simp only [List.nil_append, List.map_cons, List.nodup_cons, List.mem_cons, List.mem_map, not_or,
      not_exists, not_and]
    refine ⟨⟨by omega, ?_⟩, ?_, hndy⟩
    · intro x hx e; have := hlty x hx; omega
    · intro x hx e; have := hlty x hx; omega
  have hlen2 : mid2.length ≤ N3.size + 2 := by
    have h' := congrArg List.length hs2
    simp only [List.length_append, List.length_cons] at h' hlen
    rw [hsz3]
    show mid2.length ≤ N'.size + 2
    omega
  obtain ⟨N4, hrun4, hseg4, hsz4, hfr4⟩ := fwd_fan_mid
    { sm0 with nodes := N3, out := trisB p (mid1.map Prod.snd ++ [pg1]) ++ sm0.out }
    [] (N.size + 2) p ((N.size + 1, pm) :: ly) none hup3' hndUp hs2 hfan2 hstop2 (N3.size + 2) hlen2
  -- the lower chain is not touched by the forward fan
  have hlow4 : Seg N4 none (rest1.reverse ++ (g1, pg1) :: (N.size, p) :: []) none := by
    refine Seg.congr ?_ hseg3
    intro k hk
    rw [List.mem_map] at hk
    obtain ⟨x, hx, rfl⟩ := hk
    have hx' : x.1 = N.size ∨ x ∈ lx ++ [(m, pm)] := by
      rcases List.mem_append.mp hx with hx | hx
      · right
        exact hmemL x (List.mem_append_right _ (List.mem_cons_of_mem _ (List.mem_reverse.mp hx)))
      · rcases List.mem_cons.mp hx with rfl | hx
        · right; exact hmemL _ (by simp)
        · rw [List.mem_singleton] at hx; left; rw [hx]
    have hxle : x.1 ≤ N.size := by
      rcases hx' with e | hx'
      · omega
      · exact Nat.le_of_lt (hltL x hx')
    have hd : ∀ y ∈ mid2 ++ (g2, pg2) :: rest2, y.1 ≠ x.1 := by
      intro y hy
      rcases List.mem_cons.mp (hmemR y hy) with rfl | hy
      · show N.size + 1 ≠ x.1; omega
      · rcases hx' with e | hx'
        · have := hlt y (List.mem_append_right _ (List.mem_cons_of_mem _ hy)); omega
        · exact (hdisj x hx' y hy).symm
    apply hfr4 x.1
    · omega
    · exact fun y hy => hd y (List.mem_append_left _ hy)
    · exact fun e => hd (g2, pg2) (by simp) e.symm
  refine ⟨N', N3, N4, _, _, rfl, rfl, hrun, ?_, ?_, hlow4, hseg4, ?_, ?_, ?_⟩
  · rw [run_backTri]; exact hrun3
  · rw [run_backTri]; exact hrun4
  · rw [hsz4]; show N3.size = _; rw [hsz3]; exact hsz
  · have := split_tail N.size m pm ly hndR c hrm htail
    rw [hs2] at this
    rw [this, List.getLast?_append]
    cases hq : ((g2, pg2) :: rest2).getLast? with
    | none => simp at hq
    | some z => rfl
  · intro k hk hout
    have hkL : ∀ x ∈ lx ++ [(m, pm)], x.1 ≠ k := by
      intro x hx
      apply hout x
      rcases List.mem_append.mp hx with hx | hx
      · exact List.mem_append_left _ hx
      · rw [List.mem_singleton] at hx; rw [hx]; simp
    have hkR : ∀ y ∈ (N.size + 1, pm) :: ly, y.1 ≠ k := by
      intro y hy
      rcases List.mem_cons.mp hy with rfl | hy
      · show N.size + 1 ≠ k; omega
      · exact hout y (List.mem_append_right _ (List.mem_cons_of_mem _ hy))
    rw [hfr4 k (by omega) (fun y hy => hkR y (hmemR y (List.mem_append_left _ hy)))
      (fun e => hkR (g2, pg2) (hmemR _ (by simp)) e.symm)]
    show N3[k]? = _
    rw [hfr3 k (by omega) (fun x hx => hkL x (hmemL x (List.mem_append_left _ hx)))
      (fun e => hkL (g1, pg1) (hmemL _ (by simp)) e.symm)]
    show N'[k]? = _
    apply hfr k hk (fun e => hout (m, pm) (by simp) e.symm)
    intro e
    cases ly with
    | nil => cases e
    | cons hd tl =>
      obtain ⟨rn, pr⟩ := hd
      simp only [nxtOf, Option.some.injEq] at e
      exact hout (rn, pr) (by simp) e

end Cav.GenOutHeap
