/-
  The bow-tie event chains of `BowEvents.lean` instantiated at finite points `q1 … q4` with
  increasing abscissae: every geometric hypothesis is discharged from the signs of the
  orientation determinants `orient qi qj qk` (lemmas of `QuadGeom.lean`).
-/
import Cav.Lemmas.QuadFlows
import Cav.Lemmas.BowEvents

set_option linter.unusedSimpArgs false
set_option linter.unusedVariables false

namespace Cav.BowFlows
open Cav Num Cav.Geo Cav.Sweep Cav.TriRun Cav.QuadRun Cav.QuadGeom Cav.QuadFlows Cav.BowEvents

/-- ring `q1 q2 q3 q4`: `q2` above, `q3` below the line `q1 q4` -/
theorem runBow_At (ori : Bool) (V : Array (Vtx XQ)) (i1 i2 i3 i4 : Nat) (q1 q2 q3 q4 : Rat × Rat)
    (h1 : V[i1]? = some ⟨Fq q1, (nb ori i4 i2).1, (nb ori i4 i2).2⟩)
    (h2 : V[i2]? = some ⟨Fq q2, (nb ori i1 i3).1, (nb ori i1 i3).2⟩)
    (h3 : V[i3]? = some ⟨Fq q3, (nb ori i2 i4).1, (nb ori i2 i4).2⟩)
    (h4 : V[i4]? = some ⟨Fq q4, (nb ori i3 i1).1, (nb ori i3 i1).2⟩)
    (h12 : q1.1 < q2.1) (h23 : q2.1 < q3.1) (h34 : q3.1 < q4.1)
    (s124 : orient q1 q2 q4 < 0) (s134 : 0 < orient q1 q3 q4) :
    Runs (stQ V [(i1, [])]) (.error (.overlap .bend (Fq q2))) (loop 5) := by
  have h13 := lt_trans h12 h23
  have h24 := lt_trans h23 h34
  have h14 := lt_trans h13 h34
  exact bow_At ori V i1 i2 i3 i4 (Fq q1) (Fq q2) (Fq q3) (Fq q4) h1 h2 h3 h4
    (ord4_fin q1 q2 q3 q4 h12 h23 h34)
    (cmpE_fanL0_lt q1 q4 q2 (by xord) (by xord) (by osgn))
    (cmpE_fanL0_gt q1 q2 q4 (by xord) (by xord) (by osgn))
    (cmpAt_keyEnd_lt q2 q3 q1 q4 (by xord) (by xord) (by xord) (by xord) (by osgn))

/-- ring `q1 q2 q3 q4`: `q2` below, `q3` above the line `q1 q4` -/
theorem runBow_Ab (ori : Bool) (V : Array (Vtx XQ)) (i1 i2 i3 i4 : Nat) (q1 q2 q3 q4 : Rat × Rat)
    (h1 : V[i1]? = some ⟨Fq q1, (nb ori i4 i2).1, (nb ori i4 i2).2⟩)
    (h2 : V[i2]? = some ⟨Fq q2, (nb ori i1 i3).1, (nb ori i1 i3).2⟩)
    (h3 : V[i3]? = some ⟨Fq q3, (nb ori i2 i4).1, (nb ori i2 i4).2⟩)
    (h4 : V[i4]? = some ⟨Fq q4, (nb ori i3 i1).1, (nb ori i3 i1).2⟩)
    (h12 : q1.1 < q2.1) (h23 : q2.1 < q3.1) (h34 : q3.1 < q4.1)
    (s124 : 0 < orient q1 q2 q4) (s134 : orient q1 q3 q4 < 0) :
    Runs (stQ V [(i1, [])]) (.error (.overlap .bend (Fq q2))) (loop 5) := by
  have h13 := lt_trans h12 h23
  have h24 := lt_trans h23 h34
  have h14 := lt_trans h13 h34
  exact bow_Ab ori V i1 i2 i3 i4 (Fq q1) (Fq q2) (Fq q3) (Fq q4) h1 h2 h3 h4
    (ord4_fin q1 q2 q3 q4 h12 h23 h34)
    (cmpE_fanL0_lt q1 q2 q4 (by xord) (by xord) (by osgn))
    (cmpE_fanL0_gt q1 q4 q2 (by xord) (by xord) (by osgn))
    (cmpAt_keyEnd_gt q2 q3 q1 q4 (by xord) (by xord) (by xord) (by xord) (by osgn))

/-- ring `q1 q2 q4 q3`: `q2` below the line `q1 q3`, `q3` below the line `q2 q4` -/
theorem runBow_Oa (ori : Bool) (V : Array (Vtx XQ)) (i1 i2 i3 i4 : Nat) (q1 q2 q3 q4 : Rat × Rat)
    (h1 : V[i1]? = some ⟨Fq q1, (nb ori i2 i3).1, (nb ori i2 i3).2⟩)
    (h2 : V[i2]? = some ⟨Fq q2, (nb ori i4 i1).1, (nb ori i4 i1).2⟩)
    (h3 : V[i3]? = some ⟨Fq q3, (nb ori i1 i4).1, (nb ori i1 i4).2⟩)
    (h4 : V[i4]? = some ⟨Fq q4, (nb ori i3 i2).1, (nb ori i3 i2).2⟩)
    (h12 : q1.1 < q2.1) (h23 : q2.1 < q3.1) (h34 : q3.1 < q4.1)
    (s123 : 0 < orient q1 q2 q3) (s234 : 0 < orient q2 q3 q4) :
    Runs (stQ V [(i1, [])]) (.error (.overlap .bend (Fq q2))) (loop 5) := by
  have h13 := lt_trans h12 h23
  have h24 := lt_trans h23 h34
  have h14 := lt_trans h13 h34
  exact bow_Oa ori V i1 i2 i3 i4 (Fq q1) (Fq q2) (Fq q3) (Fq q4) h1 h2 h3 h4
    (ord4_fin q1 q2 q3 q4 h12 h23 h34)
    (cmpE_fanL0_lt q1 q2 q3 (by xord) (by xord) (by osgn))
    (cmpE_fanL0_gt q1 q3 q2 (by xord) (by xord) (by osgn))
    (cmpAt_otherEnd_gt q2 q4 q1 q3 (by xord) (by xord) (by xord) (by xord) (by osgn))

/-- ring `q1 q2 q4 q3`: `q2` above the line `q1 q3`, `q3` above the line `q2 q4` -/
theorem runBow_Ob (ori : Bool) (V : Array (Vtx XQ)) (i1 i2 i3 i4 : Nat) (q1 q2 q3 q4 : Rat × Rat)
    (h1 : V[i1]? = some ⟨Fq q1, (nb ori i2 i3).1, (nb ori i2 i3).2⟩)
    (h2 : V[i2]? = some ⟨Fq q2, (nb ori i4 i1).1, (nb ori i4 i1).2⟩)
    (h3 : V[i3]? = some ⟨Fq q3, (nb ori i1 i4).1, (nb ori i1 i4).2⟩)
    (h4 : V[i4]? = some ⟨Fq q4, (nb ori i3 i2).1, (nb ori i3 i2).2⟩)
    (h12 : q1.1 < q2.1) (h23 : q2.1 < q3.1) (h34 : q3.1 < q4.1)
    (s123 : orient q1 q2 q3 < 0) (s234 : orient q2 q3 q4 < 0) :
    Runs (stQ V [(i1, [])]) (.error (.overlap .bend (Fq q2))) (loop 5) := by
  have h13 := lt_trans h12 h23
  have h24 := lt_trans h23 h34
  have h14 := lt_trans h13 h34
  exact bow_Ob ori V i1 i2 i3 i4 (Fq q1) (Fq q2) (Fq q3) (Fq q4) h1 h2 h3 h4
    (ord4_fin q1 q2 q3 q4 h12 h23 h34)
    (cmpE_fanL0_lt q1 q3 q2 (by xord) (by xord) (by osgn))
    (cmpE_fanL0_gt q1 q2 q3 (by xord) (by xord) (by osgn))
    (cmpAt_otherEnd_lt q2 q4 q1 q3 (by xord) (by xord) (by xord) (by xord) (by osgn))

/-- ring `q1 q3 q2 q4`, the edges `q1 q3` and `q2 q4` cross, `q2` below -/
theorem runBow_Zb34 (ori : Bool) (V : Array (Vtx XQ)) (i1 i2 i3 i4 : Nat) (q1 q2 q3 q4 : Rat × Rat)
    (h1 : V[i1]? = some ⟨Fq q1, (nb ori i4 i3).1, (nb ori i4 i3).2⟩)
    (h2 : V[i2]? = some ⟨Fq q2, (nb ori i3 i4).1, (nb ori i3 i4).2⟩)
    (h3 : V[i3]? = some ⟨Fq q3, (nb ori i1 i2).1, (nb ori i1 i2).2⟩)
    (h4 : V[i4]? = some ⟨Fq q4, (nb ori i2 i1).1, (nb ori i2 i1).2⟩)
    (h12 : q1.1 < q2.1) (h23 : q2.1 < q3.1) (h34 : q3.1 < q4.1)
    (s123 : 0 < orient q1 q2 q3) (s124 : 0 < orient q1 q2 q4) (s134 : 0 < orient q1 q3 q4) (s234 : 0 < orient q2 q3 q4) :
    Runs (stQ V [(i1, []), (i2, [])]) (.error (.overlap .start (Fq q2))) (loop 5) := by
  have h13 := lt_trans h12 h23
  have h24 := lt_trans h23 h34
  have h14 := lt_trans h13 h34
  exact bow_Zb34 ori V i1 i2 i3 i4 (Fq q1) (Fq q2) (Fq q3) (Fq q4) h1 h2 h3 h4
    (ord4_fin q1 q2 q3 q4 h12 h23 h34)
    (cmpE_fanL0_lt q1 q3 q4 (by xord) (by xord) (by osgn))
    (cmpE_fanL0_gt q1 q4 q3 (by xord) (by xord) (by osgn))
    (cmpE_fanL0_lt q2 q3 q4 (by xord) (by xord) (by osgn))
    (cmpE_fanL0_gt q2 q4 q3 (by xord) (by xord) (by osgn))
    (cmpE_ptKey_lt q2 q3 q1 q3 (by xord) (by xord) (by xord) (by xord) (by osgn))
    (cmpE_ptKey_lt q2 q3 q1 q4 (by xord) (by xord) (by xord) (by xord) (by osgn))
    (cmpE_ptKey_lt q2 q4 q1 q3 (by xord) (by xord) (by xord) (by xord) (by osgn))
    (cmpE_ptKey_lt q2 q4 q1 q4 (by xord) (by xord) (by xord) (by xord) (by osgn))
    (cmpE_fanL_lt q1 q3 q4 q2.1 (by xord) (by xord) (by xord) (by osgn))
    (cmpAt_otherEnd_gt q2 q4 q1 q3 (by xord) (by xord) (by xord) (by xord) (by osgn))

/-- ring `q1 q3 q2 q4`, the edges `q1 q3` and `q2 q4` cross, `q2` above -/
theorem runBow_Za43 (ori : Bool) (V : Array (Vtx XQ)) (i1 i2 i3 i4 : Nat) (q1 q2 q3 q4 : Rat × Rat)
    (h1 : V[i1]? = some ⟨Fq q1, (nb ori i4 i3).1, (nb ori i4 i3).2⟩)
    (h2 : V[i2]? = some ⟨Fq q2, (nb ori i3 i4).1, (nb ori i3 i4).2⟩)
    (h3 : V[i3]? = some ⟨Fq q3, (nb ori i1 i2).1, (nb ori i1 i2).2⟩)
    (h4 : V[i4]? = some ⟨Fq q4, (nb ori i2 i1).1, (nb ori i2 i1).2⟩)
    (h12 : q1.1 < q2.1) (h23 : q2.1 < q3.1) (h34 : q3.1 < q4.1)
    (s123 : orient q1 q2 q3 < 0) (s124 : orient q1 q2 q4 < 0) (s134 : orient q1 q3 q4 < 0) (s234 : orient q2 q3 q4 < 0) :
    Runs (stQ V [(i1, []), (i2, [])]) (.error (.overlap .start (Fq q2))) (loop 5) := by
  have h13 := lt_trans h12 h23
  have h24 := lt_trans h23 h34
  have h14 := lt_trans h13 h34
  exact bow_Za43 ori V i1 i2 i3 i4 (Fq q1) (Fq q2) (Fq q3) (Fq q4) h1 h2 h3 h4
    (ord4_fin q1 q2 q3 q4 h12 h23 h34)
    (cmpE_fanL0_lt q1 q4 q3 (by xord) (by xord) (by osgn))
    (cmpE_fanL0_gt q1 q3 q4 (by xord) (by xord) (by osgn))
    (cmpE_fanL0_lt q2 q4 q3 (by xord) (by xord) (by osgn))
    (cmpE_fanL0_gt q2 q3 q4 (by xord) (by xord) (by osgn))
    (cmpE_ptKey_gt q2 q4 q1 q4 (by xord) (by xord) (by xord) (by xord) (by osgn))
    (cmpE_ptKey_gt q2 q4 q1 q3 (by xord) (by xord) (by xord) (by xord) (by osgn))
    (cmpE_ptKey_gt q2 q3 q1 q4 (by xord) (by xord) (by xord) (by xord) (by osgn))
    (cmpE_ptKey_gt q2 q3 q1 q3 (by xord) (by xord) (by xord) (by xord) (by osgn))
    (cmpE_fanL_gt q1 q3 q4 q2.1 (by xord) (by xord) (by xord) (by osgn))
    (cmpAt_otherEnd_lt q2 q4 q1 q3 (by xord) (by xord) (by xord) (by xord) (by osgn))

/-- ring `q1 q3 q2 q4`, the edges `q2 q3` and `q1 q4` cross, `q2` below -/
theorem runBow_Zb43 (ori : Bool) (V : Array (Vtx XQ)) (i1 i2 i3 i4 : Nat) (q1 q2 q3 q4 : Rat × Rat)
    (h1 : V[i1]? = some ⟨Fq q1, (nb ori i4 i3).1, (nb ori i4 i3).2⟩)
    (h2 : V[i2]? = some ⟨Fq q2, (nb ori i3 i4).1, (nb ori i3 i4).2⟩)
    (h3 : V[i3]? = some ⟨Fq q3, (nb ori i1 i2).1, (nb ori i1 i2).2⟩)
    (h4 : V[i4]? = some ⟨Fq q4, (nb ori i2 i1).1, (nb ori i2 i1).2⟩)
    (h12 : q1.1 < q2.1) (h23 : q2.1 < q3.1) (h34 : q3.1 < q4.1)
    (s123 : 0 < orient q1 q2 q3) (s124 : 0 < orient q1 q2 q4) (s134 : orient q1 q3 q4 < 0) (s234 : orient q2 q3 q4 < 0) :
    Runs (stQ V [(i1, []), (i2, [])]) (.error (.overlap .start (Fq q2))) (loop 5) := by
  have h13 := lt_trans h12 h23
  have h24 := lt_trans h23 h34
  have h14 := lt_trans h13 h34
  exact bow_Zb43 ori V i1 i2 i3 i4 (Fq q1) (Fq q2) (Fq q3) (Fq q4) h1 h2 h3 h4
    (ord4_fin q1 q2 q3 q4 h12 h23 h34)
    (cmpE_fanL0_lt q1 q4 q3 (by xord) (by xord) (by osgn))
    (cmpE_fanL0_gt q1 q3 q4 (by xord) (by xord) (by osgn))
    (cmpE_fanL0_lt q2 q4 q3 (by xord) (by xord) (by osgn))
    (cmpE_fanL0_gt q2 q3 q4 (by xord) (by xord) (by osgn))
    (cmpE_ptKey_lt q2 q4 q1 q4 (by xord) (by xord) (by xord) (by xord) (by osgn))
    (cmpE_ptKey_lt q2 q4 q1 q3 (by xord) (by xord) (by xord) (by xord) (by osgn))
    (cmpE_ptKey_lt q2 q3 q1 q4 (by xord) (by xord) (by xord) (by xord) (by osgn))
    (cmpE_ptKey_lt q2 q3 q1 q3 (by xord) (by xord) (by xord) (by xord) (by osgn))
    (cmpE_fanL_lt q1 q4 q3 q2.1 (by xord) (by xord) (by xord) (by osgn))
    (cmpAt_keyEnd_gt q2 q3 q1 q4 (by xord) (by xord) (by xord) (by xord) (by osgn))

/-- ring `q1 q3 q2 q4`, the edges `q2 q3` and `q1 q4` cross, `q2` above -/
theorem runBow_Za34 (ori : Bool) (V : Array (Vtx XQ)) (i1 i2 i3 i4 : Nat) (q1 q2 q3 q4 : Rat × Rat)
    (h1 : V[i1]? = some ⟨Fq q1, (nb ori i4 i3).1, (nb ori i4 i3).2⟩)
    (h2 : V[i2]? = some ⟨Fq q2, (nb ori i3 i4).1, (nb ori i3 i4).2⟩)
    (h3 : V[i3]? = some ⟨Fq q3, (nb ori i1 i2).1, (nb ori i1 i2).2⟩)
    (h4 : V[i4]? = some ⟨Fq q4, (nb ori i2 i1).1, (nb ori i2 i1).2⟩)
    (h12 : q1.1 < q2.1) (h23 : q2.1 < q3.1) (h34 : q3.1 < q4.1)
    (s123 : orient q1 q2 q3 < 0) (s124 : orient q1 q2 q4 < 0) (s134 : 0 < orient q1 q3 q4) (s234 : 0 < orient q2 q3 q4) :
    Runs (stQ V [(i1, []), (i2, [])]) (.error (.overlap .start (Fq q2))) (loop 5) := by
  have h13 := lt_trans h12 h23
  have h24 := lt_trans h23 h34
  have h14 := lt_trans h13 h34
  exact bow_Za34 ori V i1 i2 i3 i4 (Fq q1) (Fq q2) (Fq q3) (Fq q4) h1 h2 h3 h4
    (ord4_fin q1 q2 q3 q4 h12 h23 h34)
    (cmpE_fanL0_lt q1 q3 q4 (by xord) (by xord) (by osgn))
    (cmpE_fanL0_gt q1 q4 q3 (by xord) (by xord) (by osgn))
    (cmpE_fanL0_lt q2 q3 q4 (by xord) (by xord) (by osgn))
    (cmpE_fanL0_gt q2 q4 q3 (by xord) (by xord) (by osgn))
    (cmpE_ptKey_gt q2 q3 q1 q3 (by xord) (by xord) (by xord) (by xord) (by osgn))
    (cmpE_ptKey_gt q2 q3 q1 q4 (by xord) (by xord) (by xord) (by xord) (by osgn))
    (cmpE_ptKey_gt q2 q4 q1 q3 (by xord) (by xord) (by xord) (by xord) (by osgn))
    (cmpE_ptKey_gt q2 q4 q1 q4 (by xord) (by xord) (by xord) (by xord) (by osgn))
    (cmpE_fanL_gt q1 q4 q3 q2.1 (by xord) (by xord) (by xord) (by osgn))
    (cmpAt_keyEnd_lt q2 q3 q1 q4 (by xord) (by xord) (by xord) (by xord) (by osgn))

end Cav.BowFlows
