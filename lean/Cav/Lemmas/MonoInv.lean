/-
  The back-chain invariant of a monotone polygon at the level of rational points (`CG`): the
  chain, read from the end at which its own polygon chain `c` grows, has strictly decreasing
  abscissae, no `σ`-turns, starts at the current vertex `c ic` and ends at the current vertex `e`
  of the other polygon chain; all points but the last belong to `c`.  Its two updates (`same_end`:
  a Bend on `c` cuts the maximal fan; `other_end`: a Bend on the other chain cuts everything) and
  the area bookkeeping.
-/
import Cav.Lemmas.MonoFan

set_option linter.unusedVariables false
set_option linter.unusedSimpArgs false

namespace Cav.MonoInv
open Cav Cav.Geo Cav.CvxEvents Cav.CvxGeom Cav.CvxLoop Cav.MonoGeom Cav.MonoFan

structure CG (σ : Rat) (c : Nat → Q) (ic : Nat) (iF iL : Nat) (e : Q) (sz : Nat)
    (l : List (Nat × Q)) : Prop where
  nd : (l.map Prod.fst).Nodup
  len : l.length ≤ sz
  idx : ∀ x ∈ l, x.1 < sz
  first : ∃ r, l = (iF, c ic) :: r
  last : l.getLast? = some (iL, e)
  xd : XDec (l.map Prod.snd)
  nt : NoTurn σ (l.map Prod.snd)
  same : ∀ q ∈ l.dropLast, ∃ k, 0 < k ∧ k ≤ ic ∧ q.2 = c k

theorem XDec.le_head : ∀ {a : Q} {r : List Q}, XDec (a :: r) → ∀ q ∈ a :: r, q.1 ≤ a.1
  | a, [], _, q, hq => by simp at hq; rw [hq]
  | a, b :: r, h, q, hq => by
    rcases List.mem_cons.mp hq with rfl | hq
    · exact le_refl _
    · exact le_trans (XDec.le_head h.2 q hq) (le_of_lt h.1)

theorem XInc.reverse {l : List Q} (h : XInc l) : XDec l.reverse := by
  apply xDec_of_at
  intro pre u v post e
  have e' := rev_decomp2 e
  clear e
  subst e'
  -- `u`, `v` are consecutive (in the other order) in the increasing list
  have : ∀ (pre : List Q) (l : List Q), XInc (pre ++ l) → XInc l := by
    intro pre
    induction pre with
    | nil => intro l h; exact h
    | cons a pre ih => intro l h; exact ih l (XInc.tail h)
  exact (this _ _ h).1

section
variable {σ : Rat} {c : Nat → Q} {ic iF iL : Nat} {e : Q} {sz : Nat} {l : List (Nat × Q)}

theorem CG.ne_nil (h : CG σ c ic iF iL e sz l) : l ≠ [] := by
  obtain ⟨r, rfl⟩ := h.first; simp

theorem CG.x_le (h : CG σ c ic iF iL e sz l) : ∀ q ∈ l, q.2.1 ≤ (c ic).1 := by
  obtain ⟨r, rfl⟩ := h.first
  intro q hq
  have := XDec.le_head (a := c ic) (r := r.map Prod.snd) (by simpa using h.xd) q.2
    (by simp only [List.mem_cons, List.mem_map] at hq ⊢
        rcases hq with rfl | hq
        · exact Or.inl rfl
        · exact Or.inr ⟨q, hq, rfl⟩)
  exact this

/-- a Bend on the chain's own polygon chain: the new point `u = c (ic + 1)` cuts the fan `mid` -/
theorem CG.same_end (h : CG σ c ic iF iL e sz l) {u : Q} (hu : u = c (ic + 1))
    (hux : (c ic).1 < u.1) {mid : List (Nat × Q)} {g : Nat × Q} {rest : List (Nat × Q)}
    (hs : l = mid ++ g :: rest)
    (hstop : ∀ h r, rest = h :: r → ¬ σ * orient u g.2 h.2 < 0) :
    CG σ c (ic + 1) sz iL e (sz + 1) ((sz, u) :: g :: rest) := by
  have hsub : ∀ x ∈ g :: rest, x ∈ l := fun x hx => by rw [hs]; exact List.mem_append_right _ hx
  have hlast : (g :: rest).getLast? = some (iL, e) := by
    have := h.last
    rw [hs, List.getLast?_append] at this
    cases hgl : (g :: rest).getLast? with
    | none => simp at hgl
    | some z => rw [hgl] at this; simpa using this
  refine ⟨?_, ?_, ?_, ⟨_, by rw [hu]⟩, ?_, ?_, ?_, ?_⟩
  · have hnd := h.nd
    rw [hs, List.map_append, List.nodup_append] at hnd
    rw [List.map_cons, List.nodup_cons]
    refine ⟨?_, hnd.2.1⟩
    intro hmem
    obtain ⟨x, hx, hx'⟩ := List.mem_map.mp hmem
    have := h.idx x (hsub x hx)
    omega
  · have := h.len
    rw [hs, List.length_append] at this
    simp only [List.length_cons] at this ⊢
    omega
  · intro x hx
    rcases List.mem_cons.mp hx with rfl | hx
    · exact Nat.lt_succ_self _
    · exact Nat.lt_succ_of_lt (h.idx x (hsub x hx))
  · rw [List.getLast?_cons_cons]; exact hlast
  · have hxd := h.xd
    rw [hs, List.map_append] at hxd
    refine ⟨?_, XDec.suffix hxd⟩
    exact lt_of_le_of_lt (h.x_le g (hsub g (by simp))) hux
  · have hnt := h.nt
    rw [hs, List.map_append] at hnt
    have hsuf := NoTurn.suffix hnt
    cases rest with
    | nil => trivial
    | cons hh r => exact ⟨hstop hh r rfl, hsuf⟩
  · intro q hq
    rw [List.dropLast_cons_cons] at hq
    rcases List.mem_cons.mp hq with rfl | hq
    · exact ⟨ic + 1, by omega, le_refl _, hu⟩
    · have : q ∈ l.dropLast := by
        rw [hs, List.dropLast_append_of_ne_nil (by simp)]
        exact List.mem_append_right _ hq
      obtain ⟨k, h1, h2, h3⟩ := h.same q this
      exact ⟨k, h1, by omega, h3⟩

/-- a Bend on the other polygon chain `c'`: everything is cut, the new chain is `[u, c ic]` -/
theorem CG.other_end (h : CG σ c ic iF iL e sz l) {c' : Nat → Q} {ic' : Nat} {u : Q}
    (hu : u = c' (ic' + 1)) (hux : (c ic).1 < u.1) :
    CG (-σ) c' (ic' + 1) sz iF (c ic) (sz + 1) [(sz, u), (iF, c ic)] := by
  obtain ⟨r, hr⟩ := h.first
  have hF : iF < sz := h.idx (iF, c ic) (by rw [hr]; simp)
  refine ⟨?_, ?_, ?_, ⟨_, by rw [hu]⟩, rfl, ⟨hux, trivial⟩, trivial, ?_⟩
  · simp; omega
  · have := h.len; rw [hr] at this; simp at this ⊢; omega
  · intro x hx
    simp only [List.mem_cons, List.not_mem_nil, or_false] at hx
    rcases hx with rfl | rfl
    · exact Nat.lt_succ_self _
    · exact Nat.lt_succ_of_lt hF
  · intro q hq
    have : q = (sz, u) := by simpa using hq
    subst this
    exact ⟨ic' + 1, by omega, le_refl _, hu⟩

/-- the last two points of a chain with at least two points -/
theorem CG.last_two (h : CG σ c ic iF iL e sz l) {pre : List Q} {y z : Q}
    (hp : l.map Prod.snd = pre ++ [y, z]) :
    z = e ∧ ∃ k, 0 < k ∧ k ≤ ic ∧ y = c k ∧ e.1 < (c k).1 := by
  obtain ⟨ys, hys⟩ := List.getLast?_eq_some_iff.mp h.last
  have hz : z = e := by
    have h1 : (l.map Prod.snd).getLast? = some e := by rw [hys]; simp
    rw [hp] at h1
    simpa using h1
  subst hz
  have hys' : ys.map Prod.snd = pre ++ [y] := by
    rw [hys, List.map_append] at hp
    have : ys.map Prod.snd ++ [z] = (pre ++ [y]) ++ [z] := by simpa using hp
    exact List.append_cancel_right this
  obtain ⟨ws, hws⟩ : ∃ ws x, ys = ws ++ [x] ∧ x.2 = y := by
    rcases List.eq_nil_or_concat ys with rfl | ⟨ws, x, rfl⟩
    · simp at hys'
    · refine ⟨ws, x, List.concat_eq_append, ?_⟩
      rw [List.concat_eq_append, List.map_append] at hys'
      have := List.append_inj_right' hys' (by simp)
      simpa using this
  obtain ⟨x, rfl, hx⟩ := hws
  have hmem : x ∈ l.dropLast := by
    rw [hys, List.dropLast_concat]; simp
  obtain ⟨k, h1, h2, h3⟩ := h.same x hmem
  refine ⟨rfl, k, h1, h2, by rw [← hx, h3], ?_⟩
  have hxd := h.xd
  rw [hp] at hxd
  have := XDec.at (pre := pre) (u := y) (v := z) (post := []) hxd
  rw [← h3, hx]; exact this

/-- the same in the reversed chain -/
theorem CG.first_two_rev (h : CG σ c ic iF iL e sz l) {c0 c1 : Q} {r : List Q}
    (hp : (l.reverse).map Prod.snd = c0 :: c1 :: r) :
    c0 = e ∧ ∃ k, 0 < k ∧ k ≤ ic ∧ c1 = c k ∧ e.1 < (c k).1 := by
  have : l.map Prod.snd = r.reverse ++ [c1, c0] := by
    have := congrArg List.reverse hp
    simpa using this
  exact h.last_two this

/-- every point of the chain is a vertex -/
theorem CG.all (h : CG σ c ic iF iL e sz l) {P : Q → Prop} (hc : ∀ k, 0 < k → k ≤ ic → P (c k))
    (he : P e) : ∀ x ∈ l, P x.2 := by
  intro x hx
  have := List.dropLast_append_getLast? (iL, e) (by rw [h.last]; simp)
  rw [← this] at hx
  rcases List.mem_append.mp hx with hx | hx
  · obtain ⟨k, h1, h2, h3⟩ := h.same x hx
    rw [h3]; exact hc k h1 h2
  · simp only [List.mem_singleton] at hx
    subst hx; exact he

end

/-! ### area bookkeeping -/

theorem lastQ_eq_of_getLast : ∀ (q0 : Q) (r : List Q) (g : Q),
    (q0 :: r).getLast? = some g → lastQ q0 r = g
  | q0, [], g, h => by
    simp only [List.getLast?_singleton, Option.some.injEq] at h
    exact h
  | q0, a :: r, g, h => by
    rw [List.getLast?_cons_cons] at h
    exact lastQ_eq_of_getLast a r g h

/-- the area of the fan cut by a Bend on the chain's own polygon chain -/
theorem area_same (σ : Rat) (u q0 g : Q) (r' rest : List Q)
    (hg : (q0 :: r').getLast? = some g) :
    - σ * orientSum u (q0 :: r') =
      σ * cross q0 u + σ * pathSum (u :: g :: rest) -
        σ * (pathSum (q0 :: r') + pathSum (g :: rest)) := by
  rw [orientSum_eq, lastQ_eq_of_getLast q0 r' g hg]
  simp only [pathSum, cross_swap q0 u]
  ring

/-- the area of the complete fan cut by a Bend on the other polygon chain -/
theorem area_other (σ : Rat) (u e q0 : Q) (r' : List Q) (pts : List Q)
    (hrev : pts.reverse = e :: r') (hq0 : (e :: r').getLast? = some q0) :
    σ * orientSum u (e :: r') =
      σ * cross u e + (-σ) * pathSum [u, q0] - σ * pathSum pts := by
  rw [orientSum_eq, lastQ_eq_of_getLast e r' q0 hq0, ← hrev, pathSum_reverse]
  simp only [pathSum]
  ring

/-- bookkeeping of a Bend on the chain's own polygon chain -/
theorem acct_same (σ : Rat) (u q0 : Q) (iF n : Nat) (l mid : List (Nat × Q)) (g : Nat × Q)
    (rest : List (Nat × Q)) (out T : List Tri) (base : Rat) (cnt : Nat)
    (hl : l = mid ++ g :: rest) (hf : ∃ r, l = (iF, q0) :: r)
    (hT1 : T.length + 1 = max ((mid ++ [g]).map Prod.snd).length 1)
    (hT2 : areaSum T = - σ * orientSum u ((mid ++ [g]).map Prod.snd))
    (hc : out.length + l.length = cnt) (ha : areaSum out = base + σ * pathSum (l.map Prod.snd)) :
    (T ++ out).length + ((n, u) :: g :: rest).length = cnt + 1 ∧
      areaSum (T ++ out) =
        base + σ * cross q0 u + σ * pathSum (((n, u) :: g :: rest).map Prod.snd) := by
  obtain ⟨r, hr⟩ := hf
  obtain ⟨r', hr', hg⟩ : ∃ r', (mid ++ [g]).map Prod.snd = q0 :: r' ∧
      (q0 :: r').getLast? = some g.2 := by
    cases mid with
    | nil =>
      simp only [List.nil_append] at hl
      rw [hr] at hl
      simp only [List.cons.injEq] at hl
      obtain ⟨rfl, -⟩ := hl
      exact ⟨[], rfl, rfl⟩
    | cons m mid' =>
      rw [hr] at hl
      simp only [List.cons_append, List.cons.injEq] at hl
      obtain ⟨rfl, -⟩ := hl
      refine ⟨(mid' ++ [g]).map Prod.snd, rfl, ?_⟩
      rw [List.map_append, ← List.cons_append, List.getLast?_append]
      simp
  constructor
  · rw [hl] at hc
    simp only [List.length_append, List.length_cons, List.length_map, List.length_nil] at hT1 hc ⊢
    omega
  · rw [areaSum_append, hT2, ha, hr', area_same σ u q0 g.2 r' (rest.map Prod.snd) hg]
    have : l.map Prod.snd = (mid ++ [g]).map Prod.snd ++ rest.map Prod.snd := by
      rw [hl]; simp
    have e2 : pathSum (l.map Prod.snd) = pathSum (q0 :: r') + pathSum (g.2 :: rest.map Prod.snd) := by
      rw [hl, List.map_append, List.map_cons, pathSum_append, ← hr']
      simp
    rw [e2]
    simp only [List.map_cons]
    ring

/-- bookkeeping of a Bend on the other polygon chain -/
theorem acct_other (σ : Rat) (u q0 e : Q) (iF iL n : Nat) (l : List (Nat × Q))
    (out T : List Tri) (base : Rat) (cnt : Nat)
    (hf : ∃ r, l = (iF, q0) :: r) (hlast : l.getLast? = some (iL, e))
    (hT1 : T.length + 1 = max (l.reverse.map Prod.snd).length 1)
    (hT2 : areaSum T = σ * orientSum u (l.reverse.map Prod.snd))
    (hc : out.length + l.length = cnt) (ha : areaSum out = base + σ * pathSum (l.map Prod.snd)) :
    (T ++ out).length + 2 = cnt + 1 ∧
      areaSum (T ++ out) = base + σ * cross u e + (-σ) * pathSum [u, q0] := by
  obtain ⟨r, hr⟩ := hf
  obtain ⟨ys, hys⟩ := List.getLast?_eq_some_iff.mp hlast
  have hrev : (l.map Prod.snd).reverse = e :: (ys.map Prod.snd).reverse := by
    rw [hys]; simp
  have hq0 : (e :: (ys.map Prod.snd).reverse).getLast? = some q0 := by
    rw [← hrev, List.getLast?_reverse, hr]; rfl
  have e1 : l.reverse.map Prod.snd = e :: (ys.map Prod.snd).reverse := by
    rw [List.map_reverse]; exact hrev
  constructor
  · simp only [List.length_append, List.length_map, List.length_reverse] at hT1 ⊢
    have : 1 ≤ l.length := by rw [hr]; simp
    omega
  · rw [areaSum_append, hT2, ha, e1, area_other σ u e q0 _ (l.map Prod.snd) hrev hq0]
    ring

end Cav.MonoInv
