/-
  `DispL.ChainG` specialised to `Rat` is `C02.IsChain`.
-/
import Cav.Lemmas.DispList
import Cav.Thm.C02

namespace Cav.DispL

theorem chainG_iff_isChain (a b : Rat) (L : List (Rat × Rat)) : ChainG a b L ↔ C02.IsChain a b L := by
  induction L generalizing a with
  | nil => simp [ChainG, C02.IsChain]
  | cons p rest ih =>
    cases rest with
    | nil => simp [ChainG, C02.IsChain]
    | cons q rest' => simp only [ChainG, C02.IsChain, ih]

end Cav.DispL
