/-
  Induction principles for the mutually inductive grammar relations of `Spec/Grammar.lean`.
-/
import Cav.Spec.Grammar

namespace Cav.Grammar
open Cav

/-- simultaneous induction over the five grammar relations with proof-irrelevant motives -/
theorem grammar_induction {ctx : Ctx}
    {ME : E → List Char → Prop} {MM MT : Bool → E → List Char → Prop} {MP MA : E → List Char → Prop}
    (add : ∀ {l r s1 s2}, PExpr ctx l s1 → PMul ctx false r s2 → ME l s1 → MM false r s2 →
      ME (.bin .add l r) (s1 ++ '+' :: s2))
    (sub : ∀ {l r s1 s2}, PExpr ctx l s1 → PMul ctx false r s2 → ME l s1 → MM false r s2 →
      ME (.bin .sub l r) (s1 ++ '-' :: s2))
    (eup : ∀ {t s}, PMul ctx true t s → MM true t s → ME t s)
    (mul : ∀ {a l r s1 s2}, PMul ctx a l s1 → PTerm ctx true r s2 → MM a l s1 → MT true r s2 →
      MM a (.bin .mul l r) (s1 ++ '*' :: s2))
    (div : ∀ {a l r s1 s2}, PMul ctx a l s1 → PTerm ctx true r s2 → MM a l s1 → MT true r s2 →
      MM a (.bin .div l r) (s1 ++ '/' :: s2))
    (mup : ∀ {a t s}, PTerm ctx a t s → MT a t s → MM a t s)
    (neg : ∀ {t s}, PPow ctx t s → MP t s → MT true (.un .neg t) ('-' :: s))
    (pos : ∀ {a t s}, PPow ctx t s → MP t s → MT a t s)
    (pow : ∀ {b e s1 s2}, PAtom ctx b s1 → PTerm ctx true e s2 → MA b s1 → MT true e s2 →
      MP (.bin .pow b e) (s1 ++ '^' :: s2))
    (powi : ∀ {b n s1 s2}, PAtom ctx b s1 → I32Text n s2 → MA b s1 →
      MP (.powi b n) (s1 ++ '*' :: '*' :: s2))
    (pup : ∀ {t s}, PAtom ctx t s → MA t s → MP t s)
    (paren : ∀ {t s}, PExpr ctx t s → ME t s → MA t ('(' :: s ++ [')']))
    (num : ∀ {t s}, NumLeaf t s → MA t s)
    (call : ∀ {n t s}, IsName n → ctx.get (String.ofList n) = some .uop → PExpr ctx t s → ME t s →
      MA (.un ((UFn.ofName (String.ofList n)).getD (.user (String.ofList n))) t) (n ++ '(' :: s ++ [')']))
    (cst : ∀ {n}, IsName n → ctx.get (String.ofList n) = some .const → MA (.cst (String.ofList n)) n)
    (var : ∀ {n i}, IsName n → ctx.get (String.ofList n) = some (.var i) → MA (.var i) n) :
    (∀ {t s}, PExpr ctx t s → ME t s) ∧ (∀ {a t s}, PMul ctx a t s → MM a t s) ∧
    (∀ {a t s}, PTerm ctx a t s → MT a t s) ∧ (∀ {t s}, PPow ctx t s → MP t s) ∧
    (∀ {t s}, PAtom ctx t s → MA t s) := by
  refine ⟨fun h => ?_, fun h => ?_, fun h => ?_, fun h => ?_, fun h => ?_⟩
  · exact @PExpr.rec ctx (fun t s _ => ME t s) (fun a t s _ => MM a t s) (fun a t s _ => MT a t s)
      (fun t s _ => MP t s) (fun t s _ => MA t s) add sub eup mul div mup neg pos pow powi pup
      paren num call cst var _ _ h
  · exact @PMul.rec ctx (fun t s _ => ME t s) (fun a t s _ => MM a t s) (fun a t s _ => MT a t s)
      (fun t s _ => MP t s) (fun t s _ => MA t s) add sub eup mul div mup neg pos pow powi pup
      paren num call cst var _ _ _ h
  · exact @PTerm.rec ctx (fun t s _ => ME t s) (fun a t s _ => MM a t s) (fun a t s _ => MT a t s)
      (fun t s _ => MP t s) (fun t s _ => MA t s) add sub eup mul div mup neg pos pow powi pup
      paren num call cst var _ _ _ h
  · exact @PPow.rec ctx (fun t s _ => ME t s) (fun a t s _ => MM a t s) (fun a t s _ => MT a t s)
      (fun t s _ => MP t s) (fun t s _ => MA t s) add sub eup mul div mup neg pos pow powi pup
      paren num call cst var _ _ h
  · exact @PAtom.rec ctx (fun t s _ => ME t s) (fun a t s _ => MM a t s) (fun a t s _ => MT a t s)
      (fun t s _ => MP t s) (fun t s _ => MA t s) add sub eup mul div mup neg pos pow powi pup
      paren num call cst var _ _ h

/-- induction for properties of the STRING only.  `Q a s`: `s` is derivable at a level whose
    first factor may (`a = true`) or may not carry a unary minus. -/
theorem string_induction {ctx : Ctx} {Q : Bool → List Char → Prop}
    (mono : ∀ {s}, Q false s → Q true s)
    (num : ∀ {t s}, NumLeaf t s → Q false s)
    (name : ∀ {n}, IsName n → Q false n)
    (paren : ∀ {s}, Q true s → Q false ('(' :: s ++ [')']))
    (call : ∀ {n s}, IsName n → Q true s → Q false (n ++ '(' :: s ++ [')']))
    (pow : ∀ {s1 s2}, Q false s1 → Q true s2 → Q false (s1 ++ '^' :: s2))
    (powi : ∀ {n s1 s2}, Q false s1 → I32Text n s2 → Q false (s1 ++ '*' :: '*' :: s2))
    (neg : ∀ {s}, Q false s → Q true ('-' :: s))
    (mul : ∀ {a s1 s2}, Q a s1 → Q true s2 → Q a (s1 ++ '*' :: s2))
    (div : ∀ {a s1 s2}, Q a s1 → Q true s2 → Q a (s1 ++ '/' :: s2))
    (add : ∀ {s1 s2}, Q true s1 → Q false s2 → Q true (s1 ++ '+' :: s2))
    (sub : ∀ {s1 s2}, Q true s1 → Q false s2 → Q true (s1 ++ '-' :: s2)) :
    (∀ {t s}, PExpr ctx t s → Q true s) ∧ (∀ {a t s}, PMul ctx a t s → Q a s) ∧
    (∀ {a t s}, PTerm ctx a t s → Q a s) ∧ (∀ {t s}, PPow ctx t s → Q false s) ∧
    (∀ {t s}, PAtom ctx t s → Q false s) := by
  have := @grammar_induction ctx (fun _ s => Q true s) (fun a _ s => Q a s) (fun a _ s => Q a s)
    (fun _ s => Q false s) (fun _ s => Q false s)
    (fun _ _ h1 h2 => add h1 h2) (fun _ _ h1 h2 => sub h1 h2) (fun _ h => h)
    (fun _ _ h1 h2 => mul h1 h2) (fun _ _ h1 h2 => div h1 h2) (fun _ h => h)
    (fun _ h => neg h) (fun {a _ _} _ h => by cases a; exact h; exact mono h)
    (fun _ _ h1 h2 => pow h1 h2) (fun _ hi h1 => powi h1 hi) (fun _ h => h)
    (fun _ h => paren h) (fun h => num h) (fun hn _ _ h => call hn h)
    (fun hn _ => name hn) (fun hn _ => name hn)
  exact this

end Cav.Grammar
