/-
  Helper lemma for `Thm/C11Simple`: `RootSimple.sign_change_of_unique_simple_zero` on one oriented
  closed cell `InCellR σ xl xr` (`σ = ±1`, rational ends), for a rational function `g` with a
  continuous real extension `F`.
-/
import Cav.Lemmas.RootSimple
import Cav.Thm.C11Roots

namespace Cav.RootSimple
open Cav Cav.C11Roots Set

/-- **One cell.**  `F` a continuous real function that agrees with `g` on the rationals; `g` is
    non-zero at the two (rational) ends of the oriented cell; `ζ` is the only real zero of `F` in the
    closed cell and `F` has a non-zero derivative at `ζ`.  Then `g xl · g xr < 0`. -/
theorem cell_sign_change_of_simple_zero (g : Rat → Rat) (F : ℝ → ℝ) (hF : Continuous F)
    (hFg : ∀ q : Rat, F (q : ℝ) = ((g q : Rat) : ℝ)) {σ xl xr : Rat} (hσ : σ = 1 ∨ σ = -1)
    (hl : g xl ≠ 0) (hr : g xr ≠ 0) (ζ : ℝ) (hζ : F ζ = 0) (hin : InCellR σ xl xr ζ)
    (huniq : ∀ x : ℝ, F x = 0 → InCellR σ xl xr x → x = ζ)
    (d : ℝ) (hd : HasDerivAt F d ζ) (hd0 : d ≠ 0) : g xl * g xr < 0 := by
  have hFl : F (xl : ℝ) ≠ 0 := by rw [hFg]; exact_mod_cast hl
  have hFr : F (xr : ℝ) ≠ 0 := by rw [hFg]; exact_mod_cast hr
  have key : F (xl : ℝ) * F (xr : ℝ) < 0 := by
    unfold InCellR at hin huniq
    rcases hσ with rfl | rfl
    · simp only [Rat.cast_one, one_mul] at hin huniq
      exact sign_change_of_unique_simple_zero (l := (xl : ℝ)) (r := (xr : ℝ)) hF.continuousOn
        ⟨hin.1, hin.2⟩ hFl hFr hζ (fun x hx h0 => huniq x h0 ⟨hx.1, hx.2⟩) hd hd0
    · simp only [Rat.cast_neg, Rat.cast_one, neg_mul, one_mul, neg_le_neg_iff] at hin huniq
      have := sign_change_of_unique_simple_zero (l := (xr : ℝ)) (r := (xl : ℝ)) hF.continuousOn
        ⟨hin.2, hin.1⟩ hFr hFl hζ (fun x hx h0 => huniq x h0 ⟨hx.2, hx.1⟩) hd hd0
      rw [mul_comm]; exact this
  rw [hFg, hFg, ← Rat.cast_mul] at key
  exact_mod_cast key

end Cav.RootSimple
