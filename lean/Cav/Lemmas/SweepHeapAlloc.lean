/-
  Heap adequacy of the sweep model, part 2: programs that allocate.  `PW V N C D E G m` says
  that from a well-formed heap with exactly `N` nodes, `C` chains, `D` edges the program `m`
  either fails within `E` or ends in a well-formed heap with sizes `N' ≥ N`, `C' ≥ C`, `D' ≥ D`
  and a result satisfying `G b N' C' D'`.  Facts about indices are stated against these explicit
  sizes, so they survive later allocations by arithmetic.
-/
import Cav.Lemmas.SweepHeap

set_option linter.unusedSectionVars false
set_option linter.unusedVariables false

namespace Cav.SweepHeap
open Cav Num Cav.Sweep Cav.SweepRun Cav.SweepHoare

variable {α : Type} {β γ : Type}

def PW (V : Array (Vtx α)) (N C D : Nat) (E : SErr α → Prop) (G : β → Nat → Nat → Nat → Prop)
    (m : SM α β) : Prop :=
  ∀ s, W V N C D s → match m.run s with
    | .ok (b, s') => ∃ N' C' D', N ≤ N' ∧ C ≤ C' ∧ D ≤ D' ∧ W V N' C' D' s' ∧ G b N' C' D'
    | .error e => E e

variable {V : Array (Vtx α)} {N C D : Nat} {E : SErr α → Prop}

theorem PW.intro {G : β → Nat → Nat → Nat → Prop} {m : SM α β}
    (h : ∀ s, W V N C D s → match m.run s with
      | .ok (b, s') => ∃ N' C' D', N ≤ N' ∧ C ≤ C' ∧ D ≤ D' ∧ W V N' C' D' s' ∧ G b N' C' D'
      | .error e => E e) : PW V N C D E G m := h

theorem PW.ok {G : β → Nat → Nat → Nat → Prop} {m : SM α β} (h : PW V N C D E G m) {s s' : St α}
    {b : β} (hs : W V N C D s) (hr : m.run s = .ok (b, s')) :
    ∃ N' C' D', N ≤ N' ∧ C ≤ C' ∧ D ≤ D' ∧ W V N' C' D' s' ∧ G b N' C' D' := by
  have := h s hs; rw [hr] at this; exact this

theorem PW.err {G : β → Nat → Nat → Nat → Prop} {m : SM α β} (h : PW V N C D E G m) {s : St α}
    {e : SErr α} (hs : W V N C D s) (hr : m.run s = .error e) : E e := by
  have := h s hs; rw [hr] at this; exact this

theorem PW.pure {G : β → Nat → Nat → Nat → Prop} {b : β} (h : G b N C D) :
    PW V N C D E G (pure b : SM α β) :=
  fun _ hs => ⟨N, C, D, Nat.le_refl _, Nat.le_refl _, Nat.le_refl _, hs, h⟩

theorem PW.throw {G : β → Nat → Nat → Nat → Prop} {e : SErr α} (h : E e) :
    PW V N C D E G (throw e : SM α β) := fun _ _ => h

theorem PW.bind {G1 : β → Nat → Nat → Nat → Prop} {G : γ → Nat → Nat → Nat → Prop} {m : SM α β}
    {f : β → SM α γ} (hm : PW V N C D E G1 m)
    (hf : ∀ b N' C' D', N ≤ N' → C ≤ C' → D ≤ D' → G1 b N' C' D' → PW V N' C' D' E G (f b)) :
    PW V N C D E G (m >>= f) := by
  intro s hs
  rw [run_bind]
  have h1 := hm s hs
  cases hr : m.run s with
  | error e => rw [hr] at h1; exact h1
  | ok p =>
    obtain ⟨b, s1⟩ := p
    rw [hr] at h1
    obtain ⟨N', C', D', hN, hC, hD, hw, hg⟩ := h1
    have h2 := hf b N' C' D' hN hC hD hg s1 hw
    simp only
    cases hr2 : (f b).run s1 with
    | error e => rw [hr2] at h2; exact h2
    | ok q =>
      obtain ⟨c, s2⟩ := q
      rw [hr2] at h2
      obtain ⟨N'', C'', D'', hN', hC', hD', hw', hg'⟩ := h2
      exact ⟨N'', C'', D'', Nat.le_trans hN hN', Nat.le_trans hC hC', Nat.le_trans hD hD', hw', hg'⟩

/-- a program that keeps the sizes, given by a `Pres` lemma -/
theorem PW.of_pres {G1 : β → Prop} {G : β → Nat → Nat → Nat → Prop} {m : SM α β}
    (hm : Pres (W V N C D) E G1 m) (h : ∀ b, G1 b → G b N C D) : PW V N C D E G m := by
  intro s hs
  cases hr : m.run s with
  | error e => exact hm.err hs hr
  | ok p =>
    obtain ⟨b, s1⟩ := p
    obtain ⟨hw, hg⟩ := hm.ok hs hr
    exact ⟨N, C, D, Nat.le_refl _, Nat.le_refl _, Nat.le_refl _, hw, h b hg⟩

theorem PW.bind_same {G1 : β → Prop} {G : γ → Nat → Nat → Nat → Prop} {m : SM α β}
    {f : β → SM α γ} (hm : Pres (W V N C D) E G1 m) (hf : ∀ b, G1 b → PW V N C D E G (f b)) :
    PW V N C D E G (m >>= f) := by
  refine PW.bind (G1 := fun b N' C' D' => G1 b ∧ N' = N ∧ C' = C ∧ D' = D)
    (PW.of_pres hm (fun b hb => ⟨hb, rfl, rfl, rfl⟩)) ?_
  rintro b N' C' D' - - - ⟨hb, rfl, rfl, rfl⟩
  exact hf b hb

theorem PW.mono {G1 G : β → Nat → Nat → Nat → Prop} {m : SM α β} (hm : PW V N C D E G1 m)
    (h : ∀ b N' C' D', N ≤ N' → C ≤ C' → D ≤ D' → G1 b N' C' D' → G b N' C' D') :
    PW V N C D E G m := by
  intro s hs
  have h1 := hm s hs
  cases hr : m.run s with
  | error e => rw [hr] at h1; exact h1
  | ok p =>
    obtain ⟨b, s1⟩ := p
    rw [hr] at h1
    obtain ⟨N', C', D', hN, hC, hD, hw, hg⟩ := h1
    exact ⟨N', C', D', hN, hC, hD, hw, h b N' C' D' hN hC hD hg⟩

theorem PW.modify {G : PUnit → Nat → Nat → Nat → Prop} {f : St α → St α}
    (hf : ∀ s, W V N C D s → W V N C D (f s)) (h : G ⟨⟩ N C D) :
    PW V N C D E G (modify f : SM α PUnit) :=
  fun s hs => ⟨N, C, D, Nat.le_refl _, Nat.le_refl _, Nat.le_refl _, hf s hs, h⟩

theorem PW.set {G : PUnit → Nat → Nat → Nat → Prop} {t : St α} (ht : W V N C D t)
    (h : G ⟨⟩ N C D) : PW V N C D E G (set t : SM α PUnit) :=
  fun _ _ => ⟨N, C, D, Nat.le_refl _, Nat.le_refl _, Nat.le_refl _, ht, h⟩

/-- from the sized triple to the invariant with open sizes -/
theorem PW.toPres {m : SM α β}
    (h : ∀ N C D, PW V N C D E (fun _ _ _ _ => True) m) :
    Pres (HeapWF V) E (fun _ => True) m := by
  apply Pres.intro
  rintro s ⟨N, C, D, hs⟩
  have h1 := h N C D s hs
  cases hr : m.run s with
  | error e => rw [hr] at h1; exact h1
  | ok p =>
    obtain ⟨b, s1⟩ := p
    rw [hr] at h1
    obtain ⟨N', C', D', -, -, -, hw, -⟩ := h1
    exact ⟨⟨N', C', D', hw⟩, trivial⟩

attribute [irreducible] PW

/-! ### automation -/

open Lean Meta Elab Tactic in
/-- looks up the lemma `f_wa` for the program `f args` of the goal -/
elab "wa_lookup" : tactic => do
  let g ← getMainGoal
  let t := (← instantiateMVars (← g.getType)).consumeMData
  unless t.isApp do throwError "wa_lookup: not an application"
  let prog := t.appArg!
  let .const c _ := prog.getAppFn | throwError "wa_lookup: no head constant"
  let base := c.replacePrefix `Cav.Sweep .anonymous
  if base == c then throwError "wa_lookup: not a model function"
  let str := (base.toString (escape := false)).replace "." "_"
  let id := mkIdent (Name.mkSimple (str ++ "_wa"))
  evalTactic (← `(tactic| (apply $id <;> first | assumption | wf_side)))

theorem PW.pure_bind {G : γ → Nat → Nat → Nat → Prop} {a : β} {f : β → SM α γ}
    (h : PW V N C D E G (f a)) : PW V N C D E G (Pure.pure a >>= f) := by
  rwa [LawfulMonad.pure_bind]

theorem PW.throw_bind {G : γ → Nat → Nat → Nat → Prop} {e : SErr α} {f : β → SM α γ}
    (h : E e) : PW V N C D E G ((MonadExcept.throw e : SM α β) >>= f) := by
  apply PW.intro; intro s _
  rw [run_bind]; exact h

open Lean Meta Elab Tactic in
/-- closes the goal with a hypothesis `∀ …, PW …` (induction hypothesis or join point); size
    side conditions by `omega` -/
elab "apply_pw_hyp" : tactic => do
  let g ← getMainGoal
  let others := (← getUnsolvedGoals).filter (· != g)
  g.withContext do
    for ld in (← getLCtx) do
      if ld.isImplementationDetail then continue
      let isPW ← forallTelescopeReducing ld.type fun _ body => do
        let body ← whnfR body
        return body.getAppFn.isConstOf ``PW
      if isPW then
        let saved ← saveState
        try
          let gs ← g.apply ld.toExpr
          setGoals gs
          evalTactic (← `(tactic| all_goals (first | assumption | omega)))
          let ok := (← getUnsolvedGoals).isEmpty
          if ok then
            setGoals others
            return
          else
            restoreState saved
        catch _ =>
          restoreState saved
    throwError "apply_pw_hyp: no hypothesis applies"

open Lean Meta Elab Tactic in
/-- Goal `PW V N C D E G (have jp := v; b)` with `v` a `do`-notation join point.
    * If `b` is a `match _[_]? with …` (the `r_edges[i]` look-ups), the join point is inlined.
    * Otherwise: goals `∀ N' C' D', N ≤ N' → C ≤ C' → D ≤ D' → ∀ args, PW V N' C' D' E G (v args)`
      and `∀ jp, (the same for jp) → PW V N C D E G (b jp)`. -/
elab "pw_jp" : tactic => do
  let g ← getMainGoal
  g.withContext do
    let t := (← instantiateMVars (← g.getType)).consumeMData
    unless t.getAppFn.isConstOf ``PW do throwError "pw_jp: not a PW goal"
    let args := t.getAppArgs
    unless args.size == 9 do throwError "pw_jp: arity"
    let prog := args[8]!
    match prog with
    | .letE n ty v b _ =>
      let isJp ← forallTelescope ty fun xs r => do
        if xs.size == 0 then return false
        let progTy ← inferType prog
        isDefEq r progTy
      unless isJp do throwError "pw_jp: not a join point"
      let isIdx : Bool :=
        b.getAppFn.isConst && b.getAppArgs.any fun a => a.isAppOf ``GetElem?.getElem?
      if isIdx then
        let g' ← mkFreshExprSyntheticOpaqueMVar (mkAppN t.getAppFn (args.set! 8 (b.instantiate1 v)))
        g.assign g'
        replaceMainGoal [g'.mvarId!]
      else
        let nat := mkConst ``Nat
        let okOf (f : Expr) : MetaM Expr :=
          withLocalDeclD `N' nat fun n' => withLocalDeclD `C' nat fun c' =>
          withLocalDeclD `D' nat fun d' => do
            let hN ← mkAppM ``LE.le #[args[3]!, n']
            let hC ← mkAppM ``LE.le #[args[4]!, c']
            let hD ← mkAppM ``LE.le #[args[5]!, d']
            let body ← forallTelescope ty fun xs _ => do
              let a := ((args.set! 3 n').set! 4 c').set! 5 d'
              mkForallFVars xs (mkAppN t.getAppFn (a.set! 8 (mkAppN f xs).headBeta))
            let body ← mkArrow hD body
            let body ← mkArrow hC body
            let body ← mkArrow hN body
            mkForallFVars #[n', c', d'] body
        let goal1Ty ← okOf v
        let goal2Ty ← withLocalDeclD n ty fun jp => do
          let hjpTy ← okOf jp
          withLocalDeclD `hjp hjpTy fun hjp => do
            mkForallFVars #[jp, hjp] (mkAppN t.getAppFn (args.set! 8 (b.instantiate1 jp)))
        let g1 ← mkFreshExprSyntheticOpaqueMVar goal1Ty
        let g2 ← mkFreshExprSyntheticOpaqueMVar goal2Ty
        g.assign (mkApp2 g2 v g1)
        replaceMainGoal [g1.mvarId!, g2.mvarId!]
    | _ => throwError "pw_jp: the program is not a `have`"

open Lean in
/-- syntactic class of a program: `pure`, `throw`, `bind`, `branch` (`if`/`match`), `let`,
    `prim` (anything else: a model function, `get`/`set`/`modify`, a join-point call) -/
def progClass (e : Expr) : Name :=
  let e := e.consumeMData
  if e.isLet then `let
  else
    let f := e.getAppFn
    if f.isConstOf ``Pure.pure then `pure
    else if f.isConstOf ``MonadExcept.throw || f.isConstOf ``throwThe then `throw
    else if f.isConstOf ``Bind.bind then `bind
    else if f.isConstOf ``ite || f.isConstOf ``dite then `branch
    else match f with
      | .const (.str _ s) _ => if s.startsWith "match_" then `branch else `prim
      | _ => `prim

open Lean Meta Elab Tactic in
/-- succeeds iff the program of the goal is of the given class -/
elab "guard_prog " which:ident : tactic => do
  let g ← getMainGoal
  let t := (← instantiateMVars (← g.getType)).consumeMData
  unless t.isApp do throwError "guard_prog: not an application"
  unless progClass t.appArg! == which.getId.eraseMacroScopes do throwError "guard_prog: other class"

open Lean Meta Elab Tactic in
/-- succeeds iff the program of the goal is `m >>= _` with `m` of the given class -/
elab "guard_bind_of " which:ident : tactic => do
  let g ← getMainGoal
  let t := (← instantiateMVars (← g.getType)).consumeMData
  unless t.isApp do throwError "guard_bind_of: not an application"
  let prog := t.appArg!
  unless prog.getAppFn.isConstOf ``Bind.bind && prog.getAppNumArgs == 6 do
    throwError "guard_bind_of: not a bind"
  unless progClass prog.getAppArgs[4]! == which.getId.eraseMacroScopes do
    throwError "guard_bind_of: other class"

open Lean Meta Elab Tactic in
/-- `intro`, dropping hypotheses `True` and variables of type `Unit` that nothing depends on -/
elab "intro_clean" : tactic => do
  let g ← getMainGoal
  let (fv, g') ← g.intro1
  let g'' : MVarId ← g'.withContext do
    let ty ← instantiateMVars (← fv.getType)
    if ty.isConstOf ``True || ty.isConstOf ``Unit || ty.isConstOf ``PUnit then
      try g'.clear fv catch _ => pure g'
    else pure g'
  replaceMainGoal [g'']

/-- one step of the sized calculus -/
macro "pw_step" : tactic => `(tactic| first
  | pw_jp
  | jp_intro
  | (guard_prog pure; refine PW.pure ?_; wf_side)
  | (guard_prog throw; refine PW.throw ?_; wf_side)
  | (guard_bind_of throw; refine PW.throw_bind ?_; wf_side)
  | (guard_bind_of pure; refine PW.pure_bind ?_)
  | (guard_prog prim; refine PW.set ?_ ?_; (· wf_side); (· wf_side))
  | (guard_prog prim; refine PW.modify ?_ ?_; (· intro _ _; wf_side); (· wf_side))
  | (guard_prog prim; apply_pw_hyp)
  | (guard_bind_of prim; apply PW.bind_same; (· pres_prim))
  | (guard_bind_of prim; apply PW.bind; (· first | apply_pw_hyp | wa_lookup))
  | (guard_prog prim; apply PW.of_pres; (· pres_prim); (· intros; wf_side))
  | (guard_prog prim; apply PW.mono; (· first | apply_pw_hyp | wa_lookup); (· intros; wf_side))
  | (guard_bind; refine PW.bind (G1 := fun _ _ _ _ => True) ?_ ?_)
  | intro_clean
  | split)

macro "pw_auto" : tactic => `(tactic| repeat pw_step)
macro "pw_auto_inline" : tactic => `(tactic| repeat (first | jp_inline | pw_step))

/-! ### allocators -/

variable [Num α]

theorem newNode_wa (p : Pt α) :
    PW V N C D E (fun i N' C' D' => i = N ∧ N' = N + 1 ∧ C' = C ∧ D' = D) (newNode p : SM α _) := by
  apply PW.intro; intro s hs
  refine ⟨N + 1, C, D, by omega, Nat.le_refl _, Nat.le_refl _, ?_, hs.nsz, rfl, rfl, rfl⟩
  refine ⟨hs.verts, hs.ring, by simp [hs.nsz], hs.csz, hs.esz, ?_, ?_, hs.edges, hs.active,
    hs.events⟩
  · intro m hm
    simp only [Array.toList_push, List.mem_append, List.mem_singleton] at hm
    rcases hm with hm | rfl
    · exact (hs.nodes m hm).mono (by omega)
    · exact ⟨by simp, by simp⟩
  · intro c hc
    exact (hs.chains c hc).mono (by omega)

theorem newChainVal_wa (c : Chain) (hc : ChainOk N c) :
    PW V N C D E (fun i N' C' D' => i = C ∧ N' = N ∧ C' = C + 1 ∧ D' = D)
      (newChainVal c : SM α _) := by
  apply PW.intro; intro s hs
  refine ⟨N, C + 1, D, Nat.le_refl _, by omega, Nat.le_refl _, ?_, hs.csz, rfl, rfl, rfl⟩
  refine ⟨hs.verts, hs.ring, hs.nsz, by simp [hs.csz], hs.esz, hs.nodes, ?_, ?_, hs.active,
    hs.events⟩
  · intro m hm
    simp only [Array.toList_push, List.mem_append, List.mem_singleton] at hm
    rcases hm with hm | rfl
    · exact hs.chains m hm
    · exact hc
  · intro e he
    exact (hs.edges e he).mono (by omega) (Nat.le_refl _)

theorem newEdge_wa (e : Edge α) (he : EdgeOk C (D + 1) e) :
    PW V N C D E (fun i N' C' D' => i = D ∧ N' = N ∧ C' = C ∧ D' = D + 1)
      (newEdge e : SM α _) := by
  apply PW.intro; intro s hs
  refine ⟨N, C, D + 1, Nat.le_refl _, Nat.le_refl _, by omega, ?_, hs.esz, rfl, rfl, rfl⟩
  refine ⟨hs.verts, hs.ring, hs.nsz, hs.csz, by simp [hs.esz], hs.nodes, hs.chains, ?_, ?_, ?_⟩
  · intro m hm
    simp only [Array.toList_push, List.mem_append, List.mem_singleton] at hm
    rcases hm with hm | rfl
    · exact (hs.edges m hm).mono (Nat.le_refl _) (by omega)
    · exact he
  · intro a ha
    have := hs.active a ha; omega
  · intro ev hev
    exact (hs.events ev hev).mono (by omega)

theorem chainNew_wa (p : Pt α) :
    PW V N C D E (fun c N' C' D' => ChainOk N' c) (chainNew p : SM α _) := by
  unfold chainNew; pw_auto

theorem chainAppend_wa (c : Chain) (hc : ChainOk N c) (p : Pt α) (b : Bool) :
    PW V N C D E (fun c' N' C' D' => ChainOk N' c')
      (chainAppend c p b : SM α _) := by
  unfold chainAppend; pw_auto

theorem chainSplit_wa (c : Chain) (hc : ChainOk N c) (p : Pt α) :
    PW V N C D E (fun r N' C' D' => ChainOk N' r.1 ∧ ChainOk N' r.2)
      (chainSplit c p : SM α _) := by
  unfold chainSplit; pw_auto

theorem chainMerge_wa (b t : Chain) (hb : ChainOk N b) (ht : ChainOk N t) (p : Pt α) :
    PW V N C D E (fun r N' C' D' => ChainOk N' r)
      (chainMerge b t p : SM α _) := by
  unfold chainMerge; pw_auto

end Cav.SweepHeap
