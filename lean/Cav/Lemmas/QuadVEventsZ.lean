/-
  Event chains of a quadrilateral whose corners are in strictly increasing LEXICOGRAPHIC order
  `p1 < p2 < p3 < p4` (abscissae may coincide), ring Z: the chains of `QuadEventsZ.lean`
  with the tests of `verticalIsCrossed` and `willOverlapBot/Top` as hypotheses on their pure
  mirrors `vcP`, `wobP`, `wotP`.
-/
import Cav.Lemmas.QuadVRun

set_option linter.unusedSimpArgs false
set_option linter.unusedVariables false
set_option maxRecDepth 4000

namespace Cav.QuadVEvents
open Cav Num Cav.Sweep Cav.SweepRun Cav.TriRun Cav.QuadRun Cav.QuadVRun Cav.TriEvents

/-- event chain `Zia` (see `QuadEventsZ.lean`), valid for any coincidences of abscissae -/
theorem flowV_Zia (ori : Bool) (V : Array (Vtx XQ)) (i1 i2 i3 i4 : Nat) (p1 p2 p3 p4 : Pt XQ)
    (h1 : V[i1]? = some ⟨p1, (nb ori i4 i3).1, (nb ori i4 i3).2⟩)
    (h2 : V[i2]? = some ⟨p2, (nb ori i3 i4).1, (nb ori i3 i4).2⟩)
    (h3 : V[i3]? = some ⟨p3, (nb ori i1 i2).1, (nb ori i1 i2).2⟩)
    (h4 : V[i4]? = some ⟨p4, (nb ori i2 i1).1, (nb ori i2 i1).2⟩)
    (hO : Ord4L p1 p2 p3 p4)
    (g1 : cmpEdgeP p1 p4 p1 p3 p1.x = .lt)
    (g2 : cmpEdgeP p1 p3 p1 p4 p1.x = .gt)
    (g3 : cmpEdgeP p2 p4 p2 p3 p2.x = .lt)
    (g4 : cmpEdgeP p2 p3 p2 p4 p2.x = .gt)
    (g5 : cmpEdgeP p2 p4 p1 p4 p2.x = .gt)
    (g6 : cmpEdgeP p2 p4 p1 p3 p2.x = .lt)
    (g7 : cmpEdgeP p2 p3 p1 p4 p2.x = .gt)
    (g8 : cmpEdgeP p2 p3 p1 p3 p2.x = .lt)
    (g9 : cmpEdgeP p1 p4 p1 p3 p2.x = .lt)
    (g10 : cmpEdgeP p1 p3 p1 p4 p2.x = .gt)
    (g11 : partialCmpEdgeP p1 p4 p1 p3 p2.x = some .lt)
    (g12 : ofGe (p1.grad p3) (p2.grad p3) = false)
    (g13 : cmpEdgeP p1 p3 p2 p4 p2.x = .gt)
    (g14 : clockwiseSign p2 p1 p3 = .c)
    (g15 : ofGe (p1.grad p4) (p2.grad p4) = true)
    (g16 : cmpEdgeP p1 p4 p2 p4 p3.x = .lt)
    (g17 : clockwiseSign p1 p2 p4 = .c)
    (g18 : vcP p2 p4 [yExtrap p1 p4 p2.x true, yExtrap p1 p3 p2.x true] = false)
    (g19 : vcP p2 p3 [yExtrap p1 p4 p2.x true, yExtrap p1 p3 p2.x true] = false)
    (g20 : wobP p2 p4 p1 p4 = false)
    (g21 : wotP p2 p3 p1 p3 = false) :
    ∃ s', Runs (stQ V [(i1, []), (i2, [])]) (.ok ((), s')) (loop 5) ∧
      s'.out = [sort3 p1 p2 p4, sort3 p2 p1 p3] ∧ s'.mono = true := by
  obtain ⟨f1, f2, f3, f4, c11, c12, c13, c14, c21, c22, c23, c24, c31, c32, c33, c34, c41, c42, c43, c44, e12, e13, e14, e21, e23, e24, e31, e32, e34, e41, e42, e43⟩ := hO
  unfold stQ
  cases ori <;> simp only [nb, if_true, if_false, Bool.false_eq_true] at h1 h2 h3 h4
  all_goals
    refine ⟨?_, ?run, ?out⟩
    case run =>
      qevL [g1, g2, g3, g4, g5, g6, g7, g8, g9, g10, g11, g12, g13, g14, g15, g16, g17, g18, g19, g20, g21]
      qevL [g1, g2, g3, g4, g5, g6, g7, g8, g9, g10, g11, g12, g13, g14, g15, g16, g17, g18, g19, g20, g21]
      qevL [g1, g2, g3, g4, g5, g6, g7, g8, g9, g10, g11, g12, g13, g14, g15, g16, g17, g18, g19, g20, g21]
      qevL [g1, g2, g3, g4, g5, g6, g7, g8, g9, g10, g11, g12, g13, g14, g15, g16, g17, g18, g19, g20, g21]
      refine Runs.loop_done (n := 0) ?_
      rfl
    case out => exact ⟨by rfl, by rfl⟩

/-- event chain `Zib` (see `QuadEventsZ.lean`), valid for any coincidences of abscissae -/
theorem flowV_Zib (ori : Bool) (V : Array (Vtx XQ)) (i1 i2 i3 i4 : Nat) (p1 p2 p3 p4 : Pt XQ)
    (h1 : V[i1]? = some ⟨p1, (nb ori i4 i3).1, (nb ori i4 i3).2⟩)
    (h2 : V[i2]? = some ⟨p2, (nb ori i3 i4).1, (nb ori i3 i4).2⟩)
    (h3 : V[i3]? = some ⟨p3, (nb ori i1 i2).1, (nb ori i1 i2).2⟩)
    (h4 : V[i4]? = some ⟨p4, (nb ori i2 i1).1, (nb ori i2 i1).2⟩)
    (hO : Ord4L p1 p2 p3 p4)
    (g1 : cmpEdgeP p1 p3 p1 p4 p1.x = .lt)
    (g2 : cmpEdgeP p1 p4 p1 p3 p1.x = .gt)
    (g3 : cmpEdgeP p2 p3 p2 p4 p2.x = .lt)
    (g4 : cmpEdgeP p2 p4 p2 p3 p2.x = .gt)
    (g5 : cmpEdgeP p2 p3 p1 p3 p2.x = .gt)
    (g6 : cmpEdgeP p2 p3 p1 p4 p2.x = .lt)
    (g7 : cmpEdgeP p2 p4 p1 p3 p2.x = .gt)
    (g8 : cmpEdgeP p2 p4 p1 p4 p2.x = .lt)
    (g9 : cmpEdgeP p1 p3 p1 p4 p2.x = .lt)
    (g10 : cmpEdgeP p1 p4 p1 p3 p2.x = .gt)
    (g11 : partialCmpEdgeP p1 p3 p1 p4 p2.x = some .lt)
    (g12 : ofGe (p1.grad p3) (p2.grad p3) = true)
    (g13 : cmpEdgeP p1 p3 p2 p3 p2.x = .lt)
    (g14 : cmpEdgeP p1 p3 p2 p4 p2.x = .lt)
    (g15 : clockwiseSign p1 p2 p3 = .c)
    (g16 : ofGe (p1.grad p4) (p2.grad p4) = false)
    (g17 : cmpEdgeP p2 p4 p1 p4 p3.x = .lt)
    (g18 : clockwiseSign p2 p1 p4 = .c)
    (g19 : vcP p2 p3 [yExtrap p1 p3 p2.x true, yExtrap p1 p4 p2.x true] = false)
    (g20 : vcP p2 p4 [yExtrap p1 p3 p2.x true, yExtrap p1 p4 p2.x true] = false)
    (g21 : wobP p2 p3 p1 p3 = false)
    (g22 : wotP p2 p4 p1 p4 = false) :
    ∃ s', Runs (stQ V [(i1, []), (i2, [])]) (.ok ((), s')) (loop 5) ∧
      s'.out = [sort3 p2 p1 p4, sort3 p1 p2 p3] ∧ s'.mono = true := by
  obtain ⟨f1, f2, f3, f4, c11, c12, c13, c14, c21, c22, c23, c24, c31, c32, c33, c34, c41, c42, c43, c44, e12, e13, e14, e21, e23, e24, e31, e32, e34, e41, e42, e43⟩ := hO
  unfold stQ
  cases ori <;> simp only [nb, if_true, if_false, Bool.false_eq_true] at h1 h2 h3 h4
  all_goals
    refine ⟨?_, ?run, ?out⟩
    case run =>
      qevL [g1, g2, g3, g4, g5, g6, g7, g8, g9, g10, g11, g12, g13, g14, g15, g16, g17, g18, g19, g20, g21, g22]
      qevL [g1, g2, g3, g4, g5, g6, g7, g8, g9, g10, g11, g12, g13, g14, g15, g16, g17, g18, g19, g20, g21, g22]
      qevL [g1, g2, g3, g4, g5, g6, g7, g8, g9, g10, g11, g12, g13, g14, g15, g16, g17, g18, g19, g20, g21, g22]
      qevL [g1, g2, g3, g4, g5, g6, g7, g8, g9, g10, g11, g12, g13, g14, g15, g16, g17, g18, g19, g20, g21, g22]
      refine Runs.loop_done (n := 0) ?_
      rfl
    case out => exact ⟨by rfl, by rfl⟩

/-- event chain `Zab` (see `QuadEventsZ.lean`), valid for any coincidences of abscissae -/
theorem flowV_Zab (ori : Bool) (V : Array (Vtx XQ)) (i1 i2 i3 i4 : Nat) (p1 p2 p3 p4 : Pt XQ)
    (h1 : V[i1]? = some ⟨p1, (nb ori i4 i3).1, (nb ori i4 i3).2⟩)
    (h2 : V[i2]? = some ⟨p2, (nb ori i3 i4).1, (nb ori i3 i4).2⟩)
    (h3 : V[i3]? = some ⟨p3, (nb ori i1 i2).1, (nb ori i1 i2).2⟩)
    (h4 : V[i4]? = some ⟨p4, (nb ori i2 i1).1, (nb ori i2 i1).2⟩)
    (hO : Ord4L p1 p2 p3 p4)
    (g1 : cmpEdgeP p1 p4 p1 p3 p1.x = .lt)
    (g2 : cmpEdgeP p1 p3 p1 p4 p1.x = .gt)
    (g3 : cmpEdgeP p2 p3 p2 p4 p2.x = .lt)
    (g4 : cmpEdgeP p2 p4 p2 p3 p2.x = .gt)
    (g5 : cmpEdgeP p2 p3 p1 p4 p2.x = .gt)
    (g6 : cmpEdgeP p2 p3 p1 p3 p2.x = .gt)
    (g7 : cmpEdgeP p2 p4 p1 p4 p2.x = .gt)
    (g8 : cmpEdgeP p2 p4 p1 p3 p2.x = .gt)
    (g9 : cmpEdgeP p1 p3 p1 p4 p2.x = .gt)
    (g10 : ofGe (p1.grad p3) (p2.grad p3) = true)
    (g11 : cmpEdgeP p1 p3 p2 p3 p2.x = .lt)
    (g12 : cmpEdgeP p1 p3 p2 p4 p2.x = .lt)
    (g13 : ofGe (p1.grad p4) (p2.grad p4) = true)
    (g14 : cmpEdgeP p1 p4 p2 p4 p3.x = .lt)
    (g15 : clockwiseSign p3 p2 p4 = .c)
    (g16 : clockwiseSign p1 p3 p4 = .c)
    (g17 : vcP p2 p3 [yExtrap p1 p4 p2.x true, yExtrap p1 p3 p2.x true] = false)
    (g18 : vcP p2 p4 [yExtrap p1 p4 p2.x true, yExtrap p1 p3 p2.x true] = false)
    (g19 : wobP p2 p3 p1 p3 = false)
    (g20 : wotP p1 p4 p2 p4 = false) :
    ∃ s', Runs (stQ V [(i1, []), (i2, [])]) (.ok ((), s')) (loop 5) ∧
      s'.out = [sort3 p1 p3 p4, sort3 p3 p2 p4] ∧ s'.mono = true := by
  obtain ⟨f1, f2, f3, f4, c11, c12, c13, c14, c21, c22, c23, c24, c31, c32, c33, c34, c41, c42, c43, c44, e12, e13, e14, e21, e23, e24, e31, e32, e34, e41, e42, e43⟩ := hO
  unfold stQ
  cases ori <;> simp only [nb, if_true, if_false, Bool.false_eq_true] at h1 h2 h3 h4
  all_goals
    refine ⟨?_, ?run, ?out⟩
    case run =>
      qevL [g1, g2, g3, g4, g5, g6, g7, g8, g9, g10, g11, g12, g13, g14, g15, g16, g17, g18, g19, g20]
      qevL [g1, g2, g3, g4, g5, g6, g7, g8, g9, g10, g11, g12, g13, g14, g15, g16, g17, g18, g19, g20]
      qevL [g1, g2, g3, g4, g5, g6, g7, g8, g9, g10, g11, g12, g13, g14, g15, g16, g17, g18, g19, g20]
      qevL [g1, g2, g3, g4, g5, g6, g7, g8, g9, g10, g11, g12, g13, g14, g15, g16, g17, g18, g19, g20]
      refine Runs.loop_done (n := 0) ?_
      rfl
    case out => exact ⟨by rfl, by rfl⟩

/-- event chain `Zbe` (see `QuadEventsZ.lean`), valid for any coincidences of abscissae -/
theorem flowV_Zbe (ori : Bool) (V : Array (Vtx XQ)) (i1 i2 i3 i4 : Nat) (p1 p2 p3 p4 : Pt XQ)
    (h1 : V[i1]? = some ⟨p1, (nb ori i4 i3).1, (nb ori i4 i3).2⟩)
    (h2 : V[i2]? = some ⟨p2, (nb ori i3 i4).1, (nb ori i3 i4).2⟩)
    (h3 : V[i3]? = some ⟨p3, (nb ori i1 i2).1, (nb ori i1 i2).2⟩)
    (h4 : V[i4]? = some ⟨p4, (nb ori i2 i1).1, (nb ori i2 i1).2⟩)
    (hO : Ord4L p1 p2 p3 p4)
    (g1 : cmpEdgeP p1 p3 p1 p4 p1.x = .lt)
    (g2 : cmpEdgeP p1 p4 p1 p3 p1.x = .gt)
    (g3 : cmpEdgeP p2 p4 p2 p3 p2.x = .lt)
    (g4 : cmpEdgeP p2 p3 p2 p4 p2.x = .gt)
    (g5 : cmpEdgeP p2 p4 p1 p3 p2.x = .lt)
    (g6 : cmpEdgeP p2 p4 p1 p4 p2.x = .lt)
    (g7 : cmpEdgeP p2 p3 p1 p3 p2.x = .lt)
    (g8 : cmpEdgeP p2 p3 p1 p4 p2.x = .lt)
    (g9 : ofGe (p1.grad p3) (p2.grad p3) = false)
    (g10 : cmpEdgeP p1 p3 p2 p4 p2.x = .gt)
    (g11 : cmpEdgeP p1 p3 p1 p4 p2.x = .lt)
    (g12 : ofGe (p1.grad p4) (p2.grad p4) = false)
    (g13 : cmpEdgeP p2 p4 p1 p4 p3.x = .lt)
    (g14 : clockwiseSign p3 p1 p4 = .c)
    (g15 : clockwiseSign p2 p3 p4 = .c)
    (g16 : vcP p2 p4 [yExtrap p1 p3 p2.x true, yExtrap p1 p4 p2.x true] = false)
    (g17 : vcP p2 p3 [yExtrap p1 p3 p2.x true, yExtrap p1 p4 p2.x true] = false)
    (g18 : wotP p2 p3 p1 p3 = false)
    (g19 : wotP p2 p4 p1 p4 = false) :
    ∃ s', Runs (stQ V [(i1, []), (i2, [])]) (.ok ((), s')) (loop 5) ∧
      s'.out = [sort3 p2 p3 p4, sort3 p3 p1 p4] ∧ s'.mono = true := by
  obtain ⟨f1, f2, f3, f4, c11, c12, c13, c14, c21, c22, c23, c24, c31, c32, c33, c34, c41, c42, c43, c44, e12, e13, e14, e21, e23, e24, e31, e32, e34, e41, e42, e43⟩ := hO
  unfold stQ
  cases ori <;> simp only [nb, if_true, if_false, Bool.false_eq_true] at h1 h2 h3 h4
  all_goals
    refine ⟨?_, ?run, ?out⟩
    case run =>
      qevL [g1, g2, g3, g4, g5, g6, g7, g8, g9, g10, g11, g12, g13, g14, g15, g16, g17, g18, g19]
      qevL [g1, g2, g3, g4, g5, g6, g7, g8, g9, g10, g11, g12, g13, g14, g15, g16, g17, g18, g19]
      qevL [g1, g2, g3, g4, g5, g6, g7, g8, g9, g10, g11, g12, g13, g14, g15, g16, g17, g18, g19]
      qevL [g1, g2, g3, g4, g5, g6, g7, g8, g9, g10, g11, g12, g13, g14, g15, g16, g17, g18, g19]
      refine Runs.loop_done (n := 0) ?_
      rfl
    case out => exact ⟨by rfl, by rfl⟩

end Cav.QuadVEvents
