/-
  Helper lemmas for the concrete instance of `Thm/C01Approx`: the exponential function on
  `[0,1]` and its Taylor polynomial of degree 31.
-/
import Cav.Lemmas.AccApprox
import Mathlib.Analysis.Complex.Exponential
import Mathlib.Analysis.SpecialFunctions.Integrals.Basic

open Cav Num
namespace Cav.C01Approx
open Cav.C01

/-- the first `n` Taylor coefficients of `exp`: `[1/0!, 1/1!, …, 1/(n-1)!]` -/
def expCoeffs (n : Nat) : List Rat := (List.range n).map (fun k => 1 / (k.factorial : Rat))

theorem expCoeffs_length (n : Nat) : (expCoeffs n).length = n := by simp [expCoeffs]

/-- the real polynomial of `expCoeffs n` is the Taylor sum `Σ_{m<n} x^m/m!` -/
theorem evalPolyR_expCoeffs (n : Nat) (x : ℝ) :
    evalPolyR (expCoeffs n) x = ∑ m ∈ Finset.range n, x ^ m / (m.factorial : ℝ) := by
  unfold evalPolyR
  rw [expCoeffs_length]
  apply Finset.sum_congr rfl
  intro k hk
  have hk' := Finset.mem_range.mp hk
  have : (expCoeffs n).getD k 0 = 1 / (k.factorial : Rat) := by
    simp [expCoeffs, List.getD_eq_getElem?_getD, hk']
  rw [this]; push_cast; ring

theorem factorial_32 : Nat.factorial 32 = 263130836933693530167218012160000000 := by decide

/-- on `[0,1]` (indeed on `[-1,1]`) the degree-31 Taylor polynomial is within `1e-35` of `exp` -/
theorem exp_taylor32 (x : ℝ) (hx : |x| ≤ 1) :
    |Real.exp x - evalPolyR (expCoeffs 32) x| ≤ 1 / 10 ^ 35 := by
  rw [evalPolyR_expCoeffs]
  have h := Real.exp_bound hx (n := 32) (by norm_num)
  refine le_trans h ?_
  have h1 : |x| ^ 32 ≤ 1 := pow_le_one₀ (abs_nonneg _) hx
  have h2 : (0 : ℝ) ≤ ((Nat.succ 32 : ℕ) : ℝ) / ((Nat.factorial 32 : ℝ) * ((32 : ℕ) : ℝ)) := by
    positivity
  refine le_trans (mul_le_mul_of_nonneg_right h1 h2) ?_
  rw [factorial_32]
  norm_num

/-- `Σ_{k<32} 1/k! ≤ 3` -/
theorem absPolyAt_expCoeffs_le : absPolyAt (expCoeffs 32) (max |(0 : Rat)| |(1 : Rat)|) ≤ 3 := by
  decide +kernel

/-! ### rounding the integrand values to a fixed-point grid -/

/-- `g` with every value rounded down to a multiple of `2^-k` -/
def roundDown (k : Nat) (g : Rat → Rat) : Rat → Rat := fun x => (⌊g x * 2 ^ k⌋ : Rat) / 2 ^ k

/-- rounding down to the grid `2^-k` moves a value by at most `2^-k` -/
theorem roundDown_close (k : Nat) (g : Rat → Rat) (x : Rat) :
    |roundDown k g x - g x| ≤ 1 / 2 ^ k := by
  unfold roundDown
  have hp : (0 : Rat) < 2 ^ k := by positivity
  have h1 : (⌊g x * 2 ^ k⌋ : Rat) ≤ g x * 2 ^ k := Int.floor_le _
  have h2 : g x * 2 ^ k < (⌊g x * 2 ^ k⌋ : Rat) + 1 := Int.lt_floor_add_one _
  have h3 : (⌊g x * 2 ^ k⌋ : Rat) / 2 ^ k - g x = ((⌊g x * 2 ^ k⌋ : Rat) - g x * 2 ^ k) / 2 ^ k := by
    field_simp
  have h4 : |(⌊g x * 2 ^ k⌋ : Rat) - g x * 2 ^ k| ≤ 1 := by
    rw [abs_le]; constructor <;> linarith
  rw [h3, abs_div, abs_of_pos hp]
  exact div_le_div_of_nonneg_right h4 hp.le

end Cav.C01Approx
