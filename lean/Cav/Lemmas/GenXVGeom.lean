/-
  Failure side with equal abscissae, part 2 (geometry).
  * `BelowM R X a b`: the order of two active edges AS THE MODEL READS IT at the original sweep
    abscissa `X` (heights `yv`: a vertical edge is read at its upper end; ties only in a common
    end point on the sweep line, decided by an orientation determinant); `cmp_of_belowM`: the
    answers of the comparator of the model.  For invalid input this order is not a consequence
    of the order of the sheared ring (readings below the sweep vertex lie in the sheared past),
    so it is a clause of the invariant of its own.
  * reverse decoding of the look-ahead tests on the ORIGINAL points (`wobX_decode`,
    `wotX_decode`): under `NoTouchV` a negative test gives the look-ahead fact `PairOK` of the
    SHEARED ring — the `ofEq x1 x2` branch and vertical edges included.
  * `pairOK_orig`: the look-ahead fact of the sheared ring read in the original ring.
-/
import Cav.Lemmas.GenXVBase

set_option linter.unusedSimpArgs false
set_option linter.unusedVariables false

namespace Cav.GenXV
open Cav Num Cav.Geo Cav.Sweep Cav.TriRun Cav.QuadRun Cav.TriGeom Cav.QuadGeom Cav.CvxFlows
open Cav.GenQuery Cav.GenGeom Cav.GenInv Cav.GenQueue Cav.GenOrder Cav.GenStepBend Cav.GenStepEnd
open Cav.GenValid Cav.GenVShear Cav.GenVBridge Cav.QuadVGeom Cav.GenXGeom

variable {R : RingQ} {ε : Rat} {Vε : Array (Vtx XQ)}

/-- the height the model reads for the active edge `a` at the abscissa `X` -/
abbrev yM (R : RingQ) (a : AE) (X : Rat) : Rat := yv (R.pt a.lv) (R.pt a.rv) X

/-- `a` is below `b` as the model reads it at `X` -/
def BelowM (R : RingQ) (X : Rat) (a b : AE) : Prop :=
  yM R a X < yM R b X ∨
  (a.lv = b.lv ∧ R.x a.lv = X ∧ R.x a.lv < R.x a.rv ∧ R.x b.lv < R.x b.rv ∧
    0 < orient (R.pt a.lv) (R.pt a.rv) (R.pt b.rv)) ∨
  (a.rv = b.rv ∧ R.x a.rv = X ∧ orient (R.pt a.lv) (R.pt b.lv) (R.pt a.rv) < 0)

theorem yv_at_rv {l r : Q} (h : lexLt l r) : yv l r r.1 = r.2 := by
  rcases h with h | ⟨hx, -⟩
  · rw [yv_nonvert h, lineY_right _ _ h]
  · rw [yv_vert hx]

theorem yv_at_lv {l r : Q} (h : l.1 < r.1) : yv l r l.1 = l.2 := by
  rw [yv_nonvert h, lineY_left]

/-- **the comparator of the model from `BelowM`** -/
theorem cmp_of_belowM {X : Rat} {a b : AE} (la : lexLt (R.pt a.lv) (R.pt a.rv))
    (lb : lexLt (R.pt b.lv) (R.pt b.rv)) (xa1 : R.x a.lv ≤ X) (xa2 : X ≤ R.x a.rv)
    (xb1 : R.x b.lv ≤ X) (xb2 : X ≤ R.x b.rv) (h : BelowM R X a b) :
    cmpEdgeP (Fq (R.pt a.lv)) (Fq (R.pt a.rv)) (Fq (R.pt b.lv)) (Fq (R.pt b.rv)) (.fin X) = .lt ∧
    cmpEdgeP (Fq (R.pt b.lv)) (Fq (R.pt b.rv)) (Fq (R.pt a.lv)) (Fq (R.pt a.rv)) (.fin X) = .gt := by
  rcases h with hl | ⟨c1, -, na, nb, o⟩ | ⟨c2, hX, o⟩
  · exact ⟨cmpW_lt _ _ _ _ X la lb xa1 xa2 xb1 xb2 hl, cmpW_gt _ _ _ _ X lb la xb1 xb2 xa1 xa2 hl⟩
  · have lb' : lexLt (R.pt a.lv) (R.pt b.rv) := by rw [c1]; exact lb
    rw [← c1]
    refine ⟨cmpEL_fanL_lt _ _ _ X xa1 xa2 xb2 la lb' o, cmpEL_fanL_gt _ _ _ X xa1 xb2 xa2 lb' la ?_⟩
    have := Geo.orient_swap (R.pt a.lv) (R.pt a.rv) (R.pt b.rv)
    linarith
  · have lb' : lexLt (R.pt b.lv) (R.pt a.rv) := by rw [c2]; exact lb
    rw [← c2]
    have hX' : X = (R.pt a.rv).1 := hX.symm
    rw [hX']
    rcases la with na | ⟨vxa, vya⟩ <;> rcases lb' with nb | ⟨vxb, vyb⟩
    · refine ⟨cmpE_fanR0_lt _ _ _ na nb o, cmpE_fanR0_gt _ _ _ nb na ?_⟩
      have : orient (R.pt b.lv) (R.pt a.lv) (R.pt a.rv) = - orient (R.pt a.lv) (R.pt b.lv) (R.pt a.rv) := by
        unfold orient; ring
      rw [this]; linarith
    · exfalso
      rw [orient_vert23 _ _ _ vxb] at o
      nlinarith [mul_pos (sub_pos.mpr (show (R.pt a.lv).1 < (R.pt b.lv).1 by rw [vxb]; exact na))
        (sub_pos.mpr vyb)]
    · exact cmpW_fanR_vert _ _ _ vxa vya nb
    · exfalso
      rw [orient_vert23 _ _ _ vxb, vxb, ← vxa] at o
      simp at o

/-! ### the look-ahead fact of the sheared ring from orientation determinants -/

theorem shear_snd (i : Nat) : ((shearRing ε R).pt i).2 = (R.pt i).2 := rfl

/-- the upper edge ends first, above the lower edge -/
theorem pairOK_up_first (h : ShX R ε Vε) {x0 : Rat} {lo up : AE}
    (hlo : Span (shearRing ε R) x0 lo) (hup : Span (shearRing ε R) x0 up)
    (hl : lexLt (R.pt up.rv) (R.pt lo.rv))
    (ho : 0 < orient (R.pt lo.lv) (R.pt lo.rv) (R.pt up.rv)) : PairOK (shearRing ε R) lo up := by
  right
  have hlt : (shearRing ε R).x up.rv < (shearRing ε R).x lo.rv := (h.key _ _ hup.rv_lt hlo.rv_lt).mpr hl
  rw [min_eq_right (le_of_lt hlt)]
  have e : hY (shearRing ε R) up ((shearRing ε R).x up.rv) = ((shearRing ε R).pt up.rv).2 :=
    lineY_right _ _ hup.lt
  rw [e]
  apply above_of_orient_pos _ _ _ hlo.lt
  rw [orient_ring]; exact ho

/-- the lower edge ends first, below the upper edge -/
theorem pairOK_lo_first (h : ShX R ε Vε) {x0 : Rat} {lo up : AE}
    (hlo : Span (shearRing ε R) x0 lo) (hup : Span (shearRing ε R) x0 up)
    (hl : lexLt (R.pt lo.rv) (R.pt up.rv))
    (ho : orient (R.pt up.lv) (R.pt up.rv) (R.pt lo.rv) < 0) : PairOK (shearRing ε R) lo up := by
  right
  have hlt : (shearRing ε R).x lo.rv < (shearRing ε R).x up.rv := (h.key _ _ hlo.rv_lt hup.rv_lt).mpr hl
  rw [min_eq_left (le_of_lt hlt)]
  have e : hY (shearRing ε R) lo ((shearRing ε R).x lo.rv) = ((shearRing ε R).pt lo.rv).2 :=
    lineY_right _ _ hlo.lt
  rw [e]
  apply below_of_orient_neg _ _ _ hup.lt
  rw [orient_ring]; exact ho

/-- left end of one active edge before the right end of another -/
theorem lv_lex_rv (h : ShX R ε Vε) {x0 : Rat} {a b : AE}
    (ha : Span (shearRing ε R) x0 a) (hb : Span (shearRing ε R) x0 b) :
    lexLt (R.pt a.lv) (R.pt b.rv) :=
  (h.key _ _ ha.lv_lt hb.rv_lt).mp (lt_of_le_of_lt ha.le hb.gt)

/-- the right end of `lo` directly below the right end of `up` -/
theorem orient_below_end (h : ShX R ε Vε) {x0 : Rat} {lo up : AE}
    (hlo : Span (shearRing ε R) x0 lo) (hup : Span (shearRing ε R) x0 up)
    (hx : (R.pt lo.rv).1 = (R.pt up.rv).1) (hy : (R.pt lo.rv).2 < (R.pt up.rv).2) :
    orient (R.pt up.lv) (R.pt up.rv) (R.pt lo.rv) < 0 := by
  have lu := edge_lexX h hup
  have hne := h.off hup.lv_lt hup.rv_lt hlo.rv_lt hup.adj (lv_lex_rv h hup hlo) (Or.inr ⟨hx, hy⟩)
  rw [orient_same_x _ _ _ hx] at hne ⊢
  have h1 : 0 ≤ (R.pt up.rv).1 - (R.pt up.lv).1 := sub_nonneg.mpr (QuadVGeom.lexLt_le lu)
  have h2 : (R.pt lo.rv).2 - (R.pt up.rv).2 < 0 := by linarith
  rcases eq_or_lt_of_le h1 with e | l
  · exfalso; apply hne; rw [← e]; ring
  · exact mul_neg_of_pos_of_neg l h2

/-- **a negative `willOverlapBot` of the edge `up` against the edge `lo` below it** -/
theorem wobX_decode (h : ShX R ε Vε) {x0 X0 : Rat} (hc : Cpl R ε x0 X0) {lo up : AE}
    (hlo : Span (shearRing ε R) x0 lo) (hup : Span (shearRing ε R) x0 up)
    (ht : wobP (Fq (R.pt up.lv)) (Fq (R.pt up.rv)) (Fq (R.pt lo.lv)) (Fq (R.pt lo.rv)) = false) :
    PairOK (shearRing ε R) lo up := by
  have ll := edge_lexX h hlo
  have lu := edge_lexX h hup
  obtain ⟨xl1, xl2⟩ := span_orig hc hlo
  obtain ⟨xu1, xu2⟩ := span_orig hc hup
  rcases h.lex_total hup.rv_lt hlo.rv_lt with l | e | l
  · -- `up` ends first
    rcases l with hx | ⟨hx, hy⟩
    · have nlo : (R.pt lo.lv).1 < (R.pt lo.rv).1 := lt_of_le_of_lt (le_trans xl1 xu2) hx
      rcases lt_trichotomy (orient (R.pt lo.lv) (R.pt lo.rv) (R.pt up.rv)) 0 with o | o | o
      · exfalso
        unfold wobP at ht
        have hxe : ofEq (Fq (R.pt up.rv)).x (Fq (R.pt lo.rv)).x = false := by
          simp only [F_x, ofEq_fin, decide_eq_false_iff_not]; exact ne_of_lt hx
        have e : minTotal (Fq (R.pt up.rv)).x (Fq (R.pt lo.rv)).x = XQ.fin (R.pt up.rv).1 :=
          minTotal_fin_le _ _ (le_of_lt hx)
        rw [hxe] at ht
        simp only [Bool.false_eq_true, if_false] at ht
        rw [e, cmpAtL_keyEnd_lt _ _ _ _ lu nlo (le_trans xl1 xu2) (le_of_lt hx) o] at ht
        exact absurd ht (by decide)
      · exact absurd o (h.off hlo.lv_lt hlo.rv_lt hup.rv_lt hlo.adj (lv_lex_rv h hlo hup) (Or.inl hx))
      · exact pairOK_up_first h hlo hup (Or.inl hx) o
    · exfalso
      unfold wobP at ht
      have hxe : ofEq (Fq (R.pt up.rv)).x (Fq (R.pt lo.rv)).x = true := by
        simp only [F_x, ofEq_fin, decide_eq_true_eq]; exact hx
      rw [hxe] at ht
      simp only [if_true] at ht
      have y1 : yExtrap (Fq (R.pt up.lv)) (Fq (R.pt up.rv)) (Fq (R.pt up.rv)).x true = XQ.fin (R.pt up.rv).2 :=
        yE_lex_right _ _ lu
      have y2 : yExtrap (Fq (R.pt lo.lv)) (Fq (R.pt lo.rv)) (Fq (R.pt up.rv)).x true = XQ.fin (R.pt lo.rv).2 := by
        show yExtrap (Fq (R.pt lo.lv)) (Fq (R.pt lo.rv)) (XQ.fin (R.pt up.rv).1) true = _
        rw [hx]; exact yE_lex_right _ _ ll
      rw [y1, y2, ofLt_fin] at ht
      simp only [decide_eq_false_iff_not, not_lt] at ht
      exact absurd hy (not_lt.mpr ht)
  · exact Or.inl e.symm
  · -- `lo` ends first
    rcases l with hx | ⟨hx, hy⟩
    · have nup : (R.pt up.lv).1 < (R.pt up.rv).1 := lt_of_le_of_lt (le_trans xu1 xl2) hx
      rcases lt_trichotomy (orient (R.pt up.lv) (R.pt up.rv) (R.pt lo.rv)) 0 with o | o | o
      · exact pairOK_lo_first h hlo hup (Or.inl hx) o
      · exact absurd o (h.off hup.lv_lt hup.rv_lt hlo.rv_lt hup.adj (lv_lex_rv h hup hlo) (Or.inl hx))
      · exfalso
        unfold wobP at ht
        have hxe : ofEq (Fq (R.pt up.rv)).x (Fq (R.pt lo.rv)).x = false := by
          simp only [F_x, ofEq_fin, decide_eq_false_iff_not]; exact ne_of_gt hx
        have e : minTotal (Fq (R.pt up.rv)).x (Fq (R.pt lo.rv)).x = XQ.fin (R.pt lo.rv).1 :=
          minTotal_fin_ge _ _ hx
        rw [hxe] at ht
        simp only [Bool.false_eq_true, if_false] at ht
        rw [e, cmpAtL_otherEnd_lt _ _ _ _ nup ll (le_trans xu1 xl2) (le_of_lt hx) o] at ht
        exact absurd ht (by decide)
    · exact pairOK_lo_first h hlo hup (Or.inr ⟨hx, hy⟩) (orient_below_end h hlo hup hx hy)

/-- **a negative `willOverlapTop` of the edge `lo` against the edge `up` above it** -/
theorem wotX_decode (h : ShX R ε Vε) {x0 X0 : Rat} (hc : Cpl R ε x0 X0) {lo up : AE}
    (hlo : Span (shearRing ε R) x0 lo) (hup : Span (shearRing ε R) x0 up)
    (ht : wotP (Fq (R.pt lo.lv)) (Fq (R.pt lo.rv)) (Fq (R.pt up.lv)) (Fq (R.pt up.rv)) = false) :
    PairOK (shearRing ε R) lo up := by
  have ll := edge_lexX h hlo
  have lu := edge_lexX h hup
  obtain ⟨xl1, xl2⟩ := span_orig hc hlo
  obtain ⟨xu1, xu2⟩ := span_orig hc hup
  rcases h.lex_total hlo.rv_lt hup.rv_lt with l | e | l
  · -- `lo` ends first
    rcases l with hx | ⟨hx, hy⟩
    · have nup : (R.pt up.lv).1 < (R.pt up.rv).1 := lt_of_le_of_lt (le_trans xu1 xl2) hx
      rcases lt_trichotomy (orient (R.pt up.lv) (R.pt up.rv) (R.pt lo.rv)) 0 with o | o | o
      · exact pairOK_lo_first h hlo hup (Or.inl hx) o
      · exact absurd o (h.off hup.lv_lt hup.rv_lt hlo.rv_lt hup.adj (lv_lex_rv h hup hlo) (Or.inl hx))
      · exfalso
        unfold wotP at ht
        have hxe : ofEq (Fq (R.pt lo.rv)).x (Fq (R.pt up.rv)).x = false := by
          simp only [F_x, ofEq_fin, decide_eq_false_iff_not]; exact ne_of_lt hx
        have e : minTotal (Fq (R.pt lo.rv)).x (Fq (R.pt up.rv)).x = XQ.fin (R.pt lo.rv).1 :=
          minTotal_fin_le _ _ (le_of_lt hx)
        rw [hxe] at ht
        simp only [Bool.false_eq_true, if_false] at ht
        rw [e, cmpAtL_keyEnd_gt _ _ _ _ ll nup (le_trans xu1 xl2) (le_of_lt hx) o] at ht
        exact absurd ht (by decide)
    · exact pairOK_lo_first h hlo hup (Or.inr ⟨hx, hy⟩) (orient_below_end h hlo hup hx hy)
  · exact Or.inl e
  · -- `up` ends first
    rcases l with hx | ⟨hx, hy⟩
    · have nlo : (R.pt lo.lv).1 < (R.pt lo.rv).1 := lt_of_le_of_lt (le_trans xl1 xu2) hx
      rcases lt_trichotomy (orient (R.pt lo.lv) (R.pt lo.rv) (R.pt up.rv)) 0 with o | o | o
      · exfalso
        unfold wotP at ht
        have hxe : ofEq (Fq (R.pt lo.rv)).x (Fq (R.pt up.rv)).x = false := by
          simp only [F_x, ofEq_fin, decide_eq_false_iff_not]; exact ne_of_gt hx
        have e : minTotal (Fq (R.pt lo.rv)).x (Fq (R.pt up.rv)).x = XQ.fin (R.pt up.rv).1 :=
          minTotal_fin_ge _ _ hx
        rw [hxe] at ht
        simp only [Bool.false_eq_true, if_false] at ht
        rw [e, cmpAtL_otherEnd_gt _ _ _ _ nlo lu (le_trans xl1 xu2) (le_of_lt hx) o] at ht
        exact absurd ht (by decide)
      · exact absurd o (h.off hlo.lv_lt hlo.rv_lt hup.rv_lt hlo.adj (lv_lex_rv h hlo hup) (Or.inl hx))
      · exact pairOK_up_first h hlo hup (Or.inl hx) o
    · exfalso
      unfold wotP at ht
      have hxe : ofEq (Fq (R.pt lo.rv)).x (Fq (R.pt up.rv)).x = true := by
        simp only [F_x, ofEq_fin, decide_eq_true_eq]; exact hx.symm
      rw [hxe] at ht
      simp only [if_true] at ht
      have y1 : yExtrap (Fq (R.pt lo.lv)) (Fq (R.pt lo.rv)) (Fq (R.pt lo.rv)).x true = XQ.fin (R.pt lo.rv).2 :=
        yE_lex_right _ _ ll
      have y2 : yExtrap (Fq (R.pt up.lv)) (Fq (R.pt up.rv)) (Fq (R.pt lo.rv)).x true = XQ.fin (R.pt up.rv).2 := by
        show yExtrap (Fq (R.pt up.lv)) (Fq (R.pt up.rv)) (XQ.fin (R.pt lo.rv).1) true = _
        rw [← hx]; exact yE_lex_right _ _ lu
      rw [y1, y2, ofGt_fin] at ht
      simp only [decide_eq_false_iff_not, not_lt] at ht
      exact absurd hy (not_lt.mpr ht)

end Cav.GenXV
